(* AllocProofs.v — invariants and run-level theorems of the C20 cost model (AllocDefs.v) *)
From Cocls Require Import Base BaseProofs AllocDefs.
Require Import ZifyBool.
Ltac Zify.zify_post_hook ::= Z.div_mod_to_equations.
Local Open Scope Z_scope.

Arguments dq_pushes : simpl never.
Arguments dq_pops : simpl never.
Arguments sp_add_all : simpl never.
Arguments run_items : simpl never.
Arguments walk : simpl never.
Arguments sort_ev : simpl never.
Arguments Z.mul : simpl never.
Arguments Z.add : simpl never.
Arguments Z.div : simpl never.
Arguments Z.modulo : simpl never.

(* ---------- cost algebra ---------- *)
Lemma cadd_c0_l c : cadd c0 c = c. Proof. destruct c as [a b f g]; reflexivity. Qed.
Lemma cadd_c0_r c : cadd c c0 = c.
Proof. destruct c as [a b f g]; unfold cadd, c0; cbn [c_a c_ab c_f c_fb]; f_equal; lia. Qed.
Lemma cadd_c0_c0 : cadd c0 c0 = c0. Proof. reflexivity. Qed.

Definition cnonneg (c : cost) : Prop := 0 <= c_a c /\ 0 <= c_f c.
Lemma cnonneg_c0 : cnonneg c0. Proof. unfold cnonneg; cbn; lia. Qed.
Lemma cnonneg_add a b : cnonneg a -> cnonneg b -> cnonneg (cadd a b).
Proof. unfold cnonneg, cadd; cbn [c_a c_f]; lia. Qed.

Lemma zlen_app {A} (a b : list A) : zlen (a ++ b) = zlen a + zlen b.
Proof. unfold zlen. rewrite app_length. lia. Qed.
Lemma zlen_nonneg {A} (a : list A) : 0 <= zlen a. Proof. unfold zlen. lia. Qed.
Lemma zlen_cons {A} (x : A) a : zlen (x :: a) = 1 + zlen a.
Proof. unfold zlen. cbn [length]. lia. Qed.
Lemma zlen_nil {A} : zlen (@nil A) = 0. Proof. reflexivity. Qed.

(* ---------- the deque cursor ---------- *)
Lemma dq_push_spec d d' c : dq_push d = (d', c) ->
  dq_head d' = dq_head d /\ dq_tail d' = dq_tail d + 1 /\ cnonneg c /\
  (dq_tail d / node_len = (dq_tail d + 1) / node_len -> c = c0).
Proof.
  unfold dq_push, node_len. destruct (dq_tail d mod 64 =? 64 - 1) eqn:E.
  - destruct (dq_reserve_back d) as [d1 c1] eqn:R. intros H; inversion H; subst; clear H. cbn [dq_head dq_tail].
    unfold dq_reserve_back in R.
    assert (dq_head d1 = dq_head d /\ dq_tail d1 = dq_tail d /\ cnonneg c1) as (H1 & H2 & H3).
    { destruct (dq_map d - dq_fn d <? 2); [destruct (2 * (dq_fn d - dq_sn d + 1 + 1) <? dq_map d)|];
      inversion R; subst; cbn [dq_head dq_tail]; repeat split; try apply cnonneg_c0; unfold cnonneg; cbn; lia. }
    split; [lia|]. split; [lia|]. split.
    + apply cnonneg_add; [exact H3|unfold cnonneg; cbn; lia].
    + intros. exfalso. lia.
  - intros H; inversion H; subst; clear H. cbn [dq_head dq_tail].
    split; [lia|]. split; [lia|]. split; [apply cnonneg_c0|reflexivity].
Qed.

Lemma dq_pop_spec d d' c : dq_pop d = (d', c) ->
  dq_head d' = dq_head d + 1 /\ dq_tail d' = dq_tail d /\ cnonneg c /\
  (dq_head d / node_len = (dq_head d + 1) / node_len -> c = c0).
Proof.
  unfold dq_pop, node_len. destruct (dq_head d mod 64 =? 64 - 1) eqn:E; intros H; inversion H; subst; clear H;
    cbn [dq_head dq_tail]; (split; [lia|]); (split; [lia|]); split.
  - unfold cnonneg; cbn; lia.
  - intros. exfalso. lia.
  - apply cnonneg_c0.
  - reflexivity.
Qed.

Lemma dq_pushes_spec k : forall d d' c, dq_pushes d k = (d', c) ->
  dq_head d' = dq_head d /\ dq_tail d' = dq_tail d + Z.of_nat k /\ cnonneg c /\
  (dq_tail d / node_len = (dq_tail d + Z.of_nat k) / node_len -> c = c0).
Proof.
  induction k as [|k IH]; intros d d' c; unfold dq_pushes; fold dq_pushes.
  - intros H; inversion H; subst. split; [lia|]. split; [lia|]. split; [apply cnonneg_c0|reflexivity].
  - destruct (dq_push d) as [d1 c1] eqn:P. destruct (dq_pushes d1 k) as [d2 c2] eqn:Q.
    intros H; inversion H; subst; clear H.
    apply dq_push_spec in P. destruct P as (P1 & P2 & P3 & P4).
    apply IH in Q. destruct Q as (Q1 & Q2 & Q3 & Q4).
    split; [lia|]. split; [lia|]. split.
    + apply cnonneg_add; assumption.
    + intros E. unfold node_len in *.
      assert (c1 = c0) as -> by (apply P4; lia). assert (c2 = c0) as -> by (apply Q4; rewrite P2; lia). reflexivity.
Qed.

Lemma dq_pops_spec k : forall d d' c, dq_pops d k = (d', c) ->
  dq_head d' = dq_head d + Z.of_nat k /\ dq_tail d' = dq_tail d /\ cnonneg c /\
  (dq_head d / node_len = (dq_head d + Z.of_nat k) / node_len -> c = c0).
Proof.
  induction k as [|k IH]; intros d d' c; unfold dq_pops; fold dq_pops.
  - intros H; inversion H; subst. split; [lia|]. split; [lia|]. split; [apply cnonneg_c0|reflexivity].
  - destruct (dq_pop d) as [d1 c1] eqn:P. destruct (dq_pops d1 k) as [d2 c2] eqn:Q.
    intros H; inversion H; subst; clear H.
    apply dq_pop_spec in P. destruct P as (P1 & P2 & P3 & P4).
    apply IH in Q. destruct Q as (Q1 & Q2 & Q3 & Q4).
    split; [lia|]. split; [lia|]. split.
    + apply cnonneg_add; assumption.
    + intros E. unfold node_len in *.
      assert (c1 = c0) as -> by (apply P4; lia). assert (c2 = c0) as -> by (apply Q4; rewrite P1; lia). reflexivity.
Qed.

(* ---------- suspend points ---------- *)
Definition sp_wf (s : spt) : Prop :=
  (sp_flag s = true -> 3 < sp_size s) /\ (sp_flag s = false -> sp_size s <= 3).

Lemma sp_wf_empty : sp_wf sp_empty.
Proof. unfold sp_wf, sp_empty, sp_size; cbn. split; [discriminate|]. intros; unfold zlen; cbn; lia. Qed.

Lemma sp_add_spec s h s' c : sp_wf s -> sp_add s h = (s', c) ->
  sp_wf s' /\ sp_hs s' = sp_hs s ++ [h] /\ cnonneg c /\ (sp_size s' <= 3 -> c = c0) /\
  (sp_flag s = false -> sp_size s = 3 -> c = c_alloc 48).
Proof.
  unfold sp_wf, sp_add, sp_size, inline_count. intros [W1 W2].
  pose proof (zlen_app (sp_hs s) [h]) as L. rewrite (zlen_cons h []), zlen_nil in L.
  destruct (sp_flag s) eqn:F.
  - specialize (W1 eq_refl). destruct (zlen (sp_hs s) =? sp_cap s) eqn:E; intros H; inversion H; subst; clear H;
      cbn [sp_flag sp_hs]; rewrite L.
    + split; [split; [lia|discriminate]|]. split; [reflexivity|]. split; [unfold cnonneg; cbn; lia|].
      split; [lia|discriminate].
    + split; [split; [lia|discriminate]|]. split; [reflexivity|]. split; [apply cnonneg_c0|].
      split; [reflexivity|discriminate].
  - specialize (W2 eq_refl). destruct (zlen (sp_hs s) <? 3) eqn:E; intros H; inversion H; subst; clear H;
      cbn [sp_flag sp_hs]; rewrite L.
    + split; [split; [discriminate|lia]|]. split; [reflexivity|]. split; [apply cnonneg_c0|].
      split; [reflexivity|lia].
    + split; [split; [lia|discriminate]|]. split; [reflexivity|]. split; [unfold cnonneg; cbn; lia|].
      split; [lia|]. intros _ E3. rewrite E3. reflexivity.
Qed.

Lemma sp_add_all_spec l : forall s s' c, sp_wf s -> sp_add_all s l = (s', c) ->
  sp_wf s' /\ sp_hs s' = sp_hs s ++ l /\ cnonneg c /\ (sp_size s' <= 3 -> c = c0).
Proof.
  induction l as [|h l IH]; intros s s' c W; unfold sp_add_all; fold sp_add_all.
  - intros H; inversion H; subst. rewrite app_nil_r. split; [exact W|]. split; [reflexivity|]. split; [apply cnonneg_c0|reflexivity].
  - destruct (sp_add s h) as [s1 c1] eqn:A. destruct (sp_add_all s1 l) as [s2 c2] eqn:B.
    intros H; inversion H; subst; clear H.
    destruct (sp_add_spec _ _ _ _ W A) as (W1 & H1 & N1 & Z1 & _).
    destruct (IH _ _ _ W1 B) as (W2 & H2 & N2 & Z2).
    split; [exact W2|]. split; [|split].
    + rewrite H2, H1, <- app_assoc. reflexivity.
    + apply cnonneg_add; assumption.
    + intros S. rewrite Z2 by exact S. rewrite Z1; [reflexivity|].
      unfold sp_size in *. rewrite H2, zlen_app in S. pose proof (zlen_nonneg l). lia.
Qed.

Lemma sp_clear_cost_spec s : sp_wf s -> cnonneg (sp_clear_cost s) /\ (sp_size s <= 3 -> sp_clear_cost s = c0).
Proof.
  unfold sp_wf, sp_clear_cost. intros [W1 W2]. destruct (sp_flag s).
  - specialize (W1 eq_refl). split; [unfold cnonneg; cbn; lia|lia].
  - split; [apply cnonneg_c0|reflexivity].
Qed.

Lemma sp_merge_spec d s d' c : sp_wf d -> sp_wf s -> sp_merge d s = (d', c) ->
  sp_wf d' /\ sp_hs d' = sp_hs d ++ sp_hs s /\ cnonneg c /\ (sp_size d' <= 3 -> c = c0).
Proof.
  intros Wd Ws. unfold sp_merge. destruct (sp_add_all d (sp_hs s)) as [d1 c1] eqn:A.
  intros H; inversion H; subst; clear H.
  destruct (sp_add_all_spec _ _ _ _ Wd A) as (W1 & H1 & N1 & Z1).
  destruct (sp_clear_cost_spec s Ws) as (N2 & Z2).
  split; [exact W1|]. split; [exact H1|]. split.
  - apply cnonneg_add; assumption.
  - intros S. rewrite Z1 by exact S. rewrite Z2; [reflexivity|].
    unfold sp_size in *. rewrite H1, zlen_app in S. pose proof (zlen_nonneg (sp_hs d)). lia.
Qed.

(* the threshold: from an empty suspend point, the first allocation is exactly the 4th handle (one array of 6 pointers) *)
Lemma sp_threshold_le3 l : (length l <= 3)%nat ->
  snd (sp_add_all sp_empty l) = c0 /\ sp_flag (fst (sp_add_all sp_empty l)) = false.
Proof.
  intros L. destruct (sp_add_all sp_empty l) as [s c] eqn:A.
  destruct (sp_add_all_spec _ _ _ _ sp_wf_empty A) as (W & H & N & Z).
  assert (sp_size s <= 3) as S by (unfold sp_size; rewrite H; cbn [sp_hs sp_empty app]; unfold zlen; lia).
  cbn [fst snd]. split; [apply Z; exact S|]. destruct W as [W1 _]. destruct (sp_flag s); [specialize (W1 eq_refl); lia|reflexivity].
Qed.

Lemma sp_threshold_4th a b c0' d :
  snd (sp_add_all sp_empty [a; b; c0']) = c0 /\
  snd (sp_add (fst (sp_add_all sp_empty [a; b; c0'])) d) = c_alloc 48.
Proof. split; reflexivity. Qed.

Lemma sp_add_all_alloc_pos l : forall s, sp_wf s -> sp_flag s = false -> 3 < sp_size s + zlen l ->
  1 <= c_a (snd (sp_add_all s l)).
Proof.
  induction l as [|h l IH]; intros s W F S; unfold sp_add_all; fold sp_add_all.
  - rewrite zlen_nil in S. destruct W as [_ W2]. specialize (W2 F). lia.
  - destruct (sp_add s h) as [s1 c1] eqn:A. destruct (sp_add_all s1 l) as [s2 c2] eqn:B. cbn [snd].
    destruct (sp_add_spec _ _ _ _ W A) as (W1 & H1 & N1 & Z1 & T1).
    destruct (sp_add_all_spec _ _ _ _ W1 B) as (_ & _ & N2 & _).
    rewrite zlen_cons in S.
    destruct (Z.eq_dec (sp_size s) 3) as [E|E].
    + rewrite (T1 F E). unfold cadd, c_alloc; cbn [c_a]. destruct N2. lia.
    + assert (sp_flag s1 = false) as F1.
      { unfold sp_add, inline_count in A. rewrite F in A. destruct W as [_ W2]. specialize (W2 F).
        destruct (sp_size s <? 3) eqn:E3; [|lia]. inversion A; reflexivity. }
      assert (sp_size s1 = sp_size s + 1) as S1.
      { unfold sp_size. rewrite H1, zlen_app, zlen_cons, zlen_nil. lia. }
      specialize (IH s1 W1 F1). rewrite B in IH. cbn [snd] in IH.
      unfold cadd; cbn [c_a]. destruct N1. lia.
Qed.

(* ---------- states ---------- *)
Definition same3 (st st' : state) : Prop := slots st' = slots st /\ rq st' = rq st /\ dq st' = dq st.

Definition Inv (st : state) : Prop :=
  Forall sp_wf (slots st) /\ 0 <= dq_head (dq st) /\ dq_head (dq st) + zlen (rq st) = dq_tail (dq st).

Lemma same3_refl st : same3 st st. Proof. unfold same3; auto. Qed.
Lemma same3_trans a b c : same3 a b -> same3 b c -> same3 a c.
Proof. unfold same3. intros (A1 & A2 & A3) (B1 & B2 & B3). rewrite B1, B2, B3. auto. Qed.
Lemma Inv_same3 st st' : same3 st st' -> Inv st -> Inv st'.
Proof. unfold same3, Inv. intros (A1 & A2 & A3). rewrite A1, A2, A3. auto. Qed.

Lemma same3_setf st f x : same3 st (setf st f x). Proof. unfold same3; cbn; auto. Qed.
Lemma same3_setm st f x : same3 st (setm st f x). Proof. unfold same3; cbn; auto. Qed.
Lemma same3_setg st f x : same3 st (setg st f x). Proof. unfold same3; cbn; auto. Qed.
Lemma same3_seth st f x : same3 st (seth st f x). Proof. unfold same3; cbn; auto. Qed.
Lemma same3_setc st f x : same3 st (setc st f x). Proof. unfold same3; cbn; auto. Qed.
Lemma same3_addlive st k : same3 st (addlive st k). Proof. unfold same3; cbn; auto. Qed.
#[local] Hint Resolve same3_refl same3_setf same3_setm same3_setg same3_seth same3_setc same3_addlive : s3.

Lemma same3_release st w : same3 st (release_waiter st w).
Proof. unfold release_waiter. destruct w as [k i]. destruct (k =? 1); [|destruct (k =? 2)]; auto with s3. Qed.

Lemma Inv_st0 : Inv st0.
Proof.
  unfold Inv, st0; cbn [slots dq rq dq_head dq_tail dq0]. split; [|split; [lia|reflexivity]].
  apply Forall_forall. intros x H. apply repeat_spec in H. subst. apply sp_wf_empty.
Qed.

Lemma Forall_set_nth {A} (P : A -> Prop) l i x : Forall P l -> P x -> Forall P (set_nth l i x).
Proof.
  intros H Px. revert i. induction H as [|y l Py Hl IH]; intros [|i]; cbn [set_nth]; constructor; auto.
Qed.

Lemma gets_wf st s : Forall sp_wf (slots st) -> sp_wf (gets st s).
Proof.
  intros H. unfold gets. destruct (nth_in_or_default (n s) (slots st) sp_empty) as [I|E].
  - rewrite Forall_forall in H. apply H. exact I.
  - rewrite E. apply sp_wf_empty.
Qed.

Lemma run_item_same st it st' e : run_item st it = (st', e) -> same3 st st'.
Proof.
  unfold run_item. destruct it as [[k w] o]. destruct (k =? 0); intros H; inversion H; subst.
  - auto with s3.
  - eapply same3_trans; [apply same3_setm|apply same3_addlive].
Qed.

Lemma run_items_same l : forall st st' ev, run_items st l = (st', ev) -> same3 st st'.
Proof.
  induction l as [|it l IH]; intros st st' ev; unfold run_items; fold run_items.
  - intros H; inversion H; subst. apply same3_refl.
  - destruct (run_item st it) as [st1 e] eqn:R. destruct (run_items st1 l) as [st2 es] eqn:Q.
    intros H; inversion H; subst. eapply same3_trans; [eapply run_item_same; exact R|eapply IH; exact Q].
Qed.

(* the driver suspends and the queue is drained *)
Lemma suspend_drain_spec st first pushed st' ev c k : Inv st -> suspend_drain st first pushed = (st', ev, c, k) ->
  Inv st' /\ slots st' = slots st /\ dq_tail (dq st) <= dq_tail (dq st') /\ cnonneg c /\ 0 <= k /\
  (dq_tail (dq st') <= 63 -> c = c0).
Proof.
  intros (I1 & I2 & I3). unfold suspend_drain.
  destruct (dq_pushes (dq st) (length pushed + 1)) as [d1 c1] eqn:P.
  destruct (dq_pops d1 (length (rq st) + length pushed + 1)) as [d2 c2] eqn:Q.
  destruct (run_items (setq st [] d2) (first ++ rq st ++ pushed)) as [st1 ev1] eqn:R.
  intros H; inversion H; subst; clear H.
  apply dq_pushes_spec in P. destruct P as (P1 & P2 & P3 & P4).
  apply dq_pops_spec in Q. destruct Q as (Q1 & Q2 & Q3 & Q4).
  apply run_items_same in R. destruct R as (R1 & R2 & R3). cbn [setq slots rq dq] in R1, R2, R3.
  unfold zlen in *. unfold node_len in *.
  split; [|split; [exact R1|split; [|split; [|split]]]].
  - unfold Inv. rewrite R1, R2, R3. split; [exact I1|]. cbn [length]. unfold zlen. cbn [length]. lia.
  - rewrite R3. lia.
  - apply cnonneg_add; assumption.
  - lia.
  - rewrite R3. intros T. rewrite P4, Q4; [reflexivity| |]; lia.
Qed.

Lemma dispose_spec coro how s st sp st' ev csp cdq k sps : Inv st -> sp_wf sp ->
  dispose coro how s st sp = (st', ev, csp, cdq, k, sps) ->
  Inv st' /\ dq_tail (dq st) <= dq_tail (dq st') /\ (dq_tail (dq st') <= 63 -> cdq = c0) /\
  (coro = false -> cdq = c0 /\ dq st' = dq st /\ rq st' = rq st) /\
  cnonneg csp /\ 0 <= k /\ (sps <= 3 -> csp = c0).
Proof.
  intros I W. unfold dispose. destruct (how =? 2) eqn:H2.
  { destruct (sp_merge (gets st s) sp) as [d1 c] eqn:M. intros H; inversion H; subst; clear H.
    destruct I as (I1 & I2 & I3).
    destruct (sp_merge_spec _ _ _ _ (gets_wf st s I1) W M) as (W1 & _ & N1 & Z1).
    split; [|split; [cbn; lia|split; [auto|split; [auto|split; [exact N1|split; [lia|exact Z1]]]]]].
    unfold Inv; cbn [sets slots rq dq]. split; [|auto]. apply Forall_set_nth; assumption. }
  destruct (sp_clear_cost_spec sp W) as (NC & ZC).
  destruct coro; cbn [negb].
  2:{ destruct (run_items st (sp_hs sp)) as [st1 ev1] eqn:R. intros H; inversion H; subst; clear H.
      apply run_items_same in R. pose proof (Inv_same3 _ _ R I) as I'. destruct R as (R1 & R2 & R3).
      split; [exact I'|]. rewrite R3. split; [lia|]. split; [auto|]. split; [auto|]. split; [exact NC|].
      split; [apply zlen_nonneg|exact ZC]. }
  destruct (how =? 0) eqn:H0.
  { destruct (dq_pushes (dq st) (length (sp_hs sp))) as [d1 c] eqn:P. intros H; inversion H; subst; clear H.
    apply dq_pushes_spec in P. destruct P as (P1 & P2 & P3 & P4). destruct I as (I1 & I2 & I3).
    unfold node_len in *.
    split; [|split; [cbn [setq dq]; lia|split; [|split; [discriminate|split; [exact NC|split; [lia|exact ZC]]]]]].
    - unfold Inv; cbn [setq slots rq dq]. split; [exact I1|]. rewrite zlen_app. unfold zlen in *. lia.
    - cbn [setq dq]. intros T. apply P4. pose proof (zlen_nonneg (rq st)). lia. }
  destruct (sp_hs sp) as [|h0 t0] eqn:E.
  { intros H; inversion H; subst; clear H.
    split; [exact I|]. split; [lia|]. split; [auto|]. split; [auto|]. split; [exact NC|]. split; [lia|exact ZC]. }
  destruct (suspend_drain st [last (h0 :: t0) h0] (removelast (h0 :: t0))) as [[[st1 ev1] c] k1] eqn:D.
  intros H; inversion H; subst; clear H.
  destruct (suspend_drain_spec _ _ _ _ _ _ _ I D) as (I' & S1 & T1 & N1 & K1 & Z1).
  split; [exact I'|]. split; [exact T1|]. split; [exact Z1|]. split; [discriminate|]. split; [exact NC|]. split; [exact K1|exact ZC].
Qed.

Lemma walk_size_mono f out v l : forall st sp st' sp' c cb sy, sp_wf sp ->
  walk f out v st sp l = (st', sp', c, cb, sy) -> sp_size sp <= sp_size sp'.
Proof.
  induction l as [|w l IH]; intros st sp st' sp' c cb sy W; unfold walk; fold walk.
  - intros H; inversion H; subst. lia.
  - destruct w as [k i]. destruct (k =? 0).
    + destruct (sp_add sp (0, i, f)) as [sp1 c1] eqn:A.
      destruct (walk f out v (release_waiter st (k, i)) sp1 l) as [[[[st2 sp2] c2] cb2] sy2] eqn:Q.
      intros H; inversion H; subst; clear H.
      destruct (sp_add_spec _ _ _ _ W A) as (W1 & H1 & _).
      pose proof (IH _ _ _ _ _ _ _ W1 Q) as M. unfold sp_size in *. rewrite H1, zlen_app, zlen_cons, zlen_nil in M.
      lia.
    + destruct (walk f out v (release_waiter st (k, i)) sp l) as [[[[st2 sp2] c2] cb2] sy2] eqn:Q.
      pose proof (IH _ _ _ _ _ _ _ W Q) as M.
      destruct (k =? 2); intros H; inversion H; subst; clear H; exact M.
Qed.

Lemma walk_spec f out v l : forall st sp st' sp' c cb sy, sp_wf sp ->
  walk f out v st sp l = (st', sp', c, cb, sy) ->
  same3 st st' /\ sp_wf sp' /\ cnonneg c /\ (sp_size sp' <= 3 -> c = c0).
Proof.
  induction l as [|w l IH]; intros st sp st' sp' c cb sy W; unfold walk; fold walk.
  - intros H; inversion H; subst. split; [apply same3_refl|]. split; [exact W|]. split; [apply cnonneg_c0|reflexivity].
  - destruct w as [k i]. destruct (k =? 0) eqn:K.
    + destruct (sp_add sp (0, i, f)) as [sp1 c1] eqn:A.
      destruct (walk f out v (release_waiter st (k, i)) sp1 l) as [[[[st2 sp2] c2] cb2] sy2] eqn:Q.
      intros H; inversion H; subst; clear H.
      destruct (sp_add_spec _ _ _ _ W A) as (W1 & H1 & N1 & Z1 & _).
      destruct (IH _ _ _ _ _ _ _ W1 Q) as (S & W2 & N2 & Z2).
      pose proof (walk_size_mono _ _ _ _ _ _ _ _ _ _ _ W1 Q) as M.
      split; [eapply same3_trans; [apply same3_release|exact S]|]. split; [exact W2|]. split; [apply cnonneg_add; assumption|].
      intros L. rewrite Z2 by exact L. rewrite Z1; [reflexivity|lia].
    + destruct (walk f out v (release_waiter st (k, i)) sp l) as [[[[st2 sp2] c2] cb2] sy2] eqn:Q.
      destruct (IH _ _ _ _ _ _ _ W Q) as (S & W2 & N2 & Z2).
      destruct (k =? 2); intros H; inversion H; subst; clear H;
        (split; [eapply same3_trans; [apply same3_release|exact S]|]; split; [exact W2|]; split; [exact N2|exact Z2]).
Qed.

(* ---------- one step ---------- *)
Definition frame_ok (heap : bool) (x : op) (o : obs) : Prop :=
  c_a (o_cfr o) = (if heap then frames_of x else 0) /\ 0 <= c_f (o_cfr o) /\ (heap = false -> c_f (o_cfr o) = 0).

Definition step_ok (coro heap : bool) (st : state) (x : op) (st' : state) (o : obs) : Prop :=
  Inv st' /\ dq_tail (dq st) <= dq_tail (dq st') /\
  (dq_tail (dq st') <= 63 -> o_cdq o = c0) /\
  (coro = false -> o_cdq o = c0 /\ dq st' = dq st /\ rq st' = rq st) /\
  (o = rejected \/ (o_st o = 0 /\ (o_sps o <= 3 -> o_csp o = c0) /\ frame_ok heap x o)).

Lemma rejected_ok (coro heap : bool) st x : Inv st -> step_ok coro heap st x st rejected.
Proof.
  intros I. unfold step_ok, rejected; cbn [o_st o_cdq]. split; [exact I|]. split; [lia|]. split; [auto|]. split; [auto|]. left; reflexivity.
Qed.

Lemma frames_freed_ok (heap : bool) k : 0 <= k ->
  c_a (frames_freed heap k) = 0 /\ 0 <= c_f (frames_freed heap k) /\ (heap = false -> c_f (frames_freed heap k) = 0).
Proof. intros K. unfold frames_freed. destruct heap; cbn [c_a c_f c0]; repeat split; try lia; discriminate. Qed.

Lemma frame_new_freed_ok (heap : bool) k : 0 <= k ->
  c_a (cadd (frame_new heap) (frames_freed heap k)) = (if heap then 1 else 0) /\
  0 <= c_f (cadd (frame_new heap) (frames_freed heap k)) /\
  (heap = false -> c_f (cadd (frame_new heap) (frames_freed heap k)) = 0).
Proof.
  intros K. unfold frames_freed, frame_new, cadd, c_alloc. destruct heap; cbn [c_a c_f c0]; repeat split; try lia; discriminate.
Qed.

Lemma simple_ok (coro heap : bool) st x st' res cfr ev : Inv st -> same3 st st' ->
  c_a cfr = (if heap then frames_of x else 0) -> 0 <= c_f cfr -> (heap = false -> c_f cfr = 0) ->
  step_ok coro heap st x st' (mkObs 0 res 0 cfr c0 c0 ev).
Proof.
  intros I S A B C. pose proof (Inv_same3 _ _ S I) as I'. destruct S as (S1 & S2 & S3).
  unfold step_ok; cbn [o_st o_cdq o_sps o_csp]. split; [exact I'|]. rewrite S3. split; [lia|]. split; [auto|]. split; [auto|].
  right. split; [reflexivity|]. split; [auto|]. unfold frame_ok; cbn [o_cfr]. auto.
Qed.

Lemma c0_frames (heap : bool) x : frames_of x = 0 -> c_a c0 = (if heap then frames_of x else 0).
Proof. intros ->. destruct heap; reflexivity. Qed.

Lemma after_start_spec coro mode st ev0 st' ev c k : Inv st -> mode_ok coro mode = true ->
  after_start coro mode st ev0 = (st', ev, c, k) ->
  Inv st' /\ dq_tail (dq st) <= dq_tail (dq st') /\ cnonneg c /\ 0 <= k /\ (dq_tail (dq st') <= 63 -> c = c0) /\
  (coro = false -> c = c0 /\ dq st' = dq st /\ rq st' = rq st).
Proof.
  intros I M. unfold after_start. destruct (mode =? 1) eqn:E.
  - destruct (suspend_drain st [] []) as [[[st1 ev1] c1] k1] eqn:D. intros H; inversion H; subst; clear H.
    destruct (suspend_drain_spec _ _ _ _ _ _ _ I D) as (I' & S1 & T1 & N1 & K1 & Z1).
    split; [exact I'|]. split; [exact T1|]. split; [exact N1|]. split; [exact K1|]. split; [exact Z1|].
    intros ->. unfold mode_ok in M. exfalso. lia.
  - intros H; inversion H; subst; clear H. split; [exact I|]. split; [lia|]. split; [apply cnonneg_c0|].
    split; [lia|]. split; [auto|]. auto.
Qed.

Ltac andb_split := repeat match goal with H : _ && _ = true |- _ => apply andb_prop in H; destruct H end.

(* a step that starts a coroutine (frame allocated) and possibly suspends the driver *)
Lemma started_ok (coro heap : bool) st x sta st' mode ev0 ev c k res extra :
  Inv st -> same3 st sta -> mode_ok coro mode = true -> frames_of x = 1 -> 0 <= extra ->
  after_start coro mode sta ev0 = (st', ev, c, k) ->
  step_ok coro heap st x st' (mkObs 0 res 0 (cadd (frame_new heap) (frames_freed heap (k + extra))) c0 c ev).
Proof.
  intros I S M F X A. pose proof (Inv_same3 _ _ S I) as Ia. destruct S as (S1 & S2 & S3).
  destruct (after_start_spec _ _ _ _ _ _ _ _ Ia M A) as (I' & T & N & K & Z & Zn).
  unfold step_ok; cbn [o_st o_cdq o_sps o_csp]. rewrite <- S3. split; [exact I'|]. split; [exact T|]. split; [exact Z|].
  split; [intros C; destruct (Zn C) as (Z1 & Z2 & Z3); rewrite Z2, Z3, S2; auto|].
  right. split; [reflexivity|]. split; [auto|]. unfold frame_ok; cbn [o_cfr]. rewrite F.
  apply frame_new_freed_ok. lia.
Qed.

(* a step that produces a suspend point and disposes of it *)
Lemma disposed_ok (coro heap : bool) st x sta st' how s sp ev csp0 csp cdq k sps res evs :
  Inv st -> same3 st sta -> sp_wf sp -> frames_of x = 0 -> cnonneg csp0 -> (sp_size sp <= 3 -> csp0 = c0) ->
  (sp_size sp <= sps) ->
  dispose coro how s sta sp = (st', ev, csp, cdq, k, sps) ->
  step_ok coro heap st x st' (mkObs 0 res sps (frames_freed heap k) (cadd csp0 csp) cdq evs).
Proof.
  intros I S W F N0 Z0 L D. pose proof (Inv_same3 _ _ S I) as Ia. destruct S as (S1 & S2 & S3).
  destruct (dispose_spec _ _ _ _ _ _ _ _ _ _ _ Ia W D) as (I' & T & Z & Zn & N & K & Zs).
  unfold step_ok; cbn [o_st o_cdq o_sps o_csp]. rewrite <- S3. split; [exact I'|]. split; [exact T|]. split; [exact Z|].
  split; [intros C; destruct (Zn C) as (Z1 & Z2 & Z3); rewrite Z2, Z3, S2; auto|].
  right. split; [reflexivity|]. split.
  - intros L3. rewrite Zs by exact L3. rewrite Z0 by lia. reflexivity.
  - unfold frame_ok; cbn [o_cfr]. rewrite F. destruct (frames_freed_ok heap k K) as (A & B & C). rewrite A.
    split; [destruct heap; reflexivity|]. auto.
Qed.

Lemma dispose_sps coro how s st sp st' ev csp cdq k sps : Inv st -> sp_wf sp ->
  dispose coro how s st sp = (st', ev, csp, cdq, k, sps) -> sp_size sp <= sps.
Proof.
  intros I W. unfold dispose. destruct (how =? 2).
  { destruct (sp_merge (gets st s) sp) as [d1 c] eqn:M. intros H; inversion H; subst; clear H.
    destruct I as (I1 & _). destruct (sp_merge_spec _ _ _ _ (gets_wf st s I1) W M) as (_ & H1 & _).
    unfold sp_size. rewrite H1, zlen_app. pose proof (zlen_nonneg (sp_hs (gets st s))). lia. }
  destruct (negb coro).
  { destruct (run_items st (sp_hs sp)). intros H; inversion H; subst. lia. }
  destruct (how =? 0).
  { destruct (dq_pushes (dq st) (length (sp_hs sp))). intros H; inversion H; subst. lia. }
  destruct (sp_hs sp) eqn:E.
  { intros H; inversion H; subst. lia. }
  destruct (suspend_drain st [last (i :: l) i] (removelast (i :: l))) as [[[? ?] ?] ?]. intros H; inversion H; subst. lia.
Qed.

Theorem step_spec coro heap st x : Inv st ->
  step_ok coro heap st x (fst (step coro heap st x)) (snd (step coro heap st x)).
Proof.
  intros I. destruct x; unfold step.
  - (* FNew *)
    destruct (inr f NF && inr ty 2 && (f_st (getf st f) =? 0)); cbn [fst snd]; [|apply rejected_ok; exact I].
    apply simple_ok; auto with s3; try apply c0_frames; cbn; try reflexivity; lia.
  - (* FGetP *)
    destruct (inr f NF && (f_st (getf st f) =? 1)); cbn [fst snd]; [|apply rejected_ok; exact I].
    apply simple_ok; auto with s3; try apply c0_frames; cbn; try reflexivity; lia.
  - (* FAwaitCoro *)
    destruct (inr f NF && mode_ok coro mode && ((f_st (getf st f) =? 2) || (f_st (getf st f) =? 3))) eqn:C;
      cbn [fst snd]; [|apply rejected_ok; exact I].
    andb_split. destruct (f_st (getf st f) =? 3).
    + destruct (after_start coro mode st [(w, f_out (getf st f), f_val (getf st f))]) as [[[st1 ev] c] k] eqn:A. cbn [fst snd].
      eapply started_ok; try exact A; auto with s3; lia.
    + match goal with |- context [after_start coro mode ?sa ?e] => destruct (after_start coro mode sa e) as [[[st1 ev] c] k] eqn:A end.
      cbn [fst snd]. replace k with (k + 0) by lia.
      eapply started_ok; try exact A; auto with s3; try lia.
      eapply same3_trans; [apply same3_setf|apply same3_addlive].
  - (* FAwaitSync *)
    match goal with |- context [if ?c then _ else (st, rejected)] => destruct c end; cbn [fst snd]; [|apply rejected_ok; exact I].
    destruct (f_st (getf st f) =? 3); cbn [fst snd].
    + apply simple_ok; auto with s3; try apply c0_frames; cbn; try reflexivity; lia.
    + apply simple_ok; try apply c0_frames; cbn; try reflexivity; try lia; auto.
      eapply same3_trans; [apply same3_setf|apply same3_seth].
  - (* FAwaitCb *)
    match goal with |- context [if ?c then _ else (st, rejected)] => destruct c end; cbn [fst snd]; [|apply rejected_ok; exact I].
    destruct (f_st (getf st f) =? 3); cbn [fst snd].
    + apply simple_ok; auto with s3; try apply c0_frames; cbn; try reflexivity; lia.
    + apply simple_ok; try apply c0_frames; cbn; try reflexivity; try lia; auto.
      eapply same3_trans; [apply same3_setf|apply same3_setc].
  - (* FResolve *)
    match goal with |- context [if ?c then _ else (st, rejected)] => destruct c end; cbn [fst snd]; [|apply rejected_ok; exact I].
    match goal with |- context [walk ?a ?b ?c ?d ?e ?g] => destruct (walk a b c d e g) as [[[[st2 sp] csp] cb] sy] eqn:W end.
    match goal with |- context [dispose ?a ?b ?c ?d ?e] => destruct (dispose a b c d e) as [[[[[st3 ev] csp2] cdq] k] sps] eqn:D end.
    cbn [fst snd].
    destruct (walk_spec _ _ _ _ _ _ _ _ _ _ _ sp_wf_empty W) as (S & Wsp & N & Z).
    match type of S with same3 ?sa _ => assert (same3 st st2) as S2 by (eapply same3_trans; [apply (same3_setf st)|exact S]) end.
    eapply (disposed_ok coro heap st (FResolve f kind how s v) st2 st3 how s sp ev csp csp2 cdq k sps _ _ I S2 Wsp eq_refl N Z); [|exact D].
    eapply dispose_sps; [|exact Wsp|exact D]. eapply Inv_same3; [exact S2|exact I].
  - (* FDestroy *)
    match goal with |- context [if ?c then _ else (st, rejected)] => destruct c end; cbn [fst snd]; [|apply rejected_ok; exact I].
    apply simple_ok; auto with s3; try apply c0_frames; cbn; try reflexivity; lia.
  - (* MTry *)
    destruct (inr m NM); cbn [fst snd]; [|apply rejected_ok; exact I].
    destruct (m_st (getm st m) =? 0); cbn [fst snd]; apply simple_ok; auto with s3; try apply c0_frames; cbn; try reflexivity; lia.
  - (* MLockCoro *)
    destruct (inr m NM && mode_ok coro mode) eqn:C; cbn [fst snd]; [|apply rejected_ok; exact I].
    andb_split. destruct (m_st (getm st m) =? 0).
    + match goal with |- context [after_start coro mode ?sa ?e] => destruct (after_start coro mode sa e) as [[[st1 ev] c] k] eqn:A end.
      cbn [fst snd]. eapply started_ok; try exact A; auto with s3; lia.
    + match goal with |- context [after_start coro mode ?sa ?e] => destruct (after_start coro mode sa e) as [[[st1 ev] c] k] eqn:A end.
      cbn [fst snd]. replace k with (k + 0) by lia.
      eapply started_ok; try exact A; auto with s3; try lia.
      eapply same3_trans; [apply same3_setm|apply same3_addlive].
  - (* MLockSync *)
    match goal with |- context [if ?c then _ else (st, rejected)] => destruct c end; cbn [fst snd]; [|apply rejected_ok; exact I].
    destruct (m_st (getm st m) =? 0); cbn [fst snd].
    + apply simple_ok; auto with s3; try apply c0_frames; cbn; try reflexivity; lia.
    + apply simple_ok; try apply c0_frames; cbn; try reflexivity; try lia; auto.
      eapply same3_trans; [apply same3_setm|apply same3_seth].
  - (* MLockCb *)
    match goal with |- context [if ?c then _ else (st, rejected)] => destruct c end; cbn [fst snd]; [|apply rejected_ok; exact I].
    destruct (m_st (getm st m) =? 0); cbn [fst snd].
    + apply simple_ok; auto with s3; try apply c0_frames; cbn; try reflexivity; lia.
    + apply simple_ok; try apply c0_frames; cbn; try reflexivity; try lia; auto.
      eapply same3_trans; [apply same3_setm|apply same3_setc].
  - (* MUnlock *)
    match goal with |- context [if ?c then _ else (st, rejected)] => destruct c end; cbn [fst snd]; [|apply rejected_ok; exact I].
    destruct (m_q (getm st m)) as [|w q].
    + match goal with |- context [dispose ?a ?b ?c ?d ?e] => destruct (dispose a b c d e) as [[[[[st3 ev] csp2] cdq] k] sps] eqn:D end.
      cbn [fst snd]. rewrite <- (cadd_c0_l csp2).
      assert (same3 st (setm st m (mkMtx 0 []))) as S by auto with s3.
      eapply (disposed_ok coro heap st (MUnlock m how s) _ st3 how s sp_empty ev c0 csp2 cdq k sps _ _ I S sp_wf_empty eq_refl cnonneg_c0 (fun _ => eq_refl)); [|exact D].
      eapply dispose_sps; [|apply sp_wf_empty|exact D]. eapply Inv_same3; [exact S|exact I].
    + destruct w as [k0 i]. destruct (k0 =? 0).
      * destruct (sp_add sp_empty (1, i, m)) as [sp csp] eqn:A.
        match goal with |- context [dispose ?a ?b ?c ?d ?e] => destruct (dispose a b c d e) as [[[[[st3 ev] csp2] cdq] k] sps] eqn:D end.
        cbn [fst snd].
        destruct (sp_add_spec _ _ _ _ sp_wf_empty A) as (W1 & H1 & N1 & Z1 & _).
        assert (same3 st (setm (release_waiter st (k0, i)) m (mkMtx 2 q))) as S
          by (eapply same3_trans; [apply same3_release|apply same3_setm]).
        eapply (disposed_ok coro heap st (MUnlock m how s) _ st3 how s sp ev csp csp2 cdq k sps _ _ I S W1 eq_refl N1 Z1); [|exact D].
        eapply dispose_sps; [|exact W1|exact D]. eapply Inv_same3; [exact S|exact I].
      * match goal with |- context [dispose ?a ?b ?c ?d ?e] => destruct (dispose a b c d e) as [[[[[st3 ev] csp2] cdq] k] sps] eqn:D end.
        cbn [fst snd]. rewrite <- (cadd_c0_l csp2).
        assert (same3 st (setm (release_waiter st (k0, i)) m (mkMtx 1 q))) as S
          by (eapply same3_trans; [apply same3_release|apply same3_setm]).
        eapply (disposed_ok coro heap st (MUnlock m how s) _ st3 how s sp_empty ev c0 csp2 cdq k sps _ _ I S sp_wf_empty eq_refl cnonneg_c0 (fun _ => eq_refl)); [|exact D].
        eapply dispose_sps; [|apply sp_wf_empty|exact D]. eapply Inv_same3; [exact S|exact I].
  - (* GNew *)
    match goal with |- context [if ?c then _ else (st, rejected)] => destruct c end; cbn [fst snd]; [|apply rejected_ok; exact I].
    apply simple_ok; auto.
    + eapply same3_trans; [apply same3_setg|apply same3_addlive].
    + unfold frame_new. destruct heap; reflexivity.
    + unfold frame_new. destruct heap; cbn; lia.
    + intros ->. reflexivity.
  - (* GNext *)
    match goal with |- context [if ?c then _ else (st, rejected)] => destruct c end; cbn [fst snd]; [|apply rejected_ok; exact I].
    destruct (nth (n g) (gens st) None) as [[cur k]|]; cbn [fst snd]; [|apply rejected_ok; exact I].
    destruct (cur <? k); [|destruct (cur =? k); [|destruct (how =? 1)]]; cbn [fst snd];
      try (apply rejected_ok; exact I); apply simple_ok; auto with s3; try apply c0_frames; cbn; try reflexivity; lia.
  - (* GDestroy *)
    destruct (inr g NG); cbn [fst snd]; [|apply rejected_ok; exact I].
    destruct (nth (n g) (gens st) None); cbn [fst snd]; [|apply rejected_ok; exact I].
    destruct (frames_freed_ok heap 1 ltac:(lia)) as (A & B & C).
    apply simple_ok; auto.
    + eapply same3_trans; [apply same3_setg|apply same3_addlive].
    + rewrite A. destruct heap; reflexivity.
  - (* SpFlush *)
    match goal with |- context [if ?c then _ else (st, rejected)] => destruct c end; cbn [fst snd]; [|apply rejected_ok; exact I].
    match goal with |- context [dispose ?a ?b ?c ?d ?e] => destruct (dispose a b c d e) as [[[[[st3 ev] csp2] cdq] k] sps] eqn:D end.
    cbn [fst snd]. rewrite <- (cadd_c0_l csp2).
    assert (Inv (sets st s sp_empty)) as Ia.
    { destruct I as (I1 & I2 & I3). unfold Inv; cbn [sets slots rq dq]. split; [|auto]. apply Forall_set_nth; [exact I1|apply sp_wf_empty]. }
    assert (sp_wf (gets st s)) as Wg by (apply gets_wf; apply I).
    destruct (dispose_spec _ _ _ _ _ _ _ _ _ _ _ Ia Wg D) as (I' & T & Z & Zn & N & K & Zs).
    unfold step_ok; cbn [o_st o_cdq o_sps o_csp]. cbn [sets dq rq] in T, Zn.
    split; [exact I'|]. split; [exact T|]. split; [exact Z|]. split; [exact Zn|].
    right. split; [reflexivity|]. split.
    + intros L3. rewrite Zs by exact L3. reflexivity.
    + unfold frame_ok; cbn [o_cfr]. destruct (frames_freed_ok heap k K) as (A & B & C). rewrite A.
      split; [destruct heap; reflexivity|]. auto.
  - (* Pause *)
    destruct coro; cbn [fst snd]; [|apply rejected_ok; exact I].
    destruct (suspend_drain st [] []) as [[[st1 ev] c] k] eqn:D. cbn [fst snd].
    destruct (suspend_drain_spec _ _ _ _ _ _ _ I D) as (I' & S1 & T1 & N1 & K1 & Z1).
    unfold step_ok; cbn [o_st o_cdq o_sps o_csp]. split; [exact I'|]. split; [exact T1|]. split; [exact Z1|]. split; [discriminate|].
    right. split; [reflexivity|]. split; [auto|].
    unfold frame_ok; cbn [o_cfr]. destruct (frames_freed_ok heap k K1) as (A & B & C). rewrite A.
    split; [destruct heap; reflexivity|]. auto.
  - (* OBad *) cbn [fst snd]. apply rejected_ok; exact I.
Qed.

(* ---------- runs ---------- *)
Arguments step : simpl never.

Lemma run_facts coro heap l : forall st, Inv st ->
  Inv (snd (run_from coro heap st l)) /\
  dq_tail (dq st) <= dq_tail (dq (snd (run_from coro heap st l))) /\
  Forall2 (fun x o => exists sa sb, step_ok coro heap sa x sb o /\
                      dq_tail (dq sb) <= dq_tail (dq (snd (run_from coro heap st l))))
          l (fst (run_from coro heap st l)).
Proof.
  induction l as [|x l IH]; intros st I; cbn [run_from].
  - cbn [fst snd]. split; [exact I|]. split; [lia|constructor].
  - pose proof (step_spec coro heap st x I) as S.
    destruct (step coro heap st x) as [st1 o] eqn:E. cbn [fst snd] in S.
    assert (Inv st1) as I1 by apply S.
    destruct (IH st1 I1) as (J1 & J2 & J3).
    destruct (run_from coro heap st1 l) as [os st2] eqn:R. cbn [fst snd] in *.
    split; [exact J1|]. split; [destruct S as (_ & T & _); lia|].
    constructor; [|exact J3]. exists st, st1. split; [exact S|exact J2].
Qed.

Lemma Forall2_impl' {A B} (P Q : A -> B -> Prop) l l' : (forall a b, P a b -> Q a b) -> Forall2 P l l' -> Forall2 Q l l'.
Proof. intros H F. induction F; constructor; auto. Qed.

(* what the property demands of one accepted step *)
Definition step_clean (heap : bool) (x : op) (o : obs) : Prop :=
  o = rejected \/
  (o_st o = 0 /\ o_cdq o = c0 /\ (o_sps o <= 3 -> o_csp o = c0) /\ frame_ok heap x o).

(* normal mode: every program *)
Theorem zero_alloc_normal heap ops :
  Forall2 (step_clean heap) ops (fst (run_from false heap st0 ops)).
Proof.
  destruct (run_facts false heap ops st0 Inv_st0) as (_ & _ & F).
  eapply Forall2_impl'; [|exact F]. intros x o (sa & sb & S & _).
  destruct S as (_ & _ & _ & Zn & [R|(A & B & C)]); [left; exact R|].
  right. split; [exact A|]. split; [apply Zn; reflexivity|]. split; assumption.
Qed.

(* coroutine mode: every program whose ready-queue cursor stays inside the first node (fewer than 64 enqueues) *)
Theorem zero_alloc_below_node_boundary heap ops :
  dq_tail (dq (snd (run_from true heap st0 ops))) <= 63 ->
  Forall2 (step_clean heap) ops (fst (run_from true heap st0 ops)).
Proof.
  intros T. destruct (run_facts true heap ops st0 Inv_st0) as (_ & _ & F).
  eapply Forall2_impl'; [|exact F]. intros x o (sa & sb & S & Tb).
  destruct S as (_ & _ & Z & _ & [R|(A & B & C)]); [left; exact R|].
  right. split; [exact A|]. split; [apply Z; lia|]. split; assumption.
Qed.

(* the cursor: one step's deque traffic is zero whenever its enqueues stay inside the current node of the first
   64 positions; in general the cursor only moves forward *)
Theorem enqueue_counter_monotone coro heap st x : Inv st ->
  dq_tail (dq st) <= dq_tail (dq (fst (step coro heap st x))).
Proof. intros I. apply (step_spec coro heap st x I). Qed.

(* ---------- the oracle accepts exactly these traces ---------- *)
Lemma line_ok_clean heap x o : step_clean heap x o -> line_ok heap x (encode_obs o) = true.
Proof.
  intros [->|(A & B & C & (D1 & D2 & D3))]; [reflexivity|].
  unfold encode_obs, line_ok. rewrite A. rewrite D1, Z.eqb_refl. cbn [andb].
  replace (0 <=? c_f (o_cfr o)) with true by lia. cbn [andb].
  assert ((heap || (c_f (o_cfr o) =? 0)) = true) as -> by (destruct heap; [reflexivity|rewrite D3 by reflexivity; reflexivity]).
  cbn [andb]. unfold inline_count. destruct (3 <? o_sps o) eqn:E; [reflexivity|].
  unfold o_other. rewrite B, C by lia. reflexivity.
Qed.

Lemma lines_ok_clean heap ops tr : Forall2 (step_clean heap) ops tr -> lines_ok heap ops (map encode_obs tr) = true.
Proof.
  induction 1 as [|x o ops tr H F IH]; cbn [lines_ok map]; [reflexivity|].
  rewrite (line_ok_clean _ _ _ H), IH. reflexivity.
Qed.

Theorem oracle_normal heap ops : al_oracle heap ops (al_run false heap ops) = true.
Proof. unfold al_oracle, al_run. apply lines_ok_clean. apply zero_alloc_normal. Qed.

Theorem oracle_below_node_boundary heap ops :
  dq_tail (dq (snd (run_from true heap st0 (map decode ops)))) <= 63 ->
  al_oracle heap ops (al_run true heap ops) = true.
Proof. intros T. unfold al_oracle, al_run. apply lines_ok_clean. apply zero_alloc_below_node_boundary. exact T. Qed.

(* ---------- allocations = frames ---------- *)
Fixpoint total_fa (tr : list obs) : Z := match tr with [] => 0 | o :: t => c_a (o_cfr o) + total_fa t end.
Fixpoint total_other (tr : list obs) : Z := match tr with [] => 0 | o :: t => c_a (o_other o) + total_other t end.
Fixpoint frames_created (ops : list op) (tr : list obs) : Z :=
  match ops, tr with
  | x :: t, o :: u => (if o_st o =? 0 then frames_of x else 0) + frames_created t u
  | _, _ => 0
  end.

(* every mode, every program: frame allocations = coroutines the program created; none under a non-heap storage *)
Theorem alloc_equals_frames coro heap ops :
  total_fa (fst (run_from coro heap st0 ops)) =
  if heap then frames_created ops (fst (run_from coro heap st0 ops)) else 0.
Proof.
  destruct (run_facts coro heap ops st0 Inv_st0) as (_ & _ & F).
  induction F as [|x o l tr (sa & sb & S & _) F IH]; cbn [total_fa frames_created]; [destruct heap; reflexivity|].
  rewrite IH. destruct S as (_ & _ & _ & _ & [->|(A & _ & (D1 & _))]).
  - cbn. destruct heap; reflexivity.
  - rewrite A, D1. cbn. destruct heap; lia.
Qed.

(* in normal mode, with at most three handles per suspend point, the frames are ALL the allocations *)
Theorem normal_allocs_are_frames heap ops :
  Forall (fun o => o_sps o <= 3) (fst (run_from false heap st0 ops)) ->
  total_other (fst (run_from false heap st0 ops)) = 0.
Proof.
  intros H. pose proof (zero_alloc_normal heap ops) as F.
  induction F as [|x o l tr S F IH]; cbn [total_other]; [reflexivity|].
  inversion H; subst. rewrite IH by assumption.
  destruct S as [->|(A & B & C & _)]; [reflexivity|]. unfold o_other. rewrite B, C by assumption. reflexivity.
Qed.

(* ---------- threshold at program level: resolving a future awaited by k coroutines ---------- *)
Definition coro_waiters (l : list waiter) : list waiter := filter (fun w => fst w =? 0) l.

Lemma walk_sp f out v l : forall st sp st' sp' c cb sy, sp_wf sp ->
  walk f out v st sp l = (st', sp', c, cb, sy) ->
  sp_size sp' = sp_size sp + zlen (coro_waiters l) /\
  (sp_flag sp = false -> 3 < sp_size sp + zlen (coro_waiters l) -> 1 <= c_a c).
Proof.
  induction l as [|w l IH]; intros st sp st' sp' c cb sy W; unfold walk; fold walk.
  - intros H; inversion H; subst. cbn [coro_waiters filter]. rewrite zlen_nil. split; [lia|].
    intros F L. destruct W as [_ W2]. specialize (W2 F). lia.
  - destruct w as [k i]. cbn [coro_waiters filter fst]. fold (coro_waiters l). destruct (k =? 0) eqn:K.
    + destruct (sp_add sp (0, i, f)) as [sp1 c1] eqn:A.
      destruct (walk f out v (release_waiter st (k, i)) sp1 l) as [[[[st2 sp2] c2] cb2] sy2] eqn:Q.
      intros H; inversion H; subst; clear H.
      destruct (sp_add_spec _ _ _ _ W A) as (W1 & H1 & N1 & Z1 & T1).
      destruct (IH _ _ _ _ _ _ _ W1 Q) as (S & P).
      destruct (walk_spec _ _ _ _ _ _ _ _ _ _ _ W1 Q) as (_ & _ & N2 & _).
      assert (sp_size sp1 = sp_size sp + 1) as S1 by (unfold sp_size; rewrite H1, zlen_app, zlen_cons, zlen_nil; lia).
      rewrite zlen_cons. split; [lia|]. intros F L.
      destruct (Z.eq_dec (sp_size sp) 3) as [E|E].
      * rewrite (T1 F E). unfold cadd, c_alloc; cbn [c_a]. destruct N2. lia.
      * assert (sp_flag sp1 = false) as F1.
        { unfold sp_add, inline_count in A. rewrite F in A. destruct W as [_ W2]. specialize (W2 F).
          destruct (sp_size sp <? 3) eqn:E3; [|lia]. inversion A; reflexivity. }
        unfold cadd; cbn [c_a]. destruct N1. specialize (P F1). lia.
    + destruct (walk f out v (release_waiter st (k, i)) sp l) as [[[[st2 sp2] c2] cb2] sy2] eqn:Q.
      destruct (IH _ _ _ _ _ _ _ W Q) as (S & P).
      destruct (k =? 2); intros H; inversion H; subst; clear H; (split; [exact S|exact P]).
Qed.

(* resolving a future (suspend point discarded) in any reachable state, any mode: the returned suspend point carries
   exactly the coroutines that were waiting; it costs nothing up to three of them and allocates from the fourth on *)
Theorem resolve_threshold coro heap st f kind s v : Inv st ->
  let o := snd (step coro heap st (FResolve f kind 0 s v)) in
  o_st o = 0 ->
  o_sps o = zlen (coro_waiters (f_chain (getf st f))) /\
  (o_sps o <= 3 -> o_csp o = c0) /\ (3 < o_sps o -> 1 <= c_a (o_csp o)).
Proof.
  intros I. cbv zeta. unfold step.
  match goal with |- context [if ?c then _ else (st, rejected)] => destruct c end; cbn [fst snd]; [|cbn; discriminate].
  match goal with |- context [walk ?a ?b ?c ?d ?e ?g] => destruct (walk a b c d e g) as [[[[st2 sp] csp] cb] sy] eqn:W end.
  match goal with |- context [dispose ?a ?b ?c ?d ?e] => destruct (dispose a b c d e) as [[[[[st3 ev] csp2] cdq] k] sps] eqn:D end.
  cbn [fst snd o_st o_sps o_csp]. intros _.
  destruct (walk_spec _ _ _ _ _ _ _ _ _ _ _ sp_wf_empty W) as (S & Wsp & N & Z).
  destruct (walk_sp _ _ _ _ _ _ _ _ _ _ _ sp_wf_empty W) as (Sz & P).
  assert (Inv st2) as I2 by (eapply Inv_same3; [|exact I]; eapply same3_trans; [apply same3_setf|exact S]).
  destruct (dispose_spec _ _ _ _ _ _ _ _ _ _ _ I2 Wsp D) as (_ & _ & _ & _ & N2 & _ & Z2).
  assert (sps = sp_size sp) as ->.
  { unfold dispose in D. cbn [Z.eqb] in D. destruct (negb coro).
    - destruct (run_items st2 (sp_hs sp)); inversion D; reflexivity.
    - destruct (dq_pushes (dq st2) (length (sp_hs sp))); inversion D; reflexivity. }
  change (sp_size sp_empty) with 0 in Sz, P. rewrite Z.add_0_l in Sz, P.
  split; [exact Sz|]. split.
  - intros L. rewrite Z, Z2 by exact L. reflexivity.
  - intros L. rewrite Sz in L. specialize (P eq_refl L). unfold cadd; cbn [c_a]. destruct N2. lia.
Qed.

(* ---------- refutation of the unrestricted statement in coroutine mode ---------- *)
Definition sps_small (tr : list obs) : bool := forallb (fun o => o_sps o <=? 3) tr.
Definition all_accepted (tr : list obs) : bool := forallb (fun o => o_st o =? 0) tr.

Lemma zero_alloc_refuted :
  exists ops, let tr := fst (run_from true true st0 ops) in
    all_accepted tr = true /\ sps_small tr = true /\
    total_fa tr = frames_created ops tr /\ total_fa tr = 64 /\ total_other tr = 1 /\
    al_oracle true (map encode_op ops) (map encode_obs tr) = false.
Proof. exists witness. vm_compute. repeat split; reflexivity. Qed.

(* the same witness, one round shorter, is clean; and the very same 64 rounds in normal mode... cannot be written
   (co_await needs a coroutine), but with the suspend point discarded they allocate nothing in normal mode *)
Lemma witness_minimal :
  let tr := fst (run_from true true st0 (rounds 63)) in total_other tr = 0 /\ all_accepted tr = true.
Proof. vm_compute. split; reflexivity. Qed.

Lemma reachable_inv coro heap ops : Inv (snd (run_from coro heap st0 ops)).
Proof. exact (proj1 (run_facts coro heap ops st0 Inv_st0)). Qed.
