(* PromProofs.v — invariants of the promise-object model (PromDefs.v) for every op sequence:
   each future is owned by at most one promise / closure, it is pending exactly while it is owned, and
   future::resolve() runs on it at most once. *)
From Cocls Require Import Base BaseProofs CellDefs PromDefs.
Require Import ZifyBool.
Local Open Scope nat_scope.

Definition b2n (b : bool) : nat := if b then 1 else 0.
Definition cnt {A} (f : A -> bool) (l : list A) : nat := length (filter f l).
Arguments cnt : simpl never.

Lemma cnt_cons {A} (f : A -> bool) x l : cnt f (x :: l) = b2n (f x) + cnt f l.
Proof. unfold cnt. cbn [filter]. destruct (f x); reflexivity. Qed.

Lemma cnt_set_nth {A} (f : A -> bool) (l : list A) : forall i x y,
  nth_error l i = Some y -> cnt f (set_nth l i x) + b2n (f y) = cnt f l + b2n (f x).
Proof.
  induction l as [|h t IH]; intros [|i] x y H; cbn [nth_error] in H; try discriminate.
  - inversion H; subst. cbn [set_nth]. rewrite !cnt_cons. lia.
  - cbn [set_nth]. rewrite !cnt_cons. specialize (IH i x y H). lia.
Qed.

Lemma nth_set_nth {A} (l : list A) i x j :
  nth_error (set_nth l i x) j = if Nat.eqb i j then match nth_error l i with Some _ => Some x | None => None end else nth_error l j.
Proof.
  destruct (Nat.eqb_spec i j) as [<-|N].
  - destruct (nth_error l i) eqn:E.
    + apply nth_error_set_nth_same. apply nth_error_Some. congruence.
    + apply nth_error_None in E. apply nth_error_None.
      assert (length (set_nth l i x) = length l) by (clear; revert i; induction l; intros [|i]; cbn; auto). lia.
  - apply nth_error_set_nth_other. exact N.
Qed.

(* does this promise / closure content point at cell c *)
Definition po (c : nat) (o : option (option nat)) : bool :=
  match o with Some (Some c') => Nat.eqb c' c | _ => false end.
Definition pc (c : nat) (o : option (option nat * Z)) : bool :=
  match o with Some (Some c', _) => Nat.eqb c' c | _ => false end.
Definition refs (s : pst) (c : nat) : nat := cnt (po c) (proms s) + cnt (pc c) (clos s).

Definition slot_chain (x : cslot) : nat := match x with CChain _ => 1 | _ => 0 end.
Definition slot_ready (x : cslot) : nat := match x with CReady => 1 | _ => 0 end.

Definition PInv (s : pst) : Prop :=
  forall c, match nth_error (cells s) c with
            | Some cl => refs s c = slot_chain (c_slot cl) /\ c_nres cl = slot_ready (c_slot cl)
            | None => refs s c = 0
            end.

Lemma refs_set_prom s p x y c : nth_error (proms s) p = Some y ->
  refs (set_prom s p x) c + b2n (po c y) = refs s c + b2n (po c x).
Proof. intros H. unfold refs. cbn [set_prom proms clos]. pose proof (cnt_set_nth (po c) _ _ x _ H). lia. Qed.

Lemma refs_set_clo s q x y c : nth_error (clos s) q = Some y ->
  refs (set_clo s q x) c + b2n (pc c y) = refs s c + b2n (pc c x).
Proof. intros H. unfold refs. cbn [set_clo proms clos]. pose proof (cnt_set_nth (pc c) _ _ x _ H). lia. Qed.

Lemma refs_set_cell s c x c' : refs (set_cell s c x) c' = refs s c'.
Proof. reflexivity. Qed.

Lemma po_some c c' : b2n (po c (Some (Some c'))) = if Nat.eqb c' c then 1 else 0.
Proof. cbn [po]. destruct (Nat.eqb c' c); reflexivity. Qed.

Lemma pinv_init : PInv pinit.
Proof.
  intros c. unfold pinit, refs. cbn [cells proms clos NCELL NPROM NCLO repeat].
  do 3 (destruct c as [|c]; [cbn; auto|]). destruct c; cbn; reflexivity.
Qed.

(* an owner that refers to a cell refers to an existing, pending, never resolved cell *)
Lemma owner_pending s p cp : PInv s -> nth_error (proms s) p = Some (Some (Some cp)) ->
  exists cl l, nth_error (cells s) cp = Some cl /\ c_slot cl = CChain l /\ c_nres cl = 0 /\ refs s cp = 1.
Proof.
  intros I H. pose proof (refs_set_prom s p (Some None) _ cp H) as R. rewrite po_some, Nat.eqb_refl in R. cbn in R.
  specialize (I cp). destruct (nth_error (cells s) cp) as [cl|]; [|lia].
  destruct I as (I1 & I2). destruct (c_slot cl) eqn:E; cbn in *; try lia. exists cl, l. auto.
Qed.

Lemma clo_owner_pending s q cp v : PInv s -> nth_error (clos s) q = Some (Some (Some cp, v)) ->
  exists cl l, nth_error (cells s) cp = Some cl /\ c_slot cl = CChain l /\ c_nres cl = 0 /\ refs s cp = 1.
Proof.
  intros I H. pose proof (refs_set_clo s q None _ cp H) as R. cbn [pc] in R. rewrite Nat.eqb_refl in R. cbn in R.
  specialize (I cp). destruct (nth_error (cells s) cp) as [cl|]; [|lia].
  destruct I as (I1 & I2). destruct (c_slot cl) eqn:E; cbn in *; try lia. exists cl, l. auto.
Qed.

(* generic: the owner stored in promise slot p fires (or is empty) and the slot is overwritten by content y *)
Lemma pinv_fire_prom isvoid s p op o y :
  PInv s -> nth_error (proms s) p = Some (Some op) -> (forall c, po c y = false) ->
  PInv (set_prom (fst (fst (fire isvoid s op o))) p y).
Proof.
  intros I H Y. destruct op as [cp|]; cbn [fire].
  - destruct (owner_pending s p cp I H) as (cl & l & HC & SL & NR & R1).
    unfold resolve. rewrite HC. cbn [fst].
    intros c. cbn [set_prom set_cell cells]. rewrite nth_set_nth, HC.
    pose proof (refs_set_prom (set_cell s cp (mkCell CReady (match o with Some x => x | None => c_pay cl end) (S (c_nres cl)))) p y _ c H) as R.
    rewrite refs_set_cell, Y, po_some in R. specialize (I c).
    destruct (Nat.eqb_spec cp c) as [<-|N].
    + cbn [c_slot c_nres slot_chain slot_ready]. cbn [b2n] in R. lia.
    + destruct (nth_error (cells s) c); cbn [b2n] in R; [destruct I; split; [lia|assumption]|lia].
  - cbn [fst]. intros c. pose proof (refs_set_prom s p y _ c H) as R. rewrite Y in R. cbn in R.
    specialize (I c). cbn [set_prom cells]. destruct (nth_error (cells s) c); [destruct I; split; [lia|assumption]|lia].
Qed.

Lemma pinv_fire_clo isvoid s q op v o y :
  PInv s -> nth_error (clos s) q = Some (Some (op, v)) -> (forall c, pc c y = false) ->
  PInv (set_clo (fst (fst (fire isvoid s op o))) q y).
Proof.
  intros I H Y. destruct op as [cp|]; cbn [fire].
  - destruct (clo_owner_pending s q cp v I H) as (cl & l & HC & SL & NR & R1).
    unfold resolve. rewrite HC. cbn [fst].
    intros c. cbn [set_clo set_cell cells]. rewrite nth_set_nth, HC.
    pose proof (refs_set_clo (set_cell s cp (mkCell CReady (match o with Some x => x | None => c_pay cl end) (S (c_nres cl)))) q y _ c H) as R.
    rewrite refs_set_cell, Y in R. cbn [pc] in R. specialize (I c).
    destruct (Nat.eqb_spec cp c) as [<-|N].
    + cbn [c_slot c_nres slot_chain slot_ready]. cbn [b2n] in R. lia.
    + destruct (nth_error (cells s) c); cbn [b2n] in R; [destruct I; split; [lia|assumption]|lia].
  - cbn [fst]. intros c. pose proof (refs_set_clo s q y _ c H) as R. rewrite Y in R. cbn in R.
    specialize (I c). cbn [set_clo cells]. destruct (nth_error (cells s) c); [destruct I; split; [lia|assumption]|lia].
Qed.

Lemma pinv_transfer s p q oq y :
  PInv s -> nth_error (proms s) q = Some (Some oq) -> nth_error (proms s) p = Some y -> (forall c, po c y = false) -> p <> q ->
  PInv (set_prom (set_prom s q (Some None)) p (Some oq)).
Proof.
  intros I HQ HP Y N c.
  pose proof (refs_set_prom s q (Some None) _ c HQ) as R1.
  assert (HP' : nth_error (proms (set_prom s q (Some None))) p = Some y).
  { cbn [set_prom proms]. rewrite nth_set_nth. destruct (Nat.eqb_spec q p); [congruence|exact HP]. }
  pose proof (refs_set_prom _ p (Some oq) _ c HP') as R2. rewrite Y in R2. cbn [po b2n] in R1, R2.
  specialize (I c). cbn [set_prom cells]. destruct (nth_error (cells s) c); [destruct I; split; [lia|assumption]|lia].
Qed.

Lemma pinv_bind s p q op v :
  PInv s -> nth_error (proms s) p = Some (Some op) -> nth_error (clos s) q = Some None ->
  PInv (set_clo (set_prom s p (Some None)) q (Some (op, v))).
Proof.
  intros I HP HQ c.
  pose proof (refs_set_prom s p (Some None) _ c HP) as R1.
  pose proof (refs_set_clo (set_prom s p (Some None)) q (Some (op, v)) _ c HQ) as R2.
  assert (E : pc c (Some (op, v)) = po c (Some op)) by (destruct op; reflexivity). rewrite E in R2.
  cbn [po pc b2n] in R1, R2.
  specialize (I c). cbn [set_prom set_clo cells]. destruct (nth_error (cells s) c); [destruct I; split; [lia|assumption]|lia].
Qed.

Lemma cell_is_init_spec s c : cell_is_init s c = true -> exists cl, nth_error (cells s) c = Some cl /\ c_slot cl = CInit.
Proof.
  unfold cell_is_init. destruct (nth_error (cells s) c) as [cl|]; [|discriminate].
  destruct (c_slot cl) eqn:E; try discriminate. eauto.
Qed.

Lemma pinv_get s p c y :
  PInv s -> cell_is_init s c = true -> nth_error (proms s) p = Some y -> (forall c, po c y = false) ->
  PInv (set_prom (take_promise s c) p (Some (Some c))).
Proof.
  intros I CI HP Y c'. destruct (cell_is_init_spec s c CI) as (cl & HC & SL).
  unfold take_promise. rewrite HC.
  pose proof (refs_set_prom (set_cell s c (mkCell (CChain []) (c_pay cl) (c_nres cl))) p (Some (Some c)) _ c' HP) as R.
  rewrite refs_set_cell, Y, po_some in R. cbn [b2n] in R.
  pose proof (I c') as I'. pose proof (I c) as Ic. rewrite HC, SL in Ic. cbn in Ic.
  cbn [set_prom set_cell cells]. rewrite nth_set_nth, HC.
  destruct (Nat.eqb_spec c c') as [<-|N].
  - cbn [c_slot c_nres slot_chain slot_ready]. lia.
  - destruct (nth_error (cells s) c'); [destruct I'; split; [lia|assumption]|lia].
Qed.

Lemma pinv_assign_get isvoid s p c op :
  PInv s -> cell_is_init s c = true -> nth_error (proms s) p = Some (Some op) ->
  PInv (set_prom (fst (fst (fire isvoid (take_promise s c) op None))) p (Some (Some c))).
Proof.
  intros I CI HP. destruct op as [cp|]; cbn [fire]; [|cbn [fst]; eapply pinv_get; eauto].
  destruct (cell_is_init_spec s c CI) as (cl & HC & SL).
  destruct (owner_pending s p cp I HP) as (clp & l & HCP & SLP & NRP & RP).
  assert (NE : c <> cp) by (intros ->; congruence).
  unfold take_promise. rewrite HC. unfold resolve. cbn [set_cell cells]. rewrite nth_set_nth.
  destruct (Nat.eqb_spec c cp) as [|_]; [contradiction|]. rewrite HCP. cbn [fst].
  intros c'.
  set (s1 := set_cell (set_cell s c _) cp _).
  pose proof (refs_set_prom s1 p (Some (Some c)) _ c' HP) as R. unfold s1 in R. rewrite !refs_set_cell, !po_some in R.
  pose proof (I c') as I'. pose proof (I c) as Ic. rewrite HC, SL in Ic. cbn in Ic.
  unfold s1. cbn [set_prom set_cell cells]. rewrite !nth_set_nth. rewrite ?HC.
  destruct (Nat.eqb_spec c cp) as [|_]; [contradiction|]. rewrite ?HCP.
  destruct (Nat.eqb_spec cp c') as [<-|N1].
  - cbn [c_slot c_nres slot_chain slot_ready]. destruct (Nat.eqb_spec c cp); [contradiction|]. cbn [b2n] in R. lia.
  - destruct (Nat.eqb_spec c c') as [<-|N2].
    + cbn [c_slot c_nres slot_chain slot_ready]. cbn [b2n] in R. lia.
    + destruct (nth_error (cells s) c'); cbn [b2n] in R; [destruct I'; split; [lia|assumption]|lia].
Qed.

Lemma pinv_sub s c cl l w k :
  PInv s -> nth_error (cells s) c = Some cl -> c_slot cl = CChain l ->
  PInv (set_cell s c (mkCell (CChain ((w, k) :: l)) (c_pay cl) (c_nres cl))).
Proof.
  intros I HC SL c'. pose proof (I c') as I'. pose proof (I c) as Ic. rewrite HC, SL in Ic.
  cbn [set_cell cells]. rewrite nth_set_nth, HC. change (refs (set_cell s c _) c') with (refs s c').
  destruct (Nat.eqb_spec c c') as [<-|N]; [exact Ic|exact I'].
Qed.

Ltac fire_case F := match goal with |- context[fire ?iv ?s ?op ?o] => destruct (fire iv s op o) as [[s1 d] b] eqn:F end.

Lemma po_none c : po c None = false. Proof. reflexivity. Qed.
Lemma po_empty c : po c (Some None) = false. Proof. reflexivity. Qed.

Theorem pinv_step isvoid s x : PInv s -> PInv (fst (pstep isvoid s x)).
Proof.
  intros I. destruct x; cbn [pstep].
  - (* get *) destruct (nth_error (proms s) p) as [[o|]|] eqn:HP; try exact I.
    destruct (cell_is_init s c) eqn:CI; [|exact I]. cbn [fst]. eapply pinv_get; eauto.
  - (* move construct *)
    destruct (nth_error (proms s) p) as [[o|]|] eqn:HP; try exact I.
    destruct (nth_error (proms s) q) as [[oq|]|] eqn:HQ; try exact I. cbn [fst].
    eapply pinv_transfer; eauto. intros ->. congruence.
  - (* assign *)
    destruct (nth_error (proms s) p) as [[op|]|] eqn:HP; try exact I.
    destruct (nth_error (proms s) q) as [[oq|]|] eqn:HQ; try exact I.
    destruct (Nat.eqb_spec p q) as [E|N]; [exact I|].
    fire_case F. cbn [fst].
    pose proof (pinv_fire_prom isvoid s p op None (Some None) I HP po_empty) as I2. rewrite F in I2. cbn [fst] in I2.
    assert (HQ2 : nth_error (proms (set_prom s1 p (Some None))) q = Some (Some oq)).
    { cbn [set_prom proms]. rewrite nth_set_nth. destruct (Nat.eqb_spec p q); [contradiction|].
      assert (E : proms s1 = proms s).
      { revert F. destruct op as [cp|]; cbn [fire]; [|intros Q; inversion Q; reflexivity].
        unfold resolve. destruct (nth_error (cells s) cp); intros Q; inversion Q; reflexivity. }
      rewrite E. exact HQ. }
    assert (HP2 : nth_error (proms (set_prom s1 p (Some None))) p = Some (Some None)).
    { cbn [set_prom proms]. rewrite nth_set_nth, Nat.eqb_refl.
      assert (E : proms s1 = proms s).
      { revert F. destruct op as [cp|]; cbn [fire]; [|intros Q; inversion Q; reflexivity].
        unfold resolve. destruct (nth_error (cells s) cp); intros Q; inversion Q; reflexivity. }
      rewrite E, HP. reflexivity. }
    exact (pinv_transfer _ p q oq (Some None) I2 HQ2 HP2 po_empty N).
  - (* assign from get_promise *)
    destruct (nth_error (proms s) p) as [[op|]|] eqn:HP; try exact I.
    destruct (cell_is_init s c) eqn:CI; [|exact I].
    fire_case F. cbn [fst].
    pose proof (pinv_assign_get isvoid s p c op I CI HP) as I2. rewrite F in I2. exact I2.
  - (* destroy *)
    destruct (nth_error (proms s) p) as [[op|]|] eqn:HP; try exact I.
    fire_case F. cbn [fst]. pose proof (pinv_fire_prom isvoid s p op None None I HP po_none) as I2. rewrite F in I2. exact I2.
  - destruct (nth_error (proms s) p) as [[op|]|] eqn:HP; try exact I.
    fire_case F. cbn [fst]. pose proof (pinv_fire_prom isvoid s p op None (Some None) I HP po_empty) as I2. rewrite F in I2. exact I2.
  - destruct (nth_error (proms s) p) as [[op|]|] eqn:HP; try exact I.
    fire_case F. cbn [fst]. pose proof (pinv_fire_prom isvoid s p op (Some (OVal v)) (Some None) I HP po_empty) as I2. rewrite F in I2. exact I2.
  - destruct (nth_error (proms s) p) as [[op|]|] eqn:HP; try exact I.
    fire_case F. cbn [fst]. pose proof (pinv_fire_prom isvoid s p op (Some (OExc e)) (Some None) I HP po_empty) as I2. rewrite F in I2. exact I2.
  - destruct (nth_error (proms s) p) as [[op|]|] eqn:HP; try exact I.
    fire_case F. cbn [fst]. pose proof (pinv_fire_prom isvoid s p op None (Some None) I HP po_empty) as I2. rewrite F in I2. exact I2.
  - (* bind *)
    destruct (nth_error (clos s) q) as [[o|]|] eqn:HQ; try exact I.
    destruct (nth_error (proms s) p) as [[op|]|] eqn:HP; try exact I. cbn [fst]. eapply pinv_bind; eauto.
  - destruct (nth_error (clos s) q) as [[[op v]|]|] eqn:HQ; try exact I.
    fire_case F. cbn [fst].
    pose proof (pinv_fire_clo isvoid s q op v (Some (OVal v)) (Some (None, v)) I HQ ltac:(reflexivity)) as I2. rewrite F in I2. exact I2.
  - destruct (nth_error (clos s) q) as [[[op v]|]|] eqn:HQ; try exact I.
    fire_case F. cbn [fst].
    pose proof (pinv_fire_clo isvoid s q op v None None I HQ ltac:(reflexivity)) as I2. rewrite F in I2. exact I2.
  - (* subscribe *)
    destruct (nth_error (cells s) c) as [cl|] eqn:HC; [|exact I].
    destruct (c_slot cl) eqn:SL; try exact I. cbn [fst]. eapply pinv_sub; eauto.
  - destruct (nth_error (cells s) c) as [cl|]; exact I.
  - destruct (nth_error (proms s) p) as [[op|]|]; exact I.
  - exact I.
Qed.

Theorem pinv_run isvoid ops : forall s, PInv s -> PInv (fst (prun isvoid s ops)).
Proof.
  induction ops as [|x r IH]; intros s I; cbn [prun]; [exact I|].
  destruct (pstep isvoid s x) as [s1 o] eqn:E. specialize (IH s1).
  destruct (prun isvoid s1 r) as [s2 os] eqn:E2. cbn [fst] in *. apply IH.
  pose proof (pinv_step isvoid s x I) as Q. rewrite E in Q. exact Q.
Qed.

(* ---------- consequences ---------- *)
(* exactly-once per future: resolve() ran at most once, exactly once iff the future is ready; at most one owner *)
Theorem single_winner_per_cell isvoid ops c cl :
  nth_error (cells (fst (prun isvoid pinit ops))) c = Some cl ->
  c_nres cl <= 1 /\ (c_nres cl = 1 <-> c_slot cl = CReady) /\
  refs (fst (prun isvoid pinit ops)) c <= 1 /\ (refs (fst (prun isvoid pinit ops)) c = 1 <-> exists l, c_slot cl = CChain l).
Proof.
  intros H. pose proof (pinv_run isvoid ops pinit pinv_init c) as I. rewrite H in I. destruct I as (I1 & I2).
  destruct (c_slot cl) eqn:E; cbn in I1, I2; repeat split; try lia; try (intros Q; discriminate Q);
    try (intros (l' & Q); discriminate Q); eauto; intros; lia.
Qed.

Lemma set_nth_same {A} (l : list A) : forall i x, nth_error l i = Some x -> set_nth l i x = l.
Proof. induction l as [|h t IH]; intros [|i] x H; cbn in *; try discriminate; [inversion H; reflexivity|rewrite IH; auto]. Qed.

(* a call through an empty (moved-from, already used, default) promise fails and leaves no trace *)
Theorem empty_call_no_trace isvoid s p :
  nth_error (proms s) p = Some (Some None) ->
  (forall v, pstep isvoid s (PVal p v) = (s, [0%Z])) /\ (forall e, pstep isvoid s (PExc p e) = (s, [0%Z])) /\
  pstep isvoid s (PDrop p) = (s, [0%Z]) /\ pstep isvoid s (PQueryProm p) = (s, [0%Z]).
Proof.
  intros H. assert (E : set_prom s p (Some None) = s).
  { destruct s as [cs ps qs]. unfold set_prom. cbn [cells proms clos] in *. rewrite set_nth_same by exact H. reflexivity. }
  repeat split; intros; cbn [pstep fire]; rewrite H; cbn [fire b2z]; rewrite ?E; reflexivity.
Qed.

Lemma fire_proms isvoid s op o : proms (fst (fst (fire isvoid s op o))) = proms s /\ clos (fst (fst (fire isvoid s op o))) = clos s.
Proof. destruct op as [cp|]; cbn [fire]; [|auto]. unfold resolve. destruct (nth_error (cells s) cp); auto. Qed.

(* move assignment P[p] = std::move(P[q]) onto a live target, p <> q: the overwritten future becomes ready with no value by
   exactly one resolve(), the source is empty afterwards, the target stands for the source's future, which is untouched *)
Theorem assign_semantics isvoid s p q cp oq :
  PInv s -> nth_error (proms s) p = Some (Some (Some cp)) -> nth_error (proms s) q = Some (Some oq) -> p <> q ->
  let s' := fst (pstep isvoid s (PAssign p q)) in
  nth_error (proms s') q = Some (Some None) /\ nth_error (proms s') p = Some (Some oq) /\
  (exists cl cl', nth_error (cells s) cp = Some cl /\ nth_error (cells s') cp = Some cl' /\
                  c_slot cl' = CReady /\ c_pay cl' = c_pay cl /\ c_nres cl = 0 /\ c_nres cl' = 1) /\
  (forall c, c <> cp -> nth_error (cells s') c = nth_error (cells s) c).
Proof.
  intros I HP HQ N. cbn [pstep]. rewrite HP, HQ. destruct (Nat.eqb_spec p q); [contradiction|].
  destruct (owner_pending s p cp I HP) as (cl & l & HC & SL & NR & R1).
  cbn [fire]. unfold resolve. rewrite HC. cbn [fst set_prom set_cell proms cells].
  assert (NQ : Nat.eqb q p = false) by (apply Nat.eqb_neq; congruence).
  assert (NP : Nat.eqb p q = false) by (apply Nat.eqb_neq; congruence).
  repeat rewrite ?nth_set_nth, ?Nat.eqb_refl, ?NQ, ?NP, ?HP, ?HQ, ?HC.
  split; [reflexivity|]. split; [reflexivity|]. split.
  - exists cl. eexists. repeat split; try reflexivity; try assumption. cbn [c_nres]. lia.
  - intros c NC. rewrite nth_set_nth. destruct (Nat.eqb_spec cp c); [congruence|reflexivity].
Qed.

(* assignment onto an EMPTY target resolves nothing; assignment from an EMPTY source just drops the target's future *)
Theorem assign_onto_empty isvoid s p q oq :
  nth_error (proms s) p = Some (Some None) -> nth_error (proms s) q = Some (Some oq) -> p <> q ->
  let s' := fst (pstep isvoid s (PAssign p q)) in
  cells s' = cells s /\ nth_error (proms s') q = Some (Some None) /\ nth_error (proms s') p = Some (Some oq) /\
  snd (pstep isvoid s (PAssign p q)) = [0%Z].
Proof.
  intros HP HQ N. cbn [pstep]. rewrite HP, HQ. destruct (Nat.eqb_spec p q); [contradiction|].
  cbn [fire fst snd set_prom proms cells].
  assert (NQ : Nat.eqb q p = false) by (apply Nat.eqb_neq; congruence).
  assert (NP : Nat.eqb p q = false) by (apply Nat.eqb_neq; congruence).
  repeat rewrite ?nth_set_nth, ?Nat.eqb_refl, ?NQ, ?NP, ?HP, ?HQ. auto.
Qed.

(* move construction transfers the future and empties the source without touching any future *)
Theorem move_construct_semantics isvoid s p q oq :
  nth_error (proms s) p = Some None -> nth_error (proms s) q = Some (Some oq) ->
  let s' := fst (pstep isvoid s (PMoveC p q)) in
  cells s' = cells s /\ nth_error (proms s') q = Some (Some None) /\ nth_error (proms s') p = Some (Some oq).
Proof.
  intros HP HQ. cbn [pstep]. rewrite HP, HQ. cbn [fst set_prom proms cells].
  assert (N : p <> q) by (intros ->; congruence).
  assert (NQ : Nat.eqb q p = false) by (apply Nat.eqb_neq; congruence).
  assert (NP : Nat.eqb p q = false) by (apply Nat.eqb_neq; congruence).
  repeat rewrite ?nth_set_nth, ?Nat.eqb_refl, ?NQ, ?NP, ?HP, ?HQ. auto.
Qed.

(* destroying / dropping an owner resolves its future to no-value (payload untouched), exactly one resolve() *)
Theorem destroy_resolves isvoid s p cp :
  PInv s -> nth_error (proms s) p = Some (Some (Some cp)) ->
  forall x, x = PDestroy p \/ x = PDrop p \/ x = PUnwind p ->
  exists cl cl', nth_error (cells s) cp = Some cl /\ nth_error (cells (fst (pstep isvoid s x))) cp = Some cl' /\
                 c_slot cl' = CReady /\ c_pay cl' = c_pay cl /\ c_nres cl' = 1.
Proof.
  intros I HP x Hx. destruct (owner_pending s p cp I HP) as (cl & l & HC & SL & NR & R1).
  destruct Hx as [-> |[-> | ->]]; cbn [pstep]; rewrite HP; cbn [fire]; unfold resolve; rewrite HC; cbn [fst set_prom set_cell cells];
    rewrite nth_set_nth, Nat.eqb_refl, HC; exists cl; eexists; repeat split; try reflexivity; cbn [c_nres]; lia.
Qed.

(* a pending future has no payload yet: so "payload untouched" above means no-value *)
Definition PInv2 (s : pst) : Prop :=
  forall c cl, nth_error (cells s) c = Some cl -> c_slot cl <> CReady -> c_pay cl = ONone.

Lemma pinv2_set_ready s c x : PInv2 s -> c_slot x = CReady -> PInv2 (mkP (set_nth (cells s) c x) (proms s) (clos s)).
Proof.
  intros I R c' cl'. cbn [cells]. rewrite nth_set_nth. destruct (Nat.eqb_spec c c') as [<-|N]; [|apply I].
  destruct (nth_error (cells s) c); [|discriminate]. intros Q; inversion Q; subst. congruence.
Qed.

Lemma pinv2_cells s s' : cells s' = cells s -> PInv2 s -> PInv2 s'.
Proof. intros E I c cl. rewrite E. apply I. Qed.

Lemma pinv2_fire isvoid s op o : PInv2 s -> PInv2 (fst (fst (fire isvoid s op o))).
Proof.
  intros I. destruct op as [cp|]; cbn [fire]; [|exact I].
  unfold resolve. destruct (nth_error (cells s) cp) as [cl|]; [|exact I]. cbn [fst].
  apply (pinv2_set_ready s cp); [exact I|reflexivity].
Qed.

Lemma pinv2_take s c : PInv2 s -> cell_is_init s c = true -> PInv2 (take_promise s c).
Proof.
  intros I CI. destruct (cell_is_init_spec s c CI) as (cl & HC & SL). unfold take_promise. rewrite HC.
  intros c' cl'. cbn [set_cell cells]. rewrite nth_set_nth, HC. destruct (Nat.eqb_spec c c') as [<-|N]; [|apply I].
  intros Q; inversion Q; subst. cbn [c_slot c_pay]. intros _. eapply I; [exact HC|congruence].
Qed.

Theorem pinv2_step isvoid s x : PInv2 s -> PInv2 (fst (pstep isvoid s x)).
Proof.
  intros I. destruct x; cbn [pstep].
  - destruct (nth_error (proms s) p) as [[o|]|]; try exact I. destruct (cell_is_init s c) eqn:CI; [|exact I].
    cbn [fst]. eapply pinv2_cells; [|apply pinv2_take; eassumption]. reflexivity.
  - destruct (nth_error (proms s) p) as [[o|]|]; try exact I. destruct (nth_error (proms s) q) as [[oq|]|]; exact I.
  - destruct (nth_error (proms s) p) as [[op|]|]; try exact I. destruct (nth_error (proms s) q) as [[oq|]|]; try exact I.
    destruct (Nat.eqb p q); [exact I|]. fire_case F. cbn [fst].
    pose proof (pinv2_fire isvoid s op None I) as I2. rewrite F in I2. exact I2.
  - destruct (nth_error (proms s) p) as [[op|]|]; try exact I. destruct (cell_is_init s c) eqn:CI; [|exact I].
    fire_case F. cbn [fst]. pose proof (pinv2_fire isvoid _ op None (pinv2_take s c I CI)) as I2. rewrite F in I2. exact I2.
  - destruct (nth_error (proms s) p) as [[op|]|]; try exact I. fire_case F. cbn [fst].
    pose proof (pinv2_fire isvoid s op None I) as I2. rewrite F in I2. exact I2.
  - destruct (nth_error (proms s) p) as [[op|]|]; try exact I. fire_case F. cbn [fst].
    pose proof (pinv2_fire isvoid s op None I) as I2. rewrite F in I2. exact I2.
  - destruct (nth_error (proms s) p) as [[op|]|]; try exact I. fire_case F. cbn [fst].
    pose proof (pinv2_fire isvoid s op (Some (OVal v)) I) as I2. rewrite F in I2. exact I2.
  - destruct (nth_error (proms s) p) as [[op|]|]; try exact I. fire_case F. cbn [fst].
    pose proof (pinv2_fire isvoid s op (Some (OExc e)) I) as I2. rewrite F in I2. exact I2.
  - destruct (nth_error (proms s) p) as [[op|]|]; try exact I. fire_case F. cbn [fst].
    pose proof (pinv2_fire isvoid s op None I) as I2. rewrite F in I2. exact I2.
  - destruct (nth_error (clos s) q) as [[o|]|]; try exact I. destruct (nth_error (proms s) p) as [[op|]|]; exact I.
  - destruct (nth_error (clos s) q) as [[[op v]|]|]; try exact I. fire_case F. cbn [fst].
    pose proof (pinv2_fire isvoid s op (Some (OVal v)) I) as I2. rewrite F in I2. exact I2.
  - destruct (nth_error (clos s) q) as [[[op v]|]|]; try exact I. fire_case F. cbn [fst].
    pose proof (pinv2_fire isvoid s op None I) as I2. rewrite F in I2. exact I2.
  - destruct (nth_error (cells s) c) as [cl|] eqn:HC; [|exact I]. destruct (c_slot cl) eqn:SL; try exact I. cbn [fst].
    intros c' cl'. cbn [set_cell cells]. rewrite nth_set_nth, HC. destruct (Nat.eqb_spec c c') as [<-|N]; [|apply I].
    intros Q; inversion Q; subst. cbn [c_pay]. intros _. eapply I; [exact HC|congruence].
  - destruct (nth_error (cells s) c); exact I.
  - destruct (nth_error (proms s) p) as [[op|]|]; exact I.
  - exact I.
Qed.

Lemma pinv2_init : PInv2 pinit.
Proof.
  intros c cl H _. unfold pinit in H. cbn [cells] in H. apply nth_error_In in H. apply repeat_spec in H. subst. reflexivity.
Qed.

Theorem pinv12_run isvoid ops : forall s, PInv s -> PInv2 s ->
  PInv (fst (prun isvoid s ops)) /\ PInv2 (fst (prun isvoid s ops)).
Proof.
  induction ops as [|x r IH]; intros s I J; cbn [prun]; [auto|].
  destruct (pstep isvoid s x) as [s1 o] eqn:E. specialize (IH s1).
  destruct (prun isvoid s1 r) as [s2 os] eqn:E2. cbn [fst] in *. apply IH.
  - pose proof (pinv_step isvoid s x I) as Q. rewrite E in Q. exact Q.
  - pose proof (pinv2_step isvoid s x J) as Q. rewrite E in Q. exact Q.
Qed.

(* the result of a ready future never changes: no later operation of any kind touches a ready cell *)
Theorem ready_is_stable isvoid s x c cl :
  PInv s -> nth_error (cells s) c = Some cl -> c_slot cl = CReady ->
  nth_error (cells (fst (pstep isvoid s x))) c = Some cl.
Proof.
  intros I HC SR.
  assert (FK : forall op o, (forall cp, op = Some cp -> exists cl' l, nth_error (cells s) cp = Some cl' /\ c_slot cl' = CChain l) ->
               nth_error (cells (fst (fst (fire isvoid s op o)))) c = Some cl).
  { intros op o P. destruct op as [cp|]; cbn [fire]; [|exact HC].
    destruct (P cp eq_refl) as (cl' & l & A & B). unfold resolve. rewrite A. cbn [fst set_cell cells].
    rewrite nth_set_nth. destruct (Nat.eqb_spec cp c) as [->|N]; [congruence|exact HC]. }
  assert (PK : forall p op, nth_error (proms s) p = Some (Some op) ->
               forall cp, op = Some cp -> exists cl' l, nth_error (cells s) cp = Some cl' /\ c_slot cl' = CChain l).
  { intros p op H cp ->. destruct (owner_pending s p cp I H) as (cl' & l & A & B & _). eauto. }
  assert (QK : forall q op v, nth_error (clos s) q = Some (Some (op, v)) ->
               forall cp, op = Some cp -> exists cl' l, nth_error (cells s) cp = Some cl' /\ c_slot cl' = CChain l).
  { intros q op v H cp ->. destruct (clo_owner_pending s q cp v I H) as (cl' & l & A & B & _). eauto. }
  destruct x; cbn [pstep].
  - destruct (nth_error (proms s) p) as [[o|]|]; try exact HC. destruct (cell_is_init s c0) eqn:CI; [|exact HC].
    destruct (cell_is_init_spec s c0 CI) as (cl0 & A & B). cbn [fst set_prom cells]. unfold take_promise. rewrite A.
    cbn [set_cell cells]. rewrite nth_set_nth. destruct (Nat.eqb_spec c0 c) as [->|N]; [congruence|exact HC].
  - destruct (nth_error (proms s) p) as [[o|]|]; try exact HC. destruct (nth_error (proms s) q) as [[oq|]|]; exact HC.
  - destruct (nth_error (proms s) p) as [[op|]|] eqn:HP; try exact HC. destruct (nth_error (proms s) q) as [[oq|]|]; try exact HC.
    destruct (Nat.eqb p q); [exact HC|]. fire_case F. cbn [fst set_prom cells].
    pose proof (FK op None (PK p op HP)) as Q. rewrite F in Q. exact Q.
  - destruct (nth_error (proms s) p) as [[op|]|] eqn:HP; try exact HC. destruct (cell_is_init s c0) eqn:CI; [|exact HC].
    destruct (cell_is_init_spec s c0 CI) as (cl0 & A & B).
    assert (N0 : c0 <> c) by (intros ->; congruence).
    destruct op as [cp|]; cbn [fire].
    + destruct (PK p _ HP cp eq_refl) as (cl' & l & A' & B').
      assert (N1 : c0 <> cp) by (intros ->; congruence).
      unfold take_promise. rewrite A. unfold resolve. cbn [set_cell cells]. rewrite nth_set_nth.
      destruct (Nat.eqb_spec c0 cp); [contradiction|]. rewrite A'. cbn [fst set_prom set_cell cells].
      rewrite !nth_set_nth. destruct (Nat.eqb_spec cp c) as [->|N2]; [congruence|].
      destruct (Nat.eqb_spec c0 c); [contradiction|exact HC].
    + cbn [fst set_prom cells]. unfold take_promise. rewrite A. cbn [set_cell cells]. rewrite nth_set_nth.
      destruct (Nat.eqb_spec c0 c); [contradiction|exact HC].
  - destruct (nth_error (proms s) p) as [[op|]|] eqn:HP; try exact HC. fire_case F. cbn [fst set_prom cells].
    pose proof (FK op None (PK p op HP)) as Q. rewrite F in Q. exact Q.
  - destruct (nth_error (proms s) p) as [[op|]|] eqn:HP; try exact HC. fire_case F. cbn [fst set_prom cells].
    pose proof (FK op None (PK p op HP)) as Q. rewrite F in Q. exact Q.
  - destruct (nth_error (proms s) p) as [[op|]|] eqn:HP; try exact HC. fire_case F. cbn [fst set_prom cells].
    pose proof (FK op (Some (OVal v)) (PK p op HP)) as Q. rewrite F in Q. exact Q.
  - destruct (nth_error (proms s) p) as [[op|]|] eqn:HP; try exact HC. fire_case F. cbn [fst set_prom cells].
    pose proof (FK op (Some (OExc e)) (PK p op HP)) as Q. rewrite F in Q. exact Q.
  - destruct (nth_error (proms s) p) as [[op|]|] eqn:HP; try exact HC. fire_case F. cbn [fst set_prom cells].
    pose proof (FK op None (PK p op HP)) as Q. rewrite F in Q. exact Q.
  - destruct (nth_error (clos s) q) as [[o|]|]; try exact HC. destruct (nth_error (proms s) p) as [[op|]|]; exact HC.
  - destruct (nth_error (clos s) q) as [[[op v]|]|] eqn:HQ; try exact HC. fire_case F. cbn [fst set_clo cells].
    pose proof (FK op (Some (OVal v)) (QK q op v HQ)) as Q. rewrite F in Q. exact Q.
  - destruct (nth_error (clos s) q) as [[[op v]|]|] eqn:HQ; try exact HC. fire_case F. cbn [fst set_clo cells].
    pose proof (FK op None (QK q op v HQ)) as Q. rewrite F in Q. exact Q.
  - destruct (nth_error (cells s) c0) as [cl0|] eqn:A; [|exact HC]. destruct (c_slot cl0) eqn:B; try exact HC.
    cbn [fst set_cell cells]. rewrite nth_set_nth. destruct (Nat.eqb_spec c0 c) as [->|N]; [congruence|exact HC].
  - destruct (nth_error (cells s) c0); exact HC.
  - destruct (nth_error (proms s) p) as [[op|]|]; exact HC.
  - exact HC.
Qed.

(* the overwritten future reads as no-value (await_canceled_exception / has_value() = false) *)
Corollary assign_overwritten_novalue isvoid s p q cp oq :
  PInv s -> PInv2 s -> nth_error (proms s) p = Some (Some (Some cp)) -> nth_error (proms s) q = Some (Some oq) -> p <> q ->
  exists cl', nth_error (cells (fst (pstep isvoid s (PAssign p q)))) cp = Some cl' /\
              c_slot cl' = CReady /\ c_pay cl' = ONone /\ c_nres cl' = 1.
Proof.
  intros I J HP HQ N. destruct (assign_semantics isvoid s p q cp oq I HP HQ N) as (_ & _ & (cl & cl' & A & B & C & D & E & F) & _).
  exists cl'. repeat split; try assumption. rewrite D. destruct (owner_pending s p cp I HP) as (cl0 & l & A0 & SL & _).
  rewrite A in A0. inversion A0; subst. eapply J; [exact A|congruence].
Qed.

(* C02 side of move assignment: the waiters parked on the overwritten future are released AT the assignment, all of
   them, each once, with the (no-value) result: callbacks in chain order, then the coroutines *)
Theorem assign_releases_waiters isvoid s p q cp oq cl l :
  nth_error (proms s) p = Some (Some (Some cp)) -> nth_error (proms s) q = Some (Some oq) -> p <> q ->
  nth_error (cells s) cp = Some cl -> c_slot cl = CChain l ->
  snd (pstep isvoid s (PAssign p q)) = 0%Z :: deliver isvoid (c_pay cl) l /\
  (forall w k, In (w, k) l -> In (Z.of_nat w) (deliver isvoid (c_pay cl) l)).
Proof.
  intros HP HQ N HC SL. split.
  - cbn [pstep]. rewrite HP, HQ. destruct (Nat.eqb_spec p q); [contradiction|].
    cbn [fire]. unfold resolve. rewrite HC, SL. reflexivity.
  - intros w k H. unfold deliver. apply in_flat_map. exists (w, k). split; [|left; reflexivity].
    apply in_or_app. destruct k; [right|left]; apply filter_In; auto.
Qed.

(* the same for destruction (ordinary / by unwinding) and explicit drop of the owner *)
Theorem drop_releases_waiters isvoid s p cp cl l x :
  nth_error (proms s) p = Some (Some (Some cp)) -> nth_error (cells s) cp = Some cl -> c_slot cl = CChain l ->
  x = PDestroy p \/ x = PUnwind p \/ x = PDrop p ->
  exists r, snd (pstep isvoid s x) = r :: deliver isvoid (c_pay cl) l.
Proof.
  intros HP HC SL [-> |[-> | ->]]; cbn [pstep]; rewrite HP; cbn [fire]; unfold resolve; rewrite HC, SL; eexists; reflexivity.
Qed.
