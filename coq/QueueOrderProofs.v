(* QueueOrderProofs.v — per-producer order at every consumer, for every schedule of the interleaving model of
   QueueDefs.v (any number of producer / consumer / unblock_pop threads, queue<T> or limited_queue<T>).
   The argument: (1) items are matched to pops in critical-section order (t_alog), which is a prefix of the push order
   (t_plog, QueueConcProofs.tcons); (2) a consumer has at most one pop outstanding, so what it has received is a prefix
   of the sub-sequence of t_alog assigned to it; (3) a producer's items appear in t_plog in the order of its pushes. *)
From Cocls Require Import Base BaseProofs QueueDefs QueueConcProofs.
Require Import ZifyBool Sorted.
Local Open Scope nat_scope.

Definition is_c (c : nat) (x : nat * titem) : bool := Nat.eqb (fst x) c.
Definition cons_of (l : list (nat * (nat * outcome))) : list nat := map (fun x => fst (snd x)) l.
Definition outst (c : nat) (s : tstate) : nat := count_n c (t_waiters s) + count_n c (cons_of (t_infl s)).
Definition nres (c : nat) (s : tstate) : nat := count_n c (map fst (t_rlog s)).

Lemma count_n_nil x : count_n x [] = 0. Proof. reflexivity. Qed.
Lemma count_n_cons x y l : count_n x (y :: l) = (if Nat.eqb x y then 1 else 0) + count_n x l.
Proof. unfold count_n. cbn [filter]. destruct (Nat.eqb x y); reflexivity. Qed.
Lemma count_n_app x a b : count_n x (a ++ b) = count_n x a + count_n x b.
Proof. unfold count_n. rewrite filter_app, app_length. reflexivity. Qed.
Arguments count_n : simpl never.

Record tord (s : tstate) : Prop := mkTord {
  to_seq : forall c, filter (is_c c) (t_alog s) = filter (is_c c) (ritems (t_rlog s)) ++ filter (is_c c) (iitems (t_infl s));
  to_k1 : forall c, outst c s <= 1;
  to_k2 : forall c, 1 <= outst c s -> exists n issued pc, nth_error (t_thr s) c = Some (TCons n issued pc) /\ pc <> CIdle;
  to_k3 : forall c n issued pc, nth_error (t_thr s) c = Some (TCons n issued pc) -> nres c s + outst c s = issued
}.

(* generic shape of a step: thread i's entry is replaced, the counts move as described *)
Lemma tord_generic s s' i t t' :
  tord s -> nth_error (t_thr s) i = Some t -> t_thr s' = set_nth (t_thr s) i t' ->
  (forall c, filter (is_c c) (t_alog s') = filter (is_c c) (ritems (t_rlog s')) ++ filter (is_c c) (iitems (t_infl s'))) ->
  (forall c, outst c s' <= 1) ->
  (forall c, c <> i -> nres c s' + outst c s' = nres c s + outst c s /\ outst c s' <= outst c s) ->
  (1 <= outst i s' -> exists n issued pc, t' = TCons n issued pc /\ pc <> CIdle) ->
  (forall n issued pc, t' = TCons n issued pc -> nres i s' + outst i s' = issued) ->
  tord s'.
Proof.
  intros [J K1 K2 K3] T E J' K1' OTH KI2 KI3. split; [exact J'|exact K1'| |].
  - intros c H. destruct (Nat.eq_dec c i) as [->|NE].
    + destruct (KI2 H) as (n & issued & pc & -> & NP). exists n, issued, pc. split; [|exact NP]. rewrite E. apply (nth_error_set_same _ _ _ _ T).
    + destruct (OTH c NE) as [_ LE]. destruct (K2 c ltac:(lia)) as (n & issued & pc & X & NP). exists n, issued, pc. split; [|exact NP].
      rewrite E. rewrite nth_error_set_nth_other by congruence. exact X.
  - intros c n issued pc H. rewrite E in H. destruct (Nat.eq_dec c i) as [->|NE].
    + rewrite (nth_error_set_same _ _ _ _ T) in H. injection H as H. apply (KI3 n issued pc). exact H.
    + rewrite nth_error_set_nth_other in H by congruence. destruct (OTH c NE) as [EQ _]. rewrite EQ. apply (K3 c n issued pc H).
Qed.

Lemma filter_snoc_c {A} (f : A -> bool) l x : filter f (l ++ [x]) = filter f l ++ (if f x then [x] else []).
Proof. rewrite filter_app. cbn [filter]. destruct (f x); reflexivity. Qed.

Lemma cons_of_cons k c o t : cons_of ((k, (c, o)) :: t) = c :: cons_of t.
Proof. reflexivity. Qed.

(* removing thread i's in-flight entry (c, o) *)
Lemma cons_of_remove i l c o x : afind i l = Some (c, o) ->
  count_n x (cons_of l) = (if Nat.eqb x c then 1 else 0) + count_n x (cons_of (aremove i l)).
Proof.
  induction l as [|[k [c' o']] t IH]; cbn [afind aremove]; [discriminate|].
  destruct (Nat.eqb i k) eqn:E.
  - intros H. injection H as -> ->. rewrite cons_of_cons, count_n_cons. reflexivity.
  - intros H. specialize (IH H). rewrite !cons_of_cons, !count_n_cons. rewrite IH. lia.
Qed.

Lemma filter_o_items_same c o : filter (is_c c) (o_items c o) = o_items c o.
Proof. destruct o; cbn [o_items filter]; try reflexivity. unfold is_c. cbn [fst]. rewrite Nat.eqb_refl. reflexivity. Qed.
Lemma filter_o_items_other c c' o : c' <> c -> filter (is_c c) (o_items c' o) = [].
Proof. intros H. destruct o; cbn [o_items filter]; try reflexivity. unfold is_c. cbn [fst]. apply Nat.eqb_neq in H. rewrite H. reflexivity. Qed.

Lemma iitems_remove_seq i l c o x : afind i l = Some (c, o) -> count_n c (cons_of l) <= 1 ->
  filter (is_c x) (iitems l) = filter (is_c x) (o_items c o) ++ filter (is_c x) (iitems (aremove i l)).
Proof.
  induction l as [|[k [c' o']] t IH]; cbn [afind aremove]; [discriminate|].
  destruct (Nat.eqb i k) eqn:E.
  - intros H _. injection H as -> ->. cbn [iitems flat_map fst snd]. rewrite filter_app. reflexivity.
  - intros H LE. rewrite cons_of_cons, count_n_cons in LE.
    pose proof (cons_of_remove i t c o c H) as CR. rewrite Nat.eqb_refl in CR.
    assert (Nat.eqb c c' = false) as NE by (destruct (Nat.eqb c c'); [lia|reflexivity]).
    assert (count_n c (cons_of t) <= 1) as LE' by lia.
    specialize (IH H LE'). cbn [iitems flat_map fst snd]. fold (iitems t). fold (iitems (aremove i t)).
    rewrite !filter_app. rewrite IH.
    destruct (Nat.eq_dec x c) as [->|NX].
    + rewrite (filter_o_items_other c c' o') by (apply Nat.eqb_neq in NE; congruence). reflexivity.
    + rewrite (filter_o_items_other x c o) by congruence. reflexivity.
Qed.

Lemma iitems_none c l : count_n c (cons_of l) = 0 -> filter (is_c c) (iitems l) = [].
Proof.
  induction l as [|[k [c' o']] t IH]; [reflexivity|]. rewrite cons_of_cons, count_n_cons.
  destruct (Nat.eqb c c') eqn:E; [lia|]. intros H. cbn [iitems flat_map fst snd]. rewrite filter_app.
  fold (iitems t). rewrite (IH H). rewrite filter_o_items_other; [reflexivity|]. apply Nat.eqb_neq in E. congruence.
Qed.

Lemma ritems_snoc l c o : ritems (l ++ [(c, o)]) = ritems l ++ o_items c o.
Proof. rewrite ritems_app. cbn [ritems flat_map fst snd]. rewrite app_nil_r. reflexivity. Qed.
Lemma iitems_snoc l i c o : iitems (l ++ [(i, (c, o))]) = iitems l ++ o_items c o.
Proof. rewrite iitems_app. cbn [iitems flat_map fst snd]. rewrite app_nil_r. reflexivity. Qed.
Lemma cons_of_snoc l i c o : cons_of (l ++ [(i, (c, o))]) = cons_of l ++ [c].
Proof. unfold cons_of. rewrite map_app. reflexivity. Qed.

Ltac tf := cbn [t_items t_waiters t_blocked t_limit t_dead t_infl t_cinfl t_rlog t_pdone t_alog t_plog t_wlog t_dlog t_thr fst snd] in *.
Ltac cnt := unfold outst, nres in *; tf;
  repeat match goal with H : t_waiters ?s = _ |- context [t_waiters ?s] => rewrite H end;
  repeat match goal with H : t_waiters ?s = _, H2 : context [t_waiters ?s] |- _ => lazymatch H2 with H => fail | _ => rewrite H in H2 end end;
  rewrite ?cons_of_snoc, ?map_app in *; cbn [map fst snd] in *; rewrite ?count_n_app, ?count_n_cons, ?count_n_nil in *.

Lemma not_cons_outst s i t : tord s -> nth_error (t_thr s) i = Some t ->
  (forall n issued pc, t = TCons n issued pc -> pc = CIdle) -> outst i s = 0.
Proof.
  intros [_ K1 K2 _] T H. destruct (outst i s) eqn:E; [reflexivity|]. exfalso.
  destruct (K2 i ltac:(lia)) as (n' & issued & pc & X & NP). rewrite T in X. injection X as X. exact (NP (H _ _ _ X)).
Qed.

(* steps that touch neither the waiters, the in-flight pop promises nor the resolution log *)
Lemma tord_quiet s s' i t t' : tord s -> nth_error (t_thr s) i = Some t -> t_thr s' = set_nth (t_thr s) i t' ->
  t_waiters s' = t_waiters s -> t_infl s' = t_infl s -> t_rlog s' = t_rlog s -> t_alog s' = t_alog s ->
  (forall n issued pc, t' = TCons n issued pc -> exists pc0, t = TCons n issued pc0) ->
  (outst i s = 0 \/ exists n issued pc, t' = TCons n issued pc /\ pc <> CIdle) ->
  tord s'.
Proof.
  intros O T E EW EI ER EA HC HI. pose proof O as [J K1 K2 K3].
  assert (forall c, outst c s' = outst c s) as EO by (intros c; unfold outst; rewrite EW, EI; reflexivity).
  assert (forall c, nres c s' = nres c s) as EN by (intros c; unfold nres; rewrite ER; reflexivity).
  apply (tord_generic s s' i t t' O T E).
  - intros c. rewrite EA, ER, EI. apply J.
  - intros c. rewrite EO. apply K1.
  - intros c NE. rewrite EO, EN. split; lia.
  - rewrite EO. intros H. destruct HI as [Z|X]; [lia|exact X].
  - intros n issued pc Ht. rewrite EO, EN. destruct (HC _ _ _ Ht) as (pc0 & ->). apply (K3 i n issued pc0 T).
Qed.

Lemma ritems_cancel_o (w : list nat) : ritems (map (fun c => (c, OCancel)) w) = [].
Proof. induction w as [|c w IH]; [reflexivity|]. cbn [map ritems flat_map fst snd o_items app]. exact IH. Qed.
Lemma count_cancel c (w : list nat) : count_n c (map fst (map (fun c => (c, OCancel)) w)) = count_n c w.
Proof. rewrite map_map. cbn [fst]. rewrite map_id. reflexivity. Qed.

(* the resolution of the pop promise taken by thread i, if any *)
Lemma tord_resolve_pop s i t t' : tord s -> nth_error (t_thr s) i = Some t -> (forall n issued pc, t <> TCons n issued pc) ->
  (forall n issued pc, t' <> TCons n issued pc) ->
  tord (with_thr (resolve_pop s i) (set_nth (t_thr (resolve_pop s i)) i t')).
Proof.
  intros O T NC NC'. pose proof O as [J K1 K2 K3].
  assert (outst i s = 0) as OI by (apply (not_cons_outst s i _ O T); intros n0 is0 pc0 X; exfalso; exact (NC _ _ _ X)).
  unfold resolve_pop, with_thr. destruct (afind i (t_infl s)) as [[c o]|] eqn:AF; tf.
  - pose proof (fun x => cons_of_remove i (t_infl s) c o x AF) as CR.
    eapply (tord_generic s _ i _ _ O T); [reflexivity|..]; tf.
    + intros c0. rewrite ritems_snoc, filter_app. rewrite J.
      rewrite (iitems_remove_seq i _ c o c0 AF) by (specialize (K1 c); unfold outst in K1; lia).
      rewrite <- app_assoc. reflexivity.
    + intros c0. specialize (K1 c0). specialize (CR c0). cnt. lia.
    + intros c0 NE. specialize (CR c0). cnt. destruct (Nat.eqb c0 c); lia.
    + intros H; exfalso; specialize (CR i); cnt; lia.
    + intros n issued pc H. exfalso. exact (NC' _ _ _ H).
  - eapply (tord_quiet s _ i t t' O T); try reflexivity.
    + intros n issued pc H. exfalso. exact (NC' _ _ _ H).
    + left. exact OI.
Qed.

Lemma tord_step s i : tord s -> t_enabled s i = true -> tord (fst (tstep s i)).
Proof.
  intros O EN. pose proof O as [J K1 K2 K3]. unfold tstep. unfold t_enabled, t_enabled0 in EN.
  destruct (nth_error (t_thr s) i) as [[vals k [|rb|b] nb rets | n issued [| |] | n e [|] rets | n e [|] rets | n [|] rets | d]|] eqn:T;
    [..|exact O].
  - (* producer, critical section *)
    assert (outst i s = 0) as OI by (apply (not_cons_outst s i _ O T); discriminate).
    destruct (t_waiters s) as [|c w] eqn:W; [destruct (full s)|]; cbn [fst].
    + eapply (tord_quiet s _ i _ _ O T); try reflexivity; tf; [symmetry; exact W|discriminate|left; exact OI].
    + eapply (tord_quiet s _ i _ _ O T); try reflexivity; tf; [symmetry; exact W|discriminate|left; exact OI].
    + (eapply (tord_generic s _ i _ _ O T); [reflexivity|..]); tf; try discriminate.
      * intros c0. rewrite iitems_snoc. cbn [o_items]. rewrite !filter_snoc_c. rewrite J. rewrite app_assoc. reflexivity.
      * intros c0; specialize (K1 c0); cnt; lia.
      * intros c0 NE; cnt; lia.
      * intros H; exfalso; cnt; lia.
  - (* producer, after the unlock *)
    cbn [fst]. destruct rb; apply (tord_resolve_pop s i _ _ O T); discriminate.
  - (* producer, wake *)
    assert (outst i s = 0) as OI by (apply (not_cons_outst s i _ O T); discriminate).
    cbn [fst]. eapply (tord_quiet s _ i _ _ O T); try reflexivity; [discriminate|left; exact OI].
  - (* consumer, critical section *)
    assert (outst i s = 0) as OI by (apply (not_cons_outst s i _ O T); intros ? ? ? X; congruence).
    pose proof (K3 i n issued CIdle T) as K3i.
    destruct (t_items s) as [|it t] eqn:I; [|destruct (t_blocked s) as [|[y p] b] eqn:B]; cbn [fst];
      (eapply (tord_generic s _ i _ _ O T); [reflexivity|..]); tf.
    all: try (intros c0; specialize (K1 c0); cnt; lia).
    all: try (intros c0 NE; cnt; try (assert (Nat.eqb c0 i = false) as -> by (apply Nat.eqb_neq; exact NE)); lia).
    all: try (intros H; exfalso; cnt; lia).
    all: try exact J.
    all: try (intros ?n ?iss ?pc ?H; match goal with H : TCons _ _ _ = TCons _ _ _ |- _ => injection H as <- <- <- end; cnt; rewrite ?Nat.eqb_refl; lia).
    + intros c0. destruct (Nat.eq_dec c0 i) as [->|NE]; [cnt; rewrite ?Nat.eqb_refl; lia|].
      specialize (K1 c0); cnt; assert (Nat.eqb c0 i = false) as -> by (apply Nat.eqb_neq; exact NE); lia.
    + intros _. do 3 eexists. split; [reflexivity|discriminate].
    + intros c0. rewrite ritems_snoc. cbn [o_items]. rewrite !filter_snoc_c. rewrite J. assert (is_c c0 (i, it) = Nat.eqb i c0) as EI by reflexivity. rewrite EI.
      destruct (Nat.eqb i c0) eqn:E; [|rewrite !app_nil_r; reflexivity].
      apply Nat.eqb_eq in E; subst c0. rewrite (iitems_none i) by (unfold outst in OI; lia). rewrite !app_nil_r. reflexivity.
    + intros c0. rewrite ritems_snoc. cbn [o_items]. rewrite !filter_snoc_c. rewrite J. assert (is_c c0 (i, it) = Nat.eqb i c0) as EI by reflexivity. rewrite EI.
      destruct (Nat.eqb i c0) eqn:E; [|rewrite !app_nil_r; reflexivity].
      apply Nat.eqb_eq in E; subst c0. rewrite (iitems_none i) by (unfold outst in OI; lia). rewrite !app_nil_r. reflexivity.
  - (* consumer, after the unlock: only cinfl / pdone move *)
    cbn [fst]. unfold resolve_push, with_thr. destruct (afind i (t_cinfl s)) as [[p code]|]; tf;
      (eapply (tord_quiet s _ i _ _ O T); try reflexivity; [intros ? ? ? X; injection X as <- <- <-; eexists; reflexivity|]);
      right; do 3 eexists; (split; [reflexivity|discriminate]).
  - (* consumer, wake: enabled means its pop future is resolved, so nothing is outstanding *)
    pose proof (K3 i n issued CWait T) as K3i. apply Nat.eqb_eq in EN. fold (nres i s) in EN.
    cbn [fst]. eapply (tord_quiet s _ i _ _ O T); try reflexivity; [intros ? ? ? X; injection X as <- <- <-; eexists; reflexivity|].
    left. lia.
  - (* unblock_pop, critical section *)
    assert (outst i s = 0) as OI by (apply (not_cons_outst s i _ O T); discriminate).
    destruct (t_waiters s) as [|c w] eqn:W; cbn [fst].
    + eapply (tord_quiet s _ i _ _ O T); try reflexivity; tf; [symmetry; exact W|discriminate|left; exact OI].
    + (eapply (tord_generic s _ i _ _ O T); [reflexivity|..]); tf; try discriminate.
      * intros c0. rewrite iitems_snoc. cbn [o_items]. rewrite app_nil_r. apply J.
      * intros c0; specialize (K1 c0); cnt; lia.
      * intros c0 NE; cnt; lia.
      * intros H; exfalso; cnt; lia.
  - (* unblock_pop, after the unlock *)
    cbn [fst]. apply (tord_resolve_pop s i _ _ O T); discriminate.
  - (* unblock_push, critical section *)
    assert (outst i s = 0) as OI by (apply (not_cons_outst s i _ O T); discriminate).
    destruct (t_blocked s) as [|[y p] b] eqn:B; cbn [fst];
      (eapply (tord_quiet s _ i _ _ O T); try reflexivity; [discriminate|left; exact OI]).
  - (* unblock_push, after the unlock *)
    assert (outst i s = 0) as OI by (apply (not_cons_outst s i _ O T); discriminate).
    cbn [fst]. unfold resolve_push, with_thr. destruct (afind i (t_cinfl s)) as [[p code]|]; tf;
      (eapply (tord_quiet s _ i _ _ O T); try reflexivity; [discriminate|left; exact OI]).
  - (* size *)
    assert (outst i s = 0) as OI by (apply (not_cons_outst s i _ O T); discriminate).
    cbn [fst]. eapply (tord_quiet s _ i _ _ O T); try reflexivity; [discriminate|left; exact OI].
  - assert (outst i s = 0) as OI by (apply (not_cons_outst s i _ O T); discriminate).
    cbn [fst]. eapply (tord_quiet s _ i _ _ O T); try reflexivity; [discriminate|left; exact OI].
  - (* destroy: every waiting pop is canceled *)
    assert (outst i s = 0) as OI by (apply (not_cons_outst s i _ O T); discriminate).
    cbn [fst]. (eapply (tord_generic s _ i _ _ O T); [reflexivity|..]); tf; try discriminate.
    + intros c0. rewrite ritems_app, ritems_cancel_o, app_nil_r. apply J.
    + intros c0. specialize (K1 c0). cnt. lia.
    + intros c0 NE. unfold nres, outst. tf. rewrite map_app, count_n_app, count_cancel. cnt. lia.
    + intros H. exfalso. cnt. lia.
Qed.

(* ---------- only enabled threads step ---------- *)
Lemma t_enabled_list_sound s n : forall from x, In x (t_enabled_list s n from) -> t_enabled s x = true.
Proof.
  induction n as [|n IH]; intros from x H; cbn [t_enabled_list] in H; [contradiction|].
  apply in_app_or in H as [H|H]; [|exact (IH _ _ H)].
  destruct (t_enabled s from) eqn:E; [|contradiction]. destruct H as [<-|[]]. exact E.
Qed.

Lemma t_pick_enabled s k i : t_pick s k = Some i -> t_enabled s i = true.
Proof.
  unfold t_pick. destruct (t_all_enabled s) as [|a en] eqn:E; [discriminate|]. intros H.
  assert (i = nth (Z.to_nat (Z.abs k mod zlen (a :: en))) (a :: en) 0) as -> by congruence.
  apply (t_enabled_list_sound s (length (t_thr s)) 0). fold (t_all_enabled s). rewrite E.
  clear H. apply nth_In. assert (0 < zlen (a :: en))%Z as PZ by (unfold zlen; cbn [length]; lia).
  pose proof (Z.mod_pos_bound (Z.abs k) (zlen (a :: en)) PZ) as B. unfold zlen in *. lia.
Qed.

Lemma t_run_inv_en (P : tstate -> Prop) :
  (forall s i, P s -> t_enabled s i = true -> P (fst (tstep s i))) ->
  forall fuel s sched tr, P s -> P (fst (t_run_sched fuel s sched tr)).
Proof.
  intros Hstep. induction fuel as [|f IH]; intros s sched tr H; cbn [t_run_sched fst]; [exact H|].
  destruct (t_pick s _) as [i|] eqn:PK; [|exact H].
  specialize (Hstep s i H (t_pick_enabled _ _ _ PK)). destruct (tstep s i) as [s1 code]. cbn [fst] in Hstep. apply IH. exact Hstep.
Qed.

Lemma tord_init limit thrs : Forall t_fresh thrs -> tord (t_init limit thrs).
Proof.
  intros F. split; unfold outst, nres; cbn [t_init t_items t_waiters t_blocked t_limit t_infl t_cinfl t_rlog t_pdone t_alog t_plog t_thr];
    cbn [cons_of map ritems iitems flat_map filter app]; rewrite ?count_n_nil.
  - reflexivity.
  - intros c. rewrite !count_n_nil. lia.
  - intros c H. rewrite !count_n_nil in H. lia.
  - intros c n issued pc E. rewrite !count_n_nil. apply nth_error_In in E. rewrite Forall_forall in F. destruct (F _ E) as [-> _]. reflexivity.
Qed.

Lemma tord_reachable limit thrs s : Forall t_fresh thrs -> t_reachable limit thrs s -> tord s.
Proof. intros F (sched & fuel & tr & ->). apply t_run_inv_en; [intros; apply tord_step; assumption|apply tord_init; exact F]. Qed.

(* ---------- sortedness toolkit ---------- *)
Lemma SS_seq a n : StronglySorted lt (seq a n).
Proof.
  revert a; induction n as [|n IH]; intros a; cbn [seq]; constructor; [apply IH|].
  apply Forall_forall. intros x H. apply in_seq in H. lia.
Qed.
Lemma SS_map_filter {A} (F : A -> nat) (h : A -> bool) l :
  StronglySorted lt (map F l) -> StronglySorted lt (map F (filter h l)).
Proof.
  induction l as [|x l IH]; intros H; [constructor|]. cbn [map] in H. inversion H as [|? ? S Fa]; subst.
  cbn [filter]. destruct (h x); [|apply IH; exact S]. cbn [map]. constructor; [apply IH; exact S|].
  rewrite Forall_forall in *. intros y Hy. apply Fa. apply in_map_iff in Hy as (z & <- & Hz). apply filter_In in Hz as [Hz _].
  apply in_map. exact Hz.
Qed.
Lemma filter_map_snd {A B} (g : B -> bool) (l : list (A * B)) :
  filter g (map snd l) = map snd (filter (fun x => g (snd x)) l).
Proof. induction l as [|x l IH]; [reflexivity|]. cbn [map filter]. destruct (g (snd x)); cbn [map]; rewrite IH; reflexivity. Qed.
Lemma filter_comm {A} (f g : A -> bool) l : filter f (filter g l) = filter g (filter f l).
Proof.
  induction l as [|x l IH]; [reflexivity|]. cbn [filter].
  destruct (g x) eqn:G; destruct (f x) eqn:Fx; cbn [filter]; rewrite ?G, ?Fx, IH; reflexivity.
Qed.

Lemma p_items_keys p vals k : map it_k (p_items p vals k) = seq 0 k.
Proof. unfold p_items. rewrite map_map. cbn [it_k]. apply map_id. Qed.

(* the items consumer c has received so far, in the order it received them *)
Definition got (c : nat) (s : tstate) : list titem := map snd (filter (is_c c) (ritems (t_rlog s))).

(* per-producer order at every consumer, for every schedule: among the items consumer c has received, those pushed by
   producer p carry strictly increasing push indices, i.e. they arrive in p's push order *)
Theorem tq_per_producer_order limit thrs s c p :
  limit_ok limit -> Forall t_fresh thrs -> t_reachable limit thrs s ->
  StronglySorted lt (map it_k (filter (of_p p) (got c s))).
Proof.
  intros L F R. destruct (tcons_reachable _ _ _ L F R) as [_ _ _ _ _ _ J6]. destruct (tord_reachable _ _ _ F R) as [J _ _ _].
  destruct (J6 p) as [S1 _]. unfold t_chain in S1.
  rewrite filter_app, map_app in S1. apply SS_app_l in S1.
  rewrite filter_map_snd, map_map in S1.
  apply (SS_map_filter _ (is_c c)) in S1. rewrite filter_comm in S1. rewrite (J c) in S1.
  rewrite filter_app, map_app in S1. apply SS_app_l in S1.
  unfold got. rewrite filter_map_snd, map_map. exact S1.
Qed.

(* items are matched to pops in critical-section order; matched ++ queued ++ held-by-blocked is, producer by producer, in
   push order (nothing overtakes); what a consumer has received plus what is in flight for it is exactly its share of the
   matching, in order (single consumer: FIFO) *)
Theorem tq_assignment_in_push_order limit thrs s :
  limit_ok limit -> Forall t_fresh thrs -> t_reachable limit thrs s ->
  (forall p, StronglySorted lt (map it_k (filter (of_p p) (map snd (t_alog s) ++ t_items s ++ map fst (t_blocked s))))) /\
  forall c, map snd (filter (is_c c) (t_alog s)) = got c s ++ map snd (filter (is_c c) (iitems (t_infl s))).
Proof.
  intros L F R. destruct (tcons_reachable _ _ _ L F R) as [_ _ _ _ _ _ J6]. destruct (tord_reachable _ _ _ F R) as [J _ _ _].
  split; [intros p; exact (proj1 (J6 p))|]. intros c. rewrite (J c), map_app. reflexivity.
Qed.
