(* MutexDefs.v — interleaving model of cocls::mutex (mutex.h as repaired by 2b1c999, awaiter.h co_awaiter /
   sync_awaiter, the thread-local coro_queue of coro_queue.h / suspend_point.h as far as the mutex uses it).
   Memory-faithful: `requests` and `queue` are pointers (null | doorman | awaiter of task w), the `_next`
   links are a map; build_queue walks the links.  One model step = one atomic operation on mutex::_requests
   (the harness intercepts std::atomic<awaiter*>: every load / exchange / compare_exchange is a scheduling
   point of its own, whether or not the library marks it) plus the thread-private code that follows it, or
   the code after a remaining marked point ("m_pub" after the publishing CAS, "cs"/"step" in the scenario,
   the BLOCK before flag.wait).  Point codes: 27 load, 28 exchange, 29 compare_exchange, 22 m_pub, 8 flagwait,
   25 cs, 30 step.  Logical contenders ("tasks") are coroutines or plain threads; a coroutine is
   resumed on the OS thread of whoever releases the mutex, so OS threads carry a ready queue (coro_queue)
   and the task they currently execute.  Model only, no proofs. *)
From Cocls Require Import Base.
Local Open Scope Z_scope.

Inductive ptr := PNull | PDoor | PNode (w : nat).
Inductive kind := KCoro | KPlain.
Inductive acq := ALock | ATry.
Inductive rel := RDrop | RExpl | RAwait.

Inductive pc :=
| PStep      (* scenario point "step" (30): round boundary / start / end *)
| PTry       (* cas (29): mutex::ready(), CAS null -> doorman                          mutex.h:181-188 *)
| PSub (e : ptr) (* cas (29): mutex::subscribe(), one attempt of the publishing CAS with expected value e
                    (= the local `prev`; aw->_next = e was written before the attempt)    mutex.h:197-200 *)
| PPub0      (* "m_pub" (22): published, previous top was null -> owns the mutex        mutex.h:203 *)
| PPubW      (* "m_pub" (22): blocking thread published behind an owner                 mutex.h:212 *)
| PBqS       (* xchg (28): build_queue(aw) called from subscribe                        mutex.h:209,222 *)
| PParked    (* coroutine suspended, request published (its thread may still be in await_suspend) *)
| PFlag      (* "flagwait" (8): blocking thread waits for sync_awaiter::flag            awaiter.h:322 *)
| PCs        (* "cs" (25): owns the mutex; at (or queued for) the point inside the critical section *)
| PUnlock    (* load (27): mutex::unlock(): assert(_requests.load() != nullptr), queue test   mutex.h:151-154 *)
| PUnlockCas (* cas (29): unlock(): CAS doorman -> null                                  mutex.h:157 *)
| PBqU       (* xchg (28): build_queue(doorman) called from unlock                      mutex.h:165,222 *)
| PDone.

Record task := mkT {
  tk : kind; tpc : pc;
  prog : list (acq * rel);     (* rounds still to run *)
  cacq : acq; crel : rel;      (* flavours of the round in progress *)
  flag : bool;                 (* sync_awaiter::flag of the blocking wait in progress *)
  incs : bool;                 (* scenario: inside the critical section *)
  nround : nat; nent : nat; nfail : nat   (* scenario counters: rounds finished, CS entries, failed try_locks *)
}.

(* what an OS thread is executing *)
Inductive trun :=
| TIdle                 (* thread function returned *)
| TRun (c : nat)        (* executing task c (a coroutine under an installed queue, or its own plain code) *)
| TSusp (c : nat).      (* tail of await_suspend of coroutine c after the publishing CAS: at "m_pub" *)

Record thr := mkThr { run : trun; tq : list nat (* coro_queue::_queue of this thread *) }.

Record st := mkSt {
  requests : ptr;            (* mutex::_requests *)
  queue : ptr;               (* mutex::_queue *)
  next : list ptr;           (* awaiter::_next of the request of task w *)
  dnext : ptr;               (* awaiter::instance._next (the doorman is a real node) *)
  tasks : list task;
  thrs : list thr;
  err : bool;                (* null dereference in unlock (first = nullptr) *)
  ovl : bool;                (* scenario: overlap detector fired *)
  elog : list (nat * nat);   (* scenario event log: (6, w) w entered the critical section, (4, w) w left it,
                                (5, w) w's request was published (a successful CAS stored an awaiter) *)
  (* ghost history / abstraction, not read by any step *)
  owner : option nat;
  gstack : list nat;         (* requests published behind the owner and not yet detached, newest first *)
  gqueue : list nat;         (* owner-private FIFO *)
  alog : list nat;           (* successful publishing CASes, in order *)
  glog : list nat            (* grants of published requests, in order *)
}.

Definition ptr_eqb (a b : ptr) : bool :=
  match a, b with PNull, PNull => true | PDoor, PDoor => true | PNode x, PNode y => Nat.eqb x y | _, _ => false end.

Definition dflt_task := mkT KPlain PDone [] ALock RDrop false false 0 0 0.
Definition dflt_thr := mkThr TIdle [].
Definition gtask (s : st) (c : nat) : task := nth c (tasks s) dflt_task.
Definition gthr (s : st) (t : nat) : thr := nth t (thrs s) dflt_thr.
Definition gnext (s : st) (w : nat) : ptr := nth w (next s) PNull.

(* ---- record updates ---- *)
Definition t_pc (x : task) (p : pc) : task :=
  mkT (tk x) p (prog x) (cacq x) (crel x) (flag x) (incs x) (nround x) (nent x) (nfail x).
Definition t_flag (x : task) (f : bool) : task :=
  mkT (tk x) (tpc x) (prog x) (cacq x) (crel x) f (incs x) (nround x) (nent x) (nfail x).
Definition t_begin (x : task) (a : acq) (r : rel) (p : list (acq * rel)) : task :=
  mkT (tk x) PTry p a r (flag x) (incs x) (nround x) (nent x) (nfail x).
Definition t_enter (x : task) : task :=
  mkT (tk x) (tpc x) (prog x) (cacq x) (crel x) (flag x) true (nround x) (S (nent x)) (nfail x).
Definition t_leave (x : task) : task :=
  mkT (tk x) PUnlock (prog x) (cacq x) (crel x) (flag x) false (nround x) (nent x) (nfail x).
Definition t_endround (x : task) (failed : bool) : task :=
  mkT (tk x) PStep (prog x) (cacq x) (crel x) (flag x) (incs x) (S (nround x)) (nent x)
      (if failed then S (nfail x) else nfail x).

Definition s_tasks (s : st) (l : list task) : st :=
  mkSt (requests s) (queue s) (next s) (dnext s) l (thrs s) (err s) (ovl s) (elog s)
       (owner s) (gstack s) (gqueue s) (alog s) (glog s).
Definition s_thrs (s : st) (l : list thr) : st :=
  mkSt (requests s) (queue s) (next s) (dnext s) (tasks s) l (err s) (ovl s) (elog s)
       (owner s) (gstack s) (gqueue s) (alog s) (glog s).
Definition s_mem (s : st) (r q : ptr) (n : list ptr) (d : ptr) : st :=
  mkSt r q n d (tasks s) (thrs s) (err s) (ovl s) (elog s) (owner s) (gstack s) (gqueue s) (alog s) (glog s).
Definition s_err (s : st) : st :=
  mkSt (requests s) (queue s) (next s) (dnext s) (tasks s) (thrs s) true (ovl s) (elog s)
       (owner s) (gstack s) (gqueue s) (alog s) (glog s).
Definition s_scn (s : st) (o : bool) (e : list (nat * nat)) : st :=
  mkSt (requests s) (queue s) (next s) (dnext s) (tasks s) (thrs s) (err s) o e
       (owner s) (gstack s) (gqueue s) (alog s) (glog s).
Definition s_ghost (s : st) (o : option nat) (gs gq al gl : list nat) : st :=
  mkSt (requests s) (queue s) (next s) (dnext s) (tasks s) (thrs s) (err s) (ovl s) (elog s) o gs gq al gl.

Definition set_task (s : st) (c : nat) (x : task) : st := s_tasks s (set_nth (tasks s) c x).
Definition set_pc (s : st) (c : nat) (p : pc) : st := set_task s c (t_pc (gtask s c) p).
Definition set_run (s : st) (t : nat) (r : trun) : st :=
  s_thrs s (set_nth (thrs s) t (mkThr r (tq (gthr s t)))).
Definition set_tq (s : st) (t : nat) (q : list nat) : st :=
  s_thrs s (set_nth (thrs s) t (mkThr (run (gthr s t)) q)).

(* ---- scenario: critical-section entry of task w (it starts to run with the mutex) ---- *)
Definition enter (s : st) (w : nat) : st :=
  let o := existsb incs (tasks s) in
  set_task (s_scn s (ovl s || o) (elog s ++ [(6%nat, w)])) w (t_enter (gtask s w)).

Definition s_ev (s : st) (k w : nat) : st := s_scn s (ovl s) (elog s ++ [(k, w)]).

(* ---- coro_queue: the running coroutine of thread t suspended or finished: flush_queue picks the next
   handle (coro_queue.h:61-67); with an empty queue the queue is uninstalled and the code that installed
   it continues: the plain code of this thread if it is in the middle of a release, else the thread ends ---- *)
Definition yield (s : st) (t : nat) : st :=
  match tq (gthr s t) with
  | w :: r =>
      let s1 := set_run (set_tq s t r) t (TRun w) in
      match tpc (gtask s1 w) with PCs => enter s1 w | _ => s1 end
  | [] =>
      match tk (gtask s t), tpc (gtask s t) with
      | KPlain, PDone => set_run s t TIdle
      | KPlain, _ => set_run s t (TRun t)
      | KCoro, _ => set_run s t TIdle
      end
  end.

(* ---- build_queue(stop): exchange requests with the doorman, reverse the detached chain into _queue
   (mutex.h:218-233); no yield point inside the loop ---- *)
Fixpoint bq_walk (fuel : nat) (nx : list ptr) (dn : ptr) (req stop q : ptr) : list ptr * ptr * ptr :=
  match fuel with
  | O => (nx, dn, q)
  | S f =>
      if ptr_eqb req stop then (nx, dn, q) else
      match req with
      | PNull => (nx, dn, q)
      | PNode x => bq_walk f (set_nth nx x q) dn (nth x nx PNull) stop (PNode x)
      | PDoor => bq_walk f nx q dn stop PDoor
      end
  end.

Definition build_queue (s : st) (stop : ptr) : st :=
  let '(nx, dn, q) := bq_walk (length (tasks s) + 2) (next s) (dnext s) (requests s) stop (queue s) in
  let s1 := s_mem s PDoor q nx dn in
  s_ghost s1 (owner s1) [] (rev (gstack s1) ++ gqueue s1) (alog s1) (glog s1).

(* ---- the hand-over part of unlock (mutex.h:170-176) executed by task c on thread t, plus what the
   release flavour does with the suspend point returned by awaiter::resume() ---- *)
Definition handover (s : st) (t c : nat) : st :=
  match queue s with
  | PNull => s_err s
  | PDoor =>
      (* awaiter::instance would be "resumed": null_fn, nobody runs; the mutex stays locked *)
      let s1 := s_mem s (requests s) (dnext s) (next s) PNull in
      let s2 := s_ghost s1 None (gstack s1) (gqueue s1) (alog s1) (glog s1) in
      set_task s2 c (t_endround (gtask s2 c) false)
  | PNode w =>
      let s1 := s_mem s (requests s) (gnext s w) (set_nth (next s) w PNull) (dnext s) in
      let s2 := s_ghost s1 (Some w) (gstack s1) (tl (gqueue s1)) (alog s1) (glog s1 ++ [w]) in
      let s3 := set_task s2 c (t_endround (gtask s2 c) false) in
      match tk (gtask s3 w) with
      | KPlain => set_task s3 w (t_flag (gtask s3 w) true)          (* sync_awaiter::wakeup *)
      | KCoro =>
          let s4 := set_pc s3 w PCs in
          match tk (gtask s4 c), crel (gtask s4 c) with
          | KPlain, _ =>      (* no queue installed: suspend_now installs one and resumes w right here *)
              enter (set_run s4 t (TRun w)) w
          | KCoro, RAwait =>  (* suspend_point::await_suspend: symmetric transfer to w, c goes to the queue *)
              enter (set_run (set_tq s4 t (tq (gthr s4 t) ++ [c])) t (TRun w)) w
          | KCoro, _ =>       (* suspend point destroyed inside a coroutine: w is queued on this thread *)
              set_tq s4 t (tq (gthr s4 t) ++ [w])
          end
      end
  end.

Definition enabled (s : st) (t : nat) : bool :=
  negb (err s) &&
  match nth_error (thrs s) t with
  | Some (mkThr (TSusp _) _) => true
  | Some (mkThr (TRun c) _) =>
      match tpc (gtask s c) with
      | PFlag => flag (gtask s c)
      | PDone | PParked => false
      | _ => true
      end
  | _ => false
  end.

(* one step of OS thread t: new state, code of the point the thread was pending at, task label *)
Definition tstep (s : st) (t : nat) : st * Z * nat :=
  match run (gthr s t) with
  | TIdle => (s, 0, 0%nat)
  | TSusp c => (yield s t, 22, c)             (* subscribe returns true; await_suspend returns; flush_queue goes on *)
  | TRun c =>
      let x := gtask s c in
      match tpc x with
      | PStep =>
          match prog x with
          | [] =>
              let s1 := set_pc s c PDone in
              (match tk x with KCoro => yield s1 t | KPlain => set_run s1 t TIdle end, 30, c)
          | (a, r) :: p => (set_task s c (t_begin x a r p), 30, c)
          end
      | PTry =>
          match requests s with
          | PNull =>
              let s1 := s_mem s PDoor (queue s) (next s) (dnext s) in
              let s2 := s_ghost s1 (Some c) (gstack s1) (gqueue s1) (alog s1) (glog s1) in
              (enter (set_pc s2 c PCs) c, 29, c)
          | _ =>
              match cacq x with
              | ATry => (set_task s c (t_endround x true), 29, c)
              | ALock =>   (* subscribe(): prev = nullptr; aw->_next = prev; first attempt pending   mutex.h:197-199 *)
                  (set_pc (s_mem s (requests s) (queue s) (set_nth (next s) c PNull) (dnext s)) c (PSub PNull), 29, c)
              end
          end
      | PSub e =>
          if ptr_eqb (requests s) e then
            (* the CAS succeeds: the request (with aw->_next = e) is published *)
            let s1 := s_ev (s_mem s (PNode c) (queue s) (next s) (dnext s)) 5 c in
            match e with
            | PNull =>
                let s2 := s_ghost s1 (Some c) (gstack s1) (gqueue s1) (alog s1 ++ [c]) (glog s1 ++ [c]) in
                (set_pc s2 c PPub0, 29, c)
            | _ =>
                let s2 := s_ghost s1 (owner s1) (c :: gstack s1) (gqueue s1) (alog s1 ++ [c]) (glog s1) in
                match tk x with
                | KPlain => (set_task s2 c (t_pc (t_flag x false) PPubW), 29, c)   (* sync_awaiter::flag = false, awaiter.h:320 *)
                | KCoro => (set_run (set_pc s2 c PParked) t (TSusp c), 29, c)
                end
            end
          else
            (* the CAS fails: prev = the observed value; aw->_next = prev; next attempt pending *)
            (set_pc (s_mem s (requests s) (queue s) (set_nth (next s) c (requests s)) (dnext s)) c (PSub (requests s)), 29, c)
      | PPub0 => (set_pc s c PBqS, 22, c)
      | PPubW => (set_pc s c PFlag, 22, c)
      | PBqS => (enter (set_pc (build_queue s (PNode c)) c PCs) c, 28, c)
      | PFlag => (enter (set_task s c (t_pc (t_flag x false) PCs)) c, 8, c)
      | PCs => (set_task (s_ev s 4%nat c) c (t_leave x), 25, c)
      | PUnlock =>
          match requests s with
          | PNull => (s_err s, 27, c)              (* assert(_requests != nullptr) fails *)
          | _ =>
              match queue s with
              | PNull => (set_pc s c PUnlockCas, 27, c)
              | _ => (handover s t c, 27, c)
              end
          end
      | PUnlockCas =>
          match requests s with
          | PDoor =>
              let s1 := s_mem s PNull (queue s) (next s) (dnext s) in
              let s2 := s_ghost s1 None (gstack s1) (gqueue s1) (alog s1) (glog s1) in
              (set_task s2 c (t_endround x false), 29, c)
          | _ => (set_pc s c PBqU, 29, c)
          end
      | PBqU => (handover (build_queue s PDoor) t c, 28, c)
      | PParked | PDone => (s, 0, c)
      end
  end.

Fixpoint enabled_list (s : st) (n : nat) (from : nat) : list nat :=
  match n with
  | O => []
  | S m => (if enabled s from then [from] else []) ++ enabled_list s m (S from)
  end.
Definition all_enabled (s : st) : list nat := enabled_list s (length (thrs s)) 0.

(* run a schedule: choice k picks the (k mod |enabled|)-th enabled thread; an exhausted schedule continues with 0.
   trace entry: thread, point, task, followed by the scenario events (kind, task) of the step *)
Fixpoint run_sched (fuel : nat) (s : st) (sched : list Z) (tr : list (list Z)) : st * list (list Z) :=
  match fuel with
  | O => (s, tr)
  | S f =>
      match all_enabled s with
      | [] => (s, tr)
      | en =>
          let k := match sched with [] => 0 | x :: _ => Z.abs x end in
          let i := nth (Z.to_nat (k mod zlen en)) en 0%nat in
          let '(s1, p, c) := tstep s i in
          let ent := skipn (length (elog s)) (elog s1) in
          run_sched f s1 (tl sched)
                    (tr ++ [[Z.of_nat i; p; Z.of_nat c]] ++ map (fun e => [Z.of_nat (fst e); Z.of_nat (snd e)]) ent)
      end
  end.

(* ---------- wire ---------- *)
Fixpoint decode_rounds (l : list Z) : option (list (acq * rel)) :=
  match l with
  | [] => Some []
  | a :: r :: t =>
      match (if Z.eqb a 0 then Some ALock else if Z.eqb a 1 then Some ATry else None),
            (if Z.eqb r 0 then Some RDrop else if Z.eqb r 1 then Some RExpl else if Z.eqb r 2 then Some RAwait else None),
            decode_rounds t with
      | Some a', Some r', Some t' => Some ((a', r') :: t')
      | _, _, _ => None
      end
  | _ => None
  end.

(* kind 2 = a plain thread that requests through the callback overload await_suspend(resume_fn, ctx) with a callback that
   sets a flag (awaiter.h:191-194): the same sequence of atomic operations and the same blocking as lock().wait() *)
Definition decode_task (l : list Z) : list task :=
  match l with
  | 1 :: k :: r =>
      match (if Z.eqb k 0 then Some KCoro else if Z.eqb k 1 then Some KPlain else if Z.eqb k 2 then Some KPlain else None), decode_rounds r with
      | Some k', Some p => [mkT k' PStep p ALock RDrop false false 0 0 0]
      | _, _ => []
      end
  | _ => []
  end.
Definition decode_sched (l : list Z) : list Z := match l with 9 :: r => r | _ => [] end.

Fixpoint init_thrs (n : nat) (from : nat) : list thr :=
  match n with O => [] | S m => mkThr (TRun from) [] :: init_thrs m (S from) end.

Definition init (ops : list (list Z)) : st :=
  let ts := flat_map decode_task ops in
  mkSt PNull PNull (repeat PNull (length ts)) PNull ts (init_thrs (length ts) 0) false false []
       None [] [] [] [].

Fixpoint task_obs (l : list task) (i : nat) : list (list Z) :=
  match l with
  | [] => []
  | x :: r => [Z.of_nat i; 7; Z.of_nat (nround x); Z.of_nat (nent x); Z.of_nat (nfail x);
               match tpc x with PDone => 1 | _ => 0 end] :: task_obs r (S i)
  end.

Fixpoint stuck_list (l : list thr) (i : nat) : list Z :=
  match l with
  | [] => []
  | x :: r => (match run x with TIdle => [] | _ => [Z.of_nat i] end) ++ stuck_list r (S i)
  end.

Definition is_null (p : ptr) : Z := match p with PNull => 1 | _ => 0 end.

Definition mutex_run (ops : list (list Z)) : list (list Z) :=
  let s0 := init ops in
  let sched := flat_map decode_sched ops in
  let '(s, tr) := run_sched (length sched + 4000) s0 sched [] in
  tr ++ (if err s then [[-999]] else [])
     ++ (match stuck_list (thrs s) 0 with [] => [] | l => [777 :: l] end)
     ++ task_obs (tasks s) 0
     ++ [[8; b2z (ovl s); is_null (requests s); is_null (queue s)]].

(* ---------- decidable form of C07 + C08 on an observed event stream ----------
   The oracle does not replay the model and does not look at point codes.  It reads the events of the implementation:
     [5; task]   a request of the task was published (a successful compare_exchange stored an awaiter into _requests)
     [6; task]   the task entered the critical section        [4; task]   the task left the critical section
     [task; 7; rounds; entries; failed_try; done]   per contender, [8; overlap; requests_null; queue_null]
   and checks: no overlap, no deadlock/crash line, every contender finished all its rounds with
   entries + failed try_locks = rounds (failed only for try rounds); a task with an outstanding published request
   enters only as the oldest outstanding one (FIFO, exactly once per publish); a task without one enters only when
   nothing is outstanding (the mutex was free: no barging); entries and exits alternate (one task inside);
   nothing outstanding at the end and the mutex is free again. *)
Record ost := mkO {
  o_out : list nat;            (* published requests not yet entered, oldest first *)
  o_in : option nat;           (* task inside the critical section *)
  o_ok : bool
}.

Definition ostep (o : ost) (l : list Z) : ost :=
  match l with
  | [5; c] =>
      let c' := Z.to_nat c in
      mkO (o_out o ++ [c']) (o_in o) (o_ok o && negb (existsb (Nat.eqb c') (o_out o)))
  | [6; w] =>
      let w' := Z.to_nat w in
      let free := match o_in o with None => true | Some _ => false end in
      if existsb (Nat.eqb w') (o_out o) then
        match o_out o with
        | h :: r => mkO r (Some w') (o_ok o && free && Nat.eqb h w')
        | [] => mkO [] (Some w') false
        end
      else mkO (o_out o) (Some w') (o_ok o && free && match o_out o with [] => true | _ => false end)
  | [4; w] =>
      mkO (o_out o) None (o_ok o && match o_in o with Some h => Nat.eqb h (Z.to_nat w) | None => false end)
  | _ => o
  end.

Definition is_event (l : list Z) : bool :=
  match l with [k; _] => Z.eqb k 4 || Z.eqb k 5 || Z.eqb k 6 | _ => false end.

Fixpoint count_acq (p : list (acq * rel)) (a : acq) : nat :=
  match p with
  | [] => O
  | (ALock, _) :: r => (match a with ALock => 1 | ATry => 0 end) + count_acq r a
  | (ATry, _) :: r => (match a with ATry => 1 | ALock => 0 end) + count_acq r a
  end.

Definition list_eqb (a b : list Z) : bool :=
  Nat.eqb (length a) (length b) && forallb (fun p => Z.eqb (fst p) (snd p)) (combine a b).

(* the per-contender line of task i with program p *)
Definition task_line_ok (i : nat) (x : task) (l : list Z) : bool :=
  match l with
  | [j; 7; r; e; f; d] =>
      negb (Z.eqb j (Z.of_nat i)) ||
      (Z.eqb d 1 && Z.eqb r (zlen (prog x)) && Z.eqb (e + f) r &&
       Z.leb f (Z.of_nat (count_acq (prog x) ATry)) && Z.leb 0 f)
  | _ => true
  end.

Fixpoint tasks_ok (l : list task) (i : nat) (obs : list (list Z)) : bool :=
  match l with
  | [] => true
  | x :: r =>
      existsb (fun o => match o with [j; 7; _; _; _; _] => Z.eqb j (Z.of_nat i) | _ => false end) obs
      && forallb (task_line_ok i x) obs && tasks_ok r (S i) obs
  end.

Definition mutex_oracle (ops obs : list (list Z)) : bool :=
  let decl := tasks (init ops) in
  let o := fold_left ostep (filter is_event obs) (mkO [] None true) in
  o_ok o
  && match o_out o with [] => true | _ => false end
  && match o_in o with None => true | Some _ => false end
  && negb (existsb (fun l => match l with 777 :: _ => true | [-999] => true | _ => false end) obs)
  && existsb (fun l => list_eqb l [8; 0; 1; 1]) obs
  && tasks_ok decl 0 obs.
