(* QueueOracleProofs.v — the oracle of the controlled-thread engines (QueueDefs.tq_oracle) accepts every trace the
   interleaving model itself produces: for every case file (any threads, any schedule) tq_oracle ops (tq_run ops) = true.
   The core is a simulation: replaying the critical sections of the model's own trace on the ATOMIC thread-level FIFO
   (astep) yields a specification state that agrees with the model state up to the promises that are in flight
   (taken in a critical section, resolved after the unlock). *)
From Cocls Require Import Base BaseProofs QueueDefs QueueConcProofs QueueOrderProofs.
Require Import ZifyBool.
Local Open Scope Z_scope.

Definition adm_it (it : titem) : Z * option nat := (it_v it, None).
Definition blk_it (b : titem * nat) : Z * option nat := (it_v (fst b), Some (snd b)).
Definition enc_r (l : list (nat * outcome)) : list (nat * Z) := map (fun x => (fst x, enc_outcome (snd x))) l.
Definition enc_i (l : list (nat * (nat * outcome))) : list (nat * Z) :=
  map (fun x => (fst (snd x), enc_outcome (snd (snd x)))) l.

Definition entered (t : thr) : nat :=
  match t with
  | TProd _ k _ _ _ => k
  | TCons _ issued _ => issued
  | TUnb _ _ pc rets => length rets + (match pc with URes => 1 | UIdle => 0 end)
  | TUnbPush _ _ pc rets => length rets + (match pc with URes => 1 | UIdle => 0 end)
  | TSize _ _ rets => length rets
  | TDestroy d => if d then 1 else 0
  end.

Definition same_kind (t0 t : thr) : Prop :=
  match t0, t with
  | TProd v _ _ _ _, TProd v' _ _ _ _ => v = v'
  | TCons _ _ _, TCons _ _ _ => True
  | TUnb _ e _ _, TUnb _ e' _ _ => e = e'
  | TUnbPush _ e _ _, TUnbPush _ e' _ _ => e = e'
  | TSize _ _ _, TSize _ _ _ => True
  | TDestroy _, TDestroy _ => True
  | _, _ => False
  end.
Definition kinds (thrs0 l : list thr) : Prop :=
  length thrs0 = length l /\ forall i t0 t, nth_error thrs0 i = Some t0 -> nth_error l i = Some t -> same_kind t0 t.

Definition has {B} (o : option B) : Z := match o with Some _ => 1 | None => 0 end.
Definition lag_p (s : tstate) (i : nat) (pc : ppc) : list Z :=
  match pc with
  | PRes true => [2]
  | PRes false => [has (afind i (t_infl s))]
  | PWait true => [2]
  | _ => []
  end.
Definition lag_u (pc : upc) (x : Z) : list Z := match pc with URes => [x] | UIdle => [] end.
Definition report (lim : bool) (r : Z) : Z := if lim then (if r <=? 2 then 0 else r) else r.
Definition Rcls (lim : bool) (r c : Z) : Prop := class_ok lim (report lim r, c) = true.

Definition local_ok (lim : bool) (s : tstate) (a : astate) (i : nat) (t : thr) : Prop :=
  match t with
  | TProd vals k pc nb rets =>
      (exists pre, sel i (a_pcls a) = pre ++ lag_p s i pc /\ Forall2 (Rcls lim) rets pre) /\
      length (sel i (a_pcls a)) = k /\
      (t_limit s = None -> pc <> PRes true /\ pc <> PWait true)
  | TCons _ _ _ => True
  | TUnb _ _ pc rets => sel i (a_ures a) = rets ++ lag_u pc (has (afind i (t_infl s)))
  | TUnbPush _ _ pc rets => sel i (a_ures a) = rets ++ lag_u pc (has (afind i (t_cinfl s)))
  | TSize _ _ rets => sel i (a_ures a) = rets
  | TDestroy _ => True
  end.

Record osim (lim : bool) (thrs0 : list thr) (s : tstate) (a : astate) : Prop := mkOsim {
  os_lim : lim = false -> t_limit s = None;
  os_limit : a_limit a = t_limit s;
  os_dead : a_dead a = t_dead s;
  os_fifo : a_fifo a = map adm_it (t_items s) ++ map blk_it (t_blocked s);
  os_pend : a_pend a = t_waiters s;
  os_kinds : kinds thrs0 (t_thr s);
  os_cntlen : length (a_cnt a) = length (t_thr s);
  os_cnt : forall i t, nth_error (t_thr s) i = Some t -> nth i (a_cnt a) 0%nat = entered t;
  os_cres : forall c, sel c (a_cres a) = sel c (enc_r (t_rlog s)) ++ sel c (enc_i (t_infl s));
  os_local : forall i t, nth_error (t_thr s) i = Some t -> local_ok lim s a i t
}.

(* ---------- association lists ---------- *)
Lemma afind_snoc_other {B} i j (l : list (nat * B)) x : i <> j -> afind i (l ++ [(j, x)]) = afind i l.
Proof.
  intros NE. induction l as [|[k b] t IH]; cbn [app afind].
  - destruct (Nat.eqb i j) eqn:E; [apply Nat.eqb_eq in E; congruence|reflexivity].
  - destruct (Nat.eqb i k); [reflexivity|exact IH].
Qed.
Lemma afind_snoc_same {B} i (l : list (nat * B)) x : afind i l = None -> afind i (l ++ [(i, x)]) = Some x.
Proof.
  induction l as [|[k b] t IH]; cbn [app afind]; [rewrite Nat.eqb_refl; reflexivity|].
  destruct (Nat.eqb i k); [discriminate|exact IH].
Qed.
Lemma afind_remove_other {B} i j (l : list (nat * B)) : i <> j -> afind i (aremove j l) = afind i l.
Proof.
  intros NE. induction l as [|[k b] t IH]; cbn [aremove afind]; [reflexivity|].
  destruct (Nat.eqb j k) eqn:E.
  - apply Nat.eqb_eq in E. subst k. assert (Nat.eqb i j = false) as -> by (apply Nat.eqb_neq; exact NE). reflexivity.
  - cbn [afind]. destruct (Nat.eqb i k); [reflexivity|exact IH].
Qed.
Lemma sel_app i a b : sel i (a ++ b) = sel i a ++ sel i b.
Proof. unfold sel. rewrite filter_app, map_app. reflexivity. Qed.
Lemma sel_one_same i x : sel i [(i, x)] = [x].
Proof. unfold sel. cbn [filter fst]. rewrite Nat.eqb_refl. reflexivity. Qed.
Lemma sel_one_other i j x : i <> j -> sel i [(j, x)] = [].
Proof. intros NE. unfold sel. cbn [filter fst]. assert (Nat.eqb i j = false) as -> by (apply Nat.eqb_neq; exact NE). reflexivity. Qed.
Lemma sel_nil i : sel i [] = [].
Proof. reflexivity. Qed.

Ltac tf := cbn [t_items t_waiters t_blocked t_limit t_dead t_infl t_cinfl t_rlog t_pdone t_alog t_plog t_wlog t_dlog t_thr fst snd] in *.
Ltac af := cbn [a_fifo a_pend a_limit a_dead a_cres a_pcls a_ures a_cnt] in *.

(* a step of thread i leaves everything keyed by another thread j alone *)
Lemma tstep_frame s i j : j <> i ->
  afind j (t_infl (fst (tstep s i))) = afind j (t_infl s) /\
  afind j (t_cinfl (fst (tstep s i))) = afind j (t_cinfl s) /\
  t_limit (fst (tstep s i)) = t_limit s /\
  nth_error (t_thr (fst (tstep s i))) j = nth_error (t_thr s) j.
Proof.
  intros NE. unfold tstep.
  destruct (nth_error (t_thr s) i) as [[vals k [|rb|b] nb rets | n issued [| |] | n e [|] rets | n e [|] rets | n [|] rets | d]|] eqn:T;
    [..|repeat split];
    repeat match goal with
           | |- context [match t_waiters s with _ => _ end] => destruct (t_waiters s)
           | |- context [match t_items s with _ => _ end] => destruct (t_items s)
           | |- context [match t_blocked s with _ => _ end] => destruct (t_blocked s) as [|[? ?] ?]
           | |- context [if full s then _ else _] => destruct (full s)
           | |- context [if rb then _ else _] => destruct rb
           end;
    unfold resolve_pop, resolve_push, with_thr, set_thr;
    repeat match goal with
           | |- context [match afind i (t_infl s) with _ => _ end] => destruct (afind i (t_infl s)) as [[? ?]|]
           | |- context [match afind i (t_cinfl s) with _ => _ end] => destruct (afind i (t_cinfl s)) as [[? ?]|]
           end;
    tf; repeat split;
    rewrite ?afind_snoc_other, ?afind_remove_other, ?nth_error_set_nth_other by congruence; reflexivity.
Qed.

Lemma astep_frame thrs0 a i j : j <> i ->
  sel j (a_pcls (astep thrs0 a i)) = sel j (a_pcls a) /\ sel j (a_ures (astep thrs0 a i)) = sel j (a_ures a).
Proof.
  intros NE. unfold astep. destruct (a_dead a); [split; reflexivity|].
  destruct (nth_error thrs0 i) as [[vals k pc nb rets | n issued pc | n e pc rets | n e pc rets | n pc rets | d]|]; [..|split; reflexivity];
    repeat match goal with
           | |- context [match a_pend a with _ => _ end] => destruct (a_pend a)
           | |- context [match a_fifo a with _ => _ end] => destruct (a_fifo a) as [|[? ?] ?]
           | |- context [if a_full a then _ else _] => destruct (a_full a)
           | |- context [match drop_first ?x with _ => _ end] => destruct (drop_first x) as [? [?|]]
           end;
    af; rewrite ?sel_app, ?sel_one_other, ?app_nil_r by congruence; split; reflexivity.
Qed.

Lemma local_frame lim s a s' a' j t : local_ok lim s a j t ->
  afind j (t_infl s') = afind j (t_infl s) -> afind j (t_cinfl s') = afind j (t_cinfl s) -> t_limit s' = t_limit s ->
  sel j (a_pcls a') = sel j (a_pcls a) -> sel j (a_ures a') = sel j (a_ures a) -> local_ok lim s' a' j t.
Proof.
  intros H E1 E2 E3 E4 E5. destruct t as [vals k pc nb rets | n issued pc | n e pc rets | n e pc rets | n pc rets | d];
    unfold local_ok, lag_p in *; rewrite ?E1, ?E2, ?E3, ?E4, ?E5; exact H.
Qed.

Lemma bump_length l i : length (bump l i) = length l.
Proof. revert i; induction l as [|x l IH]; intros [|i]; cbn [bump length]; auto. Qed.
Lemma bump_same l i : (i < length l)%nat -> nth i (bump l i) 0%nat = S (nth i l 0%nat).
Proof. revert i; induction l as [|x l IH]; intros [|i] H; cbn [length] in H; try lia; cbn [bump nth]; [reflexivity|]. apply IH. lia. Qed.
Lemma bump_other l i j : i <> j -> nth j (bump l i) 0%nat = nth j l 0%nat.
Proof.
  revert i j; induction l as [|x l IH]; intros [|i] [|j] H; cbn [bump nth]; try reflexivity; try congruence.
  apply IH. congruence.
Qed.

(* same constructor, same declaration parameters *)
Definition same_decl (t t' : thr) : Prop :=
  match t, t' with
  | TProd v _ _ _ _, TProd v' _ _ _ _ => v = v'
  | TCons _ _ _, TCons _ _ _ => True
  | TUnb _ e _ _, TUnb _ e' _ _ => e = e'
  | TUnbPush _ e _ _, TUnbPush _ e' _ _ => e = e'
  | TSize _ _ _, TSize _ _ _ => True
  | TDestroy _, TDestroy _ => True
  | _, _ => False
  end.
Lemma kinds_set thrs0 l i t t' : kinds thrs0 l -> nth_error l i = Some t -> same_decl t t' -> kinds thrs0 (set_nth l i t').
Proof.
  intros [L K] T SD. split; [rewrite L; clear; revert i; induction l as [|x l IH]; intros [|i]; cbn [set_nth length]; auto|].
  intros j t0 tj H0 Hj. destruct (Nat.eq_dec i j) as [<-|NE].
  - rewrite (nth_error_set_same _ _ _ _ T) in Hj. injection Hj as <-. specialize (K i t0 t H0 T).
    destruct t0, t, t'; cbn [same_kind same_decl] in *; try contradiction; congruence.
  - rewrite nth_error_set_nth_other in Hj by exact NE. exact (K j t0 tj H0 Hj).
Qed.

Definition anext (thrs0 : list thr) (a : astate) (i : nat) (code : Z) : astate :=
  if (code =? 70) || (code =? 73) then astep thrs0 a i else a.
Lemma is_cs_line i code : is_cs [Z.of_nat i; code] = if (code =? 70) || (code =? 73) then Some i else None.
Proof.
  unfold is_cs. assert (0 <=? Z.of_nat i = true) as -> by lia. rewrite andb_true_r.
  destruct ((code =? 70) || (code =? 73)); [rewrite Nat2Z.id|]; reflexivity.
Qed.

Lemma set_nth_len {A} (l : list A) i x : length (set_nth l i x) = length l.
Proof. revert i; induction l as [|y l IH]; intros [|i]; cbn [set_nth length]; auto. Qed.

Lemma enc_r_app a b : enc_r (a ++ b) = enc_r a ++ enc_r b.
Proof. apply map_app. Qed.
Lemma enc_i_app a b : enc_i (a ++ b) = enc_i a ++ enc_i b.
Proof. apply map_app. Qed.

(* generic closing tactics for the clauses that do not depend on the branch *)
Ltac os_cnt_tac i T Ocnt Ocl :=
  let j := fresh "j" in let tj := fresh "tj" in let Hj := fresh "Hj" in
  intros j tj Hj; unfold set_thr in Hj; destruct (Nat.eq_dec i j) as [<-|?NE];
  [ rewrite (nth_error_set_same _ _ _ _ T) in Hj; injection Hj as <-;
    rewrite ?bump_same by (rewrite Ocl; apply nth_error_Some; congruence);
    rewrite (Ocnt i _ T); cbn [entered length]; rewrite ?app_length; cbn [length]; lia
  | rewrite nth_error_set_nth_other in Hj by assumption; rewrite ?bump_other by assumption; exact (Ocnt _ _ Hj) ].

(* ---------- who holds a taken promise: exactly the threads that are between their unlock and the resolution ---------- *)
Lemma afind_none_notin {B} i (l : list (nat * B)) : afind i l = None <-> ~ In i (map fst l).
Proof.
  induction l as [|[k b] t IH]; cbn [afind map fst In]; [tauto|].
  destruct (Nat.eqb i k) eqn:E.
  - apply Nat.eqb_eq in E. subst k. split; [discriminate|]. intros H. exfalso. apply H. left. reflexivity.
  - apply Nat.eqb_neq in E. rewrite IH. split; [intros H [X|X]; [congruence|exact (H X)]|intros H X; apply H; right; exact X].
Qed.
Lemma keys_snoc {B} i (l : list (nat * B)) x : NoDup (map fst l) -> afind i l = None -> NoDup (map fst (l ++ [(i, x)])).
Proof.
  intros N A. rewrite map_app. cbn [map fst]. apply afind_none_notin in A.
  revert N A. generalize (map fst l). intros m. induction m as [|y m IH]; intros N A; cbn [app].
  - constructor; [intros []|constructor].
  - inversion N as [|? ? NI N']; subst. constructor.
    + intros X. apply in_app_or in X as [X|[X|[]]]; [exact (NI X)|]. apply A. left. symmetry. exact X.
    + apply IH; [exact N'|]. intros X. apply A. right. exact X.
Qed.
Lemma keys_remove {B} i (l : list (nat * B)) : NoDup (map fst l) -> NoDup (map fst (aremove i l)) /\ afind i (aremove i l) = None.
Proof.
  induction l as [|[k b] t IH]; cbn [aremove map fst afind]; intros N; [split; [constructor|reflexivity]|].
  inversion N as [|? ? NI N']; subst. destruct (Nat.eqb i k) eqn:E.
  - apply Nat.eqb_eq in E. subst k. split; [exact N'|]. apply afind_none_notin. exact NI.
  - destruct (IH N') as [N1 A1]. cbn [map fst afind]. rewrite E. split; [|exact A1].
    constructor; [|exact N1]. intros X. apply NI. clear -X. induction t as [|[k' b'] t IHt]; cbn [aremove map fst In] in *; [exact X|].
    destruct (Nat.eqb i k'); [right; exact X|]. cbn [map fst In] in X. destruct X as [X|X]; [left; exact X|right; exact (IHt X)].
Qed.

Definition holds_pop (t : option thr) : Prop :=
  match t with Some (TProd _ _ (PRes false) _ _) => True | Some (TUnb _ _ URes _) => True | _ => False end.
Definition holds_push (t : option thr) : Prop :=
  match t with Some (TCons _ _ CRes) => True | Some (TUnbPush _ _ URes _) => True | _ => False end.

Record tlink (s : tstate) : Prop := mkTlink {
  lk_nd1 : NoDup (map fst (t_infl s));
  lk_nd2 : NoDup (map fst (t_cinfl s));
  lk_1 : forall i, afind i (t_infl s) <> None -> holds_pop (nth_error (t_thr s) i);
  lk_2 : forall i, afind i (t_cinfl s) <> None -> holds_push (nth_error (t_thr s) i)
}.

Lemma tlink_init limit thrs : tlink (t_init limit thrs).
Proof. split; cbn; try constructor; intros i H; exfalso; apply H; reflexivity. Qed.

Lemma tlink_step s i : tlink s -> tlink (fst (tstep s i)).
Proof.
  intros [N1 N2 L1 L2].
  assert (forall j, j <> i -> afind j (t_infl (fst (tstep s i))) <> None -> holds_pop (nth_error (t_thr (fst (tstep s i))) j)) as O1.
  { intros j NE. destruct (tstep_frame s i j NE) as (F1 & F2 & F3 & F4). rewrite F1, F4. apply L1. }
  assert (forall j, j <> i -> afind j (t_cinfl (fst (tstep s i))) <> None -> holds_push (nth_error (t_thr (fst (tstep s i))) j)) as O2.
  { intros j NE. destruct (tstep_frame s i j NE) as (F1 & F2 & F3 & F4). rewrite F2, F4. apply L2. }
  revert O1 O2. unfold tstep.
  destruct (nth_error (t_thr s) i) as [[vals k [|rb|b] nb rets | n issued [| |] | n e [|] rets | n e [|] rets | n [|] rets | d]|] eqn:T;
    [..|intros _ _; split; assumption];
    assert (afind i (t_infl s) = None \/ holds_pop (Some (TProd [] 0 (PRes false) 0 []))) as A1 by
      (destruct (afind i (t_infl s)) eqn:E; [right; exact I|left; reflexivity]);
    pose proof (L1 i) as L1i; pose proof (L2 i) as L2i; rewrite T in L1i, L2i; cbn [holds_pop holds_push] in L1i, L2i;
    repeat match goal with
           | |- context [match t_waiters s with _ => _ end] => destruct (t_waiters s)
           | |- context [match t_items s with _ => _ end] => destruct (t_items s)
           | |- context [match t_blocked s with _ => _ end] => destruct (t_blocked s) as [|[? ?] ?]
           | |- context [if full s then _ else _] => destruct (full s)
           | |- context [if rb then _ else _] => destruct rb
           end;
    unfold resolve_pop, resolve_push, with_thr, set_thr;
    repeat match goal with
           | |- context [match afind i (t_infl s) with _ => _ end] => destruct (afind i (t_infl s)) as [[? ?]|] eqn:?AF
           | |- context [match afind i (t_cinfl s) with _ => _ end] => destruct (afind i (t_cinfl s)) as [[? ?]|] eqn:?AF
           end;
    tf; intros O1 O2; split; tf;
    try assumption;
    try (apply keys_snoc; [assumption|]; destruct (afind i (t_infl s)) eqn:?E; [exfalso; apply L1i; discriminate|reflexivity]);
    try (apply keys_snoc; [assumption|]; destruct (afind i (t_cinfl s)) eqn:?E; [exfalso; apply L2i; discriminate|reflexivity]);
    try (apply (keys_remove i); assumption);
    try (intros j Hj; destruct (Nat.eq_dec j i) as [->|NE]; [|first [exact (O1 j NE Hj)|exact (O2 j NE Hj)]];
         rewrite (nth_error_set_same _ _ _ _ T); cbn [holds_pop holds_push];
         first [ exact I
               | exfalso; apply Hj; apply (keys_remove i); assumption
               | exfalso; first [apply L1i; exact Hj | apply L2i; exact Hj]
               | exfalso; congruence
               | exfalso; rewrite afind_snoc_other in Hj by congruence; first [apply L1i; exact Hj | apply L2i; exact Hj] ]).
Qed.

Lemma kinds_lookup thrs0 l i t : kinds thrs0 l -> nth_error l i = Some t -> exists t0, nth_error thrs0 i = Some t0 /\ same_kind t0 t.
Proof.
  intros [L K] T. destruct (nth_error thrs0 i) as [t0|] eqn:E.
  - exists t0. split; [reflexivity|]. exact (K i t0 t E T).
  - exfalso. apply nth_error_None in E. assert (i < length l)%nat by (apply nth_error_Some; congruence). lia.
Qed.

Lemma a_full_eq lim thrs0 s a : osim lim thrs0 s a -> tcons s -> a_full a = full s.
Proof.
  intros [_ Olimit _ Ofifo _ _ _ _ _ _] [_ B1 _ _ _ _ _]. unfold a_full, full. rewrite Olimit, Ofifo.
  destruct (t_limit s) as [l|] eqn:EL; [|reflexivity]. unfold zlen. rewrite app_length, !map_length.
  destruct (t_blocked s) as [|b bl] eqn:B; [cbn [length]; f_equal; lia|].
  assert (full s = true) as F by (apply B1; discriminate). unfold full in F. rewrite EL in F. unfold zlen in F.
  cbn [length] in *. lia.
Qed.

Lemma enc_i_remove_seq i l c o x : afind i l = Some (c, o) -> (count_n c (cons_of l) <= 1)%nat ->
  sel x (enc_i l) = sel x [(c, enc_outcome o)] ++ sel x (enc_i (aremove i l)).
Proof.
  induction l as [|[k [c' o']] t IH]; cbn [afind aremove]; [discriminate|].
  destruct (Nat.eqb i k) eqn:E.
  - intros H _. injection H as -> ->. cbn [enc_i map fst snd]. fold (enc_i t).
    change ((c, enc_outcome o) :: enc_i t) with ([(c, enc_outcome o)] ++ enc_i t). rewrite sel_app. reflexivity.
  - intros H LE. rewrite cons_of_cons, count_n_cons in LE.
    pose proof (cons_of_remove i t c o c H) as CR. rewrite Nat.eqb_refl in CR.
    assert (Nat.eqb c c' = false) as NE by (destruct (Nat.eqb c c'); [lia|reflexivity]).
    assert (count_n c (cons_of t) <= 1)%nat as LE' by lia.
    specialize (IH H LE'). cbn [enc_i map fst snd]. fold (enc_i t). fold (enc_i (aremove i t)).
    change ((c', enc_outcome o') :: enc_i t) with ([(c', enc_outcome o')] ++ enc_i t).
    change ((c', enc_outcome o') :: enc_i (aremove i t)) with ([(c', enc_outcome o')] ++ enc_i (aremove i t)).
    rewrite !sel_app, IH. apply Nat.eqb_neq in NE.
    destruct (Nat.eq_dec x c) as [->|NX].
    + rewrite (sel_one_other c c') by congruence. reflexivity.
    + rewrite (sel_one_other x c) by congruence. reflexivity.
Qed.
Lemma enc_i_none c l : count_n c (cons_of l) = 0%nat -> sel c (enc_i l) = [].
Proof.
  induction l as [|[k [c' o']] t IH]; [reflexivity|]. rewrite cons_of_cons, count_n_cons.
  destruct (Nat.eqb c c') eqn:E; [lia|]. intros H. cbn [enc_i map fst snd]. fold (enc_i t).
  change ((c', enc_outcome o') :: enc_i t) with ([(c', enc_outcome o')] ++ enc_i t). rewrite sel_app, (IH H).
  apply Nat.eqb_neq in E. rewrite sel_one_other by congruence. reflexivity.
Qed.

Lemma admit_first_adm t : admit_first (map adm_it t) = (map adm_it t, None).
Proof. induction t as [|x t IH]; cbn [map]; [reflexivity|]. unfold adm_it at 1. cbn [admit_first]. rewrite IH. reflexivity. Qed.
Lemma admit_first_blk t y p b :
  admit_first (map adm_it t ++ map blk_it ((y, p) :: b)) = (map adm_it (t ++ [y]) ++ map blk_it b, Some p).
Proof.
  induction t as [|x t IH]; cbn [map app]; [reflexivity|]. unfold adm_it at 1. cbn [admit_first].
  cbn [map] in IH. rewrite IH. reflexivity.
Qed.
Lemma drop_first_adm t : drop_first (map adm_it t) = (map adm_it t, None).
Proof. induction t as [|x t IH]; cbn [map]; [reflexivity|]. unfold adm_it at 1. cbn [drop_first]. rewrite IH. reflexivity. Qed.
Lemma drop_first_blk t y p b :
  drop_first (map adm_it t ++ map blk_it ((y, p) :: b)) = (map adm_it t ++ map blk_it b, Some p).
Proof.
  induction t as [|x t IH]; cbn [map app]; [reflexivity|]. unfold adm_it at 1. cbn [drop_first].
  cbn [map] in IH. rewrite IH. reflexivity.
Qed.

Lemma filter_admitted_it its bs : filter admitted (map adm_it its ++ map blk_it bs) = map adm_it its.
Proof.
  induction its as [|x t IH]; cbn [map app filter].
  - induction bs as [|[y f] b IHb]; cbn [map filter]; [reflexivity|exact IHb].
  - cbn [admitted adm_it snd]. rewrite IH. reflexivity.
Qed.
Lemma a_size_eq lim thrs0 s a : osim lim thrs0 s a -> a_size a = zlen (t_items s).
Proof. intros OS. unfold a_size. rewrite (os_fifo _ _ _ _ OS), filter_admitted_it. unfold zlen. rewrite map_length. reflexivity. Qed.
Lemma enc_r_cancel (w : list nat) : enc_r (map (fun c => (c, OCancel)) w) = map (fun c => (c, -1000000)) w.
Proof. unfold enc_r. rewrite map_map. reflexivity. Qed.
Lemma sel_cancel_none c (w : list nat) x : count_n c w = 0%nat -> sel c (map (fun c => (c, x)) w) = [].
Proof.
  induction w as [|y w IH]; [reflexivity|]. rewrite count_n_cons. destruct (Nat.eqb c y) eqn:E; [lia|]. intros H.
  cbn [map]. change ((y, x) :: map (fun c0 => (c0, x)) w) with ([(y, x)] ++ map (fun c0 => (c0, x)) w).
  rewrite sel_app, (IH H). apply Nat.eqb_neq in E. rewrite sel_one_other by exact E. reflexivity.
Qed.

Lemma anext70 thrs0 a i : anext thrs0 a i 70 = astep thrs0 a i. Proof. reflexivity. Qed.
Lemma anext73 thrs0 a i : anext thrs0 a i 73 = astep thrs0 a i. Proof. reflexivity. Qed.
Lemma anext71 thrs0 a i : anext thrs0 a i 71 = a. Proof. reflexivity. Qed.
Lemma anext72 thrs0 a i : anext thrs0 a i 72 = a. Proof. reflexivity. Qed.

Lemma Forall2_snoc {A B} (R : A -> B -> Prop) l l' x y : Forall2 R l l' -> R x y -> Forall2 R (l ++ [x]) (l' ++ [y]).
Proof. intros H Hx. apply Forall2_app; [exact H|constructor; [exact Hx|constructor]]. Qed.

Lemma Rcls_01 lim r : (r = 0 \/ r = 1) -> Rcls lim r r.
Proof. intros [->| ->]; destruct lim; reflexivity. Qed.

(* the local clause of thread i itself after a step: it only has to be re-established for the new entry *)
Ltac local_self i T OTH :=
  let j := fresh "j" in let tj := fresh "tj" in let Hj := fresh "Hj" in
  intros j tj Hj; destruct (Nat.eq_dec j i) as [->|?NE]; [|exact (OTH j tj NE Hj)];
  unfold set_thr in Hj; rewrite (nth_error_set_same _ _ _ _ T) in Hj; injection Hj as <-.

Lemma osim_step lim thrs0 s a i : osim lim thrs0 s a -> tcons s -> tord s -> tlink s -> t_enabled s i = true ->
  osim lim thrs0 (fst (tstep s i)) (anext thrs0 a i (snd (tstep s i))).
Proof.
  intros OS TC TO TL EN. pose proof OS as [Olim Olimit Odead Ofifo Opend Okinds Ocl Ocnt Ocres Oloc].
  pose proof TC as [L B1 B2 _ _ _ _]. pose proof TO as [J K1 K2 K3]. pose proof TL as [N1 N2 L1 L2].
  pose proof (a_full_eq _ _ _ _ OS TC) as AF.
  (* locals of the other threads *)
  assert (forall j t, j <> i -> nth_error (t_thr (fst (tstep s i))) j = Some t ->
                      local_ok lim (fst (tstep s i)) (anext thrs0 a i (snd (tstep s i))) j t) as OTH.
  { intros j t NE Hj. destruct (tstep_frame s i j NE) as (F1 & F2 & F3 & F4). rewrite F4 in Hj.
    apply (local_frame lim s a); [exact (Oloc j t Hj)|assumption..| |]; unfold anext;
      destruct ((snd (tstep s i) =? 70) || (snd (tstep s i) =? 73)); try reflexivity; apply (astep_frame thrs0 a i j NE). }
  revert OTH. unfold tstep. unfold t_enabled, t_enabled0 in EN.
  pose proof (L1 i) as L1i. pose proof (L2 i) as L2i.
  destruct (nth_error (t_thr s) i) as [[vals k [|rb|b] nb rets | n issued [| |] | n e [|] rets | n e [|] rets | n [|] rets | d]|] eqn:T;
    [..|discriminate]; cbn [holds_pop holds_push] in L1i, L2i; pose proof (Oloc i _ T) as LI; cbn [local_ok] in LI.
  - (* producer, critical section *)
    apply andb_true_iff in EN as [ND EN]. apply negb_true_iff in ND.
    destruct (kinds_lookup _ _ _ _ Okinds T) as (t0 & T0 & SK). destruct t0; cbn [same_kind] in SK; try contradiction. subst vals0.
    assert (afind i (t_infl s) = None) as AN by (destruct (afind i (t_infl s)); [exfalso; apply L1i; discriminate|reflexivity]).
    destruct LI as ((pre & EP & FP) & LP & NP). cbn [lag_p] in EP. rewrite app_nil_r in EP.
    destruct (t_waiters s) as [|c w] eqn:W; [destruct (full s) eqn:F|]; cbn [fst snd]; intros OTH;
      rewrite anext70 in *; unfold astep in *; rewrite Odead, ND, T0, Opend in *; rewrite ?W in *; rewrite ?AF in *;
      rewrite (Ocnt i _ T) in *; cbn [entered] in *.
    + (* blocks *)
      split; tf; af; try assumption; try reflexivity.
      * rewrite Ofifo. rewrite (map_app blk_it). cbn [map blk_it fst snd it_v]. rewrite app_assoc. reflexivity.
      * apply (kinds_set _ _ _ _ _ Okinds T). reflexivity.
      * unfold set_thr. rewrite bump_length, set_nth_len. exact Ocl.
      * os_cnt_tac i T Ocnt Ocl.
      * local_self i T OTH. cbn [local_ok lag_p]. tf. af. rewrite sel_app, sel_one_same. split; [|split].
        -- exists pre. split; [rewrite EP; reflexivity|exact FP].
        -- rewrite app_length. cbn [length]. lia.
        -- intros E. exfalso. unfold full in F. tf. rewrite E in F. discriminate.
    + (* enqueues: nobody is blocked *)
      assert (t_blocked s = []) as EB by (destruct (t_blocked s); [reflexivity|]; exfalso; assert (false = true) by (apply B1; discriminate); discriminate).
      split; tf; af; try assumption; try reflexivity.
      * rewrite Ofifo, EB. cbn [map]. rewrite !app_nil_r. rewrite (map_app adm_it). reflexivity.
      * apply (kinds_set _ _ _ _ _ Okinds T). reflexivity.
      * unfold set_thr. rewrite bump_length, set_nth_len. exact Ocl.
      * os_cnt_tac i T Ocnt Ocl.
      * local_self i T OTH. cbn [local_ok lag_p]. tf. af. rewrite sel_app, sel_one_same, AN. cbn [has]. split; [|split].
        -- exists pre. split; [rewrite EP; reflexivity|exact FP].
        -- rewrite app_length. cbn [length]. lia.
        -- intros _. split; discriminate.
    + (* hand-over *)
      split; tf; af; try assumption; try reflexivity.
      * apply (kinds_set _ _ _ _ _ Okinds T). reflexivity.
      * unfold set_thr. rewrite bump_length, set_nth_len. exact Ocl.
      * os_cnt_tac i T Ocnt Ocl.
      * intros c0. rewrite enc_i_app, !sel_app, Ocres. cbn [enc_i map fst snd enc_outcome it_v]. rewrite app_assoc. reflexivity.
      * local_self i T OTH. cbn [local_ok lag_p]. tf. af. rewrite sel_app, sel_one_same, (afind_snoc_same _ _ _ AN). cbn [has]. split; [|split].
        -- exists pre. split; [rewrite EP; reflexivity|exact FP].
        -- rewrite app_length. cbn [length]. lia.
        -- intros _. split; discriminate.
  - (* producer, after the unlock *)
    cbn [fst snd]. rewrite anext71. unfold resolve_pop, with_thr.
    destruct LI as ((pre & EP & FP) & LP & NP).
    destruct rb.
    + assert (afind i (t_infl s) = None) as AN by (destruct (afind i (t_infl s)); [exfalso; apply L1i; discriminate|reflexivity]).
      rewrite AN. intros OTH. split; tf; try assumption.
      * apply (kinds_set _ _ _ _ _ Okinds T). reflexivity.
      * rewrite set_nth_len. exact Ocl.
      * os_cnt_tac i T Ocnt Ocl.
      * local_self i T OTH. cbn [local_ok lag_p] in *. tf. split; [|split]; [exists pre; split; assumption|assumption|].
        intros E; exfalso; destruct (NP E) as [X _]; apply X; reflexivity.
    + cbn [lag_p] in EP. destruct (afind i (t_infl s)) as [[c o]|] eqn:AI; cbn [has] in EP; tf; intros OTH; split; tf; try assumption.
      * apply (kinds_set _ _ _ _ _ Okinds T). reflexivity.
      * rewrite set_nth_len. exact Ocl.
      * os_cnt_tac i T Ocnt Ocl.
      * intros c0. rewrite enc_r_app, sel_app, Ocres. rewrite (enc_i_remove_seq i _ c o c0 AI) by (specialize (K1 c); unfold outst in K1; lia).
        cbn [enc_r map fst snd]. rewrite <- app_assoc. reflexivity.
      * local_self i T OTH. cbn [local_ok lag_p has] in *. split; [|split].
        -- exists (pre ++ [1]). rewrite app_nil_r. split; [exact EP|]. apply Forall2_snoc; [exact FP|]. apply Rcls_01. right; reflexivity.
        -- exact LP.
        -- intros _. split; discriminate.
      * apply (kinds_set _ _ _ _ _ Okinds T). reflexivity.
      * rewrite set_nth_len. exact Ocl.
      * os_cnt_tac i T Ocnt Ocl.
      * local_self i T OTH. cbn [local_ok lag_p has] in *. split; [|split].
        -- exists (pre ++ [0]). rewrite app_nil_r. split; [exact EP|]. apply Forall2_snoc; [exact FP|]. apply Rcls_01. left; reflexivity.
        -- exact LP.
        -- intros _. split; discriminate.
  - (* producer, wake *)
    cbn [fst snd]. rewrite anext72. destruct LI as ((pre & EP & FP) & LP & NP). intros OTH. split; tf; try assumption.
    + apply (kinds_set _ _ _ _ _ Okinds T). reflexivity.
    + unfold set_thr. rewrite set_nth_len. exact Ocl.
    + os_cnt_tac i T Ocnt Ocl.
    + local_self i T OTH. cbn [local_ok lag_p] in *. tf. split; [|split]; [|exact LP|intros _; split; discriminate].
      destruct b.
      * exists (pre ++ [2]). rewrite app_nil_r. split; [exact EP|]. apply Forall2_snoc; [exact FP|].
        destruct lim; [|exfalso; destruct (NP (Olim eq_refl)) as [_ X]; apply X; reflexivity].
        unfold Rcls, class_ok. cbn [Z.eqb]. apply orb_true_r.
      * exists pre. rewrite app_nil_r in *. split; assumption.
  - (* consumer, critical section *)
    apply andb_true_iff in EN as [ND EN]. apply negb_true_iff in ND.
    destruct (kinds_lookup _ _ _ _ Okinds T) as (t0 & T0 & SK). destruct t0; cbn [same_kind] in SK; try contradiction.
    assert (outst i s = 0)%nat as OI by (apply (not_cons_outst s i _ TO T); intros ? ? ? X; congruence).
    destruct (t_items s) as [|it t] eqn:IT; [|destruct (t_blocked s) as [|[y p] b] eqn:B]; cbn [fst snd]; intros OTH;
      rewrite anext70 in *; unfold astep in *; rewrite Odead, ND, T0, Ofifo in *.
    + assert (t_blocked s = []) as EB.
      { destruct (t_blocked s) eqn:B; [reflexivity|]. exfalso. assert (full s = true) as F by (apply B1; discriminate).
        unfold full in F. rewrite IT in F. destruct (t_limit s); [|discriminate]. cbn in L. cbn in F. lia. }
      rewrite EB in *. cbn [map app] in *. split; tf; af; try assumption; try reflexivity.
      * rewrite Opend. reflexivity.
      * apply (kinds_set _ _ _ _ _ Okinds T). exact I.
      * unfold set_thr. rewrite bump_length, set_nth_len. exact Ocl.
      * os_cnt_tac i T Ocnt Ocl.
      * local_self i T OTH. exact I.
    + (* immediate, nobody blocked *)
      cbn [map app] in *. rewrite app_nil_r in *. unfold adm_it at 1. unfold adm_it at 1 in OTH. rewrite admit_first_adm in *. cbn [fst] in *.
      split; tf; af; try assumption; try reflexivity.
      * cbn [map]. rewrite app_nil_r. reflexivity.
      * apply (kinds_set _ _ _ _ _ Okinds T). exact I.
      * unfold set_thr. rewrite bump_length, set_nth_len. exact Ocl.
      * os_cnt_tac i T Ocnt Ocl.
      * intros c0. rewrite enc_r_app, !sel_app, Ocres. cbn [enc_r map fst snd enc_outcome].
        destruct (Nat.eq_dec c0 i) as [->|NE].
        -- rewrite (enc_i_none i) by (unfold outst in OI; lia). rewrite !app_nil_r. reflexivity.
        -- rewrite !(sel_one_other c0 i) by exact NE. rewrite !app_nil_r. reflexivity.
      * local_self i T OTH. exact I.
    + (* immediate, the oldest blocked push is admitted *)
      change (map adm_it (it :: t)) with (adm_it it :: map adm_it t) in *. cbn [app] in *. unfold adm_it at 1. unfold adm_it at 1 in OTH.
      rewrite (admit_first_blk t y p b) in *. cbn [fst] in *.
      split; tf; af; try assumption; try reflexivity.
      * apply (kinds_set _ _ _ _ _ Okinds T). exact I.
      * unfold set_thr. rewrite bump_length, set_nth_len. exact Ocl.
      * os_cnt_tac i T Ocnt Ocl.
      * intros c0. rewrite enc_r_app, !sel_app, Ocres. cbn [enc_r map fst snd enc_outcome].
        destruct (Nat.eq_dec c0 i) as [->|NE].
        -- rewrite (enc_i_none i) by (unfold outst in OI; lia). rewrite !app_nil_r. reflexivity.
        -- rewrite !(sel_one_other c0 i) by exact NE. rewrite !app_nil_r. reflexivity.
      * local_self i T OTH. exact I.
  - (* consumer, after the unlock *)
    cbn [fst snd]. rewrite anext71. unfold resolve_push, with_thr.
    destruct (afind i (t_cinfl s)) as [[p code]|]; tf; intros OTH; split; tf; try assumption;
      try (apply (kinds_set _ _ _ _ _ Okinds T); exact I); try (rewrite set_nth_len; exact Ocl);
      try (os_cnt_tac i T Ocnt Ocl); local_self i T OTH; exact I.
  - (* consumer, wake *)
    cbn [fst snd]. rewrite anext72. intros OTH; split; tf; try assumption;
      try (apply (kinds_set _ _ _ _ _ Okinds T); exact I); try (unfold set_thr; rewrite set_nth_len; exact Ocl);
      try (os_cnt_tac i T Ocnt Ocl); local_self i T OTH; exact I.
  - (* unblock_pop, critical section *)
    apply andb_true_iff in EN as [ND EN]. apply negb_true_iff in ND.
    destruct (kinds_lookup _ _ _ _ Okinds T) as (t0 & T0 & SK). destruct t0; cbn [same_kind] in SK; try contradiction. subst e0.
    assert (afind i (t_infl s) = None) as AN by (destruct (afind i (t_infl s)); [exfalso; apply L1i; discriminate|reflexivity]).
    cbn [lag_u] in LI. rewrite app_nil_r in LI.
    destruct (t_waiters s) as [|c w] eqn:W; cbn [fst snd]; intros OTH;
      rewrite anext70 in *; unfold astep in *; rewrite Odead, ND, T0, Opend in *; rewrite ?W in *.
    + split; tf; af; try assumption; try reflexivity.
      * apply (kinds_set _ _ _ _ _ Okinds T). reflexivity.
      * unfold set_thr. rewrite bump_length, set_nth_len. exact Ocl.
      * os_cnt_tac i T Ocnt Ocl.
      * local_self i T OTH. cbn [local_ok lag_u]. tf. af. rewrite sel_app, sel_one_same, AN, LI. reflexivity.
    + split; tf; af; try assumption; try reflexivity.
      * apply (kinds_set _ _ _ _ _ Okinds T). reflexivity.
      * unfold set_thr. rewrite bump_length, set_nth_len. exact Ocl.
      * os_cnt_tac i T Ocnt Ocl.
      * intros c0. rewrite enc_i_app, !sel_app, Ocres. cbn [enc_i map fst snd enc_outcome]. rewrite app_assoc. reflexivity.
      * local_self i T OTH. cbn [local_ok lag_u]. tf. af. rewrite sel_app, sel_one_same, (afind_snoc_same _ _ _ AN), LI. reflexivity.
  - (* unblock_pop, after the unlock *)
    cbn [fst snd]. rewrite anext71. unfold resolve_pop, with_thr. cbn [lag_u] in LI.
    destruct (afind i (t_infl s)) as [[c o]|] eqn:AI; cbn [has] in LI; tf; intros OTH; split; tf; try assumption.
    + apply (kinds_set _ _ _ _ _ Okinds T). reflexivity.
    + rewrite set_nth_len. exact Ocl.
    + os_cnt_tac i T Ocnt Ocl.
    + intros c0. rewrite enc_r_app, sel_app, Ocres. rewrite (enc_i_remove_seq i _ c o c0 AI) by (specialize (K1 c); unfold outst in K1; lia).
      cbn [enc_r map fst snd]. rewrite <- app_assoc. reflexivity.
    + local_self i T OTH. cbn [local_ok lag_u has]. rewrite app_nil_r. exact LI.
    + apply (kinds_set _ _ _ _ _ Okinds T). reflexivity.
    + rewrite set_nth_len. exact Ocl.
    + os_cnt_tac i T Ocnt Ocl.
    + local_self i T OTH. cbn [local_ok lag_u has]. rewrite app_nil_r. exact LI.
  - (* unblock_push, critical section *)
    apply andb_true_iff in EN as [ND EN]. apply negb_true_iff in ND.
    destruct (kinds_lookup _ _ _ _ Okinds T) as (t0 & T0 & SK). destruct t0; cbn [same_kind] in SK; try contradiction. subst e0.
    assert (afind i (t_cinfl s) = None) as AN by (destruct (afind i (t_cinfl s)); [exfalso; apply L2i; discriminate|reflexivity]).
    cbn [lag_u] in LI. rewrite app_nil_r in LI.
    destruct (t_blocked s) as [|[y p] b] eqn:B; cbn [fst snd]; intros OTH;
      rewrite anext70 in *; unfold astep in *; rewrite Odead, ND, T0, Ofifo in *.
    + cbn [map] in *. rewrite app_nil_r in *. rewrite drop_first_adm in *.
      split; tf; af; try assumption; try reflexivity.
      * cbn [map]. rewrite app_nil_r. reflexivity.
      * apply (kinds_set _ _ _ _ _ Okinds T). reflexivity.
      * unfold set_thr. rewrite bump_length, set_nth_len. exact Ocl.
      * os_cnt_tac i T Ocnt Ocl.
      * local_self i T OTH. cbn [local_ok lag_u]. tf. af. rewrite sel_app, sel_one_same, AN, LI. reflexivity.
    + rewrite (drop_first_blk (t_items s) y p b) in *.
      split; tf; af; try assumption; try reflexivity.
      * apply (kinds_set _ _ _ _ _ Okinds T). reflexivity.
      * unfold set_thr. rewrite bump_length, set_nth_len. exact Ocl.
      * os_cnt_tac i T Ocnt Ocl.
      * local_self i T OTH. cbn [local_ok lag_u]. tf. af. rewrite sel_app, sel_one_same, (afind_snoc_same _ _ _ AN), LI. reflexivity.
  - (* unblock_push, after the unlock *)
    cbn [fst snd]. rewrite anext71. unfold resolve_push, with_thr. cbn [lag_u] in LI.
    destruct (afind i (t_cinfl s)) as [[p code]|] eqn:AI; cbn [has] in LI; tf; intros OTH; split; tf; try assumption;
      try (apply (kinds_set _ _ _ _ _ Okinds T); reflexivity); try (rewrite set_nth_len; exact Ocl);
      try (os_cnt_tac i T Ocnt Ocl); local_self i T OTH; cbn [local_ok lag_u has]; rewrite app_nil_r; exact LI.
  - (* size *)
    apply andb_true_iff in EN as [ND EN]. apply negb_true_iff in ND.
    destruct (kinds_lookup _ _ _ _ Okinds T) as (t0 & T0 & SK). destruct t0; cbn [same_kind] in SK; try contradiction.
    cbn [fst snd]; intros OTH; rewrite anext70 in *; unfold astep in *; rewrite Odead, ND, T0 in *.
    split; tf; af; try assumption; try reflexivity.
    + apply (kinds_set _ _ _ _ _ Okinds T). exact I.
    + unfold set_thr. rewrite bump_length, set_nth_len. exact Ocl.
    + os_cnt_tac i T Ocnt Ocl.
    + local_self i T OTH. cbn [local_ok]. af. rewrite sel_app, sel_one_same, LI, (a_size_eq _ _ _ _ OS). reflexivity.
  - cbn [fst snd]. rewrite anext71. intros OTH; split; tf; try assumption;
      try (apply (kinds_set _ _ _ _ _ Okinds T); exact I); try (unfold set_thr; rewrite set_nth_len; exact Ocl);
      try (os_cnt_tac i T Ocnt Ocl); local_self i T OTH; exact LI.
  - (* destroy *)
    apply andb_true_iff in EN as [EN _]. apply andb_true_iff in EN as [DD ND]. apply negb_true_iff in ND. apply negb_true_iff in DD. subst d.
    destruct (kinds_lookup _ _ _ _ Okinds T) as (t0 & T0 & SK). destruct t0; cbn [same_kind] in SK; try contradiction.
    cbn [fst snd]; intros OTH; rewrite anext73 in *; unfold astep in *; rewrite Odead, ND, T0 in *.
    split; tf; af; try assumption; try reflexivity.
    + apply (kinds_set _ _ _ _ _ Okinds T). exact I.
    + unfold set_thr. rewrite bump_length, set_nth_len. exact Ocl.
    + os_cnt_tac i T Ocnt Ocl.
    + intros c0. rewrite enc_r_app, !sel_app, Ocres, enc_r_cancel, Opend.
      destruct (count_n c0 (t_waiters s)) eqn:CW.
      * rewrite (sel_cancel_none c0 _ _ CW). rewrite !app_nil_r. reflexivity.
      * rewrite (enc_i_none c0) by (specialize (K1 c0); unfold outst in K1; lia). rewrite !app_nil_r. reflexivity.
    + local_self i T OTH. exact I.
Qed.

(* ---------- the run ---------- *)
Lemma tstep_code s i : t_enabled s i = true -> (i < length (t_thr s))%nat /\
  (snd (tstep s i) = 70 \/ snd (tstep s i) = 71 \/ snd (tstep s i) = 72 \/ snd (tstep s i) = 73).
Proof.
  unfold t_enabled, t_enabled0, tstep. destruct (nth_error (t_thr s) i) as [t|] eqn:T; [|discriminate].
  intros _. split; [apply nth_error_Some; congruence|].
  destruct t as [vals k [|rb|b] nb rets | n issued [| |] | n e [|] rets | n e [|] rets | n [|] rets | d];
    repeat match goal with
           | |- context [match t_waiters s with _ => _ end] => destruct (t_waiters s)
           | |- context [match t_items s with _ => _ end] => destruct (t_items s)
           | |- context [match t_blocked s with _ => _ end] => destruct (t_blocked s) as [|[? ?] ?]
           | |- context [if full s then _ else _] => destruct (full s)
           end; cbn [snd]; tauto.
Qed.

Lemma areplay_snoc thrs0 a0 tr i code : areplay thrs0 a0 (tr ++ [[Z.of_nat i; code]]) = anext thrs0 (areplay thrs0 a0 tr) i code.
Proof.
  unfold areplay. rewrite fold_left_app. cbn [fold_left]. rewrite is_cs_line. unfold anext.
  destruct ((code =? 70) || (code =? 73)); reflexivity.
Qed.

Record rinv (lim : bool) (thrs0 : list thr) (a0 : astate) (s : tstate) (tr : list (list Z)) : Prop := mkRinv {
  ri_cons : tcons s;
  ri_ord : tord s;
  ri_link : tlink s;
  ri_sim : osim lim thrs0 s (areplay thrs0 a0 tr);
  ri_tr : Forall (fun l => is_trace2 l = true) tr
}.

Lemma rinv_run lim thrs0 a0 : (length thrs0 < 777)%nat ->
  forall fuel s sched tr, rinv lim thrs0 a0 s tr ->
  rinv lim thrs0 a0 (fst (t_run_sched fuel s sched tr)) (snd (t_run_sched fuel s sched tr)).
Proof.
  intros LT. induction fuel as [|f IH]; intros s sched tr R; cbn [t_run_sched]; [exact R|].
  destruct (t_pick s _) as [i|] eqn:PK; [|exact R].
  pose proof (t_pick_enabled _ _ _ PK) as EN. destruct R as [C O K S F].
  pose proof (tstep_code s i EN) as [LI CO].
  pose proof (osim_step lim thrs0 s _ i S C O K EN) as S1.
  pose proof (tcons_step s i C) as C1. pose proof (tord_step s i O EN) as O1. pose proof (tlink_step s i K) as K1.
  destruct (tstep s i) as [s1 code]. cbn [fst snd] in *. apply IH. split; try assumption.
  - rewrite areplay_snoc. exact S1.
  - apply Forall_app. split; [exact F|]. constructor; [|constructor].
    assert (length (t_thr s) = length thrs0) as EL by (destruct (os_kinds _ _ _ _ S) as [X _]; symmetry; exact X).
    unfold is_trace2. assert (Z.of_nat i =? 777 = false) as -> by lia.
    destruct CO as [->|[->|[->| ->]]]; reflexivity.
Qed.

(* ---------- initial states ---------- *)
Definition t_new (t : thr) : Prop :=
  match t with
  | TProd _ k pc _ rets => k = 0%nat /\ pc = PIdle /\ rets = []
  | TCons _ issued pc => issued = 0%nat /\ pc = CIdle
  | TUnb _ _ pc rets => pc = UIdle /\ rets = []
  | TUnbPush _ _ pc rets => pc = UIdle /\ rets = []
  | TSize _ pc rets => pc = UIdle /\ rets = []
  | TDestroy d => d = false
  end.
Lemma t_new_fresh t : t_new t -> t_fresh t.
Proof. destruct t; cbn; tauto. Qed.
Lemma t_decode_new lim ops : Forall t_new (flat_map (t_decode_thr lim) ops).
Proof.
  induction ops as [|l ops IH]; cbn [flat_map]; [constructor|]. apply Forall_app. split; [|exact IH].
  unfold t_decode_thr.
  repeat (match goal with |- Forall _ (match ?x with _ => _ end) => destruct x end; try (constructor; fail));
    try (constructor; [cbn; auto|constructor]).
Qed.

Lemma same_kind_refl t : same_kind t t.
Proof. destruct t; cbn; auto. Qed.

Lemma nth_repeat0 n i : nth i (repeat 0%nat n) 0%nat = 0%nat.
Proof. revert i; induction n as [|n IH]; intros [|i]; cbn [repeat nth]; auto. Qed.

Lemma osim_init lim limit thrs : (lim = false -> limit = None) -> Forall t_new thrs ->
  osim lim thrs (t_init limit thrs) (a_init limit (length thrs)).
Proof.
  intros HL F. rewrite Forall_forall in F. split; cbn [t_init a_init]; tf; af; try reflexivity; try assumption.
  - split; [reflexivity|]. intros i t0 t H0 H1. cbn [t_thr t_init] in H1. assert (t0 = t) as -> by congruence. apply same_kind_refl.
  - apply repeat_length.
  - intros i t H. unfold t_init, a_init in *. tf. af. rewrite nth_repeat0. specialize (F t (nth_error_In _ _ H)). destruct t; cbn [t_new entered] in *.
    + destruct F as (-> & _). reflexivity.
    + destruct F as (-> & _). reflexivity.
    + destruct F as [-> ->]. reflexivity.
    + destruct F as [-> ->]. reflexivity.
    + destruct F as [-> ->]. reflexivity.
    + subst. reflexivity.
  - intros i t H. unfold t_init, a_init in *. tf. specialize (F t (nth_error_In _ _ H)). destruct t; cbn [t_new local_ok] in *; af; tf; try exact I.
    + destruct F as (-> & -> & ->). cbn [lag_p sel a_pcls filter map]. split; [|split].
      * exists []. split; [reflexivity|constructor].
      * reflexivity.
      * intros _. split; discriminate.
    + destruct F as [-> ->]. reflexivity.
    + destruct F as [-> ->]. reflexivity.
    + destruct F as [-> ->]. reflexivity.
Qed.

Lemma rinv_init lim limit thrs : (lim = false -> limit = None) -> limit_ok limit -> Forall t_new thrs ->
  rinv lim thrs (a_init limit (length thrs)) (t_init limit thrs) [].
Proof.
  intros HL LO F. split.
  - apply tcons_init; [exact LO|]. eapply Forall_impl; [|exact F]. apply t_new_fresh.
  - apply tord_init. eapply Forall_impl; [|exact F]. apply t_new_fresh.
  - apply tlink_init.
  - apply osim_init; assumption.
  - constructor.
Qed.

(* ---------- reading the observation back ---------- *)
Lemma take_trace_app tr rest : Forall (fun l => is_trace2 l = true) tr ->
  match rest with [] => True | l :: _ => is_trace2 l = false end -> take_trace (tr ++ rest) = (tr, rest).
Proof.
  intros F H. induction F as [|l tr Hl F IH]; cbn [app take_trace].
  - destruct rest as [|l r]; [reflexivity|]. cbn [take_trace]. rewrite H. reflexivity.
  - rewrite Hl, IH. reflexivity.
Qed.

Lemma obs_all_length lim s l : forall off, length (t_thr_obs_all lim s l off) = length l.
Proof. induction l as [|t l IH]; intros off; cbn [t_thr_obs_all length]; [reflexivity|]. rewrite IH. reflexivity. Qed.
Lemma obs_all_nth lim s l : forall off i t, nth_error l i = Some t ->
  nth i (t_thr_obs_all lim s l off) [] = t_thr_obs lim s (off + i) t.
Proof.
  induction l as [|x l IH]; intros off [|i] t H; cbn [nth_error] in H; try discriminate; cbn [t_thr_obs_all nth].
  - injection H as <-. rewrite Nat.add_0_r. reflexivity.
  - rewrite (IH (S off) i t H). f_equal. lia.
Qed.

Lemma stuck_ge dead l : forall off x, In x (t_stuck dead l off) -> Z.of_nat off <= x.
Proof.
  induction l as [|t l IH]; intros off x H; cbn [t_stuck] in H; [contradiction|].
  apply in_app_or in H as [H|H].
  - destruct (t_finished dead t); [contradiction|]. destruct H as [<-|[]]. lia.
  - specialize (IH (S off) x H). lia.
Qed.
Lemma stuck_mem dead l : forall off i t, nth_error l i = Some t ->
  memz (Z.of_nat (off + i)) (t_stuck dead l off) = negb (t_finished dead t).
Proof.
  induction l as [|x l IH]; intros off [|i] t H; cbn [nth_error] in H; try discriminate; cbn [t_stuck].
  - injection H as <-. rewrite Nat.add_0_r. destruct (t_finished dead x); cbn [app negb].
    + destruct (memz (Z.of_nat off) (t_stuck dead l (S off))) eqn:M; [|reflexivity].
      apply memz_In in M. apply stuck_ge in M. lia.
    + cbn [memz]. rewrite Z.eqb_refl. reflexivity.
  - assert (memz (Z.of_nat (off + S i)) (if t_finished dead x then [] else [Z.of_nat off]) = false) as E.
    { destruct (t_finished dead x); [reflexivity|]. cbn [memz]. assert (Z.of_nat (off + S i) =? Z.of_nat off = false) as -> by lia. reflexivity. }
    replace (off + S i)%nat with (S off + i)%nat in * by lia. rewrite <- (IH (S off) i t H).
    generalize (t_stuck dead l (S off)). intros r. destruct (t_finished dead x); [reflexivity|].
    cbn [app memz] in *. apply orb_false_iff in E as [E _]. rewrite E. reflexivity.
Qed.

Lemma prefix_b_app a b : prefix_b a (a ++ b) = true.
Proof. induction a as [|x a IH]; cbn [app prefix_b]; [reflexivity|]. rewrite Z.eqb_refl, IH. reflexivity. Qed.
Lemma zlist_eqb'_refl l : zlist_eqb' l l = true.
Proof. induction l as [|x l IH]; cbn [zlist_eqb']; [reflexivity|]. rewrite Z.eqb_refl, IH. reflexivity. Qed.

Lemma received_sel s c : t_received s c = sel c (enc_r (t_rlog s)).
Proof.
  unfold t_received, sel, enc_r. induction (t_rlog s) as [|[k o] l IH]; [reflexivity|].
  cbn [filter map fst snd]. destruct (Nat.eqb c k); cbn [map snd]; rewrite IH; reflexivity.
Qed.
Lemma received_len s c : length (t_received s c) = nres c s.
Proof.
  unfold t_received, nres, count_n. rewrite map_length. induction (t_rlog s) as [|[k o] l IH]; [reflexivity|].
  cbn [filter map fst]. destruct (Nat.eqb c k); cbn [length]; rewrite IH; reflexivity.
Qed.

Lemma combine_app_r {A B} (a : list A) (b c : list B) : length a = length b -> combine a (b ++ c) = combine a b.
Proof.
  revert b; induction a as [|x a IH]; intros [|y b] H; cbn [length] in H; try discriminate; cbn [app combine]; [reflexivity|].
  rewrite IH by lia. reflexivity.
Qed.
Lemma F2_length {A B} (R : A -> B -> Prop) l l' : Forall2 R l l' -> length l = length l'.
Proof. induction 1; cbn [length]; congruence. Qed.
Lemma classes_from_F2 lim rets pre lag : Forall2 (Rcls lim) rets pre ->
  classes_ok lim (map (report lim) rets) (pre ++ lag) = true.
Proof.
  intros F. unfold classes_ok. pose proof (F2_length _ _ _ F) as EL.
  rewrite map_length, app_length. apply andb_true_iff. split; [apply Nat.leb_le; lia|].
  rewrite combine_app_r by (rewrite map_length; exact EL).
  induction F as [|r c rets pre HR F IH]; cbn [map combine forallb]; [reflexivity|].
  unfold Rcls in HR. rewrite HR. cbn [andb]. apply IH. apply (F2_length _ _ _ F).
Qed.

Lemma report_map (lim : bool) (rets : list Z) : (if lim then map (fun r => if r <=? 2 then 0 else r) rets else rets) = map (report lim) rets.
Proof. unfold report. destruct lim; [reflexivity|]. symmetry. apply map_id. Qed.

Lemma thread_ok_holds lim thrs0 s a : osim lim thrs0 s a -> tord s ->
  forall i t0, nth_error thrs0 i = Some t0 ->
  thread_ok lim thrs0 a (t_thr_obs_all lim s (t_thr s) 0) (t_stuck (t_dead s) (t_thr s) 0) i t0 = true.
Proof.
  intros OS TO i t0 T0. pose proof OS as [Olim Olimit Odead Ofifo Opend Okinds Ocl Ocnt Ocres Oloc]. pose proof TO as [J K1 K2 K3].
  destruct Okinds as [KL KK].
  assert (exists t, nth_error (t_thr s) i = Some t) as (t & T).
  { destruct (nth_error (t_thr s) i) eqn:E; [eexists; reflexivity|]. apply nth_error_None in E.
    assert (i < length thrs0)%nat by (apply nth_error_Some; congruence). lia. }
  pose proof (KK i t0 t T0 T) as SK. pose proof (Ocnt i t T) as EC. pose proof (Oloc i t T) as LO.
  unfold thread_ok, result_line. rewrite (obs_all_nth lim s _ 0 i t T). rewrite (stuck_mem _ _ 0 i t T). cbn [Nat.add].
  destruct t0, t; cbn [same_kind] in SK; try contradiction; cbn [t_thr_obs local_ok entered t_finished] in *.
  - (* producer *)
    rewrite Z.eqb_refl. cbn [andb]. change ((1 <=? 1) && (1 <=? 6)) with true. cbv iota. rewrite report_map. rewrite EC.
    destruct LO as ((pre & EP & FP) & LP & NP). rewrite EP. rewrite (classes_from_F2 lim _ _ _ FP). cbn [andb].
    rewrite map_length. pose proof (F2_length _ _ _ FP) as EL. rewrite EP, app_length in LP.
    match goal with |- context [match ?p with PIdle => _ | _ => _ end] => destruct p as [|rb|b] end; cbn [lag_p length negb] in *.
    + destruct (t_dead s || _); cbn [negb]; [apply Nat.eqb_eq; lia|].
      apply andb_true_iff. split; apply Nat.leb_le; lia.
    + destruct rb; cbn [length] in LP; apply andb_true_iff; split; apply Nat.leb_le; lia.
    + destruct b; cbn [length] in LP; apply andb_true_iff; split; apply Nat.leb_le; lia.
  - (* consumer *)
    rewrite Z.eqb_refl. cbn [andb]. change ((1 <=? 2) && (2 <=? 6)) with true. cbv iota. rewrite EC, received_sel, Ocres, prefix_b_app. cbn [andb].
    rewrite <- received_sel, received_len.
    pose proof (K3 i _ _ _ T) as E3. pose proof (K1 i) as E1.
    assert (length (sel i (enc_i (t_infl s))) <= outst i s)%nat as LE.
    { unfold outst, sel, enc_i, cons_of, count_n. rewrite map_length. clear. induction (t_infl s) as [|[k [c o]] l IH]; cbn [map filter fst snd length]; [lia|].
      destruct (Nat.eqb i c); cbn [length]; lia. }
    match goal with |- context [match ?p with CIdle => _ | _ => _ end] => destruct p end; cbn [negb].
    + assert (outst i s = 0)%nat as OI by (apply (not_cons_outst s i _ TO T); intros ? ? ? X; congruence).
      destruct (t_dead s || _); cbn [negb]; [apply Nat.eqb_eq; lia|apply andb_true_iff; split; apply Nat.leb_le; lia].
    + apply andb_true_iff; split; apply Nat.leb_le; lia.
    + apply andb_true_iff; split; apply Nat.leb_le; lia.
  - (* unblock_pop *)
    rewrite Z.eqb_refl. cbn [andb]. change ((1 <=? 3) && (3 <=? 6)) with true. cbv iota. rewrite EC, LO, prefix_b_app. cbn [andb].
    match goal with |- context [match ?p with UIdle => _ | URes => _ end] => destruct p end; cbn [negb lag_u length].
    + destruct (t_dead s || _); cbn [negb]; [apply Nat.eqb_eq; lia|apply andb_true_iff; split; apply Nat.leb_le; lia].
    + apply andb_true_iff; split; apply Nat.leb_le; lia.
  - (* unblock_push *)
    rewrite Z.eqb_refl. cbn [andb]. change ((1 <=? 6) && (6 <=? 6)) with true. cbv iota. rewrite EC, LO, prefix_b_app. cbn [andb].
    match goal with |- context [match ?p with UIdle => _ | URes => _ end] => destruct p end; cbn [negb lag_u length].
    + destruct (t_dead s || _); cbn [negb]; [apply Nat.eqb_eq; lia|apply andb_true_iff; split; apply Nat.leb_le; lia].
    + apply andb_true_iff; split; apply Nat.leb_le; lia.
  - (* size *)
    rewrite Z.eqb_refl. cbn [andb]. change ((1 <=? 4) && (4 <=? 6)) with true. cbv iota. rewrite EC, LO.
    rewrite <- (app_nil_r rets0) at 2. rewrite prefix_b_app. cbn [andb].
    match goal with |- context [match ?p with UIdle => _ | URes => _ end] => destruct p end; cbn [negb].
    + destruct (t_dead s || _); cbn [negb]; [apply Nat.eqb_eq; lia|apply andb_true_iff; split; apply Nat.leb_le; lia].
    + apply andb_true_iff; split; apply Nat.leb_le; lia.
  - (* destroy *)
    rewrite Z.eqb_refl. cbn [andb]. change ((1 <=? 5) && (5 <=? 6)) with true. cbv iota. rewrite EC.
    match goal with |- context [negb ?d] => destruct d end; reflexivity.
Qed.

Lemma threads_ok_holds lim thrs0 s a : osim lim thrs0 s a -> tord s ->
  forall l off, (forall j t0, nth_error l j = Some t0 -> nth_error thrs0 (off + j) = Some t0) ->
  threads_ok lim thrs0 a (t_thr_obs_all lim s (t_thr s) 0) (t_stuck (t_dead s) (t_thr s) 0) l off = true.
Proof.
  intros OS TO. induction l as [|t l IH]; intros off H; cbn [threads_ok]; [reflexivity|].
  rewrite (thread_ok_holds lim thrs0 s a OS TO off t) by (specialize (H 0%nat t eq_refl); rewrite Nat.add_0_r in H; exact H).
  cbn [andb]. apply IH. intros j t0 Hj. specialize (H (S j) t0 Hj). replace (S off + j)%nat with (off + S j)%nat by lia. exact H.
Qed.

Lemma not_trace_777 r : is_trace2 (777 :: r) = false.
Proof. destruct r as [|c [|? ?]]; cbn [is_trace2]; try reflexivity. rewrite Z.eqb_refl. cbn [negb]. apply andb_false_r. Qed.
Lemma not_trace_thr lim s i t : is_trace2 (t_thr_obs lim s i t) = false.
Proof.
  destruct t; cbn [t_thr_obs is_trace2]; try reflexivity;
    match goal with
    | |- context [if lim then ?x else ?y] => destruct (if lim then x else y) as [|? [|? ?]]; reflexivity
    | |- context [t_received s i] => destruct (t_received s i) as [|? [|? ?]]; reflexivity
    | |- _ => idtac
    end;
    match goal with |- match ?r with _ => _ end = false => destruct r as [|? [|? ?]]; reflexivity end.
Qed.
Lemma not_trace_final s : is_trace2 (t_final_obs s) = false.
Proof.
  unfold t_final_obs. destruct (t_items s) as [|it t]; cbn [map app].
  - destruct (map (fun b => it_v (fst b)) (t_blocked s)) as [|? ?]; reflexivity.
  - reflexivity.
Qed.

Lemma limit_of_ok lim ops limit : t_limit_of lim ops = Some limit -> (lim = false -> limit = None) /\ limit_ok limit.
Proof.
  unfold t_limit_of. destruct lim.
  - destruct (flat_map t_decode_limit ops) as [|n r]; [discriminate|]. destruct (1 <=? n) eqn:E; [|discriminate].
    intros H. injection H as <-. split; [discriminate|]. cbn. lia.
  - intros H. injection H as <-. split; [reflexivity|exact I].
Qed.

(* the oracle accepts every trace of the model itself: any case file, any threads (fewer than 777, the marker of the
   deadlock line), any schedule *)
Theorem tq_oracle_accepts_model lim ops :
  (length (flat_map (t_decode_thr lim) ops) < 777)%nat -> tq_oracle lim ops (tq_run lim ops) = true.
Proof.
  intros LT. unfold tq_oracle, tq_run, t_exec. destruct (t_limit_of lim ops) as [limit|] eqn:EL; [|reflexivity].
  destruct (limit_of_ok _ _ _ EL) as [HL LO].
  set (thrs := flat_map (t_decode_thr lim) ops) in *.
  pose proof (rinv_run lim thrs (a_init limit (length thrs)) LT (t_fuel thrs) (t_init limit thrs) (flat_map t_decode_sched ops) []
                       (rinv_init lim limit thrs HL LO (t_decode_new lim ops))) as R.
  destruct (t_run_sched (t_fuel thrs) (t_init limit thrs) (flat_map t_decode_sched ops) []) as [s tr]. cbn [fst snd] in R.
  destruct R as [C O K SIM F].
  assert (length (t_thr s) = length thrs) as EN by (destruct (os_kinds _ _ _ _ SIM) as [X _]; symmetry; exact X).
  unfold t_obs_of.
  set (lines := t_thr_obs_all lim s (t_thr s) 0).
  assert (length lines = length thrs) as LL by (unfold lines; rewrite obs_all_length; exact EN).
  assert (is_trace2 (hd [] (lines ++ [t_final_obs s])) = false) as HH.
  { unfold lines. destruct (t_thr s) as [|t l]; cbn [t_thr_obs_all app hd]; [apply not_trace_final|apply not_trace_thr]. }
  assert (split_stuck (lines ++ [t_final_obs s]) = ([], lines ++ [t_final_obs s])) as SS0.
  { unfold lines. destruct (t_thr s) as [|t l]; cbn [t_thr_obs_all app]; [reflexivity|]. destruct t; reflexivity. }
  assert (Nat.eqb (length (lines ++ [t_final_obs s])) (S (length thrs)) = true) as E1
    by (rewrite app_length; cbn [length]; apply Nat.eqb_eq; lia).
  assert (firstn (length thrs) (lines ++ [t_final_obs s]) = lines) as E2
    by (rewrite <- LL, firstn_app, Nat.sub_diag, firstn_all; cbn [firstn]; apply app_nil_r).
  assert (nth (length thrs) (lines ++ [t_final_obs s]) [] = t_final_obs s) as E3
    by (rewrite app_nth2 by lia; rewrite LL, Nat.sub_diag; reflexivity).
  assert ((zlen (t_items s) =? a_size (areplay thrs (a_init limit (length thrs)) tr)) &&
          zlist_eqb' (map it_v (t_items s) ++ map (fun b => it_v (fst b)) (t_blocked s))
                     (map fst (a_fifo (areplay thrs (a_init limit (length thrs)) tr))) = true) as E4.
  { rewrite (a_size_eq _ _ _ _ SIM), Z.eqb_refl. cbn [andb]. rewrite (os_fifo _ _ _ _ SIM), map_app, !map_map.
    cbn [adm_it blk_it fst]. apply zlist_eqb'_refl. }
  destruct (t_stuck (t_dead s) (t_thr s) 0) as [|x st] eqn:ST.
  - cbn [app]. rewrite take_trace_app; [|exact F|destruct (lines ++ [t_final_obs s]); [exact I|exact HH]].
    rewrite SS0, E1, E2, E3. cbn [andb]. unfold t_final_obs at 1.
    fold lines in ST. unfold lines. rewrite <- ST. rewrite (threads_ok_holds lim thrs s _ SIM O thrs 0 (fun j t0 H => H)). cbn [andb]. exact E4.
  - cbn [app]. rewrite take_trace_app; [|exact F|apply not_trace_777].
    cbn [split_stuck]. rewrite E1, E2, E3. cbn [andb]. unfold t_final_obs at 1.
    unfold lines. rewrite <- ST. rewrite (threads_ok_holds lim thrs s _ SIM O thrs 0 (fun j t0 H => H)). cbn [andb]. exact E4.
Qed.
