(* Properties_C01.v — C01: a future is resolved exactly once, by exactly one winner.
   Statements only; proofs are `exact <lemma of CellProofs>`.  `reachable ops s` ranges over every
   schedule of every set of resolver threads (value / exception / drop / move-then-destroy, any number,
   any payloads), waiter threads of every kind, and the final destructor of the shared promise. *)
From Cocls Require Import Base BaseProofs CellDefs CellProofs.
Local Open Scope Z_scope.

(* at most one call ever reports success *)
Theorem c01_single_winner : forall ops s i j k k',
  reachable ops s -> T s i = Some (TR k (RDone true)) -> T s j = Some (TR k' (RDone true)) -> i = j.
Proof. exact single_winner. Qed.
Print Assumptions c01_single_winner.

(* a call reports success exactly when it is the one whose claim took the owner pointer *)
Theorem c01_success_iff_winner : forall ops s i k r,
  reachable ops s -> T s i = Some (TR k (RDone r)) -> (r = true <-> winner s = Some i).
Proof. exact success_iff_winner. Qed.
Print Assumptions c01_success_iff_winner.

(* when the future is ready its result is the winner's payload (no-value for drop / destruction) *)
Theorem c01_result_is_winners : forall ops s,
  reachable ops s -> slot s = SReady ->
  exists i k pc, winner s = Some i /\ T s i = Some (TR k pc) /\ payload s = payload_of k ONone.
Proof. exact result_is_winners. Qed.
Print Assumptions c01_result_is_winners.

(* after the election nothing changes winner or payload, and readiness is permanent *)
Theorem c01_result_stable : forall ops s i,
  reachable ops s -> winner s <> None -> enabled s i = true ->
  winner (fst (tstep s i)) = winner s /\ payload (fst (tstep s i)) = payload s /\
  (slot s = SReady -> slot (fst (tstep s i)) = SReady).
Proof. exact result_stable. Qed.
Print Assumptions c01_result_stable.

(* a losing call changes nothing but its own program counter, and returns false *)
Theorem c01_losers_leave_no_trace : forall s i k,
  owner s = false -> T s i = Some (TR k RClaim) ->
  fst (tstep s i) = set_thr s i (TR k (match k with KMove => RDtor (Some false) | _ => RDone false end)).
Proof. exact loser_leaves_no_trace. Qed.
Print Assumptions c01_losers_leave_no_trace.

(* non-vacuity: a reachable 3-resolver race with a blocked waiter *)
Example c01_nonvacuous :
  let ops := [[1;0;42]; [1;1;7]; [1;2;0]; [2;1]; [9; 3;3;0;1;2;0;0;0;0;0;0;0]]%Z in
  let r := run_sched 100 (init ops) (flat_map decode_sched ops) [] in
  slot (fst r) = SReady /\ payload (fst r) = OVal 42 /\ winner (fst r) = Some 0%nat /\
  T (fst r) 1 = Some (TR (KExc 7) (RDone false)).
Proof. vm_compute. repeat split. Qed.
