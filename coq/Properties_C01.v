(* Properties_C01.v — C01: a future is resolved exactly once, by exactly one winner.
   Statements only; proofs are `exact <lemma of CellProofs>`.  `reachable ops s` ranges over every
   schedule of every set of resolver threads (value / exception / drop / move-then-destroy, any number,
   any payloads), waiter threads of every kind, and the final destructor of the shared promise. *)
From Cocls Require Import Base BaseProofs CellDefs CellProofs PromDefs PromProofs.
Local Open Scope Z_scope.

(* at most one call ever reports success *)
Theorem c01_single_winner : forall ops s i j k k',
  reachable ops s -> T s i = Some (TR k (RDone true)) -> T s j = Some (TR k' (RDone true)) -> i = j.
Proof. exact single_winner. Qed.
Print Assumptions c01_single_winner.

(* a call reports success exactly when it is the one whose claim took the owner pointer *)
Theorem c01_success_iff_winner : forall ops s i k r,
  reachable ops s -> T s i = Some (TR k (RDone r)) -> (r = true <-> winner s = Some i).
Proof. exact success_iff_winner. Qed.
Print Assumptions c01_success_iff_winner.

(* when the future is ready its result is the winner's payload (no-value for drop / destruction) *)
Theorem c01_result_is_winners : forall ops s,
  reachable ops s -> slot s = SReady ->
  exists i k pc, winner s = Some i /\ T s i = Some (TR k pc) /\ payload s = payload_of k ONone.
Proof. exact result_is_winners. Qed.
Print Assumptions c01_result_is_winners.

(* after the election nothing changes winner or payload, and readiness is permanent *)
Theorem c01_result_stable : forall ops s i,
  reachable ops s -> winner s <> None -> enabled s i = true ->
  winner (fst (tstep s i)) = winner s /\ payload (fst (tstep s i)) = payload s /\
  (slot s = SReady -> slot (fst (tstep s i)) = SReady).
Proof. exact result_stable. Qed.
Print Assumptions c01_result_stable.

(* a losing call changes nothing but its own program counter, and returns false *)
Theorem c01_losers_leave_no_trace : forall s i k,
  owner s = false -> T s i = Some (TR k RClaim) ->
  fst (tstep s i) = set_thr s i (TR k (match k with KMove => RDtor (Some false) | _ => RDone false end)).
Proof. exact loser_leaves_no_trace. Qed.
Print Assumptions c01_losers_leave_no_trace.

(* ---------- promise OBJECTS over several futures (PromDefs.v: every op sequence of move construction, move
   assignment, explicit drop, calls through empty / moved-from promises, bind closures, destruction) ---------- *)

(* in every state reached by any op sequence: each future has at most one owner, is pending exactly while owned,
   resolve() ran on it at most once and exactly once iff it is ready *)
Theorem c01_single_winner_per_cell : forall isvoid ops c cl,
  nth_error (cells (fst (prun isvoid pinit ops))) c = Some cl ->
  (c_nres cl <= 1 /\ (c_nres cl = 1 <-> c_slot cl = CReady) /\
   refs (fst (prun isvoid pinit ops)) c <= 1 /\ (refs (fst (prun isvoid pinit ops)) c = 1 <-> exists l, c_slot cl = CChain l))%nat.
Proof. exact single_winner_per_cell. Qed.
Print Assumptions c01_single_winner_per_cell.

Theorem c01_prom_invariants : forall isvoid ops s, PInv s -> PInv2 s ->
  PInv (fst (prun isvoid s ops)) /\ PInv2 (fst (prun isvoid s ops)).
Proof. exact pinv12_run. Qed.
Print Assumptions c01_prom_invariants.

(* a moved-from / used / empty promise never wins: its calls return false and change nothing at all *)
Theorem c01_empty_promise_never_wins : forall isvoid s p,
  nth_error (proms s) p = Some (Some None) ->
  (forall v, pstep isvoid s (PVal p v) = (s, [0])) /\ (forall e, pstep isvoid s (PExc p e) = (s, [0])) /\
  pstep isvoid s (PDrop p) = (s, [0]) /\ pstep isvoid s (PQueryProm p) = (s, [0]).
Proof. exact empty_call_no_trace. Qed.
Print Assumptions c01_empty_promise_never_wins.

(* move assignment onto a live promise: source emptied, target takes the source's future, the overwritten future
   is resolved by exactly one resolve() and no other future is touched *)
Theorem c01_assign_semantics : forall isvoid s p q cp oq,
  PInv s -> nth_error (proms s) p = Some (Some (Some cp)) -> nth_error (proms s) q = Some (Some oq) -> p <> q ->
  let s' := fst (pstep isvoid s (PAssign p q)) in
  nth_error (proms s') q = Some (Some None) /\ nth_error (proms s') p = Some (Some oq) /\
  (exists cl cl', nth_error (cells s) cp = Some cl /\ nth_error (cells s') cp = Some cl' /\
                  c_slot cl' = CReady /\ c_pay cl' = c_pay cl /\ c_nres cl = 0%nat /\ c_nres cl' = 1%nat) /\
  (forall c, c <> cp -> nth_error (cells s') c = nth_error (cells s) c).
Proof. exact assign_semantics. Qed.
Print Assumptions c01_assign_semantics.

(* ... and that future reads as no-value *)
Theorem c01_overwritten_is_novalue_once : forall isvoid s p q cp oq,
  PInv s -> PInv2 s -> nth_error (proms s) p = Some (Some (Some cp)) -> nth_error (proms s) q = Some (Some oq) -> p <> q ->
  exists cl', nth_error (cells (fst (pstep isvoid s (PAssign p q)))) cp = Some cl' /\
              c_slot cl' = CReady /\ c_pay cl' = ONone /\ c_nres cl' = 1%nat.
Proof. exact assign_overwritten_novalue. Qed.
Print Assumptions c01_overwritten_is_novalue_once.

Theorem c01_assign_onto_empty : forall isvoid s p q oq,
  nth_error (proms s) p = Some (Some None) -> nth_error (proms s) q = Some (Some oq) -> p <> q ->
  let s' := fst (pstep isvoid s (PAssign p q)) in
  cells s' = cells s /\ nth_error (proms s') q = Some (Some None) /\ nth_error (proms s') p = Some (Some oq) /\
  snd (pstep isvoid s (PAssign p q)) = [0].
Proof. exact assign_onto_empty. Qed.
Print Assumptions c01_assign_onto_empty.

Theorem c01_move_construct : forall isvoid s p q oq,
  nth_error (proms s) p = Some None -> nth_error (proms s) q = Some (Some oq) ->
  let s' := fst (pstep isvoid s (PMoveC p q)) in
  cells s' = cells s /\ nth_error (proms s') q = Some (Some None) /\ nth_error (proms s') p = Some (Some oq).
Proof. exact move_construct_semantics. Qed.
Print Assumptions c01_move_construct.

(* destruction (ordinary or during stack unwinding) or explicit drop of an owner resolves its future (payload untouched
   = no-value) by one resolve() *)
Theorem c01_destroy_or_drop_resolves : forall isvoid s p cp,
  PInv s -> nth_error (proms s) p = Some (Some (Some cp)) ->
  forall x, x = PDestroy p \/ x = PDrop p \/ x = PUnwind p ->
  exists cl cl', nth_error (cells s) cp = Some cl /\ nth_error (cells (fst (pstep isvoid s x))) cp = Some cl' /\
                 c_slot cl' = CReady /\ c_pay cl' = c_pay cl /\ c_nres cl' = 1%nat.
Proof. exact destroy_resolves. Qed.
Print Assumptions c01_destroy_or_drop_resolves.

(* a ready future is never touched again by any operation on any promise, closure or waiter *)
Theorem c01_ready_is_stable : forall isvoid s x c cl,
  PInv s -> nth_error (cells s) c = Some cl -> c_slot cl = CReady ->
  nth_error (cells (fst (pstep isvoid s x))) c = Some cl.
Proof. exact ready_is_stable. Qed.
Print Assumptions c01_ready_is_stable.

(* non-vacuity: the scenario of seeded change C01-3 (live target overwritten from a named source, stale call) *)
Example c01_prom_nonvacuous :
  prom_run false [[1;0;0]; [1;1;1]; [14;7;0;0]; [3;0;1]; [15;0]; [16;1]; [6;1;5]; [6;0;7]; [15;1]]
  = [[0]; [0]; [0]; [0;7;0;0]; [1;0;0]; [0]; [0]; [1]; [1;1;7];
     [-1]; [-1]; [0]; [0]; [-1]; [-1]; [1;0;0]; [1;1;7]; [2]; [10;0;0]].
Proof. vm_compute. reflexivity. Qed.

(* non-vacuity: a reachable 3-resolver race with a blocked waiter *)
Example c01_nonvacuous :
  let ops := [[1;0;42]; [1;1;7]; [1;2;0]; [2;1]; [9; 3;3;0;1;2;0;0;0;0;0;0;0]]%Z in
  let r := run_sched 100 (init ops) (flat_map decode_sched ops) [] in
  slot (fst r) = SReady /\ payload (fst r) = OVal 42 /\ winner (fst r) = Some 0%nat /\
  T (fst r) 1 = Some (TR (KExc 7) (RDone false)).
Proof. vm_compute. repeat split. Qed.
