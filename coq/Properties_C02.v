(* Properties_C02.v — C02: no lost, early or duplicate wake-up of a future's waiters.
   Statements only; proofs are `exact <lemma of Cell2Proofs>`.  `reachable ops s` ranges over every schedule of
   any number of waiter threads of every kind (coroutine co_await f / thread in sync()+value() / callback awaiter /
   thread in has_value() / coroutine co_await f.has_value()), any number of resolver threads of every kind
   (value / exception / drop / move-then-destroy / completion of an async coroutine by value or exception) and the
   final destructor of the shared promise.
   Vocabulary (Cell2Proofs): chain s = nodes hanging off the future's slot, walk s = the walker's detached list,
   acc s = coroutine handles collected in the suspend point, rel s = waiters released so far (map fst (wlog s)),
   wlog s = (waiter, payload visible at the release), sublog s = successful subscriptions,
   elog s = access log of the awaiter nodes (ENext/EClear = the walker reads/clears _next, EResume = resume(),
   EFree = the awaiter's storage is gone, EFrame r = async frame destroyed while ready = r). *)
From Cocls Require Import Base BaseProofs CellDefs CellProofs Cell2Proofs AwDefs AwProofs PromDefs PromProofs.
Local Open Scope Z_scope.

(* at most once: a waiter occurs at most once in slot ∪ walk list ∪ suspend point ∪ released; its release count is <= 1
   and a released waiter is no longer held anywhere *)
Theorem c02_at_most_once : forall ops s,
  reachable ops s ->
  NoDup (chain s ++ walk s ++ acc s ++ rel s) /\
  forall w, (count_occ Nat.eq_dec (rel s) w <= 1)%nat /\
            (In w (rel s) -> ~ In w (chain s ++ walk s ++ acc s)).
Proof. exact at_most_once. Qed.
Print Assumptions c02_at_most_once.

(* exactly the successfully subscribed waiters are held or released: nobody else is ever woken *)
Theorem c02_only_subscribers : forall ops s w,
  reachable ops s -> (In w (sublog s) <-> In w (chain s ++ walk s ++ acc s ++ rel s)).
Proof. exact released_were_subscribed. Qed.
Print Assumptions c02_only_subscribers.

(* not early: at every release the slot is Ready (the exchange has happened, which is after the payload was set) and
   the payload visible at that instant is the winner's, i.e. the final one (stable by c01_result_stable) *)
Theorem c02_not_early : forall ops s w o,
  reachable ops s -> In (w, o) (wlog s) ->
  slot s = SReady /\ o = payload s /\
  exists i k pc, winner s = Some i /\ T s i = Some (TR k pc) /\ o = payload_of k ONone.
Proof. exact not_early. Qed.
Print Assumptions c02_not_early.

(* the walker owns detached nodes / collected handles only after the exchange *)
Theorem c02_walk_only_when_ready : forall ops s,
  reachable ops s -> walk s <> [] \/ acc s <> [] -> slot s = SReady.
Proof. exact walk_only_when_ready. Qed.
Print Assumptions c02_walk_only_when_ready.

(* every waiter that went on (released / refused by the CAS / found ready) observed Ready and read the final payload;
   if it had subscribed it was released, otherwise it never is *)
Theorem c02_done_sees_result : forall ops s w k o f,
  reachable ops s -> T s w = Some (TW k (WDone o) f) ->
  slot s = SReady /\ o = payload s /\
  (exists i kr pc, winner s = Some i /\ T s i = Some (TR kr pc) /\ o = payload_of kr ONone) /\
  (In w (sublog s) -> In w (rel s)) /\ (~ In w (sublog s) -> ~ In w (rel s)).
Proof. exact done_sees_result. Qed.
Print Assumptions c02_done_sees_result.

(* refused-sees-result: a waiter whose CAS meets the Ready marker goes on unsubscribed and reads the winner's payload *)
Theorem c02_refused_sees_result : forall ops s w k r e f,
  reachable ops s -> T s w = Some (TW k (WSub r e) f) -> slot s = SReady ->
  T (fst (tstep s w)) w = Some (TW k (WDone (payload s)) f) /\ ~ In w (sublog (fst (tstep s w))) /\
  exists i kr pc, winner s = Some i /\ T s i = Some (TR kr pc) /\ payload s = payload_of kr ONone.
Proof. exact refused_sees_result. Qed.
Print Assumptions c02_refused_sees_result.

(* no lost wake-up: in every terminal state (no thread can take a step) the future is ready, slot / walk list /
   suspend point are empty and every waiter has gone on with the final payload, released exactly once if it had
   subscribed and never otherwise *)
Theorem c02_no_lost_wakeup : forall ops s,
  reachable ops s -> all_enabled s = [] ->
  slot s = SReady /\ chain s = [] /\ walk s = [] /\ acc s = [] /\
  (exists i k, winner s = Some i /\ T s i = Some (TR k (RDone true)) /\ payload s = payload_of k ONone) /\
  forall w k pc f, T s w = Some (TW k pc f) ->
    pc = WDone (payload s) /\
    count_occ Nat.eq_dec (rel s) w = (if in_dec Nat.eq_dec w (sublog s) then 1 else 0)%nat.
Proof. exact no_lost_wakeup. Qed.
Print Assumptions c02_no_lost_wakeup.

(* next-read-before-resume: after resume() of a node the walker neither reads nor writes that node, nor resumes it again *)
Theorem c02_next_read_before_resume : forall ops s l1 w l2,
  reachable ops s -> elog s = l1 ++ EResume w :: l2 ->
  ~ In (ENext w) l2 /\ ~ In (EClear w) l2 /\ ~ In (EResume w) l2.
Proof. exact no_touch_after_resume. Qed.
Print Assumptions c02_next_read_before_resume.

(* a waiter's awaiter storage is released only after its resume(), and nothing touches it afterwards
   (this is what makes the stack-allocated sync_awaiter of sync()/wait() safe) *)
Theorem c02_no_touch_after_free : forall ops s l1 w l2,
  reachable ops s -> elog s = l1 ++ EFree w :: l2 ->
  In (EResume w) l1 /\ ~ In (ENext w) l2 /\ ~ In (EClear w) l2 /\ ~ In (EResume w) l2 /\ ~ In (EFree w) l2.
Proof. exact no_touch_after_free. Qed.
Print Assumptions c02_no_touch_after_free.

(* completion of an async coroutine: its frame is destroyed only after the bound future became ready *)
Theorem c02_async_frame_after_ready : forall ops s b,
  reachable ops s -> In (EFrame b) (elog s) -> b = true /\ slot s = SReady.
Proof. exact frame_after_ready. Qed.
Print Assumptions c02_async_frame_after_ready.

(* the executable scheduler (what the correspondence check runs) only visits reachable states *)
Theorem c02_run_reachable : forall ops fuel sched, reachable ops (fst (run_sched fuel (init ops) sched [])).
Proof. exact run_reachable. Qed.
Print Assumptions c02_run_reachable.

(* ---------- RE-USED awaiter objects (AwDefs.v: hand-written awaiters and call_fn_future_awaiter performing several
   waits in sequence on several futures, already resolved or pending; every op sequence) ---------- *)

(* the entry assert of subscribe_check_ready never fires and no CAS ever matches the ready marker *)
Theorem c02_reuse_never_errs : forall isvoid ops, a_err (fst (arun isvoid ainit ops)) = false.
Proof. exact reuse_never_errs. Qed.
Print Assumptions c02_reuse_never_errs.

(* a re-used awaiter's link field is reset before each subscription attempt: whenever the object is not linked
   (fresh, refused earlier, released earlier) its _next is null *)
Theorem c02_link_reset_before_subscription : forall isvoid ops a w,
  nth_error (aws (fst (arun isvoid ainit ops))) a = Some w -> aw_cell w = None -> aw_next w = LNull.
Proof. exact link_reset_before_subscription. Qed.
Print Assumptions c02_link_reset_before_subscription.

(* hence a wait on an already resolved future is refused, the callback runs exactly once with the future's payload,
   the link field is null again and the future is untouched *)
Theorem c02_wait_on_resolved_is_refused : forall isvoid s a c w cl,
  AInv s -> nth_error (aws s) a = Some w -> aw_cell w = None -> nth_error (acells s) c = Some cl -> ac_slot cl = None ->
  let r := do_wait isvoid s a c in
  snd r = 0 :: Z.of_nat a :: okind isvoid (ac_pay cl) /\ acells (fst r) = acells s /\
  nth_error (aws (fst r)) a = Some (mkAw LNull None (S (aw_waits w)) (S (aw_runs w))).
Proof. exact wait_on_resolved_is_refused. Qed.
Print Assumptions c02_wait_on_resolved_is_refused.

(* each wait of a re-used awaiter is released exactly once: callbacks run = waits started, except for the one wait
   that is still parked, exactly once, in a pending future whose promise is still armed *)
Theorem c02_each_wait_released_exactly_once : forall isvoid ops a w,
  let s := fst (arun isvoid ainit ops) in
  nth_error (aws s) a = Some w ->
  match aw_cell w with
  | None => aw_runs w = aw_waits w
  | Some c => aw_waits w = S (aw_runs w) /\
              exists cl l, nth_error (acells s) c = Some cl /\ ac_slot cl = Some l /\ ac_prom cl = true /\
                           count_occ Nat.eq_dec l a = 1%nat
  end.
Proof. exact each_wait_released_exactly_once. Qed.
Print Assumptions c02_each_wait_released_exactly_once.

(* once every future is resolved no wait is open *)
Theorem c02_reuse_all_resolved_all_answered : forall isvoid ops,
  let s := fst (arun isvoid ainit ops) in
  (forall c cl, nth_error (acells s) c = Some cl -> ac_slot cl = None) ->
  forall a w, nth_error (aws s) a = Some w -> aw_cell w = None /\ aw_next w = LNull /\ aw_runs w = aw_waits w.
Proof. exact all_resolved_all_answered. Qed.
Print Assumptions c02_reuse_all_resolved_all_answered.

(* non-vacuity: the scenario of seeded change C02-3 (refused, re-used on a resolved future, then on a pending one) *)
Example c02_reuse_nonvacuous :
  aw_run false [[22;0;0;10]; [20;0;0]; [22;1;0;20]; [20;0;1]; [20;0;2]; [22;2;0;30]; [21;0;1;5]; [21;0;1;6]; [21;0;0;0]; [22;3;0;7]]
  = [[1]; [0;0;1;10]; [1]; [0;0;1;20]; [1]; [1;0;1;30]; [0;2;1;5]; [0;2;1;6]; [1]; [1;2;1;7];
     [0]; [0]; [0]; [0]; [0]; [1;1;10]; [1;1;20]; [1;1;30]; [10;0;0]].
Proof. vm_compute. reflexivity. Qed.

(* ---------- waiters of a future whose promise object is overwritten / destroyed / dropped (PromDefs.v) ---------- *)
(* move assignment onto a live promise releases the waiters parked on the overwritten future AT the assignment: every one
   of them, with the (no-value) result, callbacks in chain order and then the coroutines *)
Theorem c02_assign_releases_waiters : forall isvoid s p q cp oq cl l,
  nth_error (proms s) p = Some (Some (Some cp)) -> nth_error (proms s) q = Some (Some oq) -> p <> q ->
  nth_error (cells s) cp = Some cl -> c_slot cl = CChain l ->
  snd (pstep isvoid s (PAssign p q)) = 0 :: deliver isvoid (c_pay cl) l /\
  (forall w k, In (w, k) l -> In (Z.of_nat w) (deliver isvoid (c_pay cl) l)).
Proof. exact assign_releases_waiters. Qed.
Print Assumptions c02_assign_releases_waiters.

Theorem c02_drop_releases_waiters : forall isvoid s p cp cl l x,
  nth_error (proms s) p = Some (Some (Some cp)) -> nth_error (cells s) cp = Some cl -> c_slot cl = CChain l ->
  x = PDestroy p \/ x = PUnwind p \/ x = PDrop p ->
  exists r, snd (pstep isvoid s x) = r :: deliver isvoid (c_pay cl) l.
Proof. exact drop_releases_waiters. Qed.
Print Assumptions c02_drop_releases_waiters.

(* non-vacuity: 4 waiters of different kinds race with an async completion; two subscribe before the exchange,
   one is refused by the CAS, one finds the future ready; the run ends in a terminal state *)
Example c02_nonvacuous :
  let ops := [[2;0]; [2;1]; [1;4;42]; [2;2]; [2;3]; [9; 0;0;0;0;0;1;0;0;1;1;0;0;0;0;0;0;0]]%Z in
  let r := fst (run_sched 100 (init ops) (flat_map decode_sched ops) []) in
  all_enabled r = [] /\ slot r = SReady /\ payload r = OVal 42 /\
  sublog r = [0; 1]%nat /\ rel r = [1; 0]%nat /\
  T r 3 = Some (TW WCallback (WDone (OVal 42)) false) /\
  elog r = [ENext 1; EClear 1; EResume 1; EFree 1; ENext 0; EClear 0; EResume 0; EFrame true; EFree 0]%nat.
Proof. vm_compute. repeat split. Qed.
