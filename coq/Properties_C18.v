From Cocls Require Import Base BaseProofs AdaptersDefs AdaptersProofs.
Theorem c18_placeholder : True. Proof. exact I. Qed.
Print Assumptions c18_placeholder.
