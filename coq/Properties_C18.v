(* Properties_C18.v — C18: callback adapters fire exactly once with the right outcome.
   Statements only; proofs are `exact <lemma of AdaptersProofs>`.
   `c` ranges over every valid configuration: adapter (callback_await, make_promise, discard, future_conv,
   call_fn_future_awaiter) x outcome (value v / exception e / dropped promise, any v e) x timing (future constructed
   ready, resolved inside the init function before the registration, resolved by a second thread, resolved later by
   the registering thread) x helper storage (heap / counting storage / reusable_storage / one of two trailer-tagged
   storages / reusable_storage_mtsafe) x converter (returns src + d / throws / resolves with an exception / declines / forwards the promise to another thread, any d)
   x optional re-arming handler (call_fn_future_awaiter: the handler starts a second operation on the same awaiter, still
   pending when it returns, resolved by a third thread) x optional competing resolver
   on a third thread (value / exception / p(drop));
   `reachable c s` ranges over every schedule of the registering thread and the resolver threads (every interleaving
   at hook-point granularity: resolution before, during and after the registration);
   `terminal s` = no thread can take a step.  `wout c s` is the outcome of the claim that succeeded. *)
From Cocls Require Import Base BaseProofs AdaptersDefs AdaptersInv AdaptersProofs AdaptersOracle.
Local Open Scope nat_scope.

(* progress: no schedule strands a registration or a resolver (when nothing can move, all threads ran to completion);
   no livelock (every schedule of every valid configuration reaches a terminal state within 90 steps, so the `terminal`
   hypotheses below are met by every complete run); the executable runner used for the correspondence check only
   visits reachable states *)
Theorem c18_progress : forall c, valid c = true ->
  (forall s, reachable c s -> terminal s -> th0 s = [] /\ th1 s = [] /\ th2 s = []) /\
  (forall sched fuel, 90 <= fuel -> terminal (fst (run_sched c fuel (init c) sched []))) /\
  (forall fuel s sched tr, reachable c s -> reachable c (fst (run_sched c fuel s sched tr))).
Proof. exact progress_all. Qed.
Print Assumptions c18_progress.

(* THE CALLBACK.  One entry per awaited operation: never more in any reachable state (the first completion started at most
   once, the second - a re-arming call_fn_future_awaiter handler awaits two operations - at most once), and exactly one per
   awaited operation when the scenario has run to completion: never zero, never twice (discard and future_conv have no user
   callback: 0).  Every invocation sees exactly what its operation's future holds: the outcome of the claim that succeeded
   for the first operation, the declared outcome of the second operation for the re-armed run; and at that moment the helper
   block is allocated and not yet released *)
Theorem c18_fires_once_right_outcome : forall c s, valid c = true -> reachable c s ->
  ((ncb s <= 1 + re c /\ nfire s <= 1 /\ nfire2 s <= re c) /\ (terminal s -> ncb s = b2n (has_cb (c_ad c)) + re c)) /\
  (forall t o al fr, In (t, ECb o al fr) (log s) ->
     ((o = payload s /\ o = wout c s) \/ (re c = 1 /\ o = payload2 s /\ o = out_of (kind_re c))) /\ al = hb c /\ fr = 0).
Proof. exact callbacks_all. Qed.
Print Assumptions c18_fires_once_right_outcome.

(* the claim that succeeded is the call that returned true: never two; the declared outcome when there is no
   competing resolver; with one, exactly one of the two calls returned true and the delivered outcome is that call's *)
Theorem c18_outcome_is_the_winners : forall c s, valid c = true -> reachable c s ->
  (ret1 s = Some true -> ret2 s = Some true -> False) /\
  (ret1 s = Some true -> wout c s = out_of (c_k c)) /\
  (ret2 s = Some true -> exists k2, c_k2 c = Some k2 /\ wout c s = out_of k2) /\
  (c_k2 c = None -> wout c s = out_of (c_k c) /\ ret2 s = None) /\
  (c_k2 c <> None -> owner s = false -> (ret1 s = Some true /\ ret2 s <> Some true) \/ (ret2 s = Some true /\ ret1 s <> Some true)).
Proof. exact winner_facts. Qed.
Print Assumptions c18_outcome_is_the_winners.

(* RELEASE.  The helper block / frame is never released twice, never before the callback returned (the log then contains
   callback-entered, callback-returned, callback object destroyed, storage dealloc - in this order), and is released exactly
   once at the end; and the complete final state: source ready with the winner's outcome, promise consumed, completion
   started exactly once (twice for a re-arming handler: once per operation), everything released, outer future resolved
   once and delivered once (converter adapter) *)
Theorem c18_released_once_final_state : forall c s, valid c = true -> reachable c s ->
  (frees s <= allocs s /\ allocs s = hb c /\
   (frees s >= 1 -> atomic_cb c = true -> exists pre post t, log s = pre ++ cb_log c (payload s) t ++ post) /\
   (terminal s -> frees s = allocs s)) /\
  (terminal s -> Final c s).
Proof. exact release_all. Qed.
Print Assumptions c18_released_once_final_state.

(* converter.  Safety, in every reachable state: the outer future is never resolved twice, the converter never runs twice
   nor on an exception, nothing is delivered before the resolution, a ready outer future holds the expected result.
   At the end: the outer future ALWAYS completes; it holds conv(v) / the converter's exception / the source's exception
   (await_canceled for a broken promise) / no value when the converter declined; resolved once, delivered once (by the late
   resolver thread when the converter forwarded the promise); the converter ran once iff there was a value, and the log is
   exactly [converter call; outer delivery] *)
Theorem c18_conv : forall c s, valid c = true -> reachable c s ->
  (nores s <= 1 /\ nconv s <= b2n (isv (payload s)) /\ ndeliv s <= nores s /\
   (oslot s = SReady -> opayload s = conv_result c (payload s))) /\
  (is_conv c = true -> terminal s ->
   oslot s = SReady /\ opayload s = conv_result c (wout c s) /\ nores s = 1 /\ ndeliv s = 1 /\
   nconv s = b2n (isv (wout c s)) /\
   exists t1 t2, log s = conv_log c (wout c s) t1 ++ [(t2, EODeliv (conv_result c (wout c s)))]).
Proof. exact conv_all. Qed.
Print Assumptions c18_conv.

(* the decidable form of the property that is run on the IMPLEMENTATION's traces accepts every trace of the model, for
   every op list (valid or malformed), both engines and both value-type variants: the oracle demands nothing that the
   proved model does not deliver, so a rejection is a behaviour outside every schedule of the model *)
Theorem c18_oracle_accepts_model : forall seq isvoid ops,
  adapt_oracle seq isvoid ops (adapt_run seq isvoid ops) = true.
Proof. exact oracle_accepts_model. Qed.
Print Assumptions c18_oracle_accepts_model.

(* non-vacuity: future_conv with a throwing converter into a race of a value against p(drop) on three threads; the
   competitor wins, the converter is never called, the outer future gets await_canceled *)
Example c18_nonvacuous :
  let c := mkCfg AConv 2 0 (KVal 5) (Some KDrop) None 1 9 in
  let r := fst (run_sched c 100 (init c) [0;0;0;0;2;2;1;1;2;0;1;2;0;1;2;0;0]%Z []) in
  valid c = true /\ all_enabled r = [] /\ won r = 2 /\ ret1 r = Some false /\ ret2 r = Some true /\
  opayload r = OCanc /\ nconv r = 0 /\ ndeliv r = 1 /\ nores r = 1.
Proof. vm_compute. repeat split. Qed.

(* non-vacuity 2: a promise-passing converter that declines (touches nothing): the outer future still completes,
   exactly once, as a broken promise; and one that forwards the promise: thread 2 delivers src + d *)
Example c18_nonvacuous_decline :
  let c := mkCfg AConv 2 0 (KVal 5) None None 3 9 in
  let r := fst (run_sched c 100 (init c) [0;0;0;0;1;1;1;0;1;0;1;1;0;1;1]%Z []) in
  valid c = true /\ all_enabled r = [] /\ oslot r = SReady /\ opayload r = ONone /\ nconv r = 1 /\ ndeliv r = 1 /\ nores r = 1.
Proof. vm_compute. repeat split. Qed.
Example c18_nonvacuous_forward :
  let c := mkCfg AConv 2 0 (KVal 5) None None 4 9 in
  let r := fst (run_sched c 100 (init c) [0;0;0;0;1;1;1;0;1;0;1;1;0;1;1;2;2;2]%Z []) in
  valid c = true /\ all_enabled r = [] /\ oslot r = SReady /\ opayload r = OVal 14 /\ nconv r = 1 /\ ndeliv r = 1 /\ nores r = 1.
Proof. vm_compute. repeat split. Qed.

(* non-vacuity 3: a call_fn_future_awaiter handler that re-arms its awaiter; the second operation is resolved with an
   exception by thread 2 before the handler's subscription: two handler runs, one per operation *)
Example c18_nonvacuous_rearm :
  let c := mkCfg ACallFn 2 0 (KVal 5) None (Some (KExc 7)) 0 0 in
  let r := fst (run_sched c 100 (init c) [0;0;0;1;1;1;1;1;2;2;2;1;1]%Z []) in
  valid c = true /\ all_enabled r = [] /\ nfire r = 1 /\ nfire2 r = 1 /\ payload r = OVal 5 /\ payload2 r = OExc 7 /\ ncb r = 2.
Proof. vm_compute. repeat split. Qed.
