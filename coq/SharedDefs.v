(* SharedDefs.v — interleaving model of one shared_future state (shared_future.h over future.h / awaiter.h):
   a creator thread that constructs the shared state (five construction modes, among them late initialisation
   through get_promise()), hands copies to user threads and drops its own handles; one resolver thread that owns
   the promise; any number of user threads that copy, poll, await (coroutine / blocking / callback) and drop handles.
   std::shared_ptr's control block is trusted and modelled as one atomic counter `rc` (handles + the tracer's
   self-reference).  One model step = the code between two COCLS_VERIF_POINT hooks.  Model only, no proofs.

   Code transcribed (line numbers of /repo/src/cocls):
     shared_future.h:87-93   ctor from fn(promise)         -> mode MFn   : make_shared(fn) ; charge
     shared_future.h:104-110 ctor from fn returning future -> mode MFut  : make_shared() ; result_of(fn) ; if pending() charge
     shared_future.h:130-145 init_if_needed / get_promise  -> modes MLate, MLate2 (through a copy of an initialised handle)
     shared_future.h:130-132,148-151 init_if_needed, ready -> mode MLate3: default ctor + init_if_needed(), copies handed to polling /
                                                              dropping users BEFORE get_promise() (ready() must say "not ready"), then
                                                              get_promise() + charge, then the remaining users
     shared_future.h:120-122 set_value                     -> mode MPre  (born ready: not pending, no charge)
     shared_future.h:104-110 + async.h:50-59,216-229       -> mode MCoro : ctor from `[&]{return coro().start();}`: the state is
                                                              the future of an async coroutine parked on a gate; the resolver opens
                                                              the gate and the coroutine's co_return / final_suspend resolve the state
     implicit copy ctor / copy assignment / move assignment / self-assignment of the handle -> cpk (CpCtor, CpAssign, CpMove, CpSelf);
       the other state released by an assignment is a private ready state of that user: its release is observed through the
       instance counter and the sanitizers, it is not part of this model (concurrent use of the SAME handle object by two threads
       is a data race by the C++ rules and excluded: every thread works on its own handle objects)
     shared_future.h:211-220 resolve_cb::charge            -> CSet (216) ; CSub (217, awaiter.h:121-136) ; CClr (218)
     shared_future.h:212-215 tracer callback               -> RClr (213), reached from the resolver's walk
     future.h:641-648 promise::set_value, 557-559 resolve, awaiter.h:96-112 resume_chain_set_ready / resume_chain_lk
     awaiter.h:182-199,317-335 co_awaiter await_ready / await_suspend / sync                                  *)
From Cocls Require Import Base.
Local Open Scope Z_scope.

Inductive outcome := ONone | OVal (v : Z) | OExc (e : Z) | ONotReady.
(* chain node: the resolve tracer (lives INSIDE the shared state) or the awaiter of user thread w (lives in the user's memory) *)
Inductive node := NT | NU (w : nat).
Inductive slotv := SChain (l : list node) | SReady.

Inductive cmode := MFn | MFut | MLate | MLate2 | MPre (v : Z) | MCoro | MLate3.
Inductive cpc :=
| CClaim                        (* at "claim": the promise handed to the init function is moved to the resolver's mailbox *)
| CDtor                         (* at "dtor": the moved-from promise dies; then make_shared returns (MFut: pending() is read) *)
| CSet                          (* at "sf_set": charge, before `_ptr = ptr` (shared_future.h:216) *)
| CSub (retry : bool) (exp : option node)   (* at "sub"/"sub_retry": CAS of the tracer into the chain (217) *)
| CClr                          (* at "sf_dec": subscription refused, `_ptr = nullptr` (218) *)
| CGive                         (* at "sf_inc": copy a handle for the next user thread *)
| CDrop (k : nat)               (* at "sf_dec": drop one of the creator's k own handles *)
| CDone
| CGate1                        (* MCoro, at "ready": the producer coroutine tests its gate (async::start, async.h:50-59) *)
| CGate2                        (* MCoro, at "sub": the producer parks on its gate; from now on the resolver may open it *)
| CGiveE.                       (* MLate3, at "sf_inc": after init_if_needed() and BEFORE get_promise() a copy is handed to the
                                   next user that only polls or drops (awaiting a state whose promise was not taken is misuse) *)

Inductive rkind := KVal (v : Z) | KExc (e : Z) | KDrop.
Inductive rpc :=
| RXWait                        (* waits for the promise *)
| RClaim                        (* at "claim" *)
| RResolve                      (* at "resolve": exchange of the slot with the ready marker *)
| RWalk                         (* at "walk": next node of the detached chain *)
| RClr                          (* at "sf_clr": inside the tracer callback, before `_ptr = nullptr` (213) *)
| RDone (res : bool)
| RG1                           (* MCoro: at "claim" of the gate's promise *)
| RG2                           (* MCoro: at "resolve" of the gate *)
| RG3.                          (* MCoro: at "walk" of the gate's chain: the producer coroutine resumes here, co_returns
                                   (async_promise::resolve = future::set) and reaches final_suspend (async.h:216-229) *)

Inductive wkind := WCoro | WBlock | WCallback.
Inductive ukind := UKDrop | UKPoll | UKAwait (w : wkind).
Inductive upc :=
| UWait0                        (* no handle yet *)
| UWait1                        (* handle received (blocked thread becomes enabled) *)
| UInc                          (* at "sf_inc": copy own handle *)
| UDecO                         (* at "sf_dec": drop the original, keep the copy *)
| UReady                        (* at "ready": ready() / await_ready *)
| USub (retry : bool) (exp : option node)   (* at "sub"/"sub_retry" *)
| UParked                       (* subscribed coroutine / callback: the thread has returned, frame / context keeps the handle *)
| UFlag                         (* subscribed blocking thread *)
| UDec                          (* at "sf_dec": drop the handle *)
| UDone
| UAsg.                         (* at "sf_inc": move-assignment onto a live handle of another state / self-assignment:
                                   the counter of this state does not change *)

(* what a user does with the handle it received before using it *)
Inductive cpk :=
| CpNone                        (* nothing *)
| CpCtor                        (* copy-construct, drop the original *)
| CpAssign                      (* copy-assign onto a live handle of another (ready) state, drop the original *)
| CpMove                        (* move-assign onto a live handle of another (ready) state *)
| CpSelf.                       (* self-assignment *)

(* a user thread: what it does first, kind, pc, sync_awaiter flag, result picked up, how many times it picked one up *)
Record uthr := mkU { ucp : cpk; ukd : ukind; upcf : upc; uflag : bool; useen : option outcome; uruns : nat }.

(* thread ids: 0 = creator, 1 = resolver, j + 2 = user j *)
Record st := mkSt {
  mode : cmode;            (* constant *)
  rk : rkind;              (* constant *)
  cpcf : cpc;
  rpcf : rpc;
  slot : slotv;            (* future_common::_awaiter *)
  payload : outcome;       (* future::_state + union *)
  rc : nat;                (* shared_ptr use count *)
  selfref : bool;          (* resolve_tracer._ptr != nullptr *)
  freed : nat;             (* how many times the state was destroyed *)
  pctor : nat;             (* payload objects constructed in the state *)
  pdtor : nat;             (* payload objects destroyed *)
  uaf : nat;               (* ghost: accesses to the state's memory after it was freed (or counter underflow) *)
  pavail : bool;           (* promise available to the resolver *)
  walk : list node;        (* resolver-private: rest of the detached chain *)
  acc : list nat;          (* resolver-private: coroutines collected in the suspend point *)
  users : list uthr
}.

Definition set_cpc (s : st) (x : cpc) : st :=
  mkSt (mode s) (rk s) x (rpcf s) (slot s) (payload s) (rc s) (selfref s) (freed s) (pctor s) (pdtor s) (uaf s) (pavail s) (walk s) (acc s) (users s).
Definition set_rpc (s : st) (x : rpc) : st :=
  mkSt (mode s) (rk s) (cpcf s) x (slot s) (payload s) (rc s) (selfref s) (freed s) (pctor s) (pdtor s) (uaf s) (pavail s) (walk s) (acc s) (users s).
Definition set_users (s : st) (l : list uthr) : st :=
  mkSt (mode s) (rk s) (cpcf s) (rpcf s) (slot s) (payload s) (rc s) (selfref s) (freed s) (pctor s) (pdtor s) (uaf s) (pavail s) (walk s) (acc s) l.
Definition set_user (s : st) (j : nat) (u : uthr) : st := set_users s (set_nth (users s) j u).
Definition set_slot (s : st) (x : slotv) : st :=
  mkSt (mode s) (rk s) (cpcf s) (rpcf s) x (payload s) (rc s) (selfref s) (freed s) (pctor s) (pdtor s) (uaf s) (pavail s) (walk s) (acc s) (users s).
Definition set_payload (s : st) (x : outcome) (c : nat) : st :=
  mkSt (mode s) (rk s) (cpcf s) (rpcf s) (slot s) x (rc s) (selfref s) (freed s) c (pdtor s) (uaf s) (pavail s) (walk s) (acc s) (users s).
Definition set_rc (s : st) (x : nat) : st :=
  mkSt (mode s) (rk s) (cpcf s) (rpcf s) (slot s) (payload s) x (selfref s) (freed s) (pctor s) (pdtor s) (uaf s) (pavail s) (walk s) (acc s) (users s).
Definition set_selfref (s : st) (x : bool) : st :=
  mkSt (mode s) (rk s) (cpcf s) (rpcf s) (slot s) (payload s) (rc s) x (freed s) (pctor s) (pdtor s) (uaf s) (pavail s) (walk s) (acc s) (users s).
Definition set_pavail (s : st) (x : bool) : st :=
  mkSt (mode s) (rk s) (cpcf s) (rpcf s) (slot s) (payload s) (rc s) (selfref s) (freed s) (pctor s) (pdtor s) (uaf s) x (walk s) (acc s) (users s).
Definition set_walk (s : st) (x : list node) : st :=
  mkSt (mode s) (rk s) (cpcf s) (rpcf s) (slot s) (payload s) (rc s) (selfref s) (freed s) (pctor s) (pdtor s) (uaf s) (pavail s) x (acc s) (users s).
Definition set_acc (s : st) (x : list nat) : st :=
  mkSt (mode s) (rk s) (cpcf s) (rpcf s) (slot s) (payload s) (rc s) (selfref s) (freed s) (pctor s) (pdtor s) (uaf s) (pavail s) (walk s) x (users s).
Definition bump_uaf (s : st) : st :=
  mkSt (mode s) (rk s) (cpcf s) (rpcf s) (slot s) (payload s) (rc s) (selfref s) (freed s) (pctor s) (pdtor s) (S (uaf s)) (pavail s) (walk s) (acc s) (users s).
(* the state's destructor: ~future_internal destroys the tracer and the payload (future.h:322-328) *)
Definition free_state (s : st) : st :=
  mkSt (mode s) (rk s) (cpcf s) (rpcf s) (slot s) (payload s) 0%nat (selfref s) (S (freed s)) (pctor s) (pdtor s + pctor s)%nat (uaf s) (pavail s) (walk s) (acc s) (users s).

(* any read or write of memory that belongs to the shared state (cell, payload, tracer, control block) *)
Definition touch (s : st) : st := match freed s with O => s | _ => bump_uaf s end.

(* shared_ptr release: the decrement that reaches zero destroys the state *)
Definition drop_ref (s : st) : st :=
  let s1 := touch s in
  match rc s1 with
  | O => bump_uaf s1
  | S O => free_state s1
  | S n => set_rc s1 n
  end.
Definition add_ref (s : st) : st := let s1 := touch s in set_rc s1 (S (rc s1)).

Definition head (l : list node) : option node := match l with [] => None | x :: _ => Some x end.
Definition node_eqb (a b : node) : bool :=
  match a, b with NT, NT => true | NU x, NU y => Nat.eqb x y | _, _ => false end.
Definition onode_eqb (a b : option node) : bool :=
  match a, b with None, None => true | Some x, Some y => node_eqb x y | _, _ => false end.

Definition set_upc (u : uthr) (pc : upc) : uthr := mkU (ucp u) (ukd u) pc (uflag u) (useen u) (uruns u).
Definition is_wait0 (u : uthr) : bool := match upcf u with UWait0 => true | _ => false end.
(* hand a handle to the first user that has none *)
Fixpoint give (l : list uthr) : option (list uthr) :=
  match l with
  | [] => None
  | u :: r => if is_wait0 u then Some (set_upc u UWait1 :: r)
              else match give r with Some r' => Some (u :: r') | None => None end
  end.
(* users that may receive a copy of an initialised state whose promise has not been taken yet *)
Definition is_early (u : uthr) : bool :=
  is_wait0 u && match ukd u with UKAwait _ => false | _ => true end.
Fixpoint give_early (l : list uthr) : option (list uthr) :=
  match l with
  | [] => None
  | u :: r => if is_early u then Some (set_upc u UWait1 :: r)
              else match give_early r with Some r' => Some (u :: r') | None => None end
  end.
Definition next_early (l : list uthr) : cpc := if existsb is_early l then CGiveE else CSet.

Definition own_handles (m : cmode) : nat := match m with MLate2 => 2%nat | _ => 1%nat end.
Definition is_late (m : cmode) : bool := match m with MLate | MLate2 | MLate3 => true | _ => false end.
Definition next_give (l : list uthr) (m : cmode) : cpc :=
  if existsb is_wait0 l then CGive else CDrop (own_handles m).

Definition enabled (s : st) (i : nat) : bool :=
  match i with
  | O => match cpcf s with CDone => false | _ => true end
  | S O => match rpcf s with RDone _ => false | RXWait => pavail s | _ => true end
  | S (S j) =>
      match nth_error (users s) j with
      | Some u => match upcf u with UWait0 | UParked | UDone => false | UFlag => uflag u | _ => true end
      | None => false
      end
  end.

Definition payload_of (k : rkind) : outcome :=
  match k with KVal v => OVal v | KExc e => OExc e | KDrop => ONone end.
Definition has_payload (k : rkind) : nat := match k with KDrop => 0%nat | _ => 1%nat end.

(* an awaiting user w picks up the result through its handle and lets the handle go (coroutine frame /
   callback context / blocking caller): value read, then shared_ptr release *)
Definition finish_user (s : st) (w : nat) : st :=
  match nth_error (users s) w with
  | Some u =>
      let s1 := touch s in
      drop_ref (set_user s1 w (mkU (ucp u) (ukd u) UDone (uflag u) (Some (payload s1)) (S (uruns u))))
  | None => s
  end.

(* awaiter.h:109 `ret << y->resume()` for a user node: dispatch on the awaiter's resume function *)
Definition release_node (s : st) (w : nat) : st :=
  match nth_error (users s) w with
  | Some u =>
      match ukd u with
      | UKAwait WCoro => set_acc s (acc s ++ [w])
      | UKAwait WCallback => finish_user s w
      | _ => set_user s w (mkU (ucp u) (ukd u) (upcf u) true (useen u) (uruns u))   (* sync_awaiter: set the flag *)
      end
  | None => s
  end.

(* the suspend point returned by resolve() is discarded: collected coroutines run now, in order *)
Fixpoint resume_all (s : st) (l : list nat) : st :=
  match l with
  | [] => s
  | c :: t => resume_all (finish_user s c) t
  end.

Definition finish (s : st) : st := set_rpc (set_acc (resume_all s (acc s)) []) (RDone true).

Definition first_action (k : ukind) : upc := match k with UKDrop => UDec | _ => UReady end.

(* the creator leaves charge(): late modes now return the promise; then handles are given out *)
Definition after_charge (s : st) : st :=
  set_cpc (set_pavail s (pavail s || is_late (mode s))) (next_give (users s) (mode s)).

(* creator step; returns the new state and the code of the point the thread was pending at *)
Definition cstep (s : st) : st * Z :=
  match cpcf s with
  | CClaim => (match mode s with MCoro => set_cpc s CGate1 | _ => set_cpc (set_pavail s true) CDtor end, 1)
  | CGiveE =>
      (match give_early (users s) with
       | Some us => set_cpc (set_users (add_ref s) us) (next_early us)
       | None => set_cpc s CSet
       end, 54)
  | CGate1 => (set_cpc s CGate2, 5)
  | CGate2 => (set_cpc (set_pavail s true) CDtor, 6)
  | CDtor =>
      (match mode s with
       | MFut | MCoro => let s1 := touch s in    (* shared_future.h:109 `if (_ptr->pending())` *)
                 match slot s1 with
                 | SReady => set_cpc s1 (next_give (users s1) (mode s1))
                 | _ => set_cpc s1 CSet
                 end
       | _ => set_cpc s CSet
       end, 2)
  | CSet => (set_cpc (set_selfref (add_ref s) true) (CSub false None), 52)
  | CSub r e =>
      (let s1 := touch s in
       match slot s1 with
       | SReady => set_cpc s1 CClr
       | SChain l =>
           if onode_eqb (head l) e then after_charge (set_slot s1 (SChain (NT :: l)))
           else set_cpc s1 (CSub true (head l))
       end, if r then 7 else 6)
  | CClr => (after_charge (drop_ref (set_selfref (touch s) false)), 50)
  | CGive =>
      (match give (users s) with
       | Some us => set_cpc (set_users (add_ref s) us) (next_give us (mode s))
       | None => set_cpc s (CDrop (own_handles (mode s)))
       end, 54)
  | CDrop k => (set_cpc (drop_ref s) (match k with S (S n) => CDrop (S n) | _ => CDone end), 50)
  | CDone => (s, 0)
  end.

(* the walk loop ends when the detached chain is exhausted (awaiter.h:104); the pc is RWalk on entry *)
Definition maybe_finish (s : st) : st := match walk s with [] => finish s | _ => s end.

Definition rstep (s : st) : st * Z :=
  match rpcf s with
  | RXWait => (set_rpc s (match mode s with MCoro => RG1 | _ => RClaim end), 9)
  | RG1 => (set_rpc s RG2, 1)
  | RG2 => (set_rpc s RG3, 3)
  | RG3 =>          (* the producer coroutine co_returns: future::set constructs the payload in the state *)
      (let s1 := touch s in set_rpc (set_payload s1 (payload_of (rk s1)) (has_payload (rk s1))) RResolve, 4)
  | RClaim =>       (* claim(), then future::set constructs the payload in the state *)
      (let s1 := touch s in set_rpc (set_payload s1 (payload_of (rk s1)) (has_payload (rk s1))) RResolve, 1)
  | RResolve =>
      (let s1 := touch s in
       let l := match slot s1 with SChain l => l | SReady => [] end in
       maybe_finish (set_rpc (set_walk (set_slot s1 SReady) l) RWalk), 3)
  | RWalk =>
      (match walk s with
       | [] => maybe_finish s
       | NT :: t =>              (* reads and clears tracer._next (memory of the state), calls the tracer callback *)
           set_rpc (set_walk (touch s) t) RClr
       | NU w :: t => maybe_finish (release_node (set_walk s t) w)
       end, 4)
  | RClr => (maybe_finish (set_rpc (drop_ref (set_selfref (touch s) false)) RWalk), 53)
  | RDone _ => (s, 0)
  end.

Definition ustep (s : st) (j : nat) : st * Z :=
  match nth_error (users s) j with
  | None => (s, 0)
  | Some u =>
      match upcf u with
      | UWait0 => (s, 0)
      | UWait1 => (set_user s j (set_upc u (match ucp u with
                                            | CpNone => first_action (ukd u)
                                            | CpCtor | CpAssign => UInc
                                            | CpMove | CpSelf => UAsg
                                            end)), 9)
      | UAsg => (set_user s j (set_upc u (first_action (ukd u))), 54)
      | UInc => (set_user (add_ref s) j (set_upc u UDecO), 54)
      | UDecO => (set_user (drop_ref s) j (set_upc u (first_action (ukd u))), 50)
      | UReady =>
          (let s1 := touch s in
           match ukd u with
           | UKAwait _ =>
               match slot s1 with
               | SReady => finish_user s1 j
               | _ => set_user s1 j (set_upc u (USub false None))
               end
           | UKPoll =>
               set_user s1 j (mkU (ucp u) (ukd u) UDec (uflag u)
                                  (Some (match slot s1 with SReady => payload s1 | _ => ONotReady end)) (S (uruns u)))
           | UKDrop => set_user s1 j (set_upc u UDec)
           end, 5)
      | USub r e =>
          (let s1 := touch s in
           match slot s1 with
           | SReady => finish_user s1 j
           | SChain l =>
               if onode_eqb (head l) e then
                 set_user (set_slot s1 (SChain (NU j :: l))) j
                          (set_upc u (match ukd u with UKAwait WBlock => UFlag | _ => UParked end))
               else set_user s1 j (set_upc u (USub true (head l)))
           end, if r then 7 else 6)
      | UFlag => (finish_user s j, 8)
      | UDec => (set_user (drop_ref s) j (set_upc u UDone), 50)
      | UParked => (s, 0)
      | UDone => (s, 0)
      end
  end.

(* one step of thread i *)
Definition tstep (s : st) (i : nat) : st * Z :=
  match i with O => cstep s | S O => rstep s | S (S j) => ustep s j end.

Fixpoint enabled_list (s : st) (n : nat) (from : nat) : list nat :=
  match n with
  | O => []
  | S m => (if enabled s from then [from] else []) ++ enabled_list s m (S from)
  end.
Definition all_enabled (s : st) : list nat := enabled_list s (2 + length (users s)) 0.

(* run a schedule: choice k picks the (k mod |enabled|)-th enabled thread; an exhausted schedule continues with 0 *)
Fixpoint run_sched (fuel : nat) (s : st) (sched : list Z) (tr : list (nat * Z)) : st * list (nat * Z) :=
  match fuel with
  | O => (s, tr)
  | S f =>
      match all_enabled s with
      | [] => (s, tr)
      | en =>
          let k := match sched with [] => 0 | x :: _ => Z.abs x end in
          let i := nth (Z.to_nat (k mod zlen en)) en 0%nat in
          let '(s1, p) := tstep s i in
          run_sched f s1 (tl sched) (tr ++ [(i, p)])
      end
  end.

(* ---------- wire ---------- *)
(* [0; mode; v] construction mode (first valid one wins, default MFn); [1; kind; d] resolver (first valid one wins,
   default value 0); [2; cp; kind] user thread; [9; ...] schedule *)
Definition decode_mode (l : list Z) : list cmode :=
  match l with
  | [0; 0; _] => [MFn] | [0; 1; _] => [MFut] | [0; 2; _] => [MLate] | [0; 3; _] => [MLate2] | [0; 4; v] => [MPre v]
  | [0; 5; _] => [MCoro] | [0; 6; _] => [MLate3]
  | [0; 7; _] => [MFut]          (* shared_future<T> from a function returning future<T&>, resolved through promise<T&>:
                                    same code path and points as MFut; the state then refers to an object it does not own *)
  | _ => []
  end.
Definition decode_res (l : list Z) : list rkind :=
  match l with
  | [1; 0; v] => [KVal v] | [1; 1; e] => [KExc e] | [1; 2; _] => [KDrop]
  | _ => []
  end.
Definition decode_cp (c : Z) : option cpk :=
  match c with 0 => Some CpNone | 1 => Some CpCtor | 2 => Some CpAssign | 3 => Some CpMove | 4 => Some CpSelf | _ => None end.
Definition decode_uk (k : Z) : option ukind :=
  match k with
  | 0 => Some UKDrop | 1 => Some UKPoll | 2 => Some (UKAwait WCoro) | 3 => Some (UKAwait WBlock)
  | 4 => Some (UKAwait WCallback)
  | 5 => Some (UKAwait WBlock)     (* join(): same code path as wait() = sync() + value() (shared_future.h:177-179) *)
  | _ => None
  end.
Definition decode_user (l : list Z) : list uthr :=
  match l with
  | [2; c; k] =>
      match decode_cp c, decode_uk k with
      | Some cp, Some uk => [mkU cp uk UWait0 false None 0]
      | _, _ => []
      end
  | _ => []
  end.
Definition decode_sched (l : list Z) : list Z := match l with 9 :: r => r | _ => [] end.

Definition mode_of (ops : list (list Z)) : cmode :=
  match flat_map decode_mode ops with m :: _ => m | [] => MFn end.
Definition res_of (ops : list (list Z)) : rkind :=
  match flat_map decode_res ops with k :: _ => k | [] => KVal 0 end.

Definition init_cpc (m : cmode) (us : list uthr) : cpc :=
  match m with
  | MFn | MFut | MCoro => CClaim
  | MLate | MLate2 => CSet
  | MLate3 => next_early us
  | MPre _ => next_give us m
  end.

(* state when the controlled phase begins: the creator stands at its first point *)
Definition init (ops : list (list Z)) : st :=
  let m := mode_of ops in
  let us := flat_map decode_user ops in
  mkSt m (res_of ops) (init_cpc m us)
       (match m with MPre _ => RDone false | _ => RXWait end)
       (match m with MPre _ => SReady | _ => SChain [] end)
       (match m with MPre v => OVal v | _ => ONone end)
       (own_handles m) false 0 (match m with MPre _ => 1%nat | _ => 0%nat end) 0 0 false [] [] us.

Definition okind (isvoid : bool) (o : option outcome) : list Z :=
  match o with
  | None => [9; 0]
  | Some ONone => [0; 0] | Some (OVal v) => [1; if isvoid then 0 else v] | Some (OExc e) => [2; e] | Some ONotReady => [7; 0]
  end.

Definition user_obs (isvoid : bool) (i : nat) (u : uthr) : list Z :=
  Z.of_nat i :: 2 :: (match upcf u with UDone => 1 | _ => 0 end) :: okind isvoid (useen u) ++ [Z.of_nat (uruns u)].
Fixpoint user_obs_all (isvoid : bool) (l : list uthr) (i : nat) : list (list Z) :=
  match l with [] => [] | u :: r => user_obs isvoid i u :: user_obs_all isvoid r (S i) end.
Definition thr_obs_all (isvoid : bool) (s : st) : list (list Z) :=
  [0; 3; match cpcf s with CDone => 1 | _ => 0 end]
  :: [1; 1; match rpcf s with RDone r => b2z r | _ => -1 end]
  :: user_obs_all isvoid (users s) 2.

Definition unfinished (u : uthr) : bool :=
  match upcf u with UDone | UParked => false | _ => true end.
Fixpoint stuck_users (l : list uthr) (i : nat) : list Z :=
  match l with
  | [] => []
  | u :: r => (if unfinished u then [Z.of_nat i] else []) ++ stuck_users r (S i)
  end.
Definition stuck_list (s : st) : list Z :=
  (match cpcf s with CDone => [] | _ => [0] end) ++ (match rpcf s with RDone _ => [] | _ => [1] end)
  ++ stuck_users (users s) 2.

(* [10; live payload objects; leaked states] *)
Definition final_obs (s : st) : list Z :=
  [10; Z.of_nat (pctor s) - Z.of_nat (pdtor s); 0].

Definition final_state (ops : list (list Z)) : st * list (nat * Z) :=
  let sched := flat_map decode_sched ops in
  run_sched (length sched + 2000) (init ops) sched [].

Definition sf_run (isvoid : bool) (ops : list (list Z)) : list (list Z) :=
  let '(s, tr) := final_state ops in
  map (fun p => [Z.of_nat (fst p); snd p]) tr
  ++ (match stuck_list s with [] => [] | l => [777 :: l] end)
  ++ thr_obs_all isvoid s ++ [final_obs s].

(* the old init_if_needed (`if (_ptr)`, before commit a23ff80): a default-constructed handle stays null and
   get_promise() dereferences it before any point is reached (see Regress_C17.v) *)
Definition sf_run_old (isvoid : bool) (ops : list (list Z)) : list (list Z) :=
  if is_late (mode_of ops) then [[-999]] else sf_run isvoid ops.

(* ---------- decidable form of C17 on an observed result block ---------- *)
Definition list_eqb (a b : list Z) : bool :=
  Nat.eqb (length a) (length b) && forallb (fun p => Z.eqb (fst p) (snd p)) (combine a b).
Definition is_trace_line (l : list Z) : bool := match l with [_; _] => true | _ => false end.

Definition expected (isvoid : bool) (ops : list (list Z)) : list Z :=
  match mode_of ops with
  | MPre v => okind isvoid (Some (OVal v))
  | _ => okind isvoid (Some (payload_of (res_of ops)))
  end.

(* the result line of a user thread must be: finished, resumed / read exactly once, same result *)
Definition user_ok (exp : list Z) (u : uthr) (l : list Z) : bool :=
  match ukd u, l with
  | UKDrop, [_; 2; 1; 9; 0; 0] => true
  | UKPoll, [_; 2; 1; k; d; 1] => list_eqb [k; d] exp || list_eqb [k; d] [7; 0]
  | UKAwait _, [_; 2; 1; k; d; 1] => list_eqb [k; d] exp
  | _, _ => false
  end.

Fixpoint lines_ok (exp : list Z) (decl : list uthr) (i : nat) (res : list (list Z)) : bool :=
  match decl, res with
  | [], [[10; 0; 0]] => true                    (* every payload object destroyed, nothing leaked *)
  | u :: d, l :: r =>
      (match l with x :: _ => Z.eqb x (Z.of_nat i) | [] => false end) && user_ok exp u l && lines_ok exp d (S i) r
  | _, _ => false
  end.

Definition sf_oracle (isvoid : bool) (ops obs : list (list Z)) : bool :=
  let s0 := init ops in
  let res := filter (fun l => negb (is_trace_line l)) obs in
  match res with
  | [0; 3; 1] :: [1; 1; r] :: rest =>
      Z.eqb r (match mode s0 with MPre _ => 0 | _ => 1 end) && lines_ok (expected isvoid ops) (users s0) 2 rest
  | _ => false
  end.

(* ---------- free-running stress engine (harness/stress_shared.cpp) ----------
   op [7; rounds; mode; rkind; dropkind]: in every round two threads drop the last two handles of a pending state at the same
   time and the state is resolved afterwards.  One round is the model configuration "creator, resolver, two droppers"; by
   c17_freed_exactly_once the result of a round does not depend on the schedule, so the prediction for any number of rounds is
   the result of one modelled round: [7; every thread finished and the state was freed exactly once; live payloads; leaks]. *)
Definition stress_valid (l : list Z) : bool :=
  match l with
  | [7; n; m; k; d] => (0 <=? n) && (0 <=? m) && (m <=? 3) && (0 <=? k) && (k <=? 2) && (0 <=? d) && (d <=? 2)
  | _ => false
  end.
Definition stress_ops (l : list Z) : list (list Z) :=
  match l with
  | [7; n; m; k; d] => [[0; m; 0]; [1; k; 1]; [2; 0; 0]; [2; 0; 0]]
  | _ => []
  end.
Definition stress_round (l : list Z) : list (list Z) :=
  if stress_valid l then
    let s := fst (final_state (stress_ops l)) in
    [[7; b2z (match stuck_list s with [] => Nat.eqb (freed s) 1 | _ => false end);
      Z.of_nat (pctor s) - Z.of_nat (pdtor s); 0]]
  else [].
Definition sf_stress_run (ops : list (list Z)) : list (list Z) := flat_map stress_round ops.
Definition sf_stress_oracle (ops obs : list (list Z)) : bool :=
  Nat.eqb (length obs) (length (filter stress_valid ops)) && forallb (fun l => list_eqb l [7; 1; 0; 0]) obs.
