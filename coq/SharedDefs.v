(* SharedDefs.v — interleaving model of one shared_future state (shared_future.h over future.h / awaiter.h):
   a creator thread that constructs the shared state (five construction modes, among them late initialisation
   through get_promise()), hands copies to user threads and drops its own handles; one resolver thread that owns
   the promise; any number of user threads that copy, poll, await (coroutine / blocking / callback) and drop handles.
   std::shared_ptr's control block is trusted and modelled as one atomic counter `rc` (handles + the tracer's
   self-reference).  One model step = the code between two COCLS_VERIF_POINT hooks.  Model only, no proofs.

   Code transcribed (line numbers of /repo/src/cocls):
     shared_future.h:87-93   ctor from fn(promise)         -> mode MFn   : make_shared(fn) ; charge
     shared_future.h:104-110 ctor from fn returning future -> mode MFut  : make_shared() ; result_of(fn) ; if pending() charge
     shared_future.h:130-145 init_if_needed / get_promise  -> modes MLate, MLate2 (through a copy of an initialised handle)
     shared_future.h:120-122 set_value                     -> mode MPre  (born ready: not pending, no charge)
     shared_future.h:211-220 resolve_cb::charge            -> CSet (216) ; CSub (217, awaiter.h:121-136) ; CClr (218)
     shared_future.h:212-215 tracer callback               -> RClr (213), reached from the resolver's walk
     future.h:641-648 promise::set_value, 557-559 resolve, awaiter.h:96-112 resume_chain_set_ready / resume_chain_lk
     awaiter.h:182-199,317-335 co_awaiter await_ready / await_suspend / sync                                  *)
From Cocls Require Import Base.
Local Open Scope Z_scope.

Inductive outcome := ONone | OVal (v : Z) | OExc (e : Z) | ONotReady.
(* chain node: the resolve tracer (lives INSIDE the shared state) or the awaiter of user thread w (lives in the user's memory) *)
Inductive node := NT | NU (w : nat).
Inductive slotv := SChain (l : list node) | SReady.

Inductive cmode := MFn | MFut | MLate | MLate2 | MPre (v : Z).
Inductive cpc :=
| CClaim                        (* at "claim": the promise handed to the init function is moved to the resolver's mailbox *)
| CDtor                         (* at "dtor": the moved-from promise dies; then make_shared returns (MFut: pending() is read) *)
| CSet                          (* at "sf_set": charge, before `_ptr = ptr` (shared_future.h:216) *)
| CSub (retry : bool) (exp : option node)   (* at "sub"/"sub_retry": CAS of the tracer into the chain (217) *)
| CClr                          (* at "sf_dec": subscription refused, `_ptr = nullptr` (218) *)
| CGive                         (* at "sf_inc": copy a handle for the next user thread *)
| CDrop (k : nat)               (* at "sf_dec": drop one of the creator's k own handles *)
| CDone.

Inductive rkind := KVal (v : Z) | KExc (e : Z) | KDrop.
Inductive rpc :=
| RXWait                        (* waits for the promise *)
| RClaim                        (* at "claim" *)
| RResolve                      (* at "resolve": exchange of the slot with the ready marker *)
| RWalk                         (* at "walk": next node of the detached chain *)
| RClr                          (* at "sf_clr": inside the tracer callback, before `_ptr = nullptr` (213) *)
| RDone (res : bool).

Inductive wkind := WCoro | WBlock | WCallback.
Inductive ukind := UKDrop | UKPoll | UKAwait (w : wkind).
Inductive upc :=
| UWait0                        (* no handle yet *)
| UWait1                        (* handle received (blocked thread becomes enabled) *)
| UInc                          (* at "sf_inc": copy own handle *)
| UDecO                         (* at "sf_dec": drop the original, keep the copy *)
| UReady                        (* at "ready": ready() / await_ready *)
| USub (retry : bool) (exp : option node)   (* at "sub"/"sub_retry" *)
| UParked                       (* subscribed coroutine / callback: the thread has returned, frame / context keeps the handle *)
| UFlag                         (* subscribed blocking thread *)
| UDec                          (* at "sf_dec": drop the handle *)
| UDone.

Inductive thr :=
| TC (m : cmode) (pc : cpc)
| TR (k : rkind) (pc : rpc)
| TU (cp : bool) (k : ukind) (pc : upc) (flag : bool) (seen : option outcome) (runs : nat).

Record st := mkSt {
  slot : slotv;            (* future_common::_awaiter *)
  payload : outcome;       (* future::_state + union *)
  rc : nat;                (* shared_ptr use count *)
  selfref : bool;          (* resolve_tracer._ptr != nullptr *)
  freed : nat;             (* how many times the state was destroyed *)
  pctor : nat;             (* payload objects constructed in the state *)
  pdtor : nat;             (* payload objects destroyed *)
  uaf : nat;               (* ghost: accesses to the state's memory after it was freed (or counter underflow) *)
  pavail : bool;           (* promise available to the resolver *)
  walk : list node;        (* resolver-private: rest of the detached chain *)
  acc : list nat;          (* resolver-private: coroutines collected in the suspend point *)
  thrs : list thr
}.

Definition set_thrs (s : st) (l : list thr) : st :=
  mkSt (slot s) (payload s) (rc s) (selfref s) (freed s) (pctor s) (pdtor s) (uaf s) (pavail s) (walk s) (acc s) l.
Definition set_thr (s : st) (i : nat) (t : thr) : st := set_thrs s (set_nth (thrs s) i t).
Definition set_slot (s : st) (x : slotv) : st :=
  mkSt x (payload s) (rc s) (selfref s) (freed s) (pctor s) (pdtor s) (uaf s) (pavail s) (walk s) (acc s) (thrs s).
Definition set_payload (s : st) (x : outcome) (c : nat) : st :=
  mkSt (slot s) x (rc s) (selfref s) (freed s) c (pdtor s) (uaf s) (pavail s) (walk s) (acc s) (thrs s).
Definition set_rc (s : st) (x : nat) : st :=
  mkSt (slot s) (payload s) x (selfref s) (freed s) (pctor s) (pdtor s) (uaf s) (pavail s) (walk s) (acc s) (thrs s).
Definition set_selfref (s : st) (x : bool) : st :=
  mkSt (slot s) (payload s) (rc s) x (freed s) (pctor s) (pdtor s) (uaf s) (pavail s) (walk s) (acc s) (thrs s).
Definition set_pavail (s : st) (x : bool) : st :=
  mkSt (slot s) (payload s) (rc s) (selfref s) (freed s) (pctor s) (pdtor s) (uaf s) x (walk s) (acc s) (thrs s).
Definition set_walk (s : st) (x : list node) : st :=
  mkSt (slot s) (payload s) (rc s) (selfref s) (freed s) (pctor s) (pdtor s) (uaf s) (pavail s) x (acc s) (thrs s).
Definition set_acc (s : st) (x : list nat) : st :=
  mkSt (slot s) (payload s) (rc s) (selfref s) (freed s) (pctor s) (pdtor s) (uaf s) (pavail s) (walk s) x (thrs s).
Definition bump_uaf (s : st) : st :=
  mkSt (slot s) (payload s) (rc s) (selfref s) (freed s) (pctor s) (pdtor s) (S (uaf s)) (pavail s) (walk s) (acc s) (thrs s).
(* the state's destructor: ~future_internal destroys the tracer and the payload (future.h:322-328) *)
Definition free_state (s : st) : st :=
  mkSt (slot s) (payload s) 0%nat (selfref s) (S (freed s)) (pctor s) (pdtor s + pctor s)%nat (uaf s) (pavail s) (walk s) (acc s) (thrs s).

(* any read or write of memory that belongs to the shared state (cell, payload, tracer, control block) *)
Definition touch (s : st) : st := match freed s with O => s | _ => bump_uaf s end.

(* shared_ptr release: the decrement that reaches zero destroys the state *)
Definition drop_ref (s : st) : st :=
  let s1 := touch s in
  match rc s1 with
  | O => bump_uaf s1
  | S O => free_state s1
  | S n => set_rc s1 n
  end.
Definition add_ref (s : st) : st := let s1 := touch s in set_rc s1 (S (rc s1)).

Definition head (l : list node) : option node := match l with [] => None | x :: _ => Some x end.
Definition node_eqb (a b : node) : bool :=
  match a, b with NT, NT => true | NU x, NU y => Nat.eqb x y | _, _ => false end.
Definition onode_eqb (a b : option node) : bool :=
  match a, b with None, None => true | Some x, Some y => node_eqb x y | _, _ => false end.

Definition is_wait0 (t : thr) : bool := match t with TU _ _ UWait0 _ _ _ => true | _ => false end.
Fixpoint find_wait0 (l : list thr) (n : nat) : option nat :=
  match l with
  | [] => None
  | t :: r => if is_wait0 t then Some n else find_wait0 r (S n)
  end.
Definition own_handles (m : cmode) : nat := match m with MLate2 => 2%nat | _ => 1%nat end.
Definition is_late (m : cmode) : bool := match m with MLate | MLate2 => true | _ => false end.
Definition next_give (l : list thr) (m : cmode) : cpc :=
  match find_wait0 l 0 with Some _ => CGive | None => CDrop (own_handles m) end.

Definition enabled (s : st) (i : nat) : bool :=
  match nth_error (thrs s) i with
  | Some (TC _ CDone) => false
  | Some (TC _ _) => true
  | Some (TR _ (RDone _)) => false
  | Some (TR _ RXWait) => pavail s
  | Some (TR _ _) => true
  | Some (TU _ _ UWait0 _ _ _) => false
  | Some (TU _ _ UParked _ _ _) => false
  | Some (TU _ _ UDone _ _ _) => false
  | Some (TU _ _ UFlag f _ _) => f
  | Some (TU _ _ _ _ _ _) => true
  | None => false
  end.

Definition payload_of (k : rkind) : outcome :=
  match k with KVal v => OVal v | KExc e => OExc e | KDrop => ONone end.
Definition has_payload (k : rkind) : nat := match k with KDrop => 0%nat | _ => 1%nat end.

(* an awaiting user w picks up the result through its handle and lets the handle go (coroutine frame /
   callback context / blocking caller): value read, then shared_ptr release *)
Definition finish_user (s : st) (w : nat) : st :=
  match nth_error (thrs s) w with
  | Some (TU cp k pc f seen runs) =>
      let s1 := touch s in
      drop_ref (set_thr s1 w (TU cp k UDone f (Some (payload s1)) (S runs)))
  | _ => s
  end.

(* awaiter.h:109 `ret << y->resume()` for a user node *)
Definition release_node (s : st) (w : nat) : st :=
  match nth_error (thrs s) w with
  | Some (TU cp (UKAwait WCoro) pc f seen runs) => set_acc s (acc s ++ [w])
  | Some (TU cp (UKAwait WCallback) pc f seen runs) => finish_user s w
  | Some (TU cp k pc f seen runs) => set_thr s w (TU cp k pc true seen runs)   (* sync_awaiter: set the flag *)
  | _ => s
  end.

(* the suspend point returned by resolve() is discarded: collected coroutines run now, in order *)
Fixpoint resume_all (s : st) (l : list nat) : st :=
  match l with
  | [] => s
  | c :: t => resume_all (finish_user s c) t
  end.

Definition finish (s : st) (i : nat) (k : rkind) : st :=
  set_thr (set_acc (resume_all s (acc s)) []) i (TR k (RDone true)).

Definition first_action (k : ukind) : upc := match k with UKDrop => UDec | _ => UReady end.

(* the creator leaves charge(): late modes now return the promise; then handles are given out *)
Definition after_charge (s : st) (i : nat) (m : cmode) : st :=
  set_thr (set_pavail s (pavail s || is_late m)) i (TC m (next_give (thrs s) m)).

(* one step of thread i; returns the new state and the code of the point the thread was pending at *)
Definition tstep (s : st) (i : nat) : st * Z :=
  match nth_error (thrs s) i with
  (* ---- creator ---- *)
  | Some (TC m CClaim) => (set_thr (set_pavail s true) i (TC m CDtor), 1)
  | Some (TC m CDtor) =>
      (match m with
       | MFut => let s1 := touch s in    (* shared_future.h:109 `if (_ptr->pending())` *)
                 match slot s1 with
                 | SReady => set_thr s1 i (TC m (next_give (thrs s1) m))
                 | _ => set_thr s1 i (TC m CSet)
                 end
       | _ => set_thr s i (TC m CSet)
       end, 2)
  | Some (TC m CSet) =>
      (set_thr (set_selfref (add_ref s) true) i (TC m (CSub false None)), 52)
  | Some (TC m (CSub r e)) =>
      (let s1 := touch s in
       match slot s1 with
       | SReady => set_thr s1 i (TC m CClr)
       | SChain l =>
           if onode_eqb (head l) e then after_charge (set_slot s1 (SChain (NT :: l))) i m
           else set_thr s1 i (TC m (CSub true (head l)))
       end, if r then 7 else 6)
  | Some (TC m CClr) =>
      (after_charge (drop_ref (set_selfref (touch s) false)) i m, 50)
  | Some (TC m CGive) =>
      (match find_wait0 (thrs s) 0 with
       | Some j =>
           match nth_error (thrs s) j with
           | Some (TU cp k _ f seen runs) =>
               let s1 := set_thr (add_ref s) j (TU cp k UWait1 f seen runs) in
               set_thr s1 i (TC m (next_give (thrs s1) m))
           | _ => s
           end
       | None => set_thr s i (TC m (CDrop (own_handles m)))
       end, 54)
  | Some (TC m (CDrop k)) =>
      (set_thr (drop_ref s) i (TC m (match k with S (S n) => CDrop (S n) | _ => CDone end)), 50)
  | Some (TC m CDone) => (s, 0)
  (* ---- resolver ---- *)
  | Some (TR k RXWait) => (set_thr s i (TR k RClaim), 9)
  | Some (TR k RClaim) =>       (* claim(), then future::set constructs the payload in the state *)
      (let s1 := touch s in set_thr (set_payload s1 (payload_of k) (has_payload k)) i (TR k RResolve), 1)
  | Some (TR k RResolve) =>
      (let s1 := touch s in
       let l := match slot s1 with SChain l => l | SReady => [] end in
       let s2 := set_walk (set_slot s1 SReady) l in
       match l with [] => finish s2 i k | _ => set_thr s2 i (TR k RWalk) end, 3)
  | Some (TR k RWalk) =>
      (match walk s with
       | [] => finish s i k
       | NT :: t =>              (* reads and clears tracer._next (memory of the state), calls the tracer callback *)
           set_thr (set_walk (touch s) t) i (TR k RClr)
       | NU w :: t =>
           let s1 := release_node (set_walk s t) w in
           match t with [] => finish s1 i k | _ => s1 end
       end, 4)
  | Some (TR k RClr) =>
      (let s1 := drop_ref (set_selfref (touch s) false) in
       match walk s1 with [] => finish s1 i k | _ => set_thr s1 i (TR k RWalk) end, 53)
  | Some (TR k (RDone _)) => (s, 0)
  (* ---- users ---- *)
  | Some (TU cp k UWait0 f seen runs) => (s, 0)
  | Some (TU cp k UWait1 f seen runs) =>
      (set_thr s i (TU cp k (if cp then UInc else first_action k) f seen runs), 9)
  | Some (TU cp k UInc f seen runs) => (set_thr (add_ref s) i (TU cp k UDecO f seen runs), 54)
  | Some (TU cp k UDecO f seen runs) => (set_thr (drop_ref s) i (TU cp k (first_action k) f seen runs), 50)
  | Some (TU cp k UReady f seen runs) =>
      (let s1 := touch s in
       match k with
       | UKAwait _ =>
           match slot s1 with
           | SReady => finish_user s1 i
           | _ => set_thr s1 i (TU cp k (USub false None) f seen runs)
           end
       | UKPoll =>
           set_thr s1 i (TU cp k UDec f (Some (match slot s1 with SReady => payload s1 | _ => ONotReady end)) (S runs))
       | UKDrop => set_thr s1 i (TU cp k UDec f seen runs)
       end, 5)
  | Some (TU cp k (USub r e) f seen runs) =>
      (let s1 := touch s in
       match slot s1 with
       | SReady => finish_user s1 i
       | SChain l =>
           if onode_eqb (head l) e then
             set_thr (set_slot s1 (SChain (NU i :: l))) i
                     (TU cp k (match k with UKAwait WBlock => UFlag | _ => UParked end) f seen runs)
           else set_thr s1 i (TU cp k (USub true (head l)) f seen runs)
       end, if r then 7 else 6)
  | Some (TU cp k UFlag f seen runs) => (finish_user s i, 8)
  | Some (TU cp k UDec f seen runs) => (set_thr (drop_ref s) i (TU cp k UDone f seen runs), 50)
  | Some (TU cp k UParked f seen runs) => (s, 0)
  | Some (TU cp k UDone f seen runs) => (s, 0)
  | None => (s, 0)
  end.

Fixpoint enabled_list (s : st) (n : nat) (from : nat) : list nat :=
  match n with
  | O => []
  | S m => (if enabled s from then [from] else []) ++ enabled_list s m (S from)
  end.
Definition all_enabled (s : st) : list nat := enabled_list s (length (thrs s)) 0.

(* run a schedule: choice k picks the (k mod |enabled|)-th enabled thread; an exhausted schedule continues with 0 *)
Fixpoint run_sched (fuel : nat) (s : st) (sched : list Z) (tr : list (nat * Z)) : st * list (nat * Z) :=
  match fuel with
  | O => (s, tr)
  | S f =>
      match all_enabled s with
      | [] => (s, tr)
      | en =>
          let k := match sched with [] => 0 | x :: _ => Z.abs x end in
          let i := nth (Z.to_nat (k mod zlen en)) en 0%nat in
          let '(s1, p) := tstep s i in
          run_sched f s1 (tl sched) (tr ++ [(i, p)])
      end
  end.

(* ---------- wire ---------- *)
(* [0; mode; v] construction mode (first valid one wins, default MFn); [1; kind; d] resolver (first valid one wins,
   default value 0); [2; cp; kind] user thread; [9; ...] schedule *)
Definition decode_mode (l : list Z) : list cmode :=
  match l with
  | [0; 0; _] => [MFn] | [0; 1; _] => [MFut] | [0; 2; _] => [MLate] | [0; 3; _] => [MLate2] | [0; 4; v] => [MPre v]
  | _ => []
  end.
Definition decode_res (l : list Z) : list rkind :=
  match l with
  | [1; 0; v] => [KVal v] | [1; 1; e] => [KExc e] | [1; 2; _] => [KDrop]
  | _ => []
  end.
Definition decode_cp (c : Z) : option bool := match c with 0 => Some false | 1 => Some true | _ => None end.
Definition decode_uk (k : Z) : option ukind :=
  match k with
  | 0 => Some UKDrop | 1 => Some UKPoll | 2 => Some (UKAwait WCoro) | 3 => Some (UKAwait WBlock)
  | 4 => Some (UKAwait WCallback) | _ => None
  end.
Definition decode_user (l : list Z) : list thr :=
  match l with
  | [2; c; k] =>
      match decode_cp c, decode_uk k with
      | Some cp, Some uk => [TU cp uk UWait0 false None 0]
      | _, _ => []
      end
  | _ => []
  end.
Definition decode_sched (l : list Z) : list Z := match l with 9 :: r => r | _ => [] end.

Definition mode_of (ops : list (list Z)) : cmode :=
  match flat_map decode_mode ops with m :: _ => m | [] => MFn end.
Definition res_of (ops : list (list Z)) : rkind :=
  match flat_map decode_res ops with k :: _ => k | [] => KVal 0 end.

Definition init_cpc (m : cmode) (us : list thr) : cpc :=
  match m with
  | MFn | MFut => CClaim
  | MLate | MLate2 => CSet
  | MPre _ => next_give (TC m CDone :: TR KDrop (RDone false) :: us) m
  end.

(* state when the controlled phase begins: the creator stands at its first point.
   fixed = false models init_if_needed as it was before commit a23ff80 (`if (_ptr)`): a default-constructed
   handle stays null and get_promise() dereferences it — there is no state at all (see Regress_C17.v). *)
Definition init (ops : list (list Z)) : st :=
  let m := mode_of ops in
  let us := flat_map decode_user ops in
  let r := match m with MPre _ => TR (res_of ops) (RDone false) | _ => TR (res_of ops) RXWait end in
  mkSt (match m with MPre _ => SReady | _ => SChain [] end)
       (match m with MPre v => OVal v | _ => ONone end)
       (own_handles m) false 0 (match m with MPre _ => 1%nat | _ => 0%nat end) 0 0 false [] []
       (TC m (init_cpc m us) :: r :: us).

Definition okind (o : option outcome) : list Z :=
  match o with
  | None => [9; 0]
  | Some ONone => [0; 0] | Some (OVal v) => [1; v] | Some (OExc e) => [2; e] | Some ONotReady => [7; 0]
  end.

Definition thr_obs (i : nat) (t : thr) : list Z :=
  match t with
  | TC _ CDone => [Z.of_nat i; 3; 1]
  | TC _ _ => [Z.of_nat i; 3; 0]
  | TR _ (RDone r) => [Z.of_nat i; 1; b2z r]
  | TR _ _ => [Z.of_nat i; 1; -1]
  | TU _ _ UDone _ seen runs => Z.of_nat i :: 2 :: 1 :: okind seen ++ [Z.of_nat runs]
  | TU _ _ _ _ seen runs => Z.of_nat i :: 2 :: 0 :: okind seen ++ [Z.of_nat runs]
  end.
Fixpoint thr_obs_all (l : list thr) (i : nat) : list (list Z) :=
  match l with [] => [] | t :: r => thr_obs i t :: thr_obs_all r (S i) end.

Definition unfinished (t : thr) : bool :=
  match t with
  | TC _ CDone => false | TC _ _ => true
  | TR _ (RDone _) => false | TR _ _ => true
  | TU _ _ UDone _ _ _ => false | TU _ _ UParked _ _ _ => false | TU _ _ _ _ _ _ => true
  end.
Fixpoint stuck_list (l : list thr) (i : nat) : list Z :=
  match l with
  | [] => []
  | t :: r => (if unfinished t then [Z.of_nat i] else []) ++ stuck_list r (S i)
  end.

(* [10; live payload objects; leaked states] *)
Definition final_obs (s : st) : list Z :=
  [10; Z.of_nat (pctor s) - Z.of_nat (pdtor s); 0].

Definition final_state (ops : list (list Z)) : st * list (nat * Z) :=
  let sched := flat_map decode_sched ops in
  run_sched (length sched + 2000) (init ops) sched [].

Definition sf_run (ops : list (list Z)) : list (list Z) :=
  let '(s, tr) := final_state ops in
  map (fun p => [Z.of_nat (fst p); snd p]) tr
  ++ (match stuck_list (thrs s) 0 with [] => [] | l => [777 :: l] end)
  ++ thr_obs_all (thrs s) 0 ++ [final_obs s].

(* the old init_if_needed (`if (_ptr)`): late initialisation dereferences a null pointer before any point is reached *)
Definition sf_run_old (ops : list (list Z)) : list (list Z) :=
  if is_late (mode_of ops) then [[-999]] else sf_run ops.

(* ---------- decidable form of C17 on an observed result block ---------- *)
Definition list_eqb (a b : list Z) : bool :=
  Nat.eqb (length a) (length b) && forallb (fun p => Z.eqb (fst p) (snd p)) (combine a b).
Definition is_trace_line (l : list Z) : bool := match l with [_; _] => true | _ => false end.

Definition expected (ops : list (list Z)) : list Z :=
  match mode_of ops with
  | MPre v => [1; v]
  | _ => okind (Some (payload_of (res_of ops)))
  end.

(* the result line of user thread number i (tid) must be: finished, resumed / read exactly once, same result *)
Definition user_ok (exp : list Z) (t : thr) (l : list Z) : bool :=
  match t, l with
  | TU _ UKDrop _ _ _ _, [_; 2; 1; 9; 0; 0] => true
  | TU _ UKPoll _ _ _ _, [_; 2; 1; k; d; 1] => list_eqb [k; d] exp || list_eqb [k; d] [7; 0]
  | TU _ (UKAwait _) _ _ _ _, [_; 2; 1; k; d; 1] => list_eqb [k; d] exp
  | TC _ _, [_; 3; 1] => true
  | TR _ RXWait, [_; 1; 1] => true
  | TR _ (RDone _), [_; 1; 0] => true
  | _, _ => false
  end.

Fixpoint lines_ok (exp : list Z) (decl : list thr) (i : nat) (res : list (list Z)) : bool :=
  match decl, res with
  | [], [[10; 0; 0]] => true                    (* every payload object destroyed, nothing leaked *)
  | t :: d, l :: r =>
      (match l with x :: _ => Z.eqb x (Z.of_nat i) | [] => false end) && user_ok exp t l && lines_ok exp d (S i) r
  | _, _ => false
  end.

Definition sf_oracle (ops obs : list (list Z)) : bool :=
  let decl := thrs (init ops) in
  let res := filter (fun l => negb (is_trace_line l)) obs in
  lines_ok (expected ops) decl 0 res.
