(* Extraction of the executable models.  ExtrOcamlBasic only: bool, option, unit, prod, list,
   sumbool, sumor map to OCaml's own types; nat / positive / N / Z stay Coq datatypes.
   No Extract Constant directive is used.  Run with cwd = coq/extract (writes model.ml/.mli). *)
Require Extraction.
Require Import ExtrOcamlBasic.
From Cocls Require Import Base SuspendPointDefs.
Extraction Language OCaml.
Extraction "model.ml" sp_run sp_oracle.
