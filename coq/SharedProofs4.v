(* SharedProofs4.v — the decidable property (the oracle that is run on the implementation's traces) accepts the model's
   own run whenever the runner stops in a state where nothing is enabled *)
From Cocls Require Import Base BaseProofs SharedDefs SharedProofs SharedProofs2 SharedProofs3.
Local Open Scope nat_scope.

(* ---------- declared kinds never change ---------- *)
Definition kinds (s : st) : list ukind := map ukd (users s).

Lemma map_ukd_set_nth l : forall j u u', nth_error l j = Some u -> ukd u' = ukd u ->
  map ukd (set_nth l j u') = map ukd l.
Proof.
  induction l as [|x l IH]; intros [|j] u u' H K; cbn [nth_error set_nth map] in *; try discriminate.
  - inversion H; subst. rewrite K. reflexivity.
  - f_equal. eapply IH; eassumption.
Qed.

(* what no step changes: mode, resolver kind, declared kinds; plus: the resolver's pc unless it is the resolver's step *)
Definition same_decl (s s' : st) : Prop := mode s' = mode s /\ rk s' = rk s /\ kinds s' = kinds s.

Lemma sd_refl s : same_decl s s. Proof. repeat split. Qed.
Lemma sd_trans a b c : same_decl a b -> same_decl b c -> same_decl a c.
Proof. unfold same_decl. intros (A1 & A2 & A3) (B1 & B2 & B3). repeat split; congruence. Qed.

Lemma sd_set_user s s0 j u u' : mode s0 = mode s -> rk s0 = rk s -> users s0 = users s ->
  nth_error (users s) j = Some u -> ukd u' = ukd u -> same_decl s (set_user s0 j u').
Proof.
  intros M K U H KD. unfold same_decl, kinds, set_user. simp_st. rewrite U. repeat split; auto.
  eapply map_ukd_set_nth; eassumption.
Qed.

Lemma sd_finish_user s w : same_decl s (finish_user s w) /\ rpcf (finish_user s w) = rpcf s /\ cpcf (finish_user s w) = cpcf s.
Proof.
  unfold finish_user. destruct (nth_error (users s) w) as [u|] eqn:H; [|repeat split].
  frames. rew_hyps. split; [|split; simp_st; rew_hyps; auto].
  eapply sd_trans with (b := set_user s w {| ucp := ucp u; ukd := ukd u; upcf := UDone; uflag := uflag u; useen := Some (payload d0); uruns := S (uruns u) |}).
  - apply (sd_set_user s s w u); auto.
  - unfold same_decl, kinds. simp_st. rew_hyps. simp_st. auto.
Qed.

Lemma sd_resume_all l : forall s, same_decl s (resume_all s l).
Proof.
  induction l as [|c t IH]; intros s; cbn [resume_all]; [apply sd_refl|].
  eapply sd_trans; [apply sd_finish_user|apply IH].
Qed.

Lemma sd_finish s : same_decl s (finish s).
Proof.
  unfold finish. pose proof (sd_resume_all (acc s) s) as (A & B & C).
  unfold same_decl, kinds in *. simp_st. auto.
Qed.

Lemma sd_mf s : same_decl s (maybe_finish s).
Proof. unfold maybe_finish. destruct (walk s); [apply sd_finish|apply sd_refl]. Qed.

Lemma sd_release s w : same_decl s (release_node s w).
Proof.
  unfold release_node. destruct (nth_error (users s) w) as [u|] eqn:H; [|apply sd_refl].
  destruct (ukd u) as [| |[| |]] eqn:KD; try apply sd_finish_user;
    try (apply (sd_set_user s s w u); auto; cbn [ukd]; congruence).
  unfold same_decl, kinds. simp_st. auto.
Qed.

Lemma sd_rstep s : same_decl s (fst (rstep s)).
Proof.
  unfold rstep. destruct (rpcf s); cbn [fst]; try apply sd_refl.
  - unfold same_decl, kinds. simp_st. auto.
  - frames. unfold same_decl, kinds. simp_st. rew_hyps. auto.
  - eapply sd_trans; [|apply sd_mf]. frames. unfold same_decl, kinds. simp_st. rew_hyps. auto.
  - destruct (walk s) as [|[|w] t]; [apply sd_mf| |].
    + frames. unfold same_decl, kinds. simp_st. rew_hyps. auto.
    + eapply sd_trans; [|apply sd_mf]. eapply sd_trans; [|apply sd_release]. unfold same_decl, kinds. simp_st. auto.
  - eapply sd_trans; [|apply sd_mf]. frames. unfold same_decl, kinds. simp_st. rew_hyps. simp_st. rew_hyps. auto.
  - unfold same_decl, kinds. simp_st. auto.
  - unfold same_decl, kinds. simp_st. auto.
  - frames. unfold same_decl, kinds. simp_st. rew_hyps. auto.
Qed.

Lemma sd_ustep s j : same_decl s (fst (ustep s j)) /\ rpcf (fst (ustep s j)) = rpcf s.
Proof.
  unfold ustep. destruct (nth_error (users s) j) as [u|] eqn:H; [|split; [apply sd_refl|reflexivity]].
  destruct (upcf u) eqn:PC; cbn [fst]; try (split; [apply sd_refl|reflexivity]);
    try (destruct (sd_finish_user s j) as (A & B & _); split; assumption).
  all: try (frames; split; [apply (sd_set_user s _ j u); simp_st; rew_hyps; auto|simp_st; rew_hyps; auto]; fail).
  - (* UReady *)
    frames. destruct (ukd u) eqn:KD.
    1,2: split; [apply (sd_set_user s _ j u); simp_st; rew_hyps; auto|simp_st; rew_hyps; auto].
    destruct (slot d) eqn:SL.
    + split; [apply (sd_set_user s _ j u); simp_st; rew_hyps; auto|simp_st; rew_hyps; auto].
    + destruct (sd_finish_user d j) as (A & B & _). split; [|congruence].
      eapply sd_trans; [|exact A]. unfold same_decl, kinds. rew_hyps. auto.
  - (* USub *)
    frames. destruct (slot d) as [l|] eqn:SL.
    + destruct (onode_eqb (head l) exp);
        (split; [apply (sd_set_user s _ j u); simp_st; rew_hyps; auto|simp_st; rew_hyps; auto]).
    + destruct (sd_finish_user d j) as (A & B & _). split; [|congruence].
      eapply sd_trans; [|exact A]. unfold same_decl, kinds. rew_hyps. auto.
Qed.

Lemma sd_cstep s : same_decl s (fst (cstep s)) /\ rpcf (fst (cstep s)) = rpcf s.
Proof.
  unfold cstep. destruct (cpcf s); cbn [fst]; try (split; [apply sd_refl|reflexivity]).
  - destruct (mode s); unfold same_decl, kinds; simp_st; auto.
  - destruct (mode s); try (unfold same_decl, kinds; simp_st; auto; fail);
      frames; destruct (slot d); unfold same_decl, kinds; simp_st; rew_hyps; auto.
  - frames. unfold same_decl, kinds; simp_st; rew_hyps; simp_st; rew_hyps; auto.
  - frames. destruct (slot d) as [l|]; [destruct (onode_eqb (head l) exp)|];
      unfold after_charge, same_decl, kinds; simp_st; rew_hyps; auto.
  - frames. unfold after_charge, same_decl, kinds; simp_st; rew_hyps; simp_st; rew_hyps; auto.
  - destruct (give (users s)) as [us|] eqn:G.
    + destruct (give_spec _ _ G) as (j & u & Hj & Hu & ->). frames.
      unfold same_decl, kinds; simp_st; rew_hyps. repeat split; auto.
      eapply map_ukd_set_nth; [exact Hj|reflexivity].
    + unfold same_decl, kinds; simp_st; auto.
  - frames. unfold same_decl, kinds; simp_st; rew_hyps; auto.
  - unfold same_decl, kinds; simp_st; auto.
  - unfold same_decl, kinds; simp_st; auto.
  - destruct (give_early (users s)) as [us|] eqn:G.
    + destruct (give_early_spec _ _ G) as (j & u & Hj & Hu & ->). frames.
      unfold same_decl, kinds; simp_st; rew_hyps. repeat split; auto.
      eapply map_ukd_set_nth; [exact Hj|reflexivity].
    + unfold same_decl, kinds; simp_st; auto.
Qed.

Lemma decl_const ops s : reachable ops s ->
  mode s = mode_of ops /\ rk s = res_of ops /\ kinds s = map ukd (flat_map decode_user ops).
Proof.
  induction 1 as [|s i R IH E]; [repeat split|].
  destruct IH as (M & K & U).
  assert (same_decl s (fst (tstep s i))) as (A & B & C).
  { destruct i as [|[|j]]; cbn [tstep]; [apply sd_cstep|apply sd_rstep|apply sd_ustep]. }
  repeat split; congruence.
Qed.

(* the resolver's result bit: true unless the state was born ready (no resolver at all) *)
Definition rb_ok (s : st) : Prop :=
  match rpcf s with RDone b => b = match mode s with MPre _ => false | _ => true end | _ => True end.

Lemma rb_mf x : match mode x with MPre _ => False | _ => True end -> rpcf x = RWalk -> rb_ok (maybe_finish x).
Proof.
  intros NP RP. destruct (sd_mf x) as (M & _). unfold rb_ok. rewrite M. unfold maybe_finish.
  destruct (walk x).
  - unfold finish. simp_st. destruct (mode x); auto; contradiction.
  - rewrite RP. exact I.
Qed.

Lemma rb_reachable ops s : reachable ops s -> rb_ok s.
Proof.
  induction 1 as [|s i R IH E].
  - unfold rb_ok, init. simp_st. destruct (mode_of ops); auto.
  - pose proof (md_ok s (res_reachable ops s R)) as MD. pose proof (inv_reachable ops s R) as IV.
    destruct i as [|[|j]]; cbn [tstep].
    + destruct (sd_cstep s) as ((M & _) & RP). unfold rb_ok in *. rewrite RP, M. exact IH.
    + destruct (sd_rstep s) as (M & _).
      assert (NP : match mode s with MPre _ => False | _ => True end).
      { cbn [enabled] in E. destruct (mode s); auto. destruct MD as (Q & _). rewrite Q in E. discriminate. }
      destruct (inv_rstep_in s IV E) as (_ & B). rewrite rstep_in_eq in *.
      destruct (snd (rstep_in s)) eqn:SN.
      * destruct (sd_mf (fst (rstep_in s))) as (M2 & _). apply rb_mf; [|apply B; reflexivity].
        rewrite <- M2, M. exact NP.
      * unfold rb_ok. cbn [enabled] in E. unfold rstep_in in *.
        destruct (rpcf s) eqn:RP; try discriminate; cbn [fst snd] in *; simp_st; try exact I.
        -- destruct (mode s); exact I.
        -- destruct (walk s) as [|[|w] t]; cbn [fst snd] in *; try discriminate. simp_st. exact I.
    + destruct (sd_ustep s j) as ((M & _) & RP). unfold rb_ok in *. rewrite RP, M. exact IH.
Qed.

(* ---------- the oracle accepts the model's run ---------- *)
Lemma enabled_list_nil s n : forall from, enabled_list s n from = [] ->
  forall i, from <= i < from + n -> enabled s i = false.
Proof.
  induction n as [|n IH]; intros from H i L; [lia|]. cbn [enabled_list] in H.
  apply app_eq_nil in H. destruct H as (H1 & H2).
  destruct (Nat.eq_dec i from) as [->|N].
  - destruct (enabled s from); [discriminate|reflexivity].
  - apply (IH (S from) H2). lia.
Qed.

Lemma all_enabled_nil_terminal s : all_enabled s = [] -> terminal s.
Proof.
  intros H i. destruct (Nat.lt_ge_cases i (2 + length (users s))) as [L|G].
  - apply (enabled_list_nil s _ 0 H). lia.
  - destruct i as [|[|j]]; cbn [length plus] in G; try lia. cbn [enabled].
    destruct (nth_error (users s) j) eqn:Q; [|reflexivity].
    assert (j < length (users s)) by (apply nth_error_Some; congruence). lia.
Qed.

Lemma list_eqb_refl l : list_eqb l l = true.
Proof.
  unfold list_eqb. rewrite Nat.eqb_refl. cbn [andb]. induction l as [|x l IH]; cbn [combine forallb fst snd]; [reflexivity|].
  rewrite Z.eqb_refl. exact IH.
Qed.

Lemma filter_all {A} (f : A -> bool) l : forallb f l = true -> filter f l = l.
Proof.
  induction l as [|x l IH]; cbn [forallb filter]; [reflexivity|]. intros H. apply andb_prop in H. destruct H as (H1 & H2).
  rewrite H1, (IH H2). reflexivity.
Qed.

Lemma filter_none {A} (f : A -> bool) l : forallb (fun x => negb (f x)) l = true -> filter f l = [].
Proof.
  induction l as [|x l IH]; cbn [forallb filter]; [reflexivity|]. intros H. apply andb_prop in H. destruct H as (H1 & H2).
  destruct (f x); [discriminate|]. exact (IH H2).
Qed.

Definition keep (l : list Z) : bool := negb (is_trace_line l).

Lemma okind_two isvoid o : exists a b, okind isvoid o = [a; b].
Proof. destruct o as [[| | |]|]; cbn; eauto. Qed.

Lemma user_obs_keep isvoid i u : keep (user_obs isvoid i u) = true.
Proof.
  unfold user_obs. destruct (okind_two isvoid (useen u)) as (a & b & ->). reflexivity.
Qed.

Lemma user_obs_all_keep isvoid l : forall i, forallb keep (user_obs_all isvoid l i) = true.
Proof.
  induction l as [|u l IH]; intros i; cbn [user_obs_all forallb]; [reflexivity|].
  rewrite user_obs_keep, IH. reflexivity.
Qed.

Lemma stuck_users_done l : forall i, (forall j u, nth_error l j = Some u -> upcf u = UDone) -> stuck_users l i = [].
Proof.
  induction l as [|u l IH]; intros i H; cbn [stuck_users]; [reflexivity|].
  unfold unfinished. rewrite (H 0 u eq_refl). cbn [app]. apply IH. intros j u0 Q. apply (H (S j) u0 Q).
Qed.

Lemma user_ok_done isvoid e u0 u i : ukd u0 = ukd u -> upcf u = UDone -> seen_ok e u ->
  user_ok (okind isvoid (Some e)) u0 (user_obs isvoid i u) = true.
Proof.
  intros K PC SK. unfold user_ok, user_obs, seen_ok in *. rewrite K, PC in *.
  destruct (ukd u).
  - destruct SK as (-> & ->). reflexivity.
  - destruct SK as (-> & [-> | ->]).
    + destruct (okind_two isvoid (Some e)) as (a & b & Q). rewrite Q. cbn [app Z.of_nat Pos.of_succ_nat].
      rewrite list_eqb_refl. reflexivity.
    + cbn. apply orb_true_r.
  - destruct SK as (-> & ->).
    destruct (okind_two isvoid (Some e)) as (a & b & Q). rewrite Q. cbn [app Z.of_nat Pos.of_succ_nat].
    apply list_eqb_refl.
Qed.

Lemma lines_ok_final isvoid e us0 : forall us i, map ukd us0 = map ukd us ->
  (forall j u, nth_error us j = Some u -> upcf u = UDone /\ seen_ok e u) ->
  lines_ok (okind isvoid (Some e)) us0 i (user_obs_all isvoid us i ++ [[10; 0; 0]%Z]) = true.
Proof.
  induction us0 as [|u0 us0 IH]; intros [|u us] i M H; cbn [map] in M; try discriminate.
  - reflexivity.
  - inversion M as [[K M']]. cbn [user_obs_all app lines_ok].
    destruct (H 0 u eq_refl) as (PC & SK).
    rewrite (user_ok_done isvoid e u0 u i K PC SK).
    rewrite (IH us (S i) M'); [|intros j u1 Q; apply (H (S j) u1 Q)].
    unfold user_obs. rewrite Z.eqb_refl. reflexivity.
Qed.

Lemma expected_eq isvoid ops : expected isvoid ops = okind isvoid (Some (result_of_ops ops)).
Proof. unfold expected, result_of_ops. destruct (mode_of ops); reflexivity. Qed.

(* whenever the runner stops because nothing is enabled (and not because the fuel ran out) the decidable property
   accepts the model's own observation block *)
Theorem oracle_accepts_terminal isvoid ops :
  all_enabled (fst (final_state ops)) = [] -> sf_oracle isvoid ops (sf_run isvoid ops) = true.
Proof.
  intros AE. pose proof (final_state_reachable ops) as R. unfold sf_run.
  destruct (final_state ops) as [s tr] eqn:FS. cbn [fst] in *.
  pose proof (all_enabled_nil_terminal s AE) as T.
  destruct (terminal_all_done ops s R T) as (C & RD & UD & FR & PD & _).
  destruct (decl_const ops s R) as (M & K & KI).
  pose proof (rb_reachable ops s R) as RB. pose proof (res_reachable ops s R) as RS.
  unfold rdone in RD. destruct (rpcf s) as [| | | | |b| | |] eqn:RP; try discriminate.
  assert (ST : stuck_list s = []).
  { unfold stuck_list. rewrite C, RP. cbn [app]. apply stuck_users_done. exact UD. }
  rewrite ST. cbn [app].
  unfold sf_oracle. rewrite filter_app.
  change (fun l : list Z => negb (is_trace_line l)) with keep. rewrite (filter_none keep).
  2: { clear. induction tr as [|p tr IHt]; [reflexivity|]. cbn [map forallb]. rewrite IHt. reflexivity. }
  assert (FK : filter keep (thr_obs_all isvoid s ++ [final_obs s]) = thr_obs_all isvoid s ++ [final_obs s]).
  { apply filter_all. rewrite forallb_app. unfold thr_obs_all. cbn [forallb]. rewrite user_obs_all_keep. reflexivity. }
  replace (filter (fun l => negb (is_trace_line l))) with (filter keep) by reflexivity.
  cbn [app]. rewrite FK. unfold thr_obs_all. rewrite C, RP. cbn [app].
  unfold rb_ok in RB. rewrite RP in RB. rewrite M in RB.
  assert (MI : mode (init ops) = mode_of ops) by reflexivity. rewrite MI.
  assert (BZ : Z.eqb (b2z b) (match mode_of ops with MPre _ => 0 | _ => 1 end)%Z = true).
  { rewrite RB. destruct (mode_of ops); reflexivity. }
  rewrite BZ. cbn [andb].
  assert (FO : final_obs s = [10; 0; 0]%Z).
  { unfold final_obs. rewrite PD. rewrite Z.sub_diag. reflexivity. }
  rewrite FO, expected_eq.
  apply lines_ok_final.
  - unfold kinds in KI. cbn [init users]. symmetry. exact KI.
  - intros j u H. split; [eapply UD; exact H|].
    pose proof (f2_ok s RS j u H) as SK. unfold expd in SK. rewrite M, K in SK. exact SK.
Qed.

(* ---------- the stress engine's prediction: one modelled round, any schedule ---------- *)
Theorem stress_round_prediction l : stress_valid l = true ->
  all_enabled (fst (final_state (stress_ops l))) = [] -> stress_round l = [[7; 1; 0; 0]%Z].
Proof.
  intros V AE. unfold stress_round. rewrite V.
  pose proof (final_state_reachable (stress_ops l)) as R.
  set (s := fst (final_state (stress_ops l))) in *.
  pose proof (all_enabled_nil_terminal s AE) as T.
  destruct (terminal_all_done _ s R T) as (C & RD & UD & FR & PD & _).
  assert (ST : stuck_list s = []).
  { unfold stuck_list. rewrite C. unfold rdone in RD. destruct (rpcf s); try discriminate. cbn [app].
    apply stuck_users_done. exact UD. }
  rewrite ST, FR, PD, Z.sub_diag. reflexivity.
Qed.
