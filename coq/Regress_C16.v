(* Regress_C16.v — regression witnesses: the transcriptions of publisher.h BEFORE the repairs violate the property
   (the oracle rejects their traces), the current transcription does not.
   1. /repo commit 6157a59: advance_suspend_lk returned on _closed without advancing -> a close() between
      await_ready and subscribe delivered the last value twice.
   2. fixes/C16-skip-dup.patch: get_value_lk in the skipping modes returned a value at another position than the
      reader's without moving the reader -> the same value was delivered twice (skip_to_recent woken by a batch;
      skip_if_behind with the window trimmed by max between await_ready and await_resume). *)
From Cocls Require Import Base PublisherDefs.
Local Open Scope Z_scope.

Definition w_close_window : list (list Z) := [[1;0]; [2;0;0]; [0;100]; [5;0]; [7;0]; [5;0]; [10]; [6;0]; [7;0]].
Definition w_batch_recent : list (list Z) := [[1;0]; [2;0;2]; [5;0]; [6;0]; [1;2;3]; [7;0]; [5;0]; [7;0]].
Definition w_trim_behind : list (list Z) := [[1;1]; [2;0;1]; [0;100]; [5;0]; [0;101]; [7;0]; [5;0]; [7;0]].

Example old_close_window_refuted :
  pub_oracle w_close_window (pub_run_gen advance_suspend_lk_old get_value_lk w_close_window) = false.
Proof. vm_compute. reflexivity. Qed.

Example old_batch_recent_refuted :
  pub_oracle w_batch_recent (pub_run_gen advance_suspend_lk get_value_lk_old w_batch_recent) = false.
Proof. vm_compute. reflexivity. Qed.

Example old_trim_behind_refuted :
  pub_oracle w_trim_behind (pub_run_gen advance_suspend_lk get_value_lk_old w_trim_behind) = false.
Proof. vm_compute. reflexivity. Qed.

Example current_accepts_witnesses :
  pub_oracle w_close_window (pub_run w_close_window) = true /\
  pub_oracle w_batch_recent (pub_run w_batch_recent) = true /\
  pub_oracle w_trim_behind (pub_run w_trim_behind) = true.
Proof. vm_compute. repeat split; reflexivity. Qed.
