(* CoroVMRuns.v — C05 "a coroutine is never resumed while it is already running" (and never after its body finished):
   per coroutine the log alternates  Run (Susp Run)* [Susp | Fin]  — proved from each_once (CoroVMOnce) and the life-cycle
   accounting (CoroVMLife). *)
From Cocls Require Import Base CoroVMDefs CoroVMProofs CoroVMOnce CoroVMLife.
Local Open Scope nat_scope.

(* is c running according to the (newest-first) log?  last of {Run c, Susp c, Fin c} decides *)
Fixpoint rlc (c : nat) (l : list event) : nat :=
  match l with
  | [] => 0
  | ERun x :: t => if Nat.eqb x c then 1 else rlc c t
  | ESusp x :: t => if Nat.eqb x c then 0 else rlc c t
  | EFin x _ :: t => if Nat.eqb x c then 0 else rlc c t
  | _ :: t => rlc c t
  end.

(* every Run c is logged when c is not running and has not finished; every Susp c / Fin c when c is running *)
Fixpoint wf_runs (l : list event) : Prop :=
  match l with
  | [] => True
  | ERun c :: t => rlc c t = 0 /\ nev (is_fin c) t = 0 /\ wf_runs t
  | ESusp c :: t => rlc c t = 1 /\ wf_runs t
  | EFin c _ :: t => rlc c t = 1 /\ wf_runs t
  | _ :: t => wf_runs t
  end.

Definition run_event (e : event) : Prop := match e with ERun _ | ESusp _ | EFin _ _ => True | _ => False end.
Definition act (s : st) (c : nat) : nat := cnt c (curlf (cur s)) + cnt c (nests (stack s)).

(* RW: log and control state agree on who is running.
   RWx r X: r has just logged Susp/Fin but is still `cur`; X = coroutines that may be resumed next *)
Definition RW (s : st) : Prop := wf_runs (log s) /\ forall c, rlc c (log s) = act s c.
Definition RWx (r : nat) (X : nat -> Prop) (s : st) : Prop :=
  wf_runs (log s) /\ cur s = CRun r /\ cnt r (nests (stack s)) = 0 /\ rlc r (log s) = 0 /\
  (forall c, c <> r -> rlc c (log s) = act s c) /\
  (forall x, X x -> nev (is_fin x) (log s) = 0 /\ (x = r \/ cnt x (nests (stack s)) = 0)).

Lemma rlc_quiet : forall c e l, ~ run_event e -> rlc c (e :: l) = rlc c l.
Proof. intros c e l N. destruct e; cbn in *; tauto. Qed.
Lemma wf_quiet : forall e l, ~ run_event e -> wf_runs (e :: l) <-> wf_runs l.
Proof. intros e l N. destruct e; cbn in *; tauto. Qed.
Lemma nev_fin_quiet : forall x e l, ~ run_event e -> nev (is_fin x) (e :: l) = nev (is_fin x) l.
Proof. intros x e l N. rewrite nev_cons. destruct e; cbn in *; tauto. Qed.

(* ---- RW is insensitive to everything but cur / stack / run events ---- *)
Lemma RW_ev : forall s e, RW s -> ~ run_event e -> RW (ev s e).
Proof.
  intros s e (W&R) N. split; cbn [log ev]; [apply wf_quiet; auto|]. intros c. rewrite rlc_quiet; auto. apply R.
Qed.
Lemma RW_same : forall s s', RW s -> log s' = log s -> cur s' = cur s -> stack s' = stack s -> RW s'.
Proof. intros s s' (W&R) L C K. unfold RW, act. rewrite L, C, K. split; auto. Qed.
Lemma RWx_ev : forall r X s e, RWx r X s -> ~ run_event e -> RWx r X (ev s e).
Proof.
  intros r X s e (W&C&N&Z&R&F) NE.
  assert (W' : wf_runs (e :: log s)) by (apply wf_quiet; auto).
  assert (R' : forall c, rlc c (e :: log s) = rlc c (log s)) by (intros; apply rlc_quiet; auto).
  assert (F' : forall x, nev (is_fin x) (e :: log s) = nev (is_fin x) (log s)) by (intros; apply nev_fin_quiet; auto).
  unfold RWx, act in *. change (log (ev s e)) with (e :: log s). change (cur (ev s e)) with (cur s).
  change (stack (ev s e)) with (stack s).
  split; [exact W'|]. split; [exact C|]. split; [exact N|]. split; [rewrite R'; exact Z|]. split.
  - intros c D. rewrite R'. apply R; auto.
  - intros x Xx. rewrite F'. apply F; auto.
Qed.
Lemma RWx_same : forall r X s s', RWx r X s -> log s' = log s -> cur s' = cur s -> stack s' = stack s -> RWx r X s'.
Proof. intros r X s s' H L C K. unfold RWx, act in *. rewrite L, C, K. exact H. Qed.

Lemma RW_enq_all : forall l s b w, RW s -> RW (enq_all s l b w).
Proof. induction l; intros; cbn [enq_all]; [assumption|]. apply IHl. unfold enq. apply RW_ev; [eapply RW_same; eauto|cbn; tauto]. Qed.
Lemma RWx_enq_all : forall l r X s b w, RWx r X s -> RWx r X (enq_all s l b w).
Proof. induction l; intros; cbn [enq_all]; [assumption|]. apply IHl. unfold enq. apply RWx_ev; [eapply RWx_same; eauto|cbn; tauto]. Qed.

(* ---- the running coroutine stops ---- *)
Lemma RW_stop : forall s r e (X : nat -> Prop), RW s -> cur s = CRun r -> cnt r (nests (stack s)) = 0 ->
  (e = ESusp r \/ exists x, e = EFin r x) ->
  (forall x, X x -> nev (is_fin x) (e :: log s) = 0 /\ (x = r \/ cnt x (nests (stack s)) = 0)) ->
  RWx r X (ev s e).
Proof.
  intros s r e X (W&R) C N E F.
  assert (A : rlc r (log s) = 1).
  { rewrite R. unfold act. rewrite C. cbn [curlf]. rewrite cnt_cons, cnt_nil, Nat.eqb_refl. lia. }
  assert (Rn : forall c, c <> r -> rlc c (e :: log s) = act s c).
  { intros c D. destruct (Nat.eqb_neq r c) as (_&Q). destruct E as [->|(x&->)]; cbn [rlc]; rewrite Q by congruence; apply R. }
  assert (Rr : rlc r (e :: log s) = 0) by (destruct E as [->|(x&->)]; cbn [rlc]; rewrite Nat.eqb_refl; reflexivity).
  assert (Ww : wf_runs (e :: log s)) by (destruct E as [->|(x&->)]; cbn [wf_runs]; auto).
  unfold RWx, act in *. change (log (ev s e)) with (e :: log s). change (cur (ev s e)) with (cur s).
  change (stack (ev s e)) with (stack s).
  split; [exact Ww|]. split; [exact C|]. split; [exact N|]. split; [exact Rr|]. split; [exact Rn|exact F].
Qed.

Lemma RWx_ret : forall r X s k, RWx r X s -> curlf k = [] -> RW (set_cur s k).
Proof.
  intros r X s k (W&C&N&Z&R&F) K. split; [exact W|]. intros c. unfold act. cbn [log cur stack set_cur]. rewrite K, cnt_nil.
  destruct (Nat.eq_dec c r) as [->|D]; [lia|]. rewrite R; auto. unfold act. rewrite C. cbn [curlf].
  rewrite cnt_cons, cnt_nil. destruct (Nat.eqb_neq r c) as (_&Q). rewrite Q by congruence. lia.
Qed.

Lemma RWx_run : forall r (X : nat -> Prop) s x, RWx r X s -> X x -> RW (run_c s x).
Proof.
  intros r X s x (W&C&N&Z&R&F) Xx. destruct (F x Xx) as (NF&HX).
  assert (RX : rlc x (log s) = 0 /\ cnt x (nests (stack s)) = 0).
  { destruct HX as [->|HX]; [auto|]. destruct (Nat.eq_dec x r) as [->|D]; [auto|]. split; auto.
    rewrite R; auto. unfold act. rewrite C. cbn [curlf]. rewrite cnt_cons, cnt_nil.
    destruct (Nat.eqb_neq r x) as (_&Q). rewrite Q by congruence. lia. }
  destruct RX as (RX&NX). unfold run_c. split; cbn [log ev set_cur cur stack wf_runs]; [auto|].
  intros c. unfold act. cbn [cur set_cur stack ev curlf rlc]. rewrite cnt_cons, cnt_nil.
  destruct (Nat.eqb x c) eqn:E.
  - apply Nat.eqb_eq in E. subst c. lia.
  - destruct (Nat.eq_dec c r) as [->|D]; [lia|]. rewrite R; auto. unfold act. rewrite C. cbn [curlf].
    rewrite cnt_cons, cnt_nil. destruct (Nat.eqb_neq r c) as (_&Q). rewrite Q by congruence. lia.
Qed.

(* resuming somebody from normal-ish control (cur has no coroutine): KInst handle, queue head *)
Lemma RW_run_from_ret : forall s x, RW s -> curlf (cur s) = [] -> cnt x (nests (stack s)) = 0 -> nev (is_fin x) (log s) = 0 ->
  RW (run_c s x).
Proof.
  intros s x (W&R) K N F. assert (RX : rlc x (log s) = 0) by (rewrite R; unfold act; rewrite K, cnt_nil; lia).
  unfold run_c. split; cbn [log ev set_cur cur stack wf_runs]; [auto|].
  intros c. unfold act. cbn [cur set_cur stack ev curlf rlc]. rewrite cnt_cons, cnt_nil.
  destruct (Nat.eqb x c) eqn:E.
  - apply Nat.eqb_eq in E. subst c. lia.
  - rewrite R. unfold act. rewrite K, cnt_nil. lia.
Qed.

Lemma RW_act_same : forall s s', RW s -> log s' = log s -> (forall c, act s' c = act s c) -> RW s'.
Proof. intros s s' (W&R) L A. unfold RW. rewrite L. split; auto. intros c. rewrite A. apply R. Qed.

Lemma RW_set_fs : forall s x, RW s -> RW (set_fs s x). Proof. intros; eapply RW_same; eauto. Qed.
Lemma RW_set_cs : forall s x, RW s -> RW (set_cs s x). Proof. intros; eapply RW_same; eauto. Qed.
Lemma RW_set_mainp : forall s x, RW s -> RW (set_mainp s x). Proof. intros; eapply RW_same; eauto. Qed.
Lemma RW_set_made : forall s x, RW s -> RW (set_made s x). Proof. intros; eapply RW_same; eauto. Qed.
Lemma RW_set_queue : forall s x, RW s -> RW (set_queue s x). Proof. intros; eapply RW_same; eauto. Qed.
Lemma RW_set_active : forall s x, RW s -> RW (set_active s x). Proof. intros; eapply RW_same; eauto. Qed.
Lemma RW_set_coro : forall s c x, RW s -> RW (set_coro s c x). Proof. intros; apply RW_set_cs; auto. Qed.
Lemma RW_set_script : forall s c x, RW s -> RW (set_script s c x). Proof. intros; apply RW_set_coro; auto. Qed.
Lemma RW_set_started : forall s c b, RW s -> RW (set_started s c b).
Proof. intros. apply RW_ev; [apply RW_set_coro; auto|cbn; tauto]. Qed.
Lemma RW_bad : forall s me, RW s -> RW (bad s me). Proof. intros. apply RW_ev; [auto|cbn; tauto]. Qed.
Lemma RW_make : forall s c, RW s -> RW (make s c).
Proof. intros. apply RW_ev; [apply RW_set_made, RW_set_coro; auto|cbn; tauto]. Qed.
Lemma RW_ensure_made : forall s c, RW s -> RW (ensure_made s c).
Proof. intros. unfold ensure_made. repeat break_match; auto using RW_make. Qed.
#[local] Hint Resolve RW_set_fs RW_set_cs RW_set_mainp RW_set_made RW_set_queue RW_set_active RW_set_coro RW_set_script
  RW_set_started RW_bad RW_make RW_ensure_made RW_enq_all : core.
Ltac rw_ev := repeat (apply RW_ev; [|cbn; tauto]); auto.

Lemma RWx_set_fs : forall r X s x, RWx r X s -> RWx r X (set_fs s x). Proof. intros; eapply RWx_same; eauto. Qed.
Lemma RWx_set_cs : forall r X s x, RWx r X s -> RWx r X (set_cs s x). Proof. intros; eapply RWx_same; eauto. Qed.
Lemma RWx_set_queue : forall r X s x, RWx r X s -> RWx r X (set_queue s x). Proof. intros; eapply RWx_same; eauto. Qed.
Lemma RWx_set_coro : forall r X s c x, RWx r X s -> RWx r X (set_coro s c x). Proof. intros; apply RWx_set_cs; auto. Qed.

(* ---- facts about who may be resumed, from each_once and the life cycle ---- *)
Lemma nev_fin_alive : forall s x, life s -> stat (cs s x) <> Done -> nev (is_fin x) (log s) = 0.
Proof. intros s x L N. destruct (L x) as (_&_&_&_&E). destruct (stat (cs s x)); try congruence; lia. Qed.

Lemma cur_not_nested : forall s r, once s -> cur s = CRun r -> cnt r (nests (stack s)) = 0 /\ stat (cs s r) = Started.
Proof.
  intros s r O C. unfold once, onceD in O.
  assert (H : hc (cur s) (stack s) (queue s) r > 0) by (rewrite C, hc_run, Nat.eqb_refl; lia).
  destruct (held_started _ _ _ _ _ _ O r H) as (S&_&_&H1). rewrite C, hc_run, Nat.eqb_refl in H1. split; [lia|auto].
Qed.
Lemma queued_not_nested : forall s x, once s -> In x (queue s) \/ In x (insts (stack s)) ->
  cnt x (nests (stack s)) = 0 /\ stat (cs s x) = Started.
Proof.
  intros s x O I. unfold once, onceD in O.
  assert (H : cnt x (queue s) + cnt x (insts (stack s)) > 0).
  { destruct I as [I|I]; apply cnt_in in I; lia. }
  assert (H' : hc (cur s) (stack s) (queue s) x > 0) by (unfold hc; lia).
  destruct (held_started _ _ _ _ _ _ O x H') as (S&_&_&H1). unfold hc in H1. split; [lia|auto].
Qed.
Lemma chain_not_nested : forall s f x, once s -> In x (chain_of (fs s f)) ->
  cnt x (nests (stack s)) = 0 /\ stat (cs s x) = Started /\ cur s <> CRun x.
Proof.
  intros s f x O I. unfold once, onceD in O. destruct (chain_member _ _ _ _ _ _ O f x I) as (S&H0&_).
  unfold hc in H0. repeat split; auto; try lia. intros C. rewrite C in H0. cbn [curlf] in H0. rewrite cnt_cons, Nat.eqb_refl in H0. lia.
Qed.
Lemma parent_not_nested : forall s k p, once s -> stat (cs s k) = Started -> bound (cs s k) = BParent p ->
  cnt p (nests (stack s)) = 0 /\ stat (cs s p) = Started /\ cur s <> CRun p.
Proof.
  intros s k p O S B. unfold once, onceD in O. destruct (parent_waits _ _ _ _ _ _ O k p S B) as (S'&H0&_).
  unfold hc in H0. repeat split; auto; try lia. intros C. rewrite C in H0. cbn [curlf] in H0. rewrite cnt_cons, Nat.eqb_refl in H0. lia.
Qed.
Lemma idle_not_nested : forall s x, once s -> stat (cs s x) <> Started -> cnt x (nests (stack s)) = 0 /\ (forall r, cur s = CRun r -> x <> r).
Proof.
  intros s x O N. unfold once, onceD in O. destruct (not_started_zero _ _ _ _ _ _ O x N) as (H0&_).
  unfold hc in H0. split; [lia|]. intros r C -> . rewrite C in H0. cbn [curlf] in H0. rewrite cnt_cons, Nat.eqb_refl in H0. lia.
Qed.

Lemma nev_fin_susp : forall x r l, nev (is_fin x) (ESusp r :: l) = nev (is_fin x) l.
Proof. intros. rewrite nev_cons. reflexivity. Qed.
Lemma nev_fin_fin : forall x r v l, x <> r -> nev (is_fin x) (EFin r v :: l) = nev (is_fin x) l.
Proof. intros. rewrite nev_cons. cbn. destruct (Nat.eqb_neq r x) as (_&Q). rewrite Q by congruence. reflexivity. Qed.

(* ---- suspend points ---- *)
Lemma RW_sp_dispose : forall s me hs aw, RW s -> ctx_ok s me -> (cur s = CMain -> aw = false) ->
  cnt me (nests (stack s)) = 0 ->
  (forall x, In x hs -> nev (is_fin x) (log s) = 0 /\ cnt x (nests (stack s)) = 0) ->
  RW (sp_dispose s me hs aw).
Proof.
  intros s me hs aw R X M NM F. unfold sp_dispose. destruct hs as [|h t] eqn:HS; [exact R|]. rewrite <- HS in *.
  assert (NE : hs <> []) by (rewrite HS; discriminate). clear HS.
  destruct X as [(C&->&A)|(C&A)].
  - rewrite (M C), A. eapply RW_act_same; [exact R|reflexivity|]. intros c. unfold act. cbn. rewrite C. reflexivity.
  - destruct aw; [|rewrite A; auto].
    assert (RX : RWx me (fun x => x = last hs 0) (ev s (ESusp me))).
    { apply RW_stop; auto. intros x ->. rewrite nev_fin_susp.
      destruct (F (last hs 0)) as (F1&F2); [destruct (exists_last NE) as (l'&a&->); rewrite last_last; apply in_or_app; right; left; auto|].
      split; auto. }
    apply (RWx_run me (fun x => x = last hs 0)); [|reflexivity]. unfold enq. apply RWx_ev; [|cbn; tauto]. apply RWx_set_queue. apply RWx_enq_all. exact RX.
Qed.

(* ---- finishing ---- *)
Lemma RW_finish : forall s c r, RW s -> once s -> life s -> cur s = CRun c -> RW (finish s c r).
Proof.
  intros s c r R O L C. destruct (cur_not_nested s c O C) as (NC&SC).
  unfold finish.
  set (X := fun x => match bound (cs s c) with
                     | BNone => False | BFut f => In x (chain_of (fs s f)) | BParent p => x = p end).
  assert (RX : RWx c X (ev s (EFin c r))).
  { apply RW_stop; auto; [right; eauto|]. intros x Xx. unfold X in Xx. destruct (bound (cs s c)) as [|f|p] eqn:B; [destruct Xx| |].
    - destruct (chain_not_nested s f x O Xx) as (N1&S1&C1). assert (x <> c) by (intros ->; congruence).
      rewrite nev_fin_fin; auto. split; [apply nev_fin_alive; auto; congruence|auto].
    - subst x. destruct (parent_not_nested s c p O SC B) as (N1&S1&C1). assert (p <> c) by (intros ->; congruence).
      rewrite nev_fin_fin; auto. split; [apply nev_fin_alive; auto; congruence|auto]. }
  destruct (bound (cs s c)) as [|f|p] eqn:B; cbn [fst snd].
  - eapply RWx_ret; [|reflexivity]. apply RWx_ev; [|cbn; tauto]. apply RWx_set_coro. exact RX.
  - destruct (chain_of (fs (ev s (EFin c r)) f)) as [|h t] eqn:CH.
    + eapply RWx_ret; [|reflexivity]. apply RWx_ev; [|cbn; tauto]. apply RWx_set_coro, RWx_set_fs. exact RX.
    + apply (RWx_run c X).
      * apply RWx_enq_all. apply RWx_ev; [|cbn; tauto]. apply RWx_set_coro, RWx_set_fs. exact RX.
      * unfold X. change (fs (ev s (EFin c r))) with (fs s) in CH. rewrite CH.
        assert (NE : h :: t <> []) by discriminate. destruct (exists_last NE) as (l'&a&E). rewrite E, last_last.
        apply in_or_app. right. left. auto.
  - apply (RWx_run c X); [|unfold X; cbn; reflexivity]. cbn [enq_all removelast last].
    apply RWx_ev; [|cbn; tauto]. apply RWx_set_coro. exact RX.
Qed.

(* a fresh (Created) coroutine is resumed from inside start(): the caller goes onto the C++ stack *)
Lemma RW_nest : forall s r c, RW s -> cur s = CRun r -> cnt c (nests (stack s)) = 0 -> c <> r -> nev (is_fin c) (log s) = 0 ->
  RW (run_c (set_stack s (KNest r :: stack s)) c).
Proof.
  intros s r c (W&R) C N D F.
  assert (RC : rlc c (log s) = 0).
  { rewrite R. unfold act. rewrite C. cbn [curlf]. rewrite cnt_cons, cnt_nil. destruct (Nat.eqb_neq r c) as (_&Q). rewrite Q by congruence. lia. }
  unfold run_c. split; cbn [log ev set_cur set_stack cur stack wf_runs]; [auto|].
  intros x. unfold act. cbn [cur set_cur stack set_stack ev curlf rlc nests]. rewrite !cnt_cons, cnt_nil.
  destruct (Nat.eqb c x) eqn:E.
  - apply Nat.eqb_eq in E. subst x. destruct (Nat.eqb_neq r c) as (_&Q). rewrite Q by congruence. lia.
  - rewrite R. unfold act. rewrite C. cbn [curlf]. rewrite cnt_cons, cnt_nil. lia.
Qed.

Lemma RW_exec : forall s me i, RW s -> once s -> life s -> ctx_ok s me -> cnt me (nests (stack s)) = 0 -> RW (exec s me i).
Proof.
  intros s me i R O L X NM. destruct i; cbn [exec].
  - (* IEmit *) rw_ev.
  - (* IPause *)
    destruct (Nat.eqb me 0) eqn:M0; [auto|]. destruct (ctx_run s me X M0) as (C&A).
    destruct (cur_not_nested s me O C) as (_&SM).
    set (XX := fun x => x = me \/ In x (queue s)).
    assert (RX : RWx me XX (ev s (ESusp me))).
    { apply RW_stop; auto. intros x Xx. rewrite nev_fin_susp. destruct Xx as [->|I].
      - split; [apply nev_fin_alive; auto; congruence|auto].
      - destruct (queued_not_nested s x O (or_introl I)) as (N1&S1). split; [apply nev_fin_alive; auto; congruence|auto]. }
    cbn. destruct (queue s ++ [me]) as [|x q] eqn:Q; [destruct (queue s); discriminate|].
    apply (RWx_run me XX).
    + apply RWx_ev; [|cbn; tauto]. apply RWx_set_queue. apply RWx_ev; [|cbn; tauto]. apply RWx_set_queue. exact RX.
    + unfold XX. assert (I : In x (queue s ++ [me])) by (rewrite Q; left; auto). apply in_app_or in I.
      destruct I as [I|[<-|[]]]; auto.
  - (* IMake *) repeat break_match; auto.
  - (* IDrop *) break_match; auto; rw_ev.
  - (* IDetach *)
    set (s1 := ensure_made s c). assert (O1 : once s1) by (apply onceD_ensure_made; auto).
    assert (L1 : life s1) by (apply life_ensure_made; auto). assert (R1 : RW s1) by (apply RW_ensure_made; auto).
    assert (X1 : ctx_ok s1 me) by (apply ctx_ensure; auto).
    assert (K1 : stack s1 = stack s) by (unfold s1, ensure_made; repeat break_match; reflexivity).
    destruct (negb (is_created s1 c) || aw && (me =? 0)) eqn:G; [auto|].
    apply orb_false_elim in G. destruct G as (G1&G2). apply negb_false_iff in G1.
    pose proof (is_created_stat s1 c G1) as SC.
    apply RW_sp_dispose; auto.
    + intros E. eapply ctx_main_aw; eauto.
    + cbn. rewrite K1. exact NM.
    + intros x [<-|[]]. cbn [log set_started ev]. rewrite nev_fin_quiet by (cbn; tauto). cbn.
      split; [apply nev_fin_alive; auto; congruence|]. apply idle_not_nested; auto. congruence.
  - (* IStart *)
    set (s1 := ensure_made s c). assert (O1 : once s1) by (apply onceD_ensure_made; auto).
    assert (L1 : life s1) by (apply life_ensure_made; auto). assert (R1 : RW s1) by (apply RW_ensure_made; auto).
    assert (X1 : ctx_ok s1 me) by (apply ctx_ensure; auto).
    destruct (negb (is_created s1 c)) eqn:G; [auto|]. apply negb_false_iff in G.
    pose proof (is_created_stat s1 c G) as SC.
    destruct (fstt (fs s1 f)) eqn:FS; auto.
    set (s2 := set_started (set_fs s1 (upd (fs s1) f (mkFut (FPend []) true))) c (BFut f)).
    assert (R2 : RW s2) by (unfold s2; auto).
    assert (NC : cnt c (nests (stack s1)) = 0 /\ (forall r, cur s1 = CRun r -> c <> r)) by (apply idle_not_nested; auto; congruence).
    destruct NC as (NC1&NC2).
    change (active s2) with (active s1). destruct X1 as [(C&->&A)|(C&A)]; rewrite A.
    + eapply RW_act_same; [exact R2|reflexivity|]. intros x. unfold act. cbn. rewrite C. reflexivity.
    + change (run_c (set_stack (ev s2 (ENest me c)) (KNest me :: stack s2)) c)
        with (run_c (set_stack (ev s2 (ENest me c)) (KNest me :: stack (ev s2 (ENest me c)))) c).
      apply RW_nest; [apply RW_ev; [exact R2|cbn; tauto] | exact C | exact NC1 | apply NC2; exact C |].
      cbn [log ev s2 set_started]. rewrite !nev_fin_quiet by (cbn; tauto). cbn. apply nev_fin_alive; auto. congruence.
  - (* IStartP *)
    set (s1 := ensure_made s c). assert (O1 : once s1) by (apply onceD_ensure_made; auto).
    assert (L1 : life s1) by (apply life_ensure_made; auto). assert (R1 : RW s1) by (apply RW_ensure_made; auto).
    assert (X1 : ctx_ok s1 me) by (apply ctx_ensure; auto).
    assert (K1 : stack s1 = stack s) by (unfold s1, ensure_made; repeat break_match; reflexivity).
    destruct (negb (is_created s1 c) || aw && (me =? 0)) eqn:G; [auto|].
    apply orb_false_elim in G. destruct G as (G1&G2). apply negb_false_iff in G1.
    pose proof (is_created_stat s1 c G1) as SC.
    assert (Z : RW (if claimed (fs s1 f) then ev s1 (ERetB me false)
                    else sp_dispose (ev (set_started (set_fs s1 (upd (fs s1) f (mkFut (fstt (fs s1 f)) true))) c (BFut f)) (ERetB me true)) me [c] aw)).
    { destruct (claimed (fs s1 f)); [rw_ev|]. apply RW_sp_dispose; auto.
      - intros E. eapply ctx_main_aw; eauto.
      - cbn. rewrite K1. exact NM.
      - intros x [<-|[]]. cbn [log set_started ev]. rewrite !nev_fin_quiet by (cbn; tauto). cbn.
        split; [apply nev_fin_alive; auto; congruence|]. apply idle_not_nested; auto. congruence. }
    destruct (fstt (fs s1 f)); auto.
  - (* ICoAwait *)
    destruct (Nat.eqb me 0) eqn:M0; [auto|].
    set (s1 := ensure_made s c). assert (O1 : once s1) by (apply onceD_ensure_made; auto).
    assert (L1 : life s1) by (apply life_ensure_made; auto). assert (R1 : RW s1) by (apply RW_ensure_made; auto).
    assert (X1 : ctx_ok s1 me) by (apply ctx_ensure; auto). destruct (ctx_run s1 me X1 M0) as (C&A).
    destruct (negb (is_created s1 c)) eqn:G; [auto|]. apply negb_false_iff in G.
    pose proof (is_created_stat s1 c G) as SC.
    destruct (cur_not_nested s1 me O1 C) as (NM1&SM).
    assert (NC : cnt c (nests (stack s1)) = 0 /\ (forall r, cur s1 = CRun r -> c <> r)) by (apply idle_not_nested; auto; congruence).
    destruct NC as (NC1&NC2).
    set (s2 := set_script (set_started s1 c (BParent me)) me (IGotC c :: script (cs s1 me))).
    assert (R2 : RW s2) by (unfold s2; auto).
    apply (RWx_run me (fun x => x = c)); [|reflexivity].
    apply RW_stop; auto. intros x ->. rewrite nev_fin_susp. cbn [log s2 set_script set_coro set_cs set_started ev].
    rewrite nev_fin_quiet by (cbn; tauto). split; [apply nev_fin_alive; auto; congruence|right; exact NC1].
  - (* IMkFut *) break_match; auto.
  - (* IResolve *)
    destruct (aw && (me =? 0)) eqn:G; [auto|].
    assert (Z : RW (if claimed (fs s f) then ev s (ERetB me false)
                    else sp_dispose (ev (ev (set_fs s (upd (fs s) f (mkFut (FReady r) true))) (ESet me f r)) (ERetB me true)) me (chain_of (fs s f)) aw)).
    { destruct (claimed (fs s f)); [rw_ev|]. apply RW_sp_dispose; auto.
      - intros E. eapply ctx_main_aw; eauto.
      - intros x I. cbn [log ev set_fs]. rewrite !nev_fin_quiet by (cbn; tauto).
        destruct (chain_not_nested s f x O I) as (N1&S1&_). split; [apply nev_fin_alive; auto; congruence|exact N1]. }
    destruct (fstt (fs s f)); auto.
  - (* IAwait *)
    destruct (Nat.eqb me 0) eqn:M0; [auto|]. destruct (ctx_run s me X M0) as (C&A).
    destruct (fstt (fs s f)) eqn:FS; [auto| |rw_ev].
    eapply (RWx_ret me (fun _ => False)); [|reflexivity].
    apply RW_stop; auto. intros x [].
  - (* IRet *) destruct (Nat.eqb me 0) eqn:M0; [auto|]. destruct (ctx_run s me X M0) as (C&A). apply RW_finish; auto.
  - (* IThrow *) destruct (Nat.eqb me 0) eqn:M0; [auto|]. destruct (ctx_run s me X M0) as (C&A). apply RW_finish; auto.
  - (* IGotF *) break_match; auto; rw_ev.
  - (* IGotC *) rw_ev.
  - (* IBad *) auto.
Qed.

Lemma RW_step : forall s, good2 s -> RW s -> RW (step s).
Proof.
  intros s ((S&O)&L) R. unfold step. destruct (cur s) eqn:C.
  - destruct (shape_cur_main s S C) as (A&K&Q).
    destruct (mainp s) as [|i rest].
    + apply (RW_act_same (ev s (EEnd (count_stat s true) (count_stat s false)))); [apply RW_ev; [exact R|cbn; tauto]|reflexivity|].
      intros c. unfold act. cbn. rewrite C. reflexivity.
    + assert (R1 : RW (exec (set_mainp s rest) 0 i)).
      { apply RW_exec; [apply RW_set_mainp; auto|apply onceD_set_mainp; auto|apply life_set_mainp; auto|left; cbn; auto|cbn; rewrite K; reflexivity]. }
      unfold idle_if_main. destruct (cur (exec (set_mainp s rest) 0 i)); auto.
  - destruct (shape_cur_code s c S C) as (A&W). destruct (cur_not_nested s c O C) as (NC&SC).
    destruct (script (cs s c)) as [|i rest] eqn:SS.
    + apply RW_finish; auto.
    + apply RW_exec; [apply RW_set_script; auto| |apply life_set_script; auto|right; cbn; auto|exact NC].
      unfold once, onceD in *. cbn. rewrite C in *.
      change (mkCoro (stat (cs s c)) rest (bound (cs s c)) (result (cs s c))) with (reScript (cs s c) rest).
      apply once_set_script_held; auto. rewrite hc_run, Nat.eqb_refl. lia.
  - unfold step_ret. destruct (stack s) as [|[hs|r] rest] eqn:K.
    + eapply RW_act_same; [exact R|reflexivity|]. intros c. unfold act. cbn. rewrite C. reflexivity.
    + destruct hs as [|h hs].
      * destruct (queue s) as [|x q] eqn:Q.
        -- apply RW_ev; [|cbn; tauto]. eapply RW_act_same; [exact R|reflexivity|]. intros c. unfold act. cbn. rewrite C, K. reflexivity.
        -- destruct (queued_not_nested s x O) as (N1&S1); [left; rewrite Q; left; auto|].
           apply RW_run_from_ret.
           ++ apply RW_ev; [|cbn; tauto]. auto.
           ++ cbn. rewrite C. reflexivity.
           ++ exact N1.
           ++ cbn [log ev set_queue]. rewrite nev_fin_quiet by (cbn; tauto). apply nev_fin_alive; auto. congruence.
      * destruct (queued_not_nested s h O) as (N1&S1); [right; rewrite K; cbn; left; auto|].
        apply RW_run_from_ret.
        -- eapply RW_act_same; [exact R|reflexivity|]. intros c. unfold act. cbn. rewrite K. reflexivity.
        -- cbn. rewrite C. reflexivity.
        -- cbn. rewrite K in N1. exact N1.
        -- cbn. apply nev_fin_alive; auto. congruence.
    + apply (RW_act_same (ev s (EBack r))); [apply RW_ev; [exact R|cbn; tauto]|reflexivity|].
      intros c. unfold act. cbn. rewrite C, K. cbn [curlf nests].
      rewrite !cnt_cons, !cnt_nil. lia.
  - exact R.
Qed.

Definition good3 (s : st) : Prop := good2 s /\ RW s.
Lemma good3_step : forall s, good3 s -> good3 (step s).
Proof. intros s (G&R). split; [apply good2_step; auto|apply RW_step; auto]. Qed.

Theorem runs_reach : forall p m n,
  let s := steps n (init p m) in wf_runs (log s) /\ forall c, rlc c (log s) = act s c.
Proof.
  intros. assert (G : good3 (steps n (init p m))).
  { apply (inv_steps good3 good3_step). split; [split; [split; [apply shape_init|apply once_init]|apply life_init]|].
    split; cbn; auto. }
  apply G.
Qed.

Lemma wf_runs_app : forall a b, wf_runs (a ++ b) -> wf_runs b.
Proof. induction a as [|e a IH]; intros b W; auto. apply IH. destruct e; cbn in W; tauto. Qed.

(* C05 "never resumed while it is already running", and never after its body finished: whenever `ERun c` was logged
   (log = later ++ ERun c :: earlier, newest first), c was not running according to the earlier events — it had never run or
   its last Run was followed by a Susp — and no `EFin c` had been logged.  Dually every Susp c / Fin c is logged while c runs. *)
Theorem never_resumed_while_running : forall p m n later c earlier,
  log (steps n (init p m)) = later ++ ERun c :: earlier ->
  rlc c earlier = 0 /\ nev (is_fin c) earlier = 0.
Proof.
  intros p m n later c earlier E. destruct (runs_reach p m n) as (W&_). rewrite E in W.
  apply wf_runs_app in W. cbn in W. tauto.
Qed.

Theorem stops_only_while_running : forall p m n later c earlier,
  (log (steps n (init p m)) = later ++ ESusp c :: earlier \/ exists r, log (steps n (init p m)) = later ++ EFin c r :: earlier) ->
  rlc c earlier = 1.
Proof.
  intros p m n later c earlier E. destruct (runs_reach p m n) as (W&_).
  destruct E as [E|(r&E)]; rewrite E in W; apply wf_runs_app in W; cbn in W; tauto.
Qed.
