(* AggrProofs.v — invariants and theorems for the generator_aggregator model (C14). *)
From Cocls Require Import Base BaseProofs GenDefs GenProofs AggrDefs.
Require Import ZifyBool.
Ltac Zify.zify_post_hook ::= Z.div_mod_to_equations.
Local Open Scope nat_scope.

Definition pendb (s : src) : bool := match s_bst s with BPend _ => true | _ => false end.
Definition b2n (b : bool) : nat := if b then 1 else 0.

Fixpoint npend (l : list src) : nat :=
  match l with [] => 0 | s :: t => b2n (pendb s) + npend t end.

Lemma npend_app a b : npend (a ++ b) = npend a + npend b.
Proof. induction a; cbn; auto. rewrite IHa. lia. Qed.

Lemma npend_set : forall l i s, i < length l ->
  npend (set_nth l i s) + b2n (pendb (nth i l (src0 []))) = npend l + b2n (pendb s).
Proof.
  induction l as [|h t IH]; intros i s Hi; [cbn in Hi; lia|].
  destruct i; cbn [set_nth nth npend]; [lia|].
  cbn in Hi. specialize (IH i s ltac:(lia)). lia.
Qed.

Lemma set_nth_length {A} (l : list A) i x : length (set_nth l i x) = length l.
Proof. revert i; induction l; intros [|i]; cbn; auto. Qed.

(* ---------- the sources ---------- *)
Lemma src_after_pend s r : let '(s2, b, _) := src_after s r in pendb s2 = negb b.
Proof. destruct r as [[[[st p] g] c] ev]. destruct st; reflexivity. Qed.

Lemma charge_pend s a s2 b ev : charge s a = Some (s2, b, ev) -> pendb s = false /\ pendb s2 = negb b.
Proof.
  unfold charge, pendb. destruct (s_bst s) eqn:E; try discriminate.
  - intro H. injection H as H. split; auto.
    pose proof (src_after_pend (mkSrc (s_pc s) (s_gds s) (s_cur s) a BInit (s_ret s) (s_exn s) (s_done s)) (exec (s_pc s) (s_gds s) (s_cur s) a)) as HP.
    rewrite H in HP. exact HP.
  - intro H. split; auto.
    pose proof (src_after_pend (mkSrc (s_pc s) (s_gds s) a a BYield (s_ret s) (s_exn s) (s_done s)) (exec (s_pc s) (s_gds s) a a)) as HP.
    destruct (src_after _ _) as [[s3 b3] ev3]. injection H as -> -> _. exact HP.
Qed.

Lemma complete_pend s v s2 b ev : complete_src s v = Some (s2, b, ev) -> pendb s = true /\ pendb s2 = negb b.
Proof.
  unfold complete_src, pendb. destruct (s_bst s) eqn:E; try discriminate.
  intro H. split; auto.
  pose proof (src_after_pend s (exec (s_pc s) (s_gds s) (s_cur s) (s_arg s))) as HP.
  destruct (src_after _ _) as [[s3 b3] ev3]. injection H as -> -> _. exact HP.
Qed.

(* ---------- the main loop ---------- *)
Definition is_yield (o : outcome) : nat := match o with OYield _ _ => 1 | _ => 0 end.

(* accounting of one run of the loop: every iteration that does not stop retires one source (count - 1) and
   consumes one completion (queue - 1); a yield consumes one completion and retires nobody *)
Lemma agg_loop_acc : forall l q c x,
  let '(o, q', c', x') := agg_loop l q c x in
  c' + length q = c + length q' + is_yield o /\
  (o = OWait -> q' = [] /\ c' > 0) /\
  (match o with OThrow _ | ORet => c' = 0 | _ => True end) /\
  (forall j, In j q' -> In j q) /\
  (forall i v, o = OYield i v -> In i q /\ s_ret (get_src l i) = Some v /\ s_done (get_src l i) = false /\ s_exn (get_src l i) = None).
Proof.
  intros l q. induction q as [|i q IH]; intros c x.
  - destruct c; cbn.
    + destruct x; repeat split; auto; try discriminate; intros; discriminate.
    + repeat split; auto; try lia; intros; discriminate.
  - destruct c as [|c]; cbn [agg_loop].
    + destruct x; cbn; repeat split; auto; try discriminate; intros; discriminate.
    + destruct (s_done (get_src l i)) eqn:Ed.
      { specialize (IH c x). destruct (agg_loop l q c x) as [[[o q'] c'] x'].
        destruct IH as (H1 & H2 & H3 & H4 & H5). cbn [length].
        split; [lia|]. split; [exact H2|]. split; [exact H3|]. split; [intros j Hj; right; auto|].
        intros i0 v Ho. destruct (H5 i0 v Ho) as (Ha & Hb). split; [right; exact Ha|exact Hb]. }
      destruct (s_exn (get_src l i)) eqn:Ex.
      { specialize (IH c (Some z)). destruct (agg_loop l q c (Some z)) as [[[o q'] c'] x'].
        destruct IH as (H1 & H2 & H3 & H4 & H5). cbn [length].
        split; [lia|]. split; [exact H2|]. split; [exact H3|]. split; [intros j Hj; right; auto|].
        intros i0 v Ho. destruct (H5 i0 v Ho) as (Ha & Hb). split; [right; exact Ha|exact Hb]. }
      destruct (s_ret (get_src l i)) eqn:Er.
      { cbn. split; [lia|]. split; [discriminate|]. split; [exact I|]. split; [intros j Hj; right; auto|].
        intros i0 v Ho. injection Ho as <- <-. repeat split; auto. }
      { specialize (IH c (Some (-1)%Z)). destruct (agg_loop l q c (Some (-1)%Z)) as [[[o q'] c'] x'].
        destruct IH as (H1 & H2 & H3 & H4 & H5). cbn [length].
        split; [lia|]. split; [exact H2|]. split; [exact H3|]. split; [intros j Hj; right; auto|].
        intros i0 v Ho. destruct (H5 i0 v Ho) as (Ha & Hb). split; [right; exact Ha|exact Hb]. }
Qed.

(* a remembered exception is never forgotten, and it is reported only when no source is active any more;
   the normal end is reached only without a remembered exception *)
Lemma agg_loop_exception : forall l q c x,
  let '(o, _, c', x') := agg_loop l q c x in
  (x <> None -> x' <> None) /\
  (forall e, o = OThrow e -> c' = 0 /\ x' = Some e) /\
  (o = ORet -> c' = 0 /\ x' = None /\ x = None).
Proof.
  intros l q. induction q as [|i q IH]; intros c x.
  - destruct c; cbn.
    + destruct x as [e0|]; cbn; (split; [auto|]);
      (split; [intros e1 H; try discriminate; try (injection H as <-; auto) | intro H; try discriminate; auto]).
    + repeat split; auto; intros; discriminate.
  - destruct c as [|c]; cbn [agg_loop].
    + destruct x as [e0|]; cbn; (split; [auto|]);
      (split; [intros e1 H; try discriminate; try (injection H as <-; auto) | intro H; try discriminate; auto]).
    + destruct (s_done (get_src l i)); [apply IH|].
      destruct (s_exn (get_src l i)).
      { specialize (IH c (Some z)). destruct (agg_loop l q c (Some z)) as [[[o q'] c'] x'].
        destruct IH as (H1 & H2 & H3). split; [intros _; apply H1; discriminate|]. split; [exact H2|].
        intro Ho. destruct (H3 Ho) as (_ & _ & Hx). discriminate. }
      destruct (s_ret (get_src l i)).
      { repeat split; auto; intros; discriminate. }
      { specialize (IH c (Some (-1)%Z)). destruct (agg_loop l q c (Some (-1)%Z)) as [[[o q'] c'] x'].
        destruct IH as (H1 & H2 & H3). split; [intros _; apply H1; discriminate|]. split; [exact H2|].
        intro Ho. destruct (H3 Ho) as (_ & _ & Hx). discriminate. }
Qed.

(* ---------- the controller's destructor ---------- *)
Lemma drain_acc : forall q c,
  let '(q', c', blocked) := drain q c in
  c' + length q = c + length q' /\
  (blocked = true -> q' = [] /\ c' > 1) /\
  (blocked = false -> c' <= 1) /\
  (forall j, In j q' -> In j q).
Proof.
  induction q as [|i q IH]; intros c.
  - destruct c as [|[|c]]; cbn; repeat split; auto; try lia; try discriminate.
  - destruct c as [|[|c]]; cbn [drain]; try (cbn; repeat split; auto; try lia; discriminate).
    specialize (IH (S c)). destruct (drain q (S c)) as [[q' c'] bl].
    destruct IH as (H1 & H2 & H3 & H4). cbn [length]. repeat split; auto; try lia; try (apply H2; auto); try (apply H3; auto).
    intros j Hj. right. auto.
Qed.

(* ---------- start-up ---------- *)
Lemma charge_all_acc : forall l i a dl q ev e,
  Forall (fun s => s_bst s = BInit) l ->
  let '(l', q', ev', e') := charge_all l i a dl q ev e in
  length q' + npend l' = length q + npend (rev dl) + length l /\
  length l' = length dl + length l /\ e' = e /\
  (Forall (fun j => j < i) q -> Forall (fun j => j < i + length l) q').
Proof.
  induction l as [|s t IH]; intros i a dl q ev e HF.
  - cbn. rewrite rev_length. repeat split; auto; try lia.
    intro H. eapply Forall_impl; [|exact H]. cbn. intros; lia.
  - inversion HF as [|? ? Hs Ht]; subst. cbn [charge_all].
    destruct (charge s a) as [[[s1 b] e1]|] eqn:Ec.
    + pose proof (charge_pend s a s1 b e1 Ec) as [_ Hp].
      specialize (IH (S i) a (s1 :: dl) (if b then q ++ [i] else q) (ev ++ map (fun x => (i, x)) e1) e Ht).
      destruct (charge_all t (S i) a (s1 :: dl) _ _ e) as [[[l' q'] ev'] e'].
      destruct IH as (H1 & H2 & H3 & H4). cbn [rev length] in *. rewrite npend_app in H1. cbn [npend] in H1.
      split. { destruct b; cbn in Hp; rewrite Hp in H1; cbn in H1; rewrite ?app_length in H1; cbn in H1; lia. }
      split; [lia|]. split; [exact H3|].
      { intro Hq. assert (Hq' : Forall (fun j => j < S i) (if b then q ++ [i] else q)).
        { destruct b; [apply Forall_app; split|]; try (eapply Forall_impl; [|exact Hq]; cbn; intros; lia). constructor; [lia|constructor]. }
        specialize (H4 Hq'). eapply Forall_impl; [|exact H4]. cbn. intros; lia. }
    + unfold charge in Ec. rewrite Hs in Ec. discriminate.
Qed.

(* ---------- the accounting invariant ---------- *)
Definition QB (l : list src) (q : list nat) : Prop := Forall (fun j => j < length l) q.

Definition AInv (g : agg) : Prop :=
  match ast g with
  | ANew => Forall (fun s => s_bst s = BInit) (srcs g)
  | AInit => count g = length (srcs g) /\ Forall (fun s => s_bst s = BInit) (srcs g) /\ queue g = []
  | AYield i => count g = length (queue g) + npend (srcs g) + 1 /\ i < length (srcs g) /\ QB (srcs g) (queue g)
  | AWait => count g = npend (srcs g) /\ queue g = [] /\ count g > 0 /\ aout g <> None
  | AFinal => count g = 0 /\ queue g = [] /\ npend (srcs g) = 0
  | ADying => count g = npend (srcs g) + 1 /\ queue g = [] /\ count g > 1
  | ADead => True
  end.

Lemma apply_outcome_inv : forall g l q c x y,
  c = length q + npend l -> QB l q ->
  AInv (fst (apply_outcome g l (agg_loop l q c x) y)).
Proof.
  intros g l q c x y Hc Hq.
  pose proof (agg_loop_acc l q c x) as HA.
  destruct (agg_loop l q c x) as [[[o q'] c'] x'].
  destruct HA as (H1 & H2 & H3 & H4 & H5).
  destruct o as [i v| |e|]; unfold apply_outcome, AInv; cbn [fst ast count queue srcs aout is_yield] in *.
  - destruct (H5 i v eq_refl) as (Hin & _).
    split; [lia|]. split.
    + unfold QB in Hq. rewrite Forall_forall in Hq. apply Hq. exact Hin.
    + unfold QB in *. rewrite Forall_forall in *. intros j Hj. apply Hq. apply H4. exact Hj.
  - destruct (H2 eq_refl) as (-> & Hp). cbn [length] in *. repeat split; try lia. discriminate.
  - subst c'. assert (length q' = 0) by lia. destruct q'; [|discriminate]. repeat split; try lia.
  - subst c'. assert (length q' = 0) by lia. destruct q'; [|discriminate]. repeat split; try lia.
Qed.

Lemma npend_zero_nth : forall l i, npend l = 0 -> pendb (nth i l (src0 [])) = false.
Proof.
  induction l as [|s t IH]; intros i H; [destruct i; reflexivity|].
  cbn in H. destruct i; cbn.
  - destruct (pendb s); [cbn in H; lia|reflexivity].
  - apply IH. lia.
Qed.

Lemma npend_pos_exists : forall l, npend l > 0 -> exists i, i < length l /\ pendb (nth i l (src0 [])) = true.
Proof.
  induction l as [|s t IH]; cbn; intro H; [lia|].
  destruct (pendb s) eqn:E.
  - exists 0. split; [lia|exact E].
  - cbn in H. destruct (IH H) as (i & Hi & Hp). exists (S i). split; [lia|exact Hp].
Qed.

Lemma forall_init_nth : forall l i, Forall (fun s => s_bst s = BInit) l -> s_bst (nth i l (src0 [])) = BInit.
Proof.
  induction l as [|s t IH]; intros i H; [destruct i; reflexivity|].
  inversion H; subst. destruct i; cbn; auto.
Qed.

Lemma step_inv : forall ha g x, AInv g -> AInv (fst (step ha g x)).
Proof.
  intros ha g x HI. destruct x as [sc| |y a|i v| | |]; cbn [step].
  - (* Source *)
    unfold AInv in HI. destruct (ast g) eqn:Ea; try exact (eq_ind _ (fun a => match a with ANew => _ | _ => _ end) HI _ (eq_sym Ea));
    try (cbn [fst]; unfold AInv; rewrite Ea; exact HI).
    destruct (Nat.ltb (length (srcs g)) 12); cbn [fst]; unfold AInv; [cbn [ast srcs]|rewrite Ea; exact HI].
    apply Forall_app. split; [exact HI|]. constructor; [reflexivity|constructor].
  - (* Build *)
    unfold AInv in HI. destruct (ast g) eqn:Ea; try (cbn [fst]; unfold AInv; rewrite Ea; exact HI).
    cbn [fst]. unfold AInv. cbn. repeat split; auto.
  - (* Access *)
    destruct (idle g && style_ok ha y); [|exact HI].
    unfold AInv in HI. destruct (ast g) eqn:Ea; try (cbn [fst]; unfold AInv; rewrite Ea; exact HI).
    + (* AInit *)
      destruct HI as (Hc & HF & Hq).
      pose proof (charge_all_acc (srcs g) 0 a [] [] [] false HF) as HC.
      destruct (charge_all (srcs g) 0 a [] [] [] false) as [[[l q] ev] e].
      destruct HC as (H1 & H2 & H3 & H4). cbn [rev npend length] in *.
      pose proof (apply_outcome_inv (mkAgg l q (count g) (aexp g) (ast g) (aret g) (aexn g) (adone g) (aout g) (aerr g || e)) l q (count g) (aexp g) y) as HA.
      destruct (apply_outcome _ l (agg_loop l q (count g) (aexp g)) y) as [g1 r]. cbn [fst] in *.
      apply HA; [lia|]. unfold QB. rewrite H2. apply H4. constructor.
    + (* AYield *)
      destruct HI as (Hc & Hi & Hq).
      destruct (charge (get_src (srcs g) i) a) as [[[s1 b] e]|] eqn:Ec.
      * pose proof (charge_pend _ _ _ _ _ Ec) as [Hp0 Hp1].
        pose proof (npend_set (srcs g) i s1 Hi) as HN. unfold get_src in Hp0. rewrite Hp0, Hp1 in HN.
        pose proof (apply_outcome_inv g (set_src (srcs g) i s1) (if b then queue g ++ [i] else queue g) (count g) (aexp g) y) as HA.
        destruct (apply_outcome g _ _ y) as [g1 r]. cbn [fst] in *.
        apply HA.
        { unfold set_src. destruct b; cbn in HN; rewrite ?app_length; cbn; lia. }
        { unfold QB, set_src. rewrite set_nth_length. destruct b; [apply Forall_app; split; [exact Hq|constructor; [exact Hi|constructor]]|exact Hq]. }
      * pose proof (apply_outcome_inv g (srcs g) (queue g) (pred (count g)) (Some (-2)%Z) y) as HA.
        destruct (apply_outcome g (srcs g) _ y) as [g1 r]. cbn [fst] in *.
        assert (HA' : AInv g1) by (apply HA; [lia|exact Hq]).
        unfold AInv in *. cbn [ast count queue srcs aout]. exact HA'.
  - (* Complete *)
    unfold AInv in HI.
    destruct (ast g) eqn:Ea; try (cbn [fst]; unfold AInv; rewrite Ea; exact HI);
    (destruct (Nat.ltb i (length (srcs g))) eqn:Hlt; [|cbn [fst]; unfold AInv; rewrite Ea; exact HI]);
    apply Nat.ltb_lt in Hlt;
    (destruct (complete_src (get_src (srcs g) i) v) as [[[s1 b] e]|] eqn:Ec; [|cbn [fst]; unfold AInv; rewrite Ea; exact HI]);
    pose proof (complete_pend _ _ _ _ _ Ec) as [Hp0 Hp1];
    pose proof (npend_set (srcs g) i s1 Hlt) as HN; unfold get_src in Hp0; rewrite Hp0, Hp1 in HN.
    + (* AInit: impossible *)
      destruct HI as (_ & HF & _). pose proof (forall_init_nth (srcs g) i HF) as HB.
      unfold pendb in Hp0. rewrite HB in Hp0. discriminate.
    + (* AYield *)
      destruct HI as (Hc & Hi & Hq). cbn [fst]. unfold AInv. cbn [ast count queue srcs]. unfold set_src.
      rewrite set_nth_length.
      split. { destruct b; cbn in HN; rewrite ?app_length; cbn; lia. }
      split; [exact Hi|].
      unfold QB. rewrite set_nth_length. destruct b; [apply Forall_app; split; [exact Hq|constructor; [exact Hlt|constructor]]|exact Hq].
    + (* AWait *)
      destruct HI as (Hc & Hq & Hpos & Ho).
      destruct (aout g) as [y|] eqn:Eo; [|congruence].
      pose proof (apply_outcome_inv g (set_src (srcs g) i s1) (if b then queue g ++ [i] else queue g) (count g) (aexp g) y) as HA.
      destruct (apply_outcome g _ _ y) as [g1 r]. cbn [fst] in *.
      apply HA.
      { rewrite Hq. unfold set_src. destruct b; cbn in HN; cbn; lia. }
      { unfold QB, set_src. rewrite set_nth_length, Hq. destruct b; cbn; [constructor; [exact Hlt|constructor]|constructor]. }
    + (* AFinal: impossible *)
      destruct HI as (_ & _ & Hn). pose proof (npend_zero_nth (srcs g) i Hn) as HB. congruence.
    + (* ADying *)
      destruct HI as (Hc & Hq & Hpos).
      pose proof (drain_acc (if b then queue g ++ [i] else queue g) (count g)) as HD.
      destruct (drain (if b then queue g ++ [i] else queue g) (count g)) as [[q1 c1] bl].
      destruct HD as (H1 & H2 & H3 & H4).
      destruct bl; cbn [fst]; unfold AInv; cbn [ast count queue srcs]; [|exact I].
      destruct (H2 eq_refl) as (-> & Hc1). unfold set_src. rewrite Hq in H1.
      split; [destruct b; cbn in HN, H1; cbn; lia|]. split; [reflexivity|exact Hc1].
  - (* Destroy *)
    destruct (idle g); [|exact HI].
    unfold AInv in HI. destruct (ast g) eqn:Ea; try (cbn [fst]; unfold AInv; rewrite Ea; exact HI);
    try (cbn [fst finish_destroy]; unfold AInv; cbn; exact I).
    + pose proof (drain_acc (queue g) (count g)) as HD.
      destruct (drain (queue g) (count g)) as [[q1 c1] bl]. destruct HD as (H1 & H2 & H3 & H4).
      destruct HI as (Hc & Hi & Hq).
      destruct bl; cbn [fst finish_destroy]; unfold AInv; cbn [ast count queue srcs]; [|exact I].
      destruct (H2 eq_refl) as (-> & Hc1). cbn in H1. split; [lia|]. split; [reflexivity|exact Hc1].
    + pose proof (drain_acc (queue g) (count g)) as HD.
      destruct (drain (queue g) (count g)) as [[q1 c1] bl]. destruct HD as (H1 & H2 & H3 & H4).
      destruct HI as (Hc & Hq & Hn).
      destruct bl; cbn [fst finish_destroy]; unfold AInv; cbn [ast count queue srcs]; [|exact I].
      destruct (H2 eq_refl) as (-> & Hc1). rewrite Hq in H1. cbn in H1. lia.
  - (* Peek *)
    destruct (idle g); [|exact HI]. destruct (ast g); exact HI.
  - exact HI.
Qed.

Lemma run_cons ha g x ops :
  run_from ha g (x :: ops) =
  (snd (step ha g x) :: fst (run_from ha (fst (step ha g x)) ops), snd (run_from ha (fst (step ha g x)) ops)).
Proof. cbn [run_from]. destruct (step ha g x) as [g1 o]. cbn [fst snd]. destruct (run_from ha g1 ops); reflexivity. Qed.

Lemma run_inv : forall ha ops g, AInv g -> AInv (snd (run_from ha g ops)).
Proof.
  induction ops as [|x ops IH]; intros g HI; [exact HI|].
  rewrite run_cons. cbn [snd]. apply IH. apply step_inv. exact HI.
Qed.

Lemma inv0 : AInv agg0.
Proof. unfold AInv. cbn. constructor. Qed.

(* C14 accounting: in every reachable state, every active source is exactly one of: queued (its completion is in
   the queue), in flight (suspended on a pending await), or the one whose value the consumer holds *)
Theorem aggr_accounting : forall ha ops, AInv (snd (run_from ha agg0 ops)).
Proof. intros. apply run_inv. exact inv0. Qed.

(* ends_iff_all_ended (only-if): the aggregate reaches its end only when no source is active, queued or in flight *)
Theorem aggr_end_means_all_ended : forall ha ops,
  let g := snd (run_from ha agg0 ops) in
  ast g = AFinal -> count g = 0 /\ queue g = [] /\ npend (srcs g) = 0.
Proof.
  intros ha ops g Hf. pose proof (aggr_accounting ha ops) as HI. fold g in HI.
  unfold AInv in HI. rewrite Hf in HI. exact HI.
Qed.

(* destroy_parked: destroying the aggregate parked at a yield pops the whole completion queue and then needs exactly
   one more completion per source still in flight; it blocks iff such a source exists, and then a completion op for
   some suspended source is enabled (nothing blocks forever once the in-flight sources complete) *)
Theorem aggr_destroy_exact : forall ha ops i,
  let g := snd (run_from ha agg0 ops) in
  ast g = AYield i ->
  let '(q1, c1, blocked) := drain (queue g) (count g) in
  q1 = [] /\ c1 = npend (srcs g) + 1 /\
  (blocked = true <-> npend (srcs g) > 0) /\
  (blocked = true -> exists j, j < length (srcs g) /\ pendb (nth j (srcs g) (src0 [])) = true).
Proof.
  intros ha ops i g Hy. pose proof (aggr_accounting ha ops) as HI. fold g in HI.
  unfold AInv in HI. rewrite Hy in HI. destruct HI as (Hc & Hi & Hq).
  pose proof (drain_acc (queue g) (count g)) as HD.
  destruct (drain (queue g) (count g)) as [[q1 c1] bl]. destruct HD as (H1 & H2 & H3 & H4).
  destruct bl.
  - destruct (H2 eq_refl) as (-> & Hc1). cbn in H1.
    assert (npend (srcs g) > 0) by lia.
    repeat split; auto; try lia. intros _. apply npend_pos_exists. exact H.
  - specialize (H3 eq_refl). assert (length q1 = 0) by lia. destruct q1; [|discriminate]. cbn in H1.
    repeat split; auto; try lia; try discriminate.
Qed.

(* while the destructor is blocked the same accounting holds, so every completion that fires brings it one step
   closer and the last one lets it finish *)
Theorem aggr_dying_accounting : forall ha ops,
  let g := snd (run_from ha agg0 ops) in
  ast g = ADying -> count g = npend (srcs g) + 1 /\ queue g = [] /\ npend (srcs g) > 0.
Proof.
  intros ha ops g Hd. pose proof (aggr_accounting ha ops) as HI. fold g in HI.
  unfold AInv in HI. rewrite Hd in HI. destruct HI as (Hc & Hq & Hp). repeat split; auto. lia.
Qed.

(* once destroyed, every source frame was destroyed by that one step and nothing is accepted any more *)
Theorem aggr_dead_rejects : forall ha g x, ast g = ADead -> aout g = None -> snd (step ha g x) = rejected.
Proof.
  intros ha g x Hd Ho. destruct x; cbn [step]; rewrite ?Hd; auto.
  - unfold idle. rewrite Ho. cbn. destruct (style_ok ha y); reflexivity.
  - unfold idle. rewrite Ho. reflexivity.
  - unfold idle. rewrite Ho. reflexivity.
Qed.
