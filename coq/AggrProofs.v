(* AggrProofs.v — invariants and theorems for the generator_aggregator model (C14). *)
From Cocls Require Import Base BaseProofs GenDefs GenProofs AggrDefs.
Require Import ZifyBool.
Ltac Zify.zify_post_hook ::= Z.div_mod_to_equations.
Local Open Scope nat_scope.

Definition pendb (s : src) : bool := match s_bst s with BPend _ => true | _ => false end.
Definition b2n (b : bool) : nat := if b then 1 else 0.

Fixpoint npend (l : list src) : nat :=
  match l with [] => 0 | s :: t => b2n (pendb s) + npend t end.

Lemma npend_app a b : npend (a ++ b) = npend a + npend b.
Proof. induction a; cbn; auto. rewrite IHa. lia. Qed.

Lemma npend_set : forall l i s, i < length l ->
  npend (set_nth l i s) + b2n (pendb (nth i l (src0 []))) = npend l + b2n (pendb s).
Proof.
  induction l as [|h t IH]; intros i s Hi; [cbn in Hi; lia|].
  destruct i; cbn [set_nth nth npend]; [lia|].
  cbn in Hi. specialize (IH i s ltac:(lia)). lia.
Qed.

Lemma set_nth_length {A} (l : list A) i x : length (set_nth l i x) = length l.
Proof. revert i; induction l; intros [|i]; cbn; auto. Qed.

(* ---------- the sources ---------- *)
Lemma src_after_pend s r : let '(s2, b, _) := src_after s r in pendb s2 = negb b.
Proof. destruct r as [[[[st p] g] c] ev]. destruct st; reflexivity. Qed.

Lemma charge_pend s a s2 b ev : charge s a = Some (s2, b, ev) -> pendb s = false /\ pendb s2 = negb b.
Proof.
  unfold charge, pendb. destruct (s_bst s) eqn:E; try discriminate.
  - intro H. injection H as H. split; auto.
    pose proof (src_after_pend (mkSrc (s_pc s) (s_gds s) (s_cur s) a BInit (s_ret s) (s_exn s) (s_done s)) (exec (s_pc s) (s_gds s) (s_cur s) a)) as HP.
    rewrite H in HP. exact HP.
  - intro H. split; auto.
    pose proof (src_after_pend (mkSrc (s_pc s) (s_gds s) a a BYield (s_ret s) (s_exn s) (s_done s)) (exec (s_pc s) (s_gds s) a a)) as HP.
    destruct (src_after _ _) as [[s3 b3] ev3]. injection H as -> -> _. exact HP.
Qed.

Lemma complete_pend s v s2 b ev : complete_src s v = Some (s2, b, ev) -> pendb s = true /\ pendb s2 = negb b.
Proof.
  unfold complete_src, pendb. destruct (s_bst s) eqn:E; try discriminate.
  intro H. split; auto.
  pose proof (src_after_pend s (exec (s_pc s) (s_gds s) (s_cur s) (s_arg s))) as HP.
  destruct (src_after _ _) as [[s3 b3] ev3]. injection H as -> -> _. exact HP.
Qed.

(* ---------- the main loop ---------- *)
Definition is_yield (o : outcome) : nat := match o with OYield _ _ => 1 | _ => 0 end.

(* accounting of one run of the loop: every iteration that does not stop retires one source (count - 1) and
   consumes one completion (queue - 1); a yield consumes one completion and retires nobody *)
Lemma agg_loop_acc : forall l q c x,
  let '(o, q', c', x') := agg_loop l q c x in
  c' + length q = c + length q' + is_yield o /\
  (o = OWait -> q' = [] /\ c' > 0) /\
  (match o with OThrow _ | ORet => c' = 0 | _ => True end) /\
  (forall j, In j q' -> In j q) /\
  (forall i v, o = OYield i v -> In i q /\ s_ret (get_src l i) = Some v /\ s_done (get_src l i) = false /\ s_exn (get_src l i) = None).
Proof.
  intros l q. induction q as [|i q IH]; intros c x.
  - destruct c; cbn.
    + destruct x; repeat split; auto; try discriminate; intros; discriminate.
    + repeat split; auto; try lia; intros; discriminate.
  - destruct c as [|c]; cbn [agg_loop].
    + destruct x; cbn; repeat split; auto; try discriminate; intros; discriminate.
    + destruct (s_done (get_src l i)) eqn:Ed.
      { specialize (IH c x). destruct (agg_loop l q c x) as [[[o q'] c'] x'].
        destruct IH as (H1 & H2 & H3 & H4 & H5). cbn [length].
        split; [lia|]. split; [exact H2|]. split; [exact H3|]. split; [intros j Hj; right; auto|].
        intros i0 v Ho. destruct (H5 i0 v Ho) as (Ha & Hb). split; [right; exact Ha|exact Hb]. }
      destruct (s_exn (get_src l i)) eqn:Ex.
      { specialize (IH c (Some z)). destruct (agg_loop l q c (Some z)) as [[[o q'] c'] x'].
        destruct IH as (H1 & H2 & H3 & H4 & H5). cbn [length].
        split; [lia|]. split; [exact H2|]. split; [exact H3|]. split; [intros j Hj; right; auto|].
        intros i0 v Ho. destruct (H5 i0 v Ho) as (Ha & Hb). split; [right; exact Ha|exact Hb]. }
      destruct (s_ret (get_src l i)) eqn:Er.
      { cbn. split; [lia|]. split; [discriminate|]. split; [exact I|]. split; [intros j Hj; right; auto|].
        intros i0 v Ho. injection Ho as <- <-. repeat split; auto. }
      { specialize (IH c (Some (-1)%Z)). destruct (agg_loop l q c (Some (-1)%Z)) as [[[o q'] c'] x'].
        destruct IH as (H1 & H2 & H3 & H4 & H5). cbn [length].
        split; [lia|]. split; [exact H2|]. split; [exact H3|]. split; [intros j Hj; right; auto|].
        intros i0 v Ho. destruct (H5 i0 v Ho) as (Ha & Hb). split; [right; exact Ha|exact Hb]. }
Qed.

(* a remembered exception is never forgotten, and it is reported only when no source is active any more;
   the normal end is reached only without a remembered exception *)
Lemma agg_loop_exception : forall l q c x,
  let '(o, _, c', x') := agg_loop l q c x in
  (x <> None -> x' <> None) /\
  (forall e, o = OThrow e -> c' = 0 /\ x' = Some e) /\
  (o = ORet -> c' = 0 /\ x' = None /\ x = None).
Proof.
  intros l q. induction q as [|i q IH]; intros c x.
  - destruct c; cbn.
    + destruct x as [e0|]; cbn; (split; [auto|]);
      (split; [intros e1 H; try discriminate; try (injection H as <-; auto) | intro H; try discriminate; auto]).
    + repeat split; auto; intros; discriminate.
  - destruct c as [|c]; cbn [agg_loop].
    + destruct x as [e0|]; cbn; (split; [auto|]);
      (split; [intros e1 H; try discriminate; try (injection H as <-; auto) | intro H; try discriminate; auto]).
    + destruct (s_done (get_src l i)); [apply IH|].
      destruct (s_exn (get_src l i)).
      { specialize (IH c (Some z)). destruct (agg_loop l q c (Some z)) as [[[o q'] c'] x'].
        destruct IH as (H1 & H2 & H3). split; [intros _; apply H1; discriminate|]. split; [exact H2|].
        intro Ho. destruct (H3 Ho) as (_ & _ & Hx). discriminate. }
      destruct (s_ret (get_src l i)).
      { repeat split; auto; intros; discriminate. }
      { specialize (IH c (Some (-1)%Z)). destruct (agg_loop l q c (Some (-1)%Z)) as [[[o q'] c'] x'].
        destruct IH as (H1 & H2 & H3). split; [intros _; apply H1; discriminate|]. split; [exact H2|].
        intro Ho. destruct (H3 Ho) as (_ & _ & Hx). discriminate. }
Qed.

(* ---------- the controller's destructor ---------- *)
Lemma drain_acc : forall q c,
  let '(q', c', blocked) := drain q c in
  c' + length q = c + length q' /\
  (blocked = true -> q' = [] /\ c' > 1) /\
  (blocked = false -> c' <= 1) /\
  (forall j, In j q' -> In j q).
Proof.
  induction q as [|i q IH]; intros c.
  - destruct c as [|[|c]]; cbn; repeat split; auto; try lia; try discriminate.
  - destruct c as [|[|c]]; cbn [drain]; try (cbn; repeat split; auto; try lia; discriminate).
    specialize (IH (S c)). destruct (drain q (S c)) as [[q' c'] bl].
    destruct IH as (H1 & H2 & H3 & H4). cbn [length]. repeat split; auto; try lia; try (apply H2; auto); try (apply H3; auto).
    intros j Hj. right. auto.
Qed.

(* ---------- start-up ---------- *)
Definition QB (l : list src) (q : list nat) : Prop := Forall (fun j => j < length l) q.

Lemma remove_first_perm x q : mem_nat x q = true -> Permutation q (x :: remove_first x q).
Proof.
  induction q as [|y t IH]; cbn; [discriminate|].
  destruct (Nat.eqb x y) eqn:E; cbn; intro H.
  - apply Nat.eqb_eq in E. subst. apply Permutation_refl.
  - eapply perm_trans; [apply perm_skip; apply IH; exact H|apply perm_swap].
Qed.

Lemma reorder_perm : forall p q, Permutation (reorder q p) q.
Proof.
  induction p as [|x p IH]; intro q; cbn; [apply Permutation_refl|].
  destruct (mem_nat x q) eqn:E; [|apply IH].
  eapply perm_trans; [apply perm_skip; apply IH|]. apply Permutation_sym. apply remove_first_perm. exact E.
Qed.

Lemma reorder_length q p : length (reorder q p) = length q.
Proof. apply Permutation_length. apply reorder_perm. Qed.

Lemma reorder_QB l q p : QB l q -> QB l (reorder q p).
Proof. unfold QB. intro H. eapply Permutation_Forall; [apply Permutation_sym; apply reorder_perm|exact H]. Qed.

Lemma get_set_same l i s : i < length l -> get_src (set_src l i s) i = s.
Proof.
  unfold get_src, set_src. revert i. induction l as [|h t IH]; intros i Hi; [cbn in Hi; lia|].
  destruct i; cbn; auto. apply IH. cbn in Hi. lia.
Qed.

Lemma get_set_other l i j s : j <> i -> get_src (set_src l i s) j = get_src l j.
Proof.
  unfold get_src, set_src. revert i j. induction l as [|h t IH]; intros i j Hne; [destruct i; reflexivity|].
  destruct i, j; cbn; auto; try congruence.
Qed.

Lemma charge_from_acc : forall n i a l q ev e,
  i + n = length l ->
  (forall j, i <= j -> j < length l -> s_bst (get_src l j) = BInit) ->
  QB l q ->
  let '(l', q', ev', e') := charge_from n i a l q ev e in
  length q' + npend l' = length q + npend l + n /\ length l' = length l /\ e' = e /\ QB l' q' /\ (forall j, j < i -> get_src l' j = get_src l j).
Proof.
  induction n as [|n IH]; intros i a l q ev e Hn HB HQ.
  - cbn. repeat split; auto; lia.
  - cbn [charge_from].
    assert (Hi : i < length l) by lia.
    destruct (charge (get_src l i) a) as [[[s1 b] e1]|] eqn:Ec.
    + pose proof (charge_pend _ _ _ _ _ Ec) as [Hp0 Hp1].
      pose proof (npend_set l i s1 Hi) as HN. unfold get_src in Hp0. rewrite Hp0, Hp1 in HN.
      specialize (IH (S i) a (set_src l i s1) (if b then q ++ [i] else q) (ev ++ tag_ev i e1) e).
      unfold set_src in IH at 1 2. rewrite set_nth_length in IH.
      assert (H1 : S i + n = length l) by lia.
      assert (H2 : forall j, S i <= j -> j < length l -> s_bst (get_src (set_src l i s1) j) = BInit).
      { intros j Hj Hl. rewrite get_set_other by lia. apply HB; lia. }
      assert (H3 : QB (set_src l i s1) (if b then q ++ [i] else q)).
      { unfold QB, set_src. rewrite set_nth_length. destruct b; [apply Forall_app; split; [exact HQ|constructor; [exact Hi|constructor]]|exact HQ]. }
      specialize (IH H1 H2 H3).
      destruct (charge_from n (S i) a (set_src l i s1) _ _ e) as [[[l' q'] ev'] e'].
      destruct IH as (I1 & I2 & I3 & I4 & I5).
      unfold set_src in *. rewrite set_nth_length in I2.
      split. { destruct b; cbn in HN; rewrite ?app_length in I1; cbn in I1; lia. }
      split; [exact I2|]. split; [exact I3|]. split; [exact I4|].
      intros j Hj. rewrite I5 by lia. apply get_set_other. lia.
    + unfold charge in Ec. rewrite (HB i) in Ec by lia. discriminate.
Qed.

(* ---------- the accounting invariant ---------- *)

Definition AInv (g : agg) : Prop :=
  match ast g with
  | ANew => Forall (fun s => s_bst s = BInit) (srcs g)
  | AInit => count g = length (srcs g) /\ Forall (fun s => s_bst s = BInit) (srcs g) /\ queue g = []
  | AYield i => count g = length (queue g) + npend (srcs g) + 1 /\ i < length (srcs g) /\ QB (srcs g) (queue g)
  | AWait => count g = npend (srcs g) /\ queue g = [] /\ count g > 0 /\ aout g <> None
  | AFinal => count g = 0 /\ queue g = [] /\ npend (srcs g) = 0
  | ADying => count g = npend (srcs g) + 1 /\ queue g = [] /\ count g > 1
  | ADead => True
  end.

Lemma apply_outcome_inv : forall g l q c x y,
  c = length q + npend l -> QB l q ->
  AInv (fst (apply_outcome g l (agg_loop l q c x) y)).
Proof.
  intros g l q c x y Hc Hq.
  pose proof (agg_loop_acc l q c x) as HA.
  destruct (agg_loop l q c x) as [[[o q'] c'] x'].
  destruct HA as (H1 & H2 & H3 & H4 & H5).
  destruct o as [i v| |e|]; unfold apply_outcome, AInv; cbn [fst ast count queue srcs aout is_yield] in *.
  - destruct (H5 i v eq_refl) as (Hin & _).
    split; [lia|]. split.
    + unfold QB in Hq. rewrite Forall_forall in Hq. apply Hq. exact Hin.
    + unfold QB in *. rewrite Forall_forall in *. intros j Hj. apply Hq. apply H4. exact Hj.
  - destruct (H2 eq_refl) as (-> & Hp). cbn [length] in *. repeat split; try lia. discriminate.
  - subst c'. assert (length q' = 0) by lia. destruct q'; [|discriminate]. repeat split; try lia.
  - subst c'. assert (length q' = 0) by lia. destruct q'; [|discriminate]. repeat split; try lia.
Qed.

Lemma npend_zero_nth : forall l i, npend l = 0 -> pendb (nth i l (src0 [])) = false.
Proof.
  induction l as [|s t IH]; intros i H; [destruct i; reflexivity|].
  cbn in H. destruct i; cbn.
  - destruct (pendb s); [cbn in H; lia|reflexivity].
  - apply IH. lia.
Qed.

Lemma npend_pos_exists : forall l, npend l > 0 -> exists i, i < length l /\ pendb (nth i l (src0 [])) = true.
Proof.
  induction l as [|s t IH]; cbn; intro H; [lia|].
  destruct (pendb s) eqn:E.
  - exists 0. split; [lia|exact E].
  - cbn in H. destruct (IH H) as (i & Hi & Hp). exists (S i). split; [lia|exact Hp].
Qed.

Lemma forall_init_nth : forall l i, Forall (fun s => s_bst s = BInit) l -> s_bst (nth i l (src0 [])) = BInit.
Proof.
  induction l as [|s t IH]; intros i H; [destruct i; reflexivity|].
  inversion H; subst. destruct i; cbn; auto.
Qed.

Lemma step_inv : forall ha g x, AInv g -> AInv (fst (step ha g x)).
Proof.
  intros ha g x HI. destruct x as [sc| |y a p|i v p| | |]; cbn [step].
  - (* Source *)
    unfold AInv in HI. destruct (ast g) eqn:Ea; try exact (eq_ind _ (fun a => match a with ANew => _ | _ => _ end) HI _ (eq_sym Ea));
    try (cbn [fst]; unfold AInv; rewrite Ea; exact HI).
    destruct (Nat.ltb (length (srcs g)) 12); cbn [fst]; unfold AInv; [cbn [ast srcs]|rewrite Ea; exact HI].
    apply Forall_app. split; [exact HI|]. constructor; [reflexivity|constructor].
  - (* Build *)
    unfold AInv in HI. destruct (ast g) eqn:Ea; try (cbn [fst]; unfold AInv; rewrite Ea; exact HI).
    cbn [fst]. unfold AInv. cbn. repeat split; auto.
  - (* Access *)
    destruct (idle g && style_ok ha y); [|exact HI].
    unfold AInv in HI. destruct (ast g) eqn:Ea; try (cbn [fst]; unfold AInv; rewrite Ea; exact HI).
    + (* AInit *)
      destruct HI as (Hc & HF & Hq).
      assert (HB : forall j, 0 <= j -> j < length (srcs g) -> s_bst (get_src (srcs g) j) = BInit).
      { intros j _ _. apply forall_init_nth. exact HF. }
      pose proof (charge_from_acc (length (srcs g)) 0 a (srcs g) [] [] false eq_refl HB ltac:(constructor)) as HC.
      unfold charge_all.
      destruct (charge_from (length (srcs g)) 0 a (srcs g) [] [] false) as [[[l q] ev] e].
      destruct HC as (H1 & H2 & H3 & H4 & _). cbn [length] in *.
      assert (Hnp : npend (srcs g) = 0).
      { clear - HF. induction (srcs g) as [|s t IH]; [reflexivity|]. inversion HF; subst. cbn. unfold pendb. rewrite H1. cbn. apply IH. exact H2. }
      pose proof (apply_outcome_inv (mkAgg l (reorder q p) (count g) (aexp g) (ast g) (aret g) (aexn g) (adone g) (aout g) (aerr g || e)) l (reorder q p) (count g) (aexp g) y) as HA.
      destruct (apply_outcome _ l (agg_loop l (reorder q p) (count g) (aexp g)) y) as [g1 r]. cbn [fst] in *.
      apply HA; [rewrite reorder_length; lia|apply reorder_QB; exact H4].
    + (* AYield *)
      destruct HI as (Hc & Hi & Hq).
      destruct (charge (get_src (srcs g) i) a) as [[[s1 b] e]|] eqn:Ec.
      * pose proof (charge_pend _ _ _ _ _ Ec) as [Hp0 Hp1].
        pose proof (npend_set (srcs g) i s1 Hi) as HN. unfold get_src in Hp0. rewrite Hp0, Hp1 in HN.
        pose proof (apply_outcome_inv g (set_src (srcs g) i s1) (reorder (if b then queue g ++ [i] else queue g) p) (count g) (aexp g) y) as HA.
        destruct (apply_outcome g _ _ y) as [g1 r]. cbn [fst] in *.
        apply HA.
        { rewrite reorder_length. unfold set_src. destruct b; cbn in HN; rewrite ?app_length; cbn; lia. }
        { apply reorder_QB. unfold QB, set_src. rewrite set_nth_length. destruct b; [apply Forall_app; split; [exact Hq|constructor; [exact Hi|constructor]]|exact Hq]. }
      * pose proof (apply_outcome_inv g (srcs g) (queue g) (pred (count g)) (Some (-2)%Z) y) as HA.
        destruct (apply_outcome g (srcs g) _ y) as [g1 r]. cbn [fst] in *.
        assert (HA' : AInv g1) by (apply HA; [lia|exact Hq]).
        unfold AInv in *. cbn [ast count queue srcs aout]. exact HA'.
  - (* Complete *)
    unfold AInv in HI.
    destruct (ast g) eqn:Ea; try (cbn [fst]; unfold AInv; rewrite Ea; exact HI);
    (destruct (Nat.ltb i (length (srcs g))) eqn:Hlt; [|cbn [fst]; unfold AInv; rewrite Ea; exact HI]);
    apply Nat.ltb_lt in Hlt;
    (destruct (complete_src (get_src (srcs g) i) v) as [[[s1 b] e]|] eqn:Ec; [|cbn [fst]; unfold AInv; rewrite Ea; exact HI]);
    pose proof (complete_pend _ _ _ _ _ Ec) as [Hp0 Hp1];
    pose proof (npend_set (srcs g) i s1 Hlt) as HN; unfold get_src in Hp0; rewrite Hp0, Hp1 in HN.
    + (* AInit: impossible *)
      destruct HI as (_ & HF & _). pose proof (forall_init_nth (srcs g) i HF) as HB.
      unfold pendb in Hp0. rewrite HB in Hp0. discriminate.
    + (* AYield *)
      destruct HI as (Hc & Hi & Hq). cbn [fst]. unfold AInv. cbn [ast count queue srcs]. unfold set_src.
      rewrite set_nth_length.
      split. { destruct b; cbn in HN; rewrite ?app_length; cbn; lia. }
      split; [exact Hi|].
      unfold QB. rewrite set_nth_length. destruct b; [apply Forall_app; split; [exact Hq|constructor; [exact Hlt|constructor]]|exact Hq].
    + (* AWait *)
      destruct HI as (Hc & Hq & Hpos & Ho).
      destruct (aout g) as [y|] eqn:Eo; [|congruence].
      pose proof (apply_outcome_inv g (set_src (srcs g) i s1) (reorder (if b then queue g ++ [i] else queue g) p) (count g) (aexp g) y) as HA.
      destruct (apply_outcome g _ _ y) as [g1 r]. cbn [fst] in *.
      apply HA.
      { rewrite reorder_length, Hq. unfold set_src. destruct b; cbn in HN; cbn; lia. }
      { apply reorder_QB. unfold QB, set_src. rewrite set_nth_length, Hq. destruct b; cbn; [constructor; [exact Hlt|constructor]|constructor]. }
    + (* AFinal: impossible *)
      destruct HI as (_ & _ & Hn). pose proof (npend_zero_nth (srcs g) i Hn) as HB. congruence.
    + (* ADying *)
      destruct HI as (Hc & Hq & Hpos).
      pose proof (drain_acc (if b then queue g ++ [i] else queue g) (count g)) as HD.
      destruct (drain (if b then queue g ++ [i] else queue g) (count g)) as [[q1 c1] bl].
      destruct HD as (H1 & H2 & H3 & H4).
      destruct bl; cbn [fst]; unfold AInv; cbn [ast count queue srcs]; [|exact I].
      destruct (H2 eq_refl) as (-> & Hc1). unfold set_src. rewrite Hq in H1.
      split; [destruct b; cbn in HN, H1; cbn; lia|]. split; [reflexivity|exact Hc1].
  - (* Destroy *)
    destruct (idle g); [|exact HI].
    unfold AInv in HI. destruct (ast g) eqn:Ea; try (cbn [fst]; unfold AInv; rewrite Ea; exact HI);
    try (cbn [fst finish_destroy]; unfold AInv; cbn; exact I).
    + pose proof (drain_acc (queue g) (count g)) as HD.
      destruct (drain (queue g) (count g)) as [[q1 c1] bl]. destruct HD as (H1 & H2 & H3 & H4).
      destruct HI as (Hc & Hi & Hq).
      destruct bl; cbn [fst finish_destroy]; unfold AInv; cbn [ast count queue srcs]; [|exact I].
      destruct (H2 eq_refl) as (-> & Hc1). cbn in H1. split; [lia|]. split; [reflexivity|exact Hc1].
    + pose proof (drain_acc (queue g) (count g)) as HD.
      destruct (drain (queue g) (count g)) as [[q1 c1] bl]. destruct HD as (H1 & H2 & H3 & H4).
      destruct HI as (Hc & Hq & Hn).
      destruct bl; cbn [fst finish_destroy]; unfold AInv; cbn [ast count queue srcs]; [|exact I].
      destruct (H2 eq_refl) as (-> & Hc1). rewrite Hq in H1. cbn in H1. lia.
  - (* Peek *)
    destruct (idle g); [|exact HI]. destruct (ast g); exact HI.
  - exact HI.
Qed.

Lemma run_cons ha g x ops :
  run_from ha g (x :: ops) =
  (snd (step ha g x) :: fst (run_from ha (fst (step ha g x)) ops), snd (run_from ha (fst (step ha g x)) ops)).
Proof. cbn [run_from]. destruct (step ha g x) as [g1 o]. cbn [fst snd]. destruct (run_from ha g1 ops); reflexivity. Qed.

Lemma run_inv : forall ha ops g, AInv g -> AInv (snd (run_from ha g ops)).
Proof.
  induction ops as [|x ops IH]; intros g HI; [exact HI|].
  rewrite run_cons. cbn [snd]. apply IH. apply step_inv. exact HI.
Qed.

Lemma inv0 : AInv agg0.
Proof. unfold AInv. cbn. constructor. Qed.

(* C14 accounting: in every reachable state, every active source is exactly one of: queued (its completion is in
   the queue), in flight (suspended on a pending await), or the one whose value the consumer holds *)
Theorem aggr_accounting : forall ha ops, AInv (snd (run_from ha agg0 ops)).
Proof. intros. apply run_inv. exact inv0. Qed.

(* ends_iff_all_ended (only-if): the aggregate reaches its end only when no source is active, queued or in flight *)
Theorem aggr_end_means_all_ended : forall ha ops,
  let g := snd (run_from ha agg0 ops) in
  ast g = AFinal -> count g = 0 /\ queue g = [] /\ npend (srcs g) = 0.
Proof.
  intros ha ops g Hf. pose proof (aggr_accounting ha ops) as HI. fold g in HI.
  unfold AInv in HI. rewrite Hf in HI. exact HI.
Qed.

(* destroy_parked: destroying the aggregate parked at a yield pops the whole completion queue and then needs exactly
   one more completion per source still in flight; it blocks iff such a source exists, and then a completion op for
   some suspended source is enabled (nothing blocks forever once the in-flight sources complete) *)
Theorem aggr_destroy_exact : forall ha ops i,
  let g := snd (run_from ha agg0 ops) in
  ast g = AYield i ->
  let '(q1, c1, blocked) := drain (queue g) (count g) in
  q1 = [] /\ c1 = npend (srcs g) + 1 /\
  (blocked = true <-> npend (srcs g) > 0) /\
  (blocked = true -> exists j, j < length (srcs g) /\ pendb (nth j (srcs g) (src0 [])) = true).
Proof.
  intros ha ops i g Hy. pose proof (aggr_accounting ha ops) as HI. fold g in HI.
  unfold AInv in HI. rewrite Hy in HI. destruct HI as (Hc & Hi & Hq).
  pose proof (drain_acc (queue g) (count g)) as HD.
  destruct (drain (queue g) (count g)) as [[q1 c1] bl]. destruct HD as (H1 & H2 & H3 & H4).
  destruct bl.
  - destruct (H2 eq_refl) as (-> & Hc1). cbn in H1.
    assert (npend (srcs g) > 0) by lia.
    repeat split; auto; try lia. intros _. apply npend_pos_exists. exact H.
  - specialize (H3 eq_refl). assert (length q1 = 0) by lia. destruct q1; [|discriminate]. cbn in H1.
    repeat split; auto; try lia; try discriminate.
Qed.

(* while the destructor is blocked the same accounting holds, so every completion that fires brings it one step
   closer and the last one lets it finish *)
Theorem aggr_dying_accounting : forall ha ops,
  let g := snd (run_from ha agg0 ops) in
  ast g = ADying -> count g = npend (srcs g) + 1 /\ queue g = [] /\ npend (srcs g) > 0.
Proof.
  intros ha ops g Hd. pose proof (aggr_accounting ha ops) as HI. fold g in HI.
  unfold AInv in HI. rewrite Hd in HI. destruct HI as (Hc & Hq & Hp). repeat split; auto. lia.
Qed.

(* once destroyed, every source frame was destroyed by that one step and nothing is accepted any more *)
Theorem aggr_dead_rejects : forall ha g x, ast g = ADead -> aout g = None -> snd (step ha g x) = rejected.
Proof.
  intros ha g x Hd Ho. destruct x; cbn [step]; rewrite ?Hd; auto.
  - unfold idle. rewrite Ho. cbn. destruct (style_ok ha y); reflexivity.
  - unfold idle. rewrite Ho. reflexivity.
  - unfold idle. rewrite Ho. reflexivity.
Qed.

(* ======================= per-source order, union, argument routing ======================= *)

(* values of source j among the delivered (source, value) pairs *)
Definition dj (D : list (nat * Z)) (j : nat) : list Z :=
  map snd (filter (fun p => Nat.eqb (fst p) j) D).

Lemma dj_snoc D i v j : dj (D ++ [(i, v)]) j = if Nat.eqb i j then dj D j ++ [v] else dj D j.
Proof.
  unfold dj. rewrite filter_app, map_app. cbn. destruct (Nat.eqb i j); cbn; [reflexivity|apply app_nil_r].
Qed.

(* ---------- what a source yields, from its script and the arguments it receives ----------
   cur = the body's variable holding the last argument received, arg = the argument of the call that started /
   last resumed it, fut = the arguments of the resumptions still to come.  (YieldEcho yields cur.) *)
Fixpoint svals (pc : list instr) (cur arg : Z) (fut : list Z) : list Z :=
  match pc with
  | [] => []
  | IYield v :: t => v :: svals t (hd 0%Z fut) (hd 0%Z fut) (tl fut)
  | IYieldEcho :: t => cur :: svals t (hd 0%Z fut) (hd 0%Z fut) (tl fut)
  | IYieldNull :: t => svals t arg arg fut
  | IThrow _ :: _ => []
  | IReturn :: _ => []
  | _ :: t => svals t cur arg fut
  end.

Lemma svals_noecho : forall pc cur arg fut, has_echo pc = false -> svals pc cur arg fut = src_values pc.
Proof.
  induction pc as [|i t IH]; intros cur arg fut H; [reflexivity|].
  destruct i; cbn in *; try discriminate; try (f_equal; apply IH; exact H); auto.
Qed.

Lemma exec_svals : forall pc gs cur arg fut,
  match exec pc gs cur arg with
  | (SYield v, p, _, _, _) => svals pc cur arg fut = v :: svals p (hd 0%Z fut) (hd 0%Z fut) (tl fut)
  | (SPend _, p, _, c, _) => svals pc cur arg fut = svals p c arg fut
  | (SThrow _, p, _, _, _) => svals pc cur arg fut = [] /\ p = []
  | (SRet, p, _, _, _) => svals pc cur arg fut = [] /\ p = []
  end.
Proof.
  induction pc as [|i t IH]; intros gs cur arg fut; [unfold exec; cbn; auto|].
  destruct i; unfold exec; fold exec; cbn [svals]; auto.
  - specialize (IH gs cur arg fut). destruct (exec t gs cur arg) as [[[[st p] g] c] ev]. destruct st; auto.
  - destruct (Nat.ltb (length gs) max_guards); [|apply IH].
    specialize (IH (x :: gs) cur arg fut). destruct (exec t (x :: gs) cur arg) as [[[[st p] g] c] ev]. destruct st; auto.
  - destruct gs as [|x g']; [apply IH|].
    specialize (IH g' cur arg fut). destruct (exec t g' cur arg) as [[[[st p] g] c] ev]. destruct st; auto.
  - specialize (IH gs arg arg fut). destruct (exec t gs arg arg) as [[[[st p] g] c] ev]. destruct st; auto.
  - apply IH.
Qed.

(* what source state s will still yield, as a function of the arguments of its future resumptions.
   pre: during the start-up loop the first argument is already known (Some a0) although the source is not started *)
Definition remf (pre : option Z) (s : src) (fut : list Z) : list Z :=
  match s_bst s with
  | BInit => match pre with
             | None => svals (s_pc s) (s_cur s) (hd 0%Z fut) (tl fut)
             | Some a0 => svals (s_pc s) (s_cur s) a0 fut
             end
  | BYield => svals (s_pc s) (hd 0%Z fut) (hd 0%Z fut) (tl fut)
  | BPend _ => svals (s_pc s) (s_cur s) (s_arg s) fut
  | BFinal => []
  end.

(* ---------- the per-source invariant ----------
   S j fut = the complete value sequence of source j given the arguments it received so far followed by fut;
   D = delivered pairs; l = sources; q = completion queue; yi = the source whose value the consumer currently holds *)
Definition SrcOK (S : nat -> list Z -> list Z) (pre : option Z) (D : list (nat * Z)) (l : list src) (q : list nat) (yi : option nat) (j : nat) : Prop :=
  let s := get_src l j in
  match s_bst s with
  | BInit => ~ In j q /\ yi <> Some j /\ dj D j = [] /\ (forall fut, S j fut = remf pre s fut) /\ s_done s = false /\ s_exn s = None
  | BYield => exists v, s_ret s = Some v /\ s_done s = false /\ s_exn s = None /\
                ((In j q /\ yi <> Some j /\ (forall fut, S j fut = dj D j ++ v :: remf pre s fut)) \/
                 (~ In j q /\ yi = Some j /\ (forall fut, S j fut = dj D j ++ remf pre s fut)))
  | BPend _ => ~ In j q /\ yi <> Some j /\ (forall fut, S j fut = dj D j ++ remf pre s fut) /\ s_done s = false /\ s_exn s = None
  | BFinal => (s_done s = true \/ s_exn s <> None) /\ yi <> Some j /\ (forall fut, S j fut = dj D j)
  end.

Definition AllOK S pre D l q yi : Prop := (forall j, j < length l -> SrcOK S pre D l q yi j) /\ NoDup q /\ QB l q.

(* the loop delivers at most one value and keeps every source accounted for *)
Lemma loop_ok : forall S pre l q D c x,
  AllOK S pre D l q None ->
  let '(o, q', c', x') := agg_loop l q c x in
  match o with
  | OYield i v => AllOK S pre (D ++ [(i, v)]) l q' (Some i)
  | _ => AllOK S pre D l q' None
  end.
Proof.
  intros S pre l q. induction q as [|i q IH]; intros D c x (HS & HN & HQ).
  - destruct c; cbn; [destruct x|]; (split; [exact HS|split; [exact HN|exact HQ]]).
  - destruct c as [|c]; cbn [agg_loop]; [destruct x; (split; [exact HS|split; [exact HN|exact HQ]])|].
    apply NoDup_cons_iff in HN. destruct HN as [Hni HN'].
    pose proof (Forall_inv HQ) as Hi. pose proof (Forall_inv_tail HQ) as HQ'. cbn beta in Hi.
    pose proof (HS i Hi) as Hsi. unfold SrcOK in Hsi.
    assert (REC : (s_done (get_src l i) = true \/ s_exn (get_src l i) <> None) -> s_bst (get_src l i) = BFinal -> AllOK S pre D l q None).
    { intros _ Hb. split; [|split; auto]. intros j Hj. pose proof (HS j Hj) as Hsj. unfold SrcOK in *.
      destruct (Nat.eq_dec j i) as [->|Hne]; [rewrite Hb in *; exact Hsj|].
      destruct (s_bst (get_src l j)); auto.
      - destruct Hsj as (Hin & Hy & Hv). repeat split; auto; try apply Hv. intro H. apply Hin. right. exact H.
      - destruct Hsj as (v & Hr & Hd & Hx & [(Hin & Hy & Hv)|(Hin & Hy & Hv)]); [|discriminate].
        exists v. repeat split; auto. left. repeat split; auto. destruct Hin; [congruence|auto].
      - destruct Hsj as (Hin & Hy & Hv). repeat split; auto; try apply Hv. intro H. apply Hin. right. exact H. }
    destruct (s_bst (get_src l i)) eqn:Eb.
    + destruct Hsi as (Hin & _). exfalso. apply Hin. left. reflexivity.
    + (* BYield: delivered *)
      destruct Hsi as (v & Hr & Hd & Hx & [(Hin & Hy & Hv)|(Hin & _)]); [|exfalso; apply Hin; left; reflexivity].
      rewrite Hd, Hx, Hr.
      split; [|split; auto]. intros j Hj. pose proof (HS j Hj) as Hsj. unfold SrcOK in *.
      rewrite dj_snoc.
      destruct (Nat.eq_dec j i) as [->|Hne].
      * rewrite Eb, Nat.eqb_refl. exists v. repeat split; auto. right. repeat split; auto.
        intro fut. rewrite <- app_assoc. apply Hv.
      * assert (Nat.eqb i j = false) by (apply Nat.eqb_neq; congruence). rewrite H.
        destruct (s_bst (get_src l j)); auto.
        -- destruct Hsj as (Hin' & Hy' & Hv'). repeat split; auto; try apply Hv'; [intro H0; apply Hin'; right; exact H0|congruence].
        -- destruct Hsj as (v' & Hr' & Hd' & Hx' & [(Hin' & Hy' & Hv')|(Hin' & Hy' & Hv')]); [|discriminate].
           exists v'. repeat split; auto. left. repeat split; auto; [destruct Hin'; [congruence|auto]|congruence].
        -- destruct Hsj as (Hin' & Hy' & Hv'). repeat split; auto; try apply Hv'; [intro H0; apply Hin'; right; exact H0|congruence].
        -- destruct Hsj as (Hf & Hy' & Hv'). repeat split; auto. congruence.
    + destruct Hsi as (Hin & _). exfalso. apply Hin. left. reflexivity.
    + (* BFinal: retired *)
      destruct Hsi as (Hf & Hy & Hv).
      destruct (s_done (get_src l i)) eqn:Ed; [apply IH; apply REC; auto|].
      destruct (s_exn (get_src l i)) eqn:Ex; [apply IH; apply REC; auto|].
      destruct Hf; [discriminate|congruence].
Qed.

Lemma nodup_snoc (q : list nat) x : NoDup q -> ~ In x q -> NoDup (q ++ [x]).
Proof.
  induction q as [|y q IH]; intros HN Hx; cbn; [constructor; [intros []|constructor]|].
  apply NoDup_cons_iff in HN. destruct HN as [Hy HN].
  constructor.
  - intro H. apply in_app_or in H. destruct H as [H|[H|[]]]; [auto|]. subst. apply Hx. left. reflexivity.
  - apply IH; auto. intro H. apply Hx. right. exact H.
Qed.

Lemma srcok_transfer S S' pre D l l' q q' yi yi' j :
  SrcOK S pre D l q yi j -> get_src l' j = get_src l j -> (In j q' <-> In j q) -> (yi' = Some j <-> yi = Some j) ->
  (forall fut, S' j fut = S j fut) ->
  SrcOK S' pre D l' q' yi' j.
Proof.
  unfold SrcOK. intros H Hg Hq Hy HS. rewrite Hg.
  destruct (s_bst (get_src l j)).
  - destruct H as (H1 & H2 & H3 & H4 & H5). repeat split; try tauto. intro fut. rewrite HS. apply H4.
  - destruct H as (v & Hr & Hd & Hx & [(H1 & H2 & H3)|(H1 & H2 & H3)]); exists v; repeat split; auto;
    [left|right]; repeat split; try tauto; intro fut; rewrite HS; apply H3.
  - destruct H as (H1 & H2 & H3 & H4). repeat split; try tauto. intro fut. rewrite HS. apply H3.
  - destruct H as (H1 & H2 & H3). repeat split; try tauto. intro fut. rewrite HS. apply H3.
Qed.

(* a source that is not queued and not the yielded one runs (from the start, from its yield, or from a completed
   await) until its next stop: it is queued iff its callback fired, and stays accounted for *)
Lemma fire_ok : forall S pre D l q yi yi' j0 s_in gs cur arg,
  (forall j, j < length l -> j <> j0 -> SrcOK S pre D l q yi j) -> NoDup q -> QB l q ->
  j0 < length l -> ~ In j0 q -> yi' <> Some j0 ->
  (forall j, j <> j0 -> (yi' = Some j <-> yi = Some j)) ->
  s_done s_in = false -> s_exn s_in = None ->
  (forall fut, S j0 fut = dj D j0 ++ svals (s_pc s_in) cur arg fut) ->
  s_arg s_in = arg ->
  let '(s1, b, ev) := src_after s_in (exec (s_pc s_in) gs cur arg) in
  AllOK S pre D (set_src l j0 s1) (if b then q ++ [j0] else q) yi'.
Proof.
  intros S pre D l q yi yi' j0 s_in gs cur arg HO HN HQ Hj0 Hnin Hy' Hyy Hd Hx Hv Harg.
  assert (HXF : forall fut, _) by (intro fut; exact (exec_svals (s_pc s_in) gs cur arg fut)).
  destruct (exec (s_pc s_in) gs cur arg) as [[[[st p] g] c] ev0].
  assert (OTH : forall s1 (b : bool) j, j < length (set_src l j0 s1) -> j <> j0 ->
                SrcOK S pre D (set_src l j0 s1) (if b then q ++ [j0] else q) yi' j).
  { intros s1 b j Hj Hne. unfold set_src in Hj. rewrite set_nth_length in Hj.
    apply (srcok_transfer S S pre D l _ q _ yi yi' j (HO j Hj Hne)); [apply get_set_other; exact Hne| |apply Hyy; exact Hne|reflexivity].
    destruct b; [|tauto]. split; intro H; [apply in_app_or in H; destruct H as [H|[H|[]]]; [exact H|congruence]|apply in_or_app; left; exact H]. }
  assert (QBS : forall s1 (b : bool), QB (set_src l j0 s1) (if b then q ++ [j0] else q)).
  { intros s1 b. unfold QB, set_src. rewrite set_nth_length. destruct b; [apply Forall_app; split; [exact HQ|constructor; [exact Hj0|constructor]]|exact HQ]. }
  assert (NDS : forall (b : bool), NoDup (if b then q ++ [j0] else q)).
  { intros [|]; [apply nodup_snoc; assumption|assumption]. }
  destruct st as [v|k|e|]; cbn [src_after].
  - split; [|split; [apply (NDS true)|exact (QBS _ true)]].
    intros j Hj. destruct (Nat.eq_dec j j0) as [->|Hne]; [|apply (OTH _ true); assumption].
    unfold SrcOK. rewrite get_set_same by exact Hj0. cbn [s_bst s_ret s_done s_exn].
    exists v. repeat split; auto. left. split; [apply in_or_app; right; left; reflexivity|]. split; [exact Hy'|].
    intro fut. rewrite Hv, (HXF fut). reflexivity.
  - split; [|split; [apply (NDS false)|exact (QBS _ false)]].
    intros j Hj. destruct (Nat.eq_dec j j0) as [->|Hne]; [|apply (OTH _ false); assumption].
    unfold SrcOK. rewrite get_set_same by exact Hj0. cbn [s_bst s_ret s_done s_exn].
    repeat split; auto. intro fut. rewrite Hv, (HXF fut). unfold remf. cbn [s_bst s_pc s_cur s_arg]. rewrite Harg. reflexivity.
  - split; [|split; [apply (NDS true)|exact (QBS _ true)]].
    intros j Hj. destruct (Nat.eq_dec j j0) as [->|Hne]; [|apply (OTH _ true); assumption].
    unfold SrcOK. rewrite get_set_same by exact Hj0. cbn [s_bst s_ret s_done s_exn].
    split; [right; discriminate|]. split; [exact Hy'|]. intro fut. rewrite Hv. destruct (HXF fut) as [-> _]. apply app_nil_r.
  - split; [|split; [apply (NDS true)|exact (QBS _ true)]].
    intros j Hj. destruct (Nat.eq_dec j j0) as [->|Hne]; [|apply (OTH _ true); assumption].
    unfold SrcOK. rewrite get_set_same by exact Hj0. cbn [s_bst s_ret s_done s_exn].
    split; [left; reflexivity|]. split; [exact Hy'|]. intro fut. rewrite Hv. destruct (HXF fut) as [-> _]. apply app_nil_r.
Qed.

(* ---------- start-up: every source is charged once, in order ---------- *)
Definition NoInit (l : list src) : Prop := forall j, j < length l -> s_bst (get_src l j) <> BInit.

Lemma src_after_not_init s r : let '(s1, _, _) := src_after s r in s_bst s1 <> BInit.
Proof. destruct r as [[[[st p] g] c] ev]. destruct st; cbn; discriminate. Qed.



(* once no source is un-started any more the start-up argument plays no role *)
Lemma allok_pre S pre pre' D l q yi : NoInit l -> AllOK S pre D l q yi -> AllOK S pre' D l q yi.
Proof.
  intros HNI (HS & HN & HQ). split; [|split; assumption]. intros j Hj. specialize (HS j Hj). specialize (HNI j Hj).
  unfold SrcOK in *. unfold remf in *. destruct (s_bst (get_src l j)); [congruence|exact HS|exact HS|exact HS].
Qed.

Lemma charge_from_ok : forall S n i a l q ev e,
  i + n = length l ->
  AllOK S (Some a) [] l q None ->
  (forall j, i <= j -> j < length l -> s_bst (get_src l j) = BInit) ->
  (forall j, j < i -> s_bst (get_src l j) <> BInit) ->
  let '(l', q', _, _) := charge_from n i a l q ev e in
  AllOK S (Some a) [] l' q' None /\ NoInit l'.
Proof.
  intros S. induction n as [|n IH]; intros i a l q ev e Hn HA HB HNI.
  - cbn. split; [exact HA|]. intros j Hj. apply HNI. lia.
  - cbn [charge_from]. assert (Hi : i < length l) by lia.
    destruct HA as (HS & HN & HQ).
    pose proof (HS i Hi) as Hsi. unfold SrcOK in Hsi.
    pose proof (HB i ltac:(lia) Hi) as Hbi. rewrite Hbi in Hsi.
    destruct Hsi as (Hnin & _ & Hdj & Hsv & Hd & Hx).
    unfold remf in Hsv. rewrite Hbi in Hsv.
    unfold charge. rewrite Hbi.
    pose proof (fire_ok S (Some a) [] l q None None i
                 (mkSrc (s_pc (get_src l i)) (s_gds (get_src l i)) (s_cur (get_src l i)) a BInit (s_ret (get_src l i)) (s_exn (get_src l i)) (s_done (get_src l i)))
                 (s_gds (get_src l i)) (s_cur (get_src l i)) a) as HF.
    cbn [s_pc s_done s_exn s_arg] in HF.
    specialize (HF (fun j Hj _ => HS j Hj) HN HQ Hi Hnin ltac:(discriminate) ltac:(tauto) Hd Hx).
    rewrite Hdj in HF. specialize (HF Hsv eq_refl).
    pose proof (src_after_not_init
                 (mkSrc (s_pc (get_src l i)) (s_gds (get_src l i)) (s_cur (get_src l i)) a BInit (s_ret (get_src l i)) (s_exn (get_src l i)) (s_done (get_src l i)))
                 (exec (s_pc (get_src l i)) (s_gds (get_src l i)) (s_cur (get_src l i)) a)) as HNI1.
    destruct (src_after _ _) as [[s1 b] e1].
    apply IH.
    + unfold set_src. rewrite set_nth_length. lia.
    + exact HF.
    + intros j Hj Hl. unfold set_src in Hl. rewrite set_nth_length in Hl. rewrite get_set_other by lia. apply HB; lia.
    + intros j Hj. destruct (Nat.eq_dec j i) as [->|Hne]; [rewrite get_set_same by exact Hi; exact HNI1|].
      rewrite get_set_other by exact Hne. apply HNI. lia.
Qed.

(* ---------- the run-level invariant ---------- *)
(* the arguments source j received so far, from the log R of (source, argument) receptions *)
Definition rj (R : list (nat * Z)) (j : nat) : list Z := map snd (filter (fun p => Nat.eqb (fst p) j) R).

(* the complete value sequence of source j: its script run with the received arguments followed by fut *)
Definition Sof (scs : list (list instr)) (R : list (nat * Z)) (j : nat) (fut : list Z) : list Z :=
  svals (nth j scs []) 0%Z (hd 0%Z (rj R j ++ fut)) (tl (rj R j ++ fut)).

Lemma rj_app R R' j : rj (R ++ R') j = rj R j ++ rj R' j.
Proof. unfold rj. rewrite filter_app, map_app. reflexivity. Qed.

Lemma Sof_app scs R R' j fut : Sof scs (R ++ R') j fut = Sof scs R j (rj R' j ++ fut).
Proof. unfold Sof. rewrite rj_app, <- app_assoc. reflexivity. Qed.

Definition all_recv (n : nat) (a : Z) : list (nat * Z) := map (fun j => (j, a)) (seq 0 n).

Lemma rj_all_recv n a j : j < n -> rj (all_recv n a) j = [a].
Proof.
  unfold rj, all_recv. intro Hj.
  assert (H : forall k m, (k <= j < k + m -> map snd (filter (fun p => Nat.eqb (fst p) j) (map (fun j0 => (j0, a)) (seq k m))) = [a]) /\
                          (~ (k <= j < k + m) -> map snd (filter (fun p => Nat.eqb (fst p) j) (map (fun j0 => (j0, a)) (seq k m))) = [])).
  { intros k m. revert k. induction m as [|m IH]; intro k; [split; [lia|reflexivity]|].
    cbn [seq map filter fst]. destruct (Nat.eqb k j) eqn:E.
    - apply Nat.eqb_eq in E. subst. split; [|lia]. intros _. cbn. f_equal. apply (IH (S j)). lia.
    - apply Nat.eqb_neq in E. split; intro H; apply (IH (S k)); lia. }
  apply (H 0 n). lia.
Qed.

Lemma rj_single i a j : rj [(i, a)] j = if Nat.eqb i j then [a] else [].
Proof. unfold rj. cbn. destruct (Nat.eqb i j); reflexivity. Qed.

Definition Pfx (S : nat -> list Z -> list Z) (D : list (nat * Z)) (n : nat) : Prop :=
  forall j, j < n -> forall fut, exists rest, dj D j ++ rest = S j fut.

Lemma allok_pfx S pre D l q yi : AllOK S pre D l q yi -> Pfx S D (length l).
Proof.
  intros (HS & _) j Hj fut. specialize (HS j Hj). unfold SrcOK in HS.
  destruct (s_bst (get_src l j)).
  - destruct HS as (_ & _ & Hd & Hv & _). rewrite Hd, Hv. eauto.
  - destruct HS as (v & _ & _ & _ & [(_ & _ & H)|(_ & _ & H)]); rewrite H; eauto.
  - destruct HS as (_ & _ & H & _). rewrite H. eauto.
  - destruct HS as (_ & _ & H). rewrite H. exists []. apply app_nil_r.
Qed.

Definition TInv (scs : list (list instr)) (R D : list (nat * Z)) (g : agg) : Prop :=
  match ast g with
  | ANew => False
  | AInit => R = [] /\ D = [] /\ AllOK (Sof scs []) None [] (srcs g) [] None /\ Forall (fun s => s_bst s = BInit) (srcs g)
  | AYield i => AllOK (Sof scs R) None D (srcs g) (queue g) (Some i) /\ NoInit (srcs g) /\ i < length (srcs g)
  | AWait | AFinal => AllOK (Sof scs R) None D (srcs g) (queue g) None /\ NoInit (srcs g)
  | ADying | ADead => Pfx (Sof scs R) D (length (srcs g))
  end.

Definition dres (r : res) (g1 : agg) : list (nat * Z) :=
  match r, ast g1 with RVal v, AYield i => [(i, v)] | _, _ => [] end.

Lemma apply_outcome_tinv : forall scs R D g l q c x y,
  AllOK (Sof scs R) None D l q None -> NoInit l ->
  let '(g1, r) := apply_outcome g l (agg_loop l q c x) y in
  TInv scs R (D ++ dres r g1) g1.
Proof.
  intros scs R D g l q c x y HA HNI.
  pose proof (loop_ok (Sof scs R) None l q D c x HA) as HL.
  pose proof (agg_loop_acc l q c x) as HC.
  destruct (agg_loop l q c x) as [[[o q'] c'] x'].
  destruct o as [i v| |e|]; unfold apply_outcome, TInv, dres; cbn [ast srcs queue]; rewrite ?app_nil_r; auto.
  split; [exact HL|]. split; [exact HNI|].
  destruct HC as (_ & _ & _ & _ & H5). destruct (H5 i v eq_refl) as (Hin & _).
  destruct HA as (_ & _ & HQ). unfold QB in HQ. rewrite Forall_forall in HQ. apply HQ. exact Hin.
Qed.

Lemma tinv_pfx scs R D g : TInv scs R D g -> Pfx (Sof scs R) D (length (srcs g)).
Proof.
  unfold TInv. destruct (ast g); try tauto.
  - intros (-> & -> & H & _). eapply allok_pfx. exact H.
  - intros (H & _). eapply allok_pfx. exact H.
  - intros (H & _). eapply allok_pfx. exact H.
  - intros (H & _). eapply allok_pfx. exact H.
Qed.

Definition dstep (x : op) (o : obs) (g1 : agg) : list (nat * Z) :=
  match x with
  | OAccess _ _ _ | OComplete _ _ _ => dres (o_res o) g1
  | _ => []
  end.

(* which sources receive the argument of op x issued in state g *)
Definition rstep (ha : bool) (g : agg) (x : op) : list (nat * Z) :=
  match x with
  | OAccess y a _ =>
      if idle g && style_ok ha y then
        match ast g with
        | AInit => all_recv (length (srcs g)) a
        | AYield i => [(i, a)]
        | _ => []
        end
      else []
  | _ => []
  end.

Lemma forall_init_get l j : Forall (fun s => s_bst s = BInit) l -> s_bst (get_src l j) = BInit.
Proof. intro H. unfold get_src. apply forall_init_nth. exact H. Qed.

Lemma noinit_set l i s : NoInit l -> s_bst s <> BInit -> NoInit (set_src l i s).
Proof.
  intros HN Hs j Hj. unfold set_src in Hj. rewrite set_nth_length in Hj.
  destruct (Nat.eq_dec j i) as [->|Hne]; [rewrite get_set_same by exact Hj; exact Hs|].
  rewrite get_set_other by exact Hne. apply HN. exact Hj.
Qed.



Lemma finish_destroy_tinv scs R D g q c : Pfx (Sof scs R) D (length (srcs g)) -> TInv scs R D (fst (finish_destroy g q c)).
Proof. intro H. unfold finish_destroy, TInv. cbn. rewrite map_length. exact H. Qed.

Lemma allok_perm S pre D l q q' yi : Permutation q q' -> AllOK S pre D l q yi -> AllOK S pre D l q' yi.
Proof.
  intros HP (HS & HN & HQ). split; [|split].
  - intros j Hj. apply (srcok_transfer S S pre D l l q q' yi yi j (HS j Hj)); try tauto.
    split; intro H; [eapply Permutation_in; [apply Permutation_sym; exact HP|exact H]|eapply Permutation_in; [exact HP|exact H]].
  - eapply Permutation_NoDup; [exact HP|exact HN].
  - unfold QB in *. eapply Permutation_Forall; [exact HP|exact HQ].
Qed.

Lemma allok_reorder S pre D l q p yi : AllOK S pre D l q yi -> AllOK S pre D l (reorder q p) yi.
Proof. apply allok_perm. apply Permutation_sym. apply reorder_perm. Qed.

Lemma Sof_other scs R i a j fut : j <> i -> Sof scs (R ++ [(i, a)]) j fut = Sof scs R j fut.
Proof. intro H. rewrite Sof_app, rj_single. assert (Nat.eqb i j = false) by (apply Nat.eqb_neq; congruence). rewrite H0. reflexivity. Qed.

Lemma Sof_same scs R i a fut : Sof scs (R ++ [(i, a)]) i fut = Sof scs R i (a :: fut).
Proof. rewrite Sof_app, rj_single, Nat.eqb_refl. reflexivity. Qed.

Lemma step_tinv : forall ha scs R D g x, TInv scs R D g ->
  let '(g1, o) := step ha g x in TInv scs (R ++ rstep ha g x) (D ++ dstep x o g1) g1.
Proof.
  intros ha scs R D g x HT.
  assert (SAME : TInv scs (R ++ []) (D ++ []) g) by (rewrite !app_nil_r; exact HT).
  pose proof (tinv_pfx scs R D g HT) as HP.
  destruct x as [sc| |y a p|i v p| | |]; cbn [step dstep rstep].
  - unfold TInv in HT. destruct (ast g) eqn:Ea; try contradiction; exact SAME.
  - unfold TInv in HT. destruct (ast g) eqn:Ea; try contradiction; exact SAME.
  - (* Access *)
    destruct (idle g && style_ok ha y); [|exact SAME].
    unfold TInv in HT. destruct (ast g) eqn:Ea; try contradiction; try exact SAME.
    + (* AInit *)
      destruct HT as (-> & -> & (HS0 & HN0 & HQ0) & HF). cbn [app].
      set (R' := all_recv (length (srcs g)) a).
      assert (HA : AllOK (Sof scs R') (Some a) [] (srcs g) [] None).
      { split; [|split; assumption]. intros j Hj. pose proof (HS0 j Hj) as Hs. unfold SrcOK in *.
        rewrite (forall_init_get (srcs g) j HF) in *. destruct Hs as (H1 & H2 & H3 & H4 & H5 & H6).
        repeat split; auto. intro fut.
        change R' with ([] ++ R'). rewrite Sof_app. unfold R'. rewrite rj_all_recv by exact Hj.
        rewrite H4. unfold remf. rewrite (forall_init_get (srcs g) j HF). reflexivity. }
      pose proof (charge_from_ok (Sof scs R') (length (srcs g)) 0 a (srcs g) [] [] false eq_refl HA
                    (fun j _ _ => forall_init_get (srcs g) j HF) ltac:(intros; lia)) as HC.
      unfold charge_all. destruct (charge_from (length (srcs g)) 0 a (srcs g) [] [] false) as [[[l q] ev] e].
      destruct HC as [HA' HNI].
      pose proof (apply_outcome_tinv scs R' [] (mkAgg l (reorder q p) (count g) (aexp g) (ast g) (aret g) (aexn g) (adone g) (aout g) (aerr g || e)) l (reorder q p) (count g) (aexp g) y
                    (allok_reorder _ _ _ _ _ p _ (allok_pre _ _ None _ _ _ _ HNI HA')) HNI) as HO.
      destruct (apply_outcome _ l _ y) as [g1 r]. cbn [o_res]. exact HO.
    + (* AYield *)
      destruct HT as ((HS & HN & HQ) & HNI & Hi).
      pose proof (HS i Hi) as Hsi. unfold SrcOK in Hsi.
      destruct (s_bst (get_src (srcs g) i)) eqn:Eb;
        try (destruct Hsi as (_ & Hy & _); exfalso; apply Hy; reflexivity).
      destruct Hsi as (v0 & Hr & Hd & Hx & [(_ & Hy & _)|(Hnin & _ & Hv)]); [exfalso; apply Hy; reflexivity|].
      unfold charge. rewrite Eb.
      pose proof (fire_ok (Sof scs (R ++ [(i, a)])) None D (srcs g) (queue g) (Some i) None i
                   (mkSrc (s_pc (get_src (srcs g) i)) (s_gds (get_src (srcs g) i)) a a BYield (s_ret (get_src (srcs g) i)) (s_exn (get_src (srcs g) i)) (s_done (get_src (srcs g) i)))
                   (s_gds (get_src (srcs g) i)) a a) as HF.
      cbn [s_pc s_done s_exn s_arg] in HF.
      assert (Hyy : forall j, j <> i -> (@None nat = Some j <-> Some i = Some j)).
      { intros j Hne. split; intro H; [discriminate|injection H as H; congruence]. }
      assert (HOTH : forall j, j < length (srcs g) -> j <> i -> SrcOK (Sof scs (R ++ [(i, a)])) None D (srcs g) (queue g) (Some i) j).
      { intros j Hj Hne. apply (srcok_transfer (Sof scs R) _ None D (srcs g) (srcs g) (queue g) (queue g) (Some i) (Some i) j (HS j Hj)); try tauto.
        intro fut. apply Sof_other. exact Hne. }
      assert (Hv' : forall fut, Sof scs (R ++ [(i, a)]) i fut = dj D i ++ svals (s_pc (get_src (srcs g) i)) a a fut).
      { intro fut. rewrite Sof_same, Hv. unfold remf. rewrite Eb. reflexivity. }
      specialize (HF HOTH HN HQ Hi Hnin ltac:(discriminate) Hyy Hd Hx Hv' eq_refl).
      pose proof (src_after_not_init
                   (mkSrc (s_pc (get_src (srcs g) i)) (s_gds (get_src (srcs g) i)) a a BYield (s_ret (get_src (srcs g) i)) (s_exn (get_src (srcs g) i)) (s_done (get_src (srcs g) i)))
                   (exec (s_pc (get_src (srcs g) i)) (s_gds (get_src (srcs g) i)) a a)) as HNI1.
      destruct (src_after _ _) as [[s2 b] ev0].
      pose proof (apply_outcome_tinv scs (R ++ [(i, a)]) D g (set_src (srcs g) i s2) (reorder (if b then queue g ++ [i] else queue g) p) (count g) (aexp g) y
                    (allok_reorder _ _ _ _ _ p _ HF) (noinit_set _ _ _ HNI HNI1)) as HO.
      destruct (apply_outcome g _ _ y) as [g1 r]. cbn [o_res]. exact HO.
    + (* AFinal *)
      cbn [o_res]. unfold dres. destruct (adone g); [destruct (fut_style y)|]; cbn; exact SAME.
  - (* Complete *)
    rewrite app_nil_r. assert (SAME' : TInv scs R (D ++ []) g) by (rewrite app_nil_r; exact HT). clear SAME.
    unfold TInv in HT.
    destruct (ast g) eqn:Ea; try contradiction; try exact SAME';
    (destruct (Nat.ltb i (length (srcs g))) eqn:Hlt; [|exact SAME']); apply Nat.ltb_lt in Hlt;
    unfold complete_src; (destruct (s_bst (get_src (srcs g) i)) eqn:Eb; try exact SAME').
    + (* AInit: impossible *)
      destruct HT as (_ & _ & _ & HF). rewrite (forall_init_get _ i HF) in Eb. discriminate.
    + (* AYield j *)
      destruct HT as ((HS & HN & HQ) & HNI & Hi0).
      pose proof (HS i Hlt) as Hsi. unfold SrcOK in Hsi. rewrite Eb in Hsi. destruct Hsi as (Hnin & Hy & Hv & Hd & Hx).
      unfold remf in Hv. rewrite Eb in Hv.
      pose proof (fire_ok (Sof scs R) None D (srcs g) (queue g) (Some i0) (Some i0) i (get_src (srcs g) i)
                   (s_gds (get_src (srcs g) i)) (s_cur (get_src (srcs g) i)) (s_arg (get_src (srcs g) i))
                   (fun j Hj _ => HS j Hj) HN HQ Hlt Hnin Hy ltac:(tauto) Hd Hx Hv eq_refl) as HF.
      pose proof (src_after_not_init (get_src (srcs g) i)
                   (exec (s_pc (get_src (srcs g) i)) (s_gds (get_src (srcs g) i)) (s_cur (get_src (srcs g) i)) (s_arg (get_src (srcs g) i)))) as HNI1.
      destruct (src_after _ _) as [[s2 b] ev0].
      unfold TInv, dres. cbn [ast srcs queue o_res]. rewrite app_nil_r.
      split; [exact HF|]. split; [apply noinit_set; assumption|]. unfold set_src. rewrite set_nth_length. exact Hi0.
    + (* AWait *)
      destruct HT as ((HS & HN & HQ) & HNI).
      pose proof (HS i Hlt) as Hsi. unfold SrcOK in Hsi. rewrite Eb in Hsi. destruct Hsi as (Hnin & Hy & Hv & Hd & Hx).
      unfold remf in Hv. rewrite Eb in Hv.
      pose proof (fire_ok (Sof scs R) None D (srcs g) (queue g) None None i (get_src (srcs g) i)
                   (s_gds (get_src (srcs g) i)) (s_cur (get_src (srcs g) i)) (s_arg (get_src (srcs g) i))
                   (fun j Hj _ => HS j Hj) HN HQ Hlt Hnin Hy ltac:(tauto) Hd Hx Hv eq_refl) as HF.
      pose proof (src_after_not_init (get_src (srcs g) i)
                   (exec (s_pc (get_src (srcs g) i)) (s_gds (get_src (srcs g) i)) (s_cur (get_src (srcs g) i)) (s_arg (get_src (srcs g) i)))) as HNI1.
      destruct (src_after _ _) as [[s2 b] ev0].
      destruct (aout g) as [y|]; [|exact SAME'].
      pose proof (apply_outcome_tinv scs R D g (set_src (srcs g) i s2) (reorder (if b then queue g ++ [i] else queue g) p) (count g) (aexp g) y
                    (allok_reorder _ _ _ _ _ p _ HF) (noinit_set _ _ _ HNI HNI1)) as HO.
      destruct (apply_outcome g _ _ y) as [g1 r]. cbn [o_res]. exact HO.
    + (* AFinal *)
      destruct HT as ((HS & HN & HQ) & HNI).
      pose proof (HS i Hlt) as Hsi. unfold SrcOK in Hsi. rewrite Eb in Hsi. destruct Hsi as (Hnin & Hy & Hv & Hd & Hx).
      unfold remf in Hv. rewrite Eb in Hv.
      pose proof (fire_ok (Sof scs R) None D (srcs g) (queue g) None None i (get_src (srcs g) i)
                   (s_gds (get_src (srcs g) i)) (s_cur (get_src (srcs g) i)) (s_arg (get_src (srcs g) i))
                   (fun j Hj _ => HS j Hj) HN HQ Hlt Hnin Hy ltac:(tauto) Hd Hx Hv eq_refl) as HF.
      pose proof (src_after_not_init (get_src (srcs g) i)
                   (exec (s_pc (get_src (srcs g) i)) (s_gds (get_src (srcs g) i)) (s_cur (get_src (srcs g) i)) (s_arg (get_src (srcs g) i)))) as HNI1.
      destruct (src_after _ _) as [[s2 b] ev0].
      unfold TInv, dres. cbn [ast srcs queue o_res]. rewrite app_nil_r.
      split; [exact HF|]. apply noinit_set; assumption.
    + (* ADying *)
      destruct (src_after _ _) as [[s2 b] ev0].
      destruct (drain (if b then queue g ++ [i] else queue g) (count g)) as [[q1 c1] bl].
      destruct bl.
      * unfold TInv, dres. cbn [ast srcs o_res]. rewrite app_nil_r. unfold set_src. rewrite set_nth_length. exact HP.
      * unfold finish_destroy. cbn [fst snd]. unfold dres. cbn [o_res ast]. rewrite app_nil_r.
        unfold TInv. cbn [ast srcs]. rewrite map_length. unfold set_src. rewrite set_nth_length. exact HP.
  - (* Destroy *)
    rewrite app_nil_r. assert (SAME' : TInv scs R (D ++ []) g) by (rewrite app_nil_r; exact HT). clear SAME.
    destruct (idle g); [|exact SAME'].
    destruct (ast g) eqn:Ea; try exact SAME'.
    + rewrite app_nil_r. apply finish_destroy_tinv. exact HP.
    + destruct (drain (queue g) (count g)) as [[q1 c1] bl]. rewrite app_nil_r. destruct bl.
      * unfold TInv. cbn [ast srcs]. exact HP.
      * apply (finish_destroy_tinv scs R D (mkAgg (srcs g) q1 c1 (aexp g) ADying (aret g) (aexn g) (adone g) (Some 0%Z) (aerr g)) q1 c1). exact HP.
    + destruct (drain (queue g) (count g)) as [[q1 c1] bl]. rewrite app_nil_r. destruct bl.
      * unfold TInv. cbn [ast srcs]. exact HP.
      * apply (finish_destroy_tinv scs R D (mkAgg (srcs g) q1 c1 (aexp g) ADying (aret g) (aexn g) (adone g) (Some 0%Z) (aerr g)) q1 c1). exact HP.
  - (* Peek *)
    destruct (idle g); [|exact SAME]. destruct (ast g); exact SAME.
  - exact SAME.
Qed.

(* ---------- run level ---------- *)
Fixpoint deliv (ha : bool) (g : agg) (ops : list op) : list (nat * Z) :=
  match ops with
  | [] => []
  | x :: t => let '(g1, o) := step ha g x in dstep x o g1 ++ deliv ha g1 t
  end.

(* the (source, argument) receptions of a run: the first access hands its argument to every source, every later
   one to the source whose value was returned last *)
Fixpoint recvd (ha : bool) (g : agg) (ops : list op) : list (nat * Z) :=
  match ops with
  | [] => []
  | x :: t => rstep ha g x ++ recvd ha (fst (step ha g x)) t
  end.

Lemma run_tinv : forall ha scs ops g R D, TInv scs R D g ->
  TInv scs (R ++ recvd ha g ops) (D ++ deliv ha g ops) (snd (run_from ha g ops)).
Proof.
  intros ha scs. induction ops as [|x ops IH]; intros g R D HT.
  - cbn. rewrite !app_nil_r. exact HT.
  - rewrite run_cons. cbn [snd deliv recvd].
    pose proof (step_tinv ha scs R D g x HT) as HS. destruct (step ha g x) as [g1 o]. cbn [fst].
    rewrite !app_assoc. apply IH. exact HS.
Qed.

Definition build_state (scs : list (list instr)) : agg :=
  mkAgg (map src0 scs) [] (length scs) None AInit None None false None false.

Lemma get_src_map scs j : get_src (map src0 scs) j = src0 (nth j scs []).
Proof. unfold get_src. change (src0 []) with (src0 (@nil instr)). apply map_nth. Qed.

Lemma build_tinv scs : TInv scs [] [] (build_state scs).
Proof.
  unfold TInv, build_state. cbn [ast srcs].
  split; [reflexivity|]. split; [reflexivity|]. split.
  - split; [|split; [constructor|constructor]].
    intros j Hj. unfold SrcOK. rewrite get_src_map. cbn.
    repeat split; auto. discriminate.
  - apply Forall_forall. intros s Hs. apply in_map_iff in Hs. destruct Hs as (sc & <- & _). reflexivity.
Qed.

Lemma build_ainv scs : AInv (build_state scs).
Proof.
  unfold AInv, build_state. cbn. rewrite map_length. repeat split; auto.
  apply Forall_forall. intros s Hs. apply in_map_iff in Hs. destruct Hs as (sc & <- & _). reflexivity.
Qed.

(* the source list never changes its length once the aggregate is built *)
Lemma charge_from_length : forall n i a l q ev e,
  length (fst (fst (fst (charge_from n i a l q ev e)))) = length l.
Proof.
  induction n as [|n IH]; intros; cbn [charge_from]; [reflexivity|].
  destruct (charge (get_src l i) a) as [[[s1 b] e1]|]; rewrite IH; [unfold set_src; apply set_nth_length|reflexivity].
Qed.

Lemma apply_outcome_srcs g l r y : srcs (fst (apply_outcome g l r y)) = l.
Proof. destruct r as [[[o q] c] x]. destruct o; reflexivity. Qed.

Lemma step_length ha g x : ast g <> ANew -> length (srcs (fst (step ha g x))) = length (srcs g) /\ ast (fst (step ha g x)) <> ANew.
Proof.
  intro Hn. destruct x as [sc| |y a p|i v p| | |]; cbn [step].
  - destruct (ast g) eqn:Ea; [exfalso; apply Hn; reflexivity|..]; (split; [reflexivity|cbn; rewrite Ea; discriminate]).
  - destruct (ast g) eqn:Ea; [exfalso; apply Hn; reflexivity|..]; (split; [reflexivity|cbn; rewrite Ea; discriminate]).
  - destruct (idle g && style_ok ha y); [|split; [reflexivity|assumption]].
    destruct (ast g) eqn:Ea; try (cbn [fst]; split; [reflexivity|congruence]).
    + unfold charge_all. pose proof (charge_from_length (length (srcs g)) 0 a (srcs g) [] [] false) as HL.
      destruct (charge_from (length (srcs g)) 0 a (srcs g) [] [] false) as [[[l q] ev] e]. cbn [fst] in HL.
      pose proof (apply_outcome_srcs (mkAgg l (reorder q p) (count g) (aexp g) (ast g) (aret g) (aexn g) (adone g) (aout g) (aerr g || e)) l (agg_loop l (reorder q p) (count g) (aexp g)) y) as HS.
      destruct (apply_outcome _ l _ y) as [g1 r] eqn:E. cbn [fst] in *. rewrite HS. split; [exact HL|].
      unfold apply_outcome in E. destruct (agg_loop l _ (count g) (aexp g)) as [[[o q'] c'] x']. destruct o; injection E as <- _; discriminate.
    + destruct (charge (get_src (srcs g) i) a) as [[[s1 b] e]|].
      * pose proof (apply_outcome_srcs g (set_src (srcs g) i s1) (agg_loop (set_src (srcs g) i s1) (reorder (if b then queue g ++ [i] else queue g) p) (count g) (aexp g)) y) as HS.
        destruct (apply_outcome g _ _ y) as [g1 r] eqn:E. cbn [fst] in *. rewrite HS. split; [unfold set_src; apply set_nth_length|].
        unfold apply_outcome in E. destruct (agg_loop _ _ _ _) as [[[o q'] c'] x']. destruct o; injection E as <- _; discriminate.
      * pose proof (apply_outcome_srcs g (srcs g) (agg_loop (srcs g) (queue g) (pred (count g)) (Some (-2)%Z)) y) as HS.
        destruct (apply_outcome g _ _ y) as [g1 r] eqn:E. cbn [fst srcs ast] in *. split; [rewrite HS; reflexivity|].
        unfold apply_outcome in E. destruct (agg_loop _ _ _ _) as [[[o q'] c'] x']. destruct o; injection E as <- _; discriminate.
  - assert (R : length (srcs (fst (g, rejected))) = length (srcs g) /\ ast (fst (g, rejected)) <> ANew) by (split; [reflexivity|exact Hn]).
    destruct (ast g) eqn:Ea; try exact R;
    (destruct (Nat.ltb i (length (srcs g))); [|exact R]);
    (destruct (complete_src (get_src (srcs g) i) v) as [[[s1 b] e]|]; [|exact R]);
    try (cbn [fst srcs ast]; split; [unfold set_src; apply set_nth_length|rewrite ?Ea; discriminate]).
    + destruct (aout g) as [y|]; [|exact R].
      pose proof (apply_outcome_srcs g (set_src (srcs g) i s1) (agg_loop (set_src (srcs g) i s1) (reorder (if b then queue g ++ [i] else queue g) p) (count g) (aexp g)) y) as HS.
      destruct (apply_outcome g _ _ y) as [g1 r] eqn:E. cbn [fst] in *. rewrite HS. split; [unfold set_src; apply set_nth_length|].
      unfold apply_outcome in E. destruct (agg_loop _ _ _ _) as [[[o q'] c'] x']. destruct o; injection E as <- _; discriminate.
    + destruct (drain (if b then queue g ++ [i] else queue g) (count g)) as [[q1 c1] bl]. destruct bl; cbn [fst finish_destroy srcs ast].
      * split; [unfold set_src; apply set_nth_length|discriminate].
      * split; [rewrite map_length; unfold set_src; apply set_nth_length|discriminate].
  - assert (R : length (srcs (fst (g, rejected))) = length (srcs g) /\ ast (fst (g, rejected)) <> ANew) by (split; [reflexivity|exact Hn]).
    destruct (idle g); [|exact R].
    destruct (ast g) eqn:Ea; try exact R.
    + cbn [fst finish_destroy srcs ast]. split; [apply map_length|discriminate].
    + destruct (drain (queue g) (count g)) as [[q1 c1] bl]. destruct bl; cbn [fst finish_destroy srcs ast]; split; try apply map_length; try reflexivity; discriminate.
    + destruct (drain (queue g) (count g)) as [[q1 c1] bl]. destruct bl; cbn [fst finish_destroy srcs ast]; split; try apply map_length; try reflexivity; discriminate.
  - destruct (idle g); [|split; [reflexivity|exact Hn]]. destruct (ast g) eqn:Ea; (split; [reflexivity|cbn [fst]; try exact Hn; rewrite ?Ea; try discriminate; exact Hn]).
  - split; [reflexivity|exact Hn].
Qed.

Lemma run_length ha ops : forall g, ast g <> ANew -> length (srcs (snd (run_from ha g ops))) = length (srcs g).
Proof.
  induction ops as [|x ops IH]; intros g Hn; [reflexivity|].
  rewrite run_cons. cbn [snd]. destruct (step_length ha g x Hn) as [HL HN]. rewrite IH by exact HN. exact HL.
Qed.



(* C14 per_source_order (any scripts, with or without arguments): whatever the access sequence and the completion
   schedule, the values delivered from source j, in delivery order, are a prefix of the value sequence source j's
   script yields when run with the arguments routed to it so far (followed by any future arguments fut) *)
Theorem aggr_per_source_order : forall ha scs ops j, j < length scs -> forall fut,
  exists rest, dj (deliv ha (build_state scs) ops) j ++ rest = Sof scs (recvd ha (build_state scs) ops) j fut.
Proof.
  intros ha scs ops j Hj fut.
  pose proof (run_tinv ha scs ops (build_state scs) [] [] (build_tinv scs)) as HT. cbn [app] in HT.
  apply tinv_pfx in HT. rewrite run_length in HT by (cbn; discriminate).
  apply HT. cbn. rewrite map_length. exact Hj.
Qed.

(* C14 union: when the aggregate has ended, every source's complete value sequence (under the arguments it received)
   was delivered: each value once, in the source's order *)
Theorem aggr_union : forall ha scs ops,
  ast (snd (run_from ha (build_state scs) ops)) = AFinal ->
  forall j, j < length scs -> forall fut,
  dj (deliv ha (build_state scs) ops) j = Sof scs (recvd ha (build_state scs) ops) j fut.
Proof.
  intros ha scs ops Hf j Hj fut.
  pose proof (run_tinv ha scs ops (build_state scs) [] [] (build_tinv scs)) as HT. cbn [app] in HT.
  pose proof (run_inv ha ops (build_state scs) (build_ainv scs)) as HI.
  pose proof (run_length ha ops (build_state scs) ltac:(cbn; discriminate)) as HL. cbn [build_state srcs] in HL. rewrite map_length in HL.
  unfold TInv in HT. unfold AInv in HI. rewrite Hf in HT, HI.
  destruct HT as ((HS & _) & HNI). destruct HI as (_ & Hq & Hnp).
  assert (Hj' : j < length (srcs (snd (run_from ha (build_state scs) ops)))) by lia.
  pose proof (HS j Hj') as Hs. unfold SrcOK in Hs.
  pose proof (HNI j Hj') as Hni. pose proof (npend_zero_nth _ j Hnp) as Hp. unfold pendb in Hp. fold (get_src (srcs (snd (run_from ha (build_state scs) ops))) j) in Hp.
  destruct (s_bst (get_src (srcs (snd (run_from ha (build_state scs) ops))) j)).
  - congruence.
  - destruct Hs as (v & _ & _ & _ & [(Hin & _)|(_ & Hy & _)]); [rewrite Hq in Hin; destruct Hin|discriminate].
  - discriminate.
  - destruct Hs as (_ & _ & H). symmetry. apply H.
Qed.

(* scripts that do not echo their argument yield the same values whatever arguments they receive *)
Lemma Sof_noecho scs R j fut : has_echo (nth j scs []) = false -> Sof scs R j fut = src_values (nth j scs []).
Proof. intro H. unfold Sof. apply svals_noecho. exact H. Qed.

(* C14 ends_iff_all_ended, if-direction: an accepted access after which every source is finished answers with the end
   of the sequence (End, or the remembered exception) and leaves the aggregate finished - it neither waits nor yields *)
Definition all_final (l : list src) : Prop := forall j, j < length l -> s_bst (get_src l j) = BFinal.

Lemma all_final_npend l : all_final l -> npend l = 0.
Proof.
  unfold all_final, get_src. induction l as [|s t IH]; intro H; [reflexivity|].
  cbn. pose proof (H 0 ltac:(cbn; lia)) as H0. cbn in H0. unfold pendb. rewrite H0. cbn.
  apply IH. intros j Hj. apply (H (S j)). cbn. lia.
Qed.

Definition terminal_res (r : res) : Prop := match r with RExc _ | REndF | REndT => True | _ => False end.

Theorem aggr_end_if_all_ended : forall ha scs ops y a p,
  let g := snd (run_from ha (build_state scs) ops) in
  let '(g1, o) := step ha g (OAccess y a p) in
  o_st o = 0%Z -> all_final (srcs g1) -> ast g1 = AFinal /\ terminal_res (o_res o).
Proof.
  intros ha scs ops y a p g.
  pose proof (run_tinv ha scs ops (build_state scs) [] [] (build_tinv scs)) as HT. cbn [app] in HT. fold g in HT.
  pose proof (run_inv ha ops (build_state scs) (build_ainv scs)) as HI. fold g in HI.
  pose proof (step_tinv ha scs _ _ g (OAccess y a p) HT) as HT1.
  pose proof (step_inv ha g (OAccess y a p) HI) as HI1.
  assert (HR : let '(g1, o) := step ha g (OAccess y a p) in o_st o = 0%Z ->
               ((exists i, ast g1 = AYield i) \/ ast g1 = AWait \/ (ast g1 = AFinal /\ terminal_res (o_res o)))).
  { assert (AO : forall g0 l r, let '(g1, res) := apply_outcome g0 l r y in
                 (exists i, ast g1 = AYield i) \/ ast g1 = AWait \/ (ast g1 = AFinal /\ terminal_res res)).
    { intros g0 l r. destruct r as [[[o q] c] x]. destruct o; cbn; eauto. }
    cbn [step]. destruct (idle g && style_ok ha y); [|cbn; discriminate].
    destruct (ast g) eqn:Ea; try (cbn; discriminate).
    - unfold charge_all. destruct (charge_from _ _ _ _ _ _ _) as [[[l q] ev] e].
      pose proof (AO (mkAgg l (reorder q p) (count g) (aexp g) (ast g) (aret g) (aexn g) (adone g) (aout g) (aerr g || e)) l (agg_loop l (reorder q p) (count g) (aexp g))) as HF.
      destruct (apply_outcome _ l _ y) as [g1 r]. cbn [o_res]. intros _. exact HF.
    - destruct (charge _ _) as [[[s1 b] e]|].
      + pose proof (AO g (set_src (srcs g) i s1) (agg_loop (set_src (srcs g) i s1) (reorder (if b then queue g ++ [i] else queue g) p) (count g) (aexp g))) as HF.
        destruct (apply_outcome g _ _ y) as [g1 r]. cbn [o_res]. intros _. exact HF.
      + pose proof (AO g (srcs g) (agg_loop (srcs g) (queue g) (pred (count g)) (Some (-2)%Z))) as HF.
        destruct (apply_outcome g _ _ y) as [g1 r]. cbn [o_res ast]. intros _. exact HF.
    - cbn [o_res]. intros _. right. right. split; [exact Ea|]. destruct (adone g); [destruct (fut_style y)|]; exact I. }
  destruct (step ha g (OAccess y a p)) as [g1 o]. cbn [fst] in *.
  intros Hst Hfin. destruct (HR Hst) as [[i Hy]|[Hw|Hf]].
  - exfalso. unfold TInv in HT1. rewrite Hy in HT1. destruct HT1 as ((HS & _) & _ & Hi).
    specialize (HS i Hi). unfold SrcOK in HS. rewrite (Hfin i Hi) in HS. destruct HS as (_ & Hyi & _). apply Hyi. reflexivity.
  - exfalso. unfold AInv in HI1. rewrite Hw in HI1. destruct HI1 as (Hc & _ & Hpos & _).
    rewrite (all_final_npend _ Hfin) in Hc. lia.
  - exact Hf.
Qed.
(* what is delivered is exactly what the consumer observes: a value answer leaves the aggregate parked at the yield
   of the source it came from *)
Definition vals_of (ops : list op) (os : list obs) : list Z :=
  flat_map (fun p => match fst p with
                     | OAccess _ _ _ | OComplete _ _ _ => match o_res (snd p) with RVal v => [v] | _ => [] end
                     | _ => []
                     end) (combine ops os).

Lemma apply_outcome_val g l r y : let '(g1, res) := apply_outcome g l r y in
  forall v, res = RVal v -> exists i, ast g1 = AYield i.
Proof. destruct r as [[[o q] c] x]. destruct o; cbn; intros v0 H; try discriminate. eauto. Qed.

Lemma step_val ha g x : let '(g1, o) := step ha g x in
  forall v, o_res o = RVal v -> (match x with OAccess _ _ _ | OComplete _ _ _ => True | _ => False end) -> exists i, ast g1 = AYield i.
Proof.
  destruct x as [sc| |y a p|i v p| | |]; cbn [step]; try (destruct (step ha g _); intros; contradiction).
  - destruct (ast g); try destruct (Nat.ltb _ _); cbn; intros; contradiction.
  - destruct (ast g); cbn; intros; contradiction.
  - destruct (idle g && style_ok ha y); [|cbn; intros; discriminate].
    destruct (ast g); try (cbn; intros; discriminate).
    + unfold charge_all. destruct (charge_from _ _ _ _ _ _ _) as [[[l q] ev] e].
      pose proof (apply_outcome_val (mkAgg l (reorder q p) (count g) (aexp g) (ast g) (aret g) (aexn g) (adone g) (aout g) (aerr g || e)) l (agg_loop l (reorder q p) (count g) (aexp g)) y) as H.
      destruct (apply_outcome _ l _ y) as [g1 r]. cbn [o_res]. intros v Hv _. eapply H. exact Hv.
    + destruct (charge _ _) as [[[s1 b] e]|].
      * pose proof (apply_outcome_val g (set_src (srcs g) i s1) (agg_loop (set_src (srcs g) i s1) (reorder (if b then queue g ++ [i] else queue g) p) (count g) (aexp g)) y) as H.
        destruct (apply_outcome g _ _ y) as [g1 r]. cbn [o_res]. intros v Hv _. eapply H. exact Hv.
      * pose proof (apply_outcome_val g (srcs g) (agg_loop (srcs g) (queue g) (pred (count g)) (Some (-2)%Z)) y) as H.
        destruct (apply_outcome g _ _ y) as [g1 r]. cbn [o_res ast]. intros v Hv _. eapply H. exact Hv.
    + cbn [o_res]. intros v Hv. destruct (adone g); [destruct (fut_style y)|]; discriminate.
  - destruct (ast g) eqn:Ea; try (cbn; intros; discriminate);
    (destruct (Nat.ltb i (length (srcs g))); [|cbn; intros; discriminate]);
    (destruct (complete_src _ _) as [[[s1 b] e]|]; [|cbn; intros; discriminate]);
    try (cbn; intros; discriminate).
    + destruct (aout g) as [y|]; [|cbn; intros; discriminate].
      pose proof (apply_outcome_val g (set_src (srcs g) i s1) (agg_loop (set_src (srcs g) i s1) (reorder (if b then queue g ++ [i] else queue g) p) (count g) (aexp g)) y) as H.
      destruct (apply_outcome g _ _ y) as [g1 r]. cbn [o_res]. intros v0 Hv _. eapply H. exact Hv.
    + destruct (drain _ _) as [[q1 c1] bl]. destruct bl; cbn; intros; discriminate.
  - destruct (idle g); [|cbn; intros; contradiction]. destruct (ast g); try destruct (drain _ _) as [[? ?] []]; cbn; intros; contradiction.
  - destruct (idle g); [|cbn; intros; contradiction]. destruct (ast g); cbn; intros; contradiction.
  - cbn. intros; contradiction.
Qed.

Theorem aggr_deliv_is_observed : forall ha ops g,
  map snd (deliv ha g ops) = vals_of ops (fst (run_from ha g ops)).
Proof.
  intros ha. induction ops as [|x ops IH]; intros g; [reflexivity|].
  rewrite run_cons. cbn [deliv fst]. unfold vals_of. cbn [combine flat_map fst snd].
  pose proof (step_val ha g x) as HV. destruct (step ha g x) as [g1 o]. cbn [fst snd].
  rewrite map_app. f_equal; [|apply IH].
  destruct x; cbn [dstep]; try reflexivity; unfold dres;
  (destruct (o_res o) eqn:Er; try reflexivity;
   destruct (HV _ eq_refl I) as [i0 ->]; reflexivity).
Qed.


(* ---------- argument routing ---------- *)
Definition arg_is (a : Z) (e : event) : Prop := match e with EArg x => x = a | _ => True end.

Lemma exec_arg_events : forall pc gs cur arg,
  let '(_, _, _, _, ev) := exec pc gs cur arg in Forall (arg_is arg) ev.
Proof.
  assert (HD : forall a gs, Forall (arg_is a) (map EDtor gs)) by (intros a gs; induction gs; cbn; constructor; cbn; auto).
  induction pc as [|i t IH]; intros gs cur arg; [unfold exec; cbn; apply HD|].
  destruct i; unfold exec; fold exec; try (constructor; fail); try apply HD; try apply IH.
  - specialize (IH gs cur arg). destruct (exec t gs cur arg) as [[[[st p] g] c] ev]. constructor; [exact I|exact IH].
  - destruct (Nat.ltb (length gs) max_guards); [|apply IH].
    specialize (IH (x :: gs) cur arg). destruct (exec t (x :: gs) cur arg) as [[[[st p] g] c] ev]. constructor; [exact I|exact IH].
  - destruct gs as [|x g']; [apply IH|].
    specialize (IH g' cur arg). destruct (exec t g' cur arg) as [[[[st p] g] c] ev]. constructor; [exact I|exact IH].
  - specialize (IH gs arg arg). destruct (exec t gs arg arg) as [[[[st p] g] c] ev]. constructor; [reflexivity|exact IH].
Qed.

(* C14 argument_routing: an access of an aggregate parked at the yield of source i resumes source i and no other
   source, and every argument that source receives during that access is the access's argument *)
Theorem aggr_argument_routing : forall ha g y a pf i s1 b e,
  ast g = AYield i -> idle g = true -> style_ok ha y = true ->
  charge (get_src (srcs g) i) a = Some (s1, b, e) ->
  o_ev (snd (step ha g (OAccess y a pf))) = tag_ev i e /\ Forall (arg_is a) e /\
  s_arg s1 = a.
Proof.
  intros ha g y a pf i s1 b e Ha Hi Hs Hc. cbn [step]. rewrite Hi, Hs, Ha. cbn [andb]. rewrite Hc.
  destruct (apply_outcome g _ _ y) as [g1 r]. cbn [snd o_ev]. split; [reflexivity|].
  unfold charge in Hc. destruct (s_bst (get_src (srcs g) i)); try discriminate.
  - pose proof (exec_arg_events (s_pc (get_src (srcs g) i)) (s_gds (get_src (srcs g) i)) (s_cur (get_src (srcs g) i)) a) as HE.
    destruct (exec _ _ _ _) as [[[[st p] g0] c] ev]. destruct st; cbn in Hc; injection Hc as <- _ <-; split; auto.
  - pose proof (exec_arg_events (s_pc (get_src (srcs g) i)) (s_gds (get_src (srcs g) i)) a a) as HE.
    destruct (exec _ _ _ _) as [[[[st p] g0] c] ev]. destruct st; cbn in Hc; injection Hc as <- _ <-; split; auto; constructor; auto; reflexivity.
Qed.

(* ---------- RAII balance across all source frames ---------- *)
Definition ccount (f : event -> bool) (j : nat) (l : list sevent) : nat :=
  count_ev f (map snd (filter (fun p => Nat.eqb (fst p) j) l)).

Lemma ccount_app f j a b : ccount f j (a ++ b) = ccount f j a + ccount f j b.
Proof. unfold ccount. rewrite filter_app, map_app. apply count_ev_app. Qed.

Lemma ccount_tag f j i e : ccount f j (tag_ev i e) = if Nat.eqb i j then count_ev f e else 0.
Proof.
  unfold ccount, tag_ev. destruct (Nat.eqb i j) eqn:E; induction e as [|x e IH]; cbn [map filter fst snd]; rewrite ?E; cbn [map]; auto.
  cbn [count_ev]. rewrite IH. reflexivity.
Qed.

Definition gcount (x : Z) (l : list src) (j : nat) : nat := count_z x (s_gds (get_src l j)).

Lemma src_after_bal x s pc gs cur arg :
  let '(s1, _, ev) := src_after s (exec pc gs cur arg) in
  count_ev (is_ctor x) ev + count_z x gs = count_ev (is_dtor x) ev + count_z x (s_gds s1).
Proof.
  pose proof (exec_balance x pc gs cur arg) as H.
  destruct (exec pc gs cur arg) as [[[[st p] g] c] ev]. destruct st; cbn; exact H.
Qed.

Lemma charge_bal x s a s1 b e : charge s a = Some (s1, b, e) ->
  count_ev (is_ctor x) e + count_z x (s_gds s) = count_ev (is_dtor x) e + count_z x (s_gds s1).
Proof.
  unfold charge. destruct (s_bst s); try discriminate.
  - intro H. injection H as H.
    pose proof (src_after_bal x (mkSrc (s_pc s) (s_gds s) (s_cur s) a BInit (s_ret s) (s_exn s) (s_done s)) (s_pc s) (s_gds s) (s_cur s) a) as HB.
    rewrite H in HB. exact HB.
  - pose proof (src_after_bal x (mkSrc (s_pc s) (s_gds s) a a BYield (s_ret s) (s_exn s) (s_done s)) (s_pc s) (s_gds s) a a) as HB.
    destruct (src_after _ _) as [[s2 b2] ev2]. intro H. injection H as <- _ <-. cbn. exact HB.
Qed.

Lemma complete_bal x s v s1 b e : complete_src s v = Some (s1, b, e) ->
  count_ev (is_ctor x) e + count_z x (s_gds s) = count_ev (is_dtor x) e + count_z x (s_gds s1).
Proof.
  unfold complete_src. destruct (s_bst s); try discriminate.
  pose proof (src_after_bal x s (s_pc s) (s_gds s) (s_cur s) (s_arg s)) as HB.
  destruct (src_after _ _) as [[s2 b2] ev2]. intro H. injection H as <- _ <-. cbn. exact HB.
Qed.

Lemma gcount_set x l i s j : i < length l ->
  gcount x (set_src l i s) j = if Nat.eqb i j then count_z x (s_gds s) else gcount x l j.
Proof.
  intro Hi. unfold gcount. destruct (Nat.eqb i j) eqn:E.
  - apply Nat.eqb_eq in E. subst. rewrite get_set_same by exact Hi. reflexivity.
  - apply Nat.eqb_neq in E. rewrite get_set_other by congruence. reflexivity.
Qed.

(* one source runs: events tagged i, only source i's locals change *)
Lemma fire_bal x l i s1 e j : i < length l ->
  count_ev (is_ctor x) e + count_z x (s_gds (get_src l i)) = count_ev (is_dtor x) e + count_z x (s_gds s1) ->
  ccount (is_ctor x) j (tag_ev i e) + gcount x l j = ccount (is_dtor x) j (tag_ev i e) + gcount x (set_src l i s1) j.
Proof.
  intros Hi H. rewrite !ccount_tag, gcount_set by exact Hi. unfold gcount.
  destruct (Nat.eqb i j) eqn:E; [apply Nat.eqb_eq in E; subst; exact H|lia].
Qed.

Lemma charge_from_bal x : forall n i a l q ev e j,
  i + n = length l ->
  let '(l', _, ev', _) := charge_from n i a l q ev e in
  ccount (is_ctor x) j ev' + gcount x l j + ccount (is_dtor x) j ev
  = ccount (is_dtor x) j ev' + gcount x l' j + ccount (is_ctor x) j ev.
Proof.
  induction n as [|n IH]; intros i a l q ev e j Hn; [cbn; lia|].
  cbn [charge_from]. assert (Hi : i < length l) by lia.
  destruct (charge (get_src l i) a) as [[[s1 b] e1]|] eqn:Ec.
  - pose proof (fire_bal x l i s1 e1 j Hi (charge_bal x _ _ _ _ _ Ec)) as HF.
    specialize (IH (S i) a (set_src l i s1) (if b then q ++ [i] else q) (ev ++ tag_ev i e1) e j).
    unfold set_src in IH at 1. rewrite set_nth_length in IH. specialize (IH ltac:(lia)).
    destruct (charge_from n (S i) a (set_src l i s1) _ _ e) as [[[l' q'] ev'] e'].
    rewrite !ccount_app in IH. lia.
  - specialize (IH (S i) a l q ev true j ltac:(lia)).
    destruct (charge_from n (S i) a l q ev true) as [[[l' q'] ev'] e']. exact IH.
Qed.

Lemma destroy_srcs_count x j : forall l k,
  ccount (is_ctor x) j (destroy_srcs l k) = 0 /\
  ccount (is_dtor x) j (destroy_srcs l k) = (if Nat.leb k j then gcount x l (j - k) else 0).
Proof.
  induction l as [|s t IH]; intros k.
  - split; [reflexivity|]. cbn [destroy_srcs]. destruct (Nat.leb k j); [|reflexivity]. unfold gcount, get_src. destruct (j - k); reflexivity.
  - cbn [destroy_srcs]. rewrite !ccount_app, !ccount_tag. destruct (IH (S k)) as [IH1 IH2]. rewrite IH1, IH2.
    rewrite count_ctor_map, count_dtor_map.
    destruct (Nat.eqb k j) eqn:E.
    + apply Nat.eqb_eq in E. subst. rewrite Nat.leb_refl, Nat.sub_diag.
      assert (Nat.leb (S j) j = false) by (apply Nat.leb_gt; lia). rewrite H. unfold gcount, get_src. cbn. split; lia.
    + apply Nat.eqb_neq in E. split; [destruct (Nat.leb (S k) j); reflexivity|].
      destruct (Nat.leb k j) eqn:L.
      * apply Nat.leb_le in L. assert (Nat.leb (S k) j = true) by (apply Nat.leb_le; lia). rewrite H.
        unfold gcount, get_src. replace (j - k) with (S (j - S k)) by lia. cbn. lia.
      * apply Nat.leb_gt in L. assert (Nat.leb (S k) j = false) by (apply Nat.leb_gt; lia). rewrite H. reflexivity.
Qed.

Lemma finish_destroy_bal x j g q c :
  let '(g1, o) := finish_destroy g q c in
  ccount (is_ctor x) j (o_ev o) + gcount x (srcs g) j = ccount (is_dtor x) j (o_ev o) + gcount x (srcs g1) j /\
  gcount x (srcs g1) j = 0.
Proof.
  unfold finish_destroy. cbn [o_ev srcs].
  destruct (destroy_srcs_count x j (srcs g) 0) as [H1 H2]. rewrite H1, H2. cbn [Nat.leb]. rewrite Nat.sub_0_r.
  assert (H0 : gcount x (map (fun s => mkSrc (s_pc s) [] (s_cur s) (s_arg s) (s_bst s) (s_ret s) (s_exn s) (s_done s)) (srcs g)) j = 0).
  { unfold gcount, get_src. clear H1 H2. generalize j. induction (srcs g) as [|s t IH]; intros [|k]; cbn [map nth s_gds count_z src0]; try reflexivity. apply IH. }
  rewrite H0. split; lia.
Qed.

Lemma apply_outcome_srcs' g l r y : srcs (fst (apply_outcome g l r y)) = l.
Proof. apply apply_outcome_srcs. Qed.

Lemma gcount_app_src0 x l sc j : gcount x (l ++ [src0 sc]) j = gcount x l j.
Proof.
  unfold gcount, get_src. destruct (Nat.lt_ge_cases j (length l)) as [H|H].
  - rewrite app_nth1 by exact H. reflexivity.
  - rewrite app_nth2 by exact H. rewrite (nth_overflow l) by exact H.
    destruct (j - length l) as [|[|k]]; reflexivity.
Qed.

(* one step: constructions + live locals before = destructions + live locals after, per source and local id *)
Lemma step_bal ha g x0 x j : AInv g ->
  let '(g1, o) := step ha g x0 in
  ccount (is_ctor x) j (o_ev o) + gcount x (srcs g) j = ccount (is_dtor x) j (o_ev o) + gcount x (srcs g1) j.
Proof.
  intro HI.
  assert (R : ccount (is_ctor x) j (o_ev rejected) + gcount x (srcs g) j = ccount (is_dtor x) j (o_ev rejected) + gcount x (srcs g) j) by reflexivity.
  destruct x0 as [sc| |y a p|i v p| | |]; cbn [step].
  - destruct (ast g); try exact R. destruct (Nat.ltb (length (srcs g)) 12); [|exact R].
    cbn [o_ev srcs]. rewrite gcount_app_src0. reflexivity.
  - destruct (ast g); first [exact R | reflexivity].
  - destruct (idle g && style_ok ha y); [|exact R].
    unfold AInv in HI. destruct (ast g) eqn:Ea; try exact R.
    + unfold charge_all. pose proof (charge_from_bal x (length (srcs g)) 0 a (srcs g) [] [] false j eq_refl) as HC.
      destruct (charge_from _ _ _ _ _ _ _) as [[[l q] ev] e].
      pose proof (apply_outcome_srcs (mkAgg l (reorder q p) (count g) (aexp g) (ast g) (aret g) (aexn g) (adone g) (aout g) (aerr g || e)) l (agg_loop l (reorder q p) (count g) (aexp g)) y) as HS.
      destruct (apply_outcome _ l _ y) as [g1 r]. cbn [fst o_ev] in *. rewrite HS. cbn in HC. lia.
    + destruct HI as (_ & Hi & _).
      destruct (charge (get_src (srcs g) i) a) as [[[s1 b] e]|] eqn:Ec.
      * pose proof (fire_bal x (srcs g) i s1 e j Hi (charge_bal x _ _ _ _ _ Ec)) as HF.
        pose proof (apply_outcome_srcs g (set_src (srcs g) i s1) (agg_loop (set_src (srcs g) i s1) (reorder (if b then queue g ++ [i] else queue g) p) (count g) (aexp g)) y) as HS.
        destruct (apply_outcome g _ _ y) as [g1 r]. cbn [fst o_ev] in *. rewrite HS. exact HF.
      * pose proof (apply_outcome_srcs g (srcs g) (agg_loop (srcs g) (queue g) (pred (count g)) (Some (-2)%Z)) y) as HS.
        destruct (apply_outcome g _ _ y) as [g1 r]. cbn [fst o_ev srcs] in *. rewrite HS. reflexivity.
  - destruct (ast g) eqn:Ea; try exact R;
    (destruct (Nat.ltb i (length (srcs g))) eqn:Hlt; [|exact R]); apply Nat.ltb_lt in Hlt;
    (destruct (complete_src (get_src (srcs g) i) v) as [[[s1 b] e]|] eqn:Ec; [|exact R]);
    pose proof (fire_bal x (srcs g) i s1 e j Hlt (complete_bal x _ _ _ _ _ Ec)) as HF;
    try (cbn [o_ev srcs]; exact HF).
    + destruct (aout g) as [y|]; [|exact R].
      pose proof (apply_outcome_srcs g (set_src (srcs g) i s1) (agg_loop (set_src (srcs g) i s1) (reorder (if b then queue g ++ [i] else queue g) p) (count g) (aexp g)) y) as HS.
      destruct (apply_outcome g _ _ y) as [g1 r]. cbn [fst o_ev] in *. rewrite HS. exact HF.
    + destruct (drain _ _) as [[q1 c1] bl]. destruct bl; [cbn [o_ev srcs]; exact HF|].
      pose proof (finish_destroy_bal x j (mkAgg (set_src (srcs g) i s1) q1 c1 (aexp g) ADying (aret g) (aexn g) (adone g) (aout g) (aerr g)) q1 c1) as HD.
      destruct (finish_destroy _ q1 c1) as [g1 o]. cbn [o_ev srcs] in *. destruct HD as [HD _].
      rewrite !ccount_app. lia.
  - destruct (idle g); [|exact R]. destruct (ast g) eqn:Ea; try exact R.
    + pose proof (finish_destroy_bal x j g (queue g) (count g)) as HD. destruct (finish_destroy g _ _) as [g1 o]. apply HD.
    + destruct (drain _ _) as [[q1 c1] bl]. destruct bl; [reflexivity|].
      pose proof (finish_destroy_bal x j (mkAgg (srcs g) q1 c1 (aexp g) ADying (aret g) (aexn g) (adone g) (Some 0%Z) (aerr g)) q1 c1) as HD.
      destruct (finish_destroy _ q1 c1) as [g1 o]. apply HD.
    + destruct (drain _ _) as [[q1 c1] bl]. destruct bl; [reflexivity|].
      pose proof (finish_destroy_bal x j (mkAgg (srcs g) q1 c1 (aexp g) ADying (aret g) (aexn g) (adone g) (Some 0%Z) (aerr g)) q1 c1) as HD.
      destruct (finish_destroy _ q1 c1) as [g1 o]. apply HD.
  - destruct (idle g); [|exact R]. destruct (ast g); first [exact R | reflexivity].
  - exact R.
Qed.

Definition all_sevents (os : list obs) : list sevent := flat_map o_ev os.

Lemma run_bal ha x j : forall ops g, AInv g ->
  ccount (is_ctor x) j (all_sevents (fst (run_from ha g ops))) + gcount x (srcs g) j
  = ccount (is_dtor x) j (all_sevents (fst (run_from ha g ops))) + gcount x (srcs (snd (run_from ha g ops))) j.
Proof.
  induction ops as [|x0 ops IH]; intros g HI; [cbn; lia|].
  rewrite run_cons. cbn [fst snd all_sevents flat_map]. fold (all_sevents (fst (run_from ha (fst (step ha g x0)) ops))).
  rewrite !ccount_app.
  pose proof (step_bal ha g x0 x j HI) as HS. pose proof (step_inv ha g x0 HI) as HI1.
  destruct (step ha g x0) as [g1 o]. cbn [fst snd] in *. specialize (IH g1 HI1). lia.
Qed.

(* the dead aggregate holds no live local *)
Lemma dead_gcount ha x j : forall ops g, AInv g -> (ast g = ADead -> gcount x (srcs g) j = 0) ->
  ast (snd (run_from ha g ops)) = ADead -> gcount x (srcs (snd (run_from ha g ops))) j = 0.
Proof.
  induction ops as [|x0 ops IH]; intros g HI HD; [exact HD|].
  rewrite run_cons. cbn [snd]. apply IH; [apply step_inv; exact HI|].
  clear IH. destruct x0 as [sc| |y a p|i v p| | |]; cbn [step].
  - destruct (ast g) eqn:Ea; try (cbn [fst]; rewrite Ea; exact HD). destruct (Nat.ltb _ _); cbn; [discriminate|rewrite Ea; discriminate].
  - destruct (ast g) eqn:Ea; try (cbn [fst]; rewrite Ea; exact HD). cbn. discriminate.
  - destruct (idle g && style_ok ha y); [|exact HD].
    destruct (ast g) eqn:Ea; try (cbn [fst]; rewrite Ea; exact HD).
    + unfold charge_all. destruct (charge_from _ _ _ _ _ _ _) as [[[l q] ev] e].
      destruct (apply_outcome _ l _ y) as [g1 r] eqn:E. cbn [fst]. unfold apply_outcome in E.
      destruct (agg_loop _ _ _ _) as [[[o q'] c'] x']. destruct o; injection E as <- _; cbn; discriminate.
    + destruct (charge _ _) as [[[s1 b] e]|]; destruct (apply_outcome g _ _ y) as [g1 r] eqn:E; cbn [fst ast]; unfold apply_outcome in E;
      destruct (agg_loop _ _ _ _) as [[[o q'] c'] x']; destruct o; injection E as <- _; cbn; discriminate.
  - destruct (ast g) eqn:Ea; try (cbn [fst]; rewrite Ea; exact HD);
    (destruct (Nat.ltb i (length (srcs g))); [|cbn [fst]; rewrite Ea; try exact HD; discriminate]);
    (destruct (complete_src _ _) as [[[s1 b] e]|]; [|cbn [fst]; rewrite Ea; try exact HD; discriminate]);
    try (cbn; discriminate).
    + destruct (aout g) as [y|]; [|cbn [fst]; rewrite Ea; discriminate].
      destruct (apply_outcome g _ _ y) as [g1 r] eqn:E; cbn [fst]; unfold apply_outcome in E.
      destruct (agg_loop _ _ _ _) as [[[o q'] c'] x']; destruct o; injection E as <- _; cbn; discriminate.
    + destruct (drain _ _) as [[q1 c1] bl]. destruct bl; [cbn; discriminate|].
      pose proof (finish_destroy_bal x j (mkAgg (set_src (srcs g) i s1) q1 c1 (aexp g) ADying (aret g) (aexn g) (adone g) (aout g) (aerr g)) q1 c1) as HF.
      destruct (finish_destroy _ q1 c1) as [g1 o]. cbn [fst]. intros _. apply HF.
  - destruct (idle g); [|exact HD]. destruct (ast g) eqn:Ea; try (cbn [fst]; rewrite Ea; exact HD).
    + pose proof (finish_destroy_bal x j g (queue g) (count g)) as HF. destruct (finish_destroy g _ _) as [g1 o]. cbn [fst]. intros _. apply HF.
    + destruct (drain _ _) as [[q1 c1] bl]. destruct bl; [cbn; discriminate|].
      pose proof (finish_destroy_bal x j (mkAgg (srcs g) q1 c1 (aexp g) ADying (aret g) (aexn g) (adone g) (Some 0%Z) (aerr g)) q1 c1) as HF.
      destruct (finish_destroy _ q1 c1) as [g1 o]. cbn [fst]. intros _. apply HF.
    + destruct (drain _ _) as [[q1 c1] bl]. destruct bl; [cbn; discriminate|].
      pose proof (finish_destroy_bal x j (mkAgg (srcs g) q1 c1 (aexp g) ADying (aret g) (aexn g) (adone g) (Some 0%Z) (aerr g)) q1 c1) as HF.
      destruct (finish_destroy _ q1 c1) as [g1 o]. cbn [fst]. intros _. apply HF.
  - destruct (idle g); [|exact HD]. destruct (ast g) eqn:Ea; cbn [fst]; rewrite ?Ea; try exact HD; discriminate.
  - exact HD.
Qed.

(* C14 RAII balance: over any run, for every source j and local id x: constructions = destructions + locals of
   source j still alive; once the aggregate is destroyed (at a yield with or without in-flight sources, never started,
   or finished) every constructed local of every source frame has been destroyed exactly as often as constructed *)
Theorem aggr_raii_balance : forall ha ops j x,
  let r := run_from ha agg0 ops in
  ccount (is_ctor x) j (all_sevents (fst r)) = ccount (is_dtor x) j (all_sevents (fst r)) + gcount x (srcs (snd r)) j /\
  (ast (snd r) = ADead -> ccount (is_ctor x) j (all_sevents (fst r)) = ccount (is_dtor x) j (all_sevents (fst r))).
Proof.
  intros ha ops j x r. subst r.
  pose proof (run_bal ha x j ops agg0 inv0) as HB.
  assert (H0 : gcount x (srcs agg0) j = 0) by (unfold gcount, get_src; destruct j; reflexivity).
  rewrite H0 in HB. split; [lia|].
  intro Hd. pose proof (dead_gcount ha x j ops agg0 inv0 (fun H => ltac:(discriminate H)) Hd) as HG. lia.
Qed.
