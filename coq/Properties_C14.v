(* Properties_C14.v — C14: generator_aggregator = union of all sources, per-source order preserved.
   Only statements; every proof is `exact <lemma of AggrProofs>`.
   Quantification: any number of sources (a list), any scripts, any op list = any access sequence and any completion
   schedule (position and order of the Complete ops), malformed ops included; both generator<T> and generator<T,Arg>. *)
From Cocls Require Import Base BaseProofs GenDefs GenProofs AggrDefs AggrProofs.

(* accounting: in every reachable state every active source is exactly one of: queued, in flight, or the one whose
   value the consumer holds (count = |queue| + #suspended + [parked at a yield]) *)
Theorem c14_accounting : forall ha ops, AInv (snd (run_from ha agg0 ops)).
Proof. exact aggr_accounting. Qed.
Print Assumptions c14_accounting.

(* the loop: every iteration that does not stop retires one source and consumes one completion; a yield hands out
   the current value of a queued, unfinished, non-throwing source; the loop stops waiting only with an empty queue
   and ends only with count = 0 *)
Theorem c14_loop_accounting : forall l q c x,
  let '(o, q', c', x') := agg_loop l q c x in
  c' + length q = c + length q' + is_yield o /\
  (o = OWait -> q' = [] /\ c' > 0) /\
  (match o with OThrow _ | ORet => c' = 0 | _ => True end) /\
  (forall j, In j q' -> In j q) /\
  (forall i v, o = OYield i v -> In i q /\ s_ret (get_src l i) = Some v /\ s_done (get_src l i) = false /\ s_exn (get_src l i) = None).
Proof. exact agg_loop_acc. Qed.
Print Assumptions c14_loop_accounting.

(* ends_iff_all_ended (only-if): the aggregate ends only when no source is active, queued or in flight *)
Theorem c14_end_means_all_ended : forall ha ops,
  let g := snd (run_from ha agg0 ops) in
  ast g = AFinal -> count g = 0 /\ queue g = [] /\ npend (srcs g) = 0.
Proof. exact aggr_end_means_all_ended. Qed.
Print Assumptions c14_end_means_all_ended.

(* exception_kept: a remembered source exception is never forgotten, it is thrown to the consumer only when no source
   is active any more (so the other sources' values came first), and the normal end needs no remembered exception *)
Theorem c14_exception_kept : forall l q c x,
  let '(o, _, c', x') := agg_loop l q c x in
  (x <> None -> x' <> None) /\
  (forall e, o = OThrow e -> c' = 0 /\ x' = Some e) /\
  (o = ORet -> c' = 0 /\ x' = None /\ x = None).
Proof. exact agg_loop_exception. Qed.
Print Assumptions c14_exception_kept.

(* destroy_parked: the destructor of an aggregate parked at a yield pops the whole completion queue and then needs
   exactly one completion per source still in flight; it blocks iff there is one, and then a Complete op is enabled *)
Theorem c14_destroy_parked : forall ha ops i,
  let g := snd (run_from ha agg0 ops) in
  ast g = AYield i ->
  let '(q1, c1, blocked) := drain (queue g) (count g) in
  q1 = [] /\ c1 = npend (srcs g) + 1 /\
  (blocked = true <-> npend (srcs g) > 0) /\
  (blocked = true -> exists j, j < length (srcs g) /\ pendb (nth j (srcs g) (src0 [])) = true).
Proof. exact aggr_destroy_exact. Qed.
Print Assumptions c14_destroy_parked.

Theorem c14_destroy_progress : forall ha ops,
  let g := snd (run_from ha agg0 ops) in
  ast g = ADying -> count g = npend (srcs g) + 1 /\ queue g = [] /\ npend (srcs g) > 0.
Proof. exact aggr_dying_accounting. Qed.
Print Assumptions c14_destroy_progress.
