(* Properties_C14.v — C14: generator_aggregator = union of all sources, per-source order preserved.
   Only statements; every proof is `exact <lemma of AggrProofs>`.
   Quantification: any number of sources (a list), any scripts, any op list = any access sequence and any completion
   schedule (position and order of the Complete ops), malformed ops included; both generator<T> and generator<T,Arg>. *)
From Cocls Require Import Base BaseProofs GenDefs GenProofs AggrDefs AggrProofs.

(* accounting: in every reachable state every active source is exactly one of: queued, in flight, or the one whose
   value the consumer holds (count = |queue| + #suspended + [parked at a yield]) *)
Theorem c14_accounting : forall ha ops, AInv (snd (run_from ha agg0 ops)).
Proof. exact aggr_accounting. Qed.
Print Assumptions c14_accounting.

(* the loop: every iteration that does not stop retires one source and consumes one completion; a yield hands out
   the current value of a queued, unfinished, non-throwing source; the loop stops waiting only with an empty queue
   and ends only with count = 0 *)
Theorem c14_loop_accounting : forall l q c x,
  let '(o, q', c', x') := agg_loop l q c x in
  c' + length q = c + length q' + is_yield o /\
  (o = OWait -> q' = [] /\ c' > 0) /\
  (match o with OThrow _ | ORet => c' = 0 | _ => True end) /\
  (forall j, In j q' -> In j q) /\
  (forall i v, o = OYield i v -> In i q /\ s_ret (get_src l i) = Some v /\ s_done (get_src l i) = false /\ s_exn (get_src l i) = None).
Proof. exact agg_loop_acc. Qed.
Print Assumptions c14_loop_accounting.

(* ends_iff_all_ended (only-if): the aggregate ends only when no source is active, queued or in flight *)
Theorem c14_end_means_all_ended : forall ha ops,
  let g := snd (run_from ha agg0 ops) in
  ast g = AFinal -> count g = 0 /\ queue g = [] /\ npend (srcs g) = 0.
Proof. exact aggr_end_means_all_ended. Qed.
Print Assumptions c14_end_means_all_ended.

(* exception_kept: a remembered source exception is never forgotten, it is thrown to the consumer only when no source
   is active any more (so the other sources' values came first), and the normal end needs no remembered exception *)
Theorem c14_exception_kept : forall l q c x,
  let '(o, _, c', x') := agg_loop l q c x in
  (x <> None -> x' <> None) /\
  (forall e, o = OThrow e -> c' = 0 /\ x' = Some e) /\
  (o = ORet -> c' = 0 /\ x' = None /\ x = None).
Proof. exact agg_loop_exception. Qed.
Print Assumptions c14_exception_kept.

(* destroy_parked: the destructor of an aggregate parked at a yield pops the whole completion queue and then needs
   exactly one completion per source still in flight; it blocks iff there is one, and then a Complete op is enabled *)
Theorem c14_destroy_parked : forall ha ops i,
  let g := snd (run_from ha agg0 ops) in
  ast g = AYield i ->
  let '(q1, c1, blocked) := drain (queue g) (count g) in
  q1 = [] /\ c1 = npend (srcs g) + 1 /\
  (blocked = true <-> npend (srcs g) > 0) /\
  (blocked = true -> exists j, j < length (srcs g) /\ pendb (nth j (srcs g) (src0 [])) = true).
Proof. exact aggr_destroy_exact. Qed.
Print Assumptions c14_destroy_parked.

Theorem c14_destroy_progress : forall ha ops,
  let g := snd (run_from ha agg0 ops) in
  ast g = ADying -> count g = npend (srcs g) + 1 /\ queue g = [] /\ npend (srcs g) > 0.
Proof. exact aggr_dying_accounting. Qed.
Print Assumptions c14_destroy_progress.

(* per_source_order: for any number of sources, any scripts (with or without arguments / YieldEcho), any access sequence
   and any completion schedule, the values delivered from source j - in delivery order - are a prefix of the value
   sequence source j's script yields when run with the arguments routed to it so far (`Sof`, defined on the script and
   the received arguments alone; `recvd` = the first argument to every source, each later one to the source returned
   last): nothing skipped, repeated, reordered or invented within a source *)
Theorem c14_per_source_order : forall ha scs ops j, j < length scs -> forall fut,
  exists rest, dj (deliv ha (build_state scs) ops) j ++ rest = Sof scs (recvd ha (build_state scs) ops) j fut.
Proof. exact aggr_per_source_order. Qed.
Print Assumptions c14_per_source_order.

(* union: once the aggregate has ended, every source's complete value sequence has been delivered, each value exactly
   once and in the source's order *)
Theorem c14_union : forall ha scs ops,
  ast (snd (run_from ha (build_state scs) ops)) = AFinal ->
  forall j, j < length scs -> forall fut,
  dj (deliv ha (build_state scs) ops) j = Sof scs (recvd ha (build_state scs) ops) j fut.
Proof. exact aggr_union. Qed.
Print Assumptions c14_union.

(* for scripts that do not echo their argument the sequence is the script's value list, whatever arguments arrive *)
Theorem c14_values_without_echo : forall scs R j fut,
  has_echo (nth j scs []) = false -> Sof scs R j fut = src_values (nth j scs []).
Proof. exact Sof_noecho. Qed.
Print Assumptions c14_values_without_echo.

(* ends_iff_all_ended, if-direction: an accepted access after which every source is finished answers with the end of
   the sequence (End or the remembered exception) and leaves the aggregate finished; with c14_end_means_all_ended this
   is the "iff" *)
Theorem c14_end_if_all_ended : forall ha scs ops y a p,
  let g := snd (run_from ha (build_state scs) ops) in
  let '(g1, o) := step ha g (OAccess y a p) in
  o_st o = 0%Z -> all_final (srcs g1) -> ast g1 = AFinal /\ terminal_res (o_res o).
Proof. exact aggr_end_if_all_ended. Qed.
Print Assumptions c14_end_if_all_ended.

(* the delivered values are exactly the value answers the consumer observes, in the same order *)
Theorem c14_delivered_is_observed : forall ha ops g,
  map snd (deliv ha g ops) = vals_of ops (fst (run_from ha g ops)).
Proof. exact aggr_deliv_is_observed. Qed.
Print Assumptions c14_delivered_is_observed.

(* argument_routing: an access of an aggregate parked at the yield of source i resumes exactly source i, which
   receives exactly that access's argument *)
Theorem c14_argument_routing : forall ha g y a p i s1 b e,
  ast g = AYield i -> idle g = true -> style_ok ha y = true ->
  charge (get_src (srcs g) i) a = Some (s1, b, e) ->
  o_ev (snd (step ha g (OAccess y a p))) = tag_ev i e /\ Forall (arg_is a) e /\ s_arg s1 = a.
Proof. exact aggr_argument_routing. Qed.
Print Assumptions c14_argument_routing.

(* RAII balance across all source frames: over any run, for every source j and local id x, constructions =
   destructions + locals of source j still alive; once the aggregate is destroyed (parked with or without in-flight
   sources, never started, or finished) every local of every source frame was destroyed exactly as often as it was
   constructed.  (The destruction of all frames is the single step into ADead, after which every op is rejected:
   AggrProofs.aggr_dead_rejects.) *)
Theorem c14_raii_balance : forall ha ops j x,
  let r := run_from ha agg0 ops in
  ccount (is_ctor x) j (all_sevents (fst r)) = ccount (is_dtor x) j (all_sevents (fst r)) + gcount x (srcs (snd r)) j /\
  (ast (snd r) = ADead -> ccount (is_ctor x) j (all_sevents (fst r)) = ccount (is_dtor x) j (all_sevents (fst r))).
Proof. exact aggr_raii_balance. Qed.
Print Assumptions c14_raii_balance.

(* the completion ORDER between sources is not fixed by C14: every theorem above quantifies over op lists in which each
   access / completion may carry an arbitrary preference list that rearranges the completion queue before the loop
   pops it (`reorder`, always a permutation; [] = the library's FIFO) - so they hold for FIFO, LIFO or any other
   pop order *)
Theorem c14_any_pop_order : forall p q, Permutation (reorder q p) q.
Proof. exact reorder_perm. Qed.
Print Assumptions c14_any_pop_order.

(* non-vacuity: three sources (one suspending, one throwing) built through the ops, read to the end: the state reached
   by the Source/Build ops is build_state, the union is delivered, the exception comes last *)
Example c14_nonvacuous :
  let scs := [[IYield 0; IYield 1]; [IAwaitPending 1; IYield 1000]; [IYield 2000; IThrow 7]] in
  let ops := [OAccess 0 0 []; OAccess 3 0 []; OAccess 2 0 []; OAccess 0 0 []; OComplete 1 5 []; OAccess 4 0 []; OAccess 0 0 []] in
  snd (run_from false agg0 (map OSource scs ++ [OBuild])) = build_state scs /\
  map o_res (fst (run_from false (build_state scs) ops)) = [RVal 0; RVal 2000; RVal 1; RPend; RVal 1000; RExc 7; REndT] /\
  deliv false (build_state scs) ops = [(0%nat, 0%Z); (2%nat, 2000%Z); (0%nat, 1%Z); (1%nat, 1000%Z)] /\
  ast (snd (run_from false (build_state scs) ops)) = AFinal.
Proof. vm_compute. repeat split; reflexivity. Qed.
