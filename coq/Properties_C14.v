From Cocls Require Import Base GenDefs AggrDefs.
