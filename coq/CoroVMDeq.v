(* CoroVMDeq.v — C05 deq_run: a coroutine taken from the front of the ready queue is resumed at once: in the log every EDeq x
   is immediately followed by ERun x (and the log never ends in a dangling EDeq). Same proof skeleton as fifo. *)
From Cocls Require Import Base CoroVMDefs CoroVMProofs.
Local Open Scope nat_scope.

(* newest-first log: the event right above (= after) an EDeq x is ERun x *)
Fixpoint deq_ok (l : list event) : Prop :=
  match l with
  | [] => True
  | e :: t => (match t with EDeq x :: _ => e = ERun x | _ => True end) /\ deq_ok t
  end.
Definition hd_not_deq (l : list event) : Prop := match l with EDeq _ :: _ => False | _ => True end.
Definition dq (s : st) : Prop := hd_not_deq (log s) /\ deq_ok (log s).

Lemma dq_ev : forall s e, dq s -> ~ q_event e -> dq (ev s e).
Proof. intros s e (H&D) N. unfold dq. cbn [log ev]. split; [destruct e; cbn in *; tauto|]. cbn [deq_ok]. split; auto. destruct (log s) as [|e0 t]; auto. destruct e0; auto. cbn in H. tauto. Qed.
Lemma dq_set_cs : forall s x, dq s -> dq (set_cs s x). Proof. auto. Qed.
Lemma dq_set_fs : forall s x, dq s -> dq (set_fs s x). Proof. auto. Qed.
Lemma dq_set_mainp : forall s x, dq s -> dq (set_mainp s x). Proof. auto. Qed.
Lemma dq_set_made : forall s x, dq s -> dq (set_made s x). Proof. auto. Qed.
Lemma dq_set_cur : forall s x, dq s -> dq (set_cur s x). Proof. auto. Qed.
Lemma dq_set_stack : forall s x, dq s -> dq (set_stack s x). Proof. auto. Qed.
Lemma dq_set_active : forall s x, dq s -> dq (set_active s x). Proof. auto. Qed.
Lemma dq_set_coro : forall s c x, dq s -> dq (set_coro s c x). Proof. auto. Qed.
Lemma dq_set_script : forall s c x, dq s -> dq (set_script s c x). Proof. auto. Qed.
Lemma dq_enq : forall s c b w, dq s -> dq (enq s c b w).
Proof. intros s c b w (H&D). unfold dq, enq. cbn [log ev set_queue]. split; [cbn; tauto|]. cbn [deq_ok]. split; auto. destruct (log s) as [|e0 t]; auto. destruct e0; auto. cbn in H. tauto. Qed.
Lemma dq_enq_all : forall l s b w, dq s -> dq (enq_all s l b w).
Proof. induction l; intros; cbn [enq_all]; auto using dq_enq. Qed.
Lemma dq_run_c : forall s x, dq s -> dq (run_c s x).
Proof. intros. unfold run_c. apply dq_set_cur, dq_ev; cbn; auto. Qed.
Lemma dq_deq_run : forall s x q, dq s -> dq (run_c (ev (set_queue s q) (EDeq x)) x).
Proof. intros s x q (H&D). unfold dq, run_c. cbn [log ev set_queue set_cur]. split; [cbn; tauto|]. cbn [deq_ok]. repeat split; auto. destruct (log s) as [|e0 t]; auto. destruct e0; auto. cbn in H. tauto. Qed.
Lemma dq_set_started : forall s c b, dq s -> dq (set_started s c b).
Proof. intros. apply dq_ev; cbn; auto. Qed.
Lemma dq_bad : forall s me, dq s -> dq (bad s me).
Proof. intros. apply dq_ev; cbn; auto. Qed.
Lemma dq_make : forall s c, dq s -> dq (make s c).
Proof. intros. apply dq_ev; cbn; auto. Qed.
Lemma dq_ensure_made : forall s c, dq s -> dq (ensure_made s c).
Proof. intros; unfold ensure_made. repeat break_match; auto using dq_make. Qed.
#[local] Hint Resolve dq_set_cs dq_set_fs dq_set_mainp dq_set_made dq_set_cur dq_set_stack dq_set_active
  dq_set_coro dq_set_script dq_enq dq_enq_all dq_run_c dq_set_started dq_bad dq_make dq_ensure_made : core.

Ltac dq_ev_tac := repeat (apply dq_ev; [|cbn; tauto]); auto.

Lemma dq_sp_dispose : forall s me hs aw, dq s -> dq (sp_dispose s me hs aw).
Proof.
  intros. unfold sp_dispose. destruct hs; auto. destruct aw.
  - apply dq_run_c, dq_enq, dq_enq_all. dq_ev_tac.
  - destruct (active s); auto.
Qed.

Lemma dq_finish : forall s c r, dq s -> dq (finish s c r).
Proof.
  intros. unfold finish. destruct (bound (cs s c)); cbn [fst snd].
  - apply dq_set_cur. dq_ev_tac.
  - destruct (chain_of _).
    + apply dq_set_cur. dq_ev_tac.
    + apply dq_run_c, dq_enq_all. dq_ev_tac.
  - apply dq_run_c, dq_enq_all. dq_ev_tac.
Qed.
#[local] Hint Resolve dq_sp_dispose dq_finish : core.

Lemma dq_exec : forall s me i, dq s -> dq (exec s me i).
Proof.
  intros s me i F. destruct i; cbn [exec].
  - dq_ev_tac.
  - destruct (Nat.eqb me 0); auto.
    assert (F1 : dq (enq (ev s (ESusp me)) me me why_pause)) by (apply dq_enq; dq_ev_tac).
    destruct (queue (enq (ev s (ESusp me)) me me why_pause)) as [|x q] eqn:Q; auto.
    apply dq_deq_run; auto.
  - repeat break_match; auto.
  - break_match; auto; dq_ev_tac.
  - break_match; auto.
  - repeat break_match; auto; dq_ev_tac.
  - repeat break_match; auto; try (apply dq_sp_dispose); dq_ev_tac.
  - repeat break_match; auto. apply dq_run_c. dq_ev_tac.
  - break_match; auto.
  - repeat break_match; auto; try (apply dq_sp_dispose); dq_ev_tac.
  - repeat break_match; auto; try apply dq_set_cur; dq_ev_tac.
  - break_match; auto.
  - break_match; auto.
  - repeat break_match; auto; dq_ev_tac.
  - dq_ev_tac.
  - auto.
Qed.

Lemma dq_step : forall s, dq s -> dq (step s).
Proof.
  intros s F. unfold step. destruct (cur s).
  - destruct (mainp s); [apply dq_set_cur; dq_ev_tac|].
    unfold idle_if_main. break_match; auto using dq_exec. apply dq_ev; [apply dq_exec; auto|cbn; tauto].
  - destruct (script (cs s c)); auto using dq_exec.
  - unfold step_ret. destruct (stack s) as [|[hs|r] rest]; auto.
    + destruct hs as [|h hs]; [|apply dq_run_c; auto]. destruct (queue s) eqn:Q.
      * apply dq_ev; [|cbn; tauto]. apply dq_set_cur, dq_set_stack, dq_set_active. exact F.
      * apply dq_deq_run; auto.
    + apply dq_set_cur. dq_ev_tac.
  - exact F.
Qed.



(* C05 deq_run: in the (newest-first) log of every reachable state, the event logged right after an `EDeq x` is `ERun x`,
   and the log never ends with a dangling `EDeq` *)
Theorem deq_run_reach : forall p m n,
  let s := steps n (init p m) in hd_not_deq (log s) /\ deq_ok (log s).
Proof. intros. apply (inv_steps dq dq_step). split; cbn; auto. Qed.
