(* Properties_C05.v — C05: coroutine-mode scheduling: run-to-suspension, FIFO ready queue, full drain.
   Statements only; every proof is `exact <lemma of CoroVMProofs>` (the refutation is a computation).
   Quantification: any main script and any family of coroutine scripts (p : nat -> list instr, i.e. any number of
   coroutines and steps), any number n of machine steps (every run prefix, no termination assumption). *)
From Cocls Require Import Base CoroVMDefs CoroVMProofs CoroVMNoPreempt CoroVMOnce CoroVMLife CoroVMDeq CoroVMRuns.
Local Open Scope nat_scope.

(* drain: whenever control is back in normal code the ready queue is empty, coroutine mode is off and the C++ stack
   holds no coroutine activation; every (is_active(), queue length) sample taken by normal code reads (false, 0);
   a coroutine only ever runs with the queue installed *)
Theorem c05_drain : forall p m n,
  let s := steps n (init p m) in
  (cur s = CMain \/ cur s = CEnd -> active s = false /\ queue s = [] /\ stack s = []) /\
  (forall a q, In (EIdle a q) (trace s) -> a = false /\ q = 0) /\
  (forall c, cur s = CRun c -> active s = true).
Proof. exact drain. Qed.
Print Assumptions c05_drain.

(* fifo: at every moment, (coroutines ever appended to the ready queue) = (coroutines taken from its front so far) ++ (the
   queue): coroutines leave the queue one at a time, each once, in the order they were queued *)
Theorem c05_fifo : forall p m n,
  let s := steps n (init p m) in enqs (log s) = deqs (log s) ++ queue s.
Proof. exact fifo_reach. Qed.
Print Assumptions c05_fifo.

(* ... and from any reachable moment on: what is queued now, followed by what gets queued later, is dequeued in that order *)
Theorem c05_fifo_future : forall n s, fifo s ->
  exists evs, log (steps n s) = evs ++ log s /\ queue s ++ enqs evs = deqs evs ++ queue (steps n s).
Proof. exact fifo_future. Qed.
Print Assumptions c05_fifo_future.

(* pause: the pausing coroutine goes to the TAIL, the head of the queue runs next (the pausing one itself iff the queue
   was empty); with c05_fifo_future: everybody queued before the pause is dequeued before the pausing coroutine is *)
Theorem c05_pause_round_robin : forall s r rest,
  cur s = CRun r -> r <> 0 -> script (cs s r) = IPause :: rest ->
  let x := hd r (queue s ++ [r]) in
  queue (step s) = tl (queue s ++ [r]) /\ cur (step s) = CRun x /\
  log (step s) = ERun x :: EDeq x :: EEnq r r why_pause :: ESusp r :: log s /\
  script (cs (step s) r) = rest.
Proof. exact pause_step. Qed.
Print Assumptions c05_pause_round_robin.

(* co_await on a suspend point: last handle by symmetric transfer, the others then self appended in order *)
Theorem c05_await_sp_order : forall s me h t,
  let hs := h :: t in
  let s' := sp_dispose s me hs true in
  queue s' = queue s ++ removelast hs ++ [me] /\ cur s' = CRun (last hs 0) /\
  log s' = ERun (last hs 0) :: EEnq me me why_self :: rev (map (fun c => EEnq c me why_spawait) (removelast hs)) ++ ESusp me :: log s.
Proof. exact await_sp_step. Qed.
Print Assumptions c05_await_sp_order.

(* a suspend point discarded by a running coroutine (coroutine mode) only appends: nobody is resumed, the caller continues *)
Theorem c05_discard_only_queues : forall s me hs,
  active s = true ->
  let s' := sp_dispose s me hs false in
  queue s' = queue s ++ hs /\ cur s' = cur s /\ stack s' = stack s /\
  log s' = rev (map (fun c => EEnq c me why_discard) hs) ++ log s.
Proof. exact discard_sp_step. Qed.
Print Assumptions c05_discard_only_queues.

(* the same suspend point discarded by normal code: queue installed, handles resumed in order, flushed (c05_drain) on return *)
Theorem c05_discard_normal_mode : forall s me h t,
  active s = false ->
  let s' := sp_dispose s me (h :: t) false in
  active s' = true /\ stack s' = KInst (h :: t) :: stack s /\ cur s' = CRet /\ log s' = log s /\
  cur (step s') = CRun h /\ stack (step s') = KInst t :: stack s.
Proof. exact discard_sp_normal. Qed.
Print Assumptions c05_discard_normal_mode.

(* ---- no pre-emption ---- *)
(* what the code guarantees, for every reachable moment k at which a coroutine r is in control (in particular right after r
   queued somebody through a discarded suspend point — c05_discard_only_queues leaves r in control) and every continuation n:
   in chronological order, the events that follow contain no `ERun` at all before the first of `ESusp r`, `EFin r`,
   `ENest r _` (r entered async::start()).  `guarded r l`: l = [] or its head is such a marker, or its head is not an ERun
   and the tail is guarded. *)
Theorem c05_no_preempt : forall p m k r n,
  let s := steps k (init p m) in
  cur s = CRun r ->
  exists evs, log (steps n s) = evs ++ log s /\ guarded r (rev evs).
Proof. intros p m k r n s C. apply no_preempt; [apply shape_reach|exact C]. Qed.
Print Assumptions c05_no_preempt.

(* the statement of the property text has no `ENest` escape: *)
(* literal reading: between `EEnq c r discard` (r a coroutine) and the next `ERun c` there is `ESusp r` or `EFin r` *)
Definition no_preempt_literal (t : list event) : Prop :=
  forall i c r, nth_error t i = Some (EEnq c r why_discard) -> r <> 0 ->
  forall j, i < j -> nth_error t j = Some (ERun c) ->
  exists k, i < k < j /\ (nth_error t k = Some (ESusp r) \/ exists x, nth_error t k = Some (EFin r x)).

(* REFUTED on the code as it is (and replayed on the real headers, notes/C05.md): coroutine 1 queues 2 by a discarded
   suspend point, then calls start() on 3; async::start() resumes 3 nested (async.h:55-56); 3 pauses, which hands control
   to the head of the SHARED queue = 2.  2 runs (and finishes) inside 1's call to start(), before 1 suspended. *)
Definition c05_witness : list (list Z) :=
  [[0;9;0]; [0;5;2;0]; [0;5;1;0]; [2;11;0]; [1;10;0;0;1;0]; [1;6;3;1]; [3;2]]%Z.

Theorem c05_no_preempt_literal_refuted :
  exists ops, ~ no_preempt_literal (trace (steps (fuel_of ops) (load ops))).
Proof.
  exists c05_witness. intro H.
  specialize (H 11 2 1). vm_compute in H.
  destruct (H eq_refl ltac:(discriminate) 19 ltac:(lia) eq_refl) as (k & Hk & Hd).
  assert (K : k = 12 \/ k = 13 \/ k = 14 \/ k = 15 \/ k = 16 \/ k = 17 \/ k = 18) by lia.
  destruct K as [K|[K|[K|[K|[K|[K|K]]]]]]; subst k; cbn in Hd; destruct Hd as [Hd|(x&Hd)]; discriminate.
Qed.
Print Assumptions c05_no_preempt_literal_refuted.

(* each_once: in every reachable state the scheduler-side handles (running coroutine, callers blocked inside start(), handles
   waiting inside install_queue_and_call, ready queue) are pairwise distinct and every awaiter chain is duplicate free; a
   coroutine in a chain is in none of the scheduler-side places, in no other chain and is not a co_awaiting parent; a
   co_awaiting parent is in none of those places and waits for one child; exactly the Started coroutines have a handle
   somewhere (nothing is lost, nothing not-yet-started or finished can be resumed) *)
Theorem c05_each_once : forall p m n,
  let s := steps n (init p m) in
  NoDup (held s) /\
  (forall f, NoDup (chain_of (fs s f))) /\
  (forall f c, In c (chain_of (fs s f)) ->
      ~ In c (held s) /\ (forall g, In c (chain_of (fs s g)) -> g = f) /\
      (forall x, stat (cs s x) = Started -> bound (cs s x) <> BParent c)) /\
  (forall x p', stat (cs s x) = Started -> bound (cs s x) = BParent p' ->
      ~ In p' (held s) /\ forall y, stat (cs s y) = Started -> bound (cs s y) = BParent p' -> y = x) /\
  (forall c, In c (held s) \/ (exists f, In c (chain_of (fs s f))) \/ (exists x, stat (cs s x) = Started /\ bound (cs s x) = BParent c) ->
      stat (cs s c) = Started) /\
  (forall c, stat (cs s c) = Started ->
      In c (held s) \/ (exists f, In c (chain_of (fs s f))) \/ (exists x, stat (cs s x) = Started /\ bound (cs s x) = BParent c)).
Proof. exact each_once. Qed.
Print Assumptions c05_each_once.

(* never resumed while already running, never after the body finished: whenever `ERun c` was logged, the earlier events say c
   is not running (never ran, or its last Run was followed by a Susp) and contain no `EFin c` *)
Theorem c05_never_resumed_while_running : forall p m n later c earlier,
  log (steps n (init p m)) = later ++ ERun c :: earlier ->
  rlc c earlier = 0 /\ nev (is_fin c) earlier = 0.
Proof. exact never_resumed_while_running. Qed.
Print Assumptions c05_never_resumed_while_running.

(* ... and a coroutine only suspends / finishes while it is the one running; the log and the control state agree on who runs *)
Theorem c05_log_matches_control : forall p m n,
  let s := steps n (init p m) in wf_runs (log s) /\ forall c, rlc c (log s) = act s c.
Proof. exact runs_reach. Qed.
Print Assumptions c05_log_matches_control.

(* deq_run: in the newest-first log the event right after an `EDeq x` is `ERun x`; the log never ends in a dangling EDeq *)
Theorem c05_deq_run : forall p m n,
  let s := steps n (init p m) in hd_not_deq (log s) /\ deq_ok (log s).
Proof. exact deq_run_reach. Qed.
Print Assumptions c05_deq_run.

(* non-vacuity: a reachable state in which a coroutine pauses with two others queued meets the hypotheses of
   c05_pause_round_robin, and the run it belongs to drains *)
Example c05_nonvacuous :
  let ops := [[0;5;1;0]; [1;5;2;0]; [1;5;3;0]; [1;2]; [1;1;7]; [2;1;8]; [3;1;9]]%Z in
  let s := steps 4 (load ops) in
  cur s = CRun 1 /\ script (cs s 1) = [IPause; IEmit 7%Z] /\ queue s = [2; 3] /\
  cur (step s) = CRun 2 /\ queue (step s) = [3; 1] /\
  c05_ok false (trace (steps (fuel_of ops) (load ops))) = true.
Proof. vm_compute. repeat split; reflexivity. Qed.
