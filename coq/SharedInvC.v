(* SharedInvC.v — the creator's steps preserve the invariant *)
From Cocls Require Import Base BaseProofs SharedDefs SharedInv.
Require Import ZifyBool.
Ltac Zify.zify_post_hook ::= Z.div_mod_to_equations.
Local Open Scope nat_scope.

Lemma inv_cstep s : Inv s -> cpcf s <> CDone -> Inv (fst (cstep s)).
Proof.
  intros I E. destruct (alive_creator s (proj1 I) E) as (A & B). pose proof I as I0. open_inv I.
  specialize (Irc A).
  unfold cstep. destruct (cpcf s) as [| | |r e| | |k| | | |] eqn:C; cbn [fst]; try congruence.
  - (* CClaim *)
    destruct (mode s) eqn:M; pre; mk_inv; go.
  - (* CDtor *)
    destruct (mode s) eqn:M.
    2,6: rewrite touch_alive by exact A; destruct (slot s) as [l|] eqn:SL; pre; mk_inv; go.
    all: pre; mk_inv; go.
  - (* CSet *)
    rewrite add_ref_alive by exact A.
    pre; mk_inv; go.
  - (* CSub *)
    rewrite touch_alive by exact A. destruct (slot s) as [l|] eqn:SL.
    + destruct (onode_eqb (head l) e).
      * pre; mk_inv; go.
      * pre; mk_inv; go.
    + pre; mk_inv; go.
  - (* CClr *)
    destruct Itr as (SR & T & RD).
    rewrite touch_alive by exact A. rewrite drop_ref_alive by (simp_st; assumption).
    use_dropped (set_selfref s false) B; pre; mk_inv; go.
  - (* CGive *)
    destruct (give (users s)) as [us|] eqn:G.
    + destruct (give_spec _ _ G) as (j & u & Hj & Hu & ->).
      rewrite add_ref_alive by exact A.
      pose proof (sumu_set_nth (users s) j u (set_upc u UWait1) Hj) as SU. rewrite Hu in SU. cbn [upcf set_upc upc_handles] in SU.
      pre; mk_inv; go.
    + destruct (mode s) eqn:M; pre; mk_inv; go.
  - (* CDrop *)
    rewrite drop_ref_alive by assumption.
    destruct k as [|[|k]]; use_dropped s B; pre; mk_inv; go.
  - (* CGate1 *)
    pre; mk_inv; go.
  - (* CGate2 *)
    pre; mk_inv; go.
  - (* CGiveE *)
    destruct (give_early (users s)) as [us|] eqn:G.
    + destruct (give_early_spec _ _ G) as (j & u & Hj & Hu & ->).
      rewrite add_ref_alive by exact A.
      pose proof (sumu_set_nth (users s) j u (set_upc u UWait1) Hj) as SU. rewrite Hu in SU. cbn [upcf set_upc upc_handles] in SU.
      pre; mk_inv; go.
    + pre; mk_inv; go.
Qed.

