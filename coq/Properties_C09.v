(* Properties_C09.v — C09: awaitable queue, each item delivered exactly once, in order.
   Statements only; proofs are `exact <lemma of QueueProofs / QueueConcProofs>`.
   Sequential part: histories are lists of qop of ANY length (push / pop / unblock_pop / size / destroy), the state is the
   transcription of queue<T> (QueueDefs.q_step) resp. queue<void> (vq_step).  `q_final ops` is the state after the history,
   `q_good pv q done` is the invariant every destruction-free history establishes (q_good_run); histories containing a
   destroy are covered by c09_destroy_cancels + c09_dead_rejects (after destruction every op is rejected). *)
From Cocls Require Import Base BaseProofs QueueDefs QueueProofs QueueConcProofs QueueOrderProofs QueueOracleProofs.
Local Open Scope Z_scope.

(* sequential refinement: every observation of the code-shaped model is the observation of the FIFO specification
   ("unbounded FIFO of items, or FIFO of pending pops") — for every history, including malformed ops and destruction *)
Theorem c09_refines_fifo : forall ops, q_run ops = qs_run ops.
Proof. exact q_refines_fifo. Qed.
Print Assumptions c09_refines_fifo.

(* the item queue and the waiting-consumer queue are never both non-empty *)
Theorem c09_not_both_nonempty : forall ops, items (q_final ops) = [] \/ waiters (q_final ops) = [].
Proof. exact q_not_both_nonempty. Qed.
Print Assumptions c09_not_both_nonempty.

(* conservation and single-consumer order in one list equality: pushed values in push order = values held by the pop
   futures read in pop-arrival order ++ items still queued.  Nothing lost, duplicated or reordered; waiting pops are
   served in arrival order. *)
Theorem c09_conservation_order : forall ops, no_destroy ops ->
  pushed_vals ops = delivered (futs (q_final ops)) ++ items (q_final ops).
Proof. exact q_conservation_order. Qed.
Print Assumptions c09_conservation_order.

(* the pending pop futures are exactly the parked promises *)
Theorem c09_pending_are_waiters : forall ops, no_destroy ops ->
  forall i, fget (futs (q_final ops)) i = FPending <-> In i (waiters (q_final ops)).
Proof. exact q_pending_are_waiters. Qed.
Print Assumptions c09_pending_are_waiters.

(* every destruction-free history reaches a state satisfying the invariant the next theorems assume *)
Theorem c09_invariant_reachable : forall ops, no_destroy ops -> exists done, q_good (pushed_vals ops) (q_final ops) done.
Proof. exact q_good_run. Qed.
Print Assumptions c09_invariant_reachable.

(* a pending pop completes only by a push (it is then the OLDEST pending pop and gets the pushed value), by unblock_pop
   (the OLDEST pending pop, with the given exception) or by destruction (canceled) *)
Theorem c09_pop_completes_only_by : forall pv q done x i,
  q_good pv q done -> fget (futs q) i = FPending -> fget (futs (fst (q_step q x))) i <> FPending ->
  (exists v, x = QPush v /\ oldest_pending (futs q) i /\ fget (futs (fst (q_step q x))) i = FValue v) \/
  (exists e, x = QUnblockPop e /\ oldest_pending (futs q) i /\ fget (futs (fst (q_step q x))) i = FExc e) \/
  (x = QDestroy /\ fget (futs (fst (q_step q x))) i = FCanceled).
Proof. exact q_pop_completes_only_by. Qed.
Print Assumptions c09_pop_completes_only_by.

(* push with somebody waiting: exactly the oldest pending pop is served, with the pushed value; nothing is queued *)
Theorem c09_push_serves_oldest : forall pv q done v i,
  q_good pv q done -> oldest_pending (futs q) i ->
  futs (fst (q_step q (QPush v))) = set_nth (futs q) i (FValue v) /\
  waiters q = i :: waiters (fst (q_step q (QPush v))) /\ items (fst (q_step q (QPush v))) = [].
Proof. exact q_push_serves_oldest. Qed.
Print Assumptions c09_push_serves_oldest.

(* unblock_pop fails exactly the oldest pending pop with the given exception and leaves items and other pops alone *)
Theorem c09_unblock_pop_hits_oldest : forall pv q done e i,
  q_good pv q done -> oldest_pending (futs q) i ->
  futs (fst (q_step q (QUnblockPop e))) = set_nth (futs q) i (FExc e) /\
  waiters q = i :: waiters (fst (q_step q (QUnblockPop e))) /\ items (fst (q_step q (QUnblockPop e))) = items q.
Proof. exact q_unblock_pop_hits_oldest. Qed.
Print Assumptions c09_unblock_pop_hits_oldest.

(* destruction: every pending pop is canceled, every completed pop keeps its result *)
Theorem c09_destroy_cancels : forall pv q done i, q_good pv q done ->
  fget (futs (q_destroy q)) i = (if fstate_eqb (fget (futs q) i) FPending then FCanceled else fget (futs q) i).
Proof. exact q_destroy_cancels. Qed.
Print Assumptions c09_destroy_cancels.

Theorem c09_dead_rejects : forall q x, alive q = false -> q_step q x = (q, rejected).
Proof. exact q_dead_rejects. Qed.
Print Assumptions c09_dead_rejects.

(* queue<void>: the counter model refines the same FIFO specification carrying unit items ... *)
Theorem c09_void_refines_fifo : forall ops, vq_run ops = fst (qs_run_from qs0 (map vq_decode ops)).
Proof. exact vq_refines_fifo. Qed.
Print Assumptions c09_void_refines_fifo.

(* ... and is a counting semaphore: counter = pushes - pops completed with a value, never negative, pops wait only at 0
   (this is where std_queue<void>::pop's max(1,n)-1 must coincide with n-1) *)
Theorem c09_void_semaphore : forall ops, no_destroy ops -> Forall voidop ops ->
  vcnt (vq_final ops) = pushes ops - completed (vfuts (vq_final ops)) /\ 0 <= vcnt (vq_final ops) /\
  (vwaiters (vq_final ops) <> [] -> vcnt (vq_final ops) = 0).
Proof. exact vq_semaphore. Qed.
Print Assumptions c09_void_semaphore.

(* the trace oracles accept the model's own traces *)
Theorem c09_oracle_accepts_model : forall ops, q_oracle ops (q_run ops) = true.
Proof. exact q_oracle_accepts_model. Qed.
Print Assumptions c09_oracle_accepts_model.

Theorem c09_void_oracle_accepts_model : forall ops, vq_oracle ops (vq_run ops) = true.
Proof. exact vq_oracle_accepts_model. Qed.
Print Assumptions c09_void_oracle_accepts_model.

(* callback consumers (call_fn_future_awaiter whose completion callback asks for the next item from inside the callback):
   because the promise is resolved after the critical section, the nested pop() is an ordinary pop; every such history
   reaches a state that a plain history with the same pushes reaches, so conservation and order carry over *)
Theorem c09_callback_reaches_plain_state : forall l, c_no_destroy l ->
  exists ops, cbase (cq_final l) = q_final ops /\ no_destroy ops /\ pushed_vals ops = c_pushed_vals l.
Proof. exact cq_reaches_plain_state. Qed.
Print Assumptions c09_callback_reaches_plain_state.

Theorem c09_callback_conservation_order : forall l, c_no_destroy l ->
  c_pushed_vals l = delivered (futs (cbase (cq_final l))) ++ items (cbase (cq_final l)) /\
  (items (cbase (cq_final l)) = [] \/ waiters (cbase (cq_final l)) = []).
Proof. exact cq_conservation_order. Qed.
Print Assumptions c09_callback_conservation_order.

Example c09_callback_nonvacuous :
  let l := [COp (QPush 11); CPopCb 3; COp (QPush 12); COp (QPush 13); COp (QUnblockPop 7); COp (QPush 14)] in
  futs (cbase (cq_final l)) = [FValue 11; FValue 12; FValue 13; FExc 7] /\ items (cbase (cq_final l)) = [14].
Proof. vm_compute. split; reflexivity. Qed.

(* ---- interleaving model (queue<T>): ANY number of producer / consumer / unblock_pop / unblock_push / size threads and a destroyer thread, ANY schedule of ANY length.
   A push or pop is a critical section followed, after the unlock, by a separate step that resolves the promise taken
   inside (QueueDefs.tstep).  In every reachable state the items pushed so far (every producer's first k values, tagged
   with producer and index, hence pairwise distinct: NoDup) are exactly, as a multiset, the items received by pops + the
   items in flight between a critical section and its resolution + the queued items + the items held by blocked pushes +
   the items withdrawn by unblock_push + the items destroyed with the queue;
   and items / waiting consumers are never both non-empty. ---- *)
Theorem c09_conc_conservation : forall thrs s, Forall t_fresh thrs -> t_reachable None thrs s ->
  NoDup (t_plog s) /\
  Permutation (t_plog s)
    (map snd (ritems (t_rlog s)) ++ map snd (iitems (t_infl s)) ++ t_items s ++ map fst (t_blocked s) ++ t_wlog s ++ t_dlog s) /\
  (forall p, filter (of_p p) (t_plog s) = expected_plog p (nth_error (t_thr s) p)) /\
  (t_items s = [] \/ t_waiters s = []).
Proof. intros thrs s. exact (tq_conservation None thrs s I). Qed.
Print Assumptions c09_conc_conservation.

(* per-producer order at every consumer, for every schedule: among the items consumer c has received (got c s, in the
   order it received them), those pushed by producer p carry strictly increasing push indices *)
Theorem c09_conc_per_producer_order : forall thrs s c p, Forall t_fresh thrs -> t_reachable None thrs s ->
  Sorted.StronglySorted lt (map it_k (filter (of_p p) (got c s))).
Proof. intros thrs s c p. exact (tq_per_producer_order None thrs s c p I). Qed.
Print Assumptions c09_conc_per_producer_order.

(* items are matched to pops in critical-section order; matched ++ queued ++ held-by-blocked is, producer by producer, in
   push order (nothing overtakes, also not while producers are blocked); what a consumer has received plus what is in
   flight for it is exactly its share of the matching, in order (single consumer: FIFO) *)
Theorem c09_conc_assignment_in_push_order : forall thrs s, Forall t_fresh thrs -> t_reachable None thrs s ->
  (forall p, Sorted.StronglySorted lt (map it_k (filter (of_p p) (map snd (t_alog s) ++ t_items s ++ map fst (t_blocked s))))) /\
  forall c, map snd (filter (is_c c) (t_alog s)) = got c s ++ map snd (filter (is_c c) (iitems (t_infl s))).
Proof. intros thrs s. exact (tq_assignment_in_push_order None thrs s I). Qed.
Print Assumptions c09_conc_assignment_in_push_order.

(* the oracle that is run on the implementation's controlled-thread traces (replay of the critical sections on the atomic
   thread-level FIFO, QueueDefs.tq_oracle) accepts every trace the model itself produces: every case file, any threads
   (fewer than 777, the marker of the deadlock line), any schedule *)
Theorem c09_thread_oracle_accepts_model : forall ops,
  (length (flat_map (t_decode_thr false) ops) < 777)%nat -> tq_oracle false ops (tq_run false ops) = true.
Proof. exact (tq_oracle_accepts_model false). Qed.
Print Assumptions c09_thread_oracle_accepts_model.

Example c09_conc_nonvacuous :
  let thrs := flat_map (t_decode_thr false) [[1; 101; 102]; [1; 201]; [2; 2]; [2; 1]]%Z in
  let s := fst (t_run_sched 60 (t_init None thrs) [2; 2; 0; 1; 0; 0; 1; 1; 0; 0]%Z []) in
  Forall t_fresh thrs /\ t_reachable None thrs s /\
  map it_v (got 2 s) = [101; 201]%Z /\ map it_v (got 3 s) = [102]%Z /\ t_infl s = [] /\ t_items s = [].
Proof. split; [apply t_decode_fresh|]. split; [eexists; eexists; eexists; reflexivity|]. vm_compute. repeat split. Qed.

(* non-vacuity: three pops wait, unblock_pop fails the oldest, two pushes serve the next two in order, a third is queued *)
Example c09_nonvacuous :
  let ops := [QPop; QPop; QPop; QUnblockPop 7; QPush 11; QPush 12; QPush 13] in
  no_destroy ops /\ futs (q_final ops) = [FExc 7; FValue 11; FValue 12] /\ items (q_final ops) = [13] /\
  oldest_pending (futs (q_final [QPop; QPop])) 0.
Proof. split; [repeat constructor|]. vm_compute. repeat split; try discriminate. intros j H. inversion H. Qed.
