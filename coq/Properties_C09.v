(* Properties_C09.v — placeholder, extended below *)
From Cocls Require Import Base BaseProofs QueueDefs QueueProofs.
Local Open Scope Z_scope.
Theorem c09_refines_fifo : forall ops, q_run ops = qs_run ops.
Proof. exact q_refines_fifo. Qed.
Print Assumptions c09_refines_fifo.
