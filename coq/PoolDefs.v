(* PoolDefs.v — interleaving model of cocls::thread_pool (thread_pool.h, function.h) for C11.
   Threads = clients (tid 0..m-1; client 0 also runs the destructor) followed by the pool's own workers.
   One model step = one critical section of the pool mutex (the code from one lock acquisition up to the
   thread's next lock acquisition / blocking wait), exactly the granularity of the ctl_pool harness:
     point 60  p_lock : a thread is about to lock _mx (enqueue, worker loop, stop (twice), is_stopped, any_enqueued)
     point 61  p_wait : a thread sleeping in _cond.wait consumes a notification (worker loop; stop() waiting for
                        a concurrent stop())
     point 62  p_join : stop() joins one swapped-out worker; enabled when that worker has left worker()
     point 63  p_peek : thread_pool::current's await_ready reads _current->_exit (without the lock)
     point 64  jwait  : a job that waits for another submission's outcome continues
     point  9  xwait  : client 0 waits until every other client thread has returned, then runs ~thread_pool
   The condition variable: notify_all flags every thread that is sleeping at that moment (`woken`); notify_one
   adds an anonymous token while fewer tokens than unflagged sleepers exist (a notify_all subsumes pending tokens).  A sleeper wakes by clearing its flag
   or else by taking a token, re-tests its wait predicate and goes back to sleep when it is false.  Which sleeper
   takes a token is left to the schedule, so every choice the OS could make for notify_one (and spurious wake-ups
   that find the predicate false) is covered; a thread that starts to sleep after a notify_all is not woken by it.
   Line numbers refer to thread_pool.h with hooks and the C11 fixes applied.  Model only, no proofs. *)
From Cocls Require Import Base.
Local Open Scope Z_scope.

(* What a queued closure is, i.e. what running it / destroying it un-run does:
   KHop      co_await pool (and co_await thread_pool::current())   unique_ptr deleter resumes the coroutine with 'cancelled'
   KAwt      co_await pool(awaitable)     perform_resume -> resume(suspend_point)
   KRunFn    run(fn)                      closure owns the promise: destroyed => broken promise
   KDet      run_detached(fn)             closure owns the function object
   KResume   resume(suspend_point)        closure owns the handle: destroyed => coroutine resumed by the destroying thread (fix C11-resume)
   KRunAsync run(async)                   closure owns coroutine + promise (fix C11-run-async)
   After the two fixes destruction of an un-run closure reaches the waiter for every kind. *)
Inductive ckind := KHop | KAwt | KRunFn | KDet | KResume | KRunAsync
  | KDetThrow.   (* run_detached(fn) where moving fn into the queue throws: the push fails, fn dies in the caller *)
(* does the move of the closure into _queue (inside enqueue, under the lock) throw? *)
Definition throws (k : ckind) : bool := match k with KDetThrow => true | _ => false end.

(* what a job does when it runs: a list of pool operations *)
Inductive act :=
| ASub (k : ckind) (lbl : nat)   (* submit one more closure (its own body is empty); run_detached from a worker is ASub KDet *)
| AStop                          (* stop() on its own pool *)
| AQry (q : nat)                 (* 0: current::is_stopped()   1: current::any_enqueued() *)
| ACurHop (lbl : nat)            (* co_await thread_pool::current(): the rest of the body continues as the hop's body *)
| AWait (lbl : nat).             (* the job blocks until the submission with this label has run or was cancelled (e.g. waits on its future) *)
Definition body := list act.

Record clo := mkClo {
  clbl : nat;      (* label of the submission in the case file (observation only) *)
  ck : ckind;
  cb : body;
  cran : nat;      (* times the closure was invoked *)
  cran_on : nat;   (* tid that invoked it *)
  cdrop : nat;     (* times the closure object was destroyed without having been invoked *)
  ccanc : nat      (* times a cancellation reached the waiter *)
}.

Inductive cop := OSub (lbl : nat) (k : ckind) (b : body) | OStop | OWorker
  | OWait (lbl : nat).     (* the client blocks until the submission has run or was cancelled (waits on its result) *)
(* what the thread does when its stop() returns *)
Inductive after := AClient (prog : list cop) | ADtor | AWorker (det : bool) (r : body).

Inductive pc :=
| CAt (prog : list cop)        (* client at the first lock acquisition of the head operation *)
| CXWait                       (* client 0: all operations issued; waits until the pool may be destroyed *)
| CDtor                        (* client 0 at the p_lock point of ~thread_pool -> stop() *)
| CDone
| WIdle                        (* in worker() at p_lock: first lock or re-lock after a job *)
| WSleep                       (* in worker() inside _cond.wait *)
| WSub (lbl : nat) (k : ckind) (r : body)   (* inside a job, at the p_lock point of enqueue; r = rest of the body *)
| WHop (lbl : nat) (r : body)  (* inside a job, at the p_lock point of the current-pool hop's enqueue; r becomes the hop's body *)
| WPeek (lbl : nat) (r : body) (* inside a job, at p_peek of current::await_ready *)
| WStop (r : body)             (* inside a job, at the p_lock point of stop() *)
| WQry (q : nat) (r : body)    (* inside a job, at the p_lock point of is_stopped / any_enqueued *)
| WWait (lbl : nat) (r : body) (* inside a job, blocked until submission lbl has an outcome *)
| WExit                        (* pool thread left worker() (also: detached itself and returned) *)
| Join (l q : list nat) (first : bool) (a : after)   (* inside stop(): joining head of l; q = swapped-out queue *)
| SWait (l q : list nat) (a : after)   (* inside stop(): somebody else is stopping the pool; sleeping in _cond.wait until _stopped *)
| SFin (a : after).            (* inside the first stop(): joins done, tasks cancelled; at the p_lock point before _stopped = true *)

Record st := mkSt {
  queue : list nat;        (* _queue: closure ids *)
  exit_ : bool;            (* _exit *)
  stopped : bool;          (* _stopped: the first stop() has joined every worker *)
  threads : list nat;      (* _threads: tids of joinable workers *)
  tokens : nat;            (* pending notify_one wake-ups *)
  woken : list nat;        (* sleepers flagged by a notify_all *)
  destroyed : bool;        (* ~thread_pool has returned *)
  nclients : nat;
  clos : list clo;         (* every closure ever handed to enqueue, in that order *)
  thrs : list pc;
  cont : list (list cop);  (* per client: the operations that follow its worker() call *)
  extw : list nat;         (* ghost: client tids that have called worker() (their _current is the pool from then on) *)
  uad : bool               (* ghost: a thread started a pool operation after ~thread_pool had returned *)
}.

Definition ev := (nat * Z * nat)%type.   (* label (or query result), 1 = invoked / 2 = cancelled / 10+q = query, tid *)

Definition with_thr (s : st) (i : nat) (p : pc) : st :=
  mkSt (queue s) (exit_ s) (stopped s) (threads s) (tokens s) (woken s) (destroyed s) (nclients s) (clos s) (set_nth (thrs s) i p)
       (cont s) (extw s) (uad s).
Definition with_clos (s : st) (c : list clo) : st :=
  mkSt (queue s) (exit_ s) (stopped s) (threads s) (tokens s) (woken s) (destroyed s) (nclients s) c (thrs s) (cont s) (extw s) (uad s).
Definition with_queue (s : st) (q : list nat) : st :=
  mkSt q (exit_ s) (stopped s) (threads s) (tokens s) (woken s) (destroyed s) (nclients s) (clos s) (thrs s) (cont s) (extw s) (uad s).
Definition with_tokens (s : st) (n : nat) : st :=
  mkSt (queue s) (exit_ s) (stopped s) (threads s) n (woken s) (destroyed s) (nclients s) (clos s) (thrs s) (cont s) (extw s) (uad s).
Definition with_woken (s : st) (w : list nat) : st :=
  mkSt (queue s) (exit_ s) (stopped s) (threads s) (tokens s) w (destroyed s) (nclients s) (clos s) (thrs s) (cont s) (extw s) (uad s).
Definition with_uad (s : st) (b : bool) : st :=
  mkSt (queue s) (exit_ s) (stopped s) (threads s) (tokens s) (woken s) (destroyed s) (nclients s) (clos s) (thrs s) (cont s) (extw s) b.
(* a client thread enters worker(): remember what it does afterwards *)
Definition with_ext (s : st) (i : nat) (r : list cop) : st :=
  mkSt (queue s) (exit_ s) (stopped s) (threads s) (tokens s) (woken s) (destroyed s) (nclients s) (clos s) (thrs s)
       (set_nth (cont s) i r) (i :: extw s) (uad s).
(* stop(): the first critical section *)
Definition marked (s : st) (wk : list nat) : st :=
  mkSt [] true (stopped s) [] 0 wk (destroyed s) (nclients s) (clos s) (thrs s) (cont s) (extw s) (uad s).
(* stop(): the last critical section of the first stop *)
Definition finished (s : st) (wk : list nat) : st :=
  mkSt (queue s) (exit_ s) true (threads s) 0 wk (destroyed s) (nclients s) (clos s) (thrs s) (cont s) (extw s) (uad s).
Definition dead (s : st) : st :=
  mkSt [] (exit_ s) (stopped s) (threads s) (tokens s) (woken s) true (nclients s) (clos s) (thrs s) (cont s) (extw s) (uad s).

Definition is_sleep (p : pc) : bool := match p with WSleep | SWait _ _ _ => true | _ => false end.
Definition sleepers (s : st) : nat := length (filter is_sleep (thrs s)).
Definition sleeps (s : st) (i : nat) : bool := match nth_error (thrs s) i with Some p => is_sleep p | None => false end.
(* the threads a notify_all wakes *)
Definition sleeper_ids (s : st) : list nat := filter (sleeps s) (seq 0 (length (thrs s))).
Definition is_woken (s : st) (i : nat) : bool := existsb (Nat.eqb i) (woken s).
(* thread i leaves _cond.wait: by its notify_all flag, else by a notify_one token *)
Definition wake (s : st) (i : nat) : st :=
  if is_woken s i then with_woken s (filter (fun j => negb (Nat.eqb j i)) (woken s))
  else with_tokens s (pred (tokens s)).

(* destruction of closure object c, which was never invoked, on thread t: the waiter is cancelled *)
Definition drop_clo (x : clo) : clo :=
  mkClo (clbl x) (ck x) (cb x) (cran x) (cran_on x) (S (cdrop x)) (S (ccanc x)).
Definition drop1 (t : nat) (se : st * list ev) (c : nat) : st * list ev :=
  match nth_error (clos (fst se)) c with
  | Some x => (with_clos (fst se) (set_nth (clos (fst se)) c (drop_clo x)), snd se ++ [(clbl x, 2, t)])
  | None => se
  end.
Definition drop_all (t : nat) (s : st) (l : list nat) : st * list ev := fold_left (drop1 t) l (s, []).

(* enqueue(), called by thread t *)
Definition enqueue (s : st) (t : nat) (lbl : nat) (k : ckind) (b : body) : st * list ev :=
  let c := length (clos s) in
  let s1 := with_clos s (clos s ++ [mkClo lbl k b 0 0 0 0]) in
  if exit_ s || throws k then
    (* not moved from (or the move threw, std::queue::push has no effect): the temporary q_item dies in the caller,
       after the lock was released *)
    drop1 t (s1, []) c
  else
    (* push + notify_one *)
    (with_tokens (with_queue s1 (queue s ++ [c]))
                 (if Nat.ltb (tokens s + length (woken s)) (sleepers s) then S (tokens s) else tokens s), []).

Definition next_client (i : nat) (prog : list cop) : pc :=
  match prog with [] => if Nat.eqb i 0 then CXWait else CDone | _ => CAt prog end.

(* a job continues with the rest of its body: the next pool operation, or the re-lock of the worker loop *)
Definition job_next (r : body) : pc :=
  match r with
  | [] => WIdle
  | ASub k l :: r' => WSub l k r'
  | AStop :: r' => WStop r'
  | AQry q :: r' => WQry q r'
  | ACurHop l :: r' => WPeek l r'
  | AWait l :: r' => WWait l r'
  end.

(* stop() returns *)
Definition pc_after (t : nat) (a : after) : pc :=
  match a with
  | AClient prog => next_client t prog
  | ADtor => CDone
  | AWorker true _ => WExit          (* _current = nullptr: the job must not touch the pool any more, worker() returns *)
  | AWorker false r => job_next r
  end.
Definition returned (s : st) (t : nat) (a : after) : st * list ev :=
  match a with
  | ADtor =>
      (* members die: anything left in _queue is destroyed with it *)
      let '(s1, e) := drop_all t s (queue s) in (with_thr (dead s1) t CDone, e)
  | _ => (with_thr s t (pc_after t a), [])
  end.

(* end of the join loop: the first stop cancels the swapped-out tasks and goes for _stopped = true *)
Definition stop_end (s : st) (t : nat) (q : list nat) (first : bool) (a : after) : st * list ev :=
  let '(s1, e) := drop_all t s q in
  if first then (with_thr s1 t (SFin a), e)
  else let '(s2, e2) := returned s1 t a in (s2, e ++ e2).

(* is the calling thread one of the pool's threads (thread_local _current == this)?  Exactly the threads that are
   inside worker(): _current is set on entry and reset on exit (and by a self-detaching stop), so a stop() issued by
   a job is called with _current == this and a stop() issued by a client program (or the destructor) is not. *)
Definition is_cur (a : after) : bool := match a with AWorker _ _ => true | _ => false end.

(* the join loop of stop() *)
Definition after_wait (s : st) (t : nat) (l q : list nat) (first : bool) (a : after) : st * list ev :=
  match l with
  | [] => stop_end s t q first a
  | _ => (with_thr s t (Join l q first a), [])
  end.

(* stop(): the first critical section *)
Definition stop_mark (s : st) (t : nat) (a : after) : st * list ev :=
  let tmp := threads s in
  let q := queue s in
  let first := negb (exit_ s) in
  let l := filter (fun w => negb (Nat.eqb w t)) tmp in       (* own entry: detach, not join *)
  let a' := match a with AWorker _ r => AWorker (existsb (Nat.eqb t) tmp) r | _ => a end in
  let s1 := marked s (sleeper_ids s) in                          (* _exit = true; notify_all; swap; swap *)
  if negb first && negb (is_cur a) && negb (stopped s) then
    (with_thr s1 t (SWait l q a'), [])                        (* somebody else is stopping: _cond.wait until _stopped *)
  else after_wait s1 t l q first a'.

(* the job c starts on thread w and runs up to its first pool operation *)
Definition run_job (s : st) (w : nat) (c : nat) : st * list ev :=
  match nth_error (clos s) c with
  | Some x =>
      let x' := mkClo (clbl x) (ck x) (cb x) (S (cran x)) w (cdrop x) (ccanc x) in
      (with_thr (with_clos s (set_nth (clos s) c x')) w (job_next (cb x)), [(clbl x, 1, w)])
  | None => (with_thr s w WIdle, [])
  end.

(* worker() returns: a pool thread ends, a client thread continues its program *)
Definition exit_pc (s : st) (w : nat) : pc :=
  if Nat.ltb w (nclients s) then next_client w (nth w (cont s) []) else WExit.

(* worker(), with the lock held and the wait predicate just evaluated *)
Definition worker_cs (s : st) (w : nat) : st * list ev :=
  if exit_ s then (with_thr s w (exit_pc s w), [])
  else match queue s with
       | [] => (with_thr s w WSleep, [])
       | c :: r => run_job (with_queue s r) w c
       end.

Definition is_wexit (s : st) (w : nat) : bool :=
  match nth_error (thrs s) w with Some WExit => true | _ => false end.

(* object-lifetime rule for ~thread_pool: every other client thread has returned from its calls *)
Definition client_idle (p : pc) : bool := match p with CDone | CXWait => true | _ => false end.
Definition xwait_ok (s : st) : bool := forallb client_idle (firstn (nclients s) (thrs s)).

(* has the submission with this label been run or cancelled? *)
Definition resolved (s : st) (lbl : nat) : bool :=
  existsb (fun x => Nat.eqb (clbl x) lbl && Nat.ltb 0 (cran x + ccanc x)) (clos s).

Definition enabled (s : st) (i : nat) : bool :=
  match nth_error (thrs s) i with
  | Some (CAt (OWait l :: _)) => resolved s l
  | Some (CAt _) | Some CDtor | Some WIdle | Some (WSub _ _ _) | Some (WHop _ _) | Some (WPeek _ _)
  | Some (WStop _) | Some (WQry _ _) | Some (SFin _) => true
  | Some CXWait => xwait_ok s
  | Some (WWait l _) => resolved s l
  | Some WSleep | Some (SWait _ _ _) => Nat.ltb 0 (tokens s) || is_woken s i
  | Some (Join (w :: _) _ _ _) => is_wexit s w
  | Some (Join [] _ _ _) => true
  | Some CDone | Some WExit | None => false
  end.

(* does the step of a thread at this pc use the pool object? (join and the lifetime wait do not) *)
Definition touches (p : pc) : bool :=
  match p with
  | CAt (OWait _ :: _) => false
  | CAt (_ :: _) | CDtor | WIdle | WSleep | WSub _ _ _ | WHop _ _ | WPeek _ _ | WStop _ | WQry _ _ | SWait _ _ _ | SFin _ => true
  | _ => false
  end.

Definition qry_result (s : st) (q : nat) : bool :=
  match q with O => exit_ s | _ => exit_ s || negb (match queue s with [] => true | _ => false end) end.

(* one step of thread i: new state, point code, events *)
Definition core (s : st) (i : nat) : st * Z * list ev :=
  match nth_error (thrs s) i with
  | Some (CAt (OSub l k b :: r)) =>
      let '(s1, e) := enqueue s i l k b in (with_thr s1 i (next_client i r), 60, e)
  | Some (CAt (OStop :: r)) => let '(s1, e) := stop_mark s i (AClient r) in (s1, 60, e)
  | Some (CAt (OWorker :: r)) => let '(s1, e) := worker_cs (with_ext s i r) i in (s1, 60, e)
  | Some (CAt (OWait l :: r)) => (with_thr s i (next_client i r), 64, [])
  | Some (CAt []) => (with_thr s i (next_client i []), 60, [])
  | Some CXWait => (with_thr s i CDtor, 9, [])
  | Some CDtor => let '(s1, e) := stop_mark s i ADtor in (s1, 60, e)
  | Some WIdle => let '(s1, e) := worker_cs s i in (s1, 60, e)
  | Some WSleep => let '(s1, e) := worker_cs (wake s i) i in (s1, 61, e)
  | Some (WSub l k r) => let '(s1, e) := enqueue s i l k [] in (with_thr s1 i (job_next r), 60, e)
  | Some (WHop l r) => let '(s1, e) := enqueue s i l KHop r in (with_thr s1 i WIdle, 60, e)
  | Some (WPeek l r) => (with_thr s i (if exit_ s then job_next r else WHop l r), 63, [])
  | Some (WStop r) => let '(s1, e) := stop_mark s i (AWorker false r) in (s1, 60, e)
  | Some (WQry q r) => (with_thr s i (job_next r), 60, [(Nat.b2n (qry_result s q), 10 + Z.of_nat q, i)])
  | Some (WWait l r) => (with_thr s i (job_next r), 64, [])
  | Some (Join (_ :: (w :: l) as l') q f a) => (with_thr s i (Join l' q f a), 62, [])
  | Some (Join _ q f a) => let '(s1, e) := stop_end s i q f a in (s1, 62, e)
  | Some (SWait l q a) =>
      let s1 := wake s i in
      if stopped s then let '(s2, e) := after_wait s1 i l q false a in (s2, 61, e) else (s1, 61, [])
  | Some (SFin a) => let '(s1, e) := returned (finished s (sleeper_ids s)) i a in (s1, 60, e)
  | Some CDone | Some WExit | None => (s, 0, [])
  end.

Definition tstep (s : st) (i : nat) : st * Z * list ev :=
  let bad := match nth_error (thrs s) i with Some p => destroyed s && touches p | None => false end in
  let '(s1, p, e) := core s i in
  (if bad then with_uad s1 true else s1, p, e).

Fixpoint enabled_list (s : st) (n : nat) (from : nat) : list nat :=
  match n with
  | O => []
  | S m => (if enabled s from then [from] else []) ++ enabled_list s m (S from)
  end.
Definition all_enabled (s : st) : list nat := enabled_list s (length (thrs s)) 0.

Definition ev_line (e : ev) : list Z :=
  let '(l, w, t) := e in [100; Z.of_nat l; w; Z.of_nat t; 0].

(* run a schedule: choice k picks the (k mod |enabled|)-th enabled thread; an exhausted schedule continues with 0;
   the run ends when nothing is enabled or a use of the destroyed pool was seen *)
Fixpoint run_sched (fuel : nat) (s : st) (sched : list Z) (tr : list (list Z)) : st * list (list Z) :=
  match fuel with
  | O => (s, tr)
  | S f =>
      match all_enabled s with
      | [] => (s, tr)
      | en =>
          let k := match sched with [] => 0 | x :: _ => Z.abs x end in
          let i := nth (Z.to_nat (k mod zlen en)) en 0%nat in
          let '(s1, p, e) := tstep s i in
          if uad s1 then (s1, tr ++ [[Z.of_nat i; p]; [888; Z.of_nat i]])
          else run_sched f s1 (tl sched) (tr ++ [Z.of_nat i; p] :: map ev_line e)
      end
  end.

(* ---------- wire ---------- *)
Definition kind_of (z : Z) : option ckind :=
  match z with
  | 0 => Some KHop | 1 => Some KAwt | 2 => Some KRunFn | 3 => Some KDet | 4 => Some KResume | 5 => Some KRunAsync
  | 6 => Some KDetThrow
  | _ => None
  end.
Definition kind_code (k : ckind) : Z :=
  match k with KHop => 0 | KAwt => 1 | KRunFn => 2 | KDet => 3 | KResume => 4 | KRunAsync => 5 | KDetThrow => 6 end.

(* body actions: 0..5 submit a closure of that kind, 6 stop(), 7 is_stopped(), 8 any_enqueued(), 9 co_await current(),
   10+j wait (blocking) for the outcome of submission j; 50+j (last action, run(async) jobs): the coroutine suspends on
   a future that submission j resolves - for the pool the job simply ends there, the worker is free again.
   The action at position idx of submission j creates label 100 + 10 j + idx.  Nothing follows a stop() (a job must
   not touch the pool after it stopped it); at most 6 actions. *)
Fixpoint dec_body (base : nat) (idx : nat) (l : list Z) : option body :=
  match l with
  | [] => Some []
  | z :: r =>
      if Nat.leb 6 idx then None else
      match z with
      | 6 => match r with [] => Some [AStop] | _ => None end
      | 7 => option_map (cons (AQry 0)) (dec_body base (S idx) r)
      | 8 => option_map (cons (AQry 1)) (dec_body base (S idx) r)
      | 9 => option_map (cons (ACurHop (base + idx))) (dec_body base (S idx) r)
      | _ => match kind_of z with
             | Some k => option_map (cons (ASub k (base + idx))) (dec_body base (S idx) r)
             | None => if (10 <=? z) && (z <? 50)
                       then option_map (cons (AWait (Z.to_nat (z - 10)))) (dec_body base (S idx) r)
                       else if (50 <=? z) && (z <? 90) then match r with [] => Some [] | _ => None end
                       else None
             end
      end
  end.

Record dec := mkDec { dn : nat; dj : nat; dk : nat; dmax : nat; dp0 : list cop; dp1 : list cop; dp2 : list cop; dext : list nat }.

Definition add_op (d : dec) (cl : Z) (o : cop) (j k : nat) (x : list nat) : dec :=
  match cl with
  | 0 => mkDec (dn d) j k (dmax d) (dp0 d ++ [o]) (dp1 d) (dp2 d) x
  | 1 => mkDec (dn d) j k (Nat.max (dmax d) 1) (dp0 d) (dp1 d ++ [o]) (dp2 d) x
  | _ => mkDec (dn d) j k (Nat.max (dmax d) 2) (dp0 d) (dp1 d) (dp2 d ++ [o]) x
  end.

(* ops:  [1; n]                       pool of n workers (1..4)
         [2; client; kind; a1; ...]   submission by client 0..2 with a body of at most 6 actions (< 40 submissions)
         [3; client]                  stop()            [4; client]   the client thread calls worker()
         [5; client; j]               the client waits for the outcome of submission j      (< 30 of these three)
         [6; client; k]               resume(suspend_point) with k = 1..9 prepared coroutines: k submissions of kind 4
         [9; k1; k2; ...]             schedule
   the j-th accepted submission has label j *)
(* resume(suspend_point) with k prepared coroutines: one enqueue() per coroutine *)
Fixpoint add_resumes (d : dec) (cl : Z) (k : nat) : dec :=
  match k with
  | O => d
  | S k' => if Nat.ltb (dj d) 40 then add_resumes (add_op d cl (OSub (dj d) KResume []) (S (dj d)) (dk d) (dext d)) cl k' else d
  end.

Definition dec_op (d : dec) (op : list Z) : dec :=
  match op with
  | [1; n] => if (1 <=? n) && (n <=? 4) then mkDec (Z.to_nat n) (dj d) (dk d) (dmax d) (dp0 d) (dp1 d) (dp2 d) (dext d) else d
  | 2 :: cl :: k :: acts =>
      match kind_of k, dec_body (100 + 10 * dj d) 0 acts with
      | Some kk, Some bd =>
          if (0 <=? cl) && (cl <=? 2) && Nat.ltb (dj d) 40 then add_op d cl (OSub (dj d) kk bd) (S (dj d)) (dk d) (dext d) else d
      | _, _ => d
      end
  | [6; cl; k] => if (0 <=? cl) && (cl <=? 2) && (1 <=? k) && (k <=? 9) then add_resumes d cl (Z.to_nat k) else d
  | [3; cl] => if (0 <=? cl) && (cl <=? 2) && Nat.ltb (dk d) 30 then add_op d cl OStop (dj d) (S (dk d)) (dext d) else d
  | [4; cl] => if (0 <=? cl) && (cl <=? 2) && Nat.ltb (dk d) 30 then add_op d cl OWorker (dj d) (S (dk d)) (Z.to_nat cl :: dext d) else d
  | [5; cl; l] => if (0 <=? cl) && (cl <=? 2) && (0 <=? l) && (l <? 40) && Nat.ltb (dk d) 30
                  then add_op d cl (OWait (Z.to_nat l)) (dj d) (S (dk d)) (dext d) else d
  | _ => d
  end.
Definition decode (ops : list (list Z)) : dec := fold_left dec_op ops (mkDec 1 0 0 0 [] [] [] []).
Definition decode_sched (l : list Z) : list Z := match l with 9 :: r => r | _ => [] end.

Definition init (ops : list (list Z)) : st :=
  let d := decode ops in
  let m := Nat.min (S (dmax d)) 3 in       (* dmax <= 2 always *)
  let n := Nat.max 1 (dn d) in             (* dn >= 1 always *)
  let progs := firstn m [dp0 d; dp1 d; dp2 d] in
  let cl := map (fun ip => next_client (fst ip) (snd ip)) (combine (seq 0 m) progs) in
  mkSt [] false false (seq m n) 0 [] false m [] (cl ++ repeat WIdle n) (repeat [] m) [] false.

Definition unfinished (p : pc) : bool := match p with CDone | WExit => false | _ => true end.
Fixpoint stuck_list (l : list pc) (i : nat) : list Z :=
  match l with
  | [] => []
  | t :: r => (if unfinished t then [Z.of_nat i] else []) ++ stuck_list r (S i)
  end.

(* what the waiter of the submission saw: 1 = completed by a run, 2 = cancelled, 0 = nothing (still hanging) *)
Definition wstate (x : clo) : Z := if Nat.ltb 0 (cran x) then 1 else if Nat.ltb 0 (ccanc x) then 2 else 0.
Definition clo_line (x : clo) : list Z :=
  [200; Z.of_nat (clbl x); kind_code (ck x); Z.of_nat (cran x); Z.of_nat (ccanc x); wstate x;
   if Nat.ltb 0 (cran x) then Z.of_nat (cran_on x) else -1].
Definition find_lbl (l : nat) (cs : list clo) : option clo := find (fun x => Nat.eqb (clbl x) l) cs.
Definition clo_lines (s : st) (j : nat) : list (list Z) :=
  flat_map (fun l => match find_lbl l (clos s) with Some x => [clo_line x] | None => [] end)
           (seq 0 j ++ seq 100 (10 * j)).

(* field f of closure c, d when c does not exist *)
Definition G {A} (f : clo -> A) (d : A) (s : st) (c : nat) : A :=
  match nth_error (clos s) c with Some x => f x | None => d end.
(* is the thread executing a client program (as opposed to: inside worker()) *)
Definition is_client_after (a : after) : bool := match a with AWorker _ _ => false | _ => true end.
Definition is_client (p : pc) : bool :=
  match p with
  | CAt _ | CXWait | CDtor | CDone => true
  | Join _ _ _ a | SWait _ _ a | SFin a => is_client_after a
  | _ => false
  end.

(* ---------- a bound on the length of every run (proved in PoolTerm.v: every step decreases mu) ---------- *)
Local Open Scope nat_scope.
Section Weights.
Context (K : nat).   (* number of threads *)

Definition actw (a : act) : nat :=
  match a with ASub _ _ => 8 | AStop => 4 * K + 20 | AQry _ => 2 | ACurHop _ => 12 | AWait _ => 2 end.
Fixpoint bw (r : body) : nat := match r with [] => 0 | a :: r' => actw a + bw r' end.
Definition opw (o : cop) : nat := match o with OSub _ _ b => 8 + bw b | OStop => 4 * K + 20 | OWorker => 4 | OWait _ => 2 end.
Fixpoint progw (p : list cop) : nat := match p with [] => 0 | o :: r => opw o + progw r end.
Definition endw (i : nat) : nat := if Nat.eqb i 0 then 4 * K + 22 else 0.
(* weight of next_client i prog *)
Definition ncw (i : nat) (prog : list cop) : nat :=
  match prog with [] => if Nat.eqb i 0 then 4 * K + 21 else 0 | _ => 1 + progw prog + endw i end.
(* weight of pc_after i a *)
Definition aw (i : nat) (a : after) : nat :=
  match a with AClient prog => ncw i prog | ADtor => 0 | AWorker true _ => 0 | AWorker false r => 2 + bw r end.

Definition pcw (i : nat) (p : pc) : nat :=
  match p with
  | CAt prog => 1 + progw prog + endw i
  | CXWait => 4 * K + 21
  | CDtor => 4 * K + 20
  | CDone => 0
  | WIdle => 2
  | WSleep => 1
  | WSub _ _ r => 10 + bw r
  | WHop _ r => 13 + bw r
  | WPeek _ r => 14 + bw r
  | WStop r => 4 * K + 22 + bw r
  | WQry _ r => 4 + bw r
  | WWait _ r => 4 + bw r
  | WExit => 0
  | Join l _ f a => 2 * length l + 3 + (if f then K + 3 else 0) + aw i a
  | SWait l _ a => 2 * length l + 4 + aw i a
  | SFin a => K + 3 + aw i a
  end.
End Weights.

(* weight of thread i: its pc, plus (inside worker()) the client program it returns to *)
Definition tw (s : st) (i : nat) (p : pc) : nat :=
  let K := length (thrs s) in
  pcw K i p + (if is_client p then 0 else ncw K i (nth i (cont s) [])).

Fixpoint sumw (f : nat -> pc -> nat) (l : list pc) (from : nat) : nat :=
  match l with [] => 0 | p :: r => f from p + sumw f r (S from) end.
Definition clw (s : st) (c : nat) : nat := 3 + bw (length (thrs s)) (G cb [] s c).
Fixpoint qw (s : st) (l : list nat) : nat := match l with [] => 0 | c :: r => clw s c + qw s r end.

Definition mu (s : st) : nat := sumw (tw s) (thrs s) 0 + qw s (queue s) + tokens s + length (woken s).

Local Open Scope Z_scope.

(* no schedule can make more than mu (init ops) steps, so this fuel never runs out *)
Definition run_fuel (ops : list (list Z)) : nat := mu (init ops).


Definition pool_run (ops : list (list Z)) : list (list Z) :=
  let s0 := init ops in
  let sched := flat_map decode_sched ops in
  let '(s, tr) := run_sched (run_fuel ops) s0 sched [] in
  if uad s then tr else
  tr ++ (match stuck_list (thrs s) 0 with [] => [] | l => [777 :: l] end)
     ++ clo_lines s (dj (decode ops))
     ++ [[300; b2z (destroyed s); Z.of_nat (nclients s); zlen (thrs s)]].

(* ---------- decidable form of C11 on an observed trace ---------- *)
Definition count_ev (lbl w : Z) (obs : list (list Z)) : nat :=
  length (filter (fun l => match l with [100; a; b; _; _] => Z.eqb a lbl && Z.eqb b w | _ => false end) obs).

(* thread t may invoke closures: a pool thread, or a client thread that calls worker() *)
Definition worker_tid (d : dec) (t : Z) : bool :=
  let m := Z.of_nat (Nat.min (S (dmax d)) 3) in
  let n := Z.of_nat (Nat.max 1 (dn d)) in
  ((m <=? t) && (t <? m + n)) || ((0 <=? t) && (t <? m) && existsb (Nat.eqb (Z.to_nat t)) (dext d)).

(* one closure line: exactly one outcome, the waiter saw exactly that outcome, it ran on a worker, and the
   event stream agrees with the counters *)
Definition clo_ok (d : dec) (obs : list (list Z)) (l : list Z) : bool :=
  match l with
  | [200; lbl; k; ran; canc; ws; on] =>
      Z.eqb (ran + canc) 1
      && Z.eqb ws (if Z.eqb ran 1 then 1 else 2)
      && (if Z.eqb ran 1 then worker_tid d on else Z.eqb on (-1))
      && Nat.eqb (count_ev lbl 1 obs) (Z.to_nat ran)
      && Nat.eqb (count_ev lbl 2 obs) (Z.to_nat canc)
      && (match kind_of k with Some _ => true | None => false end)
  | 200 :: _ => false
  | _ => true
  end.
Definition ev_ok (d : dec) (l : list Z) : bool :=
  match l with
  | [100; _; 1; t; locked] => worker_tid d t && Z.eqb locked 0   (* invoked on a worker, outside the lock *)
  | [100; _; _; t; locked] => Z.eqb locked 0
  | 100 :: _ => false
  | 666 :: _ => false          (* a thread reached a scheduling point while holding the pool mutex *)
  | 777 :: _ => false          (* deadlock *)
  | 888 :: _ => false          (* a thread used the pool after ~thread_pool returned *)
  | [400; n] => Z.eqb n 0      (* submissions neither run nor cancelled when ~thread_pool returned (engine poolf) *)
  | _ => true
  end.
(* every submission that the case declares at top level was made (labels 0..j-1 all present) *)
Definition has_lbl (obs : list (list Z)) (l : nat) : bool :=
  existsb (fun x => match x with 200 :: a :: _ => Z.eqb a (Z.of_nat l) | _ => false end) obs.

Definition pool_oracle (ops obs : list (list Z)) : bool :=
  let d := decode ops in
  forallb (ev_ok d) obs
  && forallb (clo_ok d obs) obs
  && forallb (has_lbl obs) (seq 0 (dj d))
  && existsb (fun l => match l with [300; 1; _; _] => true | _ => false end) obs.
