(* PoolDefs.v — interleaving model of cocls::thread_pool (thread_pool.h, function.h) for C11.
   Threads = clients (tid 0..m-1; client 0 also runs the destructor) followed by the pool's workers.
   One model step = one critical section of the pool mutex (the code from one lock acquisition up to the
   thread's next lock acquisition / blocking wait), exactly the granularity of the ctl_pool harness:
     point 60  p_lock : a thread is about to lock _mx (enqueue :354, worker :54/:64, stop :76)
     point 61  p_wait : a worker sleeping in _cond.wait (:56) consumes a notification
     point 62  p_join : stop() joins one swapped-out worker (:90); enabled when that worker has exited
     point  9  xwait  : client 0 waits for the object-lifetime rule before running ~thread_pool
   The condition variable is modelled by a token counter: notify_one adds a token while fewer tokens than
   sleepers exist, notify_all sets tokens := sleepers; a sleeper needs a token to wake (and re-tests the wait
   predicate, going back to sleep when it is false).  Which sleeper takes a token is left to the schedule, so
   every choice the OS could make is covered.
   Model only, no proofs. *)
From Cocls Require Import Base.
Local Open Scope Z_scope.

(* What a queued closure is, i.e. what running it / destroying it un-run does (thread_pool.h):
   KHop      co_await pool            :113-137  unique_ptr deleter resumes the coroutine with 'cancelled'
   KAwt      co_await pool(awaitable) :163-167  perform_resume -> resume(suspend_point): bare [h] lambda :208
   KRunFn    run(fn)                  :262-278  closure owns the promise: destroyed => broken promise
   KDet      run_detached(fn)         :250-252  closure owns the function object
   KResume   resume(suspend_point)    :205-213  bare [h] lambda: destroyed => the handle is forgotten
   KRunAsync run(async)               :289-293  (after fix C11-run-async) closure owns coroutine + promise *)
Inductive ckind := KHop | KAwt | KRunFn | KDet | KResume | KRunAsync.
(* does destruction of the un-run closure reach the waiter? *)
Definition owned (k : ckind) : bool := match k with KAwt | KResume => false | _ => true end.

(* what the job does when it runs: nothing / submit one more closure / call stop() on its own pool *)
Inductive body := BNone | BSub (k : ckind) (lbl : nat) | BStop.

Record clo := mkClo {
  clbl : nat;      (* label of the submission in the case file (observation only) *)
  ck : ckind;
  cb : body;
  cran : nat;      (* times the closure was invoked *)
  cran_on : nat;   (* tid that invoked it *)
  cdrop : nat;     (* times the closure object was destroyed without having been invoked *)
  ccanc : nat      (* times a cancellation reached the waiter *)
}.

Inductive cop := OSub (lbl : nat) (k : ckind) (b : body) | OStop.
(* what the thread does when its stop() returns *)
Inductive after := AClient (prog : list cop) | ADtor | AWorker (det : bool).

Inductive pc :=
| CAt (prog : list cop)       (* client at the p_lock point of the head operation *)
| CXWait                      (* client 0: all operations issued; waits until the pool may be destroyed *)
| CDtor                       (* client 0 at the p_lock point of ~thread_pool -> stop() *)
| CDone
| WIdle                       (* worker at p_lock: first lock :54 or re-lock after a job :64 *)
| WSleep                      (* worker inside _cond.wait :56 *)
| WSub (lbl : nat) (k : ckind) (* worker inside a job, at the p_lock point of enqueue *)
| WStop                       (* worker inside a job, at the p_lock point of stop() *)
| WExit                       (* worker left worker() (also: detached itself and returned) *)
| Join (l q : list nat) (a : after).  (* inside stop(): joining head of l; q = swapped-out queue *)

Record st := mkSt {
  queue : list nat;        (* _queue: closure ids *)
  exit_ : bool;            (* _exit *)
  threads : list nat;      (* _threads: tids of joinable workers *)
  tokens : nat;            (* pending condition-variable wake-ups *)
  destroyed : bool;        (* ~thread_pool has returned *)
  nclients : nat;
  clos : list clo;         (* every closure ever handed to enqueue, in that order *)
  thrs : list pc
}.

Definition ev := (nat * Z * nat)%type.   (* label, 1 = invoked / 2 = cancelled, tid *)

Definition with_thr (s : st) (i : nat) (p : pc) : st :=
  mkSt (queue s) (exit_ s) (threads s) (tokens s) (destroyed s) (nclients s) (clos s) (set_nth (thrs s) i p).
Definition with_clos (s : st) (c : list clo) : st :=
  mkSt (queue s) (exit_ s) (threads s) (tokens s) (destroyed s) (nclients s) c (thrs s).
Definition with_queue (s : st) (q : list nat) : st :=
  mkSt q (exit_ s) (threads s) (tokens s) (destroyed s) (nclients s) (clos s) (thrs s).
Definition with_tokens (s : st) (n : nat) : st :=
  mkSt (queue s) (exit_ s) (threads s) n (destroyed s) (nclients s) (clos s) (thrs s).

Definition is_sleep (p : pc) : bool := match p with WSleep => true | _ => false end.
Definition sleepers (s : st) : nat := length (filter is_sleep (thrs s)).

(* destruction of closure object c, which was never invoked, on thread t *)
Definition drop_clo (x : clo) : clo :=
  mkClo (clbl x) (ck x) (cb x) (cran x) (cran_on x) (S (cdrop x)) (if owned (ck x) then S (ccanc x) else ccanc x).
Definition drop1 (t : nat) (se : st * list ev) (c : nat) : st * list ev :=
  match nth_error (clos (fst se)) c with
  | Some x => (with_clos (fst se) (set_nth (clos (fst se)) c (drop_clo x)),
               snd se ++ (if owned (ck x) then [(clbl x, 2, t)] else []))
  | None => se
  end.
Definition drop_all (t : nat) (s : st) (l : list nat) : st * list ev := fold_left (drop1 t) l (s, []).

(* enqueue(), thread_pool.h:353-359, called by thread t *)
Definition enqueue (s : st) (t : nat) (lbl : nat) (k : ckind) (b : body) : st * list ev :=
  let c := length (clos s) in
  let s1 := with_clos s (clos s ++ [mkClo lbl k b 0 0 0 0]) in
  if exit_ s then
    (* :355 not moved from: the temporary q_item dies in the caller, after the lock was released *)
    drop1 t (s1, []) c
  else
    (* :356-357 push + notify_one *)
    (with_tokens (with_queue s1 (queue s ++ [c]))
                 (if Nat.ltb (tokens s) (sleepers s) then S (tokens s) else tokens s), []).

Definition next_client (i : nat) (prog : list cop) : pc :=
  match prog with [] => if Nat.eqb i 0 then CXWait else CDone | _ => CAt prog end.

(* end of stop(): the local queue q dies (:93, after all joins), then the caller continues *)
Definition stop_end (s : st) (t : nat) (q : list nat) (a : after) : st * list ev :=
  let '(s1, e) := drop_all t s q in
  match a with
  | AClient prog => (with_thr s1 t (next_client t prog), e)
  | ADtor =>
      (* members die: anything left in _queue is destroyed with it *)
      let '(s2, e2) := drop_all t s1 (queue s1) in
      (with_thr (mkSt [] (exit_ s2) (threads s2) (tokens s2) true (nclients s2) (clos s2) (thrs s2)) t CDone, e ++ e2)
  | AWorker true => (with_thr s1 t WExit, e)     (* :87 _current = nullptr, :63 return *)
  | AWorker false => (with_thr s1 t WIdle, e)    (* job returns, :64 re-lock *)
  end.

(* stop() :72-81: the critical section; the join loop :83-92 follows *)
Definition stop_mark (s : st) (t : nat) (a : after) : st * list ev :=
  let tmp := threads s in
  let q := queue s in
  let l := filter (fun w => negb (Nat.eqb w t)) tmp in       (* :84-88 own entry: detach, not join *)
  let a' := match a with AWorker _ => AWorker (existsb (Nat.eqb t) tmp) | _ => a end in
  let s1 := mkSt [] true [] (sleepers s) (destroyed s) (nclients s) (clos s) (thrs s) in   (* :77-80 *)
  match l with
  | [] => stop_end s1 t q a'
  | _ => (with_thr s1 t (Join l q a'), [])
  end.

(* the job c starts on worker w (:61) and runs up to its first lock acquisition *)
Definition run_job (s : st) (w : nat) (c : nat) : st * list ev :=
  match nth_error (clos s) c with
  | Some x =>
      let x' := mkClo (clbl x) (ck x) (cb x) (S (cran x)) w (cdrop x) (ccanc x) in
      (with_thr (with_clos s (set_nth (clos s) c x')) w
                (match cb x with BNone => WIdle | BSub k l => WSub l k | BStop => WStop end),
       [(clbl x, 1, w)])
  | None => (with_thr s w WIdle, [])
  end.

(* worker(), :56-60 with the lock held and the wait predicate just evaluated *)
Definition worker_cs (s : st) (w : nat) : st * list ev :=
  if exit_ s then (with_thr s w WExit, [])          (* :57 *)
  else match queue s with
       | [] => (with_thr s w WSleep, [])            (* :56 predicate false *)
       | c :: r => run_job (with_queue s r) w c     (* :58-61 *)
       end.

Definition is_wexit (s : st) (w : nat) : bool :=
  match nth_error (thrs s) w with Some WExit => true | _ => false end.

(* object-lifetime rule for ~thread_pool: every other client has returned and no stop() issued by a job is
   pending, in progress or still to come (a queued job whose body is stop()) *)
Definition stopping (p : pc) : bool :=
  match p with WStop => true | Join _ _ (AWorker _) => true | _ => false end.
Definition client_busy (p : pc) : bool :=
  match p with CAt _ | Join _ _ (AClient _) | CDtor | Join _ _ ADtor => true | _ => false end.
Definition is_bstop (s : st) (c : nat) : bool :=
  match nth_error (clos s) c with Some x => match cb x with BStop => true | _ => false end | None => false end.
Definition xwait_ok (s : st) : bool :=
  negb (existsb client_busy (thrs s)) && negb (existsb stopping (thrs s)) && negb (existsb (is_bstop s) (queue s)).

Definition enabled (s : st) (i : nat) : bool :=
  match nth_error (thrs s) i with
  | Some (CAt _) | Some CDtor | Some WIdle | Some (WSub _ _) | Some WStop => true
  | Some CXWait => xwait_ok s
  | Some WSleep => Nat.ltb 0 (tokens s)
  | Some (Join (w :: _) _ _) => is_wexit s w
  | Some (Join [] _ _) => true
  | Some CDone | Some WExit | None => false
  end.

(* one step of thread i: new state, point code, events *)
Definition tstep (s : st) (i : nat) : st * Z * list ev :=
  match nth_error (thrs s) i with
  | Some (CAt (OSub l k b :: r)) =>
      let '(s1, e) := enqueue s i l k b in (with_thr s1 i (next_client i r), 60, e)
  | Some (CAt (OStop :: r)) => let '(s1, e) := stop_mark s i (AClient r) in (s1, 60, e)
  | Some (CAt []) => (with_thr s i (next_client i []), 60, [])
  | Some CXWait => (with_thr s i CDtor, 9, [])
  | Some CDtor => let '(s1, e) := stop_mark s i ADtor in (s1, 60, e)
  | Some WIdle => let '(s1, e) := worker_cs s i in (s1, 60, e)
  | Some WSleep => let '(s1, e) := worker_cs (with_tokens s (pred (tokens s))) i in (s1, 61, e)
  | Some (WSub l k) => let '(s1, e) := enqueue s i l k BNone in (with_thr s1 i WIdle, 60, e)
  | Some WStop => let '(s1, e) := stop_mark s i (AWorker false) in (s1, 60, e)
  | Some (Join (_ :: (w :: l) as l') q a) => (with_thr s i (Join l' q a), 62, [])
  | Some (Join _ q a) => let '(s1, e) := stop_end s i q a in (s1, 62, e)
  | Some CDone | Some WExit | None => (s, 0, [])
  end.

Fixpoint enabled_list (s : st) (n : nat) (from : nat) : list nat :=
  match n with
  | O => []
  | S m => (if enabled s from then [from] else []) ++ enabled_list s m (S from)
  end.
Definition all_enabled (s : st) : list nat := enabled_list s (length (thrs s)) 0.

Definition ev_line (e : ev) : list Z :=
  let '(l, w, t) := e in [100; Z.of_nat l; w; Z.of_nat t; 0].

(* run a schedule: choice k picks the (k mod |enabled|)-th enabled thread; an exhausted schedule continues with 0 *)
Fixpoint run_sched (fuel : nat) (s : st) (sched : list Z) (tr : list (list Z)) : st * list (list Z) :=
  match fuel with
  | O => (s, tr)
  | S f =>
      match all_enabled s with
      | [] => (s, tr)
      | en =>
          let k := match sched with [] => 0 | x :: _ => Z.abs x end in
          let i := nth (Z.to_nat (k mod zlen en)) en 0%nat in
          let '(s1, p, e) := tstep s i in
          run_sched f s1 (tl sched) (tr ++ [Z.of_nat i; p] :: map ev_line e)
      end
  end.

(* ---------- wire ---------- *)
Definition kind_of (z : Z) : option ckind :=
  match z with
  | 0 => Some KHop | 1 => Some KAwt | 2 => Some KRunFn | 3 => Some KDet | 4 => Some KResume | 5 => Some KRunAsync
  | _ => None
  end.
Definition kind_code (k : ckind) : Z :=
  match k with KHop => 0 | KAwt => 1 | KRunFn => 2 | KDet => 3 | KResume => 4 | KRunAsync => 5 end.

Record dec := mkDec { dn : nat; dj : nat; dmax : nat; dp0 : list cop; dp1 : list cop; dp2 : list cop }.

Definition add_op (d : dec) (cl : Z) (o : cop) (j : nat) : dec :=
  match cl with
  | 0 => mkDec (dn d) j (dmax d) (dp0 d ++ [o]) (dp1 d) (dp2 d)
  | 1 => mkDec (dn d) j (Nat.max (dmax d) 1) (dp0 d) (dp1 d ++ [o]) (dp2 d)
  | _ => mkDec (dn d) j (Nat.max (dmax d) 2) (dp0 d) (dp1 d) (dp2 d ++ [o])
  end.

(* ops:  [1; n] pool of n workers (1..4)      [2; client; kind; body; bkind] submission (body 0 none, 1 submit bkind, 2 stop)
         [3; client] stop()                   [9; k1; k2; ...] schedule
   the j-th accepted submission has label j, the closure its body submits has label 100+j *)
Definition dec_op (d : dec) (op : list Z) : dec :=
  match op with
  | [1; n] => if (1 <=? n) && (n <=? 4) then mkDec (Z.to_nat n) (dj d) (dmax d) (dp0 d) (dp1 d) (dp2 d) else d
  | [2; cl; k; b; bk] =>
      match kind_of k, kind_of bk with
      | Some kk, Some kb =>
          if (0 <=? cl) && (cl <=? 2) && (0 <=? b) && (b <=? 2) && Nat.ltb (dj d) 40 then
            let bd := match b with
                      | 0 => BNone
                      | 1 => BSub kb (100 + dj d)
                      | _ => if owned kk then BStop else BNone
                      end in
            add_op d cl (OSub (dj d) kk bd) (S (dj d))
          else d
      | _, _ => d
      end
  | [3; cl] => if (0 <=? cl) && (cl <=? 2) then add_op d cl OStop (dj d) else d
  | _ => d
  end.
Definition decode (ops : list (list Z)) : dec := fold_left dec_op ops (mkDec 1 0 0 [] [] []).
Definition decode_sched (l : list Z) : list Z := match l with 9 :: r => r | _ => [] end.

Definition init (ops : list (list Z)) : st :=
  let d := decode ops in
  let m := Nat.min (S (dmax d)) 3 in       (* dmax <= 2 always *)
  let progs := firstn m [dp0 d; dp1 d; dp2 d] in
  let cl := map (fun ip => next_client (fst ip) (snd ip)) (combine (seq 0 m) progs) in
  let n := Nat.max 1 (dn d) in             (* dn >= 1 always *)
  mkSt [] false (seq m n) 0 false m [] (cl ++ repeat WIdle n).

Definition unfinished (p : pc) : bool := match p with CDone | WExit => false | _ => true end.
Fixpoint stuck_list (l : list pc) (i : nat) : list Z :=
  match l with
  | [] => []
  | t :: r => (if unfinished t then [Z.of_nat i] else []) ++ stuck_list r (S i)
  end.

(* what the waiter of the submission saw: 1 = completed by a run, 2 = cancelled, 0 = nothing (still hanging) *)
Definition wstate (x : clo) : Z := if Nat.ltb 0 (cran x) then 1 else if Nat.ltb 0 (ccanc x) then 2 else 0.
Definition clo_line (x : clo) : list Z :=
  [200; Z.of_nat (clbl x); kind_code (ck x); Z.of_nat (cran x); Z.of_nat (ccanc x); wstate x;
   if Nat.ltb 0 (cran x) then Z.of_nat (cran_on x) else -1].
Definition find_lbl (l : nat) (cs : list clo) : option clo := find (fun x => Nat.eqb (clbl x) l) cs.
Definition clo_lines (s : st) (j : nat) : list (list Z) :=
  flat_map (fun l => match find_lbl l (clos s) with Some x => [clo_line x] | None => [] end)
           (seq 0 j ++ seq 100 j).

Definition pool_run (ops : list (list Z)) : list (list Z) :=
  let s0 := init ops in
  let sched := flat_map decode_sched ops in
  let '(s, tr) := run_sched (length sched + 600) s0 sched [] in
  tr ++ (match stuck_list (thrs s) 0 with [] => [] | l => [777 :: l] end)
     ++ clo_lines s (dj (decode ops))
     ++ [[300; b2z (destroyed s); Z.of_nat (nclients s); zlen (thrs s)]].

(* ---------- decidable form of C11 on an observed trace ---------- *)
Definition is_clo_line (l : list Z) : bool := match l with 200 :: _ => true | _ => false end.
Definition count_ev (lbl w : Z) (obs : list (list Z)) : nat :=
  length (filter (fun l => match l with [100; a; b; _; _] => Z.eqb a lbl && Z.eqb b w | _ => false end) obs).

(* one closure line: exactly one outcome, the waiter saw exactly that outcome, it ran on a worker, and the
   event stream agrees with the counters *)
Definition clo_ok (m : Z) (n : Z) (obs : list (list Z)) (l : list Z) : bool :=
  match l with
  | [200; lbl; k; ran; canc; ws; on] =>
      Z.eqb (ran + canc) 1
      && Z.eqb ws (if Z.eqb ran 1 then 1 else 2)
      && (if Z.eqb ran 1 then (m <=? on) && (on <? m + n) else Z.eqb on (-1))
      && Nat.eqb (count_ev lbl 1 obs) (Z.to_nat ran)
      && (match kind_of k with Some kk => if owned kk then Nat.eqb (count_ev lbl 2 obs) (Z.to_nat canc) else true | None => false end)
  | _ => true
  end.
Definition ev_ok (m n : Z) (l : list Z) : bool :=
  match l with
  | [100; _; 1; t; locked] => (m <=? t) && (t <? m + n) && Z.eqb locked 0   (* invoked on a worker, outside the lock *)
  | [100; _; 2; t; locked] => Z.eqb locked 0
  | 100 :: _ => false
  | 666 :: _ => false          (* a thread reached a scheduling point while holding the pool mutex *)
  | 777 :: _ => false          (* deadlock *)
  | 888 :: _ => false          (* a thread touched the pool after ~thread_pool returned *)
  | _ => true
  end.
(* every submission that the case declares at top level was made (labels 0..j-1 all present) *)
Definition has_lbl (obs : list (list Z)) (l : nat) : bool :=
  existsb (fun x => match x with 200 :: a :: _ => Z.eqb a (Z.of_nat l) | _ => false end) obs.

Definition pool_oracle (ops obs : list (list Z)) : bool :=
  let d := decode ops in
  let m := Z.of_nat (S (dmax d)) in
  let n := Z.of_nat (dn d) in
  forallb (ev_ok m n) obs
  && forallb (clo_ok m n obs) obs
  && forallb (has_lbl obs) (seq 0 (dj d))
  && existsb (fun l => match l with [300; 1; _; _] => true | _ => false end) obs.
