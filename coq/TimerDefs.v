(* TimerDefs.v — executable model of cocls::scheduler (src/cocls/scheduler.h), property C12.
   Model only; proofs are in TimerProofs.v.

   The heap is modelled AS THE ARRAY THE CODE MANIPULATES: `_scheduled` is a list of entries and
   std::push_heap / std::pop_heap are transcribed from libstdc++ 12 <bits/stl_heap.h>
   (__push_heap l.133-148, __adjust_heap l.219-246, __pop_heap l.248-266), because remove() looks at
   _scheduled[0] and then runs a LINEAR find_if in array order: which of two entries with the same
   ident it meets depends on the layout.

   One deliberate simplification, invisible in every state between two calls: the C++ code MOVES items
   (the source slot is left with an empty promise until it is overwritten); the model COPIES them (the
   source slot keeps a stale copy until it is overwritten).  Every moved-from slot is overwritten before
   the heap function returns (the hole is always filled last), and no destination slot ever holds a live
   promise (promise::operator= would drop it), so the arrays agree whenever they can be observed. *)
From Cocls Require Import Base.
Local Open Scope Z_scope.

(* SchItem, scheduler.h:340-345: time point, promise (None = emptied / moved-from), ident *)
Record entry := mkE { e_tp : Z; e_p : option nat; e_id : Z }.
Definition dflt : entry := mkE 0 None 0.

(* compare_item(a,b) = a._tp > b._tp   scheduler.h:362-364 *)
Definition cmp (a b : entry) : bool := e_tp b <? e_tp a.

Definition parent (i : nat) : nat := ((i - 1) / 2)%nat.

(* ---------- libstdc++ heap primitives over the array ---------- *)

(* __push_heap(first, holeIndex, topIndex, value, comp), stl_heap.h:133-148
     parent = (hole-1)/2;
     while (hole > top && comp(first[parent], value)) { first[hole] = move(first[parent]); hole = parent; parent = (hole-1)/2; }
     first[hole] = move(value);
   fuel: hole strictly decreases, S hole is enough *)
Fixpoint push_heap_aux (fuel : nat) (l : list entry) (hole top : nat) (v : entry) : list entry :=
  match fuel with
  | O => set_nth l hole v
  | S f =>
      let p := parent hole in
      if (top <? hole)%nat && cmp (nth p l dflt) v
      then push_heap_aux f (set_nth l hole (nth p l dflt)) p top v
      else set_nth l hole v
  end.

(* _scheduled.push_back(e); std::push_heap(begin, end, compare_item)  (scheduler.h:92-93; stl_heap.h:198-217:
   value = move(last[-1]); __push_heap(first, (last-first)-1, 0, value)) *)
Definition heap_push (l : list entry) (e : entry) : list entry :=
  push_heap_aux (S (length l)) (l ++ [e]) (length l) 0 e.

(* the while loop of __adjust_heap, stl_heap.h:226-234
     while (secondChild < (len-1)/2) {
        secondChild = 2*(secondChild+1);
        if (comp(first[secondChild], first[secondChild-1])) secondChild--;
        first[hole] = move(first[secondChild]); hole = secondChild; }
   returns the array and the final hole (= secondChild) *)
Fixpoint sift_down (fuel : nat) (l : list entry) (hole len : nat) : list entry * nat :=
  match fuel with
  | O => (l, hole)
  | S f =>
      if (hole <? (len - 1) / 2)%nat then
        let sc := (2 * (hole + 1))%nat in
        let c := if cmp (nth sc l dflt) (nth (sc - 1) l dflt) then (sc - 1)%nat else sc in
        sift_down f (set_nth l hole (nth c l dflt)) c len
      else (l, hole)
  end.

(* __adjust_heap(first, holeIndex, len, value, comp), stl_heap.h:219-246 *)
Definition adjust_heap (l : list entry) (hole len : nat) (v : entry) : list entry :=
  let '(l1, h1) := sift_down len l hole len in
  let '(l2, h2) :=
    if Nat.even len && (h1 =? (len - 2) / 2)%nat             (* l.235: (len & 1) == 0 && secondChild == (len-2)/2 *)
    then (set_nth l1 h1 (nth (2 * (h1 + 1) - 1) l1 dflt), (2 * (h1 + 1) - 1)%nat)
    else (l1, h1) in
  push_heap_aux (S h2) l2 h2 hole v.                         (* l.244 *)

(* explicit failure results: ErrOOB = the code indexes an empty vector (operator[] / pop_back on empty);
   ErrFuel = artefact of fuel-bounded recursion (proved unreachable) *)
Inductive res (A : Type) : Type := Ok (a : A) | ErrOOB | ErrFuel.
Arguments Ok {A} a.
Arguments ErrOOB {A}.
Arguments ErrFuel {A}.

Definition rbind {A B} (r : res A) (f : A -> res B) : res B :=
  match r with Ok a => f a | ErrOOB => ErrOOB | ErrFuel => ErrFuel end.
Notation "x <- r ;; k" := (rbind r (fun x => k)) (at level 61, r at next level, right associativity).

Definition is_empty {A} (l : list A) : bool := match l with [] => true | _ => false end.
Definition isnone {A} (o : option A) : bool := match o with None => true | Some _ => false end.

(* _scheduled[0] *)
Definition top (l : list entry) : res entry := match l with [] => ErrOOB | e :: _ => Ok e end.

(* pop_item(), scheduler.h:366-369: std::pop_heap(begin,end,compare_item); _scheduled.pop_back();
   pop_heap (stl_heap.h:318-334): if (last-first > 1) { --last; __pop_heap(first,last,last) };
   __pop_heap (l.248-266): value = move(result[0]); result[0] = move(first[0]); __adjust_heap(first, 0, last-first, value).
   The slot `result` (old last index) receives the old top and is then removed by pop_back, so the
   surviving array is __adjust_heap applied to the first n-1 slots. *)
Definition pop_item (l : list entry) : res (list entry) :=
  match l with
  | [] => ErrOOB
  | [_] => Ok []
  | _ => Ok (adjust_heap (removelast l) 0 (length l - 1) (last l dflt))
  end.

(* ---------- scheduler API (manual mode) ---------- *)

(* schedule(), scheduler.h:89-97; second component: was _cond.notify_all() called *)
Definition schedule (l : list entry) (e : entry) : list entry * bool :=
  let ntf := is_empty l || match l with t :: _ => e_tp e <? e_tp t | [] => true end in   (* l.91 *)
  (heap_push l e, ntf).                                                                   (* l.92-93 *)

Inductive expired := ExpP (t : entry) | ExpT (tp : Z) | ExpMax.

(* get_expired_lk(now), scheduler.h:416-426; fuel: every iteration pops one entry *)
Fixpoint get_expired_lk (fuel : nat) (l : list entry) (now : Z) : res (list entry * expired) :=
  match fuel with
  | O => ErrFuel
  | S f =>
      if is_empty l then Ok (l, ExpMax)                              (* l.417 exit, l.424 *)
      else
        t <- top l ;;
        if (e_tp t <=? now) || isnone (e_p t) then                   (* l.417 *)
          l' <- pop_item l ;;                                        (* l.418-419 *)
          match e_p t with
          | Some _ => Ok (l', ExpP t)                                (* l.420-421 *)
          | None => get_expired_lk f l' now
          end
        else Ok (l, ExpT (e_tp t))                                   (* l.425 *)
  end.

Definition get_expired (l : list entry) (now : Z) : res (list entry * expired) :=
  get_expired_lk (S (length l)) l now.

(* remove(): the loop at scheduler.h:130-134 *)
Fixpoint remove_loop (fuel : nat) (l : list entry) (id : Z) : res (list entry * option entry) :=
  match fuel with
  | O => ErrFuel
  | S f =>
      if is_empty l then Ok (l, None)                                (* !_scheduled.empty() *)
      else
        t <- top l ;;
        if e_id t =? id then                                         (* _scheduled[0]._ident == id *)
          l' <- pop_item l ;;                                        (* l.131-132 *)
          match e_p t with
          | Some _ => Ok (l', Some t)                                (* l.133 *)
          | None => remove_loop f l' id
          end
        else Ok (l, None)
  end.

(* find_if(x._ident == id && x._p) in array order, then `return std::move(iter->_p)`: the entry stays in the
   array with an empty promise (scheduler.h:135-139) *)
Fixpoint find_take (l : list entry) (id : Z) : list entry * option entry :=
  match l with
  | [] => ([], None)
  | e :: t =>
      if (e_id e =? id) && negb (isnone (e_p e))
      then (mkE (e_tp e) None (e_id e) :: t, Some e)
      else let '(t', r) := find_take t id in (e :: t', r)
  end.

(* remove(id), scheduler.h:127-140; returns the entry whose promise was taken *)
Definition remove (l : list entry) (id : Z) : res (list entry * option entry) :=
  if is_empty l then Ok (l, None)                                    (* l.129 *)
  else
    r <- remove_loop (S (length l)) l id ;;
    match snd r with
    | Some t => Ok (fst r, Some t)
    | None => Ok (find_take (fst r) id)
    end.

(* ---------- state, operations, observations ---------- *)

(* state of a future<void> the test keeps: pending / resolved with value / promise dropped (no value,
   value() throws await_canceled_exception) / exception (code 0 = await_canceled_exception set by cancel(id),
   code c>0 = the test's own exception type carrying c) *)
Inductive fstat := FPending | FValue | FDropped | FExc (code : Z).

(* why a sleep was completed *)
Inductive how := ByExpiry (now : Z) | ByRemove | ByCancel (code : Z) | ByDestroy.

Definition stat_of (h : how) : fstat :=
  match h with ByExpiry _ => FValue | ByRemove => FValue | ByCancel c => FExc c | ByDestroy => FDropped end.

Record st := mkSt { sched : list entry; futs : list (option fstat); alive : bool }.
Definition st0 : st := mkSt [] [] true.

Inductive op :=
| OSchedule (pid : nat) (id tp : Z)     (* schedule(id, fut.get_promise(), tp) *)
| OSleep (pid : nat) (id tp : Z)        (* fut << sleep_until(tp, id) *)
| OExpired (now : Z)                    (* get_expired(now); an expired promise is then resolved: p() *)
| ORemove (id : Z)                      (* remove(id); a returned promise is then resolved: p() *)
| OCancel (id : Z)                      (* cancel(id) *)
| OCancelE (id code : Z)                (* cancel(id, make_exception_ptr(test_exception{code})) *)
| ODestroy                              (* ~scheduler *)
| OBad.

(* result of one call: status (0 ok / 1 rejected), two return words, completion events in order *)
Record out := mkOut { o_st : Z; o_r1 : Z; o_r2 : Z; o_evs : list (entry * how) }.
Definition rejected : out := mkOut 1 0 0 [].

Definition complete (f : list (option fstat)) (ev : entry * how) : list (option fstat) :=
  match e_p (fst ev) with Some p => put f p (Some (stat_of (snd ev))) | None => f end.

Definition pending (l : list entry) : list entry := filter (fun e => negb (isnone (e_p e))) l.
Definition emptied (l : list entry) : list entry := filter (fun e => isnone (e_p e)) l.

Definition do_remove (s : st) (id : Z) (h : how) : res (st * out) :=
  r <- remove (sched s) id ;;
  match snd r with
  | Some t => Ok (mkSt (fst r) (complete (futs s) (t, h)) true, mkOut 0 1 0 [(t, h)])
  | None => Ok (mkSt (fst r) (futs s) true, mkOut 0 0 0 [])
  end.

Definition step (s : st) (x : op) : res (st * out) :=
  if negb (alive s) then Ok (s, rejected) else
  match x with
  | OSchedule pid id tp | OSleep pid id tp =>
      match get (futs s) pid with
      | Some _ => Ok (s, rejected)
      | None => Ok (mkSt (fst (schedule (sched s) (mkE tp (Some pid) id))) (put (futs s) pid (Some FPending)) true,
                    mkOut 0 0 0 [])
      end
  | OExpired now =>
      r <- get_expired (sched s) now ;;
      match snd r with
      | ExpP t => Ok (mkSt (fst r) (complete (futs s) (t, ByExpiry now)) true, mkOut 0 1 0 [(t, ByExpiry now)])
      | ExpT tp => Ok (mkSt (fst r) (futs s) true, mkOut 0 0 tp [])
      | ExpMax => Ok (mkSt (fst r) (futs s) true, mkOut 0 2 0 [])
      end
  | ORemove id => do_remove s id ByRemove
  | OCancel id => do_remove s id (ByCancel 0)              (* scheduler.h:186-188, 199-206 *)
  | OCancelE id code => do_remove s id (ByCancel code)
  | ODestroy =>
      (* the vector destroys its items; a live promise's destructor resolves its future with no value (future.h:601-606) *)
      let evs := map (fun e => (e, ByDestroy)) (pending (sched s)) in
      Ok (mkSt [] (fold_left complete evs (futs s)) false, mkOut 0 0 0 evs)
  | OBad => Ok (s, rejected)
  end.

(* observation of one op: the call's result, the futures whose state changed (pid order), the array *)
Record obs := mkObs { ob_out : out; ob_chg : list Z; ob_lay : list Z }.

Definition scode (o : option fstat) : Z :=
  match o with
  | None | Some FPending => 0
  | Some FValue => 1
  | Some FDropped => 2
  | Some (FExc c) => 3 + c
  end.

Fixpoint diff_from (i : nat) (a b : list (option fstat)) : list Z :=
  match b with
  | [] => []
  | y :: b' =>
      (if scode (hd None a) =? scode y then [] else [Z.of_nat i; scode y]) ++ diff_from (S i) (tl a) b'
  end.

Definition layout (l : list entry) : list Z :=
  flat_map (fun e => [e_tp e; match e_p e with Some p => Z.of_nat p | None => -1 end; e_id e]) l.

Definition mk_obs (s s1 : st) (o : out) : obs :=
  if o_st o =? 0 then mkObs o (diff_from 0 (futs s) (futs s1)) (layout (sched s1))
  else mkObs o [] [].

Definition err_out : out := mkOut (-999) 0 0 [].

(* runs until the first Err; the final state is None after an Err *)
Fixpoint run_from (s : st) (l : list op) : list obs * option st :=
  match l with
  | [] => ([], Some s)
  | x :: t =>
      match step s x with
      | Ok r => let '(os, e) := run_from (fst r) t in (mk_obs s (fst r) (snd r) :: os, e)
      | _ => ([mkObs err_out [] []], None)
      end
  end.

(* ---------- wire encoding ---------- *)
Definition max_pid : Z := 200.
Definition okpid (p : Z) : bool := (0 <=? p) && (p <? max_pid).

Definition decode (l : list Z) : op :=
  match l with
  | [1; p; id; tp] => if okpid p && (0 <=? id) then OSchedule (Z.to_nat p) id tp else OBad
  | [2; p; id; tp] => if okpid p && (0 <=? id) then OSleep (Z.to_nat p) id tp else OBad
  | [3; now] => OExpired now
  | [4; id] => if 0 <=? id then ORemove id else OBad
  | [5; id] => if 0 <=? id then OCancel id else OBad
  | [6; id; c] => if (0 <=? id) && (1 <=? c) && (c <=? 1000) then OCancelE id c else OBad
  | [7] => ODestroy
  | _ => OBad
  end.

Definition encode_obs (o : obs) : list Z :=
  if o_st (ob_out o) =? -999 then [-999] else
  o_st (ob_out o) :: o_r1 (ob_out o) :: o_r2 (ob_out o)
    :: Z.of_nat (length (ob_chg o) / 2) :: ob_chg o ++ Z.of_nat (length (ob_lay o) / 3) :: ob_lay o.

Definition timer_run (ops : list (list Z)) : list (list Z) :=
  map encode_obs (fst (run_from st0 (map decode ops))).

(* ---------- decidable form of C12 over an observed trace (run on the implementation's output) ----------
   The oracle replays the ops on the abstract state "multiset of pending (tp, pid, id)" and uses the observed
   results only to resolve the choices the statement leaves open (which of several entries with the same id /
   the same time point).  It never looks at the model's run. *)
Definition trip := (Z * Z * Z)%type.     (* tp, pid, id *)
Definition t_tp (t : trip) : Z := fst (fst t).
Definition t_pid (t : trip) : Z := snd (fst t).
Definition t_id (t : trip) : Z := snd t.

Record ost := mkOst { os_pend : list trip; os_used : list Z; os_alive : bool }.
Definition ost0 : ost := mkOst [] [] true.

Fixpoint take_pid (p : Z) (l : list trip) : option (trip * list trip) :=
  match l with
  | [] => None
  | t :: r => if t_pid t =? p then Some (t, r)
              else match take_pid p r with Some (x, r') => Some (x, t :: r') | None => None end
  end.

Definition all_ge (tp : Z) (l : list trip) : bool := forallb (fun t => tp <=? t_tp t) l.
Definition has_tp (tp : Z) (l : list trip) : bool := existsb (fun t => t_tp t =? tp) l.
Definition has_id (id : Z) (l : list trip) : bool := existsb (fun t => t_id t =? id) l.

(* the array read from the implementation: triples; pid = -1 marks an emptied slot *)
Fixpoint triples (l : list Z) : option (list trip) :=
  match l with
  | [] => Some []
  | tp :: p :: id :: r => match triples r with Some t => Some ((tp, p, id) :: t) | None => None end
  | _ => None
  end.

Definition trip_eqb (a b : trip) : bool := (t_tp a =? t_tp b) && (t_pid a =? t_pid b) && (t_id a =? t_id b).

Fixpoint take_trip (x : trip) (l : list trip) : option (list trip) :=
  match l with
  | [] => None
  | t :: r => if trip_eqb x t then Some r
              else match take_trip x r with Some r' => Some (t :: r') | None => None end
  end.

Fixpoint perm_trips (a b : list trip) : bool :=
  match a with
  | [] => is_empty b
  | x :: t => match take_trip x b with Some b' => perm_trips t b' | None => false end
  end.

Fixpoint heap_b_from (i : nat) (all rest : list Z) : bool :=
  match rest with
  | [] => true
  | x :: r => ((i =? 0)%nat || (nth (parent i) all 0 <=? x)) && heap_b_from (S i) all r
  end.

(* the array shown after the op: heap ordered on tp, and its live entries are exactly the pending multiset *)
Definition layout_ok (lay : list Z) (pend : list trip) : bool :=
  match triples lay with
  | None => false
  | Some ts => perm_trips (filter (fun t => 0 <=? t_pid t) ts) pend
               && heap_b_from 0 (map t_tp ts) (map t_tp ts)
  end.

(* parsed observation *)
Record pobs := mkP { p_st : Z; p_r1 : Z; p_r2 : Z; p_chg : list Z; p_lay : list Z }.
Definition parse_obs (l : list Z) : option pobs :=
  match l with
  | st :: r1 :: r2 :: k :: rest =>
      let nk := (2 * Z.to_nat k)%nat in
      match skipn nk rest with
      | n :: lay => if (0 <=? k) && (length (firstn nk rest) =? nk)%nat && (0 <=? n) && (length lay =? 3 * Z.to_nat n)%nat
                    then Some (mkP st r1 r2 (firstn nk rest) lay) else None
      | [] => None
      end
  | _ => None
  end.

Definition is_rejected (p : pobs) : bool :=
  (p_st p =? 1) && (p_r1 p =? 0) && (p_r2 p =? 0) && is_empty (p_chg p) && is_empty (p_lay p).

Definition zlist_eqb (a b : list Z) : bool :=
  (length a =? length b)%nat && forallb (fun p => fst p =? snd p) (combine a b).

(* completion of exactly one sleep `t` with status code `sc`, everything else untouched *)
Definition one_completed (p : pobs) (s : ost) (sc : Z) (ok : trip -> bool) : option ost :=
  match p_chg p with
  | [pid; c] =>
      match take_pid pid (os_pend s) with
      | Some (t, rest) =>
          if (c =? sc) && ok t && layout_ok (p_lay p) rest
          then Some (mkOst rest (os_used s) true) else None
      | None => None
      end
  | _ => None
  end.

Definition nothing_completed (p : pobs) (s : ost) : option ost :=
  if is_empty (p_chg p) && layout_ok (p_lay p) (os_pend s) then Some s else None.

Fixpoint chg_pids (l : list Z) (sc : Z) : option (list Z) :=
  match l with
  | [] => Some []
  | pid :: c :: r => if c =? sc then match chg_pids r sc with Some t => Some (pid :: t) | None => None end else None
  | _ => None
  end.

Definition oracle_remove (p : pobs) (s : ost) (id sc : Z) : option ost :=
  if p_st p =? 0 then
    if p_r1 p =? 1 then
      (* true / promise returned: exactly one pending sleep carrying id completed with the requested outcome *)
      if p_r2 p =? 0 then one_completed p s sc (fun t => t_id t =? id) else None
    else if (p_r1 p =? 0) && (p_r2 p =? 0) && negb (has_id id (os_pend s))
      (* false <=> nothing pending carries id; no other effect *)
      then nothing_completed p s else None
  else None.

Definition oracle_step (s : ost) (x : op) (p : pobs) : option ost :=
  if negb (os_alive s) then (if is_rejected p then Some s else None) else
  match x with
  | OSchedule pid id tp | OSleep pid id tp =>
      if memz (Z.of_nat pid) (os_used s) then (if is_rejected p then Some s else None)
      else
        let pend := (tp, Z.of_nat pid, id) :: os_pend s in
        if (p_st p =? 0) && (p_r1 p =? 0) && (p_r2 p =? 0) && is_empty (p_chg p) && layout_ok (p_lay p) pend
        then Some (mkOst pend (Z.of_nat pid :: os_used s) true) else None
  | OExpired now =>
      if p_st p =? 0 then
        if p_r1 p =? 1 then
          (* a sleep completed by expiry: it is due, and no pending sleep has an earlier time point *)
          if p_r2 p =? 0 then one_completed p s 1 (fun t => (t_tp t <=? now) && all_ge (t_tp t) (os_pend s)) else None
        else if p_r1 p =? 0 then
          (* nothing due: the reported time point is the earliest pending one and lies in the future *)
          if (now <? p_r2 p) && has_tp (p_r2 p) (os_pend s) && all_ge (p_r2 p) (os_pend s)
          then nothing_completed p s else None
        else if (p_r1 p =? 2) && (p_r2 p =? 0) && is_empty (os_pend s)
          then nothing_completed p s else None
      else None
  | ORemove id => oracle_remove p s id 1
  | OCancel id => oracle_remove p s id 3
  | OCancelE id c => oracle_remove p s id (3 + c)
  | ODestroy =>
      (* every pending sleep is cancelled (future ready without value), nothing else changes *)
      if (p_st p =? 0) && (p_r1 p =? 0) && (p_r2 p =? 0) && is_empty (p_lay p) then
        match chg_pids (p_chg p) 2 with
        | Some pids => if perm_b pids (map t_pid (os_pend s)) then Some (mkOst [] (os_used s) false) else None
        | None => None
        end
      else None
  | OBad => if is_rejected p then Some s else None
  end.

Fixpoint oracle_from (s : ost) (ops : list op) (obs : list (list Z)) : bool :=
  match ops, obs with
  | [], [] => true
  | x :: t, o :: u =>
      match parse_obs o with
      | Some p => match oracle_step s x p with Some s1 => oracle_from s1 t u | None => false end
      | None => false
      end
  | _, _ => false
  end.

Definition timer_oracle (ops obs : list (list Z)) : bool := oracle_from ost0 (map decode ops) obs.

(* ---------- the worker (worker_coro, scheduler.h:372-416) over the same array + a virtual clock ----------
   The loop after the lock is re-taken (l.389-414) is split where another thread can interfere:
     WIter   l.390-392  stop requested -> the loop is left (WFin); otherwise now = clock; get_expired_lk(now): a promise
                        is resolved (l.395-399), or the thread has DECIDED to wait until the returned time point
                        (WDecided; time_point::max = None when the heap is empty) — it still holds _mx
     WBlock  l.405/410  it enters _cond.wait_until(lk, state, x, pred): _mx is released and the thread blocks (WWait)
   Other threads: schedule (needs _mx; notifies iff the heap was empty or the new time point is earlier than
   _scheduled[0]._tp, l.91-96), remove/cancel (needs _mx; never notifies), clock ticks, spurious wake-ups, and
   request_stop — which does NOT take _mx (the stop callback only calls notify_all, l.373-375) and can therefore land
   between WIter and WBlock.
   `aw` selects the wait primitive: true = the current code, condition_variable_any::wait_until with the stop token and
   the predicate `!_scheduled.empty() && _scheduled[0]._tp < x` (a stop request is seen when entering the wait and
   always wakes it; a notification ends the wait only if the predicate holds); false = the code before the repair of
   F-C12d, plain condition_variable::wait_until(lk, x) (any notification wakes, a stop request in the window is lost). *)
Inductive wmode :=
| WRun                                  (* between iterations, not blocked *)
| WDecided (d : option Z)               (* holds _mx, about to call wait_until(d) *)
| WWait (d : option Z) (ntf : bool)     (* blocked in wait_until(d) (None = time_point::max); woken since? *)
| WFin.                                 (* the loop was left: the worker coroutine has finished *)

Record wst := mkW { w_sched : list entry; w_now : Z; w_mode : wmode; w_stop : bool;
                    w_done : list (entry * Z);       (* promises resolved by the worker, with its clock reading *)
                    w_err : bool;
                    w_in : list entry;               (* entries accepted from schedule calls *)
                    w_rm : list entry }.             (* entries whose promise a remove / cancel call took *)
Definition wst0 : wst := mkW [] 0 WRun false [] false [] [].

Inductive wev :=
| WSchedule (pid : nat) (id tp : Z)
| WRemove (id : Z)
| WTick (dt : Z)
| WIter          (* the worker thread runs one iteration up to its decision, if it is runnable *)
| WBlock         (* the worker thread, having decided to wait, enters wait_until *)
| WSpurious      (* condition_variable spurious wake-up *)
| WStop.

(* the wait predicate, scheduler.h:405/410 *)
Definition wake_pred (l : list entry) (d : option Z) : bool :=
  match l with
  | [] => false
  | t :: _ => match d with Some x => e_tp t <? x | None => true end
  end.

(* notify_all() reaching a blocked worker *)
Definition notify (aw : bool) (l : list entry) (m : wmode) : wmode :=
  match m with
  | WWait d n => WWait d (n || (if aw then wake_pred l d else true))
  | _ => m
  end.

Definition lock_held (w : wst) : bool := match w_mode w with WDecided _ => true | _ => false end.

Definition runnable (w : wst) : bool :=
  match w_mode w with
  | WRun => true
  | WDecided _ => false
  | WWait d ntf => ntf || match d with Some t => t <=? w_now w | None => false end
  | WFin => false
  end.

Definition set_mode (w : wst) (m : wmode) : wst :=
  mkW (w_sched w) (w_now w) m (w_stop w) (w_done w) (w_err w) (w_in w) (w_rm w).

Definition wstep (aw : bool) (w : wst) (e : wev) : wst :=
  if w_err w then w else
  match e with
  | WSchedule pid id tp =>
      if lock_held w then w else                              (* std::lock_guard _(_mx) has to wait *)
      let en := mkE tp (Some pid) id in
      let '(l, ntf) := schedule (w_sched w) en in
      mkW l (w_now w) (if ntf then notify aw l (w_mode w) else w_mode w) (w_stop w) (w_done w) false
          (en :: w_in w) (w_rm w)
  | WRemove id =>
      if lock_held w then w else
      match remove (w_sched w) id with
      | Ok r => mkW (fst r) (w_now w) (w_mode w) (w_stop w) (w_done w) false (w_in w)
                    (match snd r with Some t => t :: w_rm w | None => w_rm w end)
      | _ => mkW (w_sched w) (w_now w) (w_mode w) (w_stop w) (w_done w) true (w_in w) (w_rm w)
      end
  | WTick dt => mkW (w_sched w) (w_now w + Z.max 0 dt) (w_mode w) (w_stop w) (w_done w) false (w_in w) (w_rm w)
  | WSpurious => set_mode w (notify aw (w_sched w) (w_mode w))
  | WStop =>
      (* request_stop(): the flag, then the callbacks; a blocked worker is woken whatever the predicate says *)
      mkW (w_sched w) (w_now w) (match w_mode w with WWait d _ => WWait d true | m => m end) true (w_done w) false
          (w_in w) (w_rm w)
  | WBlock =>
      match w_mode w with
      | WDecided d =>
          if aw && w_stop w then set_mode w WRun              (* wait_until sees the stop request and returns at once *)
          else set_mode w (WWait d false)
      | _ => w
      end
  | WIter =>
      if negb (runnable w) then w else
      if w_stop w then set_mode w WFin else                   (* l.382, l.390 *)
      match get_expired (w_sched w) (w_now w) with            (* l.391-392 *)
      | Ok (l, ExpP t) => mkW l (w_now w) WRun false ((t, w_now w) :: w_done w) false (w_in w) (w_rm w)   (* l.395-399 *)
      | Ok (l, ExpT tp) => mkW l (w_now w) (WDecided (Some tp)) false (w_done w) false (w_in w) (w_rm w)
      | Ok (l, ExpMax) => mkW l (w_now w) (WDecided None) false (w_done w) false (w_in w) (w_rm w)
      | _ => mkW (w_sched w) (w_now w) (w_mode w) (w_stop w) (w_done w) true (w_in w) (w_rm w)
      end
  end.

Definition wrun (aw : bool) (w : wst) (l : list wev) : wst := fold_left (wstep aw) l w.

(* ---------- engine "tst": scheduler::start(awaitable) in one thread (scheduler.h:229-283) ----------
   Coroutine k sleeps until base+off for each off of its list, logging every wake-up.  All coroutines are
   started (in index order) before start(); each runs to its first sleep_until.  The worker then repeatedly
   takes the earliest entry (whatever the real clock shows, get_expired_lk returns the top of the heap once
   it is due), resumes its coroutine, which schedules its next sleep before the worker looks again.
   Observation: the order of wake-ups (coroutine indices); times are never compared. *)
Fixpoint sched_first (l : list entry) (k : nat) (cs : list (list Z)) : list entry * list (list Z) :=
  match cs with
  | [] => (l, [])
  | [] :: r => let '(l', r') := sched_first l (S k) r in (l', [] :: r')
  | (o :: rest) :: r =>
      let '(l', r') := sched_first (fst (schedule l (mkE o (Some k) 0))) (S k) r in (l', rest :: r')
  end.

Fixpoint start_loop (fuel : nat) (l : list entry) (cs : list (list Z)) : list Z :=
  match fuel with
  | O => []
  | S f =>
      match l with
      | [] => []
      | t :: _ =>
          match get_expired l (e_tp t) with
          | Ok (l1, ExpP e) =>
              match e_p e with
              | Some k =>
                  match nth k cs [] with
                  | [] => Z.of_nat k :: start_loop f l1 cs
                  | o :: rest => Z.of_nat k :: start_loop f (fst (schedule l1 (mkE o (Some k) 0))) (set_nth cs k rest)
                  end
              | None => []
              end
          | _ => []
          end
      end
  end.

Definition okoff (o : Z) : bool := (0 <=? o) && (o <=? 400).
(* a coroutine's time points must not go backwards: a later sleep with an earlier (already past) time point wakes
   "out of order" legitimately, and the order check below is global *)
Fixpoint nondecr (l : list Z) : bool :=
  match l with
  | a :: ((b :: _) as t) => (a <=? b) && nondecr t
  | _ => true
  end.
Definition decode_start (ops : list (list Z)) : option (list (list Z)) :=
  if forallb (fun o => match o with 1 :: offs => forallb okoff offs && negb (is_empty offs) && nondecr offs | _ => false end) ops
     && (1 <=? length ops)%nat && (length ops <=? 4)%nat
  then Some (map (fun o => tl o) ops) else None.

(* one observation per op; the op list is [1 off..]* ; the last line carries the wake-up order *)
Definition start_expected (cs : list (list Z)) : list Z :=
  let '(l, cs') := sched_first [] 0 cs in
  start_loop (S (length (concat cs))) l cs'.

Definition start_run (ops : list (list Z)) : list (list Z) :=
  match decode_start ops with
  | None => map (fun _ => [1]) ops
  | Some cs =>
      let w := start_expected cs in
      map (fun _ => [0]) (removelast ops) ++ [0 :: 0 :: w]      (* status, early wake-ups seen, order *)
  end.

(* property on an observed trace: nobody woke early, every sleep was completed exactly once, and the wake-ups
   are in time-point order (ties: any order) *)
Fixpoint take_first (k : Z) (cs : list (list Z)) (i : Z) : option (Z * list (list Z)) :=
  match cs with
  | [] => None
  | c :: r => if i =? k then match c with o :: rest => Some (o, rest :: r) | [] => None end
              else match take_first k r (i + 1) with Some (o, r') => Some (o, c :: r') | None => None end
  end.

Fixpoint order_ok (fuel : nat) (w : list Z) (cs : list (list Z)) (last : Z) : bool :=
  match w with
  | [] => forallb is_empty cs
  | k :: r => match take_first k cs 0 with
              | Some (o, cs') => (last <=? o) && order_ok fuel r cs' o
              | None => false
              end
  end.

Definition start_oracle (ops obs : list (list Z)) : bool :=
  match decode_start ops with
  | None => forallb (fun o => zlist_eqb o [1]) obs && (length obs =? length ops)%nat
  | Some cs =>
      (length obs =? length ops)%nat &&
      forallb (fun o => zlist_eqb o [0]) (removelast obs) &&
      match last obs [] with
      | 0 :: 0 :: w => order_ok 0 w cs (-1)
      | _ => false
      end
  end.

(* ---------- engine "tiv": interval() generators + stop tokens on one scheduler, with the lock ownership the code has ----------
   (scheduler.h:307-328).  Up to three generators (index g = 0..2) with independent stop sources share one scheduler in
   manual mode.  Everything happens on the test thread: request_stop() runs the stop callback synchronously, the
   callback calls cancel(&tag), cancel -> remove locks _mx (l.128), then the promise is resolved with
   await_canceled_exception outside the lock, which resumes the generator owning that sleep: it catches the exception
   and finishes.  A thread that holds _mx and acquires it again is a SelfDeadlock.
   `tg g` is the ident generator g gives its sleeps: in the code `&tag`, a variable of g's own coroutine frame, hence
   pairwise distinct (`tag`); the model keeps it a parameter so that the role of distinctness is explicit. *)
Inductive gstate := GNone | GIdle | GSleeping | GYielded | GDone.
Record ist := mkI { i_sched : list entry; i_gens : list gstate; i_stops : list bool;
                    i_owner : bool (* test thread holds _mx *);
                    i_clk : Z (* logical clock: only the order of the readings of system_clock::now() matters *);
                    i_next : list Z (* generator g's `next` (l.315/320): read at body start and after every wake-up *) }.
Definition ist0 : ist := mkI [] [GNone; GNone; GNone] [false; false; false] false 1 [0; 0; 0].

Inductive ires := IOk (s : ist) (o : list Z) | ISelfDeadlock | IErr.

Definition tag (g : nat) : Z := 1 + Z.of_nat g.

Definition gen_of (s : ist) (g : nat) : gstate := nth g (i_gens s) GNone.
Definition stop_of (s : ist) (g : nat) : bool := nth g (i_stops s) false.
Definition set_gen (s : ist) (g : nat) (x : gstate) : ist :=
  mkI (i_sched s) (set_nth (i_gens s) g x) (i_stops s) (i_owner s) (i_clk s) (i_next s).

(* status of generator g's tick future: 0 none / pending, 1 value, 2 no value (generator finished) *)
Definition gstat (x : gstate) : Z := match x with GYielded => 1 | GDone => 2 | _ => 0 end.
Definition iobs (s : ist) (kind : Z) : list Z :=
  0 :: kind :: Z.of_nat (length (i_sched s)) :: map gstat (i_gens s).

(* std::lock_guard _(_mx) by the test thread *)
Definition acquire (s : ist) : option ist :=
  if i_owner s then None else Some (mkI (i_sched s) (i_gens s) (i_stops s) true (i_clk s) (i_next s)).

(* cancel(&tag) as called from generator g's stop callback; cb_locks = the callback itself takes _mx first
   (the code before commit d650829; false for the current code, scheduler.h:310-312) *)
Definition stop_callback (cb_locks : bool) (tg : nat -> Z) (s : ist) (g : nat) : ires :=
  match (if cb_locks then acquire s else Some s) with
  | None => ISelfDeadlock
  | Some s1 =>
      match acquire s1 with                                   (* remove(): std::lock_guard _(_mx), l.128 *)
      | None => ISelfDeadlock
      | Some s2 =>
          match remove (i_sched s2) (tg g) with
          | Ok (l, Some t) =>
              (* the promise is resolved with the exception -> the generator that owns this sleep resumes, leaves its
                 loop through the catch and finishes *)
              match e_p t with
              | Some g' => IOk (mkI l (set_nth (i_gens s2) g' GDone) (i_stops s2) false (i_clk s2) (i_next s2)) []
              | None => IErr
              end
          | Ok (l, None) => IOk (mkI l (i_gens s2) (i_stops s2) false (i_clk s2) (i_next s2)) []
          | _ => IErr
          end
      end
  end.

Inductive iop := ICreate (g : nat) | ICall (g : nat) | IStop (g : nat) | IExp | IBad.

Definition decode_iop (o : list Z) : iop :=
  let mk c g :=
      if (0 <=? g) && (g <? 3) then
        if c =? 1 then ICreate (Z.to_nat g) else if c =? 2 then ICall (Z.to_nat g)
        else if c =? 3 then IStop (Z.to_nat g) else if c =? 4 then IExp else IBad
      else IBad in
  match o with
  | [c] => mk c 0
  | [c; g] => mk c g
  | _ => IBad
  end.

Definition istep' (cb_locks : bool) (tg : nat -> Z) (s : ist) (x : iop) : ires :=
  match x with
  | ICreate g => (* create the generator (lazy: the body has not started) *)
      match gen_of s g with
      | GNone => let s1 := set_gen s g GIdle in IOk s1 (iobs s1 0)
      | _ => IOk s [1]
      end
  | ICall g => (* call the generator: the body runs up to co_await waiter (or finishes when stop was requested) *)
      match gen_of s g with
      | GIdle =>
          if stop_of s g then
            (* first call: the stop_callback constructor runs the callback at once, then the loop condition is false *)
            match stop_callback cb_locks tg s g with
            | IOk s1 _ => let s2 := set_gen s1 g GDone in IOk s2 (iobs s2 2)
            | r => r
            end
          else
            (* l.315: next = now() + dur at body start *)
            let l := fst (schedule (i_sched s) (mkE (i_clk s) (Some g) (tg g))) in
            let s1 := mkI l (set_nth (i_gens s) g GSleeping) (i_stops s) false (i_clk s + 1) (set_nth (i_next s) g (i_clk s)) in
            IOk s1 (iobs s1 0)
      | GYielded =>
          if stop_of s g then let s2 := set_gen s g GDone in IOk s2 (iobs s2 2)     (* the loop condition is false *)
          else
            (* sleep_until(next) with the `next` read right after the previous wake-up (l.320) *)
            let l := fst (schedule (i_sched s) (mkE (nth g (i_next s) 0) (Some g) (tg g))) in
            let s1 := mkI l (set_nth (i_gens s) g GSleeping) (i_stops s) false (i_clk s) (i_next s) in
            IOk s1 (iobs s1 0)
      | _ => IOk s [1]
      end
  | IStop g => (* request_stop() on generator g's stop source, under the watchdog *)
      if stop_of s g then IOk s (iobs s 0) else
      let s0 := mkI (i_sched s) (i_gens s) (set_nth (i_stops s) g true) (i_owner s) (i_clk s) (i_next s) in
      match gen_of s g with
      | GSleeping | GYielded =>
          (* the callback is registered (the body has started and the frame is alive) *)
          match stop_callback cb_locks tg s0 g with
          | IOk s1 _ => IOk s1 (iobs s1 (match gen_of s g, gen_of s1 g with GSleeping, GDone => 2 | _, _ => 0 end))
          | r => r
          end
      | _ => IOk s0 (iobs s0 0)
      end
  | IExp => (* get_expired(far future); an expired promise is resolved: the generator owning it wakes and yields *)
      match acquire s with
      | None => ISelfDeadlock
      | Some s1 =>
          match get_expired (i_sched s1) (i_clk s1) with
          | Ok (l, ExpP t) =>
              match e_p t with
              | Some g' => (* the generator wakes, reads the clock for its next tick (l.320) and yields *)
                  let s2 := mkI l (set_nth (i_gens s) g' GYielded) (i_stops s) false (i_clk s + 1) (set_nth (i_next s) g' (i_clk s)) in
                  IOk s2 (iobs s2 1)
              | None => IErr
              end
          | Ok (l, _) => let s2 := mkI l (i_gens s) (i_stops s) false (i_clk s) (i_next s) in IOk s2 (iobs s2 0)
          | _ => IErr
          end
      end
  | IBad => IOk s [1]
  end.

Definition istep (cb_locks : bool) (tg : nat -> Z) (s : ist) (o : list Z) : ires := istep' cb_locks tg s (decode_iop o).

Fixpoint irun_from (cb_locks : bool) (tg : nat -> Z) (s : ist) (ops : list (list Z)) : list (list Z) :=
  match ops with
  | [] => []
  | o :: t =>
      match istep cb_locks tg s o with
      | IOk s1 ob => ob :: irun_from cb_locks tg s1 t
      | ISelfDeadlock => [[-998]]
      | IErr => [[-999]]
      end
  end.

Definition interval_run (ops : list (list Z)) : list (list Z) := irun_from false tag ist0 ops.

(* property on a trace: no hang, no crash marker, one observation per op; a stop request ends exactly the generator
   whose token was signalled (iff it sleeps: its tick future becomes ready without value, its entry leaves the pending
   set), the others keep their state and keep ticking — the scenario is deterministic, so this is the model's trace *)
Definition interval_oracle (ops obs : list (list Z)) : bool :=
  (length ops =? length obs)%nat
  && forallb (fun o => match o with x :: _ => negb (x =? -998) && negb (x =? -999) | [] => false end) obs
  && forallb (fun p => zlist_eqb (fst p) (snd p)) (combine obs (interval_run ops)).

(* ---------- engine "tth": the worker in its own thread, idle, while the test thread schedules ----------
   op [1; far; near] (milliseconds): the worker blocks on an entry `far` ahead (far = 0: on the empty heap);
   60 ms later the test thread schedules a sleep `near` ahead; the clock then passes that time point and the
   worker gets to run.  Observation: status, was the near sleep completed, final state of the far sleep after
   cancel(far id).  Expressed through the worker model above. *)
Definition thread_events (far near : Z) : list wev :=
  (if 0 <? far then [WSchedule 0 1 far] else []) ++
  [WIter; WBlock; WTick 60; WSchedule 1 2 (60 + near); WTick near;
   WIter; WBlock; WIter; WBlock; WIter; WBlock].

Definition done_pid (w : wst) (p : nat) : bool :=
  existsb (fun x => match e_p (fst x) with Some q => Nat.eqb p q | None => false end) (w_done w).

(* op [5; fl; mask; o1 .. ok] (fl = 0 own thread / 1 thread pool; 2 <= k <= 4 sleepers at t0 + o_i ms, o1 >= 200, gaps >= 200):
   all sleepers are scheduled; the worker is blocked on the FIRST deadline (harness: it has passed the "sched_wait" point
   since the first schedule); the sleepers selected by the bit mask are cancelled from the test thread (remove pops or
   empties them, never notifies); the clock then passes every deadline.  Observation: status, number of sleeps seen
   completed before their own time point, final state of every sleep (1 value, 3 cancelled). *)
Fixpoint offs_ok (prev : Z) (l : list Z) : bool :=
  match l with [] => true | o :: t => (prev + 200 <=? o) && offs_ok o t end.

Fixpoint cb_ticks (prev : Z) (l : list Z) : list wev :=
  match l with
  | [] => []
  | o :: t => [WTick (o - prev); WIter; WBlock; WIter; WBlock; WIter; WBlock] ++ cb_ticks o t
  end.

Definition cb_events (mask : Z) (offs : list Z) : list wev :=
  let idx := seq 0 (length offs) in
  map (fun p => WSchedule (fst p) (1 + Z.of_nat (fst p)) (snd p)) (combine idx offs)
  ++ [WIter; WBlock]
  ++ flat_map (fun i => if Z.testbit mask (Z.of_nat i) then [WRemove (1 + Z.of_nat i)] else []) idx
  ++ cb_ticks 0 offs.

Definition has_pid (l : list entry) (p : nat) : bool :=
  existsb (fun e => match e_p e with Some q => Nat.eqb p q | None => false end) l.

Definition cancel_blocked (fl mask : Z) (offs : list Z) : list Z :=
  if ((fl =? 0) || (fl =? 1)) && (2 <=? length offs)%nat && (length offs <=? 4)%nat && offs_ok 0 offs
     && (last offs 0 <=? 1000) && (0 <=? mask) && (mask <? 2 ^ Z.of_nat (length offs)) then
    let w := wrun true wst0 (cb_events mask offs) in
    let early := length (filter (fun x => snd x <? e_tp (fst x)) (w_done w)) in
    0 :: Z.of_nat early ::
      map (fun i => if has_pid (map fst (w_done w)) i then 1 else if has_pid (w_rm w) i then 3 else 0) (seq 0 (length offs))
  else [1].

Definition is_fin (w : wst) : bool := match w_mode w with WFin => true | _ => false end.

(* ops [1; far; near] / [2; far]: scheduler in its own std::thread (worker_coro<false>);
   ops [3; far; near] / [4; far]: the same scenarios with the scheduler started in a thread_pool (worker_coro<true>) *)
Definition thread_obs (o : list Z) : list Z :=
  let idle far near :=
      if (0 <=? far) && (far <=? 100000) && (1 <=? near) && (near <=? 200) then
        let w := wrun true wst0 (thread_events far near) in
        [0; b2z (done_pid w 1); if far =? 0 then 0 else if done_pid w 0 then 1 else 3]
      else [1] in
  (* stop request racing with the worker's decision to wait (harness: worker held at the "sched_wait" point while
     ~scheduler runs): the worker has looked at the heap and is about to block; request_stop must still end it —
     ~scheduler returns iff the worker finishes; a far sleep is then cancelled by destruction *)
  let race far :=
      if (far =? 0) || ((10000 <=? far) && (far <=? 100000)) then
        let w := wrun true wst0 ((if 0 <? far then [WSchedule 0 1 far] else []) ++ [WIter; WStop; WBlock; WIter]) in
        [0; b2z (is_fin w); if far =? 0 then 0 else 2]
      else [1] in
  match o with
  | [1; far; near] => idle far near
  | [2; far] => race far
  | [3; far; near] => idle far near
  | [4; far] => race far
  | 5 :: fl :: mask :: offs => cancel_blocked fl mask offs
  | _ => [1]
  end.

Definition thread_run (ops : list (list Z)) : list (list Z) := map thread_obs ops.

(* property on a trace: the near sleep was woken (not missed); the far sleep was either cancelled by cancel(id)
   or had expired — and it cannot have expired when its time point lies beyond the whole observation window *)
Definition thread_ok (p : list Z * list Z) : bool :=
  match fst p with
  | 5 :: _ :: mask :: offs =>
      (* nobody completed before its own time point; the cancelled sleeps got the exception, all others their value:
         each exactly once, whatever was cancelled while the worker was blocked *)
      match thread_obs (fst p), snd p with
      | [1], [1] => true
      | 0 :: _, 0 :: early :: sts =>
          (early =? 0) &&
          zlist_eqb sts (map (fun i => if Z.testbit mask (Z.of_nat i) then 3 else 1) (seq 0 (length offs)))
      | _, _ => false
      end
  | [2; far] | [4; far] =>
      (* the destructor returned (no lost wake-up) and a still pending sleep was cancelled, not left hanging *)
      match thread_obs (fst p), snd p with
      | [1], [1] => true
      | [0; _; _], [0; ret; fs] => (ret =? 1) && (fs =? (if far =? 0 then 0 else 2))
      | _, _ => false
      end
  | _ =>
  match thread_obs (fst p), snd p with
  | [1], [1] => true
  | [0; _; _], [0; woke; fs] =>
      let far := nth 1 (fst p) 0 in let near := nth 2 (fst p) 0 in
      (woke =? 1) &&
      (if far =? 0 then fs =? 0
       else if 60 + near + 4000 <? far then fs =? 3
       else if far <? 60 then fs =? 1
       else (fs =? 1) || (fs =? 3))
  | _, _ => false
  end
  end.

Definition thread_oracle (ops obs : list (list Z)) : bool :=
  (length ops =? length obs)%nat && forallb thread_ok (combine ops obs).

(* ---------- engine "tx": manual mode with callback-style sleepers and sleep_for ----------
   "You can actually schedule anything" (scheduler.h:38-39): a sleeper may be a callback promise (make_promise(fn)) whose
   completion handler runs synchronously INSIDE the promise resolution and re-enters the scheduler: it may cancel another
   sleep and/or arm a new one.  cancel(id, e) resolves the promise after remove() has released _mx (scheduler.h:199-205),
   get_expired() returns the promise to the caller who resolves it, so a handler always runs with _mx free.
   op [1; pid; id; tp]                              schedule(id, future pid's promise, tp)
   op [8; pid; id; tp; act; cid; sid; stp; spid]    schedule(id, make_promise(handler), tp); the handler records the outcome
                                                    as pid's state and, unless the promise was merely dropped,
                                                    act 1/3: cancel(cid);  act 2/3: schedule(sid, future spid's promise, stp)
                                                    (skipped when spid is already in use)
   op [9; pid; id; kind; frac]                      future pid = sleep_for(seq seconds + frac units, id), units by kind:
                                                    0 ns, 1 us, 2 ms, 3 quarter-milliseconds; observation: is the stored
                                                    time point >= (clock before the call) + duration, and <= (clock after
                                                    the call) + duration — never earlier than asked for
   op [3; now] get_expired + resolve, [4; id] remove + resolve, [5; id] cancel(id), [6; id; c] cancel(id, test_exception c)
   Observation: status, two result words, the futures / handlers whose state changed, array size. *)
Record hact := mkH { h_act : Z; h_cid : Z; h_sid : Z; h_stp : Z; h_spid : nat }.
Record xst := mkX { x_sched : list entry; x_fut : list (option fstat); x_hnd : list (option hact); x_seq : Z }.
Definition xst0 : xst := mkX [] [] [] 1.

(* time points produced by sleep_for lie beyond every synthetic time point; `seq` whole seconds keep them ordered *)
Definition big_tp : Z := 1000000000000000.

(* completion of promise pid with outcome v; its handler, if any, runs inside *)
Fixpoint xfire (fuel : nat) (s : xst) (pid : nat) (v : fstat) : res xst :=
  match fuel with
  | O => ErrFuel
  | S f =>
      let s1 := mkX (x_sched s) (put (x_fut s) pid (Some v)) (x_hnd s) (x_seq s) in
      match get (x_hnd s) pid, v with
      | None, _ => Ok s1
      | Some _, FDropped => Ok s1
      | Some a, _ =>
          s2 <- (if (h_act a =? 1) || (h_act a =? 3) then
                   (* sch.cancel(cid) from inside the handler: remove under the lock, resolve outside *)
                   r <- remove (x_sched s1) (h_cid a) ;;
                   match snd r with
                   | Some t => match e_p t with
                               | Some p => xfire f (mkX (fst r) (x_fut s1) (x_hnd s1) (x_seq s1)) p (FExc 0)
                               | None => ErrFuel
                               end
                   | None => Ok (mkX (fst r) (x_fut s1) (x_hnd s1) (x_seq s1))
                   end
                 else Ok s1) ;;
          if ((h_act a =? 2) || (h_act a =? 3)) && isnone (get (x_fut s2) (h_spid a)) then
            Ok (mkX (fst (schedule (x_sched s2) (mkE (h_stp a) (Some (h_spid a)) (h_sid a))))
                    (put (x_fut s2) (h_spid a) (Some FPending)) (x_hnd s2) (x_seq s2))
          else Ok s2
      end
  end.

Definition xfuel (s : xst) : nat := S (S (length (x_fut s))).

Definition xremove (s : xst) (id : Z) (v : fstat) : res (xst * (Z * Z)) :=
  r <- remove (x_sched s) id ;;
  match snd r with
  | Some t => match e_p t with
              | Some p => s' <- xfire (xfuel s) (mkX (fst r) (x_fut s) (x_hnd s) (x_seq s)) p v ;; Ok (s', (1, 0))
              | None => ErrFuel
              end
  | None => Ok (mkX (fst r) (x_fut s) (x_hnd s) (x_seq s), (0, 0))
  end.

Definition xfresh (s : xst) (p : Z) : bool := okpid p && isnone (get (x_fut s) (Z.to_nat p)).

(* None = rejected *)
Definition xstep (s : xst) (o : list Z) : res (option (xst * (Z * Z))) :=
  match o with
  | [1; p; id; tp] =>
      if xfresh s p && (0 <=? id) then
        Ok (Some (mkX (fst (schedule (x_sched s) (mkE tp (Some (Z.to_nat p)) id))) (put (x_fut s) (Z.to_nat p) (Some FPending))
                      (x_hnd s) (x_seq s), (0, 0)))
      else Ok None
  | [8; p; id; tp; act; cid; sid; stp; sp] =>
      if xfresh s p && (0 <=? id) && (0 <=? act) && (act <=? 3) && (0 <=? cid) && (0 <=? sid) && okpid sp && negb (sp =? p) then
        Ok (Some (mkX (fst (schedule (x_sched s) (mkE tp (Some (Z.to_nat p)) id))) (put (x_fut s) (Z.to_nat p) (Some FPending))
                      (put (x_hnd s) (Z.to_nat p) (Some (mkH act cid sid stp (Z.to_nat sp)))) (x_seq s), (0, 0)))
      else Ok None
  | [9; p; id; kind; frac] =>
      if xfresh s p && (0 <=? id) && (0 <=? kind) && (kind <=? 3) && (0 <=? frac) && (frac <? 1000000) then
        Ok (Some (mkX (fst (schedule (x_sched s) (mkE (big_tp + x_seq s) (Some (Z.to_nat p)) id)))
                      (put (x_fut s) (Z.to_nat p) (Some FPending)) (x_hnd s) (x_seq s + 1), (1, 1)))
      else Ok None
  | [3; now] =>
      if now <? big_tp then
        r <- get_expired (x_sched s) now ;;
        match snd r with
        | ExpP t => match e_p t with
                    | Some p => s' <- xfire (xfuel s) (mkX (fst r) (x_fut s) (x_hnd s) (x_seq s)) p FValue ;; Ok (Some (s', (1, 0)))
                    | None => ErrFuel
                    end
        | ExpT tp => Ok (Some (mkX (fst r) (x_fut s) (x_hnd s) (x_seq s), (0, if big_tp <=? tp then -1 else tp)))
        | ExpMax => Ok (Some (mkX (fst r) (x_fut s) (x_hnd s) (x_seq s), (2, 0)))
        end
      else Ok None
  | [4; id] => if 0 <=? id then r <- xremove s id FValue ;; Ok (Some r) else Ok None
  | [5; id] => if 0 <=? id then r <- xremove s id (FExc 0) ;; Ok (Some r) else Ok None
  | [6; id; c] => if (0 <=? id) && (1 <=? c) && (c <=? 1000) then r <- xremove s id (FExc c) ;; Ok (Some r) else Ok None
  | _ => Ok None
  end.

Fixpoint xrun_from (s : xst) (ops : list (list Z)) : list (list Z) :=
  match ops with
  | [] => []
  | o :: t =>
      match xstep s o with
      | Ok (Some (s1, (r1, r2))) =>
          let chg := diff_from 0 (x_fut s) (x_fut s1) in
          (0 :: r1 :: r2 :: Z.of_nat (length chg / 2) :: chg ++ [Z.of_nat (length (x_sched s1))]) :: xrun_from s1 t
      | Ok None => [1; 0; 0; 0; 0] :: xrun_from s t
      | _ => [[-999]]
      end
  end.

Definition tx_run (ops : list (list Z)) : list (list Z) := xrun_from xst0 ops.

(* property on a trace: every call returned (no hang marker -998, no crash marker), one observation per op; a sleep_for
   deadline is never earlier than asked for; and — the scenario being deterministic — the completions are exactly the
   ones the specification dictates (each sleep completed once, by the call that hits it or by a handler's nested cancel,
   with that outcome) *)
Definition tx_oracle (ops obs : list (list Z)) : bool :=
  (length ops =? length obs)%nat
  && forallb (fun o => match o with x :: _ => negb (x =? -998) && negb (x =? -999) | [] => false end) obs
  && forallb (fun p => match fst p, snd p with
                       | 9 :: _, 0 :: lo :: _ => lo =? 1
                       | _, _ => true
                       end) (combine ops obs)
  && forallb (fun p => zlist_eqb (fst p) (snd p)) (combine obs (tx_run ops)).
