(* RAProofs.v — C03 part (a): for every protocol Pi of RADefs.v
     pi_sufficient : ok b = true  -> for every number of threads and every schedule, no race state is reachable
     pi_necessary  : ok b = false -> a concrete schedule reaches a race
   so the boolean side condition on the memory orders is exact. *)
From Cocls Require Import Base BaseProofs RADefs.
Require Import Lia.

(* ------------------------------------------------------------------------------------------------ lists *)
Lemma Forall_set_nth {A} (P : A -> Prop) l i x : Forall P l -> P x -> Forall P (set_nth l i x).
Proof.
  intros H Hx. revert i. induction H as [|h t Hh Ht IH]; intros i; cbn [set_nth].
  - destruct i; constructor.
  - destruct i; constructor; auto.
Qed.

Lemma Forall_nth_error {A} (P : A -> Prop) l i x : Forall P l -> nth_error l i = Some x -> P x.
Proof. intros H E. rewrite Forall_forall in H. apply H. eapply nth_error_In; eauto. Qed.

Lemma nth_error_lt {A} (l : list A) i x : nth_error l i = Some x -> i < length l.
Proof. intros E. apply nth_error_Some. congruence. Qed.

Lemma set_nth_length {A} (l : list A) i x : length (set_nth l i x) = length l.
Proof. revert i; induction l as [|h t IH]; intros [|i]; cbn [set_nth length]; auto. Qed.

Lemma nth_set_nth {A} (l : list A) i j x y :
  nth_error l i = Some y -> nth_error (set_nth l i x) j = if Nat.eqb j i then Some x else nth_error l j.
Proof.
  intros E. destruct (Nat.eqb_spec j i) as [->|N].
  - apply nth_error_set_nth_same. eapply nth_error_lt; eauto.
  - apply nth_error_set_nth_other. congruence.
Qed.

(* ------------------------------------------------------------------------------------------------ views *)
Lemma vset_same v x n : vset v x n x = n.
Proof. unfold vset. now rewrite Nat.eqb_refl. Qed.
Lemma vset_other v x n y : y <> x -> vset v x n y = v y.
Proof. unfold vset. intros H. destruct (Nat.eqb_spec y x); congruence. Qed.
Lemma vup_ge v x n y : v y <= vup v x n y.
Proof. unfold vup. destruct (Nat.eqb y x); lia. Qed.
Lemma vup_other v x n y : y <> x -> vup v x n y = v y.
Proof. unfold vup. intros H. destruct (Nat.eqb_spec y x); congruence. Qed.
Lemma vjoin_l a b x : a x <= vjoin a b x. Proof. unfold vjoin; lia. Qed.
Lemma vjoin_r a b x : b x <= vjoin a b x. Proof. unfold vjoin; lia. Qed.

Section Specs.
Context {V : Type}.
Implicit Types (m : mem V) (tv : tview).

Lemma at_read_spec ab a p tv m v tv' :
  at_read ab a p tv m = Some (v, tv') ->
  exists ms, nth_error (am m a) p = Some ms /\ mval ms = v /\ cur tv a <= ts_of (am m a) p /\
    (forall x, cur tv x <= cur tv' x) /\ (forall x, acq tv x <= acq tv' x) /\
    (forall x, mview ms x <= acq tv' x) /\ (ab = true -> forall x, mview ms x <= cur tv' x) /\
    ts_of (am m a) p <= cur tv' a /\
    (forall x, x <> a -> cur tv' x = if ab then Nat.max (cur tv x) (mview ms x) else cur tv x).
Proof.
  unfold at_read. destruct (nth_error (am m a) p) as [ms|] eqn:E; [|discriminate].
  destruct (Nat.leb_spec (cur tv a) (ts_of (am m a) p)) as [L|L]; [|discriminate].
  intros H; inversion H; subst; clear H. exists ms. cbn [cur acq].
  repeat split; auto.
  - intros x. etransitivity; [|apply vup_ge]. destruct ab; [apply vjoin_l|lia].
  - intros x. etransitivity; [|apply vup_ge]. apply vjoin_l.
  - intros x. etransitivity; [|apply vup_ge]. apply vjoin_r.
  - intros -> x. etransitivity; [|apply vup_ge]. apply vjoin_r.
  - unfold vup. rewrite Nat.eqb_refl. lia.
  - intros x Hx. rewrite vup_other by auto. destruct ab; reflexivity.
Qed.

Lemma rmw_spec ab rb a f tv m v tv' m' :
  rmw ab rb a f tv m = Some (v, tv', m') ->
  exists ms rest nm, am m a = ms :: rest /\ mval ms = v /\
    am m' a = nm :: am m a /\ (forall b, b <> a -> am m' b = am m b) /\ mval nm = f v /\
    nts m' = nts m /\ race m' = race m /\
    (forall x, x <> a -> cur tv x <= cur tv' x) /\ (forall x, x <> a -> acq tv x <= acq tv' x) /\
    (ab = true -> forall x, x <> a -> mview ms x <= cur tv' x) /\
    (forall x, mview ms x <= mview nm x) /\
    (rb = true -> forall x, x <> a -> cur tv x <= mview nm x) /\
    (forall x, x <> a -> cur tv' x = if ab then Nat.max (cur tv x) (mview ms x) else cur tv x).
Proof.
  unfold rmw. destruct (am m a) as [|ms rest] eqn:E; [discriminate|].
  intros H; inversion H; subst; clear H. exists ms, rest. eexists. cbn [am nts race cur acq mval mview].
  split; [reflexivity|]. split; [reflexivity|]. split.
  { unfold am_set. rewrite Nat.eqb_refl. reflexivity. }
  split. { intros b Hb. unfold am_set. destruct (Nat.eqb_spec b a); congruence. }
  split; [reflexivity|]. split; [reflexivity|]. split; [reflexivity|].
  split. { intros x Hx. rewrite vset_other by auto. destruct ab; [apply vjoin_l|lia]. }
  split. { intros x Hx. rewrite vset_other by auto. apply vjoin_l. }
  split. { intros -> x Hx. rewrite vset_other by auto. apply vjoin_r. }
  split. { intros x. apply vjoin_r. }
  split. { intros -> x Hx. cbn [mview]. unfold vjoin, vset. destruct (Nat.eqb_spec x a); [congruence|]. destruct ab; lia. }
  intros x Hx. rewrite vset_other by auto. destruct ab; reflexivity.
Qed.

Lemma at_write_spec rb a v tv m tv' m' :
  at_write rb a v tv m = (tv', m') ->
  exists nm, am m' a = nm :: am m a /\ (forall b, b <> a -> am m' b = am m b) /\ mval nm = v /\
    nts m' = nts m /\ race m' = race m /\
    (forall x, x <> a -> cur tv' x = cur tv x) /\ (forall x, x <> a -> acq tv' x = acq tv x) /\
    (rb = true -> forall x, x <> a -> mview nm x = cur tv x) /\
    cur tv' a = length (am m a).
Proof.
  unfold at_write. intros H; inversion H; subst; clear H. eexists. cbn [am nts race cur acq mval mview].
  split. { unfold am_set. rewrite Nat.eqb_refl. reflexivity. }
  split. { intros b Hb. unfold am_set. destruct (Nat.eqb_spec b a); congruence. }
  split; [reflexivity|]. split; [reflexivity|]. split; [reflexivity|].
  split. { intros x Hx. now rewrite vset_other. }
  split. { intros x Hx. now rewrite vset_other. }
  split. { intros -> x Hx. cbn [mview]. now rewrite vset_other. }
  apply vset_same.
Qed.

Lemma na_write_spec tv m x tv' m' :
  na_write tv m x = (tv', m') ->
  am m' = am m /\ nts m' x = S (nts m x) /\ (forall y, y <> x -> nts m' y = nts m y) /\
  race m' = (race m || negb (fresh (cur tv) m x)) /\
  cur tv' x = S (nts m x) /\ (forall y, y <> x -> cur tv' y = cur tv y) /\ (forall y, y <> x -> acq tv' y = acq tv y).
Proof.
  unfold na_write. intros H; inversion H; subst; clear H. cbn [am nts race cur acq].
  split; [reflexivity|]. split; [apply vset_same|]. split; [intros; now apply vset_other|].
  split; [reflexivity|]. split; [apply vset_same|]. split; intros; now apply vset_other.
Qed.

Lemma fresh_true v m x : fresh v m x = true <-> nts m x <= v x.
Proof. unfold fresh. apply Nat.leb_le. Qed.
End Specs.

(* ================================================================================================ P1 *)
Module P1Proofs.
Import P1.

Definition good_msg (ms : msg bool) : Prop := mval ms = true -> 1 <= mview ms X.

Definition winv (b : bits) (w : waiter) : Prop :=
  (wp w = WSeen -> 1 <= cur (wtv w) X) /\
  (wp w = WRefused -> 1 <= acq (wtv w) X /\ (cfa b = true -> 1 <= cur (wtv w) X)).

Record Inv (b : bits) (c : cfg) : Prop := {
  i_nts : nts (mm c) X <= 1;
  i_nts0 : rp c = R0 -> nts (mm c) X = 0;
  i_r : rp c <> R0 -> 1 <= cur (rtv c) X;
  i_msgs : forall a, Forall good_msg (am (mm c) a);
  i_ws : Forall (winv b) (ws c);
  i_race : race (mm c) = false }.

Lemma inv_init b ks : Inv b (init ks).
Proof.
  constructor; cbn; try lia; try congruence; auto.
  - intros _. constructor; [|constructor]. intros H; discriminate.
  - apply Forall_forall. intros w Hw. apply in_map_iff in Hw. destruct Hw as (k & <- & _).
    split; cbn; intros H; discriminate.
Qed.

Lemma S_ne_X : S <> X. Proof. discriminate. Qed.
Lemma F_ne_X j : F j <> X. Proof. unfold F, X. lia. Qed.
Lemma X_ne_S : X <> S. Proof. discriminate. Qed.
Lemma X_ne_F j : X <> F j. Proof. unfold F, X. lia. Qed.

Lemma read_true_view (b : bits) ab a p tv (m : mem bool) tv' :
  (forall a, Forall good_msg (am m a)) -> a <> X ->
  at_read ab a p tv m = Some (true, tv') ->
  1 <= acq tv' X /\ (ab = true -> 1 <= cur tv' X) /\ (forall x, cur tv x <= cur tv' x).
Proof.
  intros G Na E. apply at_read_spec in E. destruct E as (ms & En & Ev & _ & Hc & _ & Ha & Hab & _).
  assert (Hg : good_msg ms) by (eapply Forall_nth_error; eauto).
  specialize (Hg Ev). split; [specialize (Ha X); lia|]. split; auto.
  intros ->. specialize (Hab eq_refl X). lia.
Qed.

Lemma winv_keep b k p tv : p <> WSeen -> p <> WRefused -> winv b (Wt k p tv).
Proof. intros A B. split; cbn; intros H; congruence. Qed.

Lemma step_inv b c ch : ok b = true -> Inv b c -> Inv b (step b c ch).
Proof.
  intros Hok I. unfold ok in Hok.
  repeat (apply andb_true_iff in Hok; destruct Hok as [Hok ?]).
  rename H into Hfwfa, H0 into Hfwa, H1 into Hfsr, H2 into Hfence, H3 into Hla. rename Hok into Hxr.
  pose proof I as I0. destruct I as [In1 In0 Ir Im Iw Irc].
  destruct ch as [who arg]. unfold step; cbn [fst snd]. destruct who as [|j].
  - (* resolver *)
    unfold step_resolver. destruct (rp c) eqn:Erp.
    + (* future::set *)
      destruct (na_write (rtv c) (mm c) X) as [tv m] eqn:E. apply na_write_spec in E.
      destruct E as (Eam & Ex & Eo & Er & Ec & _ & _).
      constructor; cbn [rp rtv ws mm].
      * rewrite Ex, In0 by auto. lia.
      * discriminate.
      * intros _. rewrite Ec. lia.
      * intros a. rewrite Eam. auto.
      * auto.
      * rewrite Er, Irc. cbn. unfold fresh. rewrite In0 by auto. reflexivity.
    + (* exchange *)
      destruct (rmw (xa b) (xr b) S (fun _ => true) (rtv c) (mm c)) as [[[v tv] m]|] eqn:E;
        [|exact I0].
      apply rmw_spec in E.
      destruct E as (ms & rest & nm & Ea & Ev & Ea' & Eo & Evn & En & Er & Hc & _ & _ & Hmv & Hrel & _).
      constructor; cbn [rp rtv ws mm].
      * rewrite En. auto.
      * discriminate.
      * intros _. specialize (Hc X X_ne_S). assert (1 <= cur (rtv c) X) by (apply Ir; congruence). lia.
      * intros a. destruct (Nat.eq_dec a S) as [->|Na].
        -- rewrite Ea'. constructor; [|apply Im]. intros _.
           specialize (Hrel Hxr X X_ne_S). assert (1 <= cur (rtv c) X) by (apply Ir; congruence). lia.
        -- rewrite Eo by auto. apply Im.
      * auto.
      * rewrite Er. auto.
    + (* walking the chain *)
      destruct (nth_error (ws c) arg) as [w|] eqn:Ew; [|exact I0].
      destruct (wp w) eqn:Ewp; try exact I0.
      destruct (wk w) eqn:Ewk; try exact I0.
      * (* coroutine continues on the resolver's thread *)
        constructor; cbn [rp rtv ws mm na_read am nts race]; auto.
        -- apply Forall_set_nth; auto. apply winv_keep; discriminate.
        -- rewrite Irc. cbn. unfold fresh. assert (1 <= cur (rtv c) X) by (apply Ir; congruence).
           apply negb_false_iff, Nat.leb_le. lia.
      * (* flag.store(true) *)
        destruct (at_write (fsr b) (F arg) true (rtv c) (mm c)) as [tv m] eqn:E. apply at_write_spec in E.
        destruct E as (nm & Ea' & Eo & Evn & En & Er & Hc & _ & Hrel & _).
        constructor; cbn [rp rtv ws mm].
        -- rewrite En; auto.
        -- congruence.
        -- intros _. rewrite Hc by apply X_ne_F. apply Ir. congruence.
        -- intros a. destruct (Nat.eq_dec a (F arg)) as [->|Na].
           ++ rewrite Ea'. constructor; [|apply Im]. intros _. rewrite (Hrel Hfsr) by apply X_ne_F. apply Ir. congruence.
           ++ rewrite Eo by auto. apply Im.
        -- apply Forall_set_nth; auto. apply winv_keep; discriminate.
        -- rewrite Er; auto.
  - (* waiter j *)
    unfold step_waiter. destruct (nth_error (ws c) j) as [w|] eqn:Ew; [|exact I0].
    assert (Hw : winv b w) by (eapply Forall_nth_error; eauto).
    assert (KEEP : forall w' , winv b w' -> Inv b (set_w c j w' (mm c))).
    { intros w' Hw'. constructor; cbn [set_w rp rtv ws mm]; auto. apply Forall_set_nth; auto. }
    destruct (wp w) eqn:Ewp.
    + (* W0 *)
      destruct arg as [|p].
      * destruct (wk w); [exact I0| |]; apply KEEP, winv_keep; discriminate.
      * destruct (at_read (la b) S p (wtv w) (mm c)) as [[[|] tv]|] eqn:E; [| |exact I0].
        -- apply KEEP. apply (read_true_view b) in E; auto using S_ne_X. destruct E as (_ & Hc & _).
           split; cbn; [intros _; auto|discriminate].
        -- apply KEEP, winv_keep; discriminate.
    + (* WSub *)
      destruct arg as [|p].
      * destruct (am (mm c) S) as [|[[|] mv] rest] eqn:Ea; try exact I0.
        destruct (rmw (csa b) (csr b) S (fun _ => false) (wtv w) (mm c)) as [[[v tv] m]|] eqn:E; [|exact I0].
        apply rmw_spec in E.
        destruct E as (ms & rest' & nm & _ & _ & Ea' & Eo & Evn & En & Er & _).
        constructor; cbn [set_w rp rtv ws mm]; auto.
        -- rewrite En; auto.
        -- rewrite En; auto.
        -- intros a. destruct (Nat.eq_dec a S) as [->|Na].
           ++ rewrite Ea'. constructor; [|apply Im]. intros H. rewrite Evn in H. discriminate.
           ++ rewrite Eo by auto. apply Im.
        -- apply Forall_set_nth; auto. apply winv_keep; discriminate.
        -- rewrite Er; auto.
      * destruct (at_read (cfa b) S p (wtv w) (mm c)) as [[[|] tv]|] eqn:E; [| |exact I0].
        -- apply KEEP. apply (read_true_view b) in E; auto using S_ne_X. destruct E as (Ha & Hc & _).
           split; cbn; [discriminate|intros _; auto].
        -- apply KEEP, winv_keep; discriminate.
    + (* WSubscribed *)
      destruct (wk w) eqn:Ewk; try exact I0.
      destruct (at_read (if force then fwfa b else fwa b) (F j) arg (wtv w) (mm c)) as [[[|] tv]|] eqn:E; [| |exact I0].
      * apply KEEP. apply (read_true_view b) in E; auto using F_ne_X. destruct E as (_ & Hc & _).
        split; cbn; [intros _; apply Hc; destruct force; auto|discriminate].
      * apply KEEP. apply winv_keep; discriminate.
    + (* WFlagged *)
      destruct (wk w) eqn:Ewk; try exact I0.
      destruct (at_read (if force then fwfa b else fwa b) (F j) arg (wtv w) (mm c)) as [[[|] tv]|] eqn:E; [| |exact I0].
      * apply KEEP. apply (read_true_view b) in E; auto using F_ne_X. destruct E as (_ & Hc & _).
        split; cbn; [intros _; apply Hc; destruct force; auto|discriminate].
      * apply KEEP. apply winv_keep; discriminate.
    + (* WRefused: fence *)
      apply KEEP. destruct Hw as [_ Hr]. destruct (Hr Ewp) as [Ha Hc].
      split; cbn; [intros _|discriminate].
      unfold fence. destruct (fa b) eqn:Efa; cbn [cur].
      * etransitivity; [|apply vjoin_r]. exact Ha.
      * apply Hc. rewrite orb_false_r in Hfence. exact Hfence.
    + (* WSeen: value() *)
      constructor; cbn [set_w rp rtv ws mm na_read am nts race]; auto.
      * apply Forall_set_nth; auto. apply winv_keep; discriminate.
      * rewrite Irc. cbn. destruct Hw as [Hs _]. specialize (Hs Ewp).
        apply negb_false_iff, Nat.leb_le. lia.
    + exact I0.
Qed.

Lemma run_inv b sched : ok b = true -> forall c, Inv b c -> Inv b (run b sched c).
Proof. intros Hok. induction sched as [|ch t IH]; intros c I; cbn; auto. apply IH, step_inv; auto. Qed.

Theorem p1_sufficient b : ok b = true -> forall ks sched, race (mm (run b sched (init ks))) = false.
Proof. intros Hok ks sched. apply (i_race b), run_inv; auto using inv_init. Qed.

(* whoever is about to read the value (ready() returned true, the subscription was refused, or wait() returned)
   has the resolver's write in its view: it reads the completely constructed value *)
Theorem p1_reader_sees_payload b : ok b = true -> forall ks sched j w,
  nth_error (ws (run b sched (init ks))) j = Some w -> wp w = WSeen ->
  nts (mm (run b sched (init ks))) X <= cur (wtv w) X /\ 1 <= cur (wtv w) X.
Proof.
  intros Hok ks sched j w E Hp.
  assert (I : Inv b (run b sched (init ks))) by (apply run_inv; auto using inv_init).
  assert (Hw : winv b w) by (eapply Forall_nth_error; [apply (i_ws b _ I)|eauto]).
  destruct Hw as [Hs _]. specialize (Hs Hp). pose proof (i_nts b _ I). lia.
Qed.

(* necessity: concrete schedules *)
Definition wit_poll : list choice := [(0,0); (0,0); (1,1); (1,0)].
Definition wit_refuse : list choice := [(0,0); (0,0); (1,0); (1,1); (1,0); (1,0)].
Definition wit_sync : list choice := [(1,0); (1,0); (0,0); (0,0); (0,0); (1,0); (1,0)].

Definition witness (b : bits) : list kind * list choice :=
  if negb (xr b && la b) then ([Poll], wit_poll)
  else if negb (cfa b || fa b) then ([Coro], wit_refuse)
  else if negb (fsr b && fwa b) then ([Sync false], wit_sync)
  else ([Sync true], wit_sync).

Theorem p1_necessary b : ok b = false ->
  race (mm (run b (snd (witness b)) (init (fst (witness b))))) = true.
Proof.
  destruct b as [a1 a2 a3 a4 a5 a6 a7 a8 a9 a10].
  destruct a2, a3, a6, a7, a8, a9, a10; cbn [ok xr la cfa fa fsr fwa fwfa andb orb]; intros H; try discriminate H;
    destruct a1, a4, a5; vm_compute; reflexivity.
Qed.

Theorem p1_exact : forall b,
  (ok b = true -> forall ks sched, race (mm (run b sched (init ks))) = false) /\
  (ok b = false -> exists ks sched, race (mm (run b sched (init ks))) = true).
Proof.
  intros b. split; [apply p1_sufficient|]. intros H. eexists _, _. apply (p1_necessary b H).
Qed.
End P1Proofs.
