(* RAProofs.v — C03 part (a): for every protocol Pi of RADefs.v
     pi_sufficient : ok b = true  -> for every number of threads and every schedule, no race state is reachable
     pi_necessary  : ok b = false -> a concrete schedule reaches a race
   so the boolean side condition on the memory orders is exact. *)
From Cocls Require Import Base BaseProofs RADefs.
Require Import Lia.

(* ------------------------------------------------------------------------------------------------ lists *)
Lemma Forall_set_nth {A} (P : A -> Prop) l i x : Forall P l -> P x -> Forall P (set_nth l i x).
Proof.
  intros H Hx. revert i. induction H as [|h t Hh Ht IH]; intros i; cbn [set_nth].
  - destruct i; constructor.
  - destruct i; constructor; auto.
Qed.

Lemma Forall_nth_error {A} (P : A -> Prop) l i x : Forall P l -> nth_error l i = Some x -> P x.
Proof. intros H E. rewrite Forall_forall in H. apply H. eapply nth_error_In; eauto. Qed.

Lemma nth_error_lt {A} (l : list A) i x : nth_error l i = Some x -> i < length l.
Proof. intros E. apply nth_error_Some. congruence. Qed.

Lemma set_nth_length {A} (l : list A) i x : length (set_nth l i x) = length l.
Proof. revert i; induction l as [|h t IH]; intros [|i]; cbn [set_nth length]; auto. Qed.

Lemma nth_set_nth {A} (l : list A) i j x y :
  nth_error l i = Some y -> nth_error (set_nth l i x) j = if Nat.eqb j i then Some x else nth_error l j.
Proof.
  intros E. destruct (Nat.eqb_spec j i) as [->|N].
  - apply nth_error_set_nth_same. eapply nth_error_lt; eauto.
  - apply nth_error_set_nth_other. congruence.
Qed.

(* ------------------------------------------------------------------------------------------------ views *)
Lemma vset_same v x n : vset v x n x = n.
Proof. unfold vset. now rewrite Nat.eqb_refl. Qed.
Lemma vset_other v x n y : y <> x -> vset v x n y = v y.
Proof. unfold vset. intros H. destruct (Nat.eqb_spec y x); congruence. Qed.
Lemma vup_ge v x n y : v y <= vup v x n y.
Proof. unfold vup. destruct (Nat.eqb y x); lia. Qed.
Lemma vup_other v x n y : y <> x -> vup v x n y = v y.
Proof. unfold vup. intros H. destruct (Nat.eqb_spec y x); congruence. Qed.
Lemma vjoin_l a b x : a x <= vjoin a b x. Proof. unfold vjoin; lia. Qed.
Lemma vjoin_r a b x : b x <= vjoin a b x. Proof. unfold vjoin; lia. Qed.

Section Specs.
Context {V : Type}.
Implicit Types (m : mem V) (tv : tview).

Lemma at_read_spec ab a p tv m v tv' :
  at_read ab a p tv m = Some (v, tv') ->
  exists ms, nth_error (am m a) p = Some ms /\ mval ms = v /\ cur tv a <= ts_of (am m a) p /\
    (forall x, cur tv x <= cur tv' x) /\ (forall x, acq tv x <= acq tv' x) /\
    (forall x, mview ms x <= acq tv' x) /\ (ab = true -> forall x, mview ms x <= cur tv' x) /\
    ts_of (am m a) p <= cur tv' a /\
    (forall x, x <> a -> cur tv' x = if ab then Nat.max (cur tv x) (mview ms x) else cur tv x).
Proof.
  unfold at_read. destruct (nth_error (am m a) p) as [ms|] eqn:E; [|discriminate].
  destruct (Nat.leb_spec (cur tv a) (ts_of (am m a) p)) as [L|L]; [|discriminate].
  intros H; inversion H; subst; clear H. exists ms. cbn [cur acq].
  repeat split; auto.
  - intros x. etransitivity; [|apply vup_ge]. destruct ab; [apply vjoin_l|lia].
  - intros x. etransitivity; [|apply vup_ge]. apply vjoin_l.
  - intros x. etransitivity; [|apply vup_ge]. apply vjoin_r.
  - intros -> x. etransitivity; [|apply vup_ge]. apply vjoin_r.
  - unfold vup. rewrite Nat.eqb_refl. lia.
  - intros x Hx. rewrite vup_other by auto. destruct ab; reflexivity.
Qed.

Lemma rmw_spec ab rb a f tv m v tv' m' :
  rmw ab rb a f tv m = Some (v, tv', m') ->
  exists ms rest nm, am m a = ms :: rest /\ mval ms = v /\
    am m' a = nm :: am m a /\ (forall b, b <> a -> am m' b = am m b) /\ mval nm = f v /\
    nts m' = nts m /\ race m' = race m /\
    (forall x, x <> a -> cur tv x <= cur tv' x) /\ (forall x, x <> a -> acq tv x <= acq tv' x) /\
    (ab = true -> forall x, x <> a -> mview ms x <= cur tv' x) /\
    (forall x, mview ms x <= mview nm x) /\
    (rb = true -> forall x, x <> a -> cur tv x <= mview nm x) /\
    (forall x, x <> a -> cur tv' x = if ab then Nat.max (cur tv x) (mview ms x) else cur tv x).
Proof.
  unfold rmw. destruct (am m a) as [|ms rest] eqn:E; [discriminate|].
  intros H; inversion H; subst; clear H. exists ms, rest. eexists. cbn [am nts race cur acq mval mview].
  split; [reflexivity|]. split; [reflexivity|]. split.
  { unfold am_set. rewrite Nat.eqb_refl. reflexivity. }
  split. { intros b Hb. unfold am_set. destruct (Nat.eqb_spec b a); congruence. }
  split; [reflexivity|]. split; [reflexivity|]. split; [reflexivity|].
  split. { intros x Hx. rewrite vset_other by auto. destruct ab; [apply vjoin_l|lia]. }
  split. { intros x Hx. rewrite vset_other by auto. apply vjoin_l. }
  split. { intros -> x Hx. rewrite vset_other by auto. apply vjoin_r. }
  split. { intros x. apply vjoin_r. }
  split. { intros -> x Hx. cbn [mview]. unfold vjoin, vset. destruct (Nat.eqb_spec x a); [congruence|]. destruct ab; lia. }
  intros x Hx. rewrite vset_other by auto. destruct ab; reflexivity.
Qed.

Lemma at_write_spec rb a v tv m tv' m' :
  at_write rb a v tv m = (tv', m') ->
  exists nm, am m' a = nm :: am m a /\ (forall b, b <> a -> am m' b = am m b) /\ mval nm = v /\
    nts m' = nts m /\ race m' = race m /\
    (forall x, x <> a -> cur tv' x = cur tv x) /\ (forall x, x <> a -> acq tv' x = acq tv x) /\
    (rb = true -> forall x, x <> a -> mview nm x = cur tv x) /\
    cur tv' a = length (am m a).
Proof.
  unfold at_write. intros H; inversion H; subst; clear H. eexists. cbn [am nts race cur acq mval mview].
  split. { unfold am_set. rewrite Nat.eqb_refl. reflexivity. }
  split. { intros b Hb. unfold am_set. destruct (Nat.eqb_spec b a); congruence. }
  split; [reflexivity|]. split; [reflexivity|]. split; [reflexivity|].
  split. { intros x Hx. now rewrite vset_other. }
  split. { intros x Hx. now rewrite vset_other. }
  split. { intros -> x Hx. cbn [mview]. now rewrite vset_other. }
  apply vset_same.
Qed.

Lemma na_write_spec tv m x tv' m' :
  na_write tv m x = (tv', m') ->
  am m' = am m /\ nts m' x = S (nts m x) /\ (forall y, y <> x -> nts m' y = nts m y) /\
  race m' = (race m || negb (fresh (cur tv) m x)) /\
  cur tv' x = S (nts m x) /\ (forall y, y <> x -> cur tv' y = cur tv y) /\ (forall y, y <> x -> acq tv' y = acq tv y).
Proof.
  unfold na_write. intros H; inversion H; subst; clear H. cbn [am nts race cur acq].
  split; [reflexivity|]. split; [apply vset_same|]. split; [intros; now apply vset_other|].
  split; [reflexivity|]. split; [apply vset_same|]. split; intros; now apply vset_other.
Qed.

Lemma fresh_true v m x : fresh v m x = true <-> nts m x <= v x.
Proof. unfold fresh. apply Nat.leb_le. Qed.
End Specs.

(* ================================================================================================ P1 *)
Module P1Proofs.
Import P1.

Definition good_msg (ms : msg bool) : Prop := mval ms = true -> 1 <= mview ms X.

Definition winv (b : bits) (w : waiter) : Prop :=
  (wp w = WSeen -> 1 <= cur (wtv w) X) /\
  (wp w = WRefused -> 1 <= acq (wtv w) X /\ (cfa b = true -> 1 <= cur (wtv w) X)).

Record Inv (b : bits) (c : cfg) : Prop := {
  i_nts : nts (mm c) X <= 1;
  i_nts0 : rp c = R0 -> nts (mm c) X = 0;
  i_r : rp c <> R0 -> 1 <= cur (rtv c) X;
  i_msgs : forall a, Forall good_msg (am (mm c) a);
  i_ws : Forall (winv b) (ws c);
  i_race : race (mm c) = false }.

Lemma inv_init b ks : Inv b (init ks).
Proof.
  constructor; cbn; try lia; try congruence; auto.
  - intros _. constructor; [|constructor]. intros H; discriminate.
  - apply Forall_forall. intros w Hw. apply in_map_iff in Hw. destruct Hw as (k & <- & _).
    split; cbn; intros H; discriminate.
Qed.

Lemma S_ne_X : S <> X. Proof. discriminate. Qed.
Lemma F_ne_X j : F j <> X. Proof. unfold F, X. lia. Qed.
Lemma X_ne_S : X <> S. Proof. discriminate. Qed.
Lemma X_ne_F j : X <> F j. Proof. unfold F, X. lia. Qed.

Lemma read_true_view (b : bits) ab a p tv (m : mem bool) tv' :
  (forall a, Forall good_msg (am m a)) -> a <> X ->
  at_read ab a p tv m = Some (true, tv') ->
  1 <= acq tv' X /\ (ab = true -> 1 <= cur tv' X) /\ (forall x, cur tv x <= cur tv' x).
Proof.
  intros G Na E. apply at_read_spec in E. destruct E as (ms & En & Ev & _ & Hc & _ & Ha & Hab & _).
  assert (Hg : good_msg ms) by (eapply Forall_nth_error; eauto).
  specialize (Hg Ev). split; [specialize (Ha X); lia|]. split; auto.
  intros ->. specialize (Hab eq_refl X). lia.
Qed.

Lemma winv_keep b k p tv : p <> WSeen -> p <> WRefused -> winv b (Wt k p tv).
Proof. intros A B. split; cbn; intros H; congruence. Qed.

Lemma step_inv b c ch : ok b = true -> Inv b c -> Inv b (step b c ch).
Proof.
  intros Hok I. unfold ok in Hok.
  repeat (apply andb_true_iff in Hok; destruct Hok as [Hok ?]).
  rename H into Hfwfa, H0 into Hfwa, H1 into Hfsr, H2 into Hfence, H3 into Hla. rename Hok into Hxr.
  pose proof I as I0. destruct I as [In1 In0 Ir Im Iw Irc].
  destruct ch as [who arg]. unfold step; cbn [fst snd]. destruct who as [|j].
  - (* resolver *)
    unfold step_resolver. destruct (rp c) eqn:Erp.
    + (* future::set *)
      destruct (na_write (rtv c) (mm c) X) as [tv m] eqn:E. apply na_write_spec in E.
      destruct E as (Eam & Ex & Eo & Er & Ec & _ & _).
      constructor; cbn [rp rtv ws mm].
      * rewrite Ex, In0 by auto. lia.
      * discriminate.
      * intros _. rewrite Ec. lia.
      * intros a. rewrite Eam. auto.
      * auto.
      * rewrite Er, Irc. cbn. unfold fresh. rewrite In0 by auto. reflexivity.
    + (* exchange *)
      destruct (rmw (xa b) (xr b) S (fun _ => true) (rtv c) (mm c)) as [[[v tv] m]|] eqn:E;
        [|exact I0].
      apply rmw_spec in E.
      destruct E as (ms & rest & nm & Ea & Ev & Ea' & Eo & Evn & En & Er & Hc & _ & _ & Hmv & Hrel & _).
      constructor; cbn [rp rtv ws mm].
      * rewrite En. auto.
      * discriminate.
      * intros _. specialize (Hc X X_ne_S). assert (1 <= cur (rtv c) X) by (apply Ir; congruence). lia.
      * intros a. destruct (Nat.eq_dec a S) as [->|Na].
        -- rewrite Ea'. constructor; [|apply Im]. intros _.
           specialize (Hrel Hxr X X_ne_S). assert (1 <= cur (rtv c) X) by (apply Ir; congruence). lia.
        -- rewrite Eo by auto. apply Im.
      * auto.
      * rewrite Er. auto.
    + (* walking the chain *)
      destruct (nth_error (ws c) arg) as [w|] eqn:Ew; [|exact I0].
      destruct (wp w) eqn:Ewp; try exact I0.
      destruct (wk w) eqn:Ewk; try exact I0.
      * (* coroutine continues on the resolver's thread *)
        constructor; cbn [rp rtv ws mm na_read am nts race]; auto.
        -- apply Forall_set_nth; auto. apply winv_keep; discriminate.
        -- rewrite Irc. cbn. unfold fresh. assert (1 <= cur (rtv c) X) by (apply Ir; congruence).
           apply negb_false_iff, Nat.leb_le. lia.
      * (* flag.store(true) *)
        destruct (at_write (fsr b) (F arg) true (rtv c) (mm c)) as [tv m] eqn:E. apply at_write_spec in E.
        destruct E as (nm & Ea' & Eo & Evn & En & Er & Hc & _ & Hrel & _).
        constructor; cbn [rp rtv ws mm].
        -- rewrite En; auto.
        -- congruence.
        -- intros _. rewrite Hc by apply X_ne_F. apply Ir. congruence.
        -- intros a. destruct (Nat.eq_dec a (F arg)) as [->|Na].
           ++ rewrite Ea'. constructor; [|apply Im]. intros _. rewrite (Hrel Hfsr) by apply X_ne_F. apply Ir. congruence.
           ++ rewrite Eo by auto. apply Im.
        -- apply Forall_set_nth; auto. apply winv_keep; discriminate.
        -- rewrite Er; auto.
  - (* waiter j *)
    unfold step_waiter. destruct (nth_error (ws c) j) as [w|] eqn:Ew; [|exact I0].
    assert (Hw : winv b w) by (eapply Forall_nth_error; eauto).
    assert (KEEP : forall w' , winv b w' -> Inv b (set_w c j w' (mm c))).
    { intros w' Hw'. constructor; cbn [set_w rp rtv ws mm]; auto. apply Forall_set_nth; auto. }
    destruct (wp w) eqn:Ewp.
    + (* W0 *)
      destruct arg as [|p].
      * destruct (wk w); [exact I0| |]; apply KEEP, winv_keep; discriminate.
      * destruct (at_read (la b) S p (wtv w) (mm c)) as [[[|] tv]|] eqn:E; [| |exact I0].
        -- apply KEEP. apply (read_true_view b) in E; auto using S_ne_X. destruct E as (_ & Hc & _).
           split; cbn; [intros _; auto|discriminate].
        -- apply KEEP, winv_keep; discriminate.
    + (* WSub *)
      destruct arg as [|p].
      * destruct (am (mm c) S) as [|[[|] mv] rest] eqn:Ea; try exact I0.
        destruct (rmw (csa b) (csr b) S (fun _ => false) (wtv w) (mm c)) as [[[v tv] m]|] eqn:E; [|exact I0].
        apply rmw_spec in E.
        destruct E as (ms & rest' & nm & _ & _ & Ea' & Eo & Evn & En & Er & _).
        constructor; cbn [set_w rp rtv ws mm]; auto.
        -- rewrite En; auto.
        -- rewrite En; auto.
        -- intros a. destruct (Nat.eq_dec a S) as [->|Na].
           ++ rewrite Ea'. constructor; [|apply Im]. intros H. rewrite Evn in H. discriminate.
           ++ rewrite Eo by auto. apply Im.
        -- apply Forall_set_nth; auto. apply winv_keep; discriminate.
        -- rewrite Er; auto.
      * destruct (at_read (cfa b) S p (wtv w) (mm c)) as [[[|] tv]|] eqn:E; [| |exact I0].
        -- apply KEEP. apply (read_true_view b) in E; auto using S_ne_X. destruct E as (Ha & Hc & _).
           split; cbn; [discriminate|intros _; auto].
        -- apply KEEP, winv_keep; discriminate.
    + (* WSubscribed *)
      destruct (wk w) eqn:Ewk; try exact I0.
      destruct (at_read (if force then fwfa b else fwa b) (F j) arg (wtv w) (mm c)) as [[[|] tv]|] eqn:E; [| |exact I0].
      * apply KEEP. apply (read_true_view b) in E; auto using F_ne_X. destruct E as (_ & Hc & _).
        split; cbn; [intros _; apply Hc; destruct force; auto|discriminate].
      * apply KEEP. apply winv_keep; discriminate.
    + (* WFlagged *)
      destruct (wk w) eqn:Ewk; try exact I0.
      destruct (at_read (if force then fwfa b else fwa b) (F j) arg (wtv w) (mm c)) as [[[|] tv]|] eqn:E; [| |exact I0].
      * apply KEEP. apply (read_true_view b) in E; auto using F_ne_X. destruct E as (_ & Hc & _).
        split; cbn; [intros _; apply Hc; destruct force; auto|discriminate].
      * apply KEEP. apply winv_keep; discriminate.
    + (* WRefused: fence *)
      apply KEEP. destruct Hw as [_ Hr]. destruct (Hr Ewp) as [Ha Hc].
      split; cbn; [intros _|discriminate].
      unfold fence. destruct (fa b) eqn:Efa; cbn [cur].
      * etransitivity; [|apply vjoin_r]. exact Ha.
      * apply Hc. rewrite orb_false_r in Hfence. exact Hfence.
    + (* WSeen: value() *)
      constructor; cbn [set_w rp rtv ws mm na_read am nts race]; auto.
      * apply Forall_set_nth; auto. apply winv_keep; discriminate.
      * rewrite Irc. cbn. destruct Hw as [Hs _]. specialize (Hs Ewp).
        apply negb_false_iff, Nat.leb_le. lia.
    + exact I0.
Qed.

Lemma run_inv b sched : ok b = true -> forall c, Inv b c -> Inv b (run b sched c).
Proof. intros Hok. induction sched as [|ch t IH]; intros c I; cbn; auto. apply IH, step_inv; auto. Qed.

Theorem p1_sufficient b : ok b = true -> forall ks sched, race (mm (run b sched (init ks))) = false.
Proof. intros Hok ks sched. apply (i_race b), run_inv; auto using inv_init. Qed.

(* whoever is about to read the value (ready() returned true, the subscription was refused, or wait() returned)
   has the resolver's write in its view: it reads the completely constructed value *)
Theorem p1_reader_sees_payload b : ok b = true -> forall ks sched j w,
  nth_error (ws (run b sched (init ks))) j = Some w -> wp w = WSeen ->
  nts (mm (run b sched (init ks))) X <= cur (wtv w) X /\ 1 <= cur (wtv w) X.
Proof.
  intros Hok ks sched j w E Hp.
  assert (I : Inv b (run b sched (init ks))) by (apply run_inv; auto using inv_init).
  assert (Hw : winv b w) by (eapply Forall_nth_error; [apply (i_ws b _ I)|eauto]).
  destruct Hw as [Hs _]. specialize (Hs Hp). pose proof (i_nts b _ I). lia.
Qed.

(* necessity: concrete schedules *)
Definition wit_poll : list choice := [(0,0); (0,0); (1,1); (1,0)].
Definition wit_refuse : list choice := [(0,0); (0,0); (1,0); (1,1); (1,0); (1,0)].
Definition wit_sync : list choice := [(1,0); (1,0); (0,0); (0,0); (0,0); (1,0); (1,0)].

Definition witness (b : bits) : list kind * list choice :=
  if negb (xr b && la b) then ([Poll], wit_poll)
  else if negb (cfa b || fa b) then ([Coro], wit_refuse)
  else if negb (fsr b && fwa b) then ([Sync false], wit_sync)
  else ([Sync true], wit_sync).

Theorem p1_necessary b : ok b = false ->
  race (mm (run b (snd (witness b)) (init (fst (witness b))))) = true.
Proof.
  destruct b as [a1 a2 a3 a4 a5 a6 a7 a8 a9 a10].
  destruct a2, a3, a6, a7, a8, a9, a10; cbn [ok xr la cfa fa fsr fwa fwfa andb orb]; intros H; try discriminate H;
    destruct a1, a4, a5; vm_compute; reflexivity.
Qed.

Theorem p1_exact : forall b,
  (ok b = true -> forall ks sched, race (mm (run b sched (init ks))) = false) /\
  (ok b = false -> exists ks sched, race (mm (run b sched (init ks))) = true).
Proof.
  intros b. split; [apply p1_sufficient|]. intros H. eexists _, _. apply (p1_necessary b H).
Qed.
End P1Proofs.

(* ================================================================================================ P4 *)
Module P4Proofs.
Import P4.

Definition owner (t : thr) : Prop := tp t <> T0.

Record Inv (c : cfg) : Prop := {
  i_ne : exists ms rest, am (mm c) B = ms :: rest /\
         (mval ms = false -> Forall (fun t => tp t = T0) (ths c) /\ nts (mm c) D <= mview ms D);
  i_uniq : forall i j ti tj, nth_error (ths c) i = Some ti -> nth_error (ths c) j = Some tj ->
           owner ti -> owner tj -> i = j;
  i_own : Forall (fun t => owner t -> nts (mm c) D <= cur (ttv t) D) (ths c);
  i_race : race (mm c) = false }.

Lemma B_ne_D : B <> D. Proof. discriminate. Qed.
Lemma D_ne_B : D <> B. Proof. discriminate. Qed.

Lemma inv_init n : Inv (init n).
Proof.
  constructor; cbn.
  - eexists _, _. split; [reflexivity|]. intros _. split; [|cbn; lia].
    apply Forall_forall. intros t Ht. apply repeat_spec in Ht. subst. reflexivity.
  - intros i j ti tj Ei _ Hi. apply nth_error_In, repeat_spec in Ei. subst. exfalso. apply Hi. reflexivity.
  - apply Forall_forall. intros t Ht. apply repeat_spec in Ht. subst. intros H. exfalso. apply H. reflexivity.
  - reflexivity.
Qed.

Lemma all_T0_no_owner (l : list thr) i t : Forall (fun t => tp t = T0) l -> nth_error l i = Some t -> owner t -> False.
Proof. intros F E O. apply O. eapply Forall_nth_error in F; eauto. Qed.

Lemma step_inv b c t : ok b = true -> Inv c -> Inv (step b c t).
Proof.
  intros Hok I. unfold ok in Hok. apply andb_true_iff in Hok. destruct Hok as [Hxa Hsr].
  pose proof I as I0. destruct I as [(ms & rest & Ea & Hfalse) Iu Io Irc].
  unfold step. destruct (nth_error (ths c) t) as [[p tv]|] eqn:Et; [|exact I0].
  assert (Lt : t < length (ths c)) by (eapply nth_error_lt; eauto).
  destruct p.
  - (* T0: exchange *)
    destruct (rmw (xa b) (xr b) B (fun _ => true) tv (mm c)) as [[[v tv'] m]|] eqn:E; [|exact I0].
    apply rmw_spec in E.
    destruct E as (ms' & rest' & nm & Ea0 & Ev & Ea' & Eo & Evn & En & Er & Hc & _ & Hacq & Hmv & _ & _).
    rewrite Ea in Ea0. inversion Ea0; subst ms' rest'. clear Ea0.
    destruct v.
    + (* busy: heap path, nothing changes but the message *)
      constructor; cbn [ths mm].
      * rewrite Ea'. eexists _, _. split; [reflexivity|]. rewrite Evn. discriminate.
      * intros i j ti tj Ei Ej Oi Oj.
        rewrite (nth_set_nth _ _ _ _ _ Et) in Ei. rewrite (nth_set_nth _ _ _ _ _ Et) in Ej.
        destruct (Nat.eqb_spec i t) as [->|Ni]; [inversion Ei; subst; exfalso; apply Oi; reflexivity|].
        destruct (Nat.eqb_spec j t) as [->|Nj]; [inversion Ej; subst; exfalso; apply Oj; reflexivity|].
        eapply Iu; eauto.
      * apply Forall_set_nth.
        -- rewrite En. exact Io.
        -- intros O. exfalso. apply O. reflexivity.
      * rewrite Er. exact Irc.
    + (* got the shared block *)
      destruct (Hfalse Ev) as [Hall Hview].
      constructor; cbn [ths mm].
      * rewrite Ea'. eexists _, _. split; [reflexivity|]. rewrite Evn. discriminate.
      * intros i j ti tj Ei Ej Oi Oj.
        rewrite (nth_set_nth _ _ _ _ _ Et) in Ei. rewrite (nth_set_nth _ _ _ _ _ Et) in Ej.
        destruct (Nat.eqb_spec i t) as [->|Ni]; destruct (Nat.eqb_spec j t) as [->|Nj]; auto.
        -- exfalso. eapply all_T0_no_owner; eauto.
        -- exfalso. eapply all_T0_no_owner; eauto.
        -- exfalso. eapply all_T0_no_owner; eauto.
      * apply Forall_set_nth.
        -- rewrite En. exact Io.
        -- intros _. cbn [ttv]. rewrite En. specialize (Hacq Hxa D D_ne_B). lia.
      * rewrite Er. exact Irc.
  - (* T1: use the block *)
    destruct (na_write tv (mm c) D) as [tv' m] eqn:E. apply na_write_spec in E.
    destruct E as (Eam & Ex & Eo & Er & Ec & _ & _).
    assert (Ot : owner (Th T1 tv)) by (intros H; discriminate).
    assert (Hfr : nts (mm c) D <= cur tv D) by (eapply Forall_nth_error in Io; eauto; apply Io; auto).
    constructor; cbn [ths mm].
    + rewrite Eam, Ea. eexists _, _. split; [reflexivity|]. intros Hv. destruct (Hfalse Hv) as [Hall _].
      exfalso. eapply all_T0_no_owner; eauto.
    + intros i j ti tj Ei Ej Oi Oj.
      rewrite (nth_set_nth _ _ _ _ _ Et) in Ei. rewrite (nth_set_nth _ _ _ _ _ Et) in Ej.
      destruct (Nat.eqb_spec i t) as [->|Ni]; destruct (Nat.eqb_spec j t) as [->|Nj]; auto.
      * symmetry. eapply (Iu j t); eauto.
      * eapply (Iu i t); eauto.
      * eapply Iu; eauto.
    + (* everybody else is not an owner *)
      apply Forall_forall. intros x Hx. apply In_nth_error in Hx. destruct Hx as [i Ei].
      rewrite (nth_set_nth _ _ _ _ _ Et) in Ei. destruct (Nat.eqb_spec i t) as [Hi|Ni].
      * inversion Ei; subst x. intros _. cbn [ttv]. rewrite Ec, Ex. lia.
      * intros Ox. exfalso. apply Ni. eapply (Iu i t); eauto.
    + rewrite Er, Irc. cbn. apply negb_false_iff, Nat.leb_le. exact Hfr.
  - (* T2: release *)
    destruct (at_write (sr b) B false tv (mm c)) as [tv' m] eqn:E. apply at_write_spec in E.
    destruct E as (nm & Ea' & Eo & Evn & En & Er & Hc & _ & Hrel & _).
    assert (Ot : owner (Th T2 tv)) by (intros H; discriminate).
    assert (Hfr : nts (mm c) D <= cur tv D) by (eapply Forall_nth_error in Io; eauto; apply Io; auto).
    assert (Hothers : forall i x, nth_error (ths c) i = Some x -> i <> t -> tp x = T0).
    { intros i x Ei Ni. destruct (tp x) eqn:Ep; auto; exfalso; apply Ni; eapply (Iu i t); eauto;
        intros H; rewrite H in Ep; discriminate. }
    assert (Hall : Forall (fun x => tp x = T0) (set_nth (ths c) t (Th T0 tv'))).
    { apply Forall_forall. intros x Hx. apply In_nth_error in Hx. destruct Hx as [i Ei].
      rewrite (nth_set_nth _ _ _ _ _ Et) in Ei. destruct (Nat.eqb_spec i t) as [Hi|Ni].
      - inversion Ei; reflexivity.
      - eapply Hothers; eauto. }
    constructor; cbn [ths mm].
    + rewrite Ea'. eexists _, _. split; [reflexivity|]. intros _. split; auto.
      rewrite En, (Hrel Hsr D D_ne_B). exact Hfr.
    + intros i j ti tj Ei Ej Oi Oj. exfalso. eapply all_T0_no_owner; eauto.
    + apply Forall_forall. intros x Hx Ox. exfalso. apply Ox. rewrite Forall_forall in Hall. auto.
    + rewrite Er. exact Irc.
Qed.

Lemma run_inv b sched : ok b = true -> forall c, Inv c -> Inv (run b sched c).
Proof. intros Hok. induction sched as [|ch t IH]; intros c I; cbn; auto. apply IH, step_inv; auto. Qed.

Theorem p4_sufficient b : ok b = true -> forall n sched, race (mm (run b sched (init n))) = false.
Proof. intros Hok n sched. apply i_race, run_inv; auto using inv_init. Qed.

(* mutual exclusion on the shared block holds for every order (RMW atomicity); the orders only matter for the data *)
Definition witness : list nat := [0; 0; 0; 1; 1].
Theorem p4_necessary b : ok b = false -> race (mm (run b witness (init 2))) = true.
Proof. destruct b as [a1 a2 a3]. destruct a1, a2, a3; cbn [ok xa sr andb]; intros H; try discriminate H; vm_compute; reflexivity. Qed.

Theorem p4_exact : forall b,
  (ok b = true -> forall n sched, race (mm (run b sched (init n))) = false) /\
  (ok b = false -> exists n sched, race (mm (run b sched (init n))) = true).
Proof. intros b. split; [apply p4_sufficient|]. intros H. exists 2, witness. apply p4_necessary; auto. Qed.
End P4Proofs.

(* ================================================================================================ P2 *)
Module P2Proofs.
Import P2.

(* ghost: where the token of node j is *)
Inductive place := PSub | PSlot | PWalk (k : nat) | PDone.

Definition walk_of (cn : cons) : list nat := match walk cn with Some l => l | None => [] end.
Definition pre_pub (p : spc) : bool := match p with S2 => false | _ => true end.

Record Inv (own : nat -> place) (c : cfg) : Prop := {
  i_slot : exists ms rest, am (mm c) S = ms :: rest /\ NoDup (mval ms) /\
           (forall j, In j (mval ms) -> own j = PSlot /\ nts (mm c) (N j) <= mview ms (N j));
  i_sub : forall j s, nth_error (subs c) j = Some s ->
          if pre_pub (sp s) then own j = PSub /\ nts (mm c) (N j) <= cur (stv s) (N j) else own j <> PSub;
  i_cons : forall k cn, nth_error (conss c) k = Some cn ->
           NoDup (walk_of cn) /\
           (forall j, In j (walk_of cn) -> own j = PWalk k /\ nts (mm c) (N j) <= cur (ctv cn) (N j));
  i_race : race (mm c) = false }.

Lemma N_ne_S j : N j <> S. Proof. unfold N, S. lia. Qed.
Lemma N_inj i j : N i = N j -> i = j. Proof. unfold N. lia. Qed.

Lemma inv_init ns nc : Inv (fun _ => PSub) (init ns nc).
Proof.
  constructor; cbn.
  - eexists _, _. split; [reflexivity|]. cbn. split; [constructor|]. intros j [].
  - intros j s E. apply nth_error_In, repeat_spec in E. subst. cbn. split; [reflexivity|lia].
  - intros k cn E. apply nth_error_In, repeat_spec in E. subst. cbn. split; [constructor|]. intros j [].
  - reflexivity.
Qed.

Definition pset (own : nat -> place) (j : nat) (p : place) : nat -> place := fun i => if Nat.eqb i j then p else own i.
Lemma pset_same own j p : pset own j p j = p. Proof. unfold pset. now rewrite Nat.eqb_refl. Qed.
Lemma pset_other own j p i : i <> j -> pset own j p i = own i.
Proof. unfold pset. intros H. destruct (Nat.eqb_spec i j); congruence. Qed.

(* a thread that owns the token of node j writes it: every other claim is about a different node *)
Lemma write_own_node own c j tv tv' m (P : place) :
  Inv own c -> own j = P -> (P = PSub \/ exists k, P = PWalk k) ->
  nts (mm c) (N j) <= cur tv (N j) ->
  na_write tv (mm c) (N j) = (tv', m) ->
  race m = false /\ am m = am (mm c) /\ cur tv' (N j) = nts m (N j) /\
  (forall i, i <> j -> nts m (N i) = nts (mm c) (N i)) /\
  (forall i, i <> j -> cur tv' (N i) = cur tv (N i)).
Proof.
  intros I Ho HP Hf E. apply na_write_spec in E. destruct E as (Eam & Ex & Eo & Er & Ec & Eco & _).
  split. { rewrite Er, (i_race _ _ I). cbn. apply negb_false_iff, Nat.leb_le. exact Hf. }
  split; auto. split. { rewrite Ec, Ex. reflexivity. }
  split; intros i Hi; [apply Eo|apply Eco]; intros H; apply Hi, N_inj; auto.
Qed.

Lemma step_inv b c ch own : ok b = true -> Inv own c -> exists own', Inv own' (step b c ch).
Proof.
  intros Hok I. unfold ok in Hok. apply andb_true_iff in Hok. destruct Hok as [Hcsr Hxa].
  pose proof I as I0. destruct I as [(ms & rest & Ea & Hnd & Hslot) Isub Icons Irc].
  destruct ch as [j|j p|j|k|k]; cbn [step].
  - (* ChWrite *)
    destruct (nth_error (subs c) j) as [[[| |] tv]|] eqn:Ej; try (exists own; exact I0).
    destruct (na_write tv (mm c) (N j)) as [tv' m] eqn:E.
    pose proof (Isub _ _ Ej) as Hs. cbn [pre_pub sp stv] in Hs. destruct Hs as [Ho Hf].
    destruct (write_own_node own c j tv tv' m PSub I0 Ho (or_introl eq_refl) Hf E) as (Rc & Eam & Ecur & Hn & Hcu).
    exists own. constructor; cbn [subs conss mm].
    + rewrite Eam, Ea. eexists _, _. split; [reflexivity|]. split; auto. intros i Hi.
      destruct (Hslot _ Hi) as [Hoi Hfi]. split; auto. rewrite Hn; auto. intros ->. congruence.
    + intros i s Ei. rewrite (nth_set_nth _ _ _ _ _ Ej) in Ei. destruct (Nat.eqb_spec i j) as [Hi|Ni].
      * inversion Ei; subst i s. cbn [pre_pub sp stv]. split; auto. rewrite Ecur. lia.
      * pose proof (Isub _ _ Ei) as Hs. destruct (pre_pub (sp s)); auto. destruct Hs. split; auto. rewrite Hn; auto.
    + intros k cn Ek. destruct (Icons _ _ Ek) as [Hd Hw]. split; auto. intros i Hi. destruct (Hw _ Hi) as [Hoi Hfi].
      split; auto. rewrite Hn; auto. intros ->. congruence.
    + exact Rc.
  - (* ChFail *)
    destruct (nth_error (subs c) j) as [[[| |] tv]|] eqn:Ej; try (exists own; exact I0).
    destruct (at_read (cfa b) S p tv (mm c)) as [[v tv1]|] eqn:Er; [|exists own; exact I0].
    apply at_read_spec in Er. destruct Er as (_ & _ & _ & _ & Hmono & _).
    destruct (na_write tv1 (mm c) (N j)) as [tv' m] eqn:E.
    pose proof (Isub _ _ Ej) as Hs. cbn [pre_pub sp stv] in Hs. destruct Hs as [Ho Hf].
    assert (Hf1 : nts (mm c) (N j) <= cur tv1 (N j)) by (specialize (Hmono (N j)); lia).
    destruct (write_own_node own c j tv1 tv' m PSub I0 Ho (or_introl eq_refl) Hf1 E) as (Rc & Eam & Ecur & Hn & Hcu).
    exists own. constructor; cbn [subs conss mm].
    + rewrite Eam, Ea. eexists _, _. split; [reflexivity|]. split; auto. intros i Hi.
      destruct (Hslot _ Hi) as [Hoi Hfi]. split; auto. rewrite Hn; auto. intros ->. congruence.
    + intros i s Ei. rewrite (nth_set_nth _ _ _ _ _ Ej) in Ei. destruct (Nat.eqb_spec i j) as [Hi|Ni].
      * inversion Ei; subst i s. cbn [pre_pub sp stv]. split; auto. rewrite Ecur. lia.
      * pose proof (Isub _ _ Ei) as Hs. destruct (pre_pub (sp s)); auto. destruct Hs. split; auto. rewrite Hn; auto.
    + intros k cn Ek. destruct (Icons _ _ Ek) as [Hd Hw]. split; auto. intros i Hi. destruct (Hw _ Hi) as [Hoi Hfi].
      split; auto. rewrite Hn; auto. intros ->. congruence.
    + exact Rc.
  - (* ChPub *)
    destruct (nth_error (subs c) j) as [[[| |] tv]|] eqn:Ej; try (exists own; exact I0).
    destruct (rmw (csa b) (csr b) S (fun l => j :: l) tv (mm c)) as [[[v tv'] m]|] eqn:E; [|exists own; exact I0].
    apply rmw_spec in E.
    destruct E as (ms' & rest' & nm & Ea0 & Ev & Ea' & Eo & Evn & En & Er & _ & _ & _ & Hmv & Hrel & _).
    rewrite Ea in Ea0. inversion Ea0; subst ms' rest'. clear Ea0.
    pose proof (Isub _ _ Ej) as Hs. cbn [pre_pub sp stv] in Hs. destruct Hs as [Ho Hf].
    exists (pset own j PSlot). constructor; cbn [subs conss mm].
    + rewrite Ea'. eexists _, _. split; [reflexivity|]. rewrite Evn, <- Ev. split.
      * constructor; auto. intros Hin. destruct (Hslot _ Hin). congruence.
      * intros i [<-|Hi].
        -- rewrite pset_same. split; auto. rewrite En. specialize (Hrel Hcsr (N j) (N_ne_S j)). lia.
        -- destruct (Hslot _ Hi) as [Hoi Hfi]. rewrite pset_other by (intros ->; congruence).
           split; auto. rewrite En. specialize (Hmv (N i)). lia.
    + intros i s Ei. rewrite (nth_set_nth _ _ _ _ _ Ej) in Ei. destruct (Nat.eqb_spec i j) as [Hi|Ni].
      * inversion Ei; subst i s. cbn [pre_pub sp stv]. rewrite pset_same. discriminate.
      * rewrite pset_other by auto. rewrite En. apply (Isub _ _ Ei).
    + intros k cn Ek. destruct (Icons _ _ Ek) as [Hd Hw]. split; auto. intros i Hi. destruct (Hw _ Hi) as [Hoi Hfi].
      rewrite pset_other by (intros ->; congruence). rewrite En. auto.
    + rewrite Er. exact Irc.
  - (* ChXchg *)
    destruct (nth_error (conss c) k) as [[[l|] tv]|] eqn:Ek; try (exists own; exact I0).
    destruct (rmw (xa b) (xr b) S (fun _ => []) tv (mm c)) as [[[v tv'] m]|] eqn:E; [|exists own; exact I0].
    apply rmw_spec in E.
    destruct E as (ms' & rest' & nm & Ea0 & Ev & Ea' & Eo & Evn & En & Er & _ & _ & Hacq & _ & _ & _).
    rewrite Ea in Ea0. inversion Ea0; subst ms' rest'. clear Ea0.
    exists (fun i => match own i with PSlot => PWalk k | q => q end). constructor; cbn [subs conss mm].
    + rewrite Ea'. eexists _, _. split; [reflexivity|]. rewrite Evn. split; [constructor|]. intros i [].
    + intros i s Ei. pose proof (Isub _ _ Ei) as Hs. rewrite En. destruct (pre_pub (sp s)).
      * destruct Hs as [-> ?]. split; auto.
      * destruct (own i); auto; discriminate.
    + intros k' cn Ek'. rewrite (nth_set_nth _ _ _ _ _ Ek) in Ek'. destruct (Nat.eqb_spec k' k) as [Hk|Nk].
      * inversion Ek'; subst k' cn. cbn [walk_of walk ctv]. subst v. split; auto.
        intros i Hi. destruct (Hslot _ Hi) as [Hoi Hfi]. rewrite Hoi. split; auto.
        rewrite En. specialize (Hacq Hxa (N i) (N_ne_S i)). lia.
      * destruct (Icons _ _ Ek') as [Hd Hw]. split; auto. intros i Hi. destruct (Hw _ Hi) as [Hoi Hfi].
        rewrite Hoi, En. auto.
    + rewrite Er. exact Irc.
  - (* ChWalk *)
    destruct (nth_error (conss c) k) as [[[[|j rest']|] tv]|] eqn:Ek; try (exists own; exact I0).
    destruct (na_write tv (mm c) (N j)) as [tv' m] eqn:E.
    destruct (Icons _ _ Ek) as [Hd Hw]. cbn [walk_of walk] in Hd, Hw.
    destruct (Hw j (or_introl eq_refl)) as [Ho Hf]. cbn [ctv] in Hf.
    destruct (write_own_node own c j tv tv' m (PWalk k) I0 Ho (or_intror (ex_intro _ k eq_refl)) Hf E)
      as (Rc & Eam & Ecur & Hn & Hcu).
    inversion Hd as [|? ? Hnotin Hd']; subst.
    exists (pset own j PDone). constructor; cbn [subs conss mm].
    + rewrite Eam, Ea. eexists _, _. split; [reflexivity|]. split; auto. intros i Hi.
      destruct (Hslot _ Hi) as [Hoi Hfi]. assert (i <> j) by (intros ->; congruence).
      rewrite pset_other by auto. split; auto. rewrite Hn; auto.
    + intros i s Ei. pose proof (Isub _ _ Ei) as Hs.
      destruct (Nat.eq_dec i j) as [->|Ni].
      * rewrite pset_same. destruct (pre_pub (sp s)); [destruct Hs; congruence|discriminate].
      * rewrite pset_other by auto. destruct (pre_pub (sp s)); auto. destruct Hs. split; auto. rewrite Hn; auto.
    + intros k' cn Ek'. rewrite (nth_set_nth _ _ _ _ _ Ek) in Ek'. destruct (Nat.eqb_spec k' k) as [Hk|Nk].
      * inversion Ek'; subst k' cn. cbn [walk_of walk ctv]. split; auto. intros i Hi.
        assert (i <> j) by (intros ->; auto).
        destruct (Hw i (or_intror Hi)) as [Hoi Hfi]. rewrite pset_other by auto. split; auto.
        rewrite Hn, Hcu; auto.
      * destruct (Icons _ _ Ek') as [Hd2 Hw2]. split; auto. intros i Hi. destruct (Hw2 _ Hi) as [Hoi Hfi].
        assert (i <> j) by (intros ->; rewrite Ho in Hoi; inversion Hoi; auto).
        rewrite pset_other by auto. split; auto. rewrite Hn; auto.
    + exact Rc.
Qed.

Lemma run_inv b sched : ok b = true -> forall c own, Inv own c -> exists own', Inv own' (run b sched c).
Proof.
  intros Hok. induction sched as [|ch t IH]; intros c own I; cbn; eauto.
  destruct (step_inv b c ch own Hok I) as [own' I']. eauto.
Qed.

Theorem p2_sufficient b : ok b = true -> forall ns nc sched, race (mm (run b sched (init ns nc))) = false.
Proof.
  intros Hok ns nc sched. destruct (run_inv b sched Hok _ _ (inv_init ns nc)) as [own I]. apply (i_race _ _ I).
Qed.

Definition witness : list choice := [ChWrite 0; ChPub 0; ChXchg 0; ChWalk 0].
Theorem p2_necessary b : ok b = false -> race (mm (run b witness (init 1 1))) = true.
Proof.
  destruct b as [a1 a2 a3 a4 a5]. destruct a2, a4; cbn [ok csr xa andb]; intros H; try discriminate H;
    destruct a1, a3, a5; vm_compute; reflexivity.
Qed.

Theorem p2_exact : forall b,
  (ok b = true -> forall ns nc sched, race (mm (run b sched (init ns nc))) = false) /\
  (ok b = false -> exists ns nc sched, race (mm (run b sched (init ns nc))) = true).
Proof. intros b. split; [apply p2_sufficient|]. intros H. exists 1, 1, witness. apply p2_necessary; auto. Qed.
End P2Proofs.

(* ================================================================================================ P5 *)
Module P5Proofs.
Import P5.

Definition readable_false (c : cfg) : Prop :=
  forall p ms, nth_error (am (mm c) K) p = Some ms -> cur (ctv c) K <= ts_of (am (mm c) K) p -> mval ms = false.
Definition readable_fresh (c : cfg) : Prop :=
  forall p ms, nth_error (am (mm c) K) p = Some ms -> cur (ctv c) K <= ts_of (am (mm c) K) p -> mval ms = true ->
               nts (mm c) Rv <= mview ms Rv.

Record Inv (c : cfg) : Prop := {
  j_a : cp c <> C2 -> gp c = G0 /\ nts (mm c) Rv <= cur (ctv c) Rv;
  j_b : cp c = C1 -> readable_false c;
  j_c : cp c = C2 -> match gp c with
                     | G0 => readable_fresh c
                     | _ => nts (mm c) Rv <= cur (gtv c) Rv /\ readable_false c end;
  j_race : race (mm c) = false }.

Lemma K_ne_Rv : K <> Rv. Proof. discriminate. Qed.
Lemma Rv_ne_K : Rv <> K. Proof. discriminate. Qed.

Lemma inv_init : Inv init.
Proof. constructor; cbn; try discriminate; auto. Qed.

Lemma ts_cons_S {V} (x : msg V) l p : ts_of (x :: l) (Datatypes.S p) = ts_of l p.
Proof. unfold ts_of. cbn [length]. lia. Qed.
Lemma ts_cons_0 {V} (x : msg V) l : ts_of (x :: l) 0 = length l.
Proof. unfold ts_of. cbn [length]. lia. Qed.

Lemma step_inv b c ch : ok b = true -> Inv c -> Inv (step b c ch).
Proof.
  intros Hok I. unfold ok in Hok. apply andb_true_iff in Hok. destruct Hok as [Hsr Hwa].
  pose proof I as I0. destruct I as [Ja Jb Jc Jr].
  destruct ch as [p|]; cbn [step].
  - destruct (cp c) eqn:Ecp.
    + (* C0: reset *)
      destruct (at_write (rr b) K false (ctv c) (mm c)) as [tv m] eqn:E. apply at_write_spec in E.
      destruct E as (nm & Ea' & Eo & Evn & En & Er & Hc & _ & _ & HcK).
      destruct Ja as [Hg Hf]; [discriminate|].
      constructor; cbn [cp ctv gp gtv mm]; try discriminate.
      * intros _. split; auto. rewrite En, (Hc Rv Rv_ne_K). exact Hf.
      * intros _ q ms Eq Hq. cbn [mm ctv] in *. rewrite Ea' in Eq, Hq. destruct q as [|q].
        -- cbn in Eq. inversion Eq; subst. exact Evn.
        -- exfalso. rewrite ts_cons_S in Hq. cbn in Eq. apply nth_error_lt in Eq. unfold ts_of in Hq. lia.
      * rewrite Er. exact Jr.
    + (* C1: hand the generator over *)
      destruct (gp c) eqn:Egp; try exact I0.
      destruct Ja as [_ Hf]; [discriminate|].
      constructor; cbn [cp ctv gp gtv mm]; try discriminate; auto.
      * intros H; congruence.
      * intros _. split.
        -- cbn. etransitivity; [exact Hf|apply vjoin_r].
        -- exact (Jb eq_refl).
    + (* C2: wait *)
      destruct (at_read (wa b) K p (ctv c) (mm c)) as [[v tv]|] eqn:E; [|exact I0].
      apply at_read_spec in E. destruct E as (ms & En & Ev & Hle & Hmono & _ & _ & Hacq & HK & _).
      specialize (Jc eq_refl).
      assert (SHR : forall q, cur tv K <= ts_of (am (mm c) K) q -> cur (ctv c) K <= ts_of (am (mm c) K) q).
      { intros q Hq. specialize (Hmono K). lia. }
      destruct v.
      * (* sees true *)
        destruct (gp c) eqn:Egp.
        -- constructor; cbn [cp ctv gp gtv mm]; try discriminate.
           ++ intros _. split; auto. specialize (Jc p ms En Hle Ev). specialize (Hacq Hwa Rv). lia.
           ++ exact Jr.
        -- destruct Jc as [_ Hrf]. specialize (Hrf p ms En Hle). congruence.
        -- destruct Jc as [_ Hrf]. specialize (Hrf p ms En Hle). congruence.
      * constructor; cbn [cp ctv gp gtv mm]; try discriminate.
        -- intros H; congruence.
        -- intros _. destruct (gp c).
           ++ intros q ms' Eq Hq Hv. cbn [mm ctv] in *. exact (Jc q ms' Eq (SHR q Hq) Hv).
           ++ destruct Jc as [Hf Hrf]. split; auto. intros q ms' Eq Hq. cbn [mm ctv] in *. exact (Hrf q ms' Eq (SHR q Hq)).
           ++ destruct Jc as [Hf Hrf]. split; auto. intros q ms' Eq Hq. cbn [mm ctv] in *. exact (Hrf q ms' Eq (SHR q Hq)).
        -- exact Jr.
    + (* C3: use the result *)
      destruct (na_write (ctv c) (mm c) Rv) as [tv m] eqn:E. apply na_write_spec in E.
      destruct E as (Eam & Ex & Eo & Er & Ec & _ & _).
      destruct Ja as [Hg Hf]; [discriminate|].
      constructor; cbn [cp ctv gp gtv mm]; try discriminate.
      * intros _. split; auto. rewrite Ec, Ex. lia.
      * rewrite Er, Jr. cbn. apply negb_false_iff, Nat.leb_le. exact Hf.
  - destruct (gp c) eqn:Egp; [exact I0| |].
    + (* G1: produce the result *)
      destruct (na_write (gtv c) (mm c) Rv) as [tv m] eqn:E. apply na_write_spec in E.
      destruct E as (Eam & Ex & Eo & Er & Ec & _ & _).
      assert (Ecp : cp c = C2).
      { destruct (cp c) eqn:Ecp; auto; destruct Ja as [Hg _]; try discriminate; congruence. }
      specialize (Jc Ecp). try rewrite Egp in Jc. destruct Jc as [Hf Hrf].
      constructor; cbn [cp ctv gp gtv mm].
      * intros H; congruence.
      * intros H; congruence.
      * intros _. split; [rewrite Ec, Ex; lia|]. intros q ms Eq Hq. cbn [mm ctv] in *. rewrite Eam in Eq, Hq. eapply Hrf; eauto.
      * rewrite Er, Jr. cbn. apply negb_false_iff, Nat.leb_le. exact Hf.
    + (* G2: set the flag *)
      destruct (at_write (sr b) K true (gtv c) (mm c)) as [tv m] eqn:E. apply at_write_spec in E.
      destruct E as (nm & Ea' & Eo & Evn & En & Er & Hc & _ & Hrel & _).
      assert (Ecp : cp c = C2).
      { destruct (cp c) eqn:Ecp; auto; destruct Ja as [Hg _]; try discriminate; congruence. }
      specialize (Jc Ecp). try rewrite Egp in Jc. destruct Jc as [Hf Hrf].
      constructor; cbn [cp ctv gp gtv mm].
      * intros H; congruence.
      * intros H; congruence.
      * intros _ q ms Eq Hq Hv. cbn [mm ctv] in *. rewrite Ea' in Eq, Hq. rewrite En. destruct q as [|q].
        -- cbn in Eq. inversion Eq; subst ms. rewrite (Hrel Hsr Rv Rv_ne_K). exact Hf.
        -- cbn in Eq. rewrite ts_cons_S in Hq. specialize (Hrf q ms Eq Hq). congruence.
      * rewrite Er. exact Jr.
Qed.

Lemma run_inv b sched : ok b = true -> forall c, Inv c -> Inv (run b sched c).
Proof. intros Hok. induction sched as [|ch t IH]; intros c I; cbn; auto. apply IH, step_inv; auto. Qed.

Theorem p5_sufficient b : ok b = true -> forall sched, race (mm (run b sched init)) = false.
Proof. intros Hok sched. apply j_race, run_inv; auto using inv_init. Qed.

Definition witness : list choice := [StepC 0; StepC 0; StepG; StepG; StepC 0; StepC 0].
Theorem p5_necessary b : ok b = false -> race (mm (run b witness init)) = true.
Proof. destruct b as [a1 a2 a3]. destruct a2, a3; cbn [ok sr wa andb]; intros H; try discriminate H; destruct a1; vm_compute; reflexivity. Qed.

Theorem p5_exact : forall b,
  (ok b = true -> forall sched, race (mm (run b sched init)) = false) /\
  (ok b = false -> exists sched, race (mm (run b sched init)) = true).
Proof. intros b. split; [apply p5_sufficient|]. intros H. exists witness. apply p5_necessary; auto. Qed.
End P5Proofs.

(* ================================================================================================ P6 *)
Module P6Proofs.
Import P6.

Record Inv (c : cfg) : Prop := {
  k_slot : exists ms rest, am (mm c) O = ms :: rest /\ (mval ms = true -> Forall (fun t => tp t = T0) (ths c));
  k_uniq : forall i j ti tj, nth_error (ths c) i = Some ti -> nth_error (ths c) j = Some tj ->
           tp ti = TWin -> tp tj = TWin -> i = j;
  k_all0 : Forall (fun t => tp t = T0) (ths c) -> nts (mm c) Fu = 1;
  k_cur : Forall (fun t => 1 <= cur (ttv t) Fu) (ths c);
  k_le : nts (mm c) Fu <= 2;
  k_win1 : forall t, In t (ths c) -> tp t = TWin -> nts (mm c) Fu = 1;
  k_race : race (mm c) = false }.

Lemma Fu_ne_O : Fu <> O. Proof. discriminate. Qed.

Lemma inv_init n : Inv (init n).
Proof.
  assert (A : Forall (fun t => tp t = T0) (repeat (Th T0 tv1) n)).
  { apply Forall_forall. intros t Ht. apply repeat_spec in Ht. subst. reflexivity. }
  assert (B1 : vset vbot Fu 1 Fu = 1) by apply vset_same.
  constructor; unfold init; cbn [ths mm am nts race]; auto; try lia.
  all: try (eexists _, _; split; [reflexivity|]; auto; fail).
  all: try (intros i j ti tj Ei _ Hi; apply nth_error_In, repeat_spec in Ei; subst; discriminate).
  all: try (apply Forall_forall; intros t Ht; apply repeat_spec in Ht; subst; unfold tv1; cbn [ttv cur]; lia).
  all: try (intros t Ht Hw; apply repeat_spec in Ht; subst; discriminate).
Qed.

Lemma step_inv b c t : Inv c -> Inv (step b c t).
Proof.
  intros I. pose proof I as I0. destruct I as [(ms & rest & Ea & Htrue) Iu Iall Icur Ile Iw Irc].
  unfold step. destruct (nth_error (ths c) t) as [[p tv]|] eqn:Et; [|exact I0].
  assert (Hcur : 1 <= cur tv Fu) by (eapply Forall_nth_error in Icur; eauto; exact Icur).
  destruct p; try exact I0.
  - destruct (rmw (xa b) (xr b) O (fun _ => false) tv (mm c)) as [[[v tv'] m]|] eqn:E; [|exact I0].
    apply rmw_spec in E.
    destruct E as (ms' & rest' & nm & Ea0 & Ev & Ea' & Eo & Evn & En & Er & Hc & _).
    rewrite Ea in Ea0. inversion Ea0; subst ms' rest'. clear Ea0.
    assert (Hcur' : 1 <= cur tv' Fu) by (specialize (Hc Fu Fu_ne_O); lia).
    assert (NOT0 : forall p', p' <> T0 -> ~ Forall (fun x => tp x = T0) (set_nth (ths c) t (Th p' tv'))).
    { intros p' Hp F. eapply Forall_nth_error in F; [|apply nth_error_set_nth_same; eapply nth_error_lt; eauto]. cbn in F. auto. }
    destruct v.
    + (* winner *)
      specialize (Htrue Ev). pose proof (Iall Htrue) as Hn1.
      constructor; cbn [ths mm].
      * rewrite Ea'. eexists _, _. split; [reflexivity|]. rewrite Evn. discriminate.
      * intros i j ti tj Ei Ej Wi Wj.
        rewrite (nth_set_nth _ _ _ _ _ Et) in Ei. rewrite (nth_set_nth _ _ _ _ _ Et) in Ej.
        destruct (Nat.eqb_spec i t) as [Hi|Ni]; destruct (Nat.eqb_spec j t) as [Hj|Nj]; try congruence.
        all: try (eapply (Forall_nth_error _ _ j) in Htrue; [|exact Ej]; congruence).
        all: try (eapply (Forall_nth_error _ _ i) in Htrue; [|exact Ei]; congruence).
      * intros F. exfalso. eapply NOT0; eauto. discriminate.
      * apply Forall_set_nth; auto.
      * rewrite En; auto.
      * intros x _ _. rewrite En. auto.
      * rewrite Er; auto.
    + (* lost *)
      constructor; cbn [ths mm].
      * rewrite Ea'. eexists _, _. split; [reflexivity|]. rewrite Evn. discriminate.
      * intros i j ti tj Ei Ej Wi Wj.
        rewrite (nth_set_nth _ _ _ _ _ Et) in Ei. rewrite (nth_set_nth _ _ _ _ _ Et) in Ej.
        destruct (Nat.eqb_spec i t) as [Hi|Ni]; [inversion Ei; subst ti; discriminate|].
        destruct (Nat.eqb_spec j t) as [Hj|Nj]; [inversion Ej; subst tj; discriminate|].
        eapply Iu; eauto.
      * intros F. exfalso. eapply NOT0; eauto. discriminate.
      * apply Forall_set_nth; auto.
      * rewrite En; auto.
      * intros x Hx Hw. rewrite En. apply In_nth_error in Hx. destruct Hx as [i Ei].
        rewrite (nth_set_nth _ _ _ _ _ Et) in Ei. destruct (Nat.eqb_spec i t) as [Hi|Ni].
        -- inversion Ei; subst x. discriminate.
        -- eapply Iw; eauto. eapply nth_error_In; eauto.
      * rewrite Er; auto.
  - (* the winner writes the future *)
    destruct (na_write tv (mm c) Fu) as [tv' m] eqn:E. apply na_write_spec in E.
    destruct E as (Eam & Ex & Eo & Er & Ec & _ & _).
    assert (Hn1 : nts (mm c) Fu = 1) by (eapply (Iw (Th TWin tv)); [eapply nth_error_In; eauto|reflexivity]).
    assert (NOT0 : ~ Forall (fun x => tp x = T0) (set_nth (ths c) t (Th TDone tv'))).
    { intros F. eapply Forall_nth_error in F; [|apply nth_error_set_nth_same; eapply nth_error_lt; eauto]. discriminate. }
    assert (NOWIN : forall x, In x (set_nth (ths c) t (Th TDone tv')) -> tp x <> TWin).
    { intros x Hx Hw. apply In_nth_error in Hx. destruct Hx as [i Ei].
      rewrite (nth_set_nth _ _ _ _ _ Et) in Ei. destruct (Nat.eqb_spec i t) as [Hi|Ni].
      - inversion Ei; subst x. discriminate.
      - apply Ni. eapply (Iu i t); eauto. }
    constructor; cbn [ths mm].
    + rewrite Eam, Ea. eexists _, _. split; [reflexivity|]. intros Hv. specialize (Htrue Hv).
      eapply Forall_nth_error in Htrue; eauto. discriminate.
    + intros i j ti tj Ei Ej Wi Wj. exfalso. eapply NOWIN; [eapply nth_error_In; eauto|auto].
    + intros F. exfalso. auto.
    + apply Forall_set_nth; auto. cbn. rewrite Ec. lia.
    + rewrite Ex. lia.
    + intros x Hx Hw. exfalso. eapply NOWIN; eauto.
    + rewrite Er, Irc. cbn. apply negb_false_iff, Nat.leb_le. lia.
Qed.

Lemma run_inv b sched : forall c, Inv c -> Inv (run b sched c).
Proof. induction sched as [|ch t IH]; intros c I; cbn; auto. apply IH, step_inv; auto. Qed.

(* every order of the claiming exchange is sufficient: only one thread ever writes the future *)
Theorem p6_race_free b n sched : race (mm (run b sched (init n))) = false.
Proof. apply k_race, run_inv, inv_init. Qed.

Theorem p6_single_writer b n sched : nts (mm (run b sched (init n))) Fu <= 2.
Proof. apply k_le, run_inv, inv_init. Qed.
End P6Proofs.

(* ================================================================================================ P3 *)
Module P3Proofs.
Import P3.

Definition crit (p : pc) : bool := match p with T0 | TS => false | _ => true end.
Definition holds_data (p : pc) : bool := match p with TC _ | TU _ => true | _ => false end.

Record Inv (b : bits) (c : cfg) : Prop := {
  m_slot : exists ms rest, am (mm c) M = ms :: rest /\
           (fst (mval ms) = false -> snd (mval ms) = 0 /\ Forall (fun t => crit (tp t) = false) (ths c) /\
                                     nts (mm c) DATA <= mview ms DATA) /\
           (forall t, In t (ths c) -> tp t = TB -> nts (mm c) DATA <= mview ms DATA);
  m_uniq : forall i j ti tj, nth_error (ths c) i = Some ti -> nth_error (ths c) j = Some tj ->
           crit (tp ti) = true -> crit (tp tj) = true -> i = j;
  m_own : forall t, In t (ths c) -> holds_data (tp t) = true -> nts (mm c) DATA <= cur (ttv t) DATA;
  m_race : race (mm c) = false;
  m_tb : forall t, In t (ths c) -> tp t = TB -> sa b = true -> nts (mm c) DATA <= cur (ttv t) DATA }.

Lemma DATA_ne_M : DATA <> M. Proof. discriminate. Qed.

Lemma inv_init b n : Inv b (init n).
Proof.
  assert (A : forall t, In t (repeat (Th T0 tv0) n) -> t = Th T0 tv0) by (intros t Ht; apply repeat_spec in Ht; auto).
  constructor; unfold init; cbn [ths mm am nts race mem0].
  - eexists _, _. split; [reflexivity|]. cbn. split.
    + intros _. split; auto. split; [|lia]. apply Forall_forall. intros t Ht. rewrite (A _ Ht). reflexivity.
    + intros t Ht Hp. rewrite (A _ Ht) in Hp. discriminate.
  - intros i j ti tj Ei _ Hi. apply nth_error_In in Ei. rewrite (A _ Ei) in Hi. discriminate.
  - intros t Ht Hp. rewrite (A _ Ht) in Hp. discriminate.
  - reflexivity.
  - intros t Ht Hp. rewrite (A _ Ht) in Hp. discriminate.
Qed.

(* bookkeeping for `upd` *)
Lemma in_upd (l : list thr) t p tv x old : nth_error l t = Some old -> In x (set_nth l t (Th p tv)) ->
  x = Th p tv \/ (exists i, i <> t /\ nth_error l i = Some x).
Proof.
  intros Et Hx. apply In_nth_error in Hx. destruct Hx as [i Ei].
  rewrite (nth_set_nth _ _ _ _ _ Et) in Ei. destruct (Nat.eqb_spec i t) as [Hi|Ni].
  - left. congruence.
  - right. eauto.
Qed.

Lemma no_other_crit b c t old x i : Inv b c -> nth_error (ths c) t = Some old -> crit (tp old) = true ->
  i <> t -> nth_error (ths c) i = Some x -> crit (tp x) = false.
Proof.
  intros I Et Ho Ni Ei. destruct (crit (tp x)) eqn:E; auto. exfalso. apply Ni. eapply (m_uniq _ _ I i t); eauto.
Qed.

Lemma uniq_upd b c t p tv m old :
  Inv b c -> nth_error (ths c) t = Some old ->
  (crit p = true -> crit (tp old) = true \/ Forall (fun x => crit (tp x) = false) (ths c)) ->
  forall i j ti tj, nth_error (ths (upd c t p tv m)) i = Some ti -> nth_error (ths (upd c t p tv m)) j = Some tj ->
  crit (tp ti) = true -> crit (tp tj) = true -> i = j.
Proof.
  intros I Et Hp i j ti tj Ei Ej Ci Cj. cbn [upd ths] in Ei, Ej.
  rewrite (nth_set_nth _ _ _ _ _ Et) in Ei. rewrite (nth_set_nth _ _ _ _ _ Et) in Ej.
  destruct (Nat.eqb_spec i t) as [Hi|Ni]; destruct (Nat.eqb_spec j t) as [Hj|Nj]; try congruence.
  - inversion Ei; subst ti. cbn in Ci. destruct (Hp Ci) as [Ho|Hall].
    + exfalso. apply Nj. eapply (m_uniq _ _ I j t); eauto.
    + eapply Forall_nth_error in Hall; eauto. congruence.
  - inversion Ej; subst tj. cbn in Cj. destruct (Hp Cj) as [Ho|Hall].
    + exfalso. apply Ni. eapply (m_uniq _ _ I i t); eauto.
    + eapply Forall_nth_error in Hall; eauto. congruence.
  - eapply (m_uniq _ _ I); eauto.
Qed.

Lemma step_inv b c ch : ok b = true -> Inv b c -> Inv b (step b c ch).
Proof.
  intros Hok I. unfold ok in Hok. apply andb_true_iff in Hok. destruct Hok as [Hok Hxs].
  apply andb_true_iff in Hok. destruct Hok as [Hta Hur].
  pose proof I as I0. destruct I as [(ms & rest & Ea & Hfree & Htb) Iu Io Irc Itb].
  destruct ch as [t arg].
  (* helper: after the step no thread other than t is in TB when all others are outside the critical region *)
  assert (NOTB : forall pnew tvn old, nth_error (ths c) t = Some old ->
            (forall i x, i <> t -> nth_error (ths c) i = Some x -> crit (tp x) = false) ->
            forall x, In x (set_nth (ths c) t (Th pnew tvn)) -> tp x = TB -> x = Th pnew tvn).
  { intros pnew tvn old Eo Hoth x Hx Hp. destruct (in_upd _ _ _ _ _ _ Eo Hx) as [->|(i & Ni & Ei)]; auto.
    specialize (Hoth i x Ni Ei). rewrite Hp in Hoth. discriminate. }
  (* helper: the other threads keep their TB claim when the write counter of DATA does not change *)
  assert (TBOLD : forall pnew tvn (m : mem (bool * nat)) old, nth_error (ths c) t = Some old -> pnew <> TB -> nts m = nts (mm c) ->
            forall x, In x (set_nth (ths c) t (Th pnew tvn)) -> tp x = TB -> sa b = true -> nts m DATA <= cur (ttv x) DATA).
  { intros pnew tvn m old Eo Hne Hn x Hx Hp Hs. rewrite Hn. destruct (in_upd _ _ _ _ _ _ Eo Hx) as [->|(i & Ni & Ei)].
    - cbn in Hp. congruence.
    - exact (Itb x (nth_error_In _ _ Ei) Hp Hs). }
  unfold step.
  destruct (nth_error (ths c) t) as [[p tv]|] eqn:Et; [|exact I0].
  assert (Int : In (Th p tv) (ths c)) by (eapply nth_error_In; eauto).
  destruct p as [| | |q|q].
  - (* T0: ready() *)
    destruct arg as [|pp].
    + rewrite Ea. destruct ms as [[[|] n0] mv]; [exact I0|].
      destruct (rmw (ta b) (tr b) M (fun _ => (true, 0)) tv (mm c)) as [[[v tv'] m]|] eqn:E; [|exact I0].
      apply rmw_spec in E.
      destruct E as (ms' & rest' & nm & Ea0 & Ev & Ea' & Eo & Evn & En & Er & Hc & _ & Hacq & Hmv & _ & _).
      rewrite Ea in Ea0. inversion Ea0; subst ms' rest'. clear Ea0.
      destruct (Hfree eq_refl) as (_ & Hall & Hfr). cbn [mview] in Hfr.
      constructor.
      * cbn [upd mm ths]. rewrite Ea'. eexists _, _. split; [reflexivity|]. rewrite Evn. cbn [fst snd]. split; [discriminate|].
        intros x Hx Hp. destruct (in_upd _ _ _ _ _ _ Et Hx) as [->|(i & Ni & Ei)]; [discriminate|].
        eapply Forall_nth_error in Hall; eauto. rewrite Hp in Hall. discriminate.
      * eapply uniq_upd; eauto.
      * intros x Hx Hp. cbn [upd mm]. rewrite En. destruct (in_upd _ _ _ _ _ _ Et Hx) as [->|(i & Ni & Ei)].
        -- cbn [ttv]. specialize (Hacq Hta DATA DATA_ne_M). cbn [mview] in Hacq. lia.
        -- eapply Forall_nth_error in Hall; eauto. destruct (tp x); discriminate.
      * cbn [upd mm]. rewrite Er. exact Irc.
      * intros x Hx Hp Hs. cbn [upd ths] in Hx.
        assert (x = Th (TC 0) tv') as -> by (eapply NOTB; eauto; intros i y Ni Ey; eapply Forall_nth_error in Hall; eauto).
        discriminate.
    + destruct (at_read (tfa b) M pp tv (mm c)) as [[[[|] n0] tv']|] eqn:E; try exact I0.
      constructor.
      * cbn [upd mm ths]. rewrite Ea. eexists _, _. split; [reflexivity|]. split.
        -- intros Hf. destruct (Hfree Hf) as (Hn & Hall & Hfr). split; auto. split; auto.
           apply Forall_set_nth; auto.
        -- intros x Hx Hp. destruct (in_upd _ _ _ _ _ _ Et Hx) as [->|(i & Ni & Ei)]; [discriminate|].
           exact (Htb x (nth_error_In _ _ Ei) Hp).
      * eapply uniq_upd; eauto; cbn; discriminate.
      * intros x Hx Hp. cbn [upd mm]. destruct (in_upd _ _ _ _ _ _ Et Hx) as [->|(i & Ni & Ei)]; [discriminate|].
        exact (Io x (nth_error_In _ _ Ei) Hp).
      * exact Irc.
      * intros x Hx Hp Hs. cbn [upd ths mm] in *. eapply (TBOLD TS tv' (mm c)); eauto. discriminate.
  - (* TS: subscribe *)
    destruct (rmw (sa b) (sr b) M (fun v : bool * nat => if fst v then (true, S (snd v)) else (true, 0)) tv (mm c))
      as [[[v tv'] m]|] eqn:E; [|exact I0].
    apply rmw_spec in E.
    destruct E as (ms' & rest' & nm & Ea0 & Ev & Ea' & Eo & Evn & En & Er & Hc & _ & Hacq & Hmv & _ & _).
    rewrite Ea in Ea0. inversion Ea0; subst ms' rest'. clear Ea0.
    destruct v as [[|] n0].
    + (* queued *)
      constructor.
      * cbn [upd mm ths]. rewrite Ea'. eexists _, _. split; [reflexivity|]. rewrite Evn. cbn [fst snd]. split; [discriminate|].
        intros x Hx Hp. rewrite En. destruct (in_upd _ _ _ _ _ _ Et Hx) as [->|(i & Ni & Ei)]; [discriminate|].
        specialize (Htb x (nth_error_In _ _ Ei) Hp). specialize (Hmv DATA). lia.
      * eapply uniq_upd; eauto; cbn; discriminate.
      * intros x Hx Hp. cbn [upd mm]. rewrite En. destruct (in_upd _ _ _ _ _ _ Et Hx) as [->|(i & Ni & Ei)]; [discriminate|].
        exact (Io x (nth_error_In _ _ Ei) Hp).
      * cbn [upd mm]. rewrite Er. exact Irc.
      * intros x Hx Hp Hs. cbn [upd ths mm] in *. eapply (TBOLD T0 tv' m); eauto. discriminate.
    + (* the mutex was free: now held, doorman still to be installed *)
      assert (Hf : fst (mval ms) = false) by (rewrite Ev; reflexivity).
      destruct (Hfree Hf) as (_ & Hall & Hfr).
      constructor.
      * cbn [upd mm ths]. rewrite Ea'. eexists _, _. split; [reflexivity|]. rewrite Evn. cbn [fst snd]. split; [discriminate|].
        intros x Hx Hp. rewrite En. specialize (Hmv DATA). lia.
      * eapply uniq_upd; eauto.
      * intros x Hx Hp. cbn [upd mm]. rewrite En. destruct (in_upd _ _ _ _ _ _ Et Hx) as [->|(i & Ni & Ei)]; [discriminate|].
        eapply Forall_nth_error in Hall; eauto. destruct (tp x); discriminate.
      * cbn [upd mm]. rewrite Er. exact Irc.
      * intros x Hx Hp Hs. cbn [upd ths mm] in *.
        assert (x = Th TB tv') as -> by (eapply NOTB; eauto; intros i y Ni Ey; eapply Forall_nth_error in Hall; eauto).
        cbn [ttv]. rewrite En. specialize (Hacq Hs DATA DATA_ne_M). lia.
  - (* TB: build_queue(aw) *)
    destruct (rmw (xa b) (xr b) M (fun _ => (true, 0)) tv (mm c)) as [[[[l n0] tv'] m]|] eqn:E; [|exact I0].
    apply rmw_spec in E.
    destruct E as (ms' & rest' & nm & Ea0 & Ev & Ea' & Eo & Evn & En & Er & Hc & _ & Hacq & Hmv & _ & _).
    rewrite Ea in Ea0. inversion Ea0; subst ms' rest'. clear Ea0.
    pose proof (Htb _ Int eq_refl) as Hfr.
    constructor.
    + cbn [upd mm ths]. rewrite Ea'. eexists _, _. split; [reflexivity|]. rewrite Evn. cbn [fst snd]. split; [discriminate|].
      intros x Hx Hp. destruct (in_upd _ _ _ _ _ _ Et Hx) as [->|(i & Ni & Ei)]; [discriminate|].
      pose proof (no_other_crit b c t _ x i I0 Et eq_refl Ni Ei) as Hnc. rewrite Hp in Hnc. discriminate.
    + eapply uniq_upd; eauto.
    + intros x Hx Hp. cbn [upd mm]. rewrite En. destruct (in_upd _ _ _ _ _ _ Et Hx) as [->|(i & Ni & Ei)].
      * cbn [ttv]. destruct (xa b) eqn:Exa.
        -- specialize (Hacq eq_refl DATA DATA_ne_M). lia.
        -- cbn in Hxs. specialize (Itb _ Int eq_refl Hxs). cbn [ttv] in Itb. specialize (Hc DATA DATA_ne_M). lia.
      * pose proof (no_other_crit b c t _ x i I0 Et eq_refl Ni Ei) as Hnc. destruct (tp x); discriminate.
    + cbn [upd mm]. rewrite Er. exact Irc.
    + intros x Hx Hp Hs. cbn [upd ths mm] in *.
      assert (x = Th (TC n0) tv') as -> by (eapply NOTB; eauto; intros i y Ni Ey; eapply (no_other_crit b c t); eauto).
      discriminate.
  - (* TC: the critical section *)
    destruct (na_write tv (mm c) DATA) as [tv' m] eqn:E. apply na_write_spec in E.
    destruct E as (Eam & Ex & Eo & Er & Ec & _ & _).
    pose proof (Io _ Int eq_refl) as Hfr. cbn [ttv] in Hfr.
    constructor.
    + cbn [upd mm ths]. rewrite Eam, Ea. eexists _, _. split; [reflexivity|]. split.
      * intros Hf. destruct (Hfree Hf) as (_ & Hall & _). eapply Forall_nth_error in Hall; eauto. discriminate.
      * intros x Hx Hp. destruct (in_upd _ _ _ _ _ _ Et Hx) as [->|(i & Ni & Ei)]; [discriminate|].
        pose proof (no_other_crit b c t _ x i I0 Et eq_refl Ni Ei) as Hnc. rewrite Hp in Hnc. discriminate.
    + eapply uniq_upd; eauto.
    + intros x Hx Hp. cbn [upd mm]. destruct (in_upd _ _ _ _ _ _ Et Hx) as [->|(i & Ni & Ei)].
      * cbn [ttv]. rewrite Ec, Ex. lia.
      * pose proof (no_other_crit b c t _ x i I0 Et eq_refl Ni Ei) as Hnc. destruct (tp x); discriminate.
    + cbn [upd mm]. rewrite Er, Irc. cbn. apply negb_false_iff, Nat.leb_le. exact Hfr.
    + intros x Hx Hp Hs. cbn [upd ths mm] in *.
      assert (x = Th (TU q) tv') as -> by (eapply NOTB; eauto; intros i y Ni Ey; eapply (no_other_crit b c t); eauto).
      discriminate.
  - (* TU: unlock *)
    pose proof (Io _ Int eq_refl) as Hfr. cbn [ttv] in Hfr.
    assert (KEEP : forall q', Inv b (upd c t (TC q') tv (mm c))).
    { intros q'. constructor.
      - cbn [upd mm ths]. rewrite Ea. eexists _, _. split; [reflexivity|]. split.
        + intros Hf. destruct (Hfree Hf) as (_ & Hall & _). eapply Forall_nth_error in Hall; eauto. discriminate.
        + intros x Hx Hp. destruct (in_upd _ _ _ _ _ _ Et Hx) as [->|(i & Ni & Ei)]; [discriminate|].
          exact (Htb x (nth_error_In _ _ Ei) Hp).
      - eapply uniq_upd; eauto.
      - intros x Hx Hp. cbn [upd mm]. destruct (in_upd _ _ _ _ _ _ Et Hx) as [->|(i & Ni & Ei)]; auto.
        exact (Io x (nth_error_In _ _ Ei) Hp).
      - exact Irc.
      - intros x Hx Hp Hs. cbn [upd ths mm] in *. eapply (TBOLD (TC q') tv (mm c)); eauto. discriminate. }
    destruct q as [|q]; [|apply KEEP].
    assert (XCHG : forall rv tv' m, rmw (xa b) (xr b) M (fun _ => (true, 0)) tv (mm c) = Some (rv, tv', m) ->
                   forall p', holds_data p' = true -> Inv b (upd c t p' tv' m)).
    { intros rv tv' m E p' Hp'. apply rmw_spec in E.
      destruct E as (ms' & rest' & nm & Ea0 & Ev & Ea' & Eo & Evn & En & Er & Hc & _ & _ & Hmv & _ & _).
      rewrite Ea in Ea0. inversion Ea0; subst ms' rest'. clear Ea0.
      constructor.
      - cbn [upd mm ths]. rewrite Ea'. eexists _, _. split; [reflexivity|]. rewrite Evn. cbn [fst snd]. split; [discriminate|].
        intros x Hx Hp. destruct (in_upd _ _ _ _ _ _ Et Hx) as [->|(i & Ni & Ei)]; [cbn in Hp; rewrite Hp in Hp'; discriminate|].
        pose proof (no_other_crit b c t _ x i I0 Et eq_refl Ni Ei) as Hnc. rewrite Hp in Hnc. discriminate.
      - eapply uniq_upd; eauto.
      - intros x Hx Hp. cbn [upd mm]. rewrite En. destruct (in_upd _ _ _ _ _ _ Et Hx) as [->|(i & Ni & Ei)].
        + cbn [ttv]. specialize (Hc DATA DATA_ne_M). lia.
        + pose proof (no_other_crit b c t _ x i I0 Et eq_refl Ni Ei) as Hnc. destruct (tp x); discriminate.
      - cbn [upd mm]. rewrite Er. exact Irc.
      - intros x Hx Hp Hs. cbn [upd ths mm] in *.
        assert (x = Th p' tv') as -> by (eapply NOTB; eauto; intros i y Ni Ey; eapply (no_other_crit b c t); eauto).
        cbn in Hp. rewrite Hp in Hp'. discriminate. }
    assert (XCASE : Inv b match rmw (xa b) (xr b) M (fun _ => (true, 0)) tv (mm c) with
                        | Some ((_, S n), tv', m) => upd c t (TC n) tv' m
                        | Some ((_, 0), tv', m) => upd c t (TU 0) tv' m
                        | None => c end).
    { destruct (rmw (xa b) (xr b) M (fun _ => (true, 0)) tv (mm c)) as [[[[l [|n0]] tv'] m]|] eqn:E; [| |exact I0];
        eapply XCHG; eauto. }
    rewrite Ea. destruct ms as [[[|] [|n0]] mv]; try exact XCASE.
    (* doorman only: the unlocking CAS succeeds *)
    destruct (rmw (ua b) (ur b) M (fun _ => (false, 0)) tv (mm c)) as [[[v tv'] m]|] eqn:E; [|exact I0].
    apply rmw_spec in E.
    destruct E as (ms' & rest' & nm & Ea0 & Ev & Ea' & Eo & Evn & En & Er & Hc & _ & _ & Hmv & Hrel & _).
    rewrite Ea in Ea0. inversion Ea0; subst ms' rest'. clear Ea0.
    assert (Hall : Forall (fun x => crit (tp x) = false) (ths (upd c t T0 tv' m))).
    { apply Forall_forall. intros x Hx. destruct (in_upd _ _ _ _ _ _ Et Hx) as [->|(i & Ni & Ei)]; [reflexivity|].
      eapply (no_other_crit b c t _ x i I0 Et); eauto. }
    constructor.
    + cbn [upd mm ths] in *. rewrite Ea'. eexists _, _. split; [reflexivity|]. rewrite Evn. cbn [fst snd]. split.
      * intros _. split; auto. split; auto. rewrite En. specialize (Hrel Hur DATA DATA_ne_M). lia.
      * intros x Hx Hp. rewrite Forall_forall in Hall. specialize (Hall x Hx). rewrite Hp in Hall. discriminate.
    + eapply uniq_upd; eauto; cbn; discriminate.
    + intros x Hx Hp. rewrite Forall_forall in Hall. specialize (Hall x Hx). destruct (tp x); discriminate.
    + cbn [upd mm]. rewrite Er. exact Irc.
    + intros x Hx Hp Hs. rewrite Forall_forall in Hall. specialize (Hall x Hx). rewrite Hp in Hall. discriminate.
Qed.

Lemma run_inv b sched : ok b = true -> forall c, Inv b c -> Inv b (run b sched c).
Proof. intros Hok. induction sched as [|ch t IH]; intros c I; cbn; auto. apply IH, step_inv; auto. Qed.

Theorem p3_sufficient b : ok b = true -> forall n sched, race (mm (run b sched (init n))) = false.
Proof. intros Hok n sched. apply (m_race b), run_inv; auto using inv_init. Qed.

(* at most one thread is between lock and unlock, for every choice of orders (RMW atomicity) is not needed here;
   what the orders decide is whether the next owner sees the previous owner's writes *)
Definition wit_fast : list (nat * nat) := [(0,0); (0,0); (0,0); (1,0); (1,0)].
Definition wit_sub : list (nat * nat) := [(0,0); (1,1); (0,0); (0,0); (1,0); (1,0); (1,0)].
Definition witness (b : bits) : list (nat * nat) := if ta b && ur b then wit_sub else wit_fast.

Theorem p3_necessary b : ok b = false -> race (mm (run b (witness b) (init 2))) = true.
Proof.
  destruct b as [a1 a2 a3 a4 a5 a6 a7 a8 a9].
  destruct a1, a7, a8, a4; cbn [ok ta ur xa sa andb orb]; intros H; try discriminate H;
    destruct a2, a3, a5, a6, a9; vm_compute; reflexivity.
Qed.

(* ---- owner discipline: additional plain reads of the owner-private data *)
Lemma peek_inv pk b c ch : ok b = true -> (forall p, pk p = true -> holds_data p = true) -> Inv b c -> Inv b (step_peek pk b c ch).
Proof.
  intros Hok Hpk I. unfold step_peek. destruct (Nat.eqb (snd ch) peek_arg); [|apply step_inv; auto].
  destruct (nth_error (ths c) (fst ch)) as [[p tv]|] eqn:Et; [|exact I].
  destruct (pk p) eqn:Ep; [|exact I].
  pose proof (m_own b c I (Th p tv) (nth_error_In _ _ Et) (Hpk _ Ep)) as Hfr. cbn [ttv] in Hfr.
  destruct I as [Is Iu Io Irc Itb]. constructor; cbn [ths mm na_read am nts race]; auto.
  rewrite Irc. cbn. apply negb_false_iff, Nat.leb_le. exact Hfr.
Qed.

Theorem p3_owner_access_race_free pk b : ok b = true -> (forall p, pk p = true -> holds_data p = true) ->
  forall n sched, race (mm (run_peek pk b sched (init n))) = false.
Proof.
  intros Hok Hpk n sched. apply (m_race b).
  assert (G : forall c, Inv b c -> Inv b (run_peek pk b sched c)).
  { induction sched as [|ch t IH]; intros c I; cbn; auto. apply IH, peek_inv; auto. }
  apply G, inv_init.
Qed.

(* a plain read of the owner-private data by a thread that is only trying to lock races, whatever the memory orders *)
Definition wit_pre_T0 : list (nat * nat) := [(0,0); (0,0)].
Definition wit_pre_TS : list (nat * nat) := [(0,0); (1,1); (0,0)].

Lemma run_peek_app pk b s1 s2 c : run_peek pk b (s1 ++ s2) c = run_peek pk b s2 (run_peek pk b s1 c).
Proof. unfold run_peek. apply fold_left_app. Qed.

Lemma run_peek_plain pk b s : Forall (fun ch => Nat.eqb (snd ch) peek_arg = false) s ->
  forall c, run_peek pk b s c = run b s c.
Proof.
  induction 1 as [|ch t H _ IH]; intros c; [reflexivity|]. cbn. unfold step_peek at 2. rewrite H. apply IH.
Qed.

(* state just before the peek: thread 1 is in the given pc and its view of DATA is older than the owner's write *)
Definition stale_at (b : bits) (pre : list (nat * nat)) (p : pc) : bool :=
  let c1 := run b pre (init 2) in
  match nth_error (ths c1) 1 with
  | Some (Th q tv) => (match q, p with T0, T0 | TS, TS => true | _, _ => false end) && race (na_read tv (mm c1) DATA)
  | None => false end.

Lemma stale_T0 b : stale_at b wit_pre_T0 T0 = true.
Proof. destruct b as [a1 a2 a3 a4 a5 a6 a7 a8 a9]. destruct a1, a2, a3, a4, a5, a6, a7, a8, a9; vm_compute; reflexivity. Qed.
Lemma stale_TS b : stale_at b wit_pre_TS TS = true.
Proof. destruct b as [a1 a2 a3 a4 a5 a6 a7 a8 a9]. destruct a1, a2, a3, a4, a5, a6, a7, a8, a9; vm_compute; reflexivity. Qed.

Lemma peek_races pk b pre p : Forall (fun ch => Nat.eqb (snd ch) peek_arg = false) pre ->
  stale_at b pre p = true -> pk p = true ->
  race (mm (run_peek pk b (pre ++ [(1, peek_arg)]) (init 2))) = true.
Proof.
  intros Hpre Hs Hpk. rewrite run_peek_app, (run_peek_plain pk b pre Hpre). cbn [run_peek fold_left].
  unfold step_peek. cbn [snd fst]. rewrite Nat.eqb_refl. unfold stale_at in Hs.
  destruct (nth_error (ths (run b pre (init 2))) 1) as [[q tv]|]; [|discriminate].
  apply andb_true_iff in Hs. destruct Hs as [Hq Hr].
  assert (q = p) as -> by (destruct q, p; try discriminate; reflexivity).
  rewrite Hpk. exact Hr.
Qed.

Theorem p3_nonowner_access_races pk b : pk T0 = true \/ pk TS = true ->
  exists sched, race (mm (run_peek pk b sched (init 2))) = true.
Proof.
  intros [H|H]; eexists.
  - apply (peek_races pk b wit_pre_T0 T0); auto using stale_T0. repeat constructor.
  - apply (peek_races pk b wit_pre_TS TS); auto using stale_TS. repeat constructor.
Qed.

Theorem p3_exact : forall b,
  (ok b = true -> forall n sched, race (mm (run b sched (init n))) = false) /\
  (ok b = false -> exists n sched, race (mm (run b sched (init n))) = true).
Proof. intros b. split; [apply p3_sufficient|]. intros H. exists 2, (witness b). apply p3_necessary; auto. Qed.
End P3Proofs.
