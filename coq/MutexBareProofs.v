(* MutexBareProofs.v — coroutines without a coro_queue: at most one is inside, it is the holder, waiters are parked
   and pairwise different, for every sequence of operations. *)
From Cocls Require Import Base BaseProofs MutexBareDefs.
Local Open Scope nat_scope.

Definition isin (x : bst) : nat := match x with BIn => 1 | _ => 0 end.
Fixpoint cin (l : list bst) : nat := match l with [] => 0 | x :: r => isin x + cin r end.

Record BI (s : bare) : Prop := {
  b_cnt : cin (bco s) = match bholder s with Some _ => 1 | None => 0 end;
  b_hold : forall c, bholder s = Some c -> bget s c = Some BIn;
  b_q : forall w, In w (bq s) -> bget s w = Some BWait;
  b_nd : NoDup (bq s);
  b_free : bholder s = None -> bq s = []
}.

Lemma NoDup_app_comm_local (a b : list nat) : NoDup (a ++ b) -> NoDup (b ++ a).
Proof. intros H. apply (Permutation_NoDup (l := a ++ b)); [apply Permutation_app_comm|exact H]. Qed.

Lemma cin_app l x : cin (l ++ [x]) = cin l + isin x.
Proof. induction l as [|y l IH]; cbn [app cin]; [lia|rewrite IH; lia]. Qed.

Lemma cin_set l c x y : nth_error l c = Some y -> cin (set_nth l c x) + isin y = cin l + isin x.
Proof.
  revert c. induction l as [|z l IH]; intros [|c] H; cbn in H; try discriminate.
  - inversion H; subst. cbn [set_nth cin]. lia.
  - cbn [set_nth cin]. specialize (IH c H). lia.
Qed.

Lemma nth_error_set_same {A} (l : list A) c x y : nth_error l c = Some y -> nth_error (set_nth l c x) c = Some x.
Proof. revert c. induction l as [|z l IH]; intros [|c] H; cbn in *; try discriminate; auto. Qed.

Lemma nth_error_set_other {A} (l : list A) c d x : c <> d -> nth_error (set_nth l c x) d = nth_error l d.
Proof. revert c d. induction l as [|z l IH]; intros [|c] [|d] H; cbn; auto; congruence. Qed.

Lemma bstart_inv s : BI s -> BI (fst (bstart s (length (bco s)))).
Proof.
  intros [A B C D E]. unfold bstart. destruct (bholder s) as [h|] eqn:H; cbn [fst].
  - constructor; cbn [bco bholder bq].
    + rewrite cin_app. cbn. lia.
    + intros c Q. inversion Q; subst. unfold bget. cbn [bco]. rewrite nth_error_app1; [apply B; reflexivity|].
      apply nth_error_Some. unfold bget in B. rewrite (B c eq_refl). discriminate.
    + intros w Q. apply in_app_or in Q. unfold bget. cbn [bco]. destruct Q as [Q|[<-|[]]].
      * rewrite nth_error_app1; [apply C; exact Q|]. apply nth_error_Some. unfold bget in C. rewrite (C w Q). discriminate.
      * rewrite nth_error_app2 by lia. rewrite Nat.sub_diag. reflexivity.
    + apply (NoDup_app_comm_local [length (bco s)] (bq s)). cbn [app]. constructor; [|exact D].
      intros Q. specialize (C _ Q). unfold bget in C. assert (length (bco s) < length (bco s)); [|lia].
      apply nth_error_Some. rewrite C. discriminate.
    + discriminate.
  - rewrite (E eq_refl) in *. constructor; cbn [bco bholder bq].
    + rewrite cin_app. cbn. lia.
    + intros c Q. inversion Q; subst. unfold bget. cbn [bco]. rewrite nth_error_app2 by lia. rewrite Nat.sub_diag. reflexivity.
    + intros w [].
    + constructor.
    + discriminate.
Qed.

Lemma bopen_inv s c : BI s -> bget s c = Some BIn -> BI (fst (bopen s c)).
Proof.
  intros [A B C D E] G. unfold bopen.
  assert (Hc : bholder s = Some c).
  { destruct (bholder s) as [h|] eqn:H.
    - f_equal. destruct (Nat.eq_dec h c) as [|N]; [assumption|]. exfalso.
      pose proof (B h eq_refl) as Bh. unfold bget in *.
      assert (2 <= cin (bco s)); [|lia]. clear -G Bh N. revert h c G Bh N.
      induction (bco s) as [|z l IH]; intros [|h] [|c] G Bh N; cbn in *; try discriminate; try lia.
      + inversion Bh; subst. cbn. assert (1 <= cin l); [|lia]. clear -G. revert c G. induction l as [|y l IH]; intros [|c] G; cbn in *; try discriminate.
        * inversion G; subst. cbn. lia. * specialize (IH c G). lia.
      + inversion G; subst. cbn. assert (1 <= cin l); [|lia]. clear -Bh. revert h Bh. induction l as [|y l IH]; intros [|h] G; cbn in *; try discriminate.
        * inversion G; subst. cbn. lia. * specialize (IH h G). lia.
      + specialize (IH h c G Bh ltac:(lia)). lia.
    - exfalso. assert (1 <= cin (bco s)); [|lia]. unfold bget in G. clear -G. revert c G.
      induction (bco s) as [|y l IH]; intros [|c] G; cbn in *; try discriminate.
      + inversion G; subst. cbn. lia. + specialize (IH c G). lia. }
  rewrite Hc in A.
  pose proof (cin_set (bco s) c BDone BIn G) as S1. cbn [isin] in S1.
  destruct (bq s) as [|w rest] eqn:Q; cbn [fst].
  - constructor; cbn [bco bholder bq]; try (intros; discriminate); try lia.
    + intros w []. + constructor. + reflexivity.
  - assert (Ww : bget s w = Some BWait) by (apply C; left; reflexivity).
    assert (Nwc : c <> w) by (intro; subst; congruence).
    assert (W1 : nth_error (set_nth (bco s) c BDone) w = Some BWait).
    { rewrite nth_error_set_other by exact Nwc. exact Ww. }
    pose proof (cin_set _ w BIn BWait W1) as S2. cbn [isin] in S2.
    inversion D as [|? ? Nw Dr]; subst.
    constructor; cbn [bco bholder bq].
    + lia.
    + intros x Z. inversion Z; subst. unfold bget. cbn [bco]. eapply nth_error_set_same. exact W1.
    + intros x Hx. unfold bget. cbn [bco].
      assert (x <> w) by (intro; subst; contradiction).
      assert (x <> c) by (intro; subst; assert (bget s c = Some BWait) by (apply C; right; exact Hx); congruence).
      rewrite !nth_error_set_other by auto. apply C. right. exact Hx.
    + exact Dr.
    + discriminate.
Qed.

Lemma bstep_inv s op : BI s -> BI (fst (bstep s op)).
Proof.
  intros I. unfold bstep.
  repeat match goal with
  | |- BI (fst (match ?x with _ => _ end)) =>
      match type of x with
      | list _ => destruct x
      | Z => destruct x
      | positive => destruct x
      end
  end; cbn [fst]; try exact I.
  all: match goal with |- BI (fst (if ?b then _ else _)) => destruct b eqn:E; [|exact I] end.
  all: first [apply bstart_inv; exact I | apply bopen_inv; [exact I|]].
  all: apply andb_true_iff in E; destruct E as [_ E];
    match goal with |- bget ?s0 ?c = _ => destruct (bget s0 c) as [[]|]; try discriminate; reflexivity end.
Qed.

Inductive breach : bare -> Prop :=
| br_init : breach (mkB [] None [])
| br_step s op : breach s -> breach (fst (bstep s op)).

Lemma breach_inv s : breach s -> BI s.
Proof.
  induction 1; [|apply bstep_inv; assumption].
  constructor; cbn; try reflexivity; try (intros; discriminate); try constructor. intros w [].
Qed.

(* at most one coroutine is inside; it is the holder; a mutex with no holder has nobody inside and nobody waiting *)
Lemma bare_exclusion s c d : breach s -> bget s c = Some BIn -> bget s d = Some BIn -> c = d /\ bholder s = Some c.
Proof.
  intros R A B. pose proof (breach_inv s R) as I.
  assert (H : forall x, bget s x = Some BIn -> bholder s = Some x).
  { intros x G. destruct (bholder s) as [h|] eqn:Hh.
    - f_equal. destruct (Nat.eq_dec h x) as [|N]; [assumption|]. exfalso.
      pose proof (b_hold s I h Hh) as Bh. pose proof (b_cnt s I) as C. rewrite Hh in C. unfold bget in *.
      assert (2 <= cin (bco s)); [|lia]. clear -G Bh N. revert h x G Bh N.
      induction (bco s) as [|z l IH]; intros [|h] [|x] G Bh N; cbn in *; try discriminate; try lia.
      + inversion Bh; subst. cbn. assert (1 <= cin l); [|lia]. clear -G. revert x G. induction l as [|y l IH]; intros [|x] G; cbn in *; try discriminate.
        * inversion G; subst. cbn. lia. * specialize (IH x G). lia.
      + inversion G; subst. cbn. assert (1 <= cin l); [|lia]. clear -Bh. revert h Bh. induction l as [|y l IH]; intros [|h] G; cbn in *; try discriminate.
        * inversion G; subst. cbn. lia. * specialize (IH h G). lia.
      + specialize (IH h x G Bh ltac:(lia)). lia.
    - exfalso. pose proof (b_cnt s I) as C. rewrite Hh in C. assert (1 <= cin (bco s)); [|lia]. unfold bget in G. clear -G. revert x G.
      induction (bco s) as [|y l IH]; intros [|x] G; cbn in *; try discriminate.
      + inversion G; subst. cbn. lia. + specialize (IH x G). lia. }
  pose proof (H c A) as Hc. pose proof (H d B) as Hd. split; [congruence|exact Hc].
Qed.
