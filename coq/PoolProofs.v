(* PoolProofs.v — invariants of the thread-pool model for every pool size, every client program, every
   job body and every schedule (induction over reachability). *)
From Cocls Require Import Base BaseProofs PoolDefs.
Require Import Lia.
Local Open Scope nat_scope.

Definition T (s : st) (i : nat) : option pc := nth_error (thrs s) i.
Definition step (s : st) (i : nat) : st := fst (fst (tstep s i)).
Definition cstep (s : st) (i : nat) : st := fst (fst (core s i)).

Inductive reachable (ops : list (list Z)) : st -> Prop :=
| r_init : reachable ops (init ops)
| r_step s i : reachable ops s -> enabled s i = true -> reachable ops (step s i).

(* ---------- counting ---------- *)
Fixpoint cnt (c : nat) (l : list nat) : nat :=
  match l with [] => 0 | x :: r => (if Nat.eqb c x then 1 else 0) + cnt c r end.
Definition qof (c : nat) (p : pc) : nat := match p with Join _ q _ _ => cnt c q | SWait _ q _ => cnt c q | _ => 0 end.
Fixpoint sumq (c : nat) (l : list pc) : nat := match l with [] => 0 | p :: r => qof c p + sumq c r end.
(* where closure c is: invoked + destroyed un-run + queued + swapped out by a stop() in progress *)
Definition tot (s : st) (c : nat) : nat := G cran 0 s c + G cdrop 0 s c + cnt c (queue s) + sumq c (thrs s).
Arguments cnt : simpl never.
Arguments sumq : simpl never.
Arguments tot : simpl never.

Lemma cnt_nil c : cnt c [] = 0. Proof. reflexivity. Qed.
Lemma cnt_cons c x r : cnt c (x :: r) = (if Nat.eqb c x then 1 else 0) + cnt c r. Proof. reflexivity. Qed.
Lemma cnt_app c a b : cnt c (a ++ b) = cnt c a + cnt c b.
Proof. induction a as [|x a IH]; [reflexivity|]. cbn [app]. rewrite !cnt_cons, IH. lia. Qed.
Lemma sumq_nil c : sumq c [] = 0. Proof. reflexivity. Qed.
Lemma sumq_cons c p r : sumq c (p :: r) = qof c p + sumq c r. Proof. reflexivity. Qed.
Lemma sumq_app c a b : sumq c (a ++ b) = sumq c a + sumq c b.
Proof. induction a as [|x a IH]; [reflexivity|]. cbn [app]. rewrite !sumq_cons, IH. lia. Qed.

Lemma sumq_set_nth c l : forall i p old, nth_error l i = Some old ->
  sumq c (set_nth l i p) + qof c old = sumq c l + qof c p.
Proof.
  induction l as [|x l IH]; intros [|i] p old H; cbn [nth_error] in H; try discriminate.
  - inversion H; subst. cbn [set_nth]. rewrite !sumq_cons. lia.
  - cbn [set_nth]. rewrite !sumq_cons. specialize (IH i p old H). lia.
Qed.

Lemma set_nth_length {A} (l : list A) i x : length (set_nth l i x) = length l.
Proof. revert i; induction l as [|y l IH]; intros [|i]; cbn; auto. Qed.

Lemma T_with_thr s i p j : i < length (thrs s) ->
  T (with_thr s i p) j = if Nat.eqb i j then Some p else T s j.
Proof.
  intros L. unfold T, with_thr. cbn [thrs]. destruct (Nat.eqb_spec i j) as [E|E].
  - subst. apply nth_error_set_nth_same. exact L.
  - apply nth_error_set_nth_other. exact E.
Qed.
Lemma T_lt s i p : T s i = Some p -> i < length (thrs s).
Proof. unfold T. intros H. apply nth_error_Some. congruence. Qed.

(* ---------- closure store ---------- *)
Lemma G_set {A} (f : clo -> A) d s c0 y c :
  G f d (with_clos s (set_nth (clos s) c0 y)) c =
  if Nat.eqb c0 c then (if Nat.ltb c0 (length (clos s)) then f y else d) else G f d s c.
Proof.
  unfold G, with_clos. cbn [clos]. destruct (Nat.eqb_spec c0 c) as [E|E].
  - subst. destruct (Nat.ltb_spec c (length (clos s))) as [L|L].
    + rewrite nth_error_set_nth_same by exact L. reflexivity.
    + assert (H : nth_error (set_nth (clos s) c y) c = None).
      { apply nth_error_None. rewrite set_nth_length. exact L. }
      rewrite H. reflexivity.
  - rewrite nth_error_set_nth_other by exact E. reflexivity.
Qed.

Lemma G_app {A} (f : clo -> A) d s y c :
  G f d (with_clos s (clos s ++ [y])) c =
  if Nat.eqb c (length (clos s)) then f y else G f d s c.
Proof.
  unfold G, with_clos. cbn [clos]. destruct (Nat.eqb_spec c (length (clos s))) as [E|E].
  - subst. rewrite nth_error_app2 by lia. rewrite Nat.sub_diag. reflexivity.
  - destruct (Nat.ltb_spec c (length (clos s))) as [L|L].
    + rewrite nth_error_app1 by exact L. reflexivity.
    + assert (H : nth_error (clos s ++ [y]) c = None).
      { apply nth_error_None. rewrite app_length. cbn [length]. lia. }
      assert (H2 : nth_error (clos s) c = None) by (apply nth_error_None; lia).
      rewrite H, H2. reflexivity.
Qed.

Lemma G_some {A} (f : clo -> A) d s c x : nth_error (clos s) c = Some x -> G f d s c = f x.
Proof. unfold G. intros ->. reflexivity. Qed.
Lemma G_none {A} (f : clo -> A) d s c : length (clos s) <= c -> G f d s c = d.
Proof. unfold G. intros L. apply nth_error_None in L. rewrite L. reflexivity. Qed.

(* the parts of the state a closure-store update leaves alone *)
Definition shell_eq (s s' : st) : Prop :=
  queue s' = queue s /\ exit_ s' = exit_ s /\ threads s' = threads s /\ tokens s' = tokens s /\
  destroyed s' = destroyed s /\ nclients s' = nclients s /\ thrs s' = thrs s /\ length (clos s') = length (clos s) /\
  stopped s' = stopped s /\ woken s' = woken s /\ cont s' = cont s /\ extw s' = extw s /\ uad s' = uad s.

Lemma shell_eq_refl s : shell_eq s s. Proof. repeat split. Qed.
Lemma shell_eq_trans a b c : shell_eq a b -> shell_eq b c -> shell_eq a c.
Proof. unfold shell_eq. intuition congruence. Qed.

(* closure c after dropping the ids in l: everything as before except cdrop / ccanc *)
Definition cntv (s : st) (c : nat) (l : list nat) : nat := if Nat.ltb c (length (clos s)) then cnt c l else 0.

Record drop_rel (s s' : st) (l : list nat) : Prop := {
  dr_shell : shell_eq s s';
  dr_ran : forall c, G cran 0 s' c = G cran 0 s c;
  dr_on : forall c, G cran_on 0 s' c = G cran_on 0 s c;
  dr_cb : forall c, G cb [] s' c = G cb [] s c;
  dr_drop : forall c, G cdrop 0 s' c = G cdrop 0 s c + cntv s c l;
  dr_canc : forall c, G ccanc 0 s' c = G ccanc 0 s c + cntv s c l
}.

Lemma drop1_rel t s e c0 : drop_rel s (fst (drop1 t (s, e) c0)) [c0].
Proof.
  unfold drop1. cbn [fst snd].
  destruct (nth_error (clos s) c0) as [x|] eqn:E.
  - assert (L : c0 < length (clos s)) by (apply nth_error_Some; congruence).
    assert (Lb : Nat.ltb c0 (length (clos s)) = true) by (apply Nat.ltb_lt; exact L).
    cbn [fst].
    constructor.
    + unfold shell_eq, with_clos. cbn. rewrite set_nth_length. repeat split.
    + intros c. rewrite G_set, Lb. destruct (Nat.eqb_spec c0 c); [subst; rewrite (G_some _ _ _ _ _ E)|]; reflexivity.
    + intros c. rewrite G_set, Lb. destruct (Nat.eqb_spec c0 c); [subst; rewrite (G_some _ _ _ _ _ E)|]; reflexivity.
    + intros c. rewrite G_set, Lb. destruct (Nat.eqb_spec c0 c); [subst; rewrite (G_some _ _ _ _ _ E)|]; reflexivity.
    + intros c. rewrite G_set, Lb. unfold cntv. rewrite cnt_cons, cnt_nil.
      destruct (Nat.eqb_spec c0 c) as [Q|Q].
      * subst. rewrite (G_some _ _ _ _ _ E), Lb, Nat.eqb_refl. cbn [drop_clo cdrop]. lia.
      * assert (Q2 : Nat.eqb c c0 = false) by (apply Nat.eqb_neq; congruence). rewrite Q2.
        destruct (Nat.ltb c (length (clos s))); lia.
    + intros c. rewrite G_set, Lb. unfold cntv. rewrite cnt_cons, cnt_nil.
      destruct (Nat.eqb_spec c0 c) as [Q|Q].
      * subst. rewrite (G_some _ _ _ _ _ E), Lb, Nat.eqb_refl. cbn [drop_clo ccanc]. lia.
      * assert (Q2 : Nat.eqb c c0 = false) by (apply Nat.eqb_neq; congruence). rewrite Q2.
        destruct (Nat.ltb c (length (clos s))); lia.
  - cbn [fst].
    assert (L : length (clos s) <= c0) by (apply nth_error_None; exact E).
    assert (Z0 : forall c, cntv s c [c0] = 0).
    { intros c. unfold cntv. rewrite cnt_cons, cnt_nil.
      destruct (Nat.ltb_spec c (length (clos s))); [|reflexivity].
      assert (Q2 : Nat.eqb c c0 = false) by (apply Nat.eqb_neq; lia). rewrite Q2. reflexivity. }
    constructor; try (intros; reflexivity); [repeat split| |]; intros c; rewrite Z0; lia.
Qed.

Lemma drop_rel_app s s1 s2 a b : drop_rel s s1 a -> drop_rel s1 s2 b -> drop_rel s s2 (a ++ b).
Proof.
  intros [h1 r1 o1 b1 d1 c1] [h2 r2 o2 b2 d2 c2].
  assert (LEN : length (clos s1) = length (clos s)) by (unfold shell_eq in h1; tauto).
  constructor.
  - unfold shell_eq in *. intuition congruence.
  - intros c. rewrite r2, r1. reflexivity.
  - intros c. rewrite o2, o1. reflexivity.
  - intros c. rewrite b2, b1. reflexivity.
  - intros c. rewrite d2, d1. unfold cntv. rewrite LEN, cnt_app.
    destruct (Nat.ltb c (length (clos s))); lia.
  - intros c. rewrite c2, c1. unfold cntv. rewrite LEN, cnt_app.
    destruct (Nat.ltb c (length (clos s))); lia.
Qed.

Lemma drop_rel_nil s : drop_rel s s [].
Proof.
  constructor; try (intros; reflexivity); [repeat split| |]; intros c; unfold cntv; rewrite cnt_nil;
    destruct (Nat.ltb c (length (clos s))); lia.
Qed.

Lemma fold_drop_rel t l : forall s e, drop_rel s (fst (fold_left (drop1 t) l (s, e))) l.
Proof.
  induction l as [|c0 l IH]; intros s e.
  - cbn [fold_left fst]. apply drop_rel_nil.
  - cbn [fold_left]. pose proof (drop1_rel t s e c0) as H1.
    destruct (drop1 t (s, e) c0) as [s1 e1] eqn:E. cbn [fst] in H1.
    change (c0 :: l) with ([c0] ++ l). eapply drop_rel_app; [exact H1|apply IH].
Qed.

Lemma drop_all_rel t s l : drop_rel s (fst (drop_all t s l)) l.
Proof. unfold drop_all. apply fold_drop_rel. Qed.

(* ---------- tot under the elementary updates ---------- *)
Lemma tot_with_thr s i p old c : T s i = Some old ->
  tot (with_thr s i p) c + qof c old = tot s c + qof c p.
Proof.
  intros H. unfold tot, with_thr, G. cbn [clos queue thrs].
  pose proof (sumq_set_nth c (thrs s) i p old H). lia.
Qed.

Lemma sumq_ge c l i old : nth_error l i = Some old -> qof c old <= sumq c l.
Proof. intros H. pose proof (sumq_set_nth c l i CDone old H). cbn [qof] in H0. lia. Qed.

Lemma tot_drop s s' l c : drop_rel s s' l -> tot s' c = tot s c + cntv s c l.
Proof.
  intros [h r o b d cc]. destruct h as (hq & _ & _ & _ & _ & _ & ht & _).
  unfold tot. rewrite r, d, hq, ht. lia.
Qed.

Lemma cntv_valid s c l : (length (clos s) <= c -> cnt c l = 0) -> cntv s c l = cnt c l.
Proof. unfold cntv. intros H. destruct (Nat.ltb_spec c (length (clos s))); [reflexivity|]. symmetry. auto. Qed.

Lemma cntv_single s1 c c0 : length (clos s1) = S c0 -> cntv s1 c [c0] = if Nat.eqb c c0 then 1 else 0.
Proof.
  intros L. unfold cntv. rewrite L, cnt_cons, cnt_nil.
  destruct (Nat.eqb_spec c c0); [subst; assert (H : Nat.ltb c0 (S c0) = true) by (apply Nat.ltb_lt; lia); rewrite H; lia|].
  destruct (Nat.ltb c (S c0)); lia.
Qed.

Lemma ltb_S_cases c n : Nat.ltb c (S n) = if Nat.eqb c n then true else Nat.ltb c n.
Proof.
  destruct (Nat.eqb_spec c n); [subst; apply Nat.ltb_lt; lia|].
  destruct (Nat.ltb_spec c n); [apply Nat.ltb_lt; lia|apply Nat.ltb_ge; lia].
Qed.

(* ---------- invariant A: every closure is in exactly one place; a cancellation per un-run destruction ---------- *)
Definition CancOK (s : st) : Prop := forall c, G ccanc 0 s c = G cdrop 0 s c.
Definition TotOK (s : st) : Prop := forall c, tot s c = if Nat.ltb c (length (clos s)) then 1 else 0.
Record InvA (s : st) : Prop := { a_tot : TotOK s; a_canc : CancOK s }.

Lemma canc_drop s s' l : drop_rel s s' l -> CancOK s -> CancOK s'.
Proof. intros [h r o b d cc] C c. rewrite cc, d, (C c). reflexivity. Qed.
Lemma canc_same_clos s s' : clos s' = clos s -> CancOK s -> CancOK s'.
Proof. intros E C c. unfold G. rewrite E. apply C. Qed.

(* InvA only reads clos, queue and thrs *)
Lemma inva_ext s s' : clos s' = clos s -> queue s' = queue s -> thrs s' = thrs s -> InvA s -> InvA s'.
Proof.
  intros Ec Eq Et [I1 I2]. constructor.
  - intros c. unfold tot, G. rewrite Ec, Eq, Et. apply I1.
  - apply (canc_same_clos s); assumption.
Qed.

Lemma sumq_zero c l : (forall p, In p l -> qof c p = 0) -> sumq c l = 0.
Proof.
  induction l as [|p l IH]; intros F; [reflexivity|]. rewrite sumq_cons, IH, F; cbn; auto.
  intros; apply F; right; auto.
Qed.

Lemma next_client_q c i r : qof c (next_client i r) = 0.
Proof. unfold next_client. destruct r; [destruct (Nat.eqb i 0)|]; reflexivity. Qed.
Lemma job_next_q c r : qof c (job_next r) = 0.
Proof. destruct r as [|[] r]; reflexivity. Qed.
Lemma pc_after_q c t a : qof c (pc_after t a) = 0.
Proof. destruct a as [r| |[|] r]; cbn [pc_after]; try reflexivity; [apply next_client_q|apply job_next_q]. Qed.

Lemma inva_init ops : InvA (init ops).
Proof.
  unfold init. constructor.
  - intros c. unfold tot, G. cbn [clos queue thrs length]. rewrite cnt_nil, sumq_zero.
    + destruct c; reflexivity.
    + intros p Hin. apply in_app_or in Hin. destruct Hin as [Hin|Hin].
      * apply in_map_iff in Hin. destruct Hin as ([i pr] & <- & _). apply next_client_q.
      * apply repeat_spec in Hin. subst. reflexivity.
  - intros c. unfold G. cbn [clos]. destruct c; reflexivity.
Qed.

(* the thread changes only its own pc, to one that holds the same swapped-out list *)
Lemma inva_with_thr s i p old : InvA s -> T s i = Some old -> (forall c, qof c p = qof c old) -> InvA (with_thr s i p).
Proof.
  intros [I1 I2] H Q. constructor.
  - intros c. pose proof (tot_with_thr s i p old c H). rewrite Q in H0. unfold with_thr at 2. cbn [clos].
    rewrite <- I1. lia.
  - apply (canc_same_clos s); [reflexivity|exact I2].
Qed.

(* enqueue followed by the caller's move to a pc without a swapped-out list *)
Lemma inva_enqueue s i l k b p old : InvA s -> T s i = Some old ->
  (forall c, qof c old = 0) -> (forall c, qof c p = 0) ->
  InvA (with_thr (fst (enqueue s i l k b)) i p).
Proof.
  intros I H Qo Qp. destruct I as [I1 I2].
  set (y := mkClo l k b 0 0 0 0).
  set (c0 := length (clos s)).
  set (s1 := with_clos s (clos s ++ [y])).
  assert (LEN1 : length (clos s1) = S c0).
  { unfold s1, with_clos, c0. cbn [clos]. rewrite app_length. cbn [length]. lia. }
  assert (G1 : forall A (f : clo -> A) d c, G f d s1 c = if Nat.eqb c c0 then f y else G f d s c).
  { intros. unfold s1, c0. apply G_app. }
  assert (N0 : forall A (f : clo -> A) d, G f d s c0 = d) by (intros; apply G_none; unfold c0; lia).
  unfold enqueue. fold y. fold s1. fold c0.
  destruct (exit_ s || throws k) eqn:EX.
  - (* rejected: dropped in the caller *)
    pose proof (drop1_rel i s1 [] c0) as D.
    set (s2 := fst (drop1 i (s1, []) c0)) in *.
    destruct D as [h r o bb d cc].
    destruct h as (hq & _ & _ & _ & _ & _ & ht & hl & _).
    assert (Qs : queue s2 = queue s) by (rewrite hq; reflexivity).
    assert (Ts : thrs s2 = thrs s) by (rewrite ht; reflexivity).
    assert (LEN2 : length (clos s2) = S c0) by lia.
    constructor.
    + intros c. unfold with_thr at 2. cbn [clos]. rewrite LEN2.
      unfold tot, with_thr, G at 1 2. cbn [clos queue thrs]. fold (G cran 0 s2 c) (G cdrop 0 s2 c).
      rewrite r, d, Qs, Ts, !G1, (cntv_single s1 c c0 LEN1), ltb_S_cases.
      pose proof (sumq_set_nth c (thrs s) i p old H) as E1. rewrite Qo, Qp in E1.
      specialize (I1 c). unfold tot in I1. fold c0 in I1.
      destruct (Nat.eqb_spec c c0) as [Q|Q].
      * subst c. rewrite !N0 in I1. rewrite Nat.ltb_irrefl in I1. cbn [y cran cdrop]. lia.
      * lia.
    + intros c. unfold with_thr, G at 1 2. cbn [clos]. fold (G ccanc 0 s2 c) (G cdrop 0 s2 c).
      rewrite cc, d, !G1. specialize (I2 c).
      destruct (Nat.eqb_spec c c0) as [Q|Q]; [reflexivity|]. rewrite I2. reflexivity.
  - (* accepted *)
    cbn [fst].
    constructor.
    + intros c. unfold with_thr at 2. unfold with_tokens, with_queue. cbn [clos]. rewrite LEN1.
      unfold tot, with_thr, with_tokens, with_queue, G at 1 2. cbn [clos queue thrs].
      fold (G cran 0 s1 c) (G cdrop 0 s1 c). rewrite !G1, ltb_S_cases.
      replace (thrs s1) with (thrs s) by reflexivity.
      pose proof (sumq_set_nth c (thrs s) i p old H) as E1. rewrite Qo, Qp in E1.
      rewrite cnt_app, cnt_cons, cnt_nil. specialize (I1 c). unfold tot in I1. fold c0 in I1.
      destruct (Nat.eqb_spec c c0) as [Q|Q].
      * subst c. rewrite !N0 in I1. rewrite Nat.ltb_irrefl in I1. cbn [y cran cdrop]. lia.
      * lia.
    + intros c. unfold with_thr, with_tokens, with_queue, G at 1 2. cbn [clos].
      fold (G ccanc 0 s1 c) (G cdrop 0 s1 c). rewrite !G1.
      destruct (Nat.eqb_spec c c0) as [Q|Q]; [reflexivity|apply I2].
Qed.

(* "pre-invariant" of a thread that carries a list q on its stack: q is counted in `extra` *)
Definition TotX (s : st) (q : list nat) (old : pc) : Prop :=
  forall c, tot s c + cnt c q = (if Nat.ltb c (length (clos s)) then 1 else 0) + qof c old.

Lemma totx_valid s t q old : T s t = Some old -> TotX s q old ->
  (forall c, length (clos s) <= c -> cnt c q = 0) /\ (forall c, length (clos s) <= c -> cnt c (queue s) = 0).
Proof.
  intros H Ht. split; intros c L; specialize (Ht c);
    assert (Lb : Nat.ltb c (length (clos s)) = false) by (apply Nat.ltb_ge; lia);
    rewrite Lb in Ht; pose proof (sumq_ge c (thrs s) t old H); unfold tot in Ht; lia.
Qed.

(* stop() returns to the caller: a_tot for the state in which the caller's pc no longer holds anything *)
Lemma inva_returned s t a old : T s t = Some old -> TotX s [] old -> CancOK s -> InvA (fst (returned s t a)).
Proof.
  intros H Ht C.
  destruct (totx_valid s t [] old H Ht) as [_ VQ2].
  assert (SIMPLE : forall p, (forall c, qof c p = 0) -> InvA (with_thr s t p)).
  { intros p Qp. constructor.
    - intros c. pose proof (tot_with_thr s t p old c H) as E. rewrite Qp in E. specialize (Ht c). rewrite cnt_nil in Ht.
      unfold with_thr at 2. cbn [clos]. lia.
    - apply (canc_same_clos s); [reflexivity|exact C]. }
  unfold returned. destruct a as [prog| |d r].
  - cbn [fst]. apply SIMPLE. intros c. apply (pc_after_q c t (AClient prog)).
  - pose proof (drop_all_rel t s (queue s)) as D2.
    destruct (drop_all t s (queue s)) as [s2 e2] eqn:E2. cbn [fst] in D2. cbn [fst].
    assert (T2 : thrs s2 = thrs s).
    { destruct D2 as [h _ _ _ _ _]. destruct h as (_ & _ & _ & _ & _ & _ & ht & _). exact ht. }
    assert (L2 : length (clos s2) = length (clos s)).
    { destruct D2 as [h _ _ _ _ _]. destruct h as (_ & _ & _ & _ & _ & _ & _ & hl & _). exact hl. }
    constructor.
    + intros c. unfold tot, with_thr, dead, G at 1 2. cbn [clos queue thrs]. fold (G cran 0 s2 c) (G cdrop 0 s2 c).
      rewrite cnt_nil, L2, T2.
      destruct D2 as [_ r2 _ _ d2 _]. rewrite r2, d2.
      rewrite (cntv_valid s c (queue s) (VQ2 c)).
      specialize (Ht c). rewrite cnt_nil in Ht. unfold tot in Ht.
      pose proof (sumq_set_nth c (thrs s) t CDone old H) as E3. cbn [qof] in E3. lia.
    + apply (canc_same_clos s2); [reflexivity|]. eapply canc_drop; eassumption.
  - cbn [fst]. apply SIMPLE. intros c. apply (pc_after_q c t (AWorker d r)).
Qed.

(* end of the join loop: the swapped-out list q dies *)
Lemma inva_stop_end s t q first a old : T s t = Some old -> TotX s q old -> CancOK s ->
  InvA (fst (stop_end s t q first a)).
Proof.
  intros H Ht C.
  destruct (totx_valid s t q old H Ht) as [VQ VQ2].
  unfold stop_end. pose proof (drop_all_rel t s q) as D.
  destruct (drop_all t s q) as [s1 e] eqn:E1. cbn [fst] in D.
  assert (T1 : T s1 t = Some old).
  { unfold T. destruct D as [h _ _ _ _ _]. destruct h as (_ & _ & _ & _ & _ & _ & ht & _). rewrite ht. exact H. }
  assert (L1 : length (clos s1) = length (clos s)).
  { destruct D as [h _ _ _ _ _]. destruct h as (_ & _ & _ & _ & _ & _ & _ & hl & _). exact hl. }
  assert (C1 : CancOK s1) by (eapply canc_drop; eassumption).
  assert (TOT1 : TotX s1 [] old).
  { intros c. rewrite cnt_nil, (tot_drop s s1 q c D), (cntv_valid s c q (VQ c)), L1. specialize (Ht c). lia. }
  destruct first.
  - cbn [fst]. constructor.
    + intros c. pose proof (tot_with_thr s1 t (SFin a) old c T1) as E. cbn [qof] in E. specialize (TOT1 c).
      rewrite cnt_nil in TOT1. unfold with_thr at 2. cbn [clos]. lia.
    + apply (canc_same_clos s1); [reflexivity|exact C1].
  - pose proof (inva_returned s1 t a old T1 TOT1 C1) as R.
    destruct (returned s1 t a) as [s2 e2]. exact R.
Qed.

Lemma inva_after_wait s t l q first a old : T s t = Some old -> TotX s q old -> CancOK s ->
  InvA (fst (after_wait s t l q first a)).
Proof.
  intros H Ht C. unfold after_wait. destruct l as [|w l].
  - apply (inva_stop_end s t q first a old); assumption.
  - cbn [fst]. constructor.
    + intros c. pose proof (tot_with_thr s t (Join (w :: l) q first a) old c H) as E. cbn [qof] in E.
      specialize (Ht c). unfold with_thr at 2. cbn [clos]. lia.
    + apply (canc_same_clos s); [reflexivity|exact C].
Qed.

Lemma inva_stop_mark s t a old : InvA s -> T s t = Some old -> (forall c, qof c old = 0) ->
  InvA (fst (stop_mark s t a)).
Proof.
  intros [I1 I2] H Qo. unfold stop_mark.
  set (s1 := marked s (sleeper_ids s)).
  set (a' := match a with AWorker _ r => AWorker (existsb (Nat.eqb t) (threads s)) r | _ => a end).
  set (l := filter (fun w => negb (Nat.eqb w t)) (threads s)).
  assert (TX : TotX s1 (queue s) old).
  { intros c. unfold tot, s1, marked, G. cbn [clos queue thrs]. rewrite cnt_nil, Qo.
    specialize (I1 c). unfold tot, G in I1. lia. }
  assert (C1 : CancOK s1) by (apply (canc_same_clos s); [reflexivity|exact I2]).
  assert (H1 : T s1 t = Some old) by exact H.
  destruct (negb (negb (exit_ s)) && negb (is_cur a) && negb (stopped s)).
  - cbn [fst]. constructor.
    + intros c. pose proof (tot_with_thr s1 t (SWait l (queue s) a') old c H1) as E. cbn [qof] in E.
      specialize (TX c). unfold with_thr at 2. cbn [clos]. change (clos s1) with (clos s) in *. lia.
    + apply (canc_same_clos s); [reflexivity|exact I2].
  - apply (inva_after_wait s1 t l (queue s) (negb (exit_ s)) a' old); assumption.
Qed.

Lemma inva_run_job s w c0 r old : InvA s -> queue s = c0 :: r -> T s w = Some old -> (forall c, qof c old = 0) ->
  InvA (fst (run_job (with_queue s r) w c0)).
Proof.
  intros [I1 I2] Q H Qo.
  assert (L : c0 < length (clos s)).
  { specialize (I1 c0). destruct (Nat.ltb_spec c0 (length (clos s))); [assumption|].
    unfold tot in I1. rewrite Q, cnt_cons, Nat.eqb_refl in I1. lia. }
  unfold run_job. replace (clos (with_queue s r)) with (clos s) by reflexivity.
  destruct (nth_error (clos s) c0) as [x|] eqn:E; [|apply nth_error_None in E; lia].
  set (x' := mkClo (clbl x) (ck x) (cb x) (S (cran x)) w (cdrop x) (ccanc x)).
  set (p := job_next (cb x)).
  assert (Qp : forall c, qof c p = 0) by (intros c; apply job_next_q).
  assert (Lb : Nat.ltb c0 (length (clos s)) = true) by (apply Nat.ltb_lt; exact L).
  cbn [fst]. constructor.
  - intros c. unfold tot, with_thr, with_clos, with_queue, G at 1 2. cbn [clos queue thrs].
    rewrite set_nth_length.
    change (match nth_error (set_nth (clos s) c0 x') c with Some x0 => cran x0 | None => 0 end)
      with (G cran 0 (with_clos s (set_nth (clos s) c0 x')) c).
    change (match nth_error (set_nth (clos s) c0 x') c with Some x0 => cdrop x0 | None => 0 end)
      with (G cdrop 0 (with_clos s (set_nth (clos s) c0 x')) c).
    rewrite !G_set, Lb.
    pose proof (sumq_set_nth c (thrs s) w p old H) as E1. rewrite Qo, Qp in E1.
    specialize (I1 c). unfold tot in I1. rewrite Q, cnt_cons in I1.
    destruct (Nat.eqb_spec c0 c) as [QQ|QQ].
    + subst c. rewrite Nat.eqb_refl in I1. rewrite !(G_some _ _ _ _ _ E) in I1. cbn [x' cran cdrop]. lia.
    + assert (Q2 : Nat.eqb c c0 = false) by (apply Nat.eqb_neq; congruence). rewrite Q2 in I1. lia.
  - intros c. unfold with_thr, with_clos, with_queue, G at 1 2. cbn [clos].
    change (match nth_error (set_nth (clos s) c0 x') c with Some x0 => ccanc x0 | None => 0 end)
      with (G ccanc 0 (with_clos s (set_nth (clos s) c0 x')) c).
    change (match nth_error (set_nth (clos s) c0 x') c with Some x0 => cdrop x0 | None => 0 end)
      with (G cdrop 0 (with_clos s (set_nth (clos s) c0 x')) c).
    rewrite !G_set, Lb. specialize (I2 c).
    destruct (Nat.eqb_spec c0 c) as [QQ|QQ]; [|exact I2].
    subst c. rewrite !(G_some _ _ _ _ _ E) in I2. exact I2.
Qed.

Lemma exit_pc_q c s w : qof c (exit_pc s w) = 0.
Proof. unfold exit_pc. destruct (Nat.ltb w (nclients s)); [apply next_client_q|reflexivity]. Qed.

Lemma inva_worker_cs s w old : InvA s -> T s w = Some old -> (forall c, qof c old = 0) -> InvA (fst (worker_cs s w)).
Proof.
  intros I H Qo. unfold worker_cs.
  destruct (exit_ s) eqn:EX.
  - cbn [fst]. apply (inva_with_thr s w _ old I H). intros c. rewrite Qo. apply exit_pc_q.
  - destruct (queue s) as [|c0 r] eqn:QQ.
    + cbn [fst]. apply (inva_with_thr s w _ old I H). intros c. rewrite Qo. reflexivity.
    + apply (inva_run_job s w c0 r old); auto.
Qed.

Theorem inva_core s i : InvA s -> enabled s i = true -> InvA (cstep s i).
Proof.
  intros I EN. unfold cstep, core. unfold enabled in EN.
  destruct (nth_error (thrs s) i) as [p|] eqn:H; [|discriminate].
  destruct p as [prog| | | | | |l k r|l r|l r|r|q r|wl r| |l q f a|l q a|a].
  - destruct prog as [|[l k b| | |wl] r].
    + cbn [fst]. apply (inva_with_thr s i _ (CAt []) I H). intros c. apply next_client_q.
    + pose proof (inva_enqueue s i l k b (next_client i r) (CAt (OSub l k b :: r)) I H) as E.
      destruct (enqueue s i l k b) as [s1 e]. cbn [fst] in *. apply E; [reflexivity|]. intros c. apply next_client_q.
    + pose proof (inva_stop_mark s i (AClient r) _ I H) as E.
      destruct (stop_mark s i (AClient r)) as [s1 e]. cbn [fst] in *. apply E. reflexivity.
    + assert (I' : InvA (with_ext s i r)) by (apply (inva_ext s); auto).
      pose proof (inva_worker_cs (with_ext s i r) i (CAt (OWorker :: r)) I' H) as E.
      destruct (worker_cs (with_ext s i r) i) as [s1 e]. cbn [fst] in *. apply E. reflexivity.
    + cbn [fst]. apply (inva_with_thr s i _ (CAt (OWait wl :: r)) I H). intros c. apply next_client_q.
  - cbn [fst]. apply (inva_with_thr s i _ CXWait I H). reflexivity.
  - pose proof (inva_stop_mark s i ADtor _ I H) as E.
    destruct (stop_mark s i ADtor) as [s1 e]. cbn [fst] in *. apply E. reflexivity.
  - discriminate.
  - pose proof (inva_worker_cs s i WIdle I H) as E.
    destruct (worker_cs s i) as [s1 e]. cbn [fst] in *. apply E. reflexivity.
  - assert (I' : InvA (wake s i)).
    { apply (inva_ext s); auto; unfold wake; destruct (is_woken s i); reflexivity. }
    assert (H' : T (wake s i) i = Some WSleep) by (unfold T, wake; destruct (is_woken s i); exact H).
    pose proof (inva_worker_cs (wake s i) i WSleep I' H') as E.
    destruct (worker_cs (wake s i) i) as [s1 e]. cbn [fst] in *. apply E. reflexivity.
  - pose proof (inva_enqueue s i l k [] (job_next r) (WSub l k r) I H) as E.
    destruct (enqueue s i l k []) as [s1 e]. cbn [fst] in *. apply E; [reflexivity|]. intros c. apply job_next_q.
  - pose proof (inva_enqueue s i l KHop r WIdle (WHop l r) I H) as E.
    destruct (enqueue s i l KHop r) as [s1 e]. cbn [fst] in *. apply E; reflexivity.
  - cbn [fst]. apply (inva_with_thr s i _ (WPeek l r) I H). intros c.
    destruct (exit_ s); [apply job_next_q|reflexivity].
  - pose proof (inva_stop_mark s i (AWorker false r) _ I H) as E.
    destruct (stop_mark s i (AWorker false r)) as [s1 e]. cbn [fst] in *. apply E. reflexivity.
  - cbn [fst]. apply (inva_with_thr s i _ (WQry q r) I H). intros c. apply job_next_q.
  - cbn [fst]. apply (inva_with_thr s i _ (WWait wl r) I H). intros c. apply job_next_q.
  - discriminate.
  - assert (SE : InvA (fst (stop_end s i q f a))).
    { apply (inva_stop_end s i q f a (Join l q f a)); [exact H| |exact (a_canc s I)].
      intros c. rewrite (a_tot s I c). cbn [qof]. lia. }
    destruct l as [|w0 [|w1 l]].
    + destruct (stop_end s i q f a) as [s1 e]. exact SE.
    + destruct (stop_end s i q f a) as [s1 e]. exact SE.
    + cbn [fst]. apply (inva_with_thr s i _ (Join (w0 :: w1 :: l) q f a) I H). reflexivity.
  - assert (I' : InvA (wake s i)).
    { apply (inva_ext s); auto; unfold wake; destruct (is_woken s i); reflexivity. }
    assert (H' : T (wake s i) i = Some (SWait l q a)) by (unfold T, wake; destruct (is_woken s i); exact H).
    destruct (stopped s).
    + pose proof (inva_after_wait (wake s i) i l q false a _ H') as E.
      destruct (after_wait (wake s i) i l q false a) as [s1 e]. cbn [fst] in *. apply E; [|exact (a_canc _ I')].
      intros c. rewrite (a_tot _ I' c). cbn [qof]. lia.
    + cbn [fst]. exact I'.
  - assert (I' : InvA (finished s (sleeper_ids s))) by (apply (inva_ext s); auto).
    pose proof (inva_returned (finished s (sleeper_ids s)) i a (SFin a) H) as E.
    destruct (returned (finished s (sleeper_ids s)) i a) as [s1 e]. cbn [fst] in *. apply E; [|exact (a_canc _ I')].
    intros c. rewrite cnt_nil, (a_tot _ I' c). cbn [qof]. lia.
Qed.

Lemma step_core s i : step s i = cstep s i \/ step s i = with_uad (cstep s i) true.
Proof.
  unfold step, cstep, tstep. destruct (core s i) as [[s1 p] e]. cbn [fst].
  destruct (match nth_error (thrs s) i with Some p0 => destroyed s && touches p0 | None => false end); auto.
Qed.

Theorem inva_step s i : InvA s -> enabled s i = true -> InvA (step s i).
Proof.
  intros I EN. pose proof (inva_core s i I EN) as C.
  destruct (step_core s i) as [-> | ->]; [exact C|]. apply (inva_ext (cstep s i)); auto.
Qed.

Theorem inva_reachable ops s : reachable ops s -> InvA s.
Proof. induction 1; [apply inva_init|apply inva_step; assumption]. Qed.

(* ---------- what the pieces of a step do to everything except the closure counters ---------- *)
Definition fin_pc (t : nat) (first : bool) (a : after) : pc := if first then SFin a else pc_after t a.
Definition is_dtor (a : after) : bool := match a with ADtor => true | _ => false end.

(* the fields stop_end / returned / drop never change *)
Definition env_eq (s s' : st) : Prop :=
  exit_ s' = exit_ s /\ stopped s' = stopped s /\ threads s' = threads s /\ tokens s' = tokens s /\ woken s' = woken s /\
  nclients s' = nclients s /\ cont s' = cont s /\ extw s' = extw s /\ uad s' = uad s.
Definition gkeep (s s' : st) : Prop :=
  (forall c, G cb [] s' c = G cb [] s c) /\ (forall c, G cran 0 s' c = G cran 0 s c) /\
  (forall c, G cran_on 0 s' c = G cran_on 0 s c) /\ length (clos s') = length (clos s).

Lemma drop_env t s l : env_eq s (fst (drop_all t s l)) /\ gkeep s (fst (drop_all t s l)) /\
  queue (fst (drop_all t s l)) = queue s /\ destroyed (fst (drop_all t s l)) = destroyed s /\
  thrs (fst (drop_all t s l)) = thrs s.
Proof.
  destruct (drop_all_rel t s l) as [h r o b d cc].
  destruct h as (hq & he & ht & hk & hd & hn & hth & hl & hs & hw & hc & hx & hu).
  unfold env_eq, gkeep. repeat split; auto.
Qed.

Lemma returned_shell s t a : forall s', s' = fst (returned s t a) ->
  env_eq s s' /\ gkeep s s' /\
  queue s' = (if is_dtor a then [] else queue s) /\
  destroyed s' = (if is_dtor a then true else destroyed s) /\
  thrs s' = set_nth (thrs s) t (pc_after t a).
Proof.
  intros s' ->. unfold returned.
  destruct a as [prog| |d r].
  - cbn [fst is_dtor]. unfold env_eq, gkeep, with_thr. cbn. repeat split; auto.
  - destruct (drop_env t s (queue s)) as (E & K & Q & D & Th).
    destruct (drop_all t s (queue s)) as [s1 e]. cbn [fst] in *. cbn [is_dtor pc_after].
    unfold env_eq, gkeep, with_thr, dead in *. cbn [queue exit_ stopped threads tokens woken destroyed nclients clos thrs cont extw uad].
    rewrite Th. unfold G in *. cbn [clos]. intuition.
  - cbn [fst is_dtor]. unfold env_eq, gkeep, with_thr. cbn. repeat split; auto.
Qed.

Lemma env_trans a b c : env_eq a b -> env_eq b c -> env_eq a c.
Proof. unfold env_eq. intuition congruence. Qed.
Lemma gkeep_trans a b c : gkeep a b -> gkeep b c -> gkeep a c.
Proof.
  unfold gkeep. intros (x1 & x2 & x3 & x4) (y1 & y2 & y3 & y4). split; [|split; [|split]].
  - intros. rewrite y1, x1. reflexivity.
  - intros. rewrite y2, x2. reflexivity.
  - intros. rewrite y3, x3. reflexivity.
  - congruence.
Qed.

Lemma stop_end_shell s t q first a : forall s', s' = fst (stop_end s t q first a) ->
  env_eq s s' /\ gkeep s s' /\
  queue s' = (if negb first && is_dtor a then [] else queue s) /\
  destroyed s' = (if negb first && is_dtor a then true else destroyed s) /\
  thrs s' = set_nth (thrs s) t (fin_pc t first a).
Proof.
  intros s' ->. unfold stop_end.
  destruct (drop_env t s q) as (E & K & Q & D & Th).
  destruct (drop_all t s q) as [s1 e]. cbn [fst] in *.
  destruct first; cbn [negb andb fin_pc].
  - cbn [fst]. unfold env_eq, gkeep, with_thr in *. cbn [queue exit_ stopped threads tokens woken destroyed nclients clos thrs cont extw uad].
    rewrite Th. unfold G in *. cbn [clos]. intuition.
  - destruct (returned_shell s1 t a _ eq_refl) as (E2 & K2 & Q2 & D2 & Th2).
    destruct (returned s1 t a) as [s2 e2]. cbn [fst] in *.
    split; [eapply env_trans; eassumption|]. split; [eapply gkeep_trans; eassumption|].
    rewrite Q2, D2, Th2, Q, D, Th. auto.
Qed.

Lemma after_wait_shell s t l q first a : forall s', s' = fst (after_wait s t l q first a) ->
  env_eq s s' /\ gkeep s s' /\
  queue s' = (if (match l with [] => true | _ => false end) && negb first && is_dtor a then [] else queue s) /\
  destroyed s' = (if (match l with [] => true | _ => false end) && negb first && is_dtor a then true else destroyed s) /\
  thrs s' = set_nth (thrs s) t (match l with [] => fin_pc t first a | _ => Join l q first a end).
Proof.
  intros s' ->. unfold after_wait. destruct l as [|w l].
  - cbn [andb]. apply (stop_end_shell s t q first a). reflexivity.
  - cbn [fst andb]. unfold env_eq, gkeep, with_thr. cbn. repeat split; auto.
Qed.

Lemma enqueue_shell s t l k b : forall s', s' = fst (enqueue s t l k b) ->
  queue s' = (if exit_ s || throws k then queue s else queue s ++ [length (clos s)]) /\ exit_ s' = exit_ s /\ stopped s' = stopped s /\
  threads s' = threads s /\
  tokens s' = (if exit_ s || throws k then tokens s else if Nat.ltb (tokens s + length (woken s)) (sleepers s) then S (tokens s) else tokens s) /\
  woken s' = woken s /\ destroyed s' = destroyed s /\ nclients s' = nclients s /\ thrs s' = thrs s /\
  cont s' = cont s /\ extw s' = extw s /\ uad s' = uad s /\ length (clos s') = S (length (clos s)) /\
  (forall c, G cb [] s' c = if Nat.eqb c (length (clos s)) then b else G cb [] s c) /\
  (forall c, G cran 0 s' c = if Nat.eqb c (length (clos s)) then 0 else G cran 0 s c) /\
  (forall c, G cran_on 0 s' c = if Nat.eqb c (length (clos s)) then 0 else G cran_on 0 s c).
Proof.
  intros s' ->. unfold enqueue.
  set (s1 := with_clos s (clos s ++ [mkClo l k b 0 0 0 0])).
  assert (L1 : length (clos s1) = S (length (clos s))) by (unfold s1, with_clos; cbn [clos]; rewrite app_length; cbn; lia).
  destruct (exit_ s || throws k) eqn:EX.
  - pose proof (drop1_rel t s1 [] (length (clos s))) as D.
    destruct D as [h r o bb d cc]. destruct h as (hq & he & ht & hk & hd & hn & hth & hl & hs & hw & hc & hx & hu).
    rewrite hq, he, ht, hk, hd, hn, hth, hl, hs, hw, hc, hx, hu, L1.
    unfold s1 at 1 2 3 4 5 6 7 8 9 10 11 12. cbn [with_clos queue exit_ stopped threads tokens woken destroyed nclients thrs cont extw uad].
    repeat split; auto; intros c; [rewrite bb|rewrite r|rewrite o]; unfold s1; rewrite G_app; reflexivity.
  - cbn [fst]. unfold with_tokens, with_queue. cbn [queue exit_ stopped threads tokens woken destroyed nclients thrs cont extw uad clos].
    repeat split; auto; intros c; unfold G at 1; cbn [clos];
      [fold (G cb [] s1 c)|fold (G cran 0 s1 c)|fold (G cran_on 0 s1 c)]; unfold s1; rewrite G_app; reflexivity.
Qed.

(* ---------- invariant B: basic safety facts ---------- *)
Definition in_stop (p : pc) : bool := match p with Join _ _ _ _ | SWait _ _ _ | SFin _ => true | _ => false end.

(* the thread found its own entry in _threads, detached it and reset _current *)
Definition det_after (a : after) : bool := match a with AWorker true _ => true | _ => false end.
Definition det_of (p : pc) : bool := match p with Join _ _ _ a | SWait _ _ a | SFin a => det_after a | _ => false end.

Record InvB (s : st) : Prop := {
  b_exit : exit_ s = true -> queue s = [] /\ threads s = [];
  b_destr : destroyed s = true -> exit_ s = true /\ stopped s = true;
  b_stopped : stopped s = true -> exit_ s = true;
  b_ncl : 0 < nclients s <= length (thrs s);
  b_class : forall i p, T s i = Some p -> (nclients s <= i -> is_client p = false) /\ (i < nclients s -> p <> WExit);
  b_done0 : T s 0 = Some CDone -> destroyed s = true;
  b_ran : forall c, 1 <= G cran 0 s c ->
            G cran_on 0 s c < length (thrs s) /\ (nclients s <= G cran_on 0 s c \/ In (G cran_on 0 s c) (extw s));
  b_join : forall i p, T s i = Some p -> in_stop p = true -> exit_ s = true;
  b_first : forall i l q f a, T s i = Some (Join l q f a) -> f = true;
  b_swait : forall i l q a, T s i = Some (SWait l q a) -> l = [] /\ q = [] /\ is_cur a = false;
  b_thr : forall w, In w (threads s) -> nclients s <= w < length (thrs s);
  b_ext : forall i p, T s i = Some p -> i < nclients s -> is_client p = false -> In i (extw s);
  b_det : forall i p, T s i = Some p -> i < nclients s -> det_of p = false;
  b_thrlen : length (threads s) <= length (thrs s)
}.

Lemma TT_set s s' i p old : T s i = Some old -> thrs s' = set_nth (thrs s) i p ->
  forall j, T s' j = if Nat.eqb i j then Some p else T s j.
Proof.
  intros H Et j. pose proof (T_lt s i old H) as L. unfold T. rewrite Et. destruct (Nat.eqb_spec i j) as [E|E].
  - subst. apply nth_error_set_nth_same. exact L.
  - apply nth_error_set_nth_other. exact E.
Qed.

Definition RanOK (s : st) (n : nat) (m : nat) (x : list nat) : Prop :=
  forall c, 1 <= G cran 0 s c -> G cran_on 0 s c < n /\ (m <= G cran_on 0 s c \/ In (G cran_on 0 s c) x).

Lemma invb_frame s s' i p old : InvB s -> T s i = Some old ->
  thrs s' = set_nth (thrs s) i p -> nclients s' = nclients s ->
  (nclients s <= i -> is_client p = false) -> (i < nclients s -> p <> WExit) ->
  (exit_ s' = true -> queue s' = [] /\ threads s' = []) ->
  (destroyed s' = true -> exit_ s' = true /\ stopped s' = true) ->
  (stopped s' = true -> exit_ s' = true) ->
  (i = 0 -> p = CDone -> destroyed s' = true) -> (destroyed s = true -> destroyed s' = true) ->
  RanOK s' (length (thrs s)) (nclients s) (extw s') ->
  (exit_ s = true -> exit_ s' = true) -> (in_stop p = true -> exit_ s' = true) ->
  (forall l q f a, p = Join l q f a -> f = true) ->
  (forall l q a, p = SWait l q a -> l = [] /\ q = [] /\ is_cur a = false) ->
  (threads s' = threads s \/ threads s' = []) ->
  (i < nclients s -> is_client p = false -> In i (extw s')) -> (forall z, In z (extw s) -> In z (extw s')) ->
  (i < nclients s -> det_of p = false) ->
  InvB s'.
Proof.
  intros [B1 B2 B3 B4 B5 B6 B7 B8 B9 B10 B11 B12 B13 B14] H Et En Pc1 Pc2 X1 X2 X3 X4 X5 X6 X7 X8 X9 X10 X11 X12 X13 X14.
  pose proof (TT_set s s' i p old H Et) as TT.
  assert (LEN : length (thrs s') = length (thrs s)) by (rewrite Et; apply set_nth_length).
  constructor; auto.
  - rewrite En, LEN. exact B4.
  - intros j pj. rewrite TT, En. destruct (Nat.eqb_spec i j) as [E|E].
    + intros Q. inversion Q; subst. auto.
    + apply B5.
  - rewrite TT. destruct (Nat.eqb_spec i 0) as [E|E].
    + intros Q. inversion Q. apply X4; auto.
    + intros Q. apply X5, B6, Q.
  - intros c Hc. rewrite En, LEN. apply X6, Hc.
  - intros j pj. rewrite TT. destruct (Nat.eqb_spec i j) as [E|E].
    + intros Q. inversion Q; subst. exact X8.
    + intros Q I. eapply X7, B8; eassumption.
  - intros j l q f a. rewrite TT. destruct (Nat.eqb_spec i j) as [E|E].
    + intros Q. inversion Q. eapply X9; eauto.
    + apply B9.
  - intros j l q a. rewrite TT. destruct (Nat.eqb_spec i j) as [E|E].
    + intros Q. inversion Q. eapply X10; eauto.
    + apply B10.
  - intros w Hin. rewrite En, LEN. destruct X11 as [F|F]; rewrite F in Hin; [apply B11, Hin|contradiction].
  - intros j pj. rewrite TT, En. destruct (Nat.eqb_spec i j) as [E|E].
    + intros Q. inversion Q; subst. auto.
    + intros Q L C. apply X13. eapply B12; eassumption.
  - intros j pj. rewrite TT, En. destruct (Nat.eqb_spec i j) as [E|E].
    + intros Q. inversion Q; subst. auto.
    + apply B13.
  - rewrite LEN. destruct X11 as [F|F]; rewrite F; [exact B14|cbn; lia].
Qed.

Lemma set_nth_same_id {A} (l : list A) : forall i x, nth_error l i = Some x -> set_nth l i x = l.
Proof. induction l as [|y l IH]; intros [|i] x H; cbn in *; try discriminate; [inversion H; reflexivity|f_equal; auto]. Qed.
Lemma plain_det p : in_stop p = false -> det_of p = false.
Proof. destruct p; cbn; congruence. Qed.

Lemma next_client_client i r : is_client (next_client i r) = true.
Proof. unfold next_client. destruct r; [destruct (Nat.eqb i 0)|]; reflexivity. Qed.
Lemma next_client_plain i r : in_stop (next_client i r) = false /\ next_client i r <> WExit /\
  (i = 0 -> next_client i r <> CDone).
Proof. unfold next_client. destruct r; [destruct (Nat.eqb_spec i 0)|]; repeat split; try discriminate; intros; try discriminate; lia. Qed.
Lemma job_next_plain r : in_stop (job_next r) = false /\ job_next r <> WExit /\ job_next r <> CDone /\ is_client (job_next r) = false.
Proof. destruct r as [|[] r]; repeat split; discriminate. Qed.

(* who may be where: thread i's current pc tells whether it is a client thread *)
Lemma client_lt s i p : InvB s -> T s i = Some p -> is_client p = true -> i < nclients s.
Proof.
  intros B H C. destruct (Nat.ltb_spec i (nclients s)); [assumption|].
  destruct (b_class s B i p H) as [X _]. rewrite (X H0) in C. discriminate.
Qed.

Lemma ranok_same s s' n m x : (forall c, G cran 0 s' c = G cran 0 s c) -> (forall c, G cran_on 0 s' c = G cran_on 0 s c) ->
  RanOK s n m x -> RanOK s' n m x.
Proof. intros E1 E2 R c. rewrite E1, E2. apply R. Qed.
Lemma ranok_of s : InvB s -> RanOK s (length (thrs s)) (nclients s) (extw s).
Proof. intros B. exact (b_ran s B). Qed.
Lemma ranok_ext s n m x y : RanOK s n m x -> (forall z, In z x -> In z y) -> RanOK s n m y.
Proof. intros R S c Hc. destruct (R c Hc) as [A [Bq|Bq]]; auto. Qed.

(* a thread moves to a plain pc; nothing else changes *)
Lemma invb_same s i p old : InvB s -> T s i = Some old ->
  (nclients s <= i -> is_client p = false) -> (i < nclients s -> p <> WExit) -> (i = 0 -> p <> CDone) ->
  (in_stop p = true -> in_stop old = true) ->
  (forall l q f a, p = Join l q f a -> f = true) -> (forall l q a, p <> SWait l q a) ->
  (is_client p = false -> is_client old = false) ->
  (i < nclients s -> det_of p = false) ->
  InvB (with_thr s i p).
Proof.
  intros B H P1 P2 P3 P4 P5 P6 P7 P8.
  apply (invb_frame s _ i p old B H); unfold with_thr; cbn [queue exit_ stopped threads tokens woken destroyed nclients thrs extw]; auto.
  - apply (b_exit s B).
  - apply (b_destr s B).
  - apply (b_stopped s B).
  - intros E Q. exfalso. apply (P3 E Q).
  - apply (ranok_same s); [reflexivity|reflexivity|exact (b_ran s B)].
  - intros X. apply (b_join s B i old H). auto.
  - intros l q a E. exfalso. eapply P6, E.
  - intros L C. apply (b_ext s B i old H L). auto.
Qed.

Lemma invb_enqueue s i l k b p old : InvB s -> T s i = Some old ->
  (nclients s <= i -> is_client p = false) -> (i < nclients s -> p <> WExit) -> (i = 0 -> p <> CDone) ->
  in_stop p = false -> (is_client p = false -> is_client old = false) ->
  InvB (with_thr (fst (enqueue s i l k b)) i p).
Proof.
  intros B H P1 P2 P3 P4 P7.
  destruct (enqueue_shell s i l k b _ eq_refl) as (hq & he & hs & ht & hk & hw & hd & hn & hth & hc & hx & hu & hl & hb & hr & ho).
  set (s1 := fst (enqueue s i l k b)) in *.
  apply (invb_frame s _ i p old B H); unfold with_thr; cbn [queue exit_ stopped threads tokens woken destroyed nclients thrs extw].
  - rewrite hth. reflexivity.
  - exact hn.
  - exact P1.
  - exact P2.
  - rewrite he, hq, ht. intros X. rewrite X. cbn [orb]. apply (b_exit s B X).
  - rewrite he, hd, hs. apply (b_destr s B).
  - rewrite he, hs. apply (b_stopped s B).
  - intros E Q. exfalso. apply (P3 E Q).
  - rewrite hd. auto.
  - rewrite hx. intros c. unfold G. cbn [clos]. fold (G cran 0 s1 c) (G cran_on 0 s1 c).
    rewrite hr, ho. destruct (Nat.eqb c (length (clos s))); [lia|exact (b_ran s B c)].
  - rewrite he. auto.
  - rewrite P4. discriminate.
  - intros l0 q f a E. subst p. discriminate.
  - intros l0 q a E. subst p. discriminate.
  - left. exact ht.
  - rewrite hx. intros L C. apply (b_ext s B i old H L). auto.
  - rewrite hx. auto.
  - intros _. apply plain_det, P4.
Qed.

Lemma pc_after_class t a : is_client (pc_after t a) = is_client_after a.
Proof. destruct a as [r| |[|] r]; cbn [pc_after is_client_after]; try reflexivity; [apply next_client_client|apply job_next_plain]. Qed.
Lemma pc_after_plain t a : in_stop (pc_after t a) = false.
Proof. destruct a as [r| |[|] r]; cbn [pc_after]; try reflexivity; [apply next_client_plain|apply job_next_plain]. Qed.
Lemma fin_pc_class t f a : is_client (fin_pc t f a) = is_client_after a.
Proof. destruct f; cbn [fin_pc is_client]; [reflexivity|apply pc_after_class]. Qed.

(* the join loop ends (or never starts): common part of stop_mark / Join / SWait steps.
   s0 is the state right after the critical section resp. the wake-up; the caller's old pc is `old`. *)
Lemma invb_after_wait s s0 t l q first a old : InvB s -> T s t = Some old ->
  thrs s0 = thrs s -> nclients s0 = nclients s -> clos s0 = clos s -> extw s0 = extw s ->
  exit_ s0 = true -> queue s0 = [] -> threads s0 = [] -> destroyed s0 = destroyed s -> stopped s0 = stopped s ->
  is_client old = is_client_after a ->
  (l <> [] -> first = true) ->
  (first = false -> is_dtor a = true -> stopped s = true) ->
  (t = 0 -> first = false -> is_client_after a = true -> is_dtor a = true \/ pc_after t a <> CDone) ->
  (nclients s <= t -> first = false -> pc_after t a <> WExit -> True) ->
  (t < nclients s -> fin_pc t first a <> WExit) ->
  (t < nclients s -> det_after a = false) ->
  InvB (fst (after_wait s0 t l q first a)).
Proof.
  intros B H Et En Ec Ex EX Q0 Th0 Ed Es Cl LF DS D0 _ NW DET.
  destruct (after_wait_shell s0 t l q first a _ eq_refl) as (E & K & Q & D & Th).
  set (s' := fst (after_wait s0 t l q first a)) in *.
  destruct E as (e1 & e2 & e3 & e4 & e5 & e6 & e7 & e8 & e9).
  destruct K as (k1 & k2 & k3 & k4).
  set (p := match l with [] => fin_pc t first a | _ => Join l q first a end) in *.
  assert (PC : is_client p = is_client_after a).
  { unfold p. destruct l; [apply fin_pc_class|reflexivity]. }
  apply (invb_frame s _ t p old B H).
  - rewrite Th, Et. reflexivity.
  - congruence.
  - intros L. rewrite PC, <- Cl. apply (b_class s B t old H). exact L.
  - intros L. unfold p. destruct l; [apply NW, L|discriminate].
  - intros _. rewrite Q, e3, Q0, Th0. destruct (_ && _ && _); auto.
  - rewrite D, e1, e2, EX, Es, Ed. destruct l as [|w l]; cbn [andb].
    + destruct first; cbn [negb andb].
      * intros X. split; [reflexivity|]. apply (b_destr s B X).
      * destruct (is_dtor a) eqn:DA.
        -- intros _. split; [reflexivity|]. apply DS; reflexivity.
        -- intros X. split; [reflexivity|]. apply (b_destr s B X).
    + intros X. split; [reflexivity|]. apply (b_destr s B X).
  - rewrite e1, EX. auto.
  - intros -> Qp. rewrite D, Ed. unfold p in Qp. destruct l as [|w l]; [|discriminate]. cbn [andb].
    destruct first; cbn [fin_pc] in Qp; [discriminate|]. cbn [negb andb].
    destruct a as [r| |d r]; cbn [is_dtor].
    + exfalso. destruct (D0 eq_refl eq_refl eq_refl) as [X|X]; [discriminate|]. apply X, Qp.
    + reflexivity.
    + cbn [pc_after] in Qp. destruct d; [discriminate|]. exfalso. apply (job_next_plain r). exact Qp.
  - rewrite D, Ed. intros X. rewrite X. destruct (_ && _ && _); reflexivity.
  - rewrite e8, Ex. apply (ranok_same s0).
    + exact k2.
    + exact k3.
    + intros c. unfold G. rewrite Ec. exact (b_ran s B c).
  - rewrite e1, EX. auto.
  - rewrite e1, EX. auto.
  - intros l0 q0 f a0 E. unfold p in E. destruct l as [|w l].
    + exfalso. destruct first; cbn [fin_pc] in E; [discriminate|]. pose proof (pc_after_plain t a) as X. rewrite E in X. discriminate.
    + inversion E; subst. apply LF. discriminate.
  - intros l0 q0 a0 E. exfalso. unfold p in E. destruct l as [|w l]; [|discriminate].
    destruct first; cbn [fin_pc] in E; [discriminate|]. pose proof (pc_after_plain t a) as X. rewrite E in X. discriminate.
  - right. rewrite e3. exact Th0.
  - rewrite e8, Ex, PC, <- Cl. intros L C. apply (b_ext s B t old H L C).
  - rewrite e8, Ex. auto.
  - intros L. unfold p. destruct l as [|w l]; [|cbn [det_of]; apply DET, L].
    destruct first; cbn [fin_pc det_of]; [apply DET, L|]. apply plain_det, pc_after_plain.
Qed.

Lemma filter_ne_in (t : nat) (l : list nat) w : In w (filter (fun x => negb (Nat.eqb x t)) l) -> w <> t /\ In w l.
Proof.
  intros H. apply filter_In in H. destruct H as [H1 H2]. split; [|exact H1].
  intros ->. rewrite Nat.eqb_refl in H2. discriminate.
Qed.

Lemma existsb_eqb_false t l : (forall w, In w l -> w <> t) -> existsb (Nat.eqb t) l = false.
Proof.
  induction l as [|x l IH]; intros F; [reflexivity|]. cbn [existsb].
  destruct (Nat.eqb_spec t x) as [E|E]; [exfalso; apply (F x); [left; reflexivity|auto]|].
  cbn. apply IH. intros w Hw. apply F. right. exact Hw.
Qed.

Lemma invb_stop_mark s t a old : InvB s -> T s t = Some old -> is_client old = is_client_after a ->
  in_stop old = false ->
  InvB (fst (stop_mark s t a)).
Proof.
  intros B H Cl NS. unfold stop_mark.
  set (s1 := marked s (sleeper_ids s)).
  set (a' := match a with AWorker _ r => AWorker (existsb (Nat.eqb t) (threads s)) r | _ => a end).
  set (l := filter (fun w => negb (Nat.eqb w t)) (threads s)).
  assert (CA : is_client_after a' = is_client_after a) by (unfold a'; destruct a; reflexivity).
  assert (CU : is_cur a' = is_cur a) by (unfold a'; destruct a; reflexivity).
  assert (DT : is_dtor a' = is_dtor a) by (unfold a'; destruct a; reflexivity).
  assert (NF : exit_ s = true -> l = [] /\ queue s = []).
  { intros X. destruct (b_exit s B X) as [Q Th]. unfold l. rewrite Th. auto. }
  assert (DETA : t < nclients s -> det_after a' = false).
  { intros L. unfold a'. destruct a as [r0| |d r0]; cbn [det_after]; auto.
    rewrite existsb_eqb_false; auto. intros w Hw E. subst w. pose proof (b_thr s B t Hw). lia. }
  destruct (negb (negb (exit_ s)) && negb (is_cur a) && negb (stopped s)) eqn:COND.
  - (* waits for the first stop *)
    apply andb_prop in COND. destruct COND as [COND C3]. apply andb_prop in COND. destruct COND as [C1 C2].
    assert (X : exit_ s = true) by (destruct (exit_ s); [reflexivity|discriminate]).
    destruct (NF X) as [L0 Q0].
    cbn [fst]. apply (invb_frame s _ t (SWait l (queue s) a') old B H); unfold with_thr, s1, marked;
      cbn [queue exit_ stopped threads tokens woken destroyed nclients thrs extw].
    + reflexivity.
    + reflexivity.
    + intros L. cbn [is_client]. rewrite CA, <- Cl. apply (b_class s B t old H). exact L.
    + discriminate.
    + auto.
    + intros D. split; [reflexivity|]. apply (b_destr s B D).
    + auto.
    + discriminate.
    + auto.
    + apply (ranok_same s); [reflexivity|reflexivity|exact (b_ran s B)].
    + auto.
    + auto.
    + discriminate.
    + intros l0 q0 a0 E. inversion E; subst. rewrite L0, Q0, CU. destruct (is_cur a); [discriminate|auto].
    + right. reflexivity.
    + cbn [is_client]. rewrite CA, <- Cl. intros L C. apply (b_ext s B t old H L C).
    + auto.
    + intros L. cbn [det_of]. apply DETA, L.
  - apply (invb_after_wait s s1 t l (queue s) (negb (exit_ s)) a' old B H); try reflexivity.
    + congruence.
    + intros LN. destruct (exit_ s) eqn:X; [|reflexivity]. destruct (NF eq_refl) as [L0 _]. contradiction.
    + intros F D. rewrite DT in D. destruct (exit_ s); [|discriminate]. cbn [negb andb] in COND.
      destruct a; try discriminate. cbn [is_cur negb andb] in COND. destruct (stopped s); [reflexivity|discriminate].
    + intros -> F C. unfold a'. destruct a as [r| |d r]; [right|left; reflexivity|discriminate].
      cbn [pc_after]. apply next_client_plain. reflexivity.
    + intros L. destruct (negb (exit_ s)); cbn [fin_pc]; [discriminate|].
      unfold a'. destruct a as [r| |d r]; cbn [pc_after].
      * apply next_client_plain.
      * discriminate.
      * rewrite existsb_eqb_false; [apply job_next_plain|]. intros w Hw E. subst w. pose proof (b_thr s B t Hw). lia.
    + exact DETA.
Qed.

Lemma exit_pc_props s w : InvB s ->
  (nclients s <= w -> is_client (exit_pc s w) = false) /\ (w < nclients s -> exit_pc s w <> WExit) /\
  (w = 0 -> exit_pc s w <> CDone) /\ in_stop (exit_pc s w) = false /\
  (is_client (exit_pc s w) = false -> nclients s <= w).
Proof.
  intros B. unfold exit_pc. pose proof (b_ncl s B) as N. destruct (Nat.ltb_spec w (nclients s)) as [L|L].
  - destruct (next_client_plain w (nth w (cont s) [])) as (X1 & X2 & X3).
    repeat split; auto; try lia. rewrite next_client_client. discriminate.
  - repeat split; auto; try lia; try discriminate.
Qed.

(* the loop body of worker(); s0 is s or s after the wake-up / after entering worker() *)
Lemma invb_worker_cs s s0 w old : InvB s -> T s w = Some old ->
  clos s0 = clos s -> queue s0 = queue s -> thrs s0 = thrs s -> exit_ s0 = exit_ s -> threads s0 = threads s ->
  destroyed s0 = destroyed s -> nclients s0 = nclients s -> stopped s0 = stopped s -> cont s0 = cont s \/ True ->
  (forall z, In z (extw s) -> In z (extw s0)) ->
  (w < nclients s -> In w (extw s0)) -> in_stop old = false ->
  InvB (fst (worker_cs s0 w)).
Proof.
  intros B H Ecl Eq Et Ee Eth Ed En Es _ Ex1 Ex2 NS.
  pose proof (T_lt s w old H) as WL.
  assert (B0ncl : nclients s0 = nclients s) by exact En.
  assert (GEN : forall p s2, thrs s2 = thrs s0 -> nclients s2 = nclients s0 -> threads s2 = threads s0 ->
            exit_ s2 = exit_ s0 -> destroyed s2 = destroyed s0 -> stopped s2 = stopped s0 -> extw s2 = extw s0 ->
            (queue s2 = [] \/ exit_ s0 = false) ->
            (nclients s <= w -> is_client p = false) -> (w < nclients s -> p <> WExit) -> (w = 0 -> p <> CDone) ->
            in_stop p = false ->
            RanOK s2 (length (thrs s)) (nclients s) (extw s0) ->
            InvB (with_thr s2 w p)).
  { intros p s2 E1 E2 E3 E4 E5 E6 E7 E8 P1 P2 P3 P4 R.
    apply (invb_frame s _ w p old B H); unfold with_thr; cbn [queue exit_ stopped threads tokens woken destroyed nclients thrs extw].
    - rewrite E1, Et. reflexivity.
    - congruence.
    - exact P1.
    - exact P2.
    - rewrite E4, E3, Eth. intros X. destruct E8 as [E8|E8]; [|congruence]. split; [exact E8|].
      apply (b_exit s B). congruence.
    - rewrite E5, E4, E6, Ed, Ee, Es. apply (b_destr s B).
    - rewrite E6, E4, Es, Ee. apply (b_stopped s B).
    - intros E Q. exfalso. apply (P3 E Q).
    - rewrite E5, Ed. auto.
    - rewrite E7. intros c. unfold G. cbn [clos]. apply R.
    - rewrite E4, Ee. auto.
    - rewrite P4. discriminate.
    - intros l q f a E. subst p. discriminate.
    - intros l q a E. subst p. discriminate.
    - left. congruence.
    - rewrite E7. intros L _. apply Ex2, L.
    - rewrite E7. exact Ex1.
    - intros _. apply plain_det, P4. }
  assert (RAN : RanOK s0 (length (thrs s)) (nclients s) (extw s0)).
  { apply (ranok_ext s0 _ _ (extw s)); [|exact Ex1]. intros c. unfold G. rewrite Ecl. exact (b_ran s B c). }
  unfold worker_cs. destruct (exit_ s0) eqn:EX.
  - cbn [fst].
    assert (EP : exit_pc s0 w = exit_pc s w \/ True) by auto.
    destruct (exit_pc_props s w B) as (X1 & X2 & X3 & X4 & X5).
    assert (EPQ : forall P : pc -> Prop, (nclients s0 = nclients s) -> True) by auto.
    unfold exit_pc. rewrite En.
    destruct (Nat.ltb_spec w (nclients s)) as [L|L].
    + destruct (next_client_plain w (nth w (cont s0) [])) as (Y1 & Y2 & Y3).
      apply GEN; auto; try lia. left. rewrite Eq. apply (b_exit s B). congruence.
    + apply GEN; auto; try discriminate; try lia. left. rewrite Eq. apply (b_exit s B). congruence.
  - destruct (queue s0) as [|c0 r] eqn:QQ.
    + cbn [fst]. apply GEN; auto; try discriminate.
    + unfold run_job. replace (clos (with_queue s0 r)) with (clos s0) by reflexivity.
      destruct (nth_error (clos s0) c0) as [x|] eqn:E.
      * cbn [fst]. destruct (job_next_plain (cb x)) as (J1 & J2 & J3 & J4).
        apply (GEN (job_next (cb x)) (with_clos (with_queue s0 r) (set_nth (clos s0) c0
                 (mkClo (clbl x) (ck x) (cb x) (S (cran x)) w (cdrop x) (ccanc x))))); auto.
        intros c. unfold G. unfold with_clos. cbn [clos].
        assert (L : c0 < length (clos s0)) by (apply nth_error_Some; congruence).
        destruct (Nat.eqb_spec c0 c) as [Q|Q].
        -- subst c. rewrite nth_error_set_nth_same by exact L. cbn [cran cran_on]. intros _.
           split; [exact WL|]. destruct (Nat.ltb_spec w (nclients s)); [right; auto|left; assumption].
        -- rewrite nth_error_set_nth_other by exact Q. exact (RAN c).
      * cbn [fst]. apply (GEN WIdle (with_queue s0 r)); auto; discriminate.
Qed.

(* InvB does not read tokens / woken *)
Lemma inv_b_wake s i : InvB s -> InvB (wake s i).
Proof.
  intros [B1 B2 B3 B4 B5 B6 B7 B8 B9 B10 B11 B12 B13 B14].
  unfold wake. destruct (is_woken s i); constructor; auto.
Qed.

Lemma invb_plain s i p old : InvB s -> T s i = Some old -> in_stop p = false ->
  (nclients s <= i -> is_client p = false) -> (i < nclients s -> p <> WExit) -> (i = 0 -> p <> CDone) ->
  (is_client p = false -> is_client old = false) -> InvB (with_thr s i p).
Proof.
  intros B H NS P1 P2 P3 P7. apply (invb_same s i p old B H); auto.
  - rewrite NS. discriminate.
  - intros l q f a E. rewrite E in NS. discriminate.
  - intros l q a E. rewrite E in NS. discriminate.
  - intros _. apply plain_det, NS.
Qed.

Theorem invb_core s i : InvB s -> enabled s i = true -> InvB (cstep s i).
Proof.
  intros B EN. unfold cstep, core. unfold enabled in EN.
  destruct (nth_error (thrs s) i) as [p|] eqn:H; [|discriminate].
  pose proof (b_class s B i p H) as [CL1 CL2].
  destruct p as [prog| | | | | |l k r|l r|l r|r|q r|wl r| |l q f a|l q a|a].
  - (* client operation *)
    assert (LT : i < nclients s) by (apply (client_lt s i _ B H); reflexivity).
    destruct prog as [|[l k b| | |wl] r].
    + cbn [fst]. destruct (next_client_plain i []) as (X1 & X2 & X3).
      apply (invb_plain s i _ (CAt []) B H); auto; try lia. rewrite next_client_client. discriminate.
    + pose proof (invb_enqueue s i l k b (next_client i r) _ B H) as E.
      destruct (enqueue s i l k b) as [s1 e]. cbn [fst] in *. destruct (next_client_plain i r) as (X1 & X2 & X3).
      apply E; auto; try lia. rewrite next_client_client. discriminate.
    + pose proof (invb_stop_mark s i (AClient r) _ B H) as E.
      destruct (stop_mark s i (AClient r)) as [s1 e]. cbn [fst] in *. apply E; auto.
    + pose proof (invb_worker_cs s (with_ext s i r) i _ B H) as E.
      destruct (worker_cs (with_ext s i r) i) as [s1 e]. cbn [fst] in *.
      apply E; auto; unfold with_ext; cbn [extw]; intros; try (right; assumption); left; reflexivity.
    + cbn [fst]. destruct (next_client_plain i r) as (X1 & X2 & X3).
      apply (invb_plain s i _ (CAt (OWait wl :: r)) B H); auto; try lia. rewrite next_client_client. discriminate.
  - cbn [fst]. apply (invb_plain s i CDtor CXWait B H); auto; try discriminate.
  - pose proof (invb_stop_mark s i ADtor _ B H) as E.
    destruct (stop_mark s i ADtor) as [s1 e]. cbn [fst] in *. apply E; auto.
  - discriminate.
  - pose proof (invb_worker_cs s s i WIdle B H) as E.
    destruct (worker_cs s i) as [s1 e]. cbn [fst] in *. apply E; auto.
    intros L. apply (b_ext s B i WIdle H L). reflexivity.
  - pose proof (invb_worker_cs s (wake s i) i WSleep B H) as E.
    destruct (worker_cs (wake s i) i) as [s1 e]. cbn [fst] in *.
    assert (WX : extw (wake s i) = extw s) by (unfold wake; destruct (is_woken s i); reflexivity).
    apply E; auto; try (unfold wake; destruct (is_woken s i); reflexivity).
    + rewrite WX. auto.
    + rewrite WX. intros L. apply (b_ext s B i WSleep H L). reflexivity.
  - pose proof (invb_enqueue s i l k [] (job_next r) _ B H) as E.
    destruct (enqueue s i l k []) as [s1 e]. cbn [fst] in *. destruct (job_next_plain r) as (J1 & J2 & J3 & J4).
    apply E; auto.
  - pose proof (invb_enqueue s i l KHop r WIdle _ B H) as E.
    destruct (enqueue s i l KHop r) as [s1 e]. cbn [fst] in *. apply E; auto; discriminate.
  - cbn [fst]. destruct (job_next_plain r) as (J1 & J2 & J3 & J4).
    apply (invb_plain s i _ (WPeek l r) B H); destruct (exit_ s); auto; discriminate.
  - pose proof (invb_stop_mark s i (AWorker false r) _ B H) as E.
    destruct (stop_mark s i (AWorker false r)) as [s1 e]. cbn [fst] in *. apply E; auto.
  - cbn [fst]. destruct (job_next_plain r) as (J1 & J2 & J3 & J4).
    apply (invb_plain s i _ (WQry q r) B H); auto.
  - cbn [fst]. destruct (job_next_plain r) as (J1 & J2 & J3 & J4).
    apply (invb_plain s i _ (WWait wl r) B H); auto.
  - discriminate.
  - (* join loop *)
    assert (EXT : exit_ s = true) by (apply (b_join s B i _ H); reflexivity).
    destruct (b_exit s B EXT) as [Q0 Th0].
    assert (F : f = true) by (eapply (b_first s B); exact H). subst f.
    assert (DT : i < nclients s -> det_after a = false) by (intros L; apply (b_det s B i _ H L)).
    assert (SE : InvB (fst (after_wait s i [] q true a))).
    { apply (invb_after_wait s s i [] q true a _ B H); auto; try discriminate. }
    destruct l as [|w0 [|w1 l]].
    + unfold after_wait in SE. destruct (stop_end s i q true a) as [s1 e]. exact SE.
    + unfold after_wait in SE. destruct (stop_end s i q true a) as [s1 e]. exact SE.
    + cbn [fst]. apply (invb_same s i _ (Join (w0 :: w1 :: l) q true a) B H); auto; try discriminate.
      intros l0 q0 f a0 E. inversion E. reflexivity.
  - (* woken inside stop() *)
    assert (EXT : exit_ s = true) by (apply (b_join s B i _ H); reflexivity).
    destruct (b_exit s B EXT) as [Q0 Th0].
    destruct (b_swait s B i l q a H) as (L0 & Q1 & CU). subst l q.
    assert (DT : i < nclients s -> det_after a = false) by (intros L; apply (b_det s B i _ H L)).
    assert (WK : forall A (f : st -> A), (forall x n, f (with_tokens x n) = f x) -> (forall x w, f (with_woken x w) = f x) -> f (wake s i) = f s).
    { intros A f F1 F2. unfold wake. destruct (is_woken s i); auto. }
    destruct (stopped s) eqn:ST.
    + pose proof (invb_after_wait s (wake s i) i [] [] false a _ B H) as E.
      destruct (after_wait (wake s i) i [] [] false a) as [s1 e]. cbn [fst] in *.
      assert (W1 : thrs (wake s i) = thrs s) by (apply WK; reflexivity).
      assert (W2 : nclients (wake s i) = nclients s) by (apply WK; reflexivity).
      assert (W3 : clos (wake s i) = clos s) by (apply WK; reflexivity).
      assert (W4 : extw (wake s i) = extw s) by (apply WK; reflexivity).
      assert (W5 : exit_ (wake s i) = exit_ s) by (apply WK; reflexivity).
      assert (W6 : queue (wake s i) = queue s) by (apply WK; reflexivity).
      assert (W7 : threads (wake s i) = threads s) by (apply WK; reflexivity).
      assert (W8 : destroyed (wake s i) = destroyed s) by (apply WK; reflexivity).
      assert (W9 : stopped (wake s i) = stopped s) by (apply WK; reflexivity).
      apply E; auto; try congruence.
      * intros -> _ C. destruct a as [r| |d r]; [right|left; reflexivity|discriminate C]. cbn [pc_after]. apply next_client_plain. reflexivity.
      * intros L. cbn [fin_pc]. destruct a as [r| |d r]; cbn [pc_after]; try discriminate. apply next_client_plain.
    + cbn [fst]. apply (inv_b_wake s i). exact B.
  - (* the first stop sets _stopped *)
    assert (EXT : exit_ s = true) by (apply (b_join s B i _ H); reflexivity).
    destruct (b_exit s B EXT) as [Q0 Th0].
    assert (DT : i < nclients s -> det_after a = false) by (intros L; apply (b_det s B i _ H L)).
    destruct (returned_shell (finished s (sleeper_ids s)) i a _ eq_refl) as (E & K & Q & D & Th).
    destruct (returned (finished s (sleeper_ids s)) i a) as [s1 e]. cbn [fst] in *.
    destruct E as (e1 & e2 & e3 & e4 & e5 & e6 & e7 & e8 & e9). destruct K as (k1 & k2 & k3 & k4).
    unfold finished in *. cbn [queue exit_ stopped threads tokens woken destroyed nclients thrs extw cont uad clos] in *.
    apply (invb_frame s _ i (pc_after i a) (SFin a) B H); auto.
    + intros L. rewrite pc_after_class. apply CL1, L.
    + intros L. destruct a as [r| |d r]; cbn [pc_after]; try discriminate; [apply next_client_plain|].
      specialize (DT L). cbn [det_after] in DT. destruct d; [discriminate DT|]. apply job_next_plain.
    + rewrite Q, e3. intros _. rewrite Q0, Th0. destruct (is_dtor a); auto.
    + rewrite D, e1, e2. intros _. auto.
    + rewrite e1. auto.
    + intros -> Qp. rewrite D. destruct a as [r| |d r]; cbn [is_dtor pc_after] in *; auto.
      * exfalso. destruct (next_client_plain 0 r) as (_ & _ & X). apply (X eq_refl Qp).
      * destruct d; [discriminate|]. exfalso. eapply job_next_plain, Qp.
    + rewrite D. intros X. rewrite X. destruct (is_dtor a); reflexivity.
    + rewrite e8. apply (ranok_same s); [exact k2|exact k3|exact (b_ran s B)].
    + rewrite e1. auto.
    + rewrite e1. auto.
    + intros l0 q0 f0 a0 E. pose proof (pc_after_plain i a) as X. rewrite E in X. discriminate.
    + intros l0 q0 a0 E. pose proof (pc_after_plain i a) as X. rewrite E in X. discriminate.
    + rewrite e8, pc_after_class. intros L C. apply (b_ext s B i _ H L C).
    + rewrite e8. auto.
    + intros _. apply plain_det, pc_after_plain.
Qed.

Lemma invb_uad s b : InvB s -> InvB (with_uad s b).
Proof. intros [B1 B2 B3 B4 B5 B6 B7 B8 B9 B10 B11 B12 B13 B14]. constructor; auto. Qed.

Theorem invb_step s i : InvB s -> enabled s i = true -> InvB (step s i).
Proof.
  intros B EN. pose proof (invb_core s i B EN) as C.
  destruct (step_core s i) as [-> | ->]; [exact C|apply invb_uad, C].
Qed.

Lemma init_shape ops : exists m cl n, 0 < m /\ 1 <= n /\ length cl = m /\ nclients (init ops) = m /\
  thrs (init ops) = cl ++ repeat WIdle n /\ threads (init ops) = seq m n /\
  queue (init ops) = [] /\ exit_ (init ops) = false /\ stopped (init ops) = false /\ destroyed (init ops) = false /\
  tokens (init ops) = 0 /\ woken (init ops) = [] /\ clos (init ops) = [] /\ extw (init ops) = [] /\ uad (init ops) = false /\
  (forall i p, nth_error cl i = Some p -> exists r, p = next_client i r).
Proof.
  unfold init. set (d := decode ops). set (m := Nat.min (S (dmax d)) 3).
  exists m, (map (fun ip => next_client (fst ip) (snd ip)) (combine (seq 0 m) (firstn m [dp0 d; dp1 d; dp2 d]))), (Nat.max 1 (dn d)).
  assert (M : 0 < m <= 3) by (unfold m; lia).
  repeat split; try reflexivity; try lia.
  - rewrite map_length, combine_length, seq_length, firstn_length. cbn [length]. lia.
  - intros i p H. rewrite nth_error_map in H.
    destruct (nth_error (combine (seq 0 m) (firstn m [dp0 d; dp1 d; dp2 d])) i) as [[j r]|] eqn:E; [|discriminate].
    cbn [option_map fst snd] in H. inversion H; subst.
    exists r. f_equal.
    assert (X : nth_error (seq 0 m) i = Some j).
    { revert E. generalize (firstn m [dp0 d; dp1 d; dp2 d]) as l2. generalize (seq 0 m) as l1. clear.
      induction i as [|i IH]; intros [|a l1] [|b l2] E; cbn in E; try discriminate.
      - inversion E; reflexivity.
      - cbn. eapply IH, E. }
    assert (L : i < length (seq 0 m)) by (apply nth_error_Some; congruence).
    rewrite (nth_error_nth' (seq 0 m) 0 L) in X. rewrite seq_length in L. rewrite seq_nth in X by exact L.
    inversion X. reflexivity.
Qed.

Lemma init_cls ops : forall i p, T (init ops) i = Some p ->
  (i < nclients (init ops) /\ exists r, p = next_client i r) \/ (nclients (init ops) <= i /\ p = WIdle).
Proof.
  destruct (init_shape ops) as (m & cl & n & M & N & LC & NC & TH & _ & _ & _ & _ & _ & _ & _ & _ & _ & _ & SH).
  intros i p H. unfold T in H. rewrite TH in H. rewrite NC. destruct (Nat.ltb_spec i m) as [L|L].
  - left. split; [exact L|]. rewrite nth_error_app1 in H by lia. eapply SH, H.
  - right. split; [exact L|]. rewrite nth_error_app2 in H by lia. apply nth_error_In, repeat_spec in H. exact H.
Qed.

Lemma invb_init ops : InvB (init ops).
Proof.
  destruct (init_shape ops) as (m & cl & n & M & N & LC & NC & TH & THR & Q & EX & ST & DE & TK & WK & CLO & XW & UA & SH).
  pose proof (init_cls ops) as CLS.
  assert (PLAIN : forall i p, T (init ops) i = Some p -> in_stop p = false /\ p <> WExit).
  { intros i p H. destruct (CLS i p H) as [(L & r & ->)|(L & ->)]; [|split; [reflexivity|discriminate]].
    destruct (next_client_plain i r) as (X1 & X2 & _). auto. }
  constructor.
  - rewrite EX. discriminate.
  - rewrite DE. discriminate.
  - rewrite ST. discriminate.
  - rewrite NC, TH, app_length, LC. lia.
  - intros i p H. destruct (CLS i p H) as [(L & r & ->)|(L & ->)].
    + split; [lia|]. intros _. apply next_client_plain.
    + split; [reflexivity|lia].
  - intros H. destruct (CLS 0 _ H) as [(L & r & E)|(L & E)]; [|discriminate].
    exfalso. destruct (next_client_plain 0 r) as (_ & _ & X). apply (X eq_refl). symmetry. exact E.
  - intros c. unfold G. rewrite CLO. destruct c; cbn; lia.
  - intros i p H I. destruct (PLAIN i p H) as [X _]. congruence.
  - intros i l q f a H. destruct (PLAIN i _ H) as [X _]. discriminate.
  - intros i l q a H. destruct (PLAIN i _ H) as [X _]. discriminate.
  - intros w Hin. rewrite THR in Hin. apply in_seq in Hin. rewrite NC, TH, app_length, repeat_length. lia.
  - intros i p H L C. destruct (CLS i p H) as [(_ & r & ->)|(L2 & _)]; [|lia]. rewrite next_client_client in C. discriminate.
  - intros i p H L. apply plain_det. apply (PLAIN i p H).
  - rewrite THR, TH, seq_length, app_length, repeat_length. lia.
Qed.

Theorem invb_reachable ops s : reachable ops s -> InvB s.
Proof. induction 1; [apply invb_init|apply invb_step; assumption]. Qed.

(* ---------- invariant U: who joins whom; nothing is left running when the destructor returns ---------- *)
Definition stopper (p : pc) : bool := match p with Join _ _ _ _ | SFin _ => true | _ => false end.
Definition after_of (p : pc) : option after := match p with Join _ _ _ a | SWait _ _ a | SFin a => Some a | _ => None end.
Definition dtor_phase (p : pc) : bool :=
  match p with CDtor => true | _ => match after_of p with Some ADtor => true | _ => false end end.
Definition dtor_pc (p : pc) : bool := match p with CXWait => true | _ => dtor_phase p end.
Definition poolw (s : st) (w : nat) : Prop := nclients s <= w < length (thrs s).
Definition all_done (s : st) : Prop := forall i p, T s i = Some p -> p = CDone \/ p = WExit.

Record InvU (s : st) : Prop := {
  u_thrall : exit_ s = false -> forall w, poolw s w -> In w (threads s);
  u_uniq : forall i j p p', T s i = Some p -> T s j = Some p' -> stopper p = true -> stopper p' = true -> i = j;
  u_jall : forall t l q f a, T s t = Some (Join l q f a) ->
             forall w, poolw s w -> w <> t -> T s w <> Some WExit -> In w l;
  u_sfin : forall t a, T s t = Some (SFin a) -> forall w, poolw s w -> w <> t -> T s w = Some WExit;
  u_det : forall t p, T s t = Some p -> nclients s <= t -> stopper p = true -> det_of p = true;
  u_stopw : stopped s = true -> forall w, poolw s w -> T s w = Some WExit;
  u_zero : forall i p, T s i = Some p -> dtor_pc p = true -> i = 0;
  u_dtor : forall p, T s 0 = Some p -> dtor_phase p = true -> forall j, 0 < j < nclients s -> T s j = Some CDone;
  u_dead : destroyed s = true -> all_done s;
  u_uad : uad s = false
}.

Lemma invu_frame s s' i p old : InvU s -> T s i = Some old -> unfinished old = true ->
  thrs s' = set_nth (thrs s) i p -> nclients s' = nclients s ->
  (exit_ s' = false -> exit_ s = false /\ threads s' = threads s) ->
  (stopper p = true -> stopper old = true \/ (forall j p', T s j = Some p' -> stopper p' = false)) ->
  (forall l q f a, p = Join l q f a -> forall w, poolw s w -> w <> i -> T s w <> Some WExit -> In w l) ->
  (forall a, p = SFin a -> forall w, poolw s w -> w <> i -> T s w = Some WExit) ->
  (nclients s <= i -> stopper p = true -> det_of p = true) ->
  (stopped s' = stopped s \/ (forall w, poolw s w -> T s' w = Some WExit)) ->
  (dtor_pc p = true -> dtor_pc old = true \/ i = 0) ->
  (i = 0 -> dtor_phase p = true -> dtor_phase old = true \/ (forall j, 0 < j < nclients s -> T s j = Some CDone)) ->
  (destroyed s' = true -> destroyed s = true \/ all_done s') ->
  uad s' = uad s ->
  InvU s'.
Proof.
  intros [U1 U2 U3 U4 U5 U6 U7 U8 U9 U10] H UF Et En X1 X2 X3 X4 X5 X6 X7 X8 X9 X10.
  pose proof (TT_set s s' i p old H Et) as TT.
  assert (LEN : length (thrs s') = length (thrs s)) by (rewrite Et; apply set_nth_length).
  assert (PW : forall w, poolw s' w <-> poolw s w) by (intros w; unfold poolw; rewrite En, LEN; tauto).
  assert (NDEAD : destroyed s = true -> False).
  { intros D. destruct (U9 D i old H) as [-> | ->]; discriminate. }
  assert (NWX : old <> WExit) by (intros ->; discriminate).
  constructor.
  - intros X w Pw. destruct (X1 X) as [X0 Th]. rewrite Th. apply U1; [exact X0|apply PW, Pw].
  - intros j k pj pk. rewrite !TT.
    destruct (Nat.eqb_spec i j) as [E1|E1]; destruct (Nat.eqb_spec i k) as [E2|E2]; intros Q1 Q2 S1 S2.
    + congruence.
    + inversion Q1; subst pj. destruct (X2 S1) as [So|No]; [subst; eapply U2; eassumption|].
      rewrite (No k pk Q2) in S2. discriminate.
    + inversion Q2; subst pk. destruct (X2 S2) as [So|No]; [subst; eapply U2; eassumption|].
      rewrite (No j pj Q1) in S1. discriminate.
    + eapply U2; eassumption.
  - intros t l q f a. rewrite TT. destruct (Nat.eqb_spec i t) as [E|E].
    + intros Q. inversion Q as [Q']. subst t. intros w Pw Nw. rewrite TT.
      apply Nat.eqb_neq in Nw. rewrite Nat.eqb_sym in Nw. rewrite Nw. apply (X3 _ _ _ _ Q'); [apply PW, Pw|].
      apply Nat.eqb_neq. rewrite Nat.eqb_sym. exact Nw.
    + intros Q w Pw Nw. rewrite TT. destruct (Nat.eqb_spec i w) as [E2|E2].
      * intros _. subst w. apply (U3 t l q f a Q i); [apply PW, Pw|auto|]. rewrite H. congruence.
      * apply (U3 t l q f a Q w); [apply PW, Pw|exact Nw].
  - intros t a. rewrite TT. destruct (Nat.eqb_spec i t) as [E|E].
    + intros Q. inversion Q as [Q']. subst t. intros w Pw Nw. rewrite TT.
      assert (Nw' : Nat.eqb i w = false) by (apply Nat.eqb_neq; auto). rewrite Nw'.
      apply (X4 _ Q'); [apply PW, Pw|exact Nw].
    + intros Q w Pw Nw. rewrite TT. destruct (Nat.eqb_spec i w) as [E2|E2].
      * exfalso. subst w. pose proof (U4 t a Q i (proj1 (PW i) Pw) E) as Y. rewrite H in Y. congruence.
      * apply (U4 t a Q w); [apply PW, Pw|exact Nw].
  - intros t pt. rewrite TT, En. destruct (Nat.eqb_spec i t) as [E|E].
    + intros Q. inversion Q; subst. apply X5.
    + apply U5.
  - intros ST w Pw. destruct X6 as [Same|Own]; [|apply Own, PW, Pw].
    rewrite Same in ST. rewrite TT. destruct (Nat.eqb_spec i w) as [E2|E2].
    + exfalso. subst w. pose proof (U6 ST i (proj1 (PW i) Pw)) as Y. rewrite H in Y. congruence.
    + apply (U6 ST), PW, Pw.
  - intros j pj. rewrite TT. destruct (Nat.eqb_spec i j) as [E|E].
    + intros Q D. inversion Q; subst. destruct (X7 D) as [Y|Y]; [eapply U7; eassumption|exact Y].
    + apply U7.
  - intros p0. rewrite TT, En. destruct (Nat.eqb_spec i 0) as [E|E].
    + intros Q D j Lj. inversion Q; subst p0. rewrite TT. subst i.
      assert (Nj : Nat.eqb 0 j = false) by (apply Nat.eqb_neq; lia). rewrite Nj.
      destruct (X8 eq_refl D) as [Y|Y]; [eapply U8; eassumption|apply Y, Lj].
    + intros Q D j Lj. rewrite TT. destruct (Nat.eqb_spec i j) as [E2|E2].
      * exfalso. subst j. pose proof (U8 p0 Q D i Lj) as Y. rewrite H in Y. inversion Y. subst old. discriminate.
      * eapply U8; eassumption.
  - intros D. destruct (X9 D) as [Y|Y]; [exfalso; auto|exact Y].
  - rewrite X10. exact U10.
Qed.

Lemma enabled_unfinished s i : enabled s i = true -> exists p, T s i = Some p /\ unfinished p = true.
Proof.
  unfold enabled, T. destruct (nth_error (thrs s) i) as [p|]; [|discriminate].
  intros E. exists p. split; [reflexivity|]. destruct p; try reflexivity; discriminate.
Qed.

Lemma wexit_dec s w : T s w = Some WExit \/ T s w <> Some WExit.
Proof. destruct (T s w) as [p|]; [destruct p|]; try (right; discriminate); left; reflexivity. Qed.

Lemma next_client_dtor i r : stopper (next_client i r) = false /\ dtor_phase (next_client i r) = false /\
  (dtor_pc (next_client i r) = true -> i = 0).
Proof.
  unfold next_client. destruct r; [destruct (Nat.eqb_spec i 0)|]; repeat split; try reflexivity; intros; try discriminate; auto.
Qed.
Lemma job_next_dtor r : stopper (job_next r) = false /\ dtor_pc (job_next r) = false.
Proof. destruct r as [|[] r]; split; reflexivity. Qed.
Lemma pc_after_dtor t a : stopper (pc_after t a) = false /\ dtor_phase (pc_after t a) = false /\
  (dtor_pc (pc_after t a) = true -> t = 0).
Proof.
  destruct a as [r| |[|] r]; cbn [pc_after]; try (repeat split; try reflexivity; intros; discriminate).
  - apply next_client_dtor.
  - destruct (job_next_dtor r) as [X Y]. repeat split; auto.
    + destruct r as [|[] r]; reflexivity.
    + rewrite Y. discriminate.
Qed.

(* a thread moves between ordinary pcs; the pool's flags do not change *)
Lemma invu_plain s s' i p old : InvU s -> T s i = Some old -> unfinished old = true ->
  thrs s' = set_nth (thrs s) i p -> nclients s' = nclients s ->
  exit_ s' = exit_ s -> threads s' = threads s -> stopped s' = stopped s -> destroyed s' = destroyed s -> uad s' = uad s ->
  stopper p = false ->
  (dtor_pc p = true -> dtor_pc old = true \/ i = 0) ->
  (i = 0 -> dtor_phase p = true -> dtor_phase old = true \/ (forall j, 0 < j < nclients s -> T s j = Some CDone)) ->
  InvU s'.
Proof.
  intros U H UF Et En Ee Eth Es Ed Eu SP D1 D2.
  apply (invu_frame s s' i p old U H UF Et En); auto.
  - rewrite Ee. auto.
  - rewrite SP. discriminate.
  - intros l q f a E. subst p. discriminate.
  - intros a E. subst p. discriminate.
  - rewrite SP. discriminate.
  - rewrite Ed. auto.
Qed.

Lemma invu_move s i p old : InvU s -> T s i = Some old -> unfinished old = true ->
  stopper p = false ->
  (dtor_pc p = true -> dtor_pc old = true \/ i = 0) ->
  (i = 0 -> dtor_phase p = true -> dtor_phase old = true \/ (forall j, 0 < j < nclients s -> T s j = Some CDone)) ->
  InvU (with_thr s i p).
Proof. intros U H UF P1 P2 P3. apply (invu_plain s _ i p old U H UF); auto. Qed.

Lemma invu_wake s i : InvU s -> InvU (wake s i).
Proof.
  intros [U1 U2 U3 U4 U5 U6 U7 U8 U9 U10]. unfold wake. destruct (is_woken s i); constructor; auto.
Qed.
Lemma invu_ext s i r : InvU s -> InvU (with_ext s i r).
Proof. intros [U1 U2 U3 U4 U5 U6 U7 U8 U9 U10]. constructor; auto. Qed.

(* stop() returns in a state where the first stop has finished (or the caller is a pool thread) *)
Lemma invu_returned s s0 t a old : InvB s -> InvU s -> T s t = Some old -> unfinished old = true ->
  thrs s0 = thrs s -> nclients s0 = nclients s -> exit_ s0 = true -> destroyed s0 = destroyed s -> uad s0 = uad s ->
  (stopped s0 = stopped s \/ (forall w, poolw s w -> w <> t -> T s w = Some WExit) /\ (nclients s <= t -> pc_after t a = WExit)) ->
  (is_dtor a = true -> dtor_phase old = true /\
       (forall w, poolw s w -> T s w = Some WExit)) ->
  InvU (fst (returned s0 t a)).
Proof.
  intros B U H UF Et En EX Ed Eu ST DT.
  destruct (returned_shell s0 t a _ eq_refl) as (E & K & Q & D & Th).
  set (s' := fst (returned s0 t a)) in *.
  destruct E as (e1 & e2 & e3 & e4 & e5 & e6 & e7 & e8 & e9).
  destruct (pc_after_dtor t a) as (P1 & P2 & P3).
  assert (Et' : thrs s' = set_nth (thrs s) t (pc_after t a)) by (rewrite Th, Et; reflexivity).
  pose proof (TT_set s s' t _ old H Et') as TT.
  apply (invu_frame s s' t (pc_after t a) old U H UF Et'); auto.
  - congruence.
  - rewrite e1, EX. discriminate.
  - rewrite P1. discriminate.
  - intros l q f a0 E0. rewrite E0 in P1. discriminate.
  - intros a0 E0. rewrite E0 in P1. discriminate.
  - rewrite P1. discriminate.
  - rewrite e2. destruct ST as [ST|[ST1 ST2]]; [left; exact ST|right].
    intros w Pw. rewrite TT. destruct (Nat.eqb_spec t w) as [E0|E0].
    + subst w. f_equal. apply ST2. apply Pw.
    + apply ST1; auto.
  - intros _ X. rewrite X in P2. discriminate.
  - rewrite D, Ed. destruct (is_dtor a) eqn:DA; [|auto]. intros _. right.
    destruct (DT eq_refl) as [DP WX].
    assert (T0 : t = 0) by (apply (u_zero s U t old H); destruct old; try discriminate; cbn in *; auto;
                             unfold dtor_phase in DP; cbn in DP; exact DP).
    subst t. destruct a; try discriminate. cbn [pc_after] in *.
    intros j pj. rewrite TT. destruct (Nat.eqb_spec 0 j) as [E0|E0].
    + intros Qj. inversion Qj. auto.
    + intros Qj. destruct (Nat.ltb_spec j (nclients s)) as [L|L].
      * rewrite (u_dtor s U old H DP j) in Qj by lia. inversion Qj. auto.
      * assert (Pw : poolw s j) by (split; [exact L|eapply T_lt, Qj]). rewrite (WX j Pw) in Qj. inversion Qj. auto.
  - congruence.
Qed.

Lemma dtor_phase_pc p : dtor_phase p = true -> dtor_pc p = true.
Proof. unfold dtor_pc. destruct p; auto. Qed.

Lemma invu_after_wait s s0 t l q first a old : InvB s -> InvU s -> T s t = Some old -> unfinished old = true ->
  thrs s0 = thrs s -> nclients s0 = nclients s -> exit_ s0 = true -> destroyed s0 = destroyed s ->
  stopped s0 = stopped s -> uad s0 = uad s ->
  (first = true -> (stopper old = true \/ (forall j p', T s j = Some p' -> stopper p' = false)) /\
                   (forall w, poolw s w -> w <> t -> T s w <> Some WExit -> In w l) /\
                   (nclients s <= t -> det_after a = true)) ->
  (first = false -> l = [] /\ (is_dtor a = true -> stopped s = true)) ->
  (is_dtor a = true -> dtor_phase old = true) ->
  InvU (fst (after_wait s0 t l q first a)).
Proof.
  intros B U H UF Et En EX Ed Es Eu HF HN HD.
  unfold after_wait. destruct l as [|w0 l].
  - (* the join loop is over *)
    unfold stop_end.
    destruct (drop_env t s0 q) as (E & K & Q & D & Th).
    destruct (drop_all t s0 q) as [s1 e]. cbn [fst] in *.
    destruct E as (e1 & e2 & e3 & e4 & e5 & e6 & e7 & e8 & e9).
    destruct first.
    + destruct (HF eq_refl) as (F1 & F2 & F3). cbn [fst].
      apply (invu_frame s _ t (SFin a) old U H UF); unfold with_thr;
        cbn [queue exit_ stopped threads tokens woken destroyed nclients thrs extw uad]; auto.
      * rewrite Th, Et. reflexivity.
      * congruence.
      * rewrite e1, EX. discriminate.
      * intros l0 q0 f0 a0 E0. discriminate.
      * intros a0 E0 w Pw Nw. destruct (wexit_dec s w) as [X|X]; [exact X|]. destruct (F2 w Pw Nw X).
      * left. congruence.
      * unfold dtor_pc. cbn [dtor_phase after_of]. intros X. left. apply dtor_phase_pc, HD. destruct a; try discriminate; reflexivity.
      * rewrite D, Ed. auto.
      * congruence.
    + destruct (HN eq_refl) as (_ & N2).
      pose proof (invu_returned s s1 t a old B U H UF) as R.
      destruct (returned s1 t a) as [s2 e2']. cbn [fst] in *. apply R; try congruence.
      * left. congruence.
      * intros DA. split; [apply HD, DA|]. apply (u_stopw s U (N2 DA)).
  - destruct first; [|destruct (HN eq_refl) as (X & _); discriminate].
    destruct (HF eq_refl) as (F1 & F2 & F3). cbn [fst].
    apply (invu_frame s _ t (Join (w0 :: l) q true a) old U H UF); unfold with_thr;
      cbn [queue exit_ stopped threads tokens woken destroyed nclients thrs extw uad]; auto.
    + rewrite Et. reflexivity.
    + rewrite EX. discriminate.
    + intros l0 q0 f0 a0 E0. inversion E0; subst. exact F2.
    + intros a0 E0. discriminate.
    + unfold dtor_pc. cbn [dtor_phase after_of]. intros X. left. apply dtor_phase_pc, HD. destruct a; try discriminate; reflexivity.
    + rewrite Ed. auto.
Qed.

Lemma in_filter_ne (t : nat) l w : In w l -> w <> t -> In w (filter (fun x => negb (Nat.eqb x t)) l).
Proof. intros I N. apply filter_In. split; [exact I|]. apply Nat.eqb_neq in N. rewrite N. reflexivity. Qed.
Lemma existsb_eqb_true t l : In t l -> existsb (Nat.eqb t) l = true.
Proof. intros I. apply existsb_exists. exists t. split; [exact I|apply Nat.eqb_refl]. Qed.

Lemma invu_stop_mark s t a old : InvB s -> InvU s -> T s t = Some old -> unfinished old = true ->
  in_stop old = false ->
  (nclients s <= t -> exists d r, a = AWorker d r) ->
  (is_dtor a = true -> dtor_phase old = true) ->
  InvU (fst (stop_mark s t a)).
Proof.
  intros B U H UF NS WA HD. unfold stop_mark.
  set (s1 := marked s (sleeper_ids s)).
  set (a' := match a with AWorker _ r => AWorker (existsb (Nat.eqb t) (threads s)) r | _ => a end).
  set (l := filter (fun w => negb (Nat.eqb w t)) (threads s)).
  assert (DT : is_dtor a' = is_dtor a) by (unfold a'; destruct a; reflexivity).
  assert (NOST : exit_ s = false -> forall j p', T s j = Some p' -> stopper p' = false).
  { intros X j p' Hj. destruct (stopper p') eqn:S; [|reflexivity].
    assert (I : in_stop p' = true) by (destruct p'; try discriminate; reflexivity).
    pose proof (b_join s B j p' Hj I). congruence. }
  destruct (negb (negb (exit_ s)) && negb (is_cur a) && negb (stopped s)) eqn:COND.
  - apply andb_prop in COND. destruct COND as [COND C3]. apply andb_prop in COND. destruct COND as [C1 C2].
    assert (X : exit_ s = true) by (destruct (exit_ s); [reflexivity|discriminate]).
    cbn [fst]. apply (invu_frame s _ t (SWait l (queue s) a') old U H UF); unfold with_thr, s1, marked;
      cbn [queue exit_ stopped threads tokens woken destroyed nclients thrs extw uad]; auto; try discriminate.
    + unfold dtor_pc. cbn [dtor_phase after_of]. intros Y. left. apply dtor_phase_pc, HD. rewrite <- DT. destruct a'; try discriminate; reflexivity.
    + intros _ Y. left. apply HD. rewrite <- DT. cbn [dtor_phase after_of] in Y. destruct a'; try discriminate; reflexivity.
  - apply (invu_after_wait s s1 t l (queue s) (negb (exit_ s)) a' old B U H UF); try reflexivity.
    + intros F. assert (X : exit_ s = false) by (destruct (exit_ s); [discriminate|reflexivity]).
      split; [right; apply NOST, X|]. split.
      * intros w Pw Nw _. apply in_filter_ne; [apply (u_thrall s U X w Pw)|exact Nw].
      * intros L. destruct (WA L) as (d & r & ->). unfold a'. cbn [det_after].
        rewrite existsb_eqb_true; [reflexivity|]. apply (u_thrall s U X). split; [exact L|eapply T_lt, H].
    + intros F. assert (X : exit_ s = true) by (destruct (exit_ s); [reflexivity|discriminate]).
      destruct (b_exit s B X) as [_ Th]. split; [unfold l; rewrite Th; reflexivity|].
      rewrite DT. intros DA. rewrite X in COND. cbn [negb andb] in COND.
      destruct a; try discriminate. cbn [is_cur negb andb] in COND. destruct (stopped s); [reflexivity|discriminate].
    + rewrite DT. exact HD.
Qed.

Lemma exit_pc_dtor s w : stopper (exit_pc s w) = false /\ dtor_phase (exit_pc s w) = false /\
  (dtor_pc (exit_pc s w) = true -> w = 0).
Proof.
  unfold exit_pc. destruct (Nat.ltb w (nclients s)); [apply next_client_dtor|].
  repeat split; try reflexivity. discriminate.
Qed.

Lemma invu_worker_cs s s0 w old : InvU s -> T s w = Some old -> unfinished old = true ->
  thrs s0 = thrs s -> nclients s0 = nclients s -> exit_ s0 = exit_ s -> threads s0 = threads s ->
  stopped s0 = stopped s -> destroyed s0 = destroyed s -> uad s0 = uad s ->
  InvU (fst (worker_cs s0 w)).
Proof.
  intros U H UF Et En Ee Eth Es Ed Eu.
  assert (GEN : forall p s2, thrs s2 = thrs s0 -> nclients s2 = nclients s0 -> exit_ s2 = exit_ s0 ->
            threads s2 = threads s0 -> stopped s2 = stopped s0 -> destroyed s2 = destroyed s0 -> uad s2 = uad s0 ->
            stopper p = false -> dtor_phase p = false -> (dtor_pc p = true -> w = 0) ->
            InvU (with_thr s2 w p)).
  { intros p s2 E1 E2 E3 E4 E5 E6 E7 P1 P2 P3.
    apply (invu_plain s _ w p old U H UF); unfold with_thr;
      cbn [queue exit_ stopped threads tokens woken destroyed nclients thrs extw uad]; try congruence; auto;
      intros _ X; congruence. }
  unfold worker_cs. destruct (exit_ s0) eqn:EX.
  - cbn [fst]. destruct (exit_pc_dtor s0 w) as (X1 & X2 & X3). apply GEN; auto.
  - destruct (queue s0) as [|c0 r].
    + cbn [fst]. apply GEN; auto. discriminate.
    + unfold run_job. destruct (nth_error (clos (with_queue s0 r)) c0) as [x|].
      * cbn [fst]. destruct (job_next_dtor (cb x)) as (X1 & X2).
        apply GEN; auto.
        -- unfold dtor_pc in X2. destruct (job_next (cb x)); try discriminate; auto.
        -- rewrite X2. discriminate.
      * cbn [fst]. apply GEN; auto. discriminate.
Qed.

Lemma invu_enqueue s i l k b p old : InvU s -> T s i = Some old -> unfinished old = true ->
  stopper p = false -> dtor_phase p = false -> (dtor_pc p = true -> i = 0) ->
  InvU (with_thr (fst (enqueue s i l k b)) i p).
Proof.
  intros U H UF P1 P2 P3.
  destruct (enqueue_shell s i l k b _ eq_refl) as (hq & he & hs & ht & hk & hw & hd & hn & hth & hc & hx & hu & _).
  apply (invu_plain s _ i p old U H UF); unfold with_thr;
    cbn [queue exit_ stopped threads tokens woken destroyed nclients thrs extw uad]; try congruence; auto;
    intros _ X; congruence.
Qed.

Lemma in_firstn_nth {A} (l : list A) : forall n j x, nth_error l j = Some x -> j < n -> In x (firstn n l).
Proof.
  induction l as [|y l IH]; intros [|n] [|j] x H L; cbn in *; try discriminate; try lia.
  - inversion H. left. reflexivity.
  - right. apply (IH n j x H). lia.
Qed.

Lemma xwait_others s : InvB s -> InvU s -> xwait_ok s = true -> forall j, 0 < j < nclients s -> T s j = Some CDone.
Proof.
  intros B U X j Lj. unfold xwait_ok in X. rewrite forallb_forall in X.
  pose proof (b_ncl s B) as N.
  destruct (nth_error (thrs s) j) as [p|] eqn:E; [|apply nth_error_None in E; lia].
  assert (I : In p (firstn (nclients s) (thrs s))).
  { apply (in_firstn_nth _ _ j); [exact E|lia]. }
  specialize (X p I). unfold T. rewrite E. destruct p; try discriminate; [|reflexivity].
  exfalso. pose proof (u_zero s U j CXWait E eq_refl). lia.
Qed.

Theorem invu_core s i : InvB s -> InvU s -> enabled s i = true -> InvU (cstep s i).
Proof.
  intros B U EN. destruct (enabled_unfinished s i EN) as (p0 & H0 & UF).
  unfold cstep, core. unfold enabled in EN. unfold T in H0. rewrite H0 in *.
  assert (H : T s i = Some p0) by exact H0.
  pose proof (b_class s B i p0 H) as [CL1 CL2].
  destruct p0 as [prog| | | | | |l k r|l r|l r|r|q r|wl r| |l q f a|l q a|a].
  - destruct prog as [|[l k b| | |wl] r].
    + cbn [fst]. destruct (next_client_dtor i []) as (X1 & X2 & X3).
      apply (invu_move s i _ (CAt []) U H UF); auto. intros _ X. congruence.
    + pose proof (invu_enqueue s i l k b (next_client i r) _ U H UF) as E.
      destruct (enqueue s i l k b) as [s1 e]. cbn [fst] in *. destruct (next_client_dtor i r) as (X1 & X2 & X3). apply E; auto.
    + pose proof (invu_stop_mark s i (AClient r) _ B U H UF) as E.
      destruct (stop_mark s i (AClient r)) as [s1 e]. cbn [fst] in *. apply E; auto; try discriminate.
      intros L. exfalso. specialize (CL1 L). discriminate.
    + pose proof (invu_worker_cs s (with_ext s i r) i _ U H UF) as E.
      destruct (worker_cs (with_ext s i r) i) as [s1 e]. cbn [fst] in *. apply E; reflexivity.
    + cbn [fst]. destruct (next_client_dtor i r) as (X1 & X2 & X3).
      apply (invu_move s i _ (CAt (OWait wl :: r)) U H UF); auto. intros _ X. congruence.
  - cbn [fst]. apply (invu_move s i CDtor CXWait U H UF); auto.
    intros _ _. right. apply (xwait_others s B U EN).
  - pose proof (invu_stop_mark s i ADtor _ B U H UF) as E.
    destruct (stop_mark s i ADtor) as [s1 e]. cbn [fst] in *. apply E; auto.
    intros L. exfalso. specialize (CL1 L). discriminate.
  - discriminate.
  - pose proof (invu_worker_cs s s i _ U H UF) as E.
    destruct (worker_cs s i) as [s1 e]. cbn [fst] in *. apply E; reflexivity.
  - pose proof (invu_worker_cs s (wake s i) i _ U H UF) as E.
    destruct (worker_cs (wake s i) i) as [s1 e]. cbn [fst] in *.
    apply E; unfold wake; destruct (is_woken s i); reflexivity.
  - pose proof (invu_enqueue s i l k [] (job_next r) _ U H UF) as E.
    destruct (enqueue s i l k []) as [s1 e]. cbn [fst] in *. destruct (job_next_dtor r) as (X1 & X2).
    apply E; auto; [unfold dtor_pc in X2; destruct (job_next r); try discriminate; auto|rewrite X2; discriminate].
  - pose proof (invu_enqueue s i l KHop r WIdle _ U H UF) as E.
    destruct (enqueue s i l KHop r) as [s1 e]. cbn [fst] in *. apply E; auto. discriminate.
  - cbn [fst]. destruct (job_next_dtor r) as (X1 & X2).
    assert (DP : dtor_phase (job_next r) = false) by (destruct r as [|[] r]; reflexivity).
    apply (invu_move s i _ (WPeek l r) U H UF); destruct (exit_ s); auto; try discriminate;
      try (rewrite X2; discriminate); intros _ X; congruence.
  - pose proof (invu_stop_mark s i (AWorker false r) _ B U H UF) as E.
    destruct (stop_mark s i (AWorker false r)) as [s1 e]. cbn [fst] in *. apply E; auto; try discriminate. eauto.
  - cbn [fst]. destruct (job_next_dtor r) as (X1 & X2).
    assert (DP : dtor_phase (job_next r) = false) by (destruct r as [|[] r]; reflexivity).
    apply (invu_move s i _ (WQry q r) U H UF); auto; try (rewrite X2; discriminate).
    intros _ X; congruence.
  - cbn [fst]. destruct (job_next_dtor r) as (X1 & X2).
    assert (DP : dtor_phase (job_next r) = false) by (destruct r as [|[] r]; reflexivity).
    apply (invu_move s i _ (WWait wl r) U H UF); auto; try (rewrite X2; discriminate).
    intros _ X; congruence.
  - discriminate.
  - (* join loop *)
    assert (F : f = true) by (eapply (b_first s B); exact H). subst f.
    assert (EXT : exit_ s = true) by (apply (b_join s B i _ H); reflexivity).
    assert (HD : is_dtor a = true -> dtor_phase (Join l q true a) = true).
    { intros DA. unfold dtor_phase. cbn [after_of]. destruct a; try discriminate; reflexivity. }
    assert (HN : true = false -> @nil nat = [] /\ (is_dtor a = true -> stopped s = true)) by (intros; discriminate).
    assert (DET : nclients s <= i -> det_after a = true) by (intros L; apply (u_det s U i _ H L eq_refl)).
    assert (W0 : forall w0 r0, l = w0 :: r0 -> T s w0 = Some WExit).
    { intros w0 r0 ->. unfold is_wexit in EN. unfold T. destruct (nth_error (thrs s) w0) as [[]|]; try discriminate. reflexivity. }
    destruct l as [|w0 [|w1 l]].
    + assert (HF : true = true -> (stopper (Join [] q true a) = true \/ (forall j p', T s j = Some p' -> stopper p' = false)) /\
                   (forall w, poolw s w -> w <> i -> T s w <> Some WExit -> In w []) /\ (nclients s <= i -> det_after a = true)).
      { intros _. split; [left; reflexivity|]. split; [|exact DET]. intros w Pw Nw X. apply (u_jall s U i _ _ _ _ H w Pw Nw X). }
      pose proof (invu_after_wait s s i [] q true a _ B U H UF) as E. unfold after_wait in E.
      destruct (stop_end s i q true a) as [s1 e]. cbn [fst] in *. apply E; auto.
    + assert (HF : true = true -> (stopper (Join [w0] q true a) = true \/ (forall j p', T s j = Some p' -> stopper p' = false)) /\
                   (forall w, poolw s w -> w <> i -> T s w <> Some WExit -> In w []) /\ (nclients s <= i -> det_after a = true)).
      { intros _. split; [left; reflexivity|]. split; [|exact DET]. intros w Pw Nw X.
        pose proof (u_jall s U i _ _ _ _ H w Pw Nw X) as I. destruct I as [<-|[]]. exfalso. apply X. apply (W0 w0 []). reflexivity. }
      pose proof (invu_after_wait s s i [] q true a _ B U H UF) as E. unfold after_wait in E.
      destruct (stop_end s i q true a) as [s1 e]. cbn [fst] in *. apply E; auto.
    + cbn [fst]. apply (invu_frame s _ i (Join (w1 :: l) q true a) _ U H UF); unfold with_thr;
        cbn [queue exit_ stopped threads tokens woken destroyed nclients thrs extw uad]; auto.
      * intros l0 q0 f0 a0 E0 w Pw Nw X. inversion E0; subst.
        pose proof (u_jall s U i _ _ _ _ H w Pw Nw X) as I. destruct I as [<-|I]; [|exact I].
        exfalso. apply X. eapply W0. reflexivity.
      * intros a0 E0. discriminate.
  - (* woken inside stop() *)
    destruct (b_swait s B i l q a H) as (L0 & Q1 & CU). subst l q.
    assert (EXT : exit_ s = true) by (apply (b_join s B i _ H); reflexivity).
    destruct (stopped s) eqn:ST.
    + assert (HD : is_dtor a = true -> dtor_phase (SWait [] [] a) = true).
      { intros DA. unfold dtor_phase. cbn [after_of]. destruct a; try discriminate; reflexivity. }
      assert (HN : false = false -> @nil nat = [] /\ (is_dtor a = true -> true = true)) by auto.
      assert (HF : false = true -> (stopper (SWait [] [] a) = true \/ (forall j p', T s j = Some p' -> stopper p' = false)) /\
                   (forall w, poolw s w -> w <> i -> T s w <> Some WExit -> In w []) /\ (nclients s <= i -> det_after a = true))
        by (intros; discriminate).
      assert (WK : forall A (f : st -> A), (forall x n, f (with_tokens x n) = f x) -> (forall x w, f (with_woken x w) = f x) -> f (wake s i) = f s).
      { intros A f F1 F2. unfold wake. destruct (is_woken s i); auto. }
      pose proof (invu_after_wait s (wake s i) i [] [] false a _ B U H UF) as E.
      destruct (after_wait (wake s i) i [] [] false a) as [s1 e]. cbn [fst] in *.
      apply E; auto; try (apply WK; reflexivity).
      rewrite (WK _ exit_); auto.
    + cbn [fst]. apply invu_wake, U.
  - (* the first stop sets _stopped *)
    assert (EXT : exit_ s = true) by (apply (b_join s B i _ H); reflexivity).
    pose proof (invu_returned s (finished s (sleeper_ids s)) i a _ B U H UF) as E.
    destruct (returned (finished s (sleeper_ids s)) i a) as [s1 e]. cbn [fst] in *.
    assert (ALLW : forall w, poolw s w -> w <> i -> T s w = Some WExit) by (apply (u_sfin s U i a H)).
    assert (SELF : nclients s <= i -> pc_after i a = WExit).
    { intros L. pose proof (u_det s U i _ H L eq_refl) as D. cbn [det_of] in D. destruct a as [| |[|] r]; try discriminate. reflexivity. }
    apply E; auto.
    intros DA. split; [unfold dtor_phase; cbn [after_of]; destruct a; try discriminate; reflexivity|].
    intros w Pw. apply ALLW; [exact Pw|]. intros ->. destruct Pw as [L _].
    pose proof (u_zero s U i _ H) as Z. unfold dtor_pc, dtor_phase in Z. cbn [after_of] in Z. destruct a; try discriminate.
    specialize (Z eq_refl). pose proof (b_ncl s B). lia.
Qed.

Lemma step_is_core s i : InvU s -> enabled s i = true -> step s i = cstep s i.
Proof.
  intros U EN. destruct (enabled_unfinished s i EN) as (p & H & UF).
  unfold step, cstep, tstep. unfold T in H. rewrite H.
  destruct (destroyed s) eqn:D.
  - exfalso. destruct (u_dead s U D i p H) as [-> | ->]; discriminate.
  - cbn [andb]. destruct (core s i) as [[s1 pt] e]. reflexivity.
Qed.

Theorem invu_step s i : InvB s -> InvU s -> enabled s i = true -> InvU (step s i).
Proof. intros B U EN. rewrite (step_is_core s i U EN). apply invu_core; assumption. Qed.

Lemma invu_init ops : InvU (init ops).
Proof.
  destruct (init_shape ops) as (m & cl & n & M & N & LC & NC & TH & THR & Q & EX & ST & DE & TK & WK & CLO & XW & UA & SH).
  pose proof (init_cls ops) as CLS.
  assert (PL : forall i p, T (init ops) i = Some p -> stopper p = false /\ dtor_phase p = false /\ (dtor_pc p = true -> i = 0)).
  { intros i p H. destruct (CLS i p H) as [(L & r & ->)|(L & ->)]; [apply next_client_dtor|].
    repeat split; try reflexivity. discriminate. }
  constructor.
  - intros _ w [P1 P2]. rewrite THR. apply in_seq. rewrite NC in P1. rewrite TH, app_length, repeat_length, LC in P2. lia.
  - intros i j p p' H _ S. destruct (PL i p H) as (X & _). congruence.
  - intros t l q f a H. destruct (PL t _ H) as (X & _). discriminate.
  - intros t a H. destruct (PL t _ H) as (X & _). discriminate.
  - intros t p H _ S. destruct (PL t p H) as (X & _). congruence.
  - rewrite ST. discriminate.
  - intros i p H. apply (PL i p H).
  - intros p H D. destruct (PL 0 p H) as (_ & X & _). congruence.
  - rewrite DE. discriminate.
  - exact UA.
Qed.

Theorem invu_reachable ops s : reachable ops s -> InvU s.
Proof.
  induction 1; [apply invu_init|]. apply invu_step; auto. eapply invb_reachable; eassumption.
Qed.

(* ---------- the statements of C11 ---------- *)
Definition terminal (s : st) : Prop := all_done s.

Lemma terminal_quiet ops s : reachable ops s -> terminal s ->
  destroyed s = true /\ queue s = [] /\ forall c, sumq c (thrs s) = 0.
Proof.
  intros R Tm. pose proof (invb_reachable ops s R) as B.
  assert (D : destroyed s = true).
  { apply (b_done0 s B). pose proof (b_ncl s B) as [N1 N2].
    destruct (nth_error (thrs s) 0) as [p|] eqn:E; [|apply nth_error_None in E; lia].
    destruct (Tm 0 p E) as [->| ->]; [exact E|].
    exfalso. apply (proj2 (b_class s B 0 WExit E) N1). reflexivity. }
  split; [exact D|]. split.
  - apply (b_exit s B). apply (b_destr s B D).
  - intros c. apply sumq_zero. intros p Hin. apply In_nth_error in Hin. destruct Hin as [i Hi].
    destruct (Tm i p Hi) as [->| ->]; reflexivity.
Qed.

(* C11.1 every closure handed to the pool is in exactly one place: invoked once, destroyed un-run once,
   waiting in the queue, or in the swapped-out list of one stop() in progress *)
Theorem exactly_one_place ops s c x : reachable ops s -> nth_error (clos s) c = Some x ->
  cran x + cdrop x + cnt c (queue s) + sumq c (thrs s) = 1.
Proof.
  intros R H. pose proof (a_tot s (inva_reachable ops s R) c) as E. unfold tot in E.
  rewrite !(G_some _ _ _ _ _ H) in E.
  assert (L : Nat.ltb c (length (clos s)) = true) by (apply Nat.ltb_lt, nth_error_Some; congruence).
  rewrite L in E. exact E.
Qed.

Theorem at_most_one_outcome ops s c x : reachable ops s -> nth_error (clos s) c = Some x ->
  cran x + cdrop x <= 1.
Proof. intros R H. pose proof (exactly_one_place ops s c x R H). lia. Qed.

Theorem exactly_one_outcome ops s c x : reachable ops s -> terminal s -> nth_error (clos s) c = Some x ->
  cran x + cdrop x = 1.
Proof.
  intros R Tm H. pose proof (exactly_one_place ops s c x R H) as E.
  destruct (terminal_quiet ops s R Tm) as (_ & Q & S0). rewrite Q, S0, cnt_nil in E. lia.
Qed.

(* C11.2 a closure is only ever invoked by a worker: a thread of the pool, or a client thread that has called worker() *)
Theorem ran_on_worker ops s c x : reachable ops s -> nth_error (clos s) c = Some x -> 1 <= cran x ->
  cran_on x < length (thrs s) /\ (nclients s <= cran_on x \/ In (cran_on x) (extw s)).
Proof.
  intros R H N. pose proof (invb_reachable ops s R) as B.
  pose proof (b_ran s B c) as E. rewrite !(G_some _ _ _ _ _ H) in E. exact (E N).
Qed.

(* C11.3 destroying an un-run closure delivers exactly one cancellation to its waiter, for every kind *)
Theorem cancel_observable ops s c x : reachable ops s -> nth_error (clos s) c = Some x -> ccanc x = cdrop x.
Proof.
  intros R H. pose proof (a_canc s (inva_reachable ops s R) c) as E.
  rewrite !(G_some _ _ _ _ _ H) in E. exact E.
Qed.

(* C11.4 at the end nobody is left hanging: every waiter was completed by a run on a worker or by exactly one
   cancellation, never both *)
Theorem no_forgotten_waiter ops s c x : reachable ops s -> terminal s -> nth_error (clos s) c = Some x ->
  cran x + ccanc x = 1.
Proof.
  intros R Tm H. pose proof (exactly_one_outcome ops s c x R Tm H).
  pose proof (cancel_observable ops s c x R H). lia.
Qed.

(* C11.6 nothing uses the pool after its destructor has returned: at that moment every thread of the pool has
   left worker() (or detached itself and finished), every client call has returned, nothing is queued *)
Theorem no_use_after_destroy ops s : reachable ops s ->
  uad s = false /\ (destroyed s = true -> terminal s /\ exit_ s = true /\ stopped s = true /\ queue s = [] /\ threads s = []).
Proof.
  intros R. pose proof (invb_reachable ops s R) as B. pose proof (invu_reachable ops s R) as U.
  split; [apply (u_uad s U)|]. intros D. destruct (b_destr s B D) as [X S]. destruct (b_exit s B X) as [Q Th].
  repeat split; auto. apply (u_dead s U D).
Qed.

Theorem terminal_all_joined ops s : reachable ops s -> terminal s ->
  destroyed s = true /\ exit_ s = true /\ queue s = [] /\ threads s = [] /\
  forall i p, T s i = Some p -> nclients s <= i -> p = WExit.
Proof.
  intros R Tm. pose proof (invb_reachable ops s R) as B.
  destruct (terminal_quiet ops s R Tm) as (D & Q & _).
  destruct (b_destr s B D) as [X _]. destruct (b_exit s B X) as [_ Th].
  repeat split; auto. intros i p H L. destruct (Tm i p H) as [->| ->]; [|reflexivity].
  pose proof (proj1 (b_class s B i CDone H) L). discriminate.
Qed.

(* ---------- executions of run_sched are reachable (used for concrete witnesses) ---------- *)
Lemma enabled_list_In s n : forall from i, In i (enabled_list s n from) -> enabled s i = true.
Proof.
  induction n as [|n IH]; intros from i H; cbn [enabled_list] in H; [contradiction|].
  apply in_app_or in H. destruct H as [H|H].
  - destruct (enabled s from) eqn:E; [|contradiction]. destruct H as [<-|[]]. exact E.
  - eapply IH, H.
Qed.

Lemma run_sched_reachable ops fuel : forall s sched tr, reachable ops s ->
  reachable ops (fst (run_sched fuel s sched tr)).
Proof.
  induction fuel as [|f IH]; intros s sched tr R; cbn [run_sched]; [exact R|].
  destruct (all_enabled s) as [|e0 en] eqn:E; [exact R|].
  set (k := match sched with [] => 0%Z | x :: _ => Z.abs x end).
  set (i := nth (Z.to_nat (k mod zlen (e0 :: en))) (e0 :: en) 0).
  assert (EN : enabled s i = true).
  { apply (enabled_list_In s (length (thrs s)) 0). fold (all_enabled s). rewrite E. apply nth_In.
    unfold zlen. assert (0 < Z.of_nat (length (e0 :: en)))%Z by (cbn [length]; lia).
    pose proof (Z.mod_pos_bound k (Z.of_nat (length (e0 :: en))) H). lia. }
  pose proof (r_step ops s i R EN) as R1. unfold step in R1.
  destruct (tstep s i) as [[s1 p] e]. cbn [fst] in R1.
  destruct (uad s1); [exact R1|]. apply IH. exact R1.
Qed.

Definition terminalb (s : st) : bool := forallb (fun p => negb (unfinished p)) (thrs s).
Lemma terminalb_sound s : terminalb s = true -> terminal s.
Proof.
  unfold terminalb, terminal, all_done. intros H i p Hp. rewrite forallb_forall in H.
  specialize (H p (nth_error_In _ _ Hp)). destruct p; cbn in H; try discriminate; auto.
Qed.

Definition final_state (ops : list (list Z)) : st :=
  fst (run_sched (run_fuel ops) (init ops) (flat_map decode_sched ops) []).
Lemma final_reachable ops : reachable ops (final_state ops).
Proof. apply run_sched_reachable, r_init. Qed.
