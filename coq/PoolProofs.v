(* PoolProofs.v — invariants of the thread-pool model for every pool size, every client program, every
   job body and every schedule (induction over reachability). *)
From Cocls Require Import Base BaseProofs PoolDefs.
Require Import Lia.
Local Open Scope nat_scope.

Definition T (s : st) (i : nat) : option pc := nth_error (thrs s) i.
Definition step (s : st) (i : nat) : st := fst (fst (tstep s i)).
Definition cstep (s : st) (i : nat) : st := fst (fst (core s i)).

Inductive reachable (ops : list (list Z)) : st -> Prop :=
| r_init : reachable ops (init ops)
| r_step s i : reachable ops s -> enabled s i = true -> reachable ops (step s i).

(* ---------- counting ---------- *)
Fixpoint cnt (c : nat) (l : list nat) : nat :=
  match l with [] => 0 | x :: r => (if Nat.eqb c x then 1 else 0) + cnt c r end.
Definition qof (c : nat) (p : pc) : nat := match p with Join _ q _ _ => cnt c q | SWait _ q _ => cnt c q | _ => 0 end.
Fixpoint sumq (c : nat) (l : list pc) : nat := match l with [] => 0 | p :: r => qof c p + sumq c r end.
(* field f of closure c, d when c does not exist *)
Definition G {A} (f : clo -> A) (d : A) (s : st) (c : nat) : A :=
  match nth_error (clos s) c with Some x => f x | None => d end.
(* where closure c is: invoked + destroyed un-run + queued + swapped out by a stop() in progress *)
Definition tot (s : st) (c : nat) : nat := G cran 0 s c + G cdrop 0 s c + cnt c (queue s) + sumq c (thrs s).
Arguments cnt : simpl never.
Arguments sumq : simpl never.
Arguments tot : simpl never.

Lemma cnt_nil c : cnt c [] = 0. Proof. reflexivity. Qed.
Lemma cnt_cons c x r : cnt c (x :: r) = (if Nat.eqb c x then 1 else 0) + cnt c r. Proof. reflexivity. Qed.
Lemma cnt_app c a b : cnt c (a ++ b) = cnt c a + cnt c b.
Proof. induction a as [|x a IH]; [reflexivity|]. cbn [app]. rewrite !cnt_cons, IH. lia. Qed.
Lemma sumq_nil c : sumq c [] = 0. Proof. reflexivity. Qed.
Lemma sumq_cons c p r : sumq c (p :: r) = qof c p + sumq c r. Proof. reflexivity. Qed.
Lemma sumq_app c a b : sumq c (a ++ b) = sumq c a + sumq c b.
Proof. induction a as [|x a IH]; [reflexivity|]. cbn [app]. rewrite !sumq_cons, IH. lia. Qed.

Lemma sumq_set_nth c l : forall i p old, nth_error l i = Some old ->
  sumq c (set_nth l i p) + qof c old = sumq c l + qof c p.
Proof.
  induction l as [|x l IH]; intros [|i] p old H; cbn [nth_error] in H; try discriminate.
  - inversion H; subst. cbn [set_nth]. rewrite !sumq_cons. lia.
  - cbn [set_nth]. rewrite !sumq_cons. specialize (IH i p old H). lia.
Qed.

Lemma set_nth_length {A} (l : list A) i x : length (set_nth l i x) = length l.
Proof. revert i; induction l as [|y l IH]; intros [|i]; cbn; auto. Qed.

Lemma T_with_thr s i p j : i < length (thrs s) ->
  T (with_thr s i p) j = if Nat.eqb i j then Some p else T s j.
Proof.
  intros L. unfold T, with_thr. cbn [thrs]. destruct (Nat.eqb_spec i j) as [E|E].
  - subst. apply nth_error_set_nth_same. exact L.
  - apply nth_error_set_nth_other. exact E.
Qed.
Lemma T_lt s i p : T s i = Some p -> i < length (thrs s).
Proof. unfold T. intros H. apply nth_error_Some. congruence. Qed.

(* ---------- closure store ---------- *)
Lemma G_set {A} (f : clo -> A) d s c0 y c :
  G f d (with_clos s (set_nth (clos s) c0 y)) c =
  if Nat.eqb c0 c then (if Nat.ltb c0 (length (clos s)) then f y else d) else G f d s c.
Proof.
  unfold G, with_clos. cbn [clos]. destruct (Nat.eqb_spec c0 c) as [E|E].
  - subst. destruct (Nat.ltb_spec c (length (clos s))) as [L|L].
    + rewrite nth_error_set_nth_same by exact L. reflexivity.
    + assert (H : nth_error (set_nth (clos s) c y) c = None).
      { apply nth_error_None. rewrite set_nth_length. exact L. }
      rewrite H. reflexivity.
  - rewrite nth_error_set_nth_other by exact E. reflexivity.
Qed.

Lemma G_app {A} (f : clo -> A) d s y c :
  G f d (with_clos s (clos s ++ [y])) c =
  if Nat.eqb c (length (clos s)) then f y else G f d s c.
Proof.
  unfold G, with_clos. cbn [clos]. destruct (Nat.eqb_spec c (length (clos s))) as [E|E].
  - subst. rewrite nth_error_app2 by lia. rewrite Nat.sub_diag. reflexivity.
  - destruct (Nat.ltb_spec c (length (clos s))) as [L|L].
    + rewrite nth_error_app1 by exact L. reflexivity.
    + assert (H : nth_error (clos s ++ [y]) c = None).
      { apply nth_error_None. rewrite app_length. cbn [length]. lia. }
      assert (H2 : nth_error (clos s) c = None) by (apply nth_error_None; lia).
      rewrite H, H2. reflexivity.
Qed.

Lemma G_some {A} (f : clo -> A) d s c x : nth_error (clos s) c = Some x -> G f d s c = f x.
Proof. unfold G. intros ->. reflexivity. Qed.
Lemma G_none {A} (f : clo -> A) d s c : length (clos s) <= c -> G f d s c = d.
Proof. unfold G. intros L. apply nth_error_None in L. rewrite L. reflexivity. Qed.

(* the parts of the state a closure-store update leaves alone *)
Definition shell_eq (s s' : st) : Prop :=
  queue s' = queue s /\ exit_ s' = exit_ s /\ threads s' = threads s /\ tokens s' = tokens s /\
  destroyed s' = destroyed s /\ nclients s' = nclients s /\ thrs s' = thrs s /\ length (clos s') = length (clos s) /\
  stopped s' = stopped s /\ woken s' = woken s /\ cont s' = cont s /\ extw s' = extw s /\ uad s' = uad s.

Lemma shell_eq_refl s : shell_eq s s. Proof. repeat split. Qed.
Lemma shell_eq_trans a b c : shell_eq a b -> shell_eq b c -> shell_eq a c.
Proof. unfold shell_eq. intuition congruence. Qed.

(* closure c after dropping the ids in l: everything as before except cdrop / ccanc *)
Definition cntv (s : st) (c : nat) (l : list nat) : nat := if Nat.ltb c (length (clos s)) then cnt c l else 0.

Record drop_rel (s s' : st) (l : list nat) : Prop := {
  dr_shell : shell_eq s s';
  dr_ran : forall c, G cran 0 s' c = G cran 0 s c;
  dr_on : forall c, G cran_on 0 s' c = G cran_on 0 s c;
  dr_cb : forall c, G cb [] s' c = G cb [] s c;
  dr_drop : forall c, G cdrop 0 s' c = G cdrop 0 s c + cntv s c l;
  dr_canc : forall c, G ccanc 0 s' c = G ccanc 0 s c + cntv s c l
}.

Lemma drop1_rel t s e c0 : drop_rel s (fst (drop1 t (s, e) c0)) [c0].
Proof.
  unfold drop1. cbn [fst snd].
  destruct (nth_error (clos s) c0) as [x|] eqn:E.
  - assert (L : c0 < length (clos s)) by (apply nth_error_Some; congruence).
    assert (Lb : Nat.ltb c0 (length (clos s)) = true) by (apply Nat.ltb_lt; exact L).
    cbn [fst].
    constructor.
    + unfold shell_eq, with_clos. cbn. rewrite set_nth_length. repeat split.
    + intros c. rewrite G_set, Lb. destruct (Nat.eqb_spec c0 c); [subst; rewrite (G_some _ _ _ _ _ E)|]; reflexivity.
    + intros c. rewrite G_set, Lb. destruct (Nat.eqb_spec c0 c); [subst; rewrite (G_some _ _ _ _ _ E)|]; reflexivity.
    + intros c. rewrite G_set, Lb. destruct (Nat.eqb_spec c0 c); [subst; rewrite (G_some _ _ _ _ _ E)|]; reflexivity.
    + intros c. rewrite G_set, Lb. unfold cntv. rewrite cnt_cons, cnt_nil.
      destruct (Nat.eqb_spec c0 c) as [Q|Q].
      * subst. rewrite (G_some _ _ _ _ _ E), Lb, Nat.eqb_refl. cbn [drop_clo cdrop]. lia.
      * assert (Q2 : Nat.eqb c c0 = false) by (apply Nat.eqb_neq; congruence). rewrite Q2.
        destruct (Nat.ltb c (length (clos s))); lia.
    + intros c. rewrite G_set, Lb. unfold cntv. rewrite cnt_cons, cnt_nil.
      destruct (Nat.eqb_spec c0 c) as [Q|Q].
      * subst. rewrite (G_some _ _ _ _ _ E), Lb, Nat.eqb_refl. cbn [drop_clo ccanc]. lia.
      * assert (Q2 : Nat.eqb c c0 = false) by (apply Nat.eqb_neq; congruence). rewrite Q2.
        destruct (Nat.ltb c (length (clos s))); lia.
  - cbn [fst].
    assert (L : length (clos s) <= c0) by (apply nth_error_None; exact E).
    assert (Z0 : forall c, cntv s c [c0] = 0).
    { intros c. unfold cntv. rewrite cnt_cons, cnt_nil.
      destruct (Nat.ltb_spec c (length (clos s))); [|reflexivity].
      assert (Q2 : Nat.eqb c c0 = false) by (apply Nat.eqb_neq; lia). rewrite Q2. reflexivity. }
    constructor; try (intros; reflexivity); [repeat split| |]; intros c; rewrite Z0; lia.
Qed.

Lemma drop_rel_app s s1 s2 a b : drop_rel s s1 a -> drop_rel s1 s2 b -> drop_rel s s2 (a ++ b).
Proof.
  intros [h1 r1 o1 b1 d1 c1] [h2 r2 o2 b2 d2 c2].
  assert (LEN : length (clos s1) = length (clos s)) by (unfold shell_eq in h1; tauto).
  constructor.
  - unfold shell_eq in *. intuition congruence.
  - intros c. rewrite r2, r1. reflexivity.
  - intros c. rewrite o2, o1. reflexivity.
  - intros c. rewrite b2, b1. reflexivity.
  - intros c. rewrite d2, d1. unfold cntv. rewrite LEN, cnt_app.
    destruct (Nat.ltb c (length (clos s))); lia.
  - intros c. rewrite c2, c1. unfold cntv. rewrite LEN, cnt_app.
    destruct (Nat.ltb c (length (clos s))); lia.
Qed.

Lemma drop_rel_nil s : drop_rel s s [].
Proof.
  constructor; try (intros; reflexivity); [repeat split| |]; intros c; unfold cntv; rewrite cnt_nil;
    destruct (Nat.ltb c (length (clos s))); lia.
Qed.

Lemma fold_drop_rel t l : forall s e, drop_rel s (fst (fold_left (drop1 t) l (s, e))) l.
Proof.
  induction l as [|c0 l IH]; intros s e.
  - cbn [fold_left fst]. apply drop_rel_nil.
  - cbn [fold_left]. pose proof (drop1_rel t s e c0) as H1.
    destruct (drop1 t (s, e) c0) as [s1 e1] eqn:E. cbn [fst] in H1.
    change (c0 :: l) with ([c0] ++ l). eapply drop_rel_app; [exact H1|apply IH].
Qed.

Lemma drop_all_rel t s l : drop_rel s (fst (drop_all t s l)) l.
Proof. unfold drop_all. apply fold_drop_rel. Qed.

(* ---------- tot under the elementary updates ---------- *)
Lemma tot_with_thr s i p old c : T s i = Some old ->
  tot (with_thr s i p) c + qof c old = tot s c + qof c p.
Proof.
  intros H. unfold tot, with_thr, G. cbn [clos queue thrs].
  pose proof (sumq_set_nth c (thrs s) i p old H). lia.
Qed.

Lemma sumq_ge c l i old : nth_error l i = Some old -> qof c old <= sumq c l.
Proof. intros H. pose proof (sumq_set_nth c l i CDone old H). cbn [qof] in H0. lia. Qed.

Lemma tot_drop s s' l c : drop_rel s s' l -> tot s' c = tot s c + cntv s c l.
Proof.
  intros [h r o b d cc]. destruct h as (hq & _ & _ & _ & _ & _ & ht & _).
  unfold tot. rewrite r, d, hq, ht. lia.
Qed.

Lemma cntv_valid s c l : (length (clos s) <= c -> cnt c l = 0) -> cntv s c l = cnt c l.
Proof. unfold cntv. intros H. destruct (Nat.ltb_spec c (length (clos s))); [reflexivity|]. symmetry. auto. Qed.

Lemma cntv_single s1 c c0 : length (clos s1) = S c0 -> cntv s1 c [c0] = if Nat.eqb c c0 then 1 else 0.
Proof.
  intros L. unfold cntv. rewrite L, cnt_cons, cnt_nil.
  destruct (Nat.eqb_spec c c0); [subst; assert (H : Nat.ltb c0 (S c0) = true) by (apply Nat.ltb_lt; lia); rewrite H; lia|].
  destruct (Nat.ltb c (S c0)); lia.
Qed.

Lemma ltb_S_cases c n : Nat.ltb c (S n) = if Nat.eqb c n then true else Nat.ltb c n.
Proof.
  destruct (Nat.eqb_spec c n); [subst; apply Nat.ltb_lt; lia|].
  destruct (Nat.ltb_spec c n); [apply Nat.ltb_lt; lia|apply Nat.ltb_ge; lia].
Qed.

(* ---------- invariant A: every closure is in exactly one place; a cancellation per un-run destruction ---------- *)
Definition CancOK (s : st) : Prop := forall c, G ccanc 0 s c = G cdrop 0 s c.
Definition TotOK (s : st) : Prop := forall c, tot s c = if Nat.ltb c (length (clos s)) then 1 else 0.
Record InvA (s : st) : Prop := { a_tot : TotOK s; a_canc : CancOK s }.

Lemma canc_drop s s' l : drop_rel s s' l -> CancOK s -> CancOK s'.
Proof. intros [h r o b d cc] C c. rewrite cc, d, (C c). reflexivity. Qed.
Lemma canc_same_clos s s' : clos s' = clos s -> CancOK s -> CancOK s'.
Proof. intros E C c. unfold G. rewrite E. apply C. Qed.

(* InvA only reads clos, queue and thrs *)
Lemma inva_ext s s' : clos s' = clos s -> queue s' = queue s -> thrs s' = thrs s -> InvA s -> InvA s'.
Proof.
  intros Ec Eq Et [I1 I2]. constructor.
  - intros c. unfold tot, G. rewrite Ec, Eq, Et. apply I1.
  - apply (canc_same_clos s); assumption.
Qed.

Lemma sumq_zero c l : (forall p, In p l -> qof c p = 0) -> sumq c l = 0.
Proof.
  induction l as [|p l IH]; intros F; [reflexivity|]. rewrite sumq_cons, IH, F; cbn; auto.
  intros; apply F; right; auto.
Qed.

Lemma next_client_q c i r : qof c (next_client i r) = 0.
Proof. unfold next_client. destruct r; [destruct (Nat.eqb i 0)|]; reflexivity. Qed.
Lemma job_next_q c r : qof c (job_next r) = 0.
Proof. destruct r as [|[] r]; reflexivity. Qed.
Lemma pc_after_q c t a : qof c (pc_after t a) = 0.
Proof. destruct a as [r| |[|] r]; cbn [pc_after]; try reflexivity; [apply next_client_q|apply job_next_q]. Qed.

Lemma inva_init ops : InvA (init ops).
Proof.
  unfold init. constructor.
  - intros c. unfold tot, G. cbn [clos queue thrs length]. rewrite cnt_nil, sumq_zero.
    + destruct c; reflexivity.
    + intros p Hin. apply in_app_or in Hin. destruct Hin as [Hin|Hin].
      * apply in_map_iff in Hin. destruct Hin as ([i pr] & <- & _). apply next_client_q.
      * apply repeat_spec in Hin. subst. reflexivity.
  - intros c. unfold G. cbn [clos]. destruct c; reflexivity.
Qed.

(* the thread changes only its own pc, to one that holds the same swapped-out list *)
Lemma inva_with_thr s i p old : InvA s -> T s i = Some old -> (forall c, qof c p = qof c old) -> InvA (with_thr s i p).
Proof.
  intros [I1 I2] H Q. constructor.
  - intros c. pose proof (tot_with_thr s i p old c H). rewrite Q in H0. unfold with_thr at 2. cbn [clos].
    rewrite <- I1. lia.
  - apply (canc_same_clos s); [reflexivity|exact I2].
Qed.

(* enqueue followed by the caller's move to a pc without a swapped-out list *)
Lemma inva_enqueue s i l k b p old : InvA s -> T s i = Some old ->
  (forall c, qof c old = 0) -> (forall c, qof c p = 0) ->
  InvA (with_thr (fst (enqueue s i l k b)) i p).
Proof.
  intros I H Qo Qp. destruct I as [I1 I2].
  set (y := mkClo l k b 0 0 0 0).
  set (c0 := length (clos s)).
  set (s1 := with_clos s (clos s ++ [y])).
  assert (LEN1 : length (clos s1) = S c0).
  { unfold s1, with_clos, c0. cbn [clos]. rewrite app_length. cbn [length]. lia. }
  assert (G1 : forall A (f : clo -> A) d c, G f d s1 c = if Nat.eqb c c0 then f y else G f d s c).
  { intros. unfold s1, c0. apply G_app. }
  assert (N0 : forall A (f : clo -> A) d, G f d s c0 = d) by (intros; apply G_none; unfold c0; lia).
  unfold enqueue. fold y. fold s1. fold c0.
  destruct (exit_ s) eqn:EX.
  - (* rejected: dropped in the caller *)
    pose proof (drop1_rel i s1 [] c0) as D.
    set (s2 := fst (drop1 i (s1, []) c0)) in *.
    destruct D as [h r o bb d cc].
    destruct h as (hq & _ & _ & _ & _ & _ & ht & hl & _).
    assert (Qs : queue s2 = queue s) by (rewrite hq; reflexivity).
    assert (Ts : thrs s2 = thrs s) by (rewrite ht; reflexivity).
    assert (LEN2 : length (clos s2) = S c0) by lia.
    constructor.
    + intros c. unfold with_thr at 2. cbn [clos]. rewrite LEN2.
      unfold tot, with_thr, G at 1 2. cbn [clos queue thrs]. fold (G cran 0 s2 c) (G cdrop 0 s2 c).
      rewrite r, d, Qs, Ts, !G1, (cntv_single s1 c c0 LEN1), ltb_S_cases.
      pose proof (sumq_set_nth c (thrs s) i p old H) as E1. rewrite Qo, Qp in E1.
      specialize (I1 c). unfold tot in I1. fold c0 in I1.
      destruct (Nat.eqb_spec c c0) as [Q|Q].
      * subst c. rewrite !N0 in I1. rewrite Nat.ltb_irrefl in I1. cbn [y cran cdrop]. lia.
      * lia.
    + intros c. unfold with_thr, G at 1 2. cbn [clos]. fold (G ccanc 0 s2 c) (G cdrop 0 s2 c).
      rewrite cc, d, !G1. specialize (I2 c).
      destruct (Nat.eqb_spec c c0) as [Q|Q]; [reflexivity|]. rewrite I2. reflexivity.
  - (* accepted *)
    cbn [fst].
    constructor.
    + intros c. unfold with_thr at 2. unfold with_tokens, with_queue. cbn [clos]. rewrite LEN1.
      unfold tot, with_thr, with_tokens, with_queue, G at 1 2. cbn [clos queue thrs].
      fold (G cran 0 s1 c) (G cdrop 0 s1 c). rewrite !G1, ltb_S_cases.
      replace (thrs s1) with (thrs s) by reflexivity.
      pose proof (sumq_set_nth c (thrs s) i p old H) as E1. rewrite Qo, Qp in E1.
      rewrite cnt_app, cnt_cons, cnt_nil. specialize (I1 c). unfold tot in I1. fold c0 in I1.
      destruct (Nat.eqb_spec c c0) as [Q|Q].
      * subst c. rewrite !N0 in I1. rewrite Nat.ltb_irrefl in I1. cbn [y cran cdrop]. lia.
      * lia.
    + intros c. unfold with_thr, with_tokens, with_queue, G at 1 2. cbn [clos].
      fold (G ccanc 0 s1 c) (G cdrop 0 s1 c). rewrite !G1.
      destruct (Nat.eqb_spec c c0) as [Q|Q]; [reflexivity|apply I2].
Qed.

(* "pre-invariant" of a thread that carries a list q on its stack: q is counted in `extra` *)
Definition TotX (s : st) (q : list nat) (old : pc) : Prop :=
  forall c, tot s c + cnt c q = (if Nat.ltb c (length (clos s)) then 1 else 0) + qof c old.

Lemma totx_valid s t q old : T s t = Some old -> TotX s q old ->
  (forall c, length (clos s) <= c -> cnt c q = 0) /\ (forall c, length (clos s) <= c -> cnt c (queue s) = 0).
Proof.
  intros H Ht. split; intros c L; specialize (Ht c);
    assert (Lb : Nat.ltb c (length (clos s)) = false) by (apply Nat.ltb_ge; lia);
    rewrite Lb in Ht; pose proof (sumq_ge c (thrs s) t old H); unfold tot in Ht; lia.
Qed.

(* stop() returns to the caller: a_tot for the state in which the caller's pc no longer holds anything *)
Lemma inva_returned s t a old : T s t = Some old -> TotX s [] old -> CancOK s -> InvA (fst (returned s t a)).
Proof.
  intros H Ht C.
  destruct (totx_valid s t [] old H Ht) as [_ VQ2].
  assert (SIMPLE : forall p, (forall c, qof c p = 0) -> InvA (with_thr s t p)).
  { intros p Qp. constructor.
    - intros c. pose proof (tot_with_thr s t p old c H) as E. rewrite Qp in E. specialize (Ht c). rewrite cnt_nil in Ht.
      unfold with_thr at 2. cbn [clos]. lia.
    - apply (canc_same_clos s); [reflexivity|exact C]. }
  unfold returned. destruct a as [prog| |d r].
  - cbn [fst]. apply SIMPLE. intros c. apply (pc_after_q c t (AClient prog)).
  - pose proof (drop_all_rel t s (queue s)) as D2.
    destruct (drop_all t s (queue s)) as [s2 e2] eqn:E2. cbn [fst] in D2. cbn [fst].
    assert (T2 : thrs s2 = thrs s).
    { destruct D2 as [h _ _ _ _ _]. destruct h as (_ & _ & _ & _ & _ & _ & ht & _). exact ht. }
    assert (L2 : length (clos s2) = length (clos s)).
    { destruct D2 as [h _ _ _ _ _]. destruct h as (_ & _ & _ & _ & _ & _ & _ & hl & _). exact hl. }
    constructor.
    + intros c. unfold tot, with_thr, dead, G at 1 2. cbn [clos queue thrs]. fold (G cran 0 s2 c) (G cdrop 0 s2 c).
      rewrite cnt_nil, L2, T2.
      destruct D2 as [_ r2 _ _ d2 _]. rewrite r2, d2.
      rewrite (cntv_valid s c (queue s) (VQ2 c)).
      specialize (Ht c). rewrite cnt_nil in Ht. unfold tot in Ht.
      pose proof (sumq_set_nth c (thrs s) t CDone old H) as E3. cbn [qof] in E3. lia.
    + apply (canc_same_clos s2); [reflexivity|]. eapply canc_drop; eassumption.
  - cbn [fst]. apply SIMPLE. intros c. apply (pc_after_q c t (AWorker d r)).
Qed.

(* end of the join loop: the swapped-out list q dies *)
Lemma inva_stop_end s t q first a old : T s t = Some old -> TotX s q old -> CancOK s ->
  InvA (fst (stop_end s t q first a)).
Proof.
  intros H Ht C.
  destruct (totx_valid s t q old H Ht) as [VQ VQ2].
  unfold stop_end. pose proof (drop_all_rel t s q) as D.
  destruct (drop_all t s q) as [s1 e] eqn:E1. cbn [fst] in D.
  assert (T1 : T s1 t = Some old).
  { unfold T. destruct D as [h _ _ _ _ _]. destruct h as (_ & _ & _ & _ & _ & _ & ht & _). rewrite ht. exact H. }
  assert (L1 : length (clos s1) = length (clos s)).
  { destruct D as [h _ _ _ _ _]. destruct h as (_ & _ & _ & _ & _ & _ & _ & hl & _). exact hl. }
  assert (C1 : CancOK s1) by (eapply canc_drop; eassumption).
  assert (TOT1 : TotX s1 [] old).
  { intros c. rewrite cnt_nil, (tot_drop s s1 q c D), (cntv_valid s c q (VQ c)), L1. specialize (Ht c). lia. }
  destruct first.
  - cbn [fst]. constructor.
    + intros c. pose proof (tot_with_thr s1 t (SFin a) old c T1) as E. cbn [qof] in E. specialize (TOT1 c).
      rewrite cnt_nil in TOT1. unfold with_thr at 2. cbn [clos]. lia.
    + apply (canc_same_clos s1); [reflexivity|exact C1].
  - pose proof (inva_returned s1 t a old T1 TOT1 C1) as R.
    destruct (returned s1 t a) as [s2 e2]. exact R.
Qed.

Lemma inva_after_wait s t l q first a old : T s t = Some old -> TotX s q old -> CancOK s ->
  InvA (fst (after_wait s t l q first a)).
Proof.
  intros H Ht C. unfold after_wait. destruct l as [|w l].
  - apply (inva_stop_end s t q first a old); assumption.
  - cbn [fst]. constructor.
    + intros c. pose proof (tot_with_thr s t (Join (w :: l) q first a) old c H) as E. cbn [qof] in E.
      specialize (Ht c). unfold with_thr at 2. cbn [clos]. lia.
    + apply (canc_same_clos s); [reflexivity|exact C].
Qed.

Lemma inva_stop_mark s t a old : InvA s -> T s t = Some old -> (forall c, qof c old = 0) ->
  InvA (fst (stop_mark s t a)).
Proof.
  intros [I1 I2] H Qo. unfold stop_mark.
  set (s1 := marked s (sleeper_ids s)).
  set (a' := match a with AWorker _ r => AWorker (existsb (Nat.eqb t) (threads s)) r | _ => a end).
  set (l := filter (fun w => negb (Nat.eqb w t)) (threads s)).
  assert (TX : TotX s1 (queue s) old).
  { intros c. unfold tot, s1, marked, G. cbn [clos queue thrs]. rewrite cnt_nil, Qo.
    specialize (I1 c). unfold tot, G in I1. lia. }
  assert (C1 : CancOK s1) by (apply (canc_same_clos s); [reflexivity|exact I2]).
  assert (H1 : T s1 t = Some old) by exact H.
  destruct (negb (negb (exit_ s)) && negb (is_cur s t) && negb (stopped s)).
  - cbn [fst]. constructor.
    + intros c. pose proof (tot_with_thr s1 t (SWait l (queue s) a') old c H1) as E. cbn [qof] in E.
      specialize (TX c). unfold with_thr at 2. cbn [clos]. change (clos s1) with (clos s) in *. lia.
    + apply (canc_same_clos s); [reflexivity|exact I2].
  - apply (inva_after_wait s1 t l (queue s) (negb (exit_ s)) a' old); assumption.
Qed.

Lemma inva_run_job s w c0 r old : InvA s -> queue s = c0 :: r -> T s w = Some old -> (forall c, qof c old = 0) ->
  InvA (fst (run_job (with_queue s r) w c0)).
Proof.
  intros [I1 I2] Q H Qo.
  assert (L : c0 < length (clos s)).
  { specialize (I1 c0). destruct (Nat.ltb_spec c0 (length (clos s))); [assumption|].
    unfold tot in I1. rewrite Q, cnt_cons, Nat.eqb_refl in I1. lia. }
  unfold run_job. replace (clos (with_queue s r)) with (clos s) by reflexivity.
  destruct (nth_error (clos s) c0) as [x|] eqn:E; [|apply nth_error_None in E; lia].
  set (x' := mkClo (clbl x) (ck x) (cb x) (S (cran x)) w (cdrop x) (ccanc x)).
  set (p := job_next (cb x)).
  assert (Qp : forall c, qof c p = 0) by (intros c; apply job_next_q).
  assert (Lb : Nat.ltb c0 (length (clos s)) = true) by (apply Nat.ltb_lt; exact L).
  cbn [fst]. constructor.
  - intros c. unfold tot, with_thr, with_clos, with_queue, G at 1 2. cbn [clos queue thrs].
    rewrite set_nth_length.
    change (match nth_error (set_nth (clos s) c0 x') c with Some x0 => cran x0 | None => 0 end)
      with (G cran 0 (with_clos s (set_nth (clos s) c0 x')) c).
    change (match nth_error (set_nth (clos s) c0 x') c with Some x0 => cdrop x0 | None => 0 end)
      with (G cdrop 0 (with_clos s (set_nth (clos s) c0 x')) c).
    rewrite !G_set, Lb.
    pose proof (sumq_set_nth c (thrs s) w p old H) as E1. rewrite Qo, Qp in E1.
    specialize (I1 c). unfold tot in I1. rewrite Q, cnt_cons in I1.
    destruct (Nat.eqb_spec c0 c) as [QQ|QQ].
    + subst c. rewrite Nat.eqb_refl in I1. rewrite !(G_some _ _ _ _ _ E) in I1. cbn [x' cran cdrop]. lia.
    + assert (Q2 : Nat.eqb c c0 = false) by (apply Nat.eqb_neq; congruence). rewrite Q2 in I1. lia.
  - intros c. unfold with_thr, with_clos, with_queue, G at 1 2. cbn [clos].
    change (match nth_error (set_nth (clos s) c0 x') c with Some x0 => ccanc x0 | None => 0 end)
      with (G ccanc 0 (with_clos s (set_nth (clos s) c0 x')) c).
    change (match nth_error (set_nth (clos s) c0 x') c with Some x0 => cdrop x0 | None => 0 end)
      with (G cdrop 0 (with_clos s (set_nth (clos s) c0 x')) c).
    rewrite !G_set, Lb. specialize (I2 c).
    destruct (Nat.eqb_spec c0 c) as [QQ|QQ]; [|exact I2].
    subst c. rewrite !(G_some _ _ _ _ _ E) in I2. exact I2.
Qed.

Lemma exit_pc_q c s w : qof c (exit_pc s w) = 0.
Proof. unfold exit_pc. destruct (Nat.ltb w (nclients s)); [apply next_client_q|reflexivity]. Qed.

Lemma inva_worker_cs s w old : InvA s -> T s w = Some old -> (forall c, qof c old = 0) -> InvA (fst (worker_cs s w)).
Proof.
  intros I H Qo. unfold worker_cs.
  destruct (exit_ s) eqn:EX.
  - cbn [fst]. apply (inva_with_thr s w _ old I H). intros c. rewrite Qo. apply exit_pc_q.
  - destruct (queue s) as [|c0 r] eqn:QQ.
    + cbn [fst]. apply (inva_with_thr s w _ old I H). intros c. rewrite Qo. reflexivity.
    + apply (inva_run_job s w c0 r old); auto.
Qed.

Theorem inva_core s i : InvA s -> enabled s i = true -> InvA (cstep s i).
Proof.
  intros I EN. unfold cstep, core. unfold enabled in EN.
  destruct (nth_error (thrs s) i) as [p|] eqn:H; [|discriminate].
  destruct p as [prog| | | | | |l k r|l r|l r|r|q r| |l q f a|l q a|a].
  - destruct prog as [|[l k b| |] r].
    + cbn [fst]. apply (inva_with_thr s i _ (CAt []) I H). intros c. apply next_client_q.
    + pose proof (inva_enqueue s i l k b (next_client i r) (CAt (OSub l k b :: r)) I H) as E.
      destruct (enqueue s i l k b) as [s1 e]. cbn [fst] in *. apply E; [reflexivity|]. intros c. apply next_client_q.
    + pose proof (inva_stop_mark s i (AClient r) _ I H) as E.
      destruct (stop_mark s i (AClient r)) as [s1 e]. cbn [fst] in *. apply E. reflexivity.
    + assert (I' : InvA (with_ext s i r)) by (apply (inva_ext s); auto).
      pose proof (inva_worker_cs (with_ext s i r) i (CAt (OWorker :: r)) I' H) as E.
      destruct (worker_cs (with_ext s i r) i) as [s1 e]. cbn [fst] in *. apply E. reflexivity.
  - cbn [fst]. apply (inva_with_thr s i _ CXWait I H). reflexivity.
  - pose proof (inva_stop_mark s i ADtor _ I H) as E.
    destruct (stop_mark s i ADtor) as [s1 e]. cbn [fst] in *. apply E. reflexivity.
  - discriminate.
  - pose proof (inva_worker_cs s i WIdle I H) as E.
    destruct (worker_cs s i) as [s1 e]. cbn [fst] in *. apply E. reflexivity.
  - assert (I' : InvA (wake s i)).
    { apply (inva_ext s); auto; unfold wake; destruct (is_woken s i); reflexivity. }
    assert (H' : T (wake s i) i = Some WSleep) by (unfold T, wake; destruct (is_woken s i); exact H).
    pose proof (inva_worker_cs (wake s i) i WSleep I' H') as E.
    destruct (worker_cs (wake s i) i) as [s1 e]. cbn [fst] in *. apply E. reflexivity.
  - pose proof (inva_enqueue s i l k [] (job_next r) (WSub l k r) I H) as E.
    destruct (enqueue s i l k []) as [s1 e]. cbn [fst] in *. apply E; [reflexivity|]. intros c. apply job_next_q.
  - pose proof (inva_enqueue s i l KHop r WIdle (WHop l r) I H) as E.
    destruct (enqueue s i l KHop r) as [s1 e]. cbn [fst] in *. apply E; reflexivity.
  - cbn [fst]. apply (inva_with_thr s i _ (WPeek l r) I H). intros c.
    destruct (exit_ s); [apply job_next_q|reflexivity].
  - pose proof (inva_stop_mark s i (AWorker false r) _ I H) as E.
    destruct (stop_mark s i (AWorker false r)) as [s1 e]. cbn [fst] in *. apply E. reflexivity.
  - cbn [fst]. apply (inva_with_thr s i _ (WQry q r) I H). intros c. apply job_next_q.
  - discriminate.
  - assert (SE : InvA (fst (stop_end s i q f a))).
    { apply (inva_stop_end s i q f a (Join l q f a)); [exact H| |exact (a_canc s I)].
      intros c. rewrite (a_tot s I c). cbn [qof]. lia. }
    destruct l as [|w0 [|w1 l]].
    + destruct (stop_end s i q f a) as [s1 e]. exact SE.
    + destruct (stop_end s i q f a) as [s1 e]. exact SE.
    + cbn [fst]. apply (inva_with_thr s i _ (Join (w0 :: w1 :: l) q f a) I H). reflexivity.
  - assert (I' : InvA (wake s i)).
    { apply (inva_ext s); auto; unfold wake; destruct (is_woken s i); reflexivity. }
    assert (H' : T (wake s i) i = Some (SWait l q a)) by (unfold T, wake; destruct (is_woken s i); exact H).
    destruct (stopped s).
    + pose proof (inva_after_wait (wake s i) i l q false a _ H') as E.
      destruct (after_wait (wake s i) i l q false a) as [s1 e]. cbn [fst] in *. apply E; [|exact (a_canc _ I')].
      intros c. rewrite (a_tot _ I' c). cbn [qof]. lia.
    + cbn [fst]. exact I'.
  - assert (I' : InvA (finished s (sleeper_ids s))) by (apply (inva_ext s); auto).
    pose proof (inva_returned (finished s (sleeper_ids s)) i a (SFin a) H) as E.
    destruct (returned (finished s (sleeper_ids s)) i a) as [s1 e]. cbn [fst] in *. apply E; [|exact (a_canc _ I')].
    intros c. rewrite cnt_nil, (a_tot _ I' c). cbn [qof]. lia.
Qed.

Lemma step_core s i : step s i = cstep s i \/ step s i = with_uad (cstep s i) true.
Proof.
  unfold step, cstep, tstep. destruct (core s i) as [[s1 p] e]. cbn [fst].
  destruct (match nth_error (thrs s) i with Some p0 => destroyed s && touches p0 | None => false end); auto.
Qed.

Theorem inva_step s i : InvA s -> enabled s i = true -> InvA (step s i).
Proof.
  intros I EN. pose proof (inva_core s i I EN) as C.
  destruct (step_core s i) as [-> | ->]; [exact C|]. apply (inva_ext (cstep s i)); auto.
Qed.

Theorem inva_reachable ops s : reachable ops s -> InvA s.
Proof. induction 1; [apply inva_init|apply inva_step; assumption]. Qed.
