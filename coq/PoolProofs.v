(* PoolProofs.v — invariants of the thread-pool model for every pool size, every client program, every
   job body and every schedule (induction over reachability). *)
From Cocls Require Import Base BaseProofs PoolDefs.
Require Import Lia.
Local Open Scope nat_scope.

Definition T (s : st) (i : nat) : option pc := nth_error (thrs s) i.
Definition step (s : st) (i : nat) : st := fst (fst (tstep s i)).

Inductive reachable (ops : list (list Z)) : st -> Prop :=
| r_init : reachable ops (init ops)
| r_step s i : reachable ops s -> enabled s i = true -> reachable ops (step s i).

(* ---------- counting ---------- *)
Fixpoint cnt (c : nat) (l : list nat) : nat :=
  match l with [] => 0 | x :: r => (if Nat.eqb c x then 1 else 0) + cnt c r end.
Definition qof (c : nat) (p : pc) : nat := match p with Join _ q _ => cnt c q | _ => 0 end.
Fixpoint sumq (c : nat) (l : list pc) : nat := match l with [] => 0 | p :: r => qof c p + sumq c r end.
(* field f of closure c, d when c does not exist *)
Definition G {A} (f : clo -> A) (d : A) (s : st) (c : nat) : A :=
  match nth_error (clos s) c with Some x => f x | None => d end.
Definition kown (x : clo) : bool := owned (ck x).
(* where closure c is: invoked + destroyed un-run + queued + swapped out by a stop() in progress *)
Definition tot (s : st) (c : nat) : nat := G cran 0 s c + G cdrop 0 s c + cnt c (queue s) + sumq c (thrs s).
Arguments cnt : simpl never.
Arguments sumq : simpl never.
Arguments tot : simpl never.

Lemma cnt_nil c : cnt c [] = 0. Proof. reflexivity. Qed.
Lemma cnt_cons c x r : cnt c (x :: r) = (if Nat.eqb c x then 1 else 0) + cnt c r. Proof. reflexivity. Qed.
Lemma cnt_app c a b : cnt c (a ++ b) = cnt c a + cnt c b.
Proof. induction a as [|x a IH]; [reflexivity|]. cbn [app]. rewrite !cnt_cons, IH. lia. Qed.
Lemma sumq_nil c : sumq c [] = 0. Proof. reflexivity. Qed.
Lemma sumq_cons c p r : sumq c (p :: r) = qof c p + sumq c r. Proof. reflexivity. Qed.
Lemma sumq_app c a b : sumq c (a ++ b) = sumq c a + sumq c b.
Proof. induction a as [|x a IH]; [reflexivity|]. cbn [app]. rewrite !sumq_cons, IH. lia. Qed.

Lemma sumq_set_nth c l : forall i p old, nth_error l i = Some old ->
  sumq c (set_nth l i p) + qof c old = sumq c l + qof c p.
Proof.
  induction l as [|x l IH]; intros [|i] p old H; cbn [nth_error] in H; try discriminate.
  - inversion H; subst. cbn [set_nth]. rewrite !sumq_cons. lia.
  - cbn [set_nth]. rewrite !sumq_cons. specialize (IH i p old H). lia.
Qed.

Lemma set_nth_length {A} (l : list A) i x : length (set_nth l i x) = length l.
Proof. revert i; induction l as [|y l IH]; intros [|i]; cbn; auto. Qed.

Lemma T_with_thr s i p j : i < length (thrs s) ->
  T (with_thr s i p) j = if Nat.eqb i j then Some p else T s j.
Proof.
  intros L. unfold T, with_thr. cbn [thrs]. destruct (Nat.eqb_spec i j) as [E|E].
  - subst. apply nth_error_set_nth_same. exact L.
  - apply nth_error_set_nth_other. exact E.
Qed.
Lemma T_lt s i p : T s i = Some p -> i < length (thrs s).
Proof. unfold T. intros H. apply nth_error_Some. congruence. Qed.

(* ---------- closure store ---------- *)
Lemma G_set {A} (f : clo -> A) d s c0 y c :
  G f d (with_clos s (set_nth (clos s) c0 y)) c =
  if Nat.eqb c0 c then (if Nat.ltb c0 (length (clos s)) then f y else d) else G f d s c.
Proof.
  unfold G, with_clos. cbn [clos]. destruct (Nat.eqb_spec c0 c) as [E|E].
  - subst. destruct (Nat.ltb_spec c (length (clos s))) as [L|L].
    + rewrite nth_error_set_nth_same by exact L. reflexivity.
    + assert (H : nth_error (set_nth (clos s) c y) c = None).
      { apply nth_error_None. rewrite set_nth_length. exact L. }
      rewrite H. reflexivity.
  - rewrite nth_error_set_nth_other by exact E. reflexivity.
Qed.

Lemma G_app {A} (f : clo -> A) d s y c :
  G f d (with_clos s (clos s ++ [y])) c =
  if Nat.eqb c (length (clos s)) then f y else G f d s c.
Proof.
  unfold G, with_clos. cbn [clos]. destruct (Nat.eqb_spec c (length (clos s))) as [E|E].
  - subst. rewrite nth_error_app2 by lia. rewrite Nat.sub_diag. reflexivity.
  - destruct (Nat.ltb_spec c (length (clos s))) as [L|L].
    + rewrite nth_error_app1 by exact L. reflexivity.
    + assert (H : nth_error (clos s ++ [y]) c = None).
      { apply nth_error_None. rewrite app_length. cbn [length]. lia. }
      assert (H2 : nth_error (clos s) c = None) by (apply nth_error_None; lia).
      rewrite H, H2. reflexivity.
Qed.

Lemma G_some {A} (f : clo -> A) d s c x : nth_error (clos s) c = Some x -> G f d s c = f x.
Proof. unfold G. intros ->. reflexivity. Qed.
Lemma G_none {A} (f : clo -> A) d s c : length (clos s) <= c -> G f d s c = d.
Proof. unfold G. intros L. apply nth_error_None in L. rewrite L. reflexivity. Qed.

(* the parts of the state a closure-store update leaves alone *)
Definition shell_eq (s s' : st) : Prop :=
  queue s' = queue s /\ exit_ s' = exit_ s /\ threads s' = threads s /\ tokens s' = tokens s /\
  destroyed s' = destroyed s /\ nclients s' = nclients s /\ thrs s' = thrs s /\ length (clos s') = length (clos s).

Lemma shell_eq_refl s : shell_eq s s. Proof. repeat split. Qed.
Lemma shell_eq_trans a b c : shell_eq a b -> shell_eq b c -> shell_eq a c.
Proof. unfold shell_eq. intuition congruence. Qed.

(* closure c after dropping the ids in l: everything as before except cdrop / ccanc *)
Definition cntv (s : st) (c : nat) (l : list nat) : nat := if Nat.ltb c (length (clos s)) then cnt c l else 0.

Record drop_rel (s s' : st) (l : list nat) : Prop := {
  dr_shell : shell_eq s s';
  dr_ran : forall c, G cran 0 s' c = G cran 0 s c;
  dr_on : forall c, G cran_on 0 s' c = G cran_on 0 s c;
  dr_own : forall c, G kown false s' c = G kown false s c;
  dr_cb : forall c, G cb BNone s' c = G cb BNone s c;
  dr_drop : forall c, G cdrop 0 s' c = G cdrop 0 s c + cntv s c l;
  dr_canc : forall c, G ccanc 0 s' c = G ccanc 0 s c + (if G kown false s c then cntv s c l else 0)
}.

Lemma drop1_rel t s e c0 : drop_rel s (fst (drop1 t (s, e) c0)) [c0].
Proof.
  unfold drop1. cbn [fst snd].
  destruct (nth_error (clos s) c0) as [x|] eqn:E.
  - assert (L : c0 < length (clos s)) by (apply nth_error_Some; congruence).
    assert (Lb : Nat.ltb c0 (length (clos s)) = true) by (apply Nat.ltb_lt; exact L).
    cbn [fst].
    constructor.
    + unfold shell_eq, with_clos. cbn. rewrite set_nth_length. repeat split.
    + intros c. rewrite G_set, Lb. destruct (Nat.eqb_spec c0 c); [subst; rewrite (G_some _ _ _ _ _ E)|]; reflexivity.
    + intros c. rewrite G_set, Lb. destruct (Nat.eqb_spec c0 c); [subst; rewrite (G_some _ _ _ _ _ E)|]; reflexivity.
    + intros c. rewrite G_set, Lb. destruct (Nat.eqb_spec c0 c); [subst; rewrite (G_some _ _ _ _ _ E)|]; reflexivity.
    + intros c. rewrite G_set, Lb. destruct (Nat.eqb_spec c0 c); [subst; rewrite (G_some _ _ _ _ _ E)|]; reflexivity.
    + intros c. rewrite G_set, Lb. unfold cntv. rewrite cnt_cons, cnt_nil.
      destruct (Nat.eqb_spec c0 c) as [Q|Q].
      * subst. rewrite (G_some _ _ _ _ _ E), Lb, Nat.eqb_refl. cbn [drop_clo cdrop]. lia.
      * assert (Q2 : Nat.eqb c c0 = false) by (apply Nat.eqb_neq; congruence). rewrite Q2.
        destruct (Nat.ltb c (length (clos s))); lia.
    + intros c. rewrite G_set, Lb. unfold cntv. rewrite cnt_cons, cnt_nil.
      destruct (Nat.eqb_spec c0 c) as [Q|Q].
      * subst. rewrite !(G_some _ _ _ _ _ E), Lb, Nat.eqb_refl. unfold kown. cbn [drop_clo ccanc ck].
        destruct (owned (ck x)); lia.
      * assert (Q2 : Nat.eqb c c0 = false) by (apply Nat.eqb_neq; congruence). rewrite Q2.
        destruct (G kown false s c); destruct (Nat.ltb c (length (clos s))); lia.
  - cbn [fst].
    assert (L : length (clos s) <= c0) by (apply nth_error_None; exact E).
    constructor; try (intros; reflexivity); [apply shell_eq_refl| |].
    + intros c. unfold cntv. rewrite cnt_cons, cnt_nil.
      destruct (Nat.ltb_spec c (length (clos s))); [|lia].
      assert (Q2 : Nat.eqb c c0 = false) by (apply Nat.eqb_neq; lia). rewrite Q2. lia.
    + intros c. unfold cntv. rewrite cnt_cons, cnt_nil.
      destruct (Nat.ltb_spec c (length (clos s))); [|destruct (G kown false s c); lia].
      assert (Q2 : Nat.eqb c c0 = false) by (apply Nat.eqb_neq; lia). rewrite Q2.
      destruct (G kown false s c); lia.
Qed.

Lemma drop_rel_app s s1 s2 a b : drop_rel s s1 a -> drop_rel s1 s2 b -> drop_rel s s2 (a ++ b).
Proof.
  intros [h1 r1 o1 w1 b1 d1 c1] [h2 r2 o2 w2 b2 d2 c2].
  assert (LEN : length (clos s1) = length (clos s)) by (unfold shell_eq in h1; tauto).
  constructor.
  - eapply shell_eq_trans; eassumption.
  - intros c. rewrite r2, r1. reflexivity.
  - intros c. rewrite o2, o1. reflexivity.
  - intros c. rewrite w2, w1. reflexivity.
  - intros c. rewrite b2, b1. reflexivity.
  - intros c. rewrite d2, d1. unfold cntv. rewrite LEN, cnt_app.
    destruct (Nat.ltb c (length (clos s))); lia.
  - intros c. rewrite c2, c1, w1. unfold cntv. rewrite LEN, cnt_app.
    destruct (G kown false s c); destruct (Nat.ltb c (length (clos s))); lia.
Qed.

Lemma drop_rel_nil s : drop_rel s s [].
Proof.
  constructor; try (intros; reflexivity); [apply shell_eq_refl| |]; intros c; unfold cntv; rewrite cnt_nil;
    destruct (Nat.ltb c (length (clos s))); try destruct (G kown false s c); lia.
Qed.

Lemma fold_drop_rel t l : forall s e, drop_rel s (fst (fold_left (drop1 t) l (s, e))) l.
Proof.
  induction l as [|c0 l IH]; intros s e.
  - cbn [fold_left fst]. apply drop_rel_nil.
  - cbn [fold_left]. pose proof (drop1_rel t s e c0) as H1.
    destruct (drop1 t (s, e) c0) as [s1 e1] eqn:E. cbn [fst] in H1.
    change (c0 :: l) with ([c0] ++ l). eapply drop_rel_app; [exact H1|apply IH].
Qed.

Lemma drop_all_rel t s l : drop_rel s (fst (drop_all t s l)) l.
Proof. unfold drop_all. apply fold_drop_rel. Qed.

(* ---------- tot under the elementary updates ---------- *)
Lemma tot_with_thr s i p old c : T s i = Some old ->
  tot (with_thr s i p) c + qof c old = tot s c + qof c p.
Proof.
  intros H. unfold tot, with_thr, G. cbn [clos queue thrs].
  pose proof (sumq_set_nth c (thrs s) i p old H). lia.
Qed.

Lemma tot_shell s s' c : shell_eq s s' ->
  tot s' c + G cran 0 s c + G cdrop 0 s c = tot s c + G cran 0 s' c + G cdrop 0 s' c.
Proof. unfold shell_eq, tot. intros (q & _ & _ & _ & _ & _ & t & _). rewrite q, t. lia. Qed.

(* ---------- invariant A: every closure is in exactly one place ---------- *)
Record InvA (s : st) : Prop := {
  a_tot : forall c, tot s c = if Nat.ltb c (length (clos s)) then 1 else 0;
  a_canc : forall c, G ccanc 0 s c = if G kown false s c then G cdrop 0 s c else 0
}.

Lemma a_valid_q s c : InvA s -> length (clos s) <= c -> cnt c (queue s) = 0.
Proof.
  intros I L. pose proof (a_tot s I c) as H. destruct (Nat.ltb_spec c (length (clos s))); [lia|].
  unfold tot in H. lia.
Qed.
Lemma a_valid_j s c i l q a : InvA s -> T s i = Some (Join l q a) -> length (clos s) <= c -> cnt c q = 0.
Proof.
  intros I H L. pose proof (a_tot s I c) as H1. destruct (Nat.ltb_spec c (length (clos s))); [lia|].
  unfold tot in H1.
  pose proof (sumq_set_nth c (thrs s) i CDone _ H) as H2. cbn [qof] in H2. lia.
Qed.
Lemma cntv_valid s c l : (length (clos s) <= c -> cnt c l = 0) -> cntv s c l = cnt c l.
Proof. unfold cntv. intros H. destruct (Nat.ltb_spec c (length (clos s))); [reflexivity|]. symmetry. auto. Qed.

Lemma inva_init ops : InvA (init ops).
Proof.
  unfold init. constructor; cbn [clos queue thrs length].
  - intros c. unfold tot, G. cbn [clos queue thrs]. rewrite cnt_nil.
    assert (H : forall l, (forall p, In p l -> qof c p = 0) -> sumq c l = 0).
    { induction l as [|p l IH]; intros F; [reflexivity|]. rewrite sumq_cons, IH, F; cbn; auto. intros; apply F; right; auto. }
    rewrite H.
    + destruct c; reflexivity.
    + intros p Hin. apply in_app_or in Hin. destruct Hin as [Hin|Hin].
      * apply in_map_iff in Hin. destruct Hin as ([i pr] & <- & _). unfold next_client. cbn [fst snd].
        destruct pr; [destruct (Nat.eqb i 0)|]; reflexivity.
      * apply repeat_spec in Hin. subst. reflexivity.
  - intros c. unfold G. cbn [clos]. destruct c; reflexivity.
Qed.

(* a generic shape: the new state is (with_thr s1 i p) where s1 relates to s by a described change *)
Lemma inva_with_thr s i p old : InvA s -> T s i = Some old -> (forall c, qof c p = qof c old) -> InvA (with_thr s i p).
Proof.
  intros [I1 I2] H Q. constructor.
  - intros c. pose proof (tot_with_thr s i p old c H). rewrite Q in H0. unfold with_thr at 2. cbn [clos].
    rewrite <- I1. lia.
  - intros c. unfold with_thr, G. cbn [clos]. apply I2.
Qed.

Lemma thrs_with_clos s cl : thrs (with_clos s cl) = thrs s. Proof. reflexivity. Qed.
Lemma T_with_clos s cl i : T (with_clos s cl) i = T s i. Proof. reflexivity. Qed.
Lemma T_with_queue s q i : T (with_queue s q) i = T s i. Proof. reflexivity. Qed.
Lemma T_with_tokens s n i : T (with_tokens s n) i = T s i. Proof. reflexivity. Qed.

Lemma cntv_single s1 c c0 : length (clos s1) = S c0 -> cntv s1 c [c0] = if Nat.eqb c c0 then 1 else 0.
Proof.
  intros L. unfold cntv. rewrite L, cnt_cons, cnt_nil.
  destruct (Nat.eqb_spec c c0); [subst; assert (H : Nat.ltb c0 (S c0) = true) by (apply Nat.ltb_lt; lia); rewrite H; lia|].
  destruct (Nat.ltb c (S c0)); lia.
Qed.

Lemma ltb_S_cases c n : Nat.ltb c (S n) = if Nat.eqb c n then true else Nat.ltb c n.
Proof.
  destruct (Nat.eqb_spec c n); [subst; apply Nat.ltb_lt; lia|].
  destruct (Nat.ltb_spec c n); [apply Nat.ltb_lt; lia|apply Nat.ltb_ge; lia].
Qed.

(* enqueue followed by the caller's move to a pc without a swapped-out list *)
Lemma inva_enqueue s i l k b p old : InvA s -> T s i = Some old ->
  (forall c, qof c old = 0) -> (forall c, qof c p = 0) ->
  InvA (with_thr (fst (enqueue s i l k b)) i p).
Proof.
  intros I H Qo Qp. destruct I as [I1 I2].
  set (y := mkClo l k b 0 0 0 0).
  set (c0 := length (clos s)).
  set (s1 := with_clos s (clos s ++ [y])).
  assert (LEN1 : length (clos s1) = S c0).
  { unfold s1, with_clos, c0. cbn [clos]. rewrite app_length. cbn [length]. lia. }
  assert (G1 : forall A (f : clo -> A) d c, G f d s1 c = if Nat.eqb c c0 then f y else G f d s c).
  { intros. unfold s1, c0. apply G_app. }
  assert (N0 : forall A (f : clo -> A) d, G f d s c0 = d) by (intros; apply G_none; unfold c0; lia).
  unfold enqueue. fold y. fold s1. fold c0.
  destruct (exit_ s) eqn:EX.
  - (* rejected: dropped in the caller *)
    pose proof (drop1_rel i s1 [] c0) as D.
    set (s2 := fst (drop1 i (s1, []) c0)) in *.
    destruct D as [h r o w bb d cc].
    destruct h as (hq & _ & _ & _ & _ & _ & ht & hl).
    assert (Qs : queue s2 = queue s) by (rewrite hq; reflexivity).
    assert (Ts : thrs s2 = thrs s) by (rewrite ht; reflexivity).
    assert (LEN2 : length (clos s2) = S c0) by lia.
    constructor.
    + intros c. unfold with_thr at 2. cbn [clos]. rewrite LEN2.
      unfold tot, with_thr, G at 1 2. cbn [clos queue thrs]. fold (G cran 0 s2 c) (G cdrop 0 s2 c).
      rewrite r, d, Qs, Ts, !G1, (cntv_single s1 c c0 LEN1), ltb_S_cases.
      pose proof (sumq_set_nth c (thrs s) i p old H) as E1. rewrite Qo, Qp in E1.
      specialize (I1 c). unfold tot in I1. fold c0 in I1.
      destruct (Nat.eqb_spec c c0) as [Q|Q].
      * subst c. rewrite !N0 in I1. rewrite Nat.ltb_irrefl in I1. cbn [y cran cdrop]. lia.
      * lia.
    + intros c. unfold with_thr, G at 1 2 3. cbn [clos]. fold (G ccanc 0 s2 c) (G kown false s2 c) (G cdrop 0 s2 c).
      rewrite cc, w, d, !G1, (cntv_single s1 c c0 LEN1).
      specialize (I2 c).
      destruct (Nat.eqb_spec c c0) as [Q|Q].
      * unfold kown. cbn [y ccanc cdrop ck]. destruct (owned k); lia.
      * rewrite I2. destruct (G kown false s c); lia.
  - (* accepted *)
    cbn [fst].
    constructor.
    + intros c. unfold with_thr at 2. unfold with_tokens, with_queue. cbn [clos]. rewrite LEN1.
      unfold tot, with_thr, with_tokens, with_queue, G at 1 2. cbn [clos queue thrs].
      fold (G cran 0 s1 c) (G cdrop 0 s1 c). rewrite !G1, ltb_S_cases.
      replace (thrs s1) with (thrs s) by reflexivity.
      pose proof (sumq_set_nth c (thrs s) i p old H) as E1. rewrite Qo, Qp in E1.
      rewrite cnt_app, cnt_cons, cnt_nil. specialize (I1 c). unfold tot in I1. fold c0 in I1.
      destruct (Nat.eqb_spec c c0) as [Q|Q].
      * subst c. rewrite !N0 in I1. rewrite Nat.ltb_irrefl in I1. cbn [y cran cdrop]. lia.
      * lia.
    + intros c. unfold with_thr, with_tokens, with_queue, G at 1 2 3. cbn [clos].
      fold (G ccanc 0 s1 c) (G kown false s1 c) (G cdrop 0 s1 c). rewrite !G1.
      destruct (Nat.eqb_spec c c0) as [Q|Q].
      * cbn [y ccanc cdrop]. destruct (kown y); reflexivity.
      * apply I2.
Qed.

Lemma sumq_ge c l i old : nth_error l i = Some old -> qof c old <= sumq c l.
Proof. intros H. pose proof (sumq_set_nth c l i CDone old H). cbn [qof] in H0. lia. Qed.

Lemma tot_drop s s' l c : drop_rel s s' l -> tot s' c = tot s c + cntv s c l.
Proof.
  intros [h r o w b d cc]. destruct h as (hq & _ & _ & _ & _ & _ & ht & _).
  unfold tot. rewrite r, d, hq, ht. lia.
Qed.

Definition CancOK (s : st) : Prop := forall c, G ccanc 0 s c = if G kown false s c then G cdrop 0 s c else 0.

Lemma canc_drop s s' l : drop_rel s s' l -> CancOK s -> CancOK s'.
Proof.
  intros [h r o w b d cc] C c. rewrite cc, w, d, (C c). destruct (G kown false s c); lia.
Qed.

Lemma canc_same_clos s s' : clos s' = clos s -> CancOK s -> CancOK s'.
Proof. intros E C c. unfold G. rewrite E. apply C. Qed.

(* end of a stop(): the swapped-out list q (accounted for in old's pc or handed over by stop_mark) dies *)
Lemma inva_stop_end s t q a old :
  T s t = Some old ->
  (forall c, tot s c + cnt c q = (if Nat.ltb c (length (clos s)) then 1 else 0) + qof c old) ->
  CancOK s ->
  InvA (fst (stop_end s t q a)).
Proof.
  intros H Ht C.
  assert (VQ : forall c, length (clos s) <= c -> cnt c q = 0).
  { intros c L. specialize (Ht c). assert (Lb : Nat.ltb c (length (clos s)) = false) by (apply Nat.ltb_ge; lia).
    rewrite Lb in Ht. pose proof (sumq_ge c (thrs s) t old H). unfold tot in Ht. lia. }
  assert (VQ2 : forall c, length (clos s) <= c -> cnt c (queue s) = 0).
  { intros c L. specialize (Ht c). assert (Lb : Nat.ltb c (length (clos s)) = false) by (apply Nat.ltb_ge; lia).
    rewrite Lb in Ht. pose proof (sumq_ge c (thrs s) t old H). unfold tot in Ht. lia. }
  unfold stop_end. pose proof (drop_all_rel t s q) as D.
  destruct (drop_all t s q) as [s1 e] eqn:E1. cbn [fst] in D.
  assert (T1 : T s1 t = Some old).
  { unfold T. destruct D as [h _ _ _ _ _ _]. destruct h as (_ & _ & _ & _ & _ & _ & ht & _). rewrite ht. exact H. }
  assert (L1 : length (clos s1) = length (clos s)).
  { destruct D as [h _ _ _ _ _ _]. destruct h as (_ & _ & _ & _ & _ & _ & _ & hl). exact hl. }
  assert (C1 : CancOK s1) by (eapply canc_drop; eassumption).
  assert (TOT1 : forall c, tot s1 c = (if Nat.ltb c (length (clos s)) then 1 else 0) + qof c old).
  { intros c. rewrite (tot_drop s s1 q c D), (cntv_valid s c q (VQ c)). specialize (Ht c). lia. }
  assert (SIMPLE : forall p, (forall c, qof c p = 0) -> InvA (with_thr s1 t p)).
  { intros p Qp. constructor.
    - intros c. pose proof (tot_with_thr s1 t p old c T1) as E. rewrite Qp, TOT1 in E.
      unfold with_thr at 2. cbn [clos]. rewrite L1. lia.
    - apply (canc_same_clos s1); [reflexivity|exact C1]. }
  destruct a as [prog| |[|]].
  - cbn [fst]. apply SIMPLE. intros c. unfold next_client. destruct prog; [destruct (Nat.eqb t 0)|]; reflexivity.
  - pose proof (drop_all_rel t s1 (queue s1)) as D2.
    destruct (drop_all t s1 (queue s1)) as [s2 e2] eqn:E2. cbn [fst] in D2. cbn [fst].
    assert (Q1 : queue s1 = queue s).
    { destruct D as [h _ _ _ _ _ _]. destruct h as (hq & _). exact hq. }
    assert (T2 : thrs s2 = thrs s1).
    { destruct D2 as [h _ _ _ _ _ _]. destruct h as (_ & _ & _ & _ & _ & _ & ht & _). exact ht. }
    assert (L2 : length (clos s2) = length (clos s1)).
    { destruct D2 as [h _ _ _ _ _ _]. destruct h as (_ & _ & _ & _ & _ & _ & _ & hl). exact hl. }
    constructor.
    + intros c. unfold tot, with_thr, G at 1 2. cbn [clos queue thrs]. fold (G cran 0 s2 c) (G cdrop 0 s2 c).
      rewrite cnt_nil, L2, L1, T2.
      destruct D2 as [_ r2 _ _ _ d2 _]. rewrite r2, d2.
      assert (V : cntv s1 c (queue s1) = cnt c (queue s)).
      { rewrite Q1. apply cntv_valid. rewrite L1. apply VQ2. }
      rewrite V. pose proof (TOT1 c) as E. unfold tot in E. rewrite Q1 in E.
      assert (T1' : nth_error (thrs s1) t = Some old) by exact T1.
      pose proof (sumq_set_nth c (thrs s1) t CDone old T1') as E3. cbn [qof] in E3. lia.
    + apply (canc_same_clos s2); [reflexivity|]. eapply canc_drop; eassumption.
  - cbn [fst]. apply SIMPLE. reflexivity.
  - cbn [fst]. apply SIMPLE. reflexivity.
Qed.

Lemma inva_stop_mark s t a old : InvA s -> T s t = Some old -> (forall c, qof c old = 0) ->
  InvA (fst (stop_mark s t a)).
Proof.
  intros [I1 I2] H Qo. unfold stop_mark.
  set (s1 := mkSt [] true [] (sleepers s) (destroyed s) (nclients s) (clos s) (thrs s)).
  set (a' := match a with AWorker _ => AWorker (existsb (Nat.eqb t) (threads s)) | _ => a end).
  assert (TOT1 : forall c, tot s1 c + cnt c (queue s) = tot s c).
  { intros c. unfold tot, s1, G. cbn [clos queue thrs]. rewrite cnt_nil. lia. }
  assert (C1 : CancOK s1) by (apply (canc_same_clos s); [reflexivity|exact I2]).
  destruct (filter (fun w => negb (Nat.eqb w t)) (threads s)) as [|w l] eqn:F.
  - apply (inva_stop_end s1 t (queue s) a' old); [exact H| |exact C1].
    intros c. rewrite TOT1, Qo, I1. unfold s1. cbn [clos]. lia.
  - cbn [fst]. constructor.
    + intros c. assert (H1 : T s1 t = Some old) by exact H.
      pose proof (tot_with_thr s1 t (Join (w :: l) (queue s) a') old c H1) as E. cbn [qof] in E.
      rewrite Qo in E. unfold with_thr at 2. cbn [clos]. change (clos s1) with (clos s). specialize (TOT1 c). rewrite I1 in TOT1. lia.
    + apply (canc_same_clos s); [reflexivity|exact I2].
Qed.

Lemma inva_run_job s w c0 r old : InvA s -> queue s = c0 :: r -> T s w = Some old -> (forall c, qof c old = 0) ->
  InvA (fst (run_job (with_queue s r) w c0)).
Proof.
  intros [I1 I2] Q H Qo.
  assert (L : c0 < length (clos s)).
  { specialize (I1 c0). destruct (Nat.ltb_spec c0 (length (clos s))); [assumption|].
    unfold tot in I1. rewrite Q, cnt_cons, Nat.eqb_refl in I1. lia. }
  unfold run_job. replace (clos (with_queue s r)) with (clos s) by reflexivity.
  destruct (nth_error (clos s) c0) as [x|] eqn:E; [|apply nth_error_None in E; lia].
  set (x' := mkClo (clbl x) (ck x) (cb x) (S (cran x)) w (cdrop x) (ccanc x)).
  set (p := match cb x with BNone => WIdle | BSub k l => WSub l k | BStop => WStop end).
  assert (Qp : forall c, qof c p = 0) by (intros c; unfold p; destruct (cb x); reflexivity).
  assert (Lb : Nat.ltb c0 (length (clos s)) = true) by (apply Nat.ltb_lt; exact L).
  cbn [fst]. constructor.
  - intros c. unfold tot, with_thr, with_clos, with_queue, G at 1 2. cbn [clos queue thrs].
    rewrite set_nth_length.
    change (match nth_error (set_nth (clos s) c0 x') c with Some x0 => cran x0 | None => 0 end)
      with (G cran 0 (with_clos s (set_nth (clos s) c0 x')) c).
    change (match nth_error (set_nth (clos s) c0 x') c with Some x0 => cdrop x0 | None => 0 end)
      with (G cdrop 0 (with_clos s (set_nth (clos s) c0 x')) c).
    rewrite !G_set, Lb.
    pose proof (sumq_set_nth c (thrs s) w p old H) as E1. rewrite Qo, Qp in E1.
    specialize (I1 c). unfold tot in I1. rewrite Q, cnt_cons in I1.
    destruct (Nat.eqb_spec c0 c) as [QQ|QQ].
    + subst c. rewrite Nat.eqb_refl in I1. rewrite !(G_some _ _ _ _ _ E) in I1. cbn [x' cran cdrop]. lia.
    + assert (Q2 : Nat.eqb c c0 = false) by (apply Nat.eqb_neq; congruence). rewrite Q2 in I1. lia.
  - intros c. unfold with_thr, with_clos, with_queue, G at 1 2 3. cbn [clos].
    change (match nth_error (set_nth (clos s) c0 x') c with Some x0 => ccanc x0 | None => 0 end)
      with (G ccanc 0 (with_clos s (set_nth (clos s) c0 x')) c).
    change (match nth_error (set_nth (clos s) c0 x') c with Some x0 => kown x0 | None => false end)
      with (G kown false (with_clos s (set_nth (clos s) c0 x')) c).
    change (match nth_error (set_nth (clos s) c0 x') c with Some x0 => cdrop x0 | None => 0 end)
      with (G cdrop 0 (with_clos s (set_nth (clos s) c0 x')) c).
    rewrite !G_set, Lb. specialize (I2 c).
    destruct (Nat.eqb_spec c0 c) as [QQ|QQ]; [|exact I2].
    subst c. rewrite !(G_some _ _ _ _ _ E) in I2. exact I2.
Qed.

Lemma inva_shell_thr s s' i p old : InvA s -> T s i = Some old -> (forall c, qof c old = 0) -> (forall c, qof c p = 0) ->
  clos s' = clos s -> queue s' = queue s -> thrs s' = thrs s -> InvA (with_thr s' i p).
Proof.
  intros [I1 I2] H Qo Qp Ec Eq Et. constructor.
  - intros c. unfold tot, with_thr, G. cbn [clos queue thrs]. rewrite Ec, Eq, Et.
    pose proof (sumq_set_nth c (thrs s) i p old H) as E1. rewrite Qo, Qp in E1.
    specialize (I1 c). unfold tot, G in I1. lia.
  - intros c. unfold with_thr, G. cbn [clos]. rewrite Ec. apply I2.
Qed.

Lemma inva_worker_cs s s' w old : InvA s -> T s w = Some old -> (forall c, qof c old = 0) ->
  clos s' = clos s -> queue s' = queue s -> thrs s' = thrs s -> exit_ s' = exit_ s ->
  InvA (fst (worker_cs s' w)).
Proof.
  intros I H Qo Ec Eq Et Ee. unfold worker_cs.
  destruct (exit_ s') eqn:EX.
  - cbn [fst]. apply (inva_shell_thr s s' w WExit old); auto.
  - destruct (queue s') as [|c0 r] eqn:QQ.
    + cbn [fst]. apply (inva_shell_thr s s' w WSleep old); auto; congruence.
    + assert (I' : InvA s').
      { destruct I as [I1 I2]. constructor.
        - intros c. unfold tot, G. rewrite Ec, Et, QQ. specialize (I1 c). unfold tot, G in I1. rewrite <- Eq in I1. exact I1.
        - intros c. unfold G. rewrite Ec. apply I2. }
      apply (inva_run_job s' w c0 r old); auto. unfold T. rewrite Et. exact H.
Qed.

Theorem inva_step s i : InvA s -> enabled s i = true -> InvA (step s i).
Proof.
  intros I EN. unfold step, tstep. unfold enabled in EN.
  destruct (nth_error (thrs s) i) as [p|] eqn:H; [|discriminate].
  assert (Z0 : forall c, qof c (next_client i []) = 0) by (intros; unfold next_client; destruct (Nat.eqb i 0); reflexivity).
  destruct p as [prog| | | | | |l k| | |l q a].
  - destruct prog as [|[l k b|] r].
    + cbn [fst]. apply (inva_with_thr s i _ (CAt [])); auto.
    + pose proof (inva_enqueue s i l k b (next_client i r) (CAt (OSub l k b :: r)) I H) as E.
      destruct (enqueue s i l k b) as [s1 e]. cbn [fst] in *. apply E; [reflexivity|].
      intros c. unfold next_client. destruct r; [destruct (Nat.eqb i 0)|]; reflexivity.
    + pose proof (inva_stop_mark s i (AClient r) _ I H) as E.
      destruct (stop_mark s i (AClient r)) as [s1 e]. cbn [fst] in *. apply E. reflexivity.
  - cbn [fst]. apply (inva_with_thr s i _ CXWait); auto.
  - pose proof (inva_stop_mark s i ADtor _ I H) as E.
    destruct (stop_mark s i ADtor) as [s1 e]. cbn [fst] in *. apply E. reflexivity.
  - discriminate.
  - pose proof (inva_worker_cs s s i WIdle I H) as E.
    destruct (worker_cs s i) as [s1 e]. cbn [fst] in *. apply E; reflexivity.
  - pose proof (inva_worker_cs s (with_tokens s (pred (tokens s))) i WSleep I H) as E.
    destruct (worker_cs (with_tokens s (pred (tokens s))) i) as [s1 e]. cbn [fst] in *. apply E; reflexivity.
  - pose proof (inva_enqueue s i l k BNone WIdle (WSub l k) I H) as E.
    destruct (enqueue s i l k BNone) as [s1 e]. cbn [fst] in *. apply E; reflexivity.
  - pose proof (inva_stop_mark s i (AWorker false) _ I H) as E.
    destruct (stop_mark s i (AWorker false)) as [s1 e]. cbn [fst] in *. apply E. reflexivity.
  - discriminate.
  - assert (SE : InvA (fst (stop_end s i q a))).
    { apply (inva_stop_end s i q a (Join l q a)); [exact H| |exact (a_canc s I)].
      intros c. rewrite (a_tot s I c). cbn [qof]. lia. }
    destruct l as [|w0 [|w1 l]].
    + destruct (stop_end s i q a) as [s1 e]. exact SE.
    + destruct (stop_end s i q a) as [s1 e]. exact SE.
    + cbn [fst]. apply (inva_with_thr s i _ (Join (w0 :: w1 :: l) q a)); auto.
Qed.

Theorem inva_reachable ops s : reachable ops s -> InvA s.
Proof. induction 1; [apply inva_init|apply inva_step; assumption]. Qed.

(* ---------- what a step does to everything except the closure counters ---------- *)
Definition pc_after (t : nat) (a : after) : pc :=
  match a with AClient prog => next_client t prog | ADtor => CDone | AWorker true => WExit | AWorker false => WIdle end.
Definition job_pc (b : body) : pc := match b with BNone => WIdle | BSub k l => WSub l k | BStop => WStop end.

Lemma stop_end_shell s t q a : forall s', s' = fst (stop_end s t q a) ->
  queue s' = (match a with ADtor => [] | _ => queue s end) /\ exit_ s' = exit_ s /\ threads s' = threads s /\
  tokens s' = tokens s /\ destroyed s' = (match a with ADtor => true | _ => destroyed s end) /\
  nclients s' = nclients s /\ thrs s' = set_nth (thrs s) t (pc_after t a) /\
  (forall c, G cb BNone s' c = G cb BNone s c) /\ (forall c, G cran 0 s' c = G cran 0 s c) /\
  (forall c, G cran_on 0 s' c = G cran_on 0 s c).
Proof.
  intros s' ->. unfold stop_end. pose proof (drop_all_rel t s q) as D.
  destruct (drop_all t s q) as [s1 e]. cbn [fst] in D.
  destruct D as [h r o w b d cc]. destruct h as (hq & he & ht & hk & hd & hn & hth & hl).
  assert (SIMPLE : forall p, queue (with_thr s1 t p) = queue s /\ exit_ (with_thr s1 t p) = exit_ s /\
     threads (with_thr s1 t p) = threads s /\ tokens (with_thr s1 t p) = tokens s /\
     destroyed (with_thr s1 t p) = destroyed s /\ nclients (with_thr s1 t p) = nclients s /\
     thrs (with_thr s1 t p) = set_nth (thrs s) t p /\
     (forall c, G cb BNone (with_thr s1 t p) c = G cb BNone s c) /\
     (forall c, G cran 0 (with_thr s1 t p) c = G cran 0 s c) /\
     (forall c, G cran_on 0 (with_thr s1 t p) c = G cran_on 0 s c)).
  { intros p. unfold with_thr. cbn [queue exit_ threads tokens destroyed nclients thrs]. rewrite hth.
    repeat split; auto. }
  destruct a as [prog| |[|]].
  - cbn [fst pc_after]. apply SIMPLE.
  - pose proof (drop_all_rel t s1 (queue s1)) as D2.
    destruct (drop_all t s1 (queue s1)) as [s2 e2]. cbn [fst] in D2.
    destruct D2 as [h2 r2 o2 w2 b2 d2 cc2]. destruct h2 as (hq2 & he2 & ht2 & hk2 & hd2 & hn2 & hth2 & hl2).
    cbn [fst pc_after]. unfold with_thr. cbn [queue exit_ threads tokens destroyed nclients thrs].
    rewrite hth2, hth. repeat split; try congruence.
    + intros c. unfold G at 1. cbn [clos]. fold (G cb BNone s2 c). rewrite b2. apply b.
    + intros c. unfold G at 1. cbn [clos]. fold (G cran 0 s2 c). rewrite r2. apply r.
    + intros c. unfold G at 1. cbn [clos]. fold (G cran_on 0 s2 c). rewrite o2. apply o.
  - cbn [fst pc_after]. apply SIMPLE.
  - cbn [fst pc_after]. apply SIMPLE.
Qed.

Lemma enqueue_shell s t l k b : forall s', s' = fst (enqueue s t l k b) ->
  queue s' = (if exit_ s then queue s else queue s ++ [length (clos s)]) /\ exit_ s' = exit_ s /\ threads s' = threads s /\
  tokens s' = (if exit_ s then tokens s else if Nat.ltb (tokens s) (sleepers s) then S (tokens s) else tokens s) /\
  destroyed s' = destroyed s /\ nclients s' = nclients s /\ thrs s' = thrs s /\
  (forall c, G cb BNone s' c = if Nat.eqb c (length (clos s)) then b else G cb BNone s c) /\
  (forall c, G cran 0 s' c = if Nat.eqb c (length (clos s)) then 0 else G cran 0 s c) /\
  (forall c, G cran_on 0 s' c = if Nat.eqb c (length (clos s)) then 0 else G cran_on 0 s c).
Proof.
  intros s' ->. unfold enqueue.
  set (s1 := with_clos s (clos s ++ [mkClo l k b 0 0 0 0])).
  destruct (exit_ s) eqn:EX.
  - pose proof (drop1_rel t s1 [] (length (clos s))) as D.
    destruct D as [h r o w bb d cc]. destruct h as (hq & he & ht & hk & hd & hn & hth & hl).
    rewrite hq, he, ht, hk, hd, hn, hth. unfold s1 at 1 2 3 4 5 6 7. cbn [with_clos queue exit_ threads tokens destroyed nclients thrs].
    repeat split; auto; intros c; [rewrite bb|rewrite r|rewrite o]; unfold s1; rewrite G_app; reflexivity.
  - cbn [fst]. unfold with_tokens, with_queue. cbn [queue exit_ threads tokens destroyed nclients thrs].
    repeat split; auto; intros c; unfold G at 1; cbn [clos];
      [fold (G cb BNone s1 c)|fold (G cran 0 s1 c)|fold (G cran_on 0 s1 c)]; unfold s1; rewrite G_app; reflexivity.
Qed.

Definition is_client (p : pc) : bool :=
  match p with
  | CAt _ | CXWait | CDtor | CDone => true
  | Join _ _ (AClient _) | Join _ _ ADtor => true
  | _ => false
  end.

Record InvB (s : st) : Prop := {
  b_exit : exit_ s = true -> queue s = [] /\ threads s = [];
  b_destr : destroyed s = true -> exit_ s = true;
  b_ncl : 0 < nclients s <= length (thrs s);
  b_class : forall i p, T s i = Some p -> (is_client p = true <-> i < nclients s);
  b_done0 : T s 0 = Some CDone -> destroyed s = true;
  b_ran : forall c, 1 <= G cran 0 s c -> nclients s <= G cran_on 0 s c < length (thrs s);
  b_join : forall i l q a, T s i = Some (Join l q a) -> exit_ s = true
}.

Lemma invb_frame s s' i p old : InvB s -> T s i = Some old ->
  thrs s' = set_nth (thrs s) i p -> nclients s' = nclients s -> is_client p = is_client old ->
  (exit_ s' = true -> queue s' = [] /\ threads s' = []) ->
  (destroyed s' = true -> exit_ s' = true) ->
  (i = 0 -> p = CDone -> destroyed s' = true) -> (destroyed s = true -> destroyed s' = true) ->
  (forall c, 1 <= G cran 0 s' c -> nclients s <= G cran_on 0 s' c < length (thrs s)) ->
  (exit_ s = true -> exit_ s' = true) -> (forall l q a, p = Join l q a -> exit_ s' = true) ->
  InvB s'.
Proof.
  intros [B1 B2 B3 B4 B5 B6 B7] H Et En Ec X1 X2 X3 X4 X5 X6 X7.
  pose proof (T_lt s i old H) as L.
  assert (TT : forall j, T s' j = if Nat.eqb i j then Some p else T s j).
  { intros j. unfold T. rewrite Et. destruct (Nat.eqb_spec i j) as [E|E].
    - subst. apply nth_error_set_nth_same. exact L.
    - apply nth_error_set_nth_other. exact E. }
  constructor; auto.
  - rewrite En, Et, set_nth_length. exact B3.
  - intros j pj. rewrite TT, En. destruct (Nat.eqb_spec i j) as [E|E].
    + intros Q. inversion Q; subst. rewrite Ec. apply B4. exact H.
    + apply B4.
  - rewrite TT. destruct (Nat.eqb_spec i 0) as [E|E].
    + intros Q. inversion Q. apply X3; auto.
    + intros Q. apply X4, B5, Q.
  - intros c Hc. rewrite En, Et, set_nth_length. apply X5, Hc.
  - intros j l q a. rewrite TT. destruct (Nat.eqb_spec i j) as [E|E].
    + intros Q. inversion Q. eapply X7; eauto.
    + intros Q. eapply X6, B7, Q.
Qed.

Lemma next_client_client i r : is_client (next_client i r) = true.
Proof. unfold next_client. destruct r; [destruct (Nat.eqb i 0)|]; reflexivity. Qed.
Lemma next_client_notdone0 r : next_client 0 r <> CDone.
Proof. unfold next_client. destruct r; cbn; discriminate. Qed.

Lemma invb_stop_mark s i a old : InvB s -> T s i = Some old ->
  is_client old = match a with AWorker _ => false | _ => true end ->
  InvB (fst (stop_mark s i a)).
Proof.
  intros B H Ec. unfold stop_mark.
  set (s1 := mkSt [] true [] (sleepers s) (destroyed s) (nclients s) (clos s) (thrs s)).
  set (a' := match a with AWorker _ => AWorker (existsb (Nat.eqb i) (threads s)) | _ => a end).
  assert (Ec' : is_client (pc_after i a') = is_client old).
  { rewrite Ec. unfold a'. destruct a as [r| |d]; cbn [pc_after]; [apply next_client_client|reflexivity|].
    destruct (existsb (Nat.eqb i) (threads s)); reflexivity. }
  destruct (filter (fun w => negb (Nat.eqb w i)) (threads s)) as [|w l] eqn:F.
  - pose proof (stop_end_shell s1 i (queue s) a' _ eq_refl) as (hq & he & ht & hk & hd & hn & hth & hb & hr & ho).
    apply (invb_frame s _ i (pc_after i a') old B H).
    + exact hth.
    + exact hn.
    + exact Ec'.
    + intros _. rewrite hq, ht. unfold s1. cbn [queue threads]. destruct a'; auto.
    + intros _. rewrite he. reflexivity.
    + intros -> Q. rewrite hd. unfold a' in *. destruct a as [r| |d]; cbn [pc_after] in Q.
      * exfalso. eapply next_client_notdone0, Q.
      * reflexivity.
      * destruct (existsb (Nat.eqb 0) (threads s)); discriminate.
    + intros D. rewrite hd. destruct a'; auto.
    + intros c. rewrite hr, ho. apply (b_ran s B).
    + intros _. rewrite he. reflexivity.
    + intros. rewrite he. reflexivity.
  - cbn [fst]. apply (invb_frame s _ i (Join (w :: l) (queue s) a') old B H).
    + reflexivity.
    + reflexivity.
    + rewrite Ec. unfold a'. destruct a; reflexivity.
    + intros _. split; reflexivity.
    + reflexivity.
    + intros; discriminate.
    + auto.
    + apply (b_ran s B).
    + reflexivity.
    + reflexivity.
Qed.

Lemma invb_enqueue s i l k b p old : InvB s -> T s i = Some old -> is_client p = is_client old ->
  (i = 0 -> p <> CDone) -> (forall l q a, p <> Join l q a) ->
  InvB (with_thr (fst (enqueue s i l k b)) i p).
Proof.
  intros B H Ec N0 NJ.
  pose proof (enqueue_shell s i l k b _ eq_refl) as (hq & he & ht & hk & hd & hn & hth & hb & hr & ho).
  apply (invb_frame s _ i p old B H); unfold with_thr; cbn [queue exit_ threads tokens destroyed nclients thrs].
  - rewrite hth. reflexivity.
  - exact hn.
  - exact Ec.
  - rewrite he, hq, ht. intros X. rewrite X. apply (b_exit s B X).
  - rewrite he, hd. apply (b_destr s B).
  - intros E Q. exfalso. apply (N0 E Q).
  - rewrite hd. auto.
  - intros c. unfold G. cbn [clos]. fold (G cran 0 (fst (enqueue s i l k b)) c) (G cran_on 0 (fst (enqueue s i l k b)) c).
    rewrite hr, ho. destruct (Nat.eqb c (length (clos s))); [lia|apply (b_ran s B)].
  - rewrite he. auto.
  - intros l0 q0 a0 Q. exfalso. eapply NJ, Q.
Qed.

Lemma invb_worker_cs s s' w old : InvB s -> T s w = Some old -> is_client old = false ->
  clos s' = clos s -> queue s' = queue s -> thrs s' = thrs s -> exit_ s' = exit_ s -> threads s' = threads s ->
  destroyed s' = destroyed s -> nclients s' = nclients s ->
  InvB (fst (worker_cs s' w)).
Proof.
  intros B H Ec Ecl Eq Et Ee Eth Ed En.
  assert (WN : nclients s <= w < length (thrs s)).
  { pose proof (T_lt s w old H). pose proof (b_class s B w old H) as [X Y].
    split; [|assumption]. destruct (Nat.ltb_spec w (nclients s)); [|assumption]. rewrite (Y H1) in Ec. discriminate. }
  assert (NZ : w = 0 -> False) by (pose proof (b_ncl s B); lia).
  assert (GEN : forall p s2, is_client p = false -> (forall l q a, p <> Join l q a) ->
            thrs s2 = thrs s' -> nclients s2 = nclients s' -> queue s2 = [] \/ exit_ s' = false -> threads s2 = threads s' ->
            exit_ s2 = exit_ s' -> destroyed s2 = destroyed s' ->
            (forall c, 1 <= G cran 0 s2 c -> nclients s <= G cran_on 0 s2 c < length (thrs s)) ->
            InvB (with_thr s2 w p)).
  { intros p s2 Pc NJ E1 E2 E3 E4 E5 E6 E7.
    apply (invb_frame s _ w p old B H); unfold with_thr; cbn [queue exit_ threads tokens destroyed nclients thrs].
    - rewrite E1, Et. reflexivity.
    - congruence.
    - congruence.
    - rewrite E5, E4, Eth. intros X. destruct E3 as [E3|E3]; [|congruence]. split; [exact E3|].
      apply (b_exit s B). congruence.
    - rewrite E6, E5, Ed, Ee. apply (b_destr s B).
    - intros E. exfalso. auto.
    - rewrite E6, Ed. auto.
    - intros c. unfold G. cbn [clos]. apply E7.
    - rewrite E5, Ee. auto.
    - intros l q a Q. exfalso. eapply NJ, Q. }
  assert (RAN : forall c, 1 <= G cran 0 s' c -> nclients s <= G cran_on 0 s' c < length (thrs s)).
  { intros c. unfold G. rewrite Ecl. apply (b_ran s B). }
  unfold worker_cs. destruct (exit_ s') eqn:EX.
  - cbn [fst]. apply GEN; auto; try discriminate.
    left. rewrite Eq. apply (b_exit s B). congruence.
  - destruct (queue s') as [|c0 r] eqn:QQ.
    + cbn [fst]. apply GEN; auto; discriminate.
    + unfold run_job. replace (clos (with_queue s' r)) with (clos s') by reflexivity.
      destruct (nth_error (clos s') c0) as [x|] eqn:E.
      * cbn [fst].
        apply (GEN (job_pc (cb x)) (with_clos (with_queue s' r) (set_nth (clos s') c0
                 (mkClo (clbl x) (ck x) (cb x) (S (cran x)) w (cdrop x) (ccanc x))))); auto.
        -- destruct (cb x); reflexivity.
        -- destruct (cb x); discriminate.
        -- intros c. unfold G. unfold with_clos. cbn [clos].
           assert (L : c0 < length (clos s')) by (apply nth_error_Some; congruence).
           destruct (Nat.eqb_spec c0 c) as [Q|Q].
           ++ subst c. rewrite nth_error_set_nth_same by exact L. cbn [cran cran_on]. intros _. exact WN.
           ++ rewrite nth_error_set_nth_other by exact Q. exact (RAN c).
      * cbn [fst]. apply (GEN WIdle (with_queue s' r)); auto; discriminate.
Qed.

Theorem invb_step s i : InvB s -> enabled s i = true -> InvB (step s i).
Proof.
  intros B EN. unfold step, tstep. unfold enabled in EN.
  destruct (nth_error (thrs s) i) as [p|] eqn:H; [|discriminate].
  assert (SAME : forall p', is_client p' = is_client p -> (i = 0 -> p' <> CDone) ->
                  (forall l q a, p' = Join l q a -> exit_ s = true) -> InvB (with_thr s i p')).
  { intros p' E N J. apply (invb_frame s _ i p' p B H); unfold with_thr; cbn [queue exit_ threads tokens destroyed nclients thrs]; auto.
    - apply (b_exit s B). - apply (b_destr s B). - intros E0 Q. exfalso. apply (N E0 Q). - apply (b_ran s B). }
  destruct p as [prog| | | | | |l k| | |l q a].
  - destruct prog as [|[l k b|] r].
    + cbn [fst]. apply SAME; [apply next_client_client|intros ->; apply next_client_notdone0|].
      intros l q a Q. unfold next_client in Q. destruct (Nat.eqb i 0); discriminate.
    + pose proof (invb_enqueue s i l k b (next_client i r) _ B H) as E.
      destruct (enqueue s i l k b) as [s1 e]. cbn [fst] in *.
      apply E; [apply next_client_client|intros ->; apply next_client_notdone0|].
      intros l0 q0 a0 Q. unfold next_client in Q. destruct r; [destruct (Nat.eqb i 0)|]; discriminate.
    + pose proof (invb_stop_mark s i (AClient r) _ B H) as E.
      destruct (stop_mark s i (AClient r)) as [s1 e]. cbn [fst] in *. apply E; auto.
  - cbn [fst]. apply SAME; [reflexivity|discriminate|discriminate].
  - pose proof (invb_stop_mark s i ADtor _ B H) as E.
    destruct (stop_mark s i ADtor) as [s1 e]. cbn [fst] in *. apply E; auto.
  - discriminate.
  - pose proof (invb_worker_cs s s i WIdle B H) as E.
    destruct (worker_cs s i) as [s1 e]. cbn [fst] in *. apply E; reflexivity.
  - pose proof (invb_worker_cs s (with_tokens s (pred (tokens s))) i WSleep B H) as E.
    destruct (worker_cs (with_tokens s (pred (tokens s))) i) as [s1 e]. cbn [fst] in *. apply E; reflexivity.
  - pose proof (invb_enqueue s i l k BNone WIdle _ B H) as E.
    destruct (enqueue s i l k BNone) as [s1 e]. cbn [fst] in *. apply E; [reflexivity|discriminate|discriminate].
  - pose proof (invb_stop_mark s i (AWorker false) _ B H) as E.
    destruct (stop_mark s i (AWorker false)) as [s1 e]. cbn [fst] in *. apply E; auto.
  - discriminate.
  - assert (EXT : exit_ s = true) by (eapply (b_join s B); exact H).
    assert (SE : InvB (fst (stop_end s i q a))).
    { pose proof (stop_end_shell s i q a _ eq_refl) as (hq & he & ht & hk & hd & hn & hth & hb & hr & ho).
      apply (invb_frame s _ i (pc_after i a) _ B H).
      - exact hth.
      - exact hn.
      - destruct a as [r| |[|]]; cbn [pc_after is_client]; auto. apply next_client_client.
      - rewrite hq, ht. intros _. destruct (b_exit s B EXT) as [X1 X2]. rewrite X1, X2. destruct a; auto.
      - rewrite he. auto.
      - intros -> Q. rewrite hd. destruct a as [r| |[|]]; cbn [pc_after] in Q; try discriminate; auto.
        exfalso. eapply next_client_notdone0, Q.
      - rewrite hd. destruct a; auto.
      - intros c. rewrite hr, ho. apply (b_ran s B).
      - rewrite he. auto.
      - intros. rewrite he. exact EXT. }
    destruct l as [|w0 [|w1 l]].
    + destruct (stop_end s i q a) as [s1 e]. exact SE.
    + destruct (stop_end s i q a) as [s1 e]. exact SE.
    + cbn [fst]. apply SAME; [reflexivity|discriminate|]. intros; exact EXT.
Qed.

Lemma init_thrs_shape ops : exists m cl n, 0 < m /\ length cl = m /\ nclients (init ops) = m /\
  thrs (init ops) = cl ++ repeat WIdle n /\
  (forall i p, nth_error cl i = Some p -> exists r, p = next_client i r).
Proof.
  unfold init. set (d := decode ops). set (m := Nat.min (S (dmax d)) 3).
  exists m, (map (fun ip => next_client (fst ip) (snd ip)) (combine (seq 0 m) (firstn m [dp0 d; dp1 d; dp2 d]))), (Nat.max 1 (dn d)).
  assert (M : 0 < m <= 3) by (unfold m; lia).
  repeat split; try reflexivity; try lia.
  - rewrite map_length, combine_length, seq_length, firstn_length. cbn [length]. lia.
  - intros i p H. rewrite nth_error_map in H.
    destruct (nth_error (combine (seq 0 m) (firstn m [dp0 d; dp1 d; dp2 d])) i) as [[j r]|] eqn:E; [|discriminate].
    cbn [option_map fst snd] in H. inversion H; subst.
    exists r. f_equal.
    assert (X : nth_error (seq 0 m) i = Some j).
    { revert E. generalize (firstn m [dp0 d; dp1 d; dp2 d]) as l2. generalize (seq 0 m) as l1. clear.
      induction i as [|i IH]; intros [|a l1] [|b l2] E; cbn in E; try discriminate.
      - inversion E; reflexivity.
      - cbn. eapply IH, E. }
    assert (L : i < length (seq 0 m)) by (apply nth_error_Some; congruence).
    rewrite (nth_error_nth' (seq 0 m) 0 L) in X. rewrite seq_length in L. rewrite seq_nth in X by exact L.
    inversion X. reflexivity.
Qed.

Lemma invb_init ops : InvB (init ops).
Proof.
  destruct (init_thrs_shape ops) as (m & cl & n & M & LC & NC & TH & SH).
  assert (CLS : forall i p, T (init ops) i = Some p ->
            (i < m /\ exists r, p = next_client i r) \/ (m <= i /\ p = WIdle)).
  { intros i p H. unfold T in H. rewrite TH in H. destruct (Nat.ltb_spec i m) as [L|L].
    - left. split; [exact L|]. rewrite nth_error_app1 in H by lia. eapply SH, H.
    - right. split; [exact L|]. rewrite nth_error_app2 in H by lia. apply nth_error_In, repeat_spec in H. exact H. }
  constructor.
  - unfold init. cbn [exit_]. discriminate.
  - unfold init. cbn [destroyed]. discriminate.
  - rewrite NC, TH, app_length, LC. lia.
  - intros i p H. rewrite NC. destruct (CLS i p H) as [(L & r & ->)|(L & ->)].
    + rewrite next_client_client. tauto.
    + cbn [is_client]. split; [discriminate|lia].
  - intros H. destruct (CLS 0 _ H) as [(L & r & E)|(L & E)]; [|discriminate].
    exfalso. eapply next_client_notdone0. symmetry. exact E.
  - intros c. unfold init, G. cbn [clos]. destruct c; cbn; lia.
  - intros i l q a H. destruct (CLS i _ H) as [(L & r & E)|(L & E)]; [|discriminate].
    unfold next_client in E. destruct r; [destruct (Nat.eqb i 0)|]; discriminate.
Qed.

Theorem invb_reachable ops s : reachable ops s -> InvB s.
Proof. induction 1; [apply invb_init|apply invb_step; assumption]. Qed.

(* ---------- the statements of C11 ---------- *)
Definition terminal (s : st) : Prop := forall i p, T s i = Some p -> p = CDone \/ p = WExit.

Lemma sumq_zero c l : (forall p, In p l -> qof c p = 0) -> sumq c l = 0.
Proof.
  induction l as [|p l IH]; intros F; [reflexivity|]. rewrite sumq_cons, IH, F; cbn; auto.
  intros; apply F; right; auto.
Qed.

Lemma terminal_quiet ops s : reachable ops s -> terminal s ->
  destroyed s = true /\ queue s = [] /\ forall c, sumq c (thrs s) = 0.
Proof.
  intros R Tm. pose proof (invb_reachable ops s R) as B.
  assert (D : destroyed s = true).
  { apply (b_done0 s B). pose proof (b_ncl s B) as [N1 N2].
    destruct (nth_error (thrs s) 0) as [p|] eqn:E; [|apply nth_error_None in E; lia].
    destruct (Tm 0 p E) as [->| ->]; [exact E|].
    pose proof (b_class s B 0 WExit E) as [_ X]. specialize (X N1). discriminate. }
  split; [exact D|]. split.
  - apply (b_exit s B). apply (b_destr s B D).
  - intros c. apply sumq_zero. intros p Hin. apply In_nth_error in Hin. destruct Hin as [i Hi].
    destruct (Tm i p Hi) as [->| ->]; reflexivity.
Qed.

(* C11.1 every closure handed to the pool is in exactly one place: invoked once, destroyed un-run once,
   waiting in the queue, or in the swapped-out list of one stop() in progress *)
Theorem exactly_one_place ops s c x : reachable ops s -> nth_error (clos s) c = Some x ->
  cran x + cdrop x + cnt c (queue s) + sumq c (thrs s) = 1.
Proof.
  intros R H. pose proof (a_tot s (inva_reachable ops s R) c) as E. unfold tot in E.
  rewrite !(G_some _ _ _ _ _ H) in E.
  assert (L : Nat.ltb c (length (clos s)) = true) by (apply Nat.ltb_lt, nth_error_Some; congruence).
  rewrite L in E. exact E.
Qed.

Theorem at_most_one_outcome ops s c x : reachable ops s -> nth_error (clos s) c = Some x ->
  cran x + cdrop x <= 1.
Proof. intros R H. pose proof (exactly_one_place ops s c x R H). lia. Qed.

Theorem exactly_one_outcome ops s c x : reachable ops s -> terminal s -> nth_error (clos s) c = Some x ->
  cran x + cdrop x = 1.
Proof.
  intros R Tm H. pose proof (exactly_one_place ops s c x R H) as E.
  destruct (terminal_quiet ops s R Tm) as (_ & Q & S0). rewrite Q, S0, cnt_nil in E. lia.
Qed.

(* C11.2 a closure is only ever invoked by a worker thread of the pool *)
Theorem ran_on_worker ops s c x : reachable ops s -> nth_error (clos s) c = Some x -> 1 <= cran x ->
  nclients s <= cran_on x < length (thrs s) /\
  (forall p, T s (cran_on x) = Some p -> is_client p = false).
Proof.
  intros R H N. pose proof (invb_reachable ops s R) as B.
  pose proof (b_ran s B c) as E. rewrite !(G_some _ _ _ _ _ H) in E. specialize (E N).
  split; [exact E|]. intros p Hp. pose proof (b_class s B _ p Hp) as [X _].
  destruct (is_client p); [specialize (X eq_refl); lia|reflexivity].
Qed.

(* C11.3 destroying an un-run closure of an owning kind delivers exactly one cancellation to its waiter;
   a bare-handle closure delivers none *)
Theorem cancel_observable ops s c x : reachable ops s -> nth_error (clos s) c = Some x ->
  ccanc x = if owned (ck x) then cdrop x else 0.
Proof.
  intros R H. pose proof (a_canc s (inva_reachable ops s R) c) as E.
  rewrite !(G_some _ _ _ _ _ H) in E. exact E.
Qed.

(* C11.4 at the end nobody is left hanging: the waiter of every owning closure was completed by a run on a
   worker or by exactly one cancellation, never both *)
Theorem no_forgotten_waiter ops s c x : reachable ops s -> terminal s -> nth_error (clos s) c = Some x ->
  owned (ck x) = true -> cran x + ccanc x = 1.
Proof.
  intros R Tm H O. pose proof (exactly_one_outcome ops s c x R Tm H).
  pose proof (cancel_observable ops s c x R H) as E. rewrite O in E. lia.
Qed.

(* C11.6 when the destructor has returned every worker has left worker() and everything was joined *)
Theorem terminal_all_joined ops s : reachable ops s -> terminal s ->
  destroyed s = true /\ exit_ s = true /\ queue s = [] /\ threads s = [] /\
  forall i p, T s i = Some p -> nclients s <= i -> p = WExit.
Proof.
  intros R Tm. pose proof (invb_reachable ops s R) as B.
  destruct (terminal_quiet ops s R Tm) as (D & Q & _).
  pose proof (b_destr s B D) as X. destruct (b_exit s B X) as [_ Th].
  repeat split; auto. intros i p H L. destruct (Tm i p H) as [->| ->]; [|reflexivity].
  pose proof (b_class s B i CDone H) as [Y _]. specialize (Y eq_refl). lia.
Qed.

(* ---------- executions of run_sched are reachable (used for concrete witnesses) ---------- *)
Lemma enabled_list_In s n : forall from i, In i (enabled_list s n from) -> enabled s i = true.
Proof.
  induction n as [|n IH]; intros from i H; cbn [enabled_list] in H; [contradiction|].
  apply in_app_or in H. destruct H as [H|H].
  - destruct (enabled s from) eqn:E; [|contradiction]. destruct H as [<-|[]]. exact E.
  - eapply IH, H.
Qed.

Lemma run_sched_reachable ops fuel : forall s sched tr, reachable ops s ->
  reachable ops (fst (run_sched fuel s sched tr)).
Proof.
  induction fuel as [|f IH]; intros s sched tr R; cbn [run_sched]; [exact R|].
  destruct (all_enabled s) as [|e0 en] eqn:E; [exact R|].
  set (k := match sched with [] => 0%Z | x :: _ => Z.abs x end).
  set (i := nth (Z.to_nat (k mod zlen (e0 :: en))) (e0 :: en) 0).
  assert (EN : enabled s i = true).
  { apply (enabled_list_In s (length (thrs s)) 0). fold (all_enabled s). rewrite E. apply nth_In.
    unfold zlen. assert (0 < Z.of_nat (length (e0 :: en)))%Z by (cbn [length]; lia).
    pose proof (Z.mod_pos_bound k (Z.of_nat (length (e0 :: en))) H). lia. }
  pose proof (r_step ops s i R EN) as R1. unfold step in R1.
  destruct (tstep s i) as [[s1 p] e]. cbn [fst] in R1. apply IH. exact R1.
Qed.

Definition terminalb (s : st) : bool := forallb (fun p => negb (unfinished p)) (thrs s).
Lemma terminalb_sound s : terminalb s = true -> terminal s.
Proof.
  unfold terminalb, terminal. intros H i p Hp. rewrite forallb_forall in H.
  specialize (H p (nth_error_In _ _ Hp)). destruct p; cbn in H; try discriminate; auto.
Qed.

Definition final_state (ops : list (list Z)) : st :=
  fst (run_sched (length (flat_map decode_sched ops) + 600) (init ops) (flat_map decode_sched ops) []).
Lemma final_reachable ops : reachable ops (final_state ops).
Proof. apply run_sched_reachable, r_init. Qed.

(* the waiter of a bare-handle closure (resume(suspend_point), co_await pool(awaitable)) IS forgotten when the
   closure is destroyed un-run: the faithful model refutes "never forgotten" for these two kinds *)
Definition forgotten (s : st) : bool :=
  existsb (fun x => negb (owned (ck x)) && Nat.eqb (cran x) 0 && Nat.eqb (ccanc x) 0 && Nat.eqb (cdrop x) 1) (clos s).

Lemma bare_forgotten_witness :
  let ops := [[1;1]; [3;0]; [2;0;4;0;0]; [2;0;1;0;0]]%Z in
  terminalb (final_state ops) = true /\ forgotten (final_state ops) = true.
Proof. vm_compute. split; reflexivity. Qed.

Theorem bare_handle_forgotten_refuted : exists ops s, reachable ops s /\ terminal s /\ forgotten s = true.
Proof.
  exists [[1;1]; [3;0]; [2;0;4;0;0]; [2;0;1;0;0]]%Z. eexists. split; [apply final_reachable|].
  destruct bare_forgotten_witness as [A B]. split; [apply terminalb_sound, A|exact B].
Qed.
