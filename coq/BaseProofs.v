(* BaseProofs.v — lemmas about the shared helpers of Base.v *)
From Cocls Require Import Base.
Local Open Scope Z_scope.

Arguments count_z : simpl nomatch.

Lemma count_z_app x a b : count_z x (a ++ b) = (count_z x a + count_z x b)%nat.
Proof. induction a as [|y a IH]; cbn [count_z app]; [reflexivity|]. rewrite IH. lia. Qed.

Lemma count_z_nil x : count_z x [] = 0%nat. Proof. reflexivity. Qed.

Lemma count_z_cons x y l : count_z x (y :: l) = ((if Z.eqb x y then 1 else 0) + count_z x l)%nat.
Proof. reflexivity. Qed.

Lemma count_z_occ x l : count_z x l = count_occ Z.eq_dec l x.
Proof.
  induction l as [|y l IH]; cbn [count_z count_occ]; [reflexivity|].
  destruct (Z.eq_dec y x) as [E|E]; destruct (Z.eqb_spec x y) as [F|F]; subst; try congruence; lia.
Qed.

Lemma perm_of_counts a b : (forall x, count_z x a = count_z x b) -> Permutation a b.
Proof.
  intros H. apply (Permutation_count_occ Z.eq_dec). intros x. rewrite <- !count_z_occ. apply H.
Qed.

Lemma counts_of_perm a b : Permutation a b -> forall x, count_z x a = count_z x b.
Proof.
  intros H x. rewrite !count_z_occ. apply (Permutation_count_occ Z.eq_dec). exact H.
Qed.

Lemma count_z_removelast_last x l d : l <> [] ->
  count_z x l = (count_z x (removelast l) + count_z x [last l d])%nat.
Proof.
  intros H. rewrite <- count_z_app. rewrite <- app_removelast_last by exact H. reflexivity.
Qed.

Lemma memz_In x l : memz x l = true <-> In x l.
Proof.
  induction l as [|y l IH]; cbn [memz In]; [split; [discriminate|tauto]|].
  rewrite orb_true_iff, IH. destruct (Z.eqb_spec x y); split; intros [?|?]; auto; try discriminate; subst; auto; congruence.
Qed.

Lemma count_z_In x l : (0 < count_z x l)%nat <-> In x l.
Proof.
  induction l as [|y l IH]; cbn [count_z In]; [split; [lia|tauto]|].
  destruct (Z.eqb_spec x y); subst; split; intros; auto; try lia.
  - right. apply IH. lia.
  - destruct H; [congruence|]. apply IH in H. lia.
Qed.

Lemma count_z_remove1_same x l : In x l -> count_z x l = S (count_z x (remove1 x l)).
Proof.
  induction l as [|y l IH]; cbn [remove1 count_z In]; [tauto|].
  intros H. destruct (Z.eqb_spec x y); subst; [lia|].
  cbn [count_z]. destruct (Z.eqb_spec x y); [congruence|]. destruct H; [congruence|]. rewrite (IH H). lia.
Qed.

Lemma count_z_remove1_other x y l : x <> y -> count_z x (remove1 y l) = count_z x l.
Proof.
  intros N. induction l as [|z l IH]; cbn [remove1 count_z]; [reflexivity|].
  destruct (Z.eqb_spec y z); subst.
  - destruct (Z.eqb_spec x z); [congruence|]. lia.
  - cbn [count_z]. rewrite IH. reflexivity.
Qed.

(* perm_b decides multiset equality *)
Lemma perm_b_sound a : forall b, perm_b a b = true -> Permutation a b.
Proof.
  induction a as [|x a IH]; intros b; cbn [perm_b].
  - destruct b; [constructor|discriminate].
  - rewrite andb_true_iff. intros [M P]. apply memz_In in M. apply IH in P.
    apply perm_of_counts. intros y. pose proof (counts_of_perm _ _ P y) as C.
    cbn [count_z]. destruct (Z.eqb_spec y x); subst.
    + rewrite (count_z_remove1_same x b M). lia.
    + rewrite count_z_remove1_other in C by exact n. lia.
Qed.

Lemma perm_b_complete a : forall b, Permutation a b -> perm_b a b = true.
Proof.
  induction a as [|x a IH]; intros b P; cbn [perm_b].
  - apply Permutation_nil in P. subst. reflexivity.
  - assert (In x b) as M by (eapply Permutation_in; [exact P|left; reflexivity]).
    rewrite (proj2 (memz_In x b) M). cbn [andb]. apply IH.
    apply perm_of_counts. intros y. pose proof (counts_of_perm _ _ P y) as C.
    cbn [count_z] in C. destruct (Z.eqb_spec y x); subst.
    + rewrite (count_z_remove1_same x b M) in C. lia.
    + rewrite count_z_remove1_other by exact n. lia.
Qed.

Lemma nodup_b_NoDup l : nodup_b l = true <-> NoDup l.
Proof.
  induction l as [|x l IH]; cbn [nodup_b]; [split; [constructor|reflexivity]|].
  rewrite andb_true_iff, negb_true_iff, IH. split.
  - intros [M N]. constructor; [|exact N]. intro I. apply memz_In in I. congruence.
  - intros N. inversion N; subst. split; [|assumption].
    destruct (memz x l) eqn:E; [|reflexivity]. apply memz_In in E. contradiction.
Qed.

(* ---- option-slot stores ---- *)
Lemma nth_error_set_nth_same {A} (l : list A) i x : (i < length l)%nat -> nth_error (set_nth l i x) i = Some x.
Proof.
  revert i; induction l as [|y l IH]; intros [|i] H; cbn in *; try lia; [reflexivity|]. apply IH. lia.
Qed.

Lemma nth_error_set_nth_other {A} (l : list A) i j x : i <> j -> nth_error (set_nth l i x) j = nth_error l j.
Proof.
  revert i j; induction l as [|y l IH]; intros [|i] [|j] H; cbn; try reflexivity; try congruence.
  apply IH. congruence.
Qed.

Lemma ensure_length {A} (l : list (option A)) i : (i < length (ensure l i))%nat.
Proof.
  revert l; induction i as [|i IH]; intros [|y l]; cbn; try lia.
  - specialize (IH []). lia.
  - specialize (IH l). lia.
Qed.

Lemma get_ensure {A} (l : list (option A)) i j : get (ensure l i) j = get l j.
Proof.
  unfold get. revert l j; induction i as [|i IH]; intros [|y l] [|j]; cbn; try reflexivity.
  - destruct j; reflexivity.
  - specialize (IH [] j). cbn in IH. destruct j; cbn in *; exact IH.
  - apply IH.
Qed.

Lemma get_put_same {A} (l : list (option A)) i x : get (put l i x) i = x.
Proof.
  unfold get, put. rewrite nth_error_set_nth_same by apply ensure_length. destruct x; reflexivity.
Qed.

Lemma get_put_other {A} (l : list (option A)) i j x : i <> j -> get (put l i x) j = get l j.
Proof.
  intros H. unfold put. unfold get at 1. rewrite nth_error_set_nth_other by exact H.
  change (get (ensure l i) j = get l j). apply get_ensure.
Qed.
