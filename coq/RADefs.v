(* RADefs.v — C03, part (a): an operational, view-based release/acquire semantics with non-atomic race
   detection, and the six hand-off protocols of cocls as programs over it, parameterised by the memory orders
   that tools/extract_sync.py reads from the source on every run (coq/gen/SyncGen.v).   MODEL ONLY, no proofs.

   The semantics (a model of the C++20 memory model restricted to what the library uses: no consume, no SC
   fences, seq_cst treated as acq_rel, no out-of-thin-air):
     * every atomic location holds its modification order as a list of messages, NEWEST FIRST; the timestamp of
       the message at position p is  length - 1 - p;
     * a message carries the writer's view iff the write is a release; an RMW reads the newest message and its
       message additionally carries the view of the message it read (C++20 release sequences: only RMWs continue
       them, which is all the library relies on);
     * every thread has a current view `cur` and a pending view `acq` (what an acquire fence would make current);
       an acquire read joins the message view into cur, a relaxed read only into acq; a thread can read any
       message that is not older than what it has already seen of that location (coherence);
     * a plain store is appended at the end of the modification order (in each protocol below a plain store is
       either happens-after every earlier write to that location or follows a contiguous chain of RMWs, so this
       loses no behaviour — see notes/C03.md);
     * a non-atomic location has a write counter; an access by a thread whose view of the location is older than
       the counter is a DATA RACE and sets the sticky `race` flag.  Accesses that may be followed by a conflicting
       write of another thread are modelled as writes, so read/write races are covered as well. *)
From Cocls Require Import Base.

Inductive order := Relaxed | Consume | Acquire | Release | AcqRel | SeqCst.

(* consume is treated as relaxed: the standard only orders dependency-carrying reads and the revision in force
   discourages it; a load/fence cannot be "release", a store cannot be "acquire" *)
Definition is_acq (o : order) : bool := match o with Acquire | AcqRel | SeqCst => true | _ => false end.
Definition is_rel (o : order) : bool := match o with Release | AcqRel | SeqCst => true | _ => false end.

(* one field per anchored atomic operation; filled in by the translator (field names = tools/extract_sync.py SITES) *)
Record orders := {
  set_ready_xchg : order;          (* awaiter::resume_chain_set_ready   chain.exchange(&ready_state, _)      *)
  resume_chain_xchg : order;       (* awaiter::resume_chain             chain.exchange(nullptr, _)           *)
  subscribe_cas : order;           (* awaiter::subscribe                compare_exchange_weak success        *)
  subscribe_cas_fail : order;      (*                                   ... failure (derived if not given)   *)
  subcr_cas : order;               (* awaiter::subscribe_check_ready    compare_exchange_weak success        *)
  subcr_cas_fail : order;
  ready_load : order;              (* future_common::ready              _awaiter.load                        *)
  owner_claim_xchg : order;        (* promise::claim                    _owner.exchange                      *)
  owner_dtor_load : order;         (* promise::~promise                 _owner.load                          *)
  mutex_try_cas : order;           (* mutex::ready                      compare_exchange_strong success      *)
  mutex_try_cas_fail : order;
  mutex_sub_cas : order;           (* mutex::subscribe                  compare_exchange_weak success        *)
  mutex_sub_cas_fail : order;
  mutex_unlock_cas : order;        (* mutex::unlock                     compare_exchange_strong success      *)
  mutex_unlock_cas_fail : order;
  mutex_bq_xchg : order;           (* mutex::build_queue                _requests.exchange(doorman, _)       *)
  busy_acquire_xchg : order;       (* reusable_storage_mtsafe::alloc    _busy.exchange(true, _)              *)
  busy_release_store : order;      (* reusable_storage_mtsafe::dealloc  _busy.store(false, _)                *)
  block_reset_store : order;       (* generator next_sync               _block.store(false, _)               *)
  block_wait_load : order;         (* generator next_sync               _block.wait(false, _)                *)
  block_set_store : order;         (* generator unblock_sync            _block.store(true, _)                *)
  flag_store : order;              (* sync_awaiter::wakeup              flag.store(true)                     *)
  flag_wait_sync : order;          (* co_awaiter::sync                  awt.flag.wait(false)                 *)
  flag_wait_force_sync : order;    (* co_awaiter::force_sync            awt.flag.wait(false)                 *)
  subcr_refuse_fence : order       (* awaiter::subscribe_check_ready    atomic_thread_fence in the refusal branch; absent = Relaxed *)
}.

(* ------------------------------------------------------------------------------------------------ views *)
Definition loc := nat.
Definition view := loc -> nat.
Definition vbot : view := fun _ => 0.
Definition vjoin (a b : view) : view := fun x => Nat.max (a x) (b x).
Definition vset (v : view) (x : loc) (n : nat) : view := fun y => if Nat.eqb y x then n else v y.
Definition vup (v : view) (x : loc) (n : nat) : view := fun y => if Nat.eqb y x then Nat.max (v y) n else v y.

Section RA.
Context {V : Type}.

Record msg := Msg { mval : V; mview : view }.
Record tview := TV { cur : view; acq : view }.
Record mem := Mem { am : loc -> list msg;      (* atomic locations: modification order, newest first *)
                    nts : view;                 (* non-atomic locations: number of writes so far *)
                    race : bool }.

Definition tv0 : tview := TV vbot vbot.
Definition tjoin (a b : tview) : tview := TV (vjoin (cur a) (cur b)) (vjoin (acq a) (acq b)).

Definition fresh (v : view) (m : mem) (x : loc) : bool := nts m x <=? v x.

Definition na_read (tv : tview) (m : mem) (x : loc) : mem :=
  Mem (am m) (nts m) (race m || negb (fresh (cur tv) m x)).

Definition na_write (tv : tview) (m : mem) (x : loc) : tview * mem :=
  let n := S (nts m x) in
  (TV (vset (cur tv) x n) (vset (acq tv) x n),
   Mem (am m) (vset (nts m) x n) (race m || negb (fresh (cur tv) m x))).

Definition am_set (f : loc -> list msg) (a : loc) (l : list msg) : loc -> list msg :=
  fun b => if Nat.eqb b a then l else f b.

Definition ts_of (l : list msg) (p : nat) : nat := length l - 1 - p.

(* read the message at position p (0 = newest) of location a; None if there is no such message or it is older
   than what the thread has already seen (coherence) *)
Definition at_read (acq_b : bool) (a : loc) (p : nat) (tv : tview) (m : mem) : option (V * tview) :=
  match nth_error (am m a) p with
  | Some ms =>
      let i := ts_of (am m a) p in
      if cur tv a <=? i then
        Some (mval ms, TV (vup (if acq_b then vjoin (cur tv) (mview ms) else cur tv) a i)
                          (vup (vjoin (acq tv) (mview ms)) a i))
      else None
  | None => None
  end.

Definition at_write (rel_b : bool) (a : loc) (v : V) (tv : tview) (m : mem) : tview * mem :=
  let i := length (am m a) in
  let c := vset (cur tv) a i in
  (TV c (vset (acq tv) a i),
   Mem (am_set (am m) a (Msg v (if rel_b then c else vset vbot a i) :: am m a)) (nts m) (race m)).

(* atomic read-modify-write: reads the newest message; returns the value read *)
Definition rmw (acq_b rel_b : bool) (a : loc) (f : V -> V) (tv : tview) (m : mem) : option (V * tview * mem) :=
  match am m a with
  | ms :: _ =>
      let i := length (am m a) in
      let c := vset (if acq_b then vjoin (cur tv) (mview ms) else cur tv) a i in
      let mv := vjoin (if rel_b then c else vset vbot a i) (mview ms) in
      Some (mval ms, TV c (vset (vjoin (acq tv) (mview ms)) a i),
            Mem (am_set (am m) a (Msg (f (mval ms)) mv :: am m a)) (nts m) (race m))
  | [] => None
  end.

Definition fence (acq_b : bool) (tv : tview) : tview :=
  if acq_b then TV (vjoin (cur tv) (acq tv)) (vjoin (cur tv) (acq tv)) else tv.

Definition mem0 (v0 : V) : mem := Mem (fun _ => [Msg v0 vbot]) vbot false.

End RA.
Arguments msg : clear implicits.
Arguments mem : clear implicits.

(* ================================================================================================
   P1 — payload publication (future.h:549-565 set, awaiter.h:96-101 resume_chain_set_ready, future.h:159 ready,
        awaiter.h:121-136 subscribe_check_ready, awaiter.h:263-285/317-335 sync_awaiter)
   One resolver R (the thread that won promise::claim, P6) and any number of waiters:
     Poll            polls ready() and reads the value when it returns true
     Coro            co_await: ready(), then subscribe_check_ready; refused -> fence -> value(); accepted -> its
                     continuation (the read of the value) is run by the resolver's thread inside the chain walk
     Sync force      future::wait()/sync(): ready(), subscribe a sync_awaiter, flag.wait(false), value()
   slot values: false = pending (null or a chain of awaiters — the pointer itself is irrelevant here, P2),
   true = &awaiter::disabled ("ready").  Locations: S slot, X payload (+ _state tag), F j flag of waiter j. *)
Module P1.
Definition S : loc := 0.
Definition X : loc := 1.
Definition F (j : nat) : loc := 2 + j.

Record bits := { xa : bool; xr : bool;       (* set_ready_xchg acquire / release part *)
                 la : bool;                   (* ready_load *)
                 csa : bool; csr : bool;      (* subscribe_check_ready CAS success *)
                 cfa : bool;                  (* ... failure *)
                 fa : bool;                   (* fence in the refusal branch *)
                 fsr : bool;                  (* sync_awaiter flag.store *)
                 fwa : bool; fwfa : bool }.   (* flag.wait in sync / force_sync *)

Definition bits_of (o : orders) : bits :=
  {| xa := is_acq (set_ready_xchg o); xr := is_rel (set_ready_xchg o); la := is_acq (ready_load o);
     csa := is_acq (subcr_cas o); csr := is_rel (subcr_cas o); cfa := is_acq (subcr_cas_fail o);
     fa := is_acq (subcr_refuse_fence o); fsr := is_rel (flag_store o);
     fwa := is_acq (flag_wait_sync o); fwfa := is_acq (flag_wait_force_sync o) |}.

Definition ok (b : bits) : bool := xr b && la b && (cfa b || fa b) && fsr b && fwa b && fwfa b.

Inductive kind := Poll | Coro | Sync (force : bool).
Inductive wpc := W0 | WSub | WSubscribed | WFlagged | WRefused | WSeen | WDone.
Record waiter := Wt { wk : kind; wp : wpc; wtv : tview }.
Inductive rpc := R0 | R1 | R2.
Record cfg := Cfg { rp : rpc; rtv : tview; ws : list waiter; mm : mem bool }.

Definition init (ks : list kind) : cfg := Cfg R0 tv0 (map (fun k => Wt k W0 tv0) ks) (mem0 false).

(* a scheduler choice: who = 0 the resolver (arg = waiter to resume while walking), who = j+1 waiter j
   (arg = 0: advance / try the CAS, arg = p+1: read the message at position p) *)
Definition choice := (nat * nat)%type.

Definition step_resolver (b : bits) (c : cfg) (arg : nat) : cfg :=
  match rp c with
  | R0 => let '(tv, m) := na_write (rtv c) (mm c) X in Cfg R1 tv (ws c) m          (* future::set: payload + tag *)
  | R1 => match rmw (xa b) (xr b) S (fun _ => true) (rtv c) (mm c) with            (* awaiter.h:100 *)
          | Some (_, tv, m) => Cfg R2 tv (ws c) m
          | None => c end
  | R2 => match nth_error (ws c) arg with                                           (* resume_chain_lk: y->resume() *)
          | Some w =>
              match wp w, wk w with
              | WSubscribed, Coro =>      (* the awaiting coroutine continues on this thread: await_resume -> value() *)
                  Cfg R2 (rtv c) (set_nth (ws c) arg (Wt (wk w) WDone (wtv w))) (na_read (rtv c) (mm c) X)
              | WSubscribed, Sync _ =>    (* sync_awaiter::wakeup: flag.store(true) *)
                  let '(tv, m) := at_write (fsr b) (F arg) true (rtv c) (mm c) in
                  Cfg R2 tv (set_nth (ws c) arg (Wt (wk w) WFlagged (wtv w))) m
              | _, _ => c
              end
          | None => c end
  end.

Definition set_w (c : cfg) (j : nat) (w : waiter) (m : mem bool) : cfg := Cfg (rp c) (rtv c) (set_nth (ws c) j w) m.

Definition step_waiter (b : bits) (c : cfg) (j arg : nat) : cfg :=
  match nth_error (ws c) j with
  | None => c
  | Some w =>
    match wp w with
    | W0 =>
        match arg with
        | 0 => match wk w with Poll => c | _ => set_w c j (Wt (wk w) WSub (wtv w)) (mm c) end
        | Datatypes.S p =>                                                     (* ready(): future.h:161 *)
            match at_read (la b) S p (wtv w) (mm c) with
            | Some (true, tv) => set_w c j (Wt (wk w) WSeen tv) (mm c)
            | Some (false, tv) => set_w c j (Wt (wk w) W0 tv) (mm c)
            | None => c end
        end
    | WSub =>                                                                   (* awaiter.h:125 CAS loop *)
        match arg with
        | 0 => match am (mm c) S with
               | Msg false _ :: _ =>
                   match rmw (csa b) (csr b) S (fun _ => false) (wtv w) (mm c) with
                   | Some (_, tv, m) => set_w c j (Wt (wk w) WSubscribed tv) m
                   | None => c end
               | _ => c end
        | Datatypes.S p =>
            match at_read (cfa b) S p (wtv w) (mm c) with
            | Some (true, tv) => set_w c j (Wt (wk w) WRefused tv) (mm c)       (* _next == &ready_state *)
            | Some (false, tv) => set_w c j (Wt (wk w) WSub tv) (mm c)
            | None => c end
        end
    | WRefused => set_w c j (Wt (wk w) WSeen (fence (fa b) (wtv w))) (mm c)     (* awaiter.h:130 *)
    | WSubscribed | WFlagged =>
        match wk w with
        | Sync force =>                                                         (* awt.flag.wait(false) *)
            match at_read (if force then fwfa b else fwa b) (F j) arg (wtv w) (mm c) with
            | Some (true, tv) => set_w c j (Wt (wk w) WSeen tv) (mm c)
            | Some (false, tv) => set_w c j (Wt (wk w) (wp w) tv) (mm c)
            | None => c end
        | _ => c end
    | WSeen => set_w c j (Wt (wk w) WDone (wtv w)) (na_read (wtv w) (mm c) X)   (* value(): reads _state and the payload *)
    | WDone => c
    end
  end.

Definition step (b : bits) (c : cfg) (ch : choice) : cfg :=
  match fst ch with 0 => step_resolver b c (snd ch) | Datatypes.S j => step_waiter b c j (snd ch) end.

Definition run (b : bits) (sched : list choice) (c : cfg) : cfg := fold_left (step b) sched c.
End P1.

(* ================================================================================================
   P2 — awaiter-node publication (awaiter.h:65-74 subscribe / :121-136 subscribe_check_ready / mutex.h:191-216
        subscribe  publish a node with a CAS;  awaiter.h:80-112 resume_chain* / mutex.h:218-233 build_queue take the
        whole stack with an exchange and walk it reading and writing the nodes).
   Slot values are the ghost list of published node ids (newest first): the pointer chain through `_next` denotes
   exactly this list as long as no race has happened, and the first race is what the theorem excludes.
   Subscriber j owns node location N j; it writes the node (set_handle/_resume_fn, _next on every failed CAS)
   and never touches it after the successful CAS.  A consumer takes the list and accesses every node in it. *)
Module P2.
Definition S : loc := 0.
Definition N (j : nat) : loc := 1 + j.

Record bits := { csa : bool; csr : bool; cfa : bool; xa : bool; xr : bool }.
Definition ok (b : bits) : bool := csr b && xa b.

Definition mk (cas casf xchg : order) : bits :=
  {| csa := is_acq cas; csr := is_rel cas; cfa := is_acq casf; xa := is_acq xchg; xr := is_rel xchg |}.
(* the three instances in the library *)
Definition bits_future (o : orders) := mk (subcr_cas o) (subcr_cas_fail o) (set_ready_xchg o).
Definition bits_signal (o : orders) := mk (subscribe_cas o) (subscribe_cas_fail o) (resume_chain_xchg o).
Definition bits_mutex (o : orders) := mk (mutex_sub_cas o) (mutex_sub_cas_fail o) (mutex_bq_xchg o).

Inductive spc := S0 | S1 | S2.
Record sub := Sb { sp : spc; stv : tview }.
Record cons := Cn { walk : option (list nat); ctv : tview }.     (* None = has not exchanged yet *)
Record cfg := Cfg { subs : list sub; conss : list cons; mm : mem (list nat) }.

Definition init (ns nc : nat) : cfg := Cfg (repeat (Sb S0 tv0) ns) (repeat (Cn None tv0) nc) (mem0 []).

Inductive choice := ChWrite (j : nat)          (* subscriber j writes its node (before publication) *)
                  | ChFail (j p : nat)         (* failed CAS: reads the message at position p, stores it to _next *)
                  | ChPub (j : nat)            (* successful CAS *)
                  | ChXchg (c : nat)           (* consumer c: exchange *)
                  | ChWalk (c : nat).          (* consumer c: next node of its list: reads _next, writes it, resumes *)

Definition step (b : bits) (c : cfg) (ch : choice) : cfg :=
  match ch with
  | ChWrite j =>
      match nth_error (subs c) j with
      | Some (Sb S0 tv) => let '(tv', m) := na_write tv (mm c) (N j) in Cfg (set_nth (subs c) j (Sb S1 tv')) (conss c) m
      | _ => c end
  | ChFail j p =>
      match nth_error (subs c) j with
      | Some (Sb S1 tv) =>
          match at_read (cfa b) S p tv (mm c) with
          | Some (_, tv1) => let '(tv', m) := na_write tv1 (mm c) (N j) in Cfg (set_nth (subs c) j (Sb S1 tv')) (conss c) m
          | None => c end
      | _ => c end
  | ChPub j =>
      match nth_error (subs c) j with
      | Some (Sb S1 tv) =>
          match rmw (csa b) (csr b) S (fun l => j :: l) tv (mm c) with
          | Some (_, tv', m) => Cfg (set_nth (subs c) j (Sb S2 tv')) (conss c) m
          | None => c end
      | _ => c end
  | ChXchg k =>
      match nth_error (conss c) k with
      | Some (Cn None tv) =>
          match rmw (xa b) (xr b) S (fun _ => []) tv (mm c) with
          | Some (l, tv', m) => Cfg (subs c) (set_nth (conss c) k (Cn (Some l) tv')) m
          | None => c end
      | _ => c end
  | ChWalk k =>
      match nth_error (conss c) k with
      | Some (Cn (Some (j :: rest)) tv) =>
          let '(tv', m) := na_write tv (mm c) (N j) in Cfg (subs c) (set_nth (conss c) k (Cn (Some rest) tv')) m
      | _ => c end
  end.

Definition run (b : bits) (sched : list choice) (c : cfg) : cfg := fold_left (step b) sched c.
End P2.

(* ================================================================================================
   P4 — reusable_storage_mtsafe (coro_storage.h:153-182): `_busy.exchange(true)` elects the user of the shared
        block (`_ptr`, `_capacity`, the frame memory = location D), `_busy.store(false)` hands it back.
        Any number of threads, any number of alloc/dealloc rounds each. *)
Module P4.
Definition B : loc := 0.
Definition D : loc := 1.
Record bits := { xa : bool; xr : bool; sr : bool }.
Definition bits_of (o : orders) : bits :=
  {| xa := is_acq (busy_acquire_xchg o); xr := is_rel (busy_acquire_xchg o); sr := is_rel (busy_release_store o) |}.
Definition ok (b : bits) : bool := xa b && sr b.

Inductive pc := T0 | T1 | T2.
Record thr := Th { tp : pc; ttv : tview }.
Record cfg := Cfg { ths : list thr; mm : mem bool }.
Definition init (n : nat) : cfg := Cfg (repeat (Th T0 tv0) n) (mem0 false).

Definition step (b : bits) (c : cfg) (t : nat) : cfg :=
  match nth_error (ths c) t with
  | Some (Th T0 tv) =>                                      (* alloc: coro_storage.h:160 *)
      match rmw (xa b) (xr b) B (fun _ => true) tv (mm c) with
      | Some (false, tv', m) => Cfg (set_nth (ths c) t (Th T1 tv')) m      (* got the shared block *)
      | Some (true, tv', m) => Cfg (set_nth (ths c) t (Th T0 tv')) m       (* busy: plain heap allocation *)
      | None => c end
  | Some (Th T1 tv) =>                                      (* reusable_storage::alloc + the coroutine frame's life *)
      let '(tv', m) := na_write tv (mm c) D in Cfg (set_nth (ths c) t (Th T2 tv')) m
  | Some (Th T2 tv) =>                                      (* dealloc: coro_storage.h:175 *)
      let '(tv', m) := at_write (sr b) B false tv (mm c) in Cfg (set_nth (ths c) t (Th T0 tv')) m
  | None => c
  end.
Definition run (b : bits) (sched : list nat) (c : cfg) : cfg := fold_left (step b) sched c.
End P4.

(* ================================================================================================
   P5 — generator::_block (generator.h:215-232 next_sync, :119-122 unblock_sync).  The caller C resets the flag,
        resumes the generator, which may continue on another thread G (handed over under some external
        synchronisation: the fork step gives G everything C knows), writes the result and sets the flag; C waits
        for the flag and reads the result.  Any number of rounds. *)
Module P5.
Definition K : loc := 0.
Definition Rv : loc := 1.
Record bits := { rr : bool; sr : bool; wa : bool }.
Definition bits_of (o : orders) : bits :=
  {| rr := is_rel (block_reset_store o); sr := is_rel (block_set_store o); wa := is_acq (block_wait_load o) |}.
Definition ok (b : bits) : bool := sr b && wa b.

Inductive cpc := C0 | C1 | C2 | C3.
Inductive gpc := G0 | G1 | G2.
Record cfg := Cfg { cp : cpc; ctv : tview; gp : gpc; gtv : tview; mm : mem bool }.
Definition init : cfg := Cfg C0 tv0 G0 tv0 (mem0 true).

Inductive choice := StepC (p : nat) | StepG.

Definition step (b : bits) (c : cfg) (ch : choice) : cfg :=
  match ch with
  | StepC p =>
      match cp c with
      | C0 => let '(tv, m) := at_write (rr b) K false (ctv c) (mm c) in Cfg C1 tv (gp c) (gtv c) m   (* generator.h:223 *)
      | C1 => match gp c with                                                                        (* h.resume() ... *)
              | G0 => Cfg C2 (ctv c) G1 (tjoin (gtv c) (ctv c)) (mm c)
              | _ => c end
      | C2 => match at_read (wa b) K p (ctv c) (mm c) with                                           (* generator.h:231 *)
              | Some (true, tv) => Cfg C3 tv (gp c) (gtv c) (mm c)
              | Some (false, tv) => Cfg C2 tv (gp c) (gtv c) (mm c)
              | None => c end
      | C3 => let '(tv, m) := na_write (ctv c) (mm c) Rv in Cfg C0 tv (gp c) (gtv c) m                (* uses / moves the result *)
      end
  | StepG =>
      match gp c with
      | G0 => c
      | G1 => let '(tv, m) := na_write (gtv c) (mm c) Rv in Cfg (cp c) (ctv c) G2 tv m                (* co_yield: _ret/_exp/_done *)
      | G2 => let '(tv, m) := at_write (sr b) K true (gtv c) (mm c) in Cfg (cp c) (ctv c) G0 tv m     (* generator.h:120 *)
      end
  end.
Definition run (b : bits) (sched : list choice) (c : cfg) : cfg := fold_left (step b) sched c.
End P5.

(* ================================================================================================
   P6 — promise::_owner (future.h:698-701 claim).  Any number of threads call the promise; the exchange elects
        one, which alone writes the future (location Fu: _state + payload).  The future was constructed before the
        promise was handed to the threads (hypothesis: every thread starts with a view containing that write).
        The pointer value is the only datum, so every order is sufficient. *)
Module P6.
Definition O : loc := 0.
Definition Fu : loc := 1.
Record bits := { xa : bool; xr : bool }.
Definition bits_of (o : orders) : bits := {| xa := is_acq (owner_claim_xchg o); xr := is_rel (owner_claim_xchg o) |}.
Inductive pc := T0 | TWin | TDone.
Record thr := Th { tp : pc; ttv : tview }.
Record cfg := Cfg { ths : list thr; mm : mem bool }.
Definition tv1 : tview := TV (vset vbot Fu 1) (vset vbot Fu 1).
Definition init (n : nat) : cfg := Cfg (repeat (Th T0 tv1) n) (Mem (fun _ => [Msg true vbot]) (vset vbot Fu 1) false).
Definition step (b : bits) (c : cfg) (t : nat) : cfg :=
  match nth_error (ths c) t with
  | Some (Th T0 tv) =>
      match rmw (xa b) (xr b) O (fun _ => false) tv (mm c) with
      | Some (true, tv', m) => Cfg (set_nth (ths c) t (Th TWin tv')) m
      | Some (false, tv', m) => Cfg (set_nth (ths c) t (Th TDone tv')) m
      | None => c end
  | Some (Th TWin tv) => let '(tv', m) := na_write tv (mm c) Fu in Cfg (set_nth (ths c) t (Th TDone tv')) m
  | _ => c
  end.
Definition run (b : bits) (sched : list nat) (c : cfg) : cfg := fold_left (step b) sched c.
End P6.

(* ================================================================================================
   P3 — coroutine mutex, hand-off of the protected data (mutex.h:148-233).  The data of the critical section and the
        owner-private `_queue` are one non-atomic location DATA.  Slot values (locked?, number of requests stacked
        above the doorman); the request nodes themselves are P2 (instance bits_mutex).
          T0      ready(): strong CAS nullptr -> doorman (mutex.h:185); success = owner; failure -> subscribe
          TS      subscribe(): CAS push (mutex.h:200).  prev != nullptr: the coroutine is suspended, the request will be
                  served by an unlocking thread, this thread is free again.  prev == nullptr: the mutex was free and is now
                  held by this thread, which must still install the doorman:
          TB      build_queue(aw): exchange(doorman) (mutex.h:223), taking the requests stacked meanwhile
          TC q    critical section (q = length of the private queue), accesses DATA
          TU q    unlock(): q = 0: strong CAS doorman -> nullptr (mutex.h:157), on failure build_queue(doorman) and hand
                  over; q > 0: hand over to the head of `_queue`.  The resumed coroutine runs its critical section on the
                  unlocking thread (or is moved elsewhere under that mechanism's own synchronisation). *)
Module P3.
Definition M : loc := 0.
Definition DATA : loc := 1.
Record bits := { ta : bool; tr : bool; tfa : bool;       (* ready() CAS success acquire/release part, failure *)
                 sa : bool; sr : bool;                    (* subscribe CAS success *)
                 ua : bool; ur : bool;                    (* unlock CAS success *)
                 xa : bool; xr : bool }.                  (* build_queue exchange *)
Definition bits_of (o : orders) : bits :=
  {| ta := is_acq (mutex_try_cas o); tr := is_rel (mutex_try_cas o); tfa := is_acq (mutex_try_cas_fail o);
     sa := is_acq (mutex_sub_cas o); sr := is_rel (mutex_sub_cas o);
     ua := is_acq (mutex_unlock_cas o); ur := is_rel (mutex_unlock_cas o);
     xa := is_acq (mutex_bq_xchg o); xr := is_rel (mutex_bq_xchg o) |}.
(* the free-mutex path of subscribe acquires either at its CAS or at the exchange that installs the doorman *)
Definition ok (b : bits) : bool := ta b && ur b && (xa b || sa b).

Inductive pc := T0 | TS | TB | TC (q : nat) | TU (q : nat).
Record thr := Th { tp : pc; ttv : tview }.
Record cfg := Cfg { ths : list thr; mm : mem (bool * nat) }.
Definition init (n : nat) : cfg := Cfg (repeat (Th T0 tv0) n) (mem0 (false, 0)).

Definition upd (c : cfg) (t : nat) (p : pc) (tv : tview) (m : mem (bool * nat)) : cfg :=
  Cfg (set_nth (ths c) t (Th p tv)) m.

Definition step (b : bits) (c : cfg) (ch : nat * nat) : cfg :=
  let '(t, arg) := ch in
  match nth_error (ths c) t with
  | None => c
  | Some (Th T0 tv) =>
      match arg with
      | 0 => match am (mm c) M with
             | Msg (false, _) _ :: _ =>
                 match rmw (ta b) (tr b) M (fun _ => (true, 0)) tv (mm c) with
                 | Some (_, tv', m) => upd c t (TC 0) tv' m
                 | None => c end
             | _ => c end
      | S p => match at_read (tfa b) M p tv (mm c) with
               | Some ((true, _), tv') => upd c t TS tv' (mm c)       (* observed "locked": the strong CAS fails *)
               | _ => c end
      end
  | Some (Th TS tv) =>
      match rmw (sa b) (sr b) M (fun v : bool * nat => if fst v then (true, S (snd v)) else (true, 0)) tv (mm c) with
      | Some ((true, _), tv', m) => upd c t T0 tv' m                   (* queued; coroutine suspended *)
      | Some ((false, _), tv', m) => upd c t TB tv' m                  (* found it unlocked *)
      | None => c end
  | Some (Th TB tv) =>
      match rmw (xa b) (xr b) M (fun _ => (true, 0)) tv (mm c) with
      | Some ((_, n), tv', m) => upd c t (TC n) tv' m
      | None => c end
  | Some (Th (TC q) tv) => let '(tv', m) := na_write tv (mm c) DATA in upd c t (TU q) tv' m
  | Some (Th (TU (S q)) tv) => upd c t (TC q) tv (mm c)
  | Some (Th (TU 0) tv) =>
      match am (mm c) M with
      | Msg (true, 0) _ :: _ =>
          match rmw (ua b) (ur b) M (fun _ => (false, 0)) tv (mm c) with
          | Some (_, tv', m) => upd c t T0 tv' m
          | None => c end
      | _ =>
          match rmw (xa b) (xr b) M (fun _ => (true, 0)) tv (mm c) with
          | Some ((_, S n), tv', m) => upd c t (TC n) tv' m
          | Some ((_, 0), tv', m) => upd c t (TU 0) tv' m
          | None => c end
      end
  end.
Definition run (b : bits) (sched : list (nat * nat)) (c : cfg) : cfg := fold_left (step b) sched c.

(* owner discipline: the same protocol in which a thread may ADDITIONALLY read the owner-private data (mutex::_queue)
   whenever its pc is in the set `pk` (choice argument 99).  Used to show that extra plain accesses are harmless exactly
   in owner context (TC / TU) and race in non-owner context (T0 = ready()/try_lock, TS = subscribe before its CAS). *)
Definition peek_arg : nat := 99.
Definition step_peek (pk : pc -> bool) (b : bits) (c : cfg) (ch : nat * nat) : cfg :=
  if Nat.eqb (snd ch) peek_arg then
    match nth_error (ths c) (fst ch) with
    | Some (Th p tv) => if pk p then Cfg (ths c) (na_read tv (mm c) DATA) else c
    | None => c end
  else step b c ch.
Definition run_peek (pk : pc -> bool) (b : bits) (sched : list (nat * nat)) (c : cfg) : cfg := fold_left (step_peek pk b) sched c.
End P3.

(* ================================================================================================
   engine "tsan": what the theorems predict for the real-thread ThreadSanitizer scenarios of harness/tsan_c03.cpp
   (op = [scenario; iterations], observation [0] = no integrity failure; a TSan report aborts the run and is an
   observation "CRASH" that no model output matches).  Supporting evidence only: the tie of C03 is the translator. *)
Definition tsan_run (ops : list (list Z)) : list (list Z) :=
  map (fun op => match op with
                 | [s; n] => if ((1 <=? s) && (s <=? 17) && (0 <=? n) && (n <=? 100000))%Z then [0%Z] else [(-1)%Z]
                 | _ => [(-1)%Z] end) ops.
Definition tsan_oracle (ops obs : list (list Z)) : bool :=
  (length ops =? length obs) &&
  forallb (fun o => match o with [0%Z] => true | [Zneg 1] => true | _ => false end) obs.
