(* StorageMtProofs.v — reusable_storage_mtsafe under every schedule of any number of threads:
   safety invariants of the interleaving model (steps at busy_x / busy_g / busy_n / busy_s) and termination. *)
From Cocls Require Import Base BaseProofs StorageDefs StorageProofs.
Require Import ZifyBool.
Local Open Scope Z_scope.
Ltac Zify.zify_post_hook ::= Z.div_mod_to_equations.

Definition wonw (t : thread) : Z := match t_won t with Some _ => 1 | None => 0 end.
Definition groww (t : thread) : Z := match t_grow t with Some _ => 1 | None => 0 end.
Fixpoint tsum (w : thread -> Z) (l : list thread) : Z := match l with [] => 0 | t :: r => w t + tsum w r end.
Arguments tsum : simpl never.
Definition nwon := tsum wonw.
Definition ngrow := tsum groww.

Lemma tsum_cons w t r : tsum w (t :: r) = w t + tsum w r. Proof. reflexivity. Qed.
Lemma tsum_nil w : tsum w [] = 0. Proof. reflexivity. Qed.

Lemma wonw_range t : 0 <= wonw t <= 1. Proof. unfold wonw. destruct (t_won t); lia. Qed.
Lemma groww_range t : 0 <= groww t <= 1. Proof. unfold groww. destruct (t_grow t); lia. Qed.

Lemma wonw_mk a b c d e f : wonw (mkTh a b c d e f) = match b with Some _ => 1 | None => 0 end.
Proof. reflexivity. Qed.
Lemma groww_mk a b c d e f : groww (mkTh a b c d e f) = match f with Some _ => 1 | None => 0 end.
Proof. reflexivity. Qed.

Lemma tsum_set_nth w l i t t' : nth_error l i = Some t -> tsum w (set_nth l i t') = tsum w l - w t + w t'.
Proof.
  revert i. induction l as [|x l IH]; intros [|i] H; cbn [nth_error set_nth] in *; try discriminate.
  - inversion H; subst. rewrite !tsum_cons. lia.
  - rewrite !tsum_cons, (IH _ H). lia.
Qed.

(* a growing thread is a thread that holds _busy *)
Definition gw_ok (t : thread) : Prop := groww t <= wonw t.

Lemma tsum_gap l i t : Forall gw_ok l -> nth_error l i = Some t ->
  0 <= tsum groww l - groww t <= tsum wonw l - wonw t.
Proof.
  intros F. revert i. induction F as [|x l Hx Hl IH]; intros [|i] H; cbn [nth_error] in *; try discriminate.
  - inversion H; subst. rewrite !tsum_cons.
    assert (0 <= tsum groww l <= tsum wonw l); [|lia].
    clear -Hl. induction Hl as [|y l Hy Hl IH]; [rewrite !tsum_nil; lia|]. rewrite !tsum_cons.
    unfold gw_ok in Hy. pose proof (groww_range y). lia.
  - rewrite !tsum_cons. specialize (IH _ H). unfold gw_ok in Hx. pose proof (groww_range x). lia.
Qed.

(* while the holder is between `delete _ptr` and `_ptr = new`, _ptr dangles and _capacity is stale; nobody but the
   holder reads them (the repaired dealloc does not), so for everybody else the storage is as good as empty *)
Definition norm (s : sto) : sto := mkSto None 0 (s_busy s) (s_state s) (s_bsize s) (s_bcap s) (s_ownc s).
Definition eff (l : list thread) (s : sto) : sto := if 0 <? ngrow l then norm s else s.

Definition act_pos (a : act) : Prop := match a with ACreate sz => 0 < sz | AFin _ => True end.
Definition thr_pos (t : thread) : Prop :=
  Forall act_pos (t_prog t) /\ match t_won t with Some sz => 0 < sz | None => True end.

Record CInv (s : cst) : Prop := {
  ci_inv : InvT pm (nwon (c_thr s)) (hp (c_core s)) (eff (c_thr s) (st (c_core s))) (frs (c_core s));
  ci_keys : forall k, In k (keys (frs (c_core s))) -> (k < c_nfid (c_core s))%nat;
  ci_pos : Forall thr_pos (c_thr s);
  ci_gw : Forall gw_ok (c_thr s)
}.

Lemma Forall_set_nth {A} (P : A -> Prop) l i x : Forall P l -> P x -> Forall P (set_nth l i x).
Proof.
  intros H. revert i. induction H as [|y l Hy Hl IH]; intros [|i] Px; cbn [set_nth]; constructor; auto.
Qed.

Lemma Forall_nth_error {A} (P : A -> Prop) l i x : Forall P l -> nth_error l i = Some x -> P x.
Proof. intros H E. rewrite Forall_forall in H. apply H. exact (nth_error_In _ _ E). Qed.

Lemma sanitize_pos : forall l live, Forall act_pos (sanitize live l).
Proof.
  induction l as [|a l IH]; intros live; cbn [sanitize].
  - induction live; cbn [repeat]; constructor; cbn; auto.
  - destruct a as [sz|b].
    + destruct (0 <? sz) eqn:G; [constructor; [cbn; lia|apply IH]|apply IH].
    + destruct live; [apply IH|constructor; [exact Logic.I|apply IH]].
Qed.

Lemma decode_thread_cases o :
  decode_thread o = [] \/ exists r, decode_thread o = [mkTh (sanitize 0 (decode_prog r)) None [] 0 [] None].
Proof.
  unfold decode_thread. destruct o as [|z r]; [left; reflexivity|].
  destruct z as [|q|q]; try (left; reflexivity).
  repeat (destruct q as [q|q|]; try (left; reflexivity)). right. exists r. reflexivity.
Qed.

Lemma cinit_CInv ops : CInv (cinit ops).
Proof.
  unfold cinit.
  assert (W : forall l, nwon (flat_map decode_thread l) = 0 /\ ngrow (flat_map decode_thread l) = 0 /\
                        Forall thr_pos (flat_map decode_thread l) /\ Forall gw_ok (flat_map decode_thread l)).
  { induction l as [|o l (IH1 & IH2 & IH3 & IH4)]; cbn [flat_map].
    - unfold nwon, ngrow. rewrite !tsum_nil. repeat split; constructor.
    - destruct (decode_thread_cases o) as [->|[r ->]]; cbn [app]; [repeat split; assumption|].
      unfold nwon, ngrow in *. rewrite !tsum_cons. unfold wonw at 1, groww at 1. cbn [t_won t_grow].
      repeat split; try lia.
      + constructor; [|exact IH3]. split; cbn [t_prog t_won]; [apply sanitize_pos|exact Logic.I].
      + constructor; [|exact IH4]. unfold gw_ok, groww, wonw. cbn [t_won t_grow]. lia. }
  destruct (W ops) as (W1 & W2 & W3 & W4). constructor; cbn [c_core c_thr].
  - unfold eff. rewrite W1, W2. cbn [Z.ltb Z.compare]. destruct (init_inv pm) as [I _]; cbn; try lia; [discriminate|exact I].
  - cbn. intros k [].
  - exact W3.
  - exact W4.
Qed.

(* the winner's first half: the old block is deleted, for everybody else the storage is now empty *)
Lemma mts_g1_inv k h s l :
  0 <= k -> InvT pm (k + 1) h s l -> InvT pm (k + 1) (hdel_opt h (s_ptr s)) (norm s) l.
Proof.
  intros K0 I. destruct I as [IH IC IF IB IK IS IBZ ISG IX]. cbn [pm p_pol] in *.
  pose proof (sumw_nonneg trw l trw_nonneg) as NN.
  assert (s_busy s = true /\ sumw trw l = 0) as [BT TZ].
  { destruct (s_busy s); cbn [b2z] in IBZ; split; auto; lia. }
  assert (HF : forall i f, In (i, f) l -> exists b, f_blk f = BHeap b /\ s_ptr s <> Some b /\ In (b, f_room f) (h_live h)).
  { intros i f A. pose proof (sumw_trw_zero _ _ _ TZ A) as T. destruct (IF _ _ A) as (_ & _ & _ & V & R).
    cbn [pm p_pol] in R. rewrite T in R. destruct R as [b [E NE]]. exists b. rewrite E in V. auto. }
  unfold sto_ok in IS. cbn [pm p_pol] in IS. destruct IS as [C0 IS].
  assert (H' : heap_ok (hdel_opt h (s_ptr s)) /\
               zlen (h_live (hdel_opt h (s_ptr s))) = zlen (h_live h) - nsown PMts s /\
               (forall x z, In (x, z) (h_live h) -> s_ptr s <> Some x -> In (x, z) (h_live (hdel_opt h (s_ptr s))))).
  { unfold hdel_opt, nsown. destruct (s_ptr s) as [b0|] eqn:EP0.
    - destruct (hdel_live _ _ _ IS) as (L1 & L2 & _). refine (conj (hdel_ok _ _ _ IH IS) (conj _ _)).
      + rewrite L1. rewrite hrem_length by exact (hmem_In _ _ _ IS). lia.
      + intros x z A NE. rewrite L1. apply hrem_In; [exact A|congruence].
    - refine (conj IH (conj _ _)); [lia|auto]. }
  destruct H' as (H1 & H3 & H4).
  constructor; cbn [pm p_pol].
  - exact H1.
  - rewrite H3, IC. cbn [nsown norm s_ptr]. lia.
  - intros i f A. destruct (HF _ _ A) as [b [E [NE V]]]. destruct (IF _ _ A) as (F1 & F2 & F3 & _ & F5).
    pose proof (sumw_trw_zero _ _ _ TZ A) as T. unfold frame_ok. rewrite E. cbn [pm p_pol norm s_ptr]. rewrite T.
    refine (conj F1 (conj F2 (conj F3 (conj (H4 _ _ V NE) _)))). exists b. split; [reflexivity|discriminate].
  - exact IB.
  - exact IK.
  - unfold sto_ok. cbn [pm p_pol norm s_cap s_ptr]. split; [lia|reflexivity].
  - cbn [norm s_busy]. exact IBZ.
  - exact ISG.
  - exact IX.
Qed.

(* the winner's second half is reusable_storage::alloc on the empty storage *)
Lemma g2_is_won h s sz : 0 < sz ->
  mts_won h (norm s) sz =
  (fst (hnew h (sz + ptr_sz)),
   mkSto (Some (snd (hnew h (sz + ptr_sz)))) (sz + ptr_sz) (s_busy s) (s_state s) (s_bsize s) (s_bcap s) (s_ownc s),
   mkGr (BHeap (snd (hnew h (sz + ptr_sz)))) (sz + ptr_sz) (sz + ptr_sz) true).
Proof.
  intros P. unfold mts_won, reu_alloc. cbn [norm s_cap s_ptr hdel_opt].
  assert (sz + ptr_sz >? 0 = true) as -> by (unfold ptr_sz; lia).
  unfold hnew. cbn [fst snd s_cap s_busy s_state s_bsize s_bcap s_ownc]. reflexivity.
Qed.

Lemma bdealloc_norm h s b tr :
  bdealloc pm h (norm s) b tr = (fst (bdealloc pm h s b tr), norm (snd (bdealloc pm h s b tr))).
Proof. unfold bdealloc. cbn [pm p_pol]. destruct tr; reflexivity. Qed.

Lemma InvT_nwon_le1 k h s l : InvT pm k h s l -> k <= 1.
Proof.
  intros I. pose proof (i_busy _ _ _ _ _ I) as B. cbn [pm p_pol] in B.
  pose proof (sumw_nonneg trw l trw_nonneg). destruct (s_busy s); cbn [b2z] in B; lia.
Qed.

Ltac fix_k v := match goal with |- InvT _ ?k _ _ _ => replace k with v by lia end.

Lemma tstep_CInv s i : CInv s -> CInv (fst (tstep s i)).
Proof.
  intros [I K P GW]. unfold tstep. destruct (nth_error (c_thr s) i) as [t|] eqn:ET; [|cbn [fst]; constructor; assumption].
  pose proof (Forall_nth_error _ _ _ _ P ET) as [PP PW].
  pose proof (Forall_nth_error _ _ _ _ GW ET) as GT. unfold gw_ok in GT.
  pose proof (tsum_gap _ _ _ GW ET) as GAP. fold nwon ngrow in GAP.
  pose proof (InvT_nwon_le1 _ _ _ _ I) as LE1.
  set (c := c_core s) in *.
  assert (FR : ~ In (c_nfid c) (keys (frs c))) by (intros A; specialize (K _ A); lia).
  assert (NW := tsum_set_nth wonw _ _ _ (mkTh [] None [] 0 [] None) ET). clear NW.
  destruct (t_won t) as [sz|] eqn:EW.
  - assert (W1 : wonw t = 1) by (unfold wonw; rewrite EW; reflexivity).
    destruct (t_grow t) as [fr|] eqn:EG.
    + (* busy_n *)
      assert (G1 : groww t = 1) by (unfold groww; rewrite EG; reflexivity).
      assert (EFF : eff (c_thr s) (st c) = norm (st c)).
      { unfold eff. assert (0 <? ngrow (c_thr s) = true) as -> by lia. reflexivity. }
      rewrite EFF in I.
      assert (I1 : InvT pm ((nwon (c_thr s) - 1) + 1) (hp c) (norm (st c)) (frs c)) by (fix_k (nwon (c_thr s)); exact I).
      pose proof (mts_won_inv pm (nwon (c_thr s) - 1) (hp c) (norm (st c)) (frs c) (c_nfid c) (c_nfid c) sz sz eq_refl ltac:(lia) I1 PW FR) as W.
      rewrite (g2_is_won _ _ _ PW) in W. cbn [g_blk g_need g_room g_tr] in W.
      unfold mk_frame, hnew in *. cbn [fst snd upd p_x pm] in *.
      constructor; unfold upd; cbn [c_core c_thr hp st frs c_nfid].
      * unfold nwon, ngrow, eff in *. rewrite ?(tsum_set_nth wonw _ _ _ _ ET), ?(tsum_set_nth groww _ _ _ _ ET), ?wonw_mk, ?groww_mk. cbv beta iota.
        assert (0 <? tsum groww (c_thr s) - groww t + 0 = false) as -> by lia.
        rewrite ?Z.add_0_r. fix_k (tsum wonw (c_thr s) - 1). exact W.
      * cbn [keys map fst]. intros k [<-|A]; [lia|]. specialize (K _ A). lia.
      * apply Forall_set_nth; [exact P|]. split; cbn [t_prog t_won]; auto.
      * apply Forall_set_nth; [exact GW|]. unfold gw_ok, groww, wonw. cbn [t_won t_grow]. lia.
    + (* busy_g *)
      assert (G0 : groww t = 0) by (unfold groww; rewrite EG; reflexivity).
      assert (NG : ngrow (c_thr s) = 0) by lia.
      assert (EFF : eff (c_thr s) (st c) = st c).
      { unfold eff. rewrite NG. reflexivity. }
      rewrite EFF in I.
      assert (I1 : InvT pm ((nwon (c_thr s) - 1) + 1) (hp c) (st c) (frs c)) by (fix_k (nwon (c_thr s)); exact I).
      destruct (sz + ptr_sz >? s_cap (st c)) eqn:GR.
      * pose proof (mts_g1_inv (nwon (c_thr s) - 1) _ _ _ ltac:(lia) I1) as W.
        cbn [fst]. constructor; unfold upd; cbn [c_core c_thr hp st frs c_nfid].
        -- unfold nwon, ngrow, eff in *. rewrite ?(tsum_set_nth wonw _ _ _ _ ET), ?(tsum_set_nth groww _ _ _ _ ET), ?wonw_mk, ?groww_mk. cbv beta iota.
           rewrite W1.
           assert (0 <? tsum groww (c_thr s) - groww t + 1 = true) as -> by lia.
           fix_k (tsum wonw (c_thr s) - 1 + 1). exact W.
        -- exact K.
        -- apply Forall_set_nth; [exact P|]. split; cbn [t_prog t_won]; auto.
        -- apply Forall_set_nth; [exact GW|]. unfold gw_ok, groww, wonw. cbn [t_won t_grow]. lia.
      * pose proof (mts_won_inv pm (nwon (c_thr s) - 1) (hp c) (st c) (frs c) (c_nfid c) (c_nfid c) sz sz eq_refl ltac:(lia) I1 PW FR) as W.
        unfold mk_frame. destruct (mts_won (hp c) (st c) sz) as [[h1 s1] g]. cbn [fst upd p_x pm].
        constructor; unfold upd; cbn [c_core c_thr hp st frs c_nfid].
        -- unfold nwon, ngrow, eff in *. rewrite ?(tsum_set_nth wonw _ _ _ _ ET), ?(tsum_set_nth groww _ _ _ _ ET), ?wonw_mk, ?groww_mk. cbv beta iota.
           assert (0 <? tsum groww (c_thr s) - groww t + 0 = false) as -> by lia.
           rewrite ?Z.add_0_r. fix_k (tsum wonw (c_thr s) - 1). exact W.
        -- cbn [keys map fst]. intros k [<-|A]; [lia|]. specialize (K _ A). lia.
        -- apply Forall_set_nth; [exact P|]. split; cbn [t_prog t_won]; auto.
        -- apply Forall_set_nth; [exact GW|]. unfold gw_ok, groww, wonw. cbn [t_won t_grow]. lia.
  - assert (W0 : wonw t = 0) by (unfold wonw; rewrite EW; reflexivity).
    assert (G0 : groww t = 0) by (pose proof (groww_range t); lia).
    assert (TG : t_grow t = None) by (unfold groww in G0; destruct (t_grow t); [lia|reflexivity]).
    (* whatever this thread does, the counters of pending holders keep their values unless it claims _busy *)
    assert (SAME : forall t', t_won t' = None -> t_grow t' = None ->
              nwon (set_nth (c_thr s) i t') = nwon (c_thr s) /\ ngrow (set_nth (c_thr s) i t') = ngrow (c_thr s) /\
              Forall gw_ok (set_nth (c_thr s) i t')).
    { intros t' E1 E2. unfold nwon, ngrow. rewrite (tsum_set_nth wonw _ _ _ _ ET), (tsum_set_nth groww _ _ _ _ ET).
      assert (wonw t' = 0) by (unfold wonw; rewrite E1; reflexivity).
      assert (groww t' = 0) by (unfold groww; rewrite E2; reflexivity).
      refine (conj _ (conj _ _)); try lia.
      apply Forall_set_nth; [exact GW|]. unfold gw_ok, groww, wonw. rewrite E1, E2. lia. }
    destruct (t_prog t) as [|[sz|nw] r] eqn:EPg; [cbn [fst]; constructor; assumption| |].
    + (* busy_x *)
      inversion PP as [|? ? PA PR]; subst. cbn [act_pos] in PA.
      assert (BE : s_busy (eff (c_thr s) (st c)) = s_busy (st c)) by (unfold eff; destruct (0 <? ngrow (c_thr s)); reflexivity).
      destruct (s_busy (st c)) eqn:B.
      * pose proof (mts_lost_inv pm (nwon (c_thr s)) (hp c) (eff (c_thr s) (st c)) (frs c) (c_nfid c) (c_nfid c) sz sz eq_refl I PA FR) as W.
        unfold mk_frame, mts_lost, hnew in *. cbn [fst snd g_blk g_need g_room g_tr] in *.
        match goal with |- CInv (upd _ _ _ ?t') => destruct (SAME t' eq_refl eq_refl) as (S1 & S2 & S3) end.
        constructor; unfold upd; cbn [c_core c_thr hp st frs c_nfid].
        -- rewrite S1. unfold eff in *. rewrite S2. rewrite ?Z.add_0_r. exact W.
        -- cbn [keys map fst]. intros k [<-|A]; [lia|]. specialize (K _ A). lia.
        -- apply Forall_set_nth; [exact P|]. split; cbn [t_prog t_won]; auto.
        -- exact S3.
      * destruct (mts_claim_inv pm _ _ _ _ eq_refl I BE) as [Z0 I1].
        assert (NG : ngrow (c_thr s) = 0) by lia.
        assert (EFF : eff (c_thr s) (st c) = st c) by (unfold eff; rewrite NG; reflexivity).
        rewrite EFF in I1.
        cbn [fst]. constructor; unfold upd; cbn [c_core c_thr with_busy hp st frs c_nfid].
        -- unfold nwon, ngrow, eff in *. rewrite ?(tsum_set_nth wonw _ _ _ _ ET), ?(tsum_set_nth groww _ _ _ _ ET), ?wonw_mk, ?groww_mk. cbv beta iota.
           rewrite NG in *. rewrite G0. cbn [Z.ltb Z.compare Z.sub Z.add Z.opp] in *. fix_k 1. exact I1.
        -- exact K.
        -- apply Forall_set_nth; [exact P|]. split; cbn [t_prog t_won]; auto.
        -- apply Forall_set_nth; [exact GW|]. unfold gw_ok, groww, wonw. cbn [t_won t_grow]. lia.
    + (* busy_s *)
      inversion PP as [|? ? PA PR]; subst.
      assert (SKIP : CInv (upd s c i (mkTh r None (t_own t) (S (t_done t)) (t_res t ++ [[Z.of_nat i; Z.of_nat (t_done t); 0]]) None))).
      { destruct (SAME (mkTh r None (t_own t) (S (t_done t)) (t_res t ++ [[Z.of_nat i; Z.of_nat (t_done t); 0]]) None) eq_refl eq_refl) as (S1 & S2 & S3).
        constructor; unfold upd; cbn [c_core c_thr].
        - rewrite S1. unfold eff in *. rewrite S2. exact I.
        - exact K.
        - apply Forall_set_nth; [exact P|]. split; cbn [t_prog t_won]; auto.
        - exact S3. }
      destruct (pick nw (t_own t)) as [[slot rest]|]; [|exact SKIP].
      destruct (fget (frs c) slot) as [f|] eqn:GF; [|exact SKIP].
      pose proof (finish_inv pm _ _ _ _ slot f I GF) as W. unfold finish.
      assert (WE : InvT pm (nwon (c_thr s)) (fst (bdealloc pm (hp c) (st c) (f_blk f) (f_tr f)))
                        (eff (c_thr s) (snd (bdealloc pm (hp c) (st c) (f_blk f) (f_tr f)))) (fdel (frs c) slot)).
      { unfold eff in *. destruct (0 <? ngrow (c_thr s)).
        - rewrite bdealloc_norm in W. exact W.
        - destruct (bdealloc pm (hp c) (st c) (f_blk f) (f_tr f)). exact W. }
      destruct (bdealloc pm (hp c) (st c) (f_blk f) (f_tr f)) as [h1 s1]. cbn [fst snd] in *.
      match goal with |- CInv (upd _ _ _ ?t') => destruct (SAME t' eq_refl eq_refl) as (S1 & S2 & S3) end.
      constructor; unfold upd; cbn [c_core c_thr hp st frs c_nfid].
      * rewrite S1. unfold eff in *. rewrite S2. exact WE.
      * intros k A. apply keys_fdel_In in A. apply K, A.
      * apply Forall_set_nth; [exact P|]. split; cbn [t_prog t_won]; auto.
      * exact S3.
Qed.

(* every state reachable by thread steps in any order *)
Inductive mt_reach (ops : list (list Z)) : cst -> Prop :=
| mr_init : mt_reach ops (cinit ops)
| mr_step s i : mt_reach ops s -> mt_reach ops (fst (tstep s i)).

Lemma reach_CInv ops s : mt_reach ops s -> CInv s.
Proof. induction 1; [apply cinit_CInv|apply tstep_CInv; assumption]. Qed.

Lemma mt_exclusive ops s i j fi fj : mt_reach ops s ->
  fget (frs (c_core s)) i = Some fi -> fget (frs (c_core s)) j = Some fj -> i <> j -> f_blk fi <> f_blk fj.
Proof.
  intros R. destruct (reach_CInv _ _ R) as [I _ _ _]. exact (blocks_distinct _ _ _ _ _ (i_blocks _ _ _ _ _ I)).
Qed.

(* the shared block: at most one holder (a live frame in it, or a thread that won _busy and has not finished its alloc);
   every other live frame sits in a heap block of its own, different from the storage's block *)
Lemma mt_one_holder ops s : mt_reach ops s ->
  nwon (c_thr s) + sumw trw (frs (c_core s)) = b2z (s_busy (st (c_core s))) /\
  forall i f, In (i, f) (frs (c_core s)) ->
    if f_tr f then ngrow (c_thr s) = 0 /\ f_blk f = optblk (s_ptr (st (c_core s)))
    else exists b, f_blk f = BHeap b /\ (ngrow (c_thr s) = 0 -> s_ptr (st (c_core s)) <> Some b).
Proof.
  intros R. destruct (reach_CInv _ _ R) as [I _ _ GW]. split.
  - pose proof (proj2 (i_busy _ _ _ _ _ I)) as B. unfold eff in B. destruct (0 <? ngrow (c_thr s)); exact B.
  - intros i f A. pose proof (proj2 (proj2 (proj2 (proj2 (i_frames _ _ _ _ _ I _ _ A))))) as F. cbn [pm p_pol] in F.
    assert (NG : 0 <= ngrow (c_thr s)).
    { clear -GW. unfold ngrow. induction (c_thr s) as [|t l IH]; [rewrite tsum_nil; lia|]. rewrite tsum_cons.
      inversion GW; subst. pose proof (groww_range t). specialize (IH H2). lia. }
    unfold eff in F. destruct (0 <? ngrow (c_thr s)) eqn:G.
    + destruct (f_tr f).
      * cbn [norm s_ptr optblk] in F. destruct (i_frames _ _ _ _ _ I _ _ A) as (_ & _ & _ & V & _). rewrite F in V. contradiction.
      * destruct F as [b [E _]]. exists b. split; [exact E|]. intros Z0. lia.
    + destruct (f_tr f).
      * split; [lia|exact F].
      * destruct F as [b [E N]]. exists b. split; [exact E|]. intros _. exact N.
Qed.

Lemma mt_valid_sized ops s i f : mt_reach ops s -> In (i, f) (frs (c_core s)) ->
  0 < f_n f /\ f_n f + ptr_sz <= f_room f /\ exists b, f_blk f = BHeap b /\ In (b, f_room f) (h_live (hp (c_core s))).
Proof.
  intros R A. destruct (reach_CInv _ _ R) as [I _ _ _].
  destruct (i_frames _ _ _ _ _ I _ _ A) as (F1 & F2 & F3 & V & RR). cbn [pm p_pol trailer] in *.
  split; [exact F1|]. split; [lia|].
  destruct (f_blk f) as [|b|j]; try contradiction. exists b. auto.
Qed.

Lemma mt_freed_once ops s : mt_reach ops s ->
  let h := hp (c_core s) in
  h_bad h = 0 /\ h_allocs h - h_frees h = zlen (h_live h) /\
  zlen (h_live h) = nsown PMts (eff (c_thr s) (st (c_core s))) + sumw (owns PMts) (frs (c_core s)) /\
  (frs (c_core s) = [] -> nwon (c_thr s) = 0 ->
   let h1 := hp (destroy pm (c_core s)) in h_live h1 = [] /\ h_allocs h1 = h_frees h1 /\ h_bad h1 = 0).
Proof.
  intros R h. destruct (reach_CInv _ _ R) as [I _ _ GW]. pose proof (i_heap _ _ _ _ _ I) as HK. fold h in HK.
  pose proof (i_cnt _ _ _ _ _ I) as C. cbn [pm p_pol] in C. fold h in C.
  refine (conj (hk_bad _ HK) (conj (hk_cnt _ HK) (conj C _))).
  intros E NW.
  assert (NG : ngrow (c_thr s) = 0).
  { clear -GW NW. unfold nwon, ngrow in *. induction (c_thr s) as [|t l IH]; [reflexivity|]. rewrite tsum_cons in *.
    inversion GW; subst. unfold gw_ok in H1. pose proof (groww_range t). pose proof (wonw_range t).
    assert (0 <= tsum wonw l).
    { clear. induction l as [|x l IH]; [rewrite tsum_nil; lia|]. rewrite tsum_cons. pose proof (wonw_range x). lia. }
    specialize (IH H2). lia. }
  unfold eff in *. rewrite NG in *. cbn [Z.ltb Z.compare] in *.
  rewrite E, sumw_nil in C. unfold destroy. cbn [pm p_pol hp]. fold h.
  pose proof (i_sto _ _ _ _ _ I) as S. unfold sto_ok in S. cbn [pm p_pol] in S. destruct S as [_ S].
  destruct (destroy_heap h (s_ptr (st (c_core s))) HK) as [D1 D2].
  - cbn [nsown] in C. lia.
  - intros b EB. rewrite EB in S. eexists. exact S.
  - split; [exact D2|]. pose proof (hk_cnt _ D1) as C1. rewrite D2 in C1. unfold zlen in C1. cbn [length] in C1.
    split; [lia|exact (hk_bad _ D1)].
Qed.

Lemma run_sched_reach ops : forall fuel s sched tr, mt_reach ops s -> mt_reach ops (fst (run_sched fuel s sched tr)).
Proof.
  induction fuel as [|fuel IH]; intros s sched tr R; cbn [run_sched]; [exact R|].
  destruct (all_enabled s) as [|e en]; [exact R|]. set (i := nth _ _ _).
  pose proof (mr_step ops s i R) as R1. destruct (tstep s i) as [s1 pt]. apply IH. exact R1.
Qed.

Lemma mt_final_reach ops : mt_reach ops (fst (mt_final ops)).
Proof. unfold mt_final. apply run_sched_reach. constructor. Qed.

(* ---------- termination: no thread is ever stuck ----------
   A thread is enabled exactly when it has something left to do (nothing in this protocol waits), and every step of an
   enabled thread decreases the remaining work, so every schedule ends with all programs completed. *)
Definition work (t : thread) : Z :=
  3 * zlen (t_prog t) + match t_won t with Some _ => (match t_grow t with Some _ => 1 | None => 2 end) | None => 0 end.
Definition twork (s : cst) : Z := tsum work (c_thr s).

Lemma work_nonneg t : 0 <= work t.
Proof. unfold work, zlen. destruct (t_won t); [destruct (t_grow t)|]; lia. Qed.

Lemma enabled_work t : t_enabled t = true <-> 0 < work t.
Proof.
  unfold t_enabled, work, zlen. destruct (t_won t); [destruct (t_grow t)|]; destruct (t_prog t); cbn [length]; split; intros; try lia; try reflexivity; discriminate.
Qed.

Lemma tstep_work s i t : nth_error (c_thr s) i = Some t -> t_enabled t = true -> twork (fst (tstep s i)) < twork s.
Proof.
  intros ET EN. apply enabled_work in EN. unfold tstep. rewrite ET. unfold twork.
  assert (D : forall c t', work t' < work t -> tsum work (c_thr (upd s c i t')) < tsum work (c_thr s)).
  { intros c t' L. unfold upd. cbn [c_thr]. rewrite (tsum_set_nth work _ _ _ _ ET). lia. }
  unfold work in EN.
  destruct (t_won t) as [sz|] eqn:EW.
  - destruct (t_grow t) as [fr|] eqn:EG.
    + unfold mk_frame, hnew. cbn [fst]. apply D. unfold work. cbn [t_prog t_won t_grow]. rewrite EW, EG. lia.
    + destruct (sz + ptr_sz >? s_cap (st (c_core s))).
      * cbn [fst]. apply D. unfold work. cbn [t_prog t_won t_grow]. rewrite EW, EG. lia.
      * unfold mk_frame. destruct (mts_won (hp (c_core s)) (st (c_core s)) sz) as [[h1 s1] g]. cbn [fst].
        apply D. unfold work. cbn [t_prog t_won t_grow]. rewrite EW, EG. lia.
  - destruct (t_prog t) as [|[sz|nw] r] eqn:EPg; [unfold zlen in EN; cbn [length] in EN; lia| |].
    + destruct (s_busy (st (c_core s))).
      * unfold mk_frame. destruct (mts_lost (hp (c_core s)) (st (c_core s)) sz) as [[h1 s1] g]. cbn [fst].
        apply D. unfold work. cbn [t_prog t_won t_grow]. rewrite EW, EPg. rewrite !zlen_cons. lia.
      * cbn [fst]. apply D. unfold work. cbn [t_prog t_won t_grow]. rewrite EW, EPg. rewrite !zlen_cons. lia.
    + assert (SK : forall own res, work (mkTh r None own (S (t_done t)) res None) < work t).
      { intros. unfold work. cbn [t_prog t_won t_grow]. rewrite EW, EPg. rewrite !zlen_cons. lia. }
      destruct (pick nw (t_own t)) as [[slot rest]|]; [|cbn [fst]; apply D, SK].
      destruct (fget (frs (c_core s)) slot) as [f|]; cbn [fst]; apply D, SK.
Qed.

Lemma enabled_from_spec : forall l from i, In i (enabled_from l from) ->
  exists t, nth_error l (i - from) = Some t /\ t_enabled t = true /\ (from <= i)%nat.
Proof.
  induction l as [|t l IH]; intros from i H; cbn [enabled_from] in H; [contradiction|].
  apply in_app_or in H. destruct H as [H|H].
  - destruct (t_enabled t) eqn:E; [|contradiction]. destruct H as [<-|[]]. exists t. rewrite Nat.sub_diag. auto.
  - destruct (IH _ _ H) as (t' & N & E & L). exists t'. replace (i - from)%nat with (S (i - S from)) by lia. cbn [nth_error]. repeat split; auto. lia.
Qed.

Lemma enabled_from_nil : forall l from, enabled_from l from = [] -> Forall (fun t => t_enabled t = false) l.
Proof.
  induction l as [|t l IH]; intros from H; [constructor|]. cbn [enabled_from] in H.
  apply app_eq_nil in H. destruct H as [H1 H2]. constructor; [destruct (t_enabled t); [discriminate|reflexivity]|exact (IH _ H2)].
Qed.

Lemma twork_nonneg s : 0 <= twork s.
Proof.
  unfold twork. induction (c_thr s) as [|t l IH]; [rewrite tsum_nil; lia|]. rewrite tsum_cons. pose proof (work_nonneg t). lia.
Qed.

Lemma run_sched_done : forall fuel s sched tr, twork s <= Z.of_nat fuel ->
  all_enabled (fst (run_sched fuel s sched tr)) = [].
Proof.
  induction fuel as [|fuel IH]; intros s sched tr L; cbn [run_sched].
  - cbn [fst]. destruct (all_enabled s) as [|e en] eqn:EA; [reflexivity|]. exfalso.
    assert (In e (all_enabled s)) by (rewrite EA; apply in_eq). unfold all_enabled in H.
    destruct (enabled_from_spec _ _ _ H) as (t & N & E & _). apply enabled_work in E.
    pose proof (twork_nonneg s). unfold twork in *.
    assert (work t <= tsum work (c_thr s)).
    { clear -N. revert N. generalize (e - 0)%nat. induction (c_thr s) as [|x l IHl]; intros [|k] N; cbn [nth_error] in N; try discriminate.
      - inversion N; subst. rewrite tsum_cons. assert (0 <= tsum work l); [|lia].
        clear. induction l as [|y l IH]; [rewrite tsum_nil; lia|]. rewrite tsum_cons. pose proof (work_nonneg y). lia.
      - rewrite tsum_cons. specialize (IHl _ N). pose proof (work_nonneg x). lia. }
    lia.
  - destruct (all_enabled s) as [|e en] eqn:EA; [cbn [fst]; exact EA|].
    set (i := nth _ _ _).
    assert (IN : In i (all_enabled s)).
    { rewrite EA. unfold i. apply nth_In. unfold zlen. cbn [length].
      pose proof (Z.mod_pos_bound (match sched with [] => 0 | x :: _ => Z.abs x end) (Z.of_nat (S (length en))) ltac:(lia)). lia. }
    unfold all_enabled in IN. destruct (enabled_from_spec _ _ _ IN) as (t & N & E & _). rewrite Nat.sub_0_r in N.
    pose proof (tstep_work s i t N E) as D. destruct (tstep s i) as [s1 pt]. cbn [fst] in D. apply IH. lia.
Qed.

Lemma twork_init ops : twork (cinit ops) = 3 * Z.of_nat (sumlen (c_thr (cinit ops))).
Proof.
  unfold twork, cinit. cbn [c_thr]. induction ops as [|o l IH]; cbn [flat_map]; [reflexivity|].
  destruct (decode_thread_cases o) as [->|[r ->]]; cbn [app]; [exact IH|].
  rewrite tsum_cons. cbn [sumlen]. unfold work at 1. cbn [t_prog t_won]. unfold zlen. rewrite IH. lia.
Qed.

(* C19 liveness of the thread-safe storage: under every schedule all threads complete their programs; nobody waits
   for _busy (a loser falls back to the heap), nobody is left inside alloc *)
Lemma mt_all_done ops :
  Forall (fun t => t_prog t = [] /\ t_won t = None) (c_thr (fst (mt_final ops))).
Proof.
  unfold mt_final.
  pose proof (run_sched_done (3 * sumlen (c_thr (cinit ops)) + 2) (cinit ops) (flat_map decode_sched ops) []) as D.
  rewrite twork_init in D. specialize (D ltac:(lia)).
  apply enabled_from_nil in D. rewrite Forall_forall in *. intros t IN. specialize (D t IN).
  unfold t_enabled in D. destruct (t_won t); [discriminate|]. destruct (t_prog t); [auto|discriminate].
Qed.
