(* CoroVMOnce.v — "each once": every started coroutine has exactly ONE handle in the whole machine
   (running | inside start() on the C++ stack | waiting to be resumed directly inside install_queue_and_call | ready queue |
    awaiter chain of one future | co_awaiting a child), a coroutine that is not started has none.
   Consequences: never resumed while running, never resumed twice, never resumed after it finished or before it was started. *)
From Cocls Require Import Base CoroVMDefs CoroVMProofs.
Local Open Scope nat_scope.

(* ---------- counting ---------- *)
Definition cnt (c : nat) (l : list nat) : nat := count_occ Nat.eq_dec l c.
Arguments cnt : simpl never.

Lemma cnt_nil : forall c, cnt c [] = 0. Proof. reflexivity. Qed.
Lemma cnt_cons : forall c x l, cnt c (x :: l) = (if Nat.eqb x c then 1 else 0) + cnt c l.
Proof.
  intros. unfold cnt. cbn. destruct (Nat.eq_dec x c) as [E|E].
  - subst. rewrite Nat.eqb_refl. reflexivity.
  - destruct (Nat.eqb_neq x c) as (_&H). rewrite (H E). reflexivity.
Qed.
Lemma cnt_app : forall c a b, cnt c (a ++ b) = cnt c a + cnt c b.
Proof. intros. unfold cnt. apply count_occ_app. Qed.
Lemma cnt_in : forall c l, In c l <-> cnt c l > 0.
Proof. intros. unfold cnt. apply count_occ_In. Qed.
Lemma cnt_notin : forall c l, ~ In c l -> cnt c l = 0.
Proof. intros. unfold cnt. apply count_occ_not_In. auto. Qed.
Lemma cnt_removelast : forall c l, l <> [] -> cnt c (removelast l) + (if Nat.eqb (last l 0) c then 1 else 0) = cnt c l.
Proof.
  intros c l N. rewrite (app_removelast_last 0 N) at 3. rewrite cnt_app, cnt_cons, cnt_nil. lia.
Qed.
Lemma cnt_le1_nodup : forall l, (forall c, cnt c l <= 1) -> NoDup l.
Proof. intros. apply (NoDup_count_occ Nat.eq_dec). exact H. Qed.

(* ---------- where handles live ---------- *)
Fixpoint nests (k : list kframe) : list nat :=
  match k with [] => [] | KNest r :: t => r :: nests t | KInst _ :: t => nests t end.
Fixpoint insts (k : list kframe) : list nat :=
  match k with [] => [] | KInst hs :: t => hs ++ insts t | KNest _ :: t => insts t end.
Definition curlf (k : ctl) : list nat := match k with CRun c => [c] | _ => [] end.

(* handles held by the scheduler side *)
Definition hc (k : ctl) (stk : list kframe) (q : list nat) (c : nat) : nat :=
  cnt c (curlf k) + cnt c (nests stk) + cnt c (insts stk) + cnt c q.

(* is child x (started) bound to parent c ? *)
Definition pw (C : nat -> coro) (x c : nat) : nat :=
  match stat (C x), bound (C x) with Started, BParent p => if Nat.eqb p c then 1 else 0 | _, _ => 0 end.

(* handles held by awaiters: read off the waiting coroutine's own script head *)
Definition Wf (C : nat -> coro) (F : nat -> fut) (c : nat) : nat :=
  match script (C c) with
  | IGotF f :: _ => cnt c (chain_of (F f))
  | IGotC x :: _ => pw C x c
  | _ => 0
  end.

Definition st1f (C : nat -> coro) (c : nat) : nat := match stat (C c) with Started => 1 | _ => 0 end.

(* d c = handles of c "in flight" (taken out of a chain / just created, not yet placed) *)
Record onceP (d : nat -> nat) (k : ctl) (stk : list kframe) (q : list nat) (C : nat -> coro) (F : nat -> fut) : Prop := {
  o1 : forall c, hc k stk q c + Wf C F c + d c = st1f C c;
  o2 : forall f c, In c (chain_of (F f)) -> exists rest, script (C c) = IGotF f :: rest;
  o3 : forall x p, stat (C x) = Started -> bound (C x) = BParent p -> exists rest, script (C p) = IGotC x :: rest;
  o4 : forall c, stat (C c) = Unmade -> script (C c) = [] }.

Definition onceD (d : nat -> nat) (s : st) : Prop := onceP d (cur s) (stack s) (queue s) (cs s) (fs s).
Definition zero : nat -> nat := fun _ => 0.
Definition once (s : st) : Prop := onceD zero s.

Lemma once_init : forall p m, once (init p m).
Proof. intros. constructor; cbn; intros; auto; try contradiction; try discriminate. Qed.

(* ---------- facts read off the invariant ---------- *)
Section Facts.
Variables (d : nat -> nat) (k : ctl) (stk : list kframe) (q : list nat) (C : nat -> coro) (F : nat -> fut).
Hypothesis O : onceP d k stk q C F.

Lemma st1f_le : forall c, st1f C c <= 1.
Proof. intros. unfold st1f. destruct (stat (C c)); lia. Qed.

Lemma held_started : forall c, hc k stk q c > 0 -> stat (C c) = Started /\ Wf C F c = 0 /\ d c = 0 /\ hc k stk q c = 1.
Proof.
  intros c H. pose proof (o1 _ _ _ _ _ _ O c) as E. pose proof (st1f_le c) as L.
  assert (S1 : st1f C c = 1) by lia. unfold st1f in S1. destruct (stat (C c)) eqn:S; try discriminate. repeat split; lia.
Qed.

Lemma cur_started : forall c, k = CRun c -> stat (C c) = Started /\ Wf C F c = 0 /\ d c = 0.
Proof.
  intros c E. assert (H : hc k stk q c > 0).
  { unfold hc. rewrite E. cbn [curlf]. rewrite cnt_cons, Nat.eqb_refl. lia. }
  destruct (held_started c H) as (A&B&D&_). auto.
Qed.

Lemma not_started_zero : forall c, stat (C c) <> Started -> hc k stk q c = 0 /\ Wf C F c = 0 /\ d c = 0.
Proof.
  intros c N. pose proof (o1 _ _ _ _ _ _ O c) as E. unfold st1f in E. destruct (stat (C c)); try congruence; lia.
Qed.

Lemma chain_member : forall f c, In c (chain_of (F f)) ->
  stat (C c) = Started /\ hc k stk q c = 0 /\ d c = 0 /\ cnt c (chain_of (F f)) = 1 /\ exists rest, script (C c) = IGotF f :: rest.
Proof.
  intros f c I. destruct (o2 _ _ _ _ _ _ O f c I) as (rest&S).
  pose proof (o1 _ _ _ _ _ _ O c) as E. unfold Wf in E. rewrite S in E.
  apply cnt_in in I. pose proof (st1f_le c) as L.
  assert (S1 : st1f C c = 1) by lia. unfold st1f in S1. destruct (stat (C c)) eqn:SS; try discriminate.
  repeat split; try lia. eauto.
Qed.

Lemma parent_waits : forall x p, stat (C x) = Started -> bound (C x) = BParent p ->
  stat (C p) = Started /\ hc k stk q p = 0 /\ d p = 0 /\ exists rest, script (C p) = IGotC x :: rest.
Proof.
  intros x p S B. destruct (o3 _ _ _ _ _ _ O x p S B) as (rest&SP).
  pose proof (o1 _ _ _ _ _ _ O p) as E. unfold Wf in E. rewrite SP in E. unfold pw in E. rewrite S, B, Nat.eqb_refl in E.
  pose proof (st1f_le p) as L. assert (S1 : st1f C p = 1) by lia. unfold st1f in S1.
  destruct (stat (C p)) eqn:SS; try discriminate. repeat split; try lia. eauto.
Qed.
End Facts.

(* ---------- updating one coroutine record ---------- *)
Lemma pw_upd : forall C r new x c,
  pw (upd C r new) x c =
  if Nat.eqb x r then match stat new, bound new with Started, BParent p => if Nat.eqb p c then 1 else 0 | _, _ => 0 end
  else pw C x c.
Proof. intros. unfold pw, upd. destruct (Nat.eqb x r); reflexivity. Qed.

Lemma Wf_upd_other : forall C F r new c, c <> r ->
  (forall x, pw (upd C r new) x c = pw C x c) -> Wf (upd C r new) F c = Wf C F c.
Proof.
  intros C F r new c N P. unfold Wf. rewrite (upd_other _ C r new c N).
  destruct (script (C c)) as [|i t]; auto. destruct i; auto.
Qed.

Lemma st1f_upd : forall C r new c, st1f (upd C r new) c = if Nat.eqb c r then (match stat new with Started => 1 | _ => 0 end) else st1f C c.
Proof. intros. unfold st1f, upd. destruct (Nat.eqb c r); reflexivity. Qed.

Definition reScript (k : coro) (l : list instr) : coro := mkCoro (stat k) l (bound k) (result k).

Lemma pw_reScript : forall C r l x c, pw (upd C r (reScript (C r) l)) x c = pw C x c.
Proof.
  intros. rewrite pw_upd. destruct (Nat.eqb x r) eqn:E; auto. apply Nat.eqb_eq in E. subst. reflexivity.
Qed.

(* the script of a coroutine that currently holds a scheduler-side handle (running, queued, ...) may change freely:
   it is in no chain and nobody is bound to it *)
Lemma once_set_script_held : forall d k stk q C F r l,
  onceP d k stk q C F -> hc k stk q r > 0 -> onceP d k stk q (upd C r (reScript (C r) l)) F.
Proof.
  intros d k stk q C F r l O H.
  destruct (held_started _ _ _ _ _ _ O r H) as (SR&WR&DR&HR).
  assert (NC : forall f, ~ In r (chain_of (F f))).
  { intros f I. destruct (chain_member _ _ _ _ _ _ O f r I) as (_&Z&_). lia. }
  assert (NP : forall x, stat (C x) = Started -> bound (C x) = BParent r -> False).
  { intros x S B. destruct (parent_waits _ _ _ _ _ _ O x r S B) as (_&Z&_). lia. }
  constructor.
  - intros c. pose proof (o1 _ _ _ _ _ _ O c) as E. rewrite st1f_upd. cbn [stat reScript].
    destruct (Nat.eqb c r) eqn:CR.
    + apply Nat.eqb_eq in CR. subst c. rewrite SR.
      assert (W0 : Wf (upd C r (reScript (C r) l)) F r = 0).
      { unfold Wf. rewrite upd_same. cbn [script reScript]. destruct l as [|i t]; auto.
        destruct i; auto; [apply cnt_notin; apply NC|].
        rewrite pw_reScript. unfold pw. destruct (stat (C c)) eqn:S; auto. destruct (bound (C c)) eqn:B; auto.
        destruct (Nat.eqb p r) eqn:PR; auto. apply Nat.eqb_eq in PR. subst p. exfalso. eapply NP; eauto. }
      rewrite W0. unfold st1f in E. rewrite SR in E. lia.
    + apply Nat.eqb_neq in CR. rewrite Wf_upd_other; auto. intros x. apply pw_reScript.
  - intros f c I. destruct (o2 _ _ _ _ _ _ O f c I) as (rest&S).
    assert (c <> r) by (intros ->; apply (NC f I)). rewrite upd_other; eauto.
  - intros x p S B.
    assert (SX : stat (C x) = Started /\ bound (C x) = BParent p).
    { unfold upd in S, B. destruct (Nat.eqb x r) eqn:XR; cbn in S, B; auto. apply Nat.eqb_eq in XR. subst x. auto. }
    destruct SX as (S'&B'). assert (p <> r) by (intros ->; eapply NP; eauto).
    rewrite upd_other; auto. eapply o3; eauto.
  - intros c S. unfold upd in *. destruct (Nat.eqb c r) eqn:CR.
    + apply Nat.eqb_eq in CR. subst. cbn in S. congruence.
    + eapply o4; eauto.
Qed.

(* ---------- scheduler-side moves: only the balance matters ---------- *)
Lemma once_sched : forall d d' k k' stk stk' q q' C F,
  onceP d k stk q C F -> (forall c, hc k' stk' q' c + d' c = hc k stk q c + d c) -> onceP d' k' stk' q' C F.
Proof.
  intros until F. intros O E. constructor; [|eapply o2; eauto|eapply o3; eauto|eapply o4; eauto].
  intros c. pose proof (o1 _ _ _ _ _ _ O c). specialize (E c). lia.
Qed.

Lemma Wf_fs_same : forall C F F' c, (forall f, chain_of (F' f) = chain_of (F f)) -> Wf C F' c = Wf C F c.
Proof. intros. unfold Wf. destruct (script (C c)) as [|i t]; auto. destruct i; auto. rewrite H. reflexivity. Qed.

Lemma once_fs_same : forall d k stk q C F F',
  onceP d k stk q C F -> (forall f, chain_of (F' f) = chain_of (F f)) -> onceP d k stk q C F'.
Proof.
  intros until F'. intros O E. constructor; [| |eapply o3; eauto|eapply o4; eauto].
  - intros c. rewrite (Wf_fs_same C F F' c E). eapply o1; eauto.
  - intros f c I. rewrite E in I. eapply o2; eauto.
Qed.

(* ---------- a coroutine that is not started changes into another not-started one (make, ~async) ---------- *)
Lemma once_idle_change : forall d k stk q C F c new,
  onceP d k stk q C F -> stat (C c) <> Started -> stat new <> Started -> (stat new = Unmade -> script new = []) ->
  onceP d k stk q (upd C c new) F.
Proof.
  intros until new. intros O N N' U.
  destruct (not_started_zero _ _ _ _ _ _ O c N) as (H0&W0&D0).
  assert (NC : forall f, ~ In c (chain_of (F f))).
  { intros f I. destruct (chain_member _ _ _ _ _ _ O f c I) as (S&_). congruence. }
  assert (NP : forall x, stat (C x) = Started -> bound (C x) = BParent c -> False).
  { intros x S B. destruct (parent_waits _ _ _ _ _ _ O x c S B) as (S'&_). congruence. }
  assert (PW : forall x y, pw (upd C c new) x y = pw C x y).
  { intros. rewrite pw_upd. destruct (Nat.eqb x c) eqn:XC.
    - apply Nat.eqb_eq in XC. subst x. unfold pw. destruct (stat new); try congruence; destruct (stat (C c)); try congruence; auto.
    - reflexivity. }
  constructor.
  - intros y. pose proof (o1 _ _ _ _ _ _ O y) as E. rewrite st1f_upd. destruct (Nat.eqb y c) eqn:YC.
    + apply Nat.eqb_eq in YC. subst y.
      assert (W1 : Wf (upd C c new) F c = 0).
      { unfold Wf. rewrite upd_same. destruct (script new) as [|i t]; auto.
        destruct i; auto; [apply cnt_notin; apply NC|].
        rewrite PW. unfold pw. destruct (stat (C c0)) eqn:S; auto. destruct (bound (C c0)) eqn:B; auto.
        destruct (Nat.eqb p c) eqn:PC; auto. apply Nat.eqb_eq in PC. subst p. exfalso. eapply NP; eauto. }
      rewrite W1. destruct (stat new); try congruence; lia.
    + apply Nat.eqb_neq in YC. rewrite Wf_upd_other; auto.
  - intros f y I. assert (y <> c) by (intros ->; apply (NC f I)). rewrite upd_other; auto. eapply o2; eauto.
  - intros x p S B.
    assert (XC : x <> c). { intros ->. rewrite upd_same in S. congruence. }
    rewrite upd_other in S, B; auto. assert (p <> c) by (intros ->; eapply NP; eauto).
    rewrite upd_other; auto. eapply o3; eauto.
  - intros y S. unfold upd in *. destruct (Nat.eqb y c); auto. eapply o4; eauto.
Qed.

(* ---------- Created -> Started with a non-parent binding: one handle of c is now in flight ---------- *)
Definition bump (d : nat -> nat) (c : nat) : nat -> nat := fun x => d x + (if Nat.eqb c x then 1 else 0).

Lemma once_start : forall d k stk q C F c b,
  onceP d k stk q C F -> stat (C c) = Created -> (forall p, b <> BParent p) ->
  onceP (bump d c) k stk q (upd C c (mkCoro Started (script (C c)) b (result (C c)))) F.
Proof.
  intros until b. intros O SC NB.
  assert (N : stat (C c) <> Started) by congruence.
  destruct (not_started_zero _ _ _ _ _ _ O c N) as (H0&W0&D0).
  assert (NC : forall f, ~ In c (chain_of (F f))).
  { intros f I. destruct (chain_member _ _ _ _ _ _ O f c I) as (S&_). congruence. }
  assert (NP : forall x, stat (C x) = Started -> bound (C x) = BParent c -> False).
  { intros x S B. destruct (parent_waits _ _ _ _ _ _ O x c S B) as (S'&_). congruence. }
  set (new := mkCoro Started (script (C c)) b (result (C c))).
  assert (PW : forall x y, pw (upd C c new) x y = pw C x y).
  { intros. rewrite pw_upd. destruct (Nat.eqb x c) eqn:XC; auto.
    apply Nat.eqb_eq in XC. subst x. unfold pw. rewrite SC. cbn. destruct b; auto. exfalso. eapply NB; eauto. }
  constructor.
  - intros y. pose proof (o1 _ _ _ _ _ _ O y) as E. rewrite st1f_upd. unfold bump. destruct (Nat.eqb y c) eqn:YC.
    + apply Nat.eqb_eq in YC. subst y. rewrite Nat.eqb_refl. cbn [stat new].
      assert (W1 : Wf (upd C c new) F c = 0).
      { unfold Wf. rewrite upd_same. cbn [script new]. destruct (script (C c)) as [|i t]; auto.
        destruct i; auto; [apply cnt_notin; apply NC|].
        rewrite PW. unfold pw. destruct (stat (C c0)) eqn:S; auto. destruct (bound (C c0)) eqn:B; auto.
        destruct (Nat.eqb p c) eqn:PC; auto. apply Nat.eqb_eq in PC. subst p. exfalso. eapply NP; eauto. }
      rewrite W1. lia.
    + rewrite Nat.eqb_sym, YC. apply Nat.eqb_neq in YC. rewrite Wf_upd_other; auto. lia.
  - intros f y I. assert (y <> c) by (intros ->; apply (NC f I)). rewrite upd_other; auto. eapply o2; eauto.
  - intros x p S B.
    assert (XC : x <> c). { intros ->. rewrite upd_same in B. cbn in B. eapply NB; eauto. }
    rewrite upd_other in S, B; auto. assert (p <> c) by (intros ->; eapply NP; eauto).
    rewrite upd_other; auto. eapply o3; eauto.
  - intros y S. unfold upd in *. destruct (Nat.eqb y c); [cbn in S; discriminate|]. eapply o4; eauto.
Qed.

(* ---------- a future becomes ready: the handles of its chain are in flight ---------- *)
Lemma once_clear : forall d k stk q C F f r cl,
  onceP d k stk q C F ->
  onceP (fun x => d x + cnt x (chain_of (F f))) k stk q C (upd F f (mkFut (FReady r) cl)).
Proof.
  intros until cl. intros O. set (F' := upd F f (mkFut (FReady r) cl)).
  assert (CH : forall g, chain_of (F' g) = if Nat.eqb g f then [] else chain_of (F g)).
  { intros g. unfold F', upd. destruct (Nat.eqb g f); reflexivity. }
  constructor; [| |eapply o3; eauto|eapply o4; eauto].
  - intros c. pose proof (o1 _ _ _ _ _ _ O c) as E.
    assert (WW : Wf C F' c + cnt c (chain_of (F f)) = Wf C F c).
    { unfold Wf. destruct (script (C c)) as [|i t] eqn:S.
      - cbn. destruct (in_dec Nat.eq_dec c (chain_of (F f))) as [I|I]; [|apply cnt_notin; auto].
        destruct (o2 _ _ _ _ _ _ O f c I) as (?&S'). congruence.
      - destruct i; try (cbn; destruct (in_dec Nat.eq_dec c (chain_of (F f))) as [I|I]; [|apply cnt_notin; auto];
                         destruct (o2 _ _ _ _ _ _ O f c I) as (?&S'); congruence).
        + rewrite CH. destruct (Nat.eqb f0 f) eqn:FF.
          * apply Nat.eqb_eq in FF. subst f0. rewrite cnt_nil. reflexivity.
          * destruct (in_dec Nat.eq_dec c (chain_of (F f))) as [I|I]; [|rewrite (cnt_notin _ _ I); lia].
            destruct (o2 _ _ _ _ _ _ O f c I) as (?&S'). rewrite S in S'. inversion S'. subst. rewrite Nat.eqb_refl in FF. discriminate.
        + destruct (in_dec Nat.eq_dec c (chain_of (F f))) as [I|I]; [|rewrite (cnt_notin _ _ I); lia].
          destruct (o2 _ _ _ _ _ _ O f c I) as (?&S'). congruence. }
    lia.
  - intros g c I. rewrite CH in I. destruct (Nat.eqb g f); [destruct I|]. eapply o2; eauto.
Qed.

Lemma hc_run : forall r stk q c, hc (CRun r) stk q c = (if Nat.eqb r c then 1 else 0) + cnt c (nests stk) + cnt c (insts stk) + cnt c q.
Proof. intros. unfold hc. cbn [curlf]. rewrite cnt_cons, cnt_nil. lia. Qed.
Lemma hc_norun : forall k stk q c, curlf k = [] -> hc k stk q c = cnt c (nests stk) + cnt c (insts stk) + cnt c q.
Proof. intros. unfold hc. rewrite H, cnt_nil. lia. Qed.

(* ---------- co_await future (pending): the running coroutine moves into the chain ---------- *)
Lemma once_subscribe : forall d stk q C F r f rest cl k',
  onceP d (CRun r) stk q C F -> script (C r) = IGotF f :: rest -> curlf k' = [] ->
  onceP d k' stk q C (upd F f (mkFut (FPend (r :: chain_of (F f))) cl)).
Proof.
  intros until k'. intros O S K. set (F' := upd F f (mkFut (FPend (r :: chain_of (F f))) cl)).
  assert (HR : hc (CRun r) stk q r > 0) by (rewrite hc_run, Nat.eqb_refl; lia).
  destruct (held_started _ _ _ _ _ _ O r HR) as (SR&WR&DR&H1).
  assert (NC : forall g, ~ In r (chain_of (F g))).
  { intros g I. destruct (chain_member _ _ _ _ _ _ O g r I) as (_&Z&_). lia. }
  assert (CH : forall g, chain_of (F' g) = if Nat.eqb g f then r :: chain_of (F f) else chain_of (F g)).
  { intros g. unfold F', upd. destruct (Nat.eqb g f); reflexivity. }
  constructor; [| |eapply o3; eauto|eapply o4; eauto].
  - intros c. pose proof (o1 _ _ _ _ _ _ O c) as E. rewrite hc_run in E. rewrite (hc_norun k' stk q c K).
    destruct (Nat.eqb r c) eqn:RC.
    + apply Nat.eqb_eq in RC. subst c. unfold Wf in *. rewrite S in *. rewrite CH, Nat.eqb_refl, cnt_cons, Nat.eqb_refl.
      rewrite (cnt_notin _ _ (NC f)) in *. lia.
    + assert (WW : Wf C F' c = Wf C F c).
      { unfold Wf. destruct (script (C c)) as [|i t]; auto. destruct i; auto. rewrite CH.
        destruct (Nat.eqb f0 f) eqn:FF; auto. apply Nat.eqb_eq in FF. subst f0. rewrite cnt_cons, RC. reflexivity. }
      rewrite WW. lia.
  - intros g c I. rewrite CH in I. destruct (Nat.eqb g f) eqn:GF.
    + apply Nat.eqb_eq in GF. subst g. destruct I as [<-|I]; eauto. eapply o2; eauto.
    + eapply o2; eauto.
Qed.

(* ---------- the body of the running coroutine is over ---------- *)
Lemma once_done : forall d stk q C F r res k',
  onceP d (CRun r) stk q C F -> (forall p, bound (C r) <> BParent p) -> curlf k' = [] ->
  onceP d k' stk q (upd C r (mkCoro Done [] (bound (C r)) res)) F.
Proof.
  intros until k'. intros O NB K. set (new := mkCoro Done [] (bound (C r)) res).
  assert (HR : hc (CRun r) stk q r > 0) by (rewrite hc_run, Nat.eqb_refl; lia).
  destruct (held_started _ _ _ _ _ _ O r HR) as (SR&WR&DR&H1).
  assert (NC : forall g, ~ In r (chain_of (F g))).
  { intros g I. destruct (chain_member _ _ _ _ _ _ O g r I) as (_&Z&_). lia. }
  assert (NP : forall x, stat (C x) = Started -> bound (C x) = BParent r -> False).
  { intros x S B. destruct (parent_waits _ _ _ _ _ _ O x r S B) as (_&Z&_). lia. }
  assert (PW : forall x y, pw (upd C r new) x y = pw C x y).
  { intros. rewrite pw_upd. destruct (Nat.eqb x r) eqn:XR; auto. apply Nat.eqb_eq in XR. subst x.
    unfold pw. rewrite SR. cbn. destruct (bound (C r)) eqn:B; auto. exfalso. eapply NB; eauto. }
  constructor.
  - intros c. pose proof (o1 _ _ _ _ _ _ O c) as E. rewrite hc_run in E. rewrite (hc_norun k' stk q c K), st1f_upd.
    rewrite Nat.eqb_sym in E. destruct (Nat.eqb c r) eqn:CR.
    + apply Nat.eqb_eq in CR. subst c. unfold Wf at 1. rewrite upd_same. cbn [script new stat].
      unfold st1f in E. rewrite SR in E. lia.
    + apply Nat.eqb_neq in CR. rewrite Wf_upd_other; auto; try lia.
  - intros g c I. assert (c <> r) by (intros ->; apply (NC g I)). rewrite upd_other; auto. eapply o2; eauto.
  - intros x p S B.
    assert (XR : x <> r). { intros ->. rewrite upd_same in S. discriminate. }
    rewrite upd_other in S, B; auto. assert (p <> r) by (intros ->; eapply NP; eauto).
    rewrite upd_other; auto. eapply o3; eauto.
  - intros c S. unfold upd in *. destruct (Nat.eqb c r); [discriminate|]. eapply o4; eauto.
Qed.

Lemma once_done_parent : forall d stk q C F r res p,
  onceP d (CRun r) stk q C F -> bound (C r) = BParent p ->
  onceP d (CRun p) stk q (upd C r (mkCoro Done [] (bound (C r)) res)) F.
Proof.
  intros until p. intros O B. set (new := mkCoro Done [] (bound (C r)) res).
  assert (HR : hc (CRun r) stk q r > 0) by (rewrite hc_run, Nat.eqb_refl; lia).
  destruct (held_started _ _ _ _ _ _ O r HR) as (SR&WR&DR&H1).
  destruct (parent_waits _ _ _ _ _ _ O r p SR B) as (SP&HP&DP&rest&ScP).
  assert (PR : p <> r) by (intros ->; lia).
  assert (NC : forall g, ~ In r (chain_of (F g))).
  { intros g I. destruct (chain_member _ _ _ _ _ _ O g r I) as (_&Z&_). lia. }
  assert (NP : forall x, stat (C x) = Started -> bound (C x) = BParent r -> False).
  { intros x S B'. destruct (parent_waits _ _ _ _ _ _ O x r S B') as (_&Z&_). lia. }
  assert (PW : forall x y, pw (upd C r new) x y = if Nat.eqb x r then 0 else pw C x y).
  { intros. rewrite pw_upd. destruct (Nat.eqb x r); auto. }
  constructor.
  - intros c. pose proof (o1 _ _ _ _ _ _ O c) as E. rewrite hc_run in *. rewrite st1f_upd.
    rewrite (Nat.eqb_sym r c) in E. destruct (Nat.eqb c r) eqn:CR.
    + apply Nat.eqb_eq in CR. subst c. unfold Wf at 1. rewrite upd_same. cbn [script new stat].
      destruct (Nat.eqb_neq p r) as (_&X). rewrite (X PR). unfold st1f in E. rewrite SR in E. lia.
    + apply Nat.eqb_neq in CR.
      assert (WW : Wf (upd C r new) F c + (if Nat.eqb p c then 1 else 0) = Wf C F c).
      { unfold Wf. rewrite (upd_other _ C r new c CR). destruct (Nat.eqb p c) eqn:PC.
        - apply Nat.eqb_eq in PC. subst c. rewrite ScP, PW, Nat.eqb_refl. unfold pw. rewrite SR, B, Nat.eqb_refl. reflexivity.
        - destruct (script (C c)) as [|i t]; auto. destruct i; auto. rewrite PW.
          destruct (Nat.eqb c0 r) eqn:XR; auto. apply Nat.eqb_eq in XR. subst c0. unfold pw. rewrite SR, B, PC. reflexivity. }
      lia.
  - intros g c I. assert (c <> r) by (intros ->; apply (NC g I)). rewrite upd_other; auto. eapply o2; eauto.
  - intros x p' S B'.
    assert (XR : x <> r). { intros ->. rewrite upd_same in S. discriminate. }
    rewrite upd_other in S, B'; auto. assert (p' <> r) by (intros ->; eapply NP; eauto).
    rewrite upd_other; auto. eapply o3; eauto.
  - intros c S. unfold upd in *. destruct (Nat.eqb c r); [discriminate|]. eapply o4; eauto.
Qed.

(* ---------- co_await child: the parent waits, the child runs ---------- *)
Lemma once_coawait : forall d stk q C F r c l,
  onceP d (CRun r) stk q C F -> stat (C c) = Created ->
  let C1 := upd C c (mkCoro Started (script (C c)) (BParent r) (result (C c))) in
  onceP d (CRun c) stk q (upd C1 r (reScript (C1 r) (IGotC c :: l))) F.
Proof.
  intros until l. intros O SC C1. set (C2 := upd C1 r (reScript (C1 r) (IGotC c :: l))).
  assert (HR : hc (CRun r) stk q r > 0) by (rewrite hc_run, Nat.eqb_refl; lia).
  destruct (held_started _ _ _ _ _ _ O r HR) as (SR&WR&DR&H1).
  assert (CR : c <> r) by (intros ->; congruence).
  assert (N : stat (C c) <> Started) by congruence.
  destruct (not_started_zero _ _ _ _ _ _ O c N) as (H0&W0&D0).
  assert (NCr : forall g, ~ In r (chain_of (F g))).
  { intros g I. destruct (chain_member _ _ _ _ _ _ O g r I) as (_&Z&_). lia. }
  assert (NCc : forall g, ~ In c (chain_of (F g))).
  { intros g I. destruct (chain_member _ _ _ _ _ _ O g c I) as (S&_). congruence. }
  assert (NPr : forall x, stat (C x) = Started -> bound (C x) = BParent r -> False).
  { intros x S B. destruct (parent_waits _ _ _ _ _ _ O x r S B) as (_&Z&_). lia. }
  assert (NPc : forall x, stat (C x) = Started -> bound (C x) = BParent c -> False).
  { intros x S B. destruct (parent_waits _ _ _ _ _ _ O x c S B) as (S'&_). congruence. }
  assert (C2c : C2 c = mkCoro Started (script (C c)) (BParent r) (result (C c))).
  { unfold C2. rewrite upd_other; auto. unfold C1. apply upd_same. }
  assert (C2r : C2 r = reScript (C r) (IGotC c :: l)).
  { unfold C2. rewrite upd_same. unfold C1. rewrite upd_other; auto. }
  assert (C2o : forall y, y <> c -> y <> r -> C2 y = C y).
  { intros. unfold C2, C1. rewrite !upd_other; auto. }
  assert (PW : forall x y, pw C2 x y = if Nat.eqb x c then (if Nat.eqb r y then 1 else 0) else pw C x y).
  { intros. unfold pw. destruct (Nat.eqb x c) eqn:XC.
    - apply Nat.eqb_eq in XC. subst x. rewrite C2c. reflexivity.
    - apply Nat.eqb_neq in XC. destruct (Nat.eq_dec x r) as [->|XR]; [rewrite C2r; reflexivity|rewrite C2o; auto]. }
  constructor.
  - intros y. pose proof (o1 _ _ _ _ _ _ O y) as E. rewrite hc_run in *. unfold st1f in *.
    destruct (Nat.eq_dec y c) as [->|YC]; [|destruct (Nat.eq_dec y r) as [->|YR]].
    + rewrite C2c. cbn [stat]. rewrite Nat.eqb_refl. destruct (Nat.eqb_neq r c) as (_&X). rewrite X in E by auto.
      assert (W1 : Wf C2 F c = 0).
      { unfold Wf. rewrite C2c. cbn [script]. destruct (script (C c)) as [|i t]; auto.
        destruct i; auto; [apply cnt_notin; apply NCc|].
        rewrite PW. destruct (Nat.eqb c0 c); [destruct (Nat.eqb_neq r c) as (_&X'); rewrite X'; auto|].
        unfold pw. destruct (stat (C c0)) eqn:S; auto. destruct (bound (C c0)) eqn:B; auto.
        destruct (Nat.eqb p c) eqn:PC; auto. apply Nat.eqb_eq in PC. subst p. exfalso. eapply NPc; eauto. }
      rewrite W1. rewrite SC in E. lia.
    + rewrite C2r. cbn [stat reScript]. rewrite Nat.eqb_refl in E. destruct (Nat.eqb_neq c r) as (_&X). rewrite X by auto.
      assert (W1 : Wf C2 F r = 1).
      { unfold Wf. rewrite C2r. cbn [script reScript]. rewrite PW, !Nat.eqb_refl. reflexivity. }
      rewrite W1. rewrite SR in *. lia.
    + rewrite C2o; auto. assert (CY : c <> y) by congruence. assert (RY : r <> y) by congruence.
      destruct (Nat.eqb_neq c y) as (_&X). rewrite (X CY).
      destruct (Nat.eqb_neq r y) as (_&X''). pose proof (X'' RY) as X'. rewrite X' in E.
      assert (WW : Wf C2 F y = Wf C F y).
      { unfold Wf. rewrite C2o; auto. destruct (script (C y)) as [|i t]; auto. destruct i; auto.
        rewrite PW. destruct (Nat.eqb c0 c) eqn:XC; auto. rewrite X'. apply Nat.eqb_eq in XC. subst c0.
        unfold pw. rewrite SC. reflexivity. }
      rewrite WW. lia.
  - intros g y I. assert (y <> c) by (intros ->; apply (NCc g I)). assert (y <> r) by (intros ->; apply (NCr g I)).
    rewrite C2o; auto. eapply o2; eauto.
  - intros x p S B. destruct (Nat.eq_dec x c) as [->|XC].
    + rewrite C2c in B. cbn in B. inversion B. subst p. rewrite C2r. cbn. eauto.
    + assert (SB : stat (C x) = Started /\ bound (C x) = BParent p).
      { destruct (Nat.eq_dec x r) as [->|XR]; [rewrite C2r in S, B; cbn in S, B; auto|rewrite C2o in S, B; auto]. }
      destruct SB as (S'&B'). assert (p <> r) by (intros ->; eapply NPr; eauto). assert (p <> c) by (intros ->; eapply NPc; eauto).
      rewrite C2o; auto. eapply o3; eauto.
  - intros y S. destruct (Nat.eq_dec y c) as [->|YC]; [rewrite C2c in S; discriminate|].
    destruct (Nat.eq_dec y r) as [->|YR]; [rewrite C2r in S; cbn in S; congruence|]. rewrite (C2o y YC YR) in S. rewrite (C2o y YC YR). eapply o4; eauto.
Qed.

(* ====================================================================================================
   state level
   ==================================================================================================== *)
Definition flight (hs : list nat) : nat -> nat := fun x => cnt x hs.

Lemma onceD_ext : forall d d' s, onceD d s -> (forall x, d' x = d x) -> onceD d' s.
Proof. intros d d' s O E. eapply once_sched; [exact O|]. intros c. rewrite E. reflexivity. Qed.

Lemma onceD_ev : forall d s e, onceD d s -> onceD d (ev s e). Proof. auto. Qed.
Lemma onceD_set_mainp : forall d s x, onceD d s -> onceD d (set_mainp s x). Proof. auto. Qed.
Lemma onceD_set_made : forall d s x, onceD d s -> onceD d (set_made s x). Proof. auto. Qed.
Lemma onceD_set_active : forall d s x, onceD d s -> onceD d (set_active s x). Proof. auto. Qed.
Lemma onceD_bad : forall d s me, onceD d s -> onceD d (bad s me). Proof. auto. Qed.
#[local] Hint Resolve onceD_ev onceD_set_mainp onceD_set_made onceD_set_active onceD_bad : core.

Lemma onceD_enq_all : forall d s l b w,
  onceD (fun x => d x + cnt x l) s -> onceD d (enq_all s l b w).
Proof.
  intros. unfold onceD in *. enq_all_rw. eapply once_sched; eauto.
  intros c. unfold hc. rewrite cnt_app. lia.
Qed.

Lemma onceD_make : forall d s c, onceD d s -> stat (cs s c) = Unmade -> onceD d (make s c).
Proof.
  intros. unfold make. apply onceD_ev, onceD_set_made. unfold onceD. cbn.
  apply once_idle_change; auto; cbn; congruence.
Qed.

Lemma onceD_ensure_made : forall d s c, onceD d s -> onceD d (ensure_made s c).
Proof.
  intros. unfold ensure_made. destruct (stat (cs s c)) eqn:S; auto. destruct (Nat.eqb c 0); auto using onceD_make.
Qed.

Lemma is_created_stat : forall s c, is_created s c = true -> stat (cs s c) = Created.
Proof. intros s c H. unfold is_created in H. destruct (stat (cs s c)); try discriminate; reflexivity. Qed.

Lemma onceD_set_started : forall d s c b, onceD d s -> is_created s c = true -> (forall p, b <> BParent p) ->
  onceD (bump d c) (set_started s c b).
Proof.
  intros. unfold set_started. apply onceD_ev. unfold onceD. cbn. apply once_start; auto using is_created_stat.
Qed.

Definition ctx_ok (s : st) (me : nat) : Prop :=
  (cur s = CMain /\ me = 0 /\ active s = false) \/ (cur s = CRun me /\ active s = true).

Lemma onceD_sp_dispose : forall s me hs aw,
  onceD (flight hs) s -> ctx_ok s me -> (cur s = CMain -> aw = false) -> once (sp_dispose s me hs aw).
Proof.
  intros s me hs aw O X M. unfold sp_dispose. destruct hs as [|h t] eqn:HS.
  - eapply onceD_ext; eauto.
  - rewrite <- HS in *. assert (NE : hs <> []) by (rewrite HS; discriminate). clear HS.
    destruct X as [(C&->&A)|(C&A)].
    + rewrite (M C), A. unfold once, onceD in *. cbn. rewrite C in *. eapply once_sched; eauto.
      intros c. unfold hc, flight, zero. cbn. rewrite cnt_app. lia.
    + destruct aw.
      * unfold once, onceD, run_c, enq. cbn. enq_all_rw. cbn. unfold onceD in O. rewrite C in O. eapply once_sched; eauto.
        intros c. rewrite !hc_run. unfold flight, zero. rewrite !cnt_app, cnt_cons, cnt_nil.
        pose proof (cnt_removelast c hs NE). lia.
      * rewrite A. apply onceD_enq_all. eapply onceD_ext; eauto.
Qed.

Lemma once_finish : forall s c r, once s -> cur s = CRun c -> once (finish s c r).
Proof.
  intros s c r O C. unfold finish. destruct (bound (cs s c)) as [|f|p] eqn:B; cbn [fst snd].
  - unfold once, onceD in *. cbn. rewrite C in O. rewrite <- B. apply once_done; auto. rewrite B. discriminate.
  - set (ch := chain_of (fs (ev s (EFin c r)) f)). change (fs (ev s (EFin c r))) with (fs s) in *.
    assert (O2 : onceP (flight ch) CRet (stack s) (queue s)
                       (upd (cs s) c (mkCoro Done [] (bound (cs s c)) r)) (upd (fs s) f (mkFut (FReady r) (claimed (fs s f))))).
    { apply once_done; auto; [|rewrite B; discriminate]. unfold once, onceD in O. rewrite C in O.
      eapply once_sched; [apply (once_clear _ _ _ _ _ _ f r (claimed (fs s f)) O)|]. intros; reflexivity. }
    rewrite B in O2. destruct ch as [|h t] eqn:CH.
    + unfold once, onceD. cbn. eapply once_sched; eauto.
    + rewrite <- CH in *. assert (NE : ch <> []) by (rewrite CH; discriminate).
      unfold once, onceD, run_c. cbn. enq_all_rw. cbn. eapply once_sched; eauto.
      intros x. rewrite hc_run, (hc_norun CRet) by reflexivity. unfold flight, zero. rewrite cnt_app.
      pose proof (cnt_removelast x ch NE). lia.
  - unfold once, onceD, run_c in *. cbn. rewrite C in O. rewrite <- B. apply once_done_parent; auto.
Qed.

Lemma ctx_ev : forall s me e, ctx_ok s me -> ctx_ok (ev s e) me. Proof. auto. Qed.
Lemma ctx_ensure : forall s me c, ctx_ok s me -> ctx_ok (ensure_made s c) me.
Proof. intros. unfold ensure_made. repeat break_match; auto. Qed.
Lemma cur_ensure : forall s c, cur (ensure_made s c) = cur s.
Proof. intros. unfold ensure_made. repeat break_match; auto. Qed.
Lemma ctx_main_aw : forall s me aw, ctx_ok s me -> (aw && Nat.eqb me 0) = false -> cur s = CMain -> aw = false.
Proof. intros s me aw [(C&->&A)|(C&A)] H E; [destruct aw; auto|congruence]. Qed.
Lemma ctx_run : forall s me, ctx_ok s me -> Nat.eqb me 0 = false -> cur s = CRun me /\ active s = true.
Proof. intros s me [(C&->&A)|(C&A)] H; [discriminate|auto]. Qed.

Lemma flight1 : forall c x, bump zero c x = flight [c] x.
Proof. intros. unfold bump, zero, flight. rewrite cnt_cons, cnt_nil. lia. Qed.

Lemma once_exec : forall s me i, once s -> ctx_ok s me -> once (exec s me i).
Proof.
  intros s me i O X. destruct i; cbn [exec].
  - (* IEmit *) apply onceD_ev; auto.
  - (* IPause *)
    destruct (Nat.eqb me 0) eqn:M0; [apply onceD_bad; auto|]. destruct (ctx_run s me X M0) as (C&A).
    cbn. destruct (queue s ++ [me]) as [|x q] eqn:Q; [destruct (queue s); discriminate|].
    unfold once, onceD, run_c in *. cbn. rewrite C in O. eapply once_sched; eauto.
    intros c. rewrite !hc_run. pose proof (f_equal (cnt c) Q) as E. rewrite cnt_app, !cnt_cons, cnt_nil in E. unfold zero. lia.
  - (* IMake *)
    destruct (stat (cs s c)) eqn:S; try (apply onceD_bad; auto).
    destruct (Nat.eqb c 0); [apply onceD_bad; auto|apply onceD_make; auto].
  - (* IDrop *)
    destruct (is_created s c) eqn:K; [|apply onceD_bad; auto].
    apply onceD_ev. unfold once, onceD in *. cbn. apply once_idle_change; auto; cbn; try congruence.
    rewrite (is_created_stat s c K). discriminate.
  - (* IDetach *)
    set (s1 := ensure_made s c). assert (O1 : once s1) by (apply onceD_ensure_made; auto).
    assert (X1 : ctx_ok s1 me) by (apply ctx_ensure; auto).
    destruct (negb (is_created s1 c) || aw && (me =? 0)) eqn:G; [apply onceD_bad; auto|].
    apply orb_false_elim in G. destruct G as (G1&G2). apply negb_false_iff in G1.
    apply onceD_sp_dispose.
    + eapply onceD_ext; [apply onceD_set_started; eauto; discriminate|]. intros; symmetry; apply flight1.
    + exact X1.
    + intros E. eapply ctx_main_aw; eauto.
  - (* IStart *)
    set (s1 := ensure_made s c). assert (O1 : once s1) by (apply onceD_ensure_made; auto).
    assert (X1 : ctx_ok s1 me) by (apply ctx_ensure; auto).
    destruct (negb (is_created s1 c)) eqn:G; [apply onceD_bad; auto|]. apply negb_false_iff in G.
    destruct (fstt (fs s1 f)) eqn:FS; try (apply onceD_bad; auto).
    set (s2 := set_fs s1 (upd (fs s1) f (mkFut (FPend []) true))).
    assert (O2 : once s2).
    { unfold once, onceD, s2 in *. cbn. eapply once_fs_same; eauto. intros g. unfold upd, chain_of.
      destruct (Nat.eqb g f) eqn:GF; auto. apply Nat.eqb_eq in GF. subst g. rewrite FS. reflexivity. }
    assert (O3 : onceD (bump zero c) (set_started s2 c (BFut f))) by (apply onceD_set_started; auto; discriminate).
    cbn [active set_started ev set_coro set_cs set_fs s2]. fold s2.
    destruct X1 as [(C&->&A)|(C&A)]; rewrite A.
    + unfold once, onceD in *. cbn in *. rewrite C in O3. eapply once_sched; eauto.
      intros x. unfold hc. cbn. rewrite cnt_cons. unfold bump, zero. lia.
    + unfold once, onceD, run_c in *. cbn in *. rewrite C in O3. eapply once_sched; eauto.
      intros x. rewrite !hc_run. cbn [nests insts]. rewrite cnt_cons. unfold bump, zero. lia.
  - (* IStartP *)
    set (s1 := ensure_made s c). assert (O1 : once s1) by (apply onceD_ensure_made; auto).
    assert (X1 : ctx_ok s1 me) by (apply ctx_ensure; auto).
    destruct (negb (is_created s1 c) || aw && (me =? 0)) eqn:G; [apply onceD_bad; auto|].
    apply orb_false_elim in G. destruct G as (G1&G2). apply negb_false_iff in G1.
    assert (Z : forall st', fstt (fs s1 f) = st' -> st' <> FNone ->
              once (if claimed (fs s1 f) then ev s1 (ERetB me false)
                    else sp_dispose (ev (set_started (set_fs s1 (upd (fs s1) f (mkFut (fstt (fs s1 f)) true))) c (BFut f)) (ERetB me true)) me [c] aw)).
    { intros st' FS NN. destruct (claimed (fs s1 f)); [apply onceD_ev; auto|].
      set (s2 := set_fs s1 (upd (fs s1) f (mkFut (fstt (fs s1 f)) true))).
      assert (O2 : once s2).
      { unfold once, onceD, s2 in *. cbn. eapply once_fs_same; eauto. intros g. unfold upd, chain_of.
        destruct (Nat.eqb g f) eqn:GF; auto. apply Nat.eqb_eq in GF. subst g. reflexivity. }
      apply onceD_sp_dispose.
      - apply onceD_ev. eapply onceD_ext; [apply onceD_set_started; eauto; discriminate|]. intros; symmetry; apply flight1.
      - exact X1.
      - intros E. eapply ctx_main_aw; eauto. }
    destruct (fstt (fs s1 f)) eqn:FS; [apply onceD_bad; auto| |]; eapply Z; eauto; discriminate.
  - (* ICoAwait *)
    destruct (Nat.eqb me 0) eqn:M0; [apply onceD_bad; auto|].
    set (s1 := ensure_made s c). assert (O1 : once s1) by (apply onceD_ensure_made; auto).
    assert (X1 : ctx_ok s1 me) by (apply ctx_ensure; auto). destruct (ctx_run s1 me X1 M0) as (C&A).
    destruct (negb (is_created s1 c)) eqn:G; [apply onceD_bad; auto|]. apply negb_false_iff in G.
    unfold once, onceD, run_c in *. cbn. rewrite C in O1.
    apply (once_coawait _ _ _ _ _ me c (script (cs s1 me)) O1 (is_created_stat s1 c G)).
  - (* IMkFut *)
    destruct (fstt (fs s f)) eqn:FS; try (apply onceD_bad; auto).
    unfold once, onceD in *. cbn. eapply once_fs_same; eauto. intros g. unfold upd, chain_of.
    destruct (Nat.eqb g f) eqn:GF; auto. apply Nat.eqb_eq in GF. subst g. rewrite FS. reflexivity.
  - (* IResolve *)
    destruct (aw && (me =? 0)) eqn:G; [apply onceD_bad; auto|].
    assert (Z : once (if claimed (fs s f) then ev s (ERetB me false)
                      else sp_dispose (ev (ev (set_fs s (upd (fs s) f (mkFut (FReady r) true))) (ESet me f r)) (ERetB me true)) me (chain_of (fs s f)) aw)).
    { destruct (claimed (fs s f)); [apply onceD_ev; auto|]. apply onceD_sp_dispose.
      - apply onceD_ev, onceD_ev. unfold once, onceD in *. cbn. eapply once_sched; [apply (once_clear _ _ _ _ _ _ f r true O)|].
        intros; reflexivity.
      - exact X.
      - intros E. eapply ctx_main_aw; eauto. }
    destruct (fstt (fs s f)) eqn:FS; [apply onceD_bad; auto| |]; exact Z.
  - (* IAwait *)
    destruct (Nat.eqb me 0) eqn:M0; [apply onceD_bad; auto|]. destruct (ctx_run s me X M0) as (C&A).
    destruct (fstt (fs s f)) eqn:FS; [apply onceD_bad; auto| |apply onceD_ev; auto].
    unfold once, onceD in *. cbn. rewrite C in O.
    assert (HR : hc (CRun me) (stack s) (queue s) me > 0) by (rewrite hc_run, Nat.eqb_refl; lia).
    pose proof (once_set_script_held _ _ _ _ _ _ me (IGotF f :: script (cs s me)) O HR) as O1.
    assert (CH : chain_of (fs s f) = chain) by (unfold chain_of; rewrite FS; reflexivity).
    rewrite <- CH. eapply once_subscribe; eauto. rewrite upd_same. reflexivity.
  - (* IRet *)
    destruct (Nat.eqb me 0) eqn:M0; [apply onceD_bad; auto|]. destruct (ctx_run s me X M0) as (C&A). apply once_finish; auto.
  - (* IThrow *)
    destruct (Nat.eqb me 0) eqn:M0; [apply onceD_bad; auto|]. destruct (ctx_run s me X M0) as (C&A). apply once_finish; auto.
  - (* IGotF *) destruct (fstt (fs s f)); try (apply onceD_bad; auto). apply onceD_ev; auto.
  - (* IGotC *) apply onceD_ev; auto.
  - (* IBad *) apply onceD_bad; auto.
Qed.

Lemma once_step_ret : forall s, once s -> cur s = CRet -> once (step_ret s).
Proof.
  intros s O C. unfold step_ret. unfold once, onceD in *. rewrite C in O.
  destruct (stack s) as [|[hs|r] rest] eqn:K.
  - cbn. rewrite K. eapply once_sched; eauto.
  - destruct hs as [|h hs].
    + destruct (queue s) as [|x q] eqn:Q.
      * cbn. rewrite Q. eapply once_sched; eauto.
      * unfold run_c. cbn. eapply once_sched; eauto. intros c. rewrite hc_run, (hc_norun CRet) by reflexivity.
        rewrite ?K. cbn [nests insts app]. rewrite cnt_cons. unfold zero. lia.
    + unfold run_c. cbn. eapply once_sched; eauto. intros c. rewrite hc_run, (hc_norun CRet) by reflexivity.
      rewrite ?K. cbn [nests insts app]. rewrite !cnt_cons. unfold zero. lia.
  - cbn. eapply once_sched; eauto. intros c. rewrite hc_run, (hc_norun CRet) by reflexivity.
    rewrite ?K. cbn [nests insts app]. rewrite cnt_cons. unfold zero. lia.
Qed.

Lemma once_step : forall s, shape s -> once s -> once (step s).
Proof.
  intros s S O. unfold step. destruct (cur s) eqn:C.
  - destruct (shape_cur_main s S C) as (A&K&Q).
    destruct (mainp s) as [|i rest].
    + unfold once, onceD in *. cbn. rewrite C in O. eapply once_sched; eauto.
    + assert (O1 : once (exec (set_mainp s rest) 0 i)).
      { apply once_exec; [apply onceD_set_mainp; auto|]. left. cbn. auto. }
      unfold idle_if_main. destruct (cur (exec (set_mainp s rest) 0 i)); auto.
  - destruct (shape_cur_code s c S C) as (A&W).
    destruct (script (cs s c)) as [|i rest] eqn:SC.
    + apply once_finish; auto.
    + apply once_exec.
      * unfold once, onceD in *. cbn. rewrite C in *.
        change (mkCoro (stat (cs s c)) rest (bound (cs s c)) (result (cs s c))) with (reScript (cs s c) rest).
        apply once_set_script_held; auto. rewrite hc_run, Nat.eqb_refl. lia.
      * right. cbn. auto.
  - apply once_step_ret; auto.
  - exact O.
Qed.

Definition good (s : st) : Prop := shape s /\ once s.

Lemma good_step : forall s, good s -> good (step s).
Proof. intros s (S&O). split; [apply shape_step; auto|apply once_step; auto]. Qed.

Theorem once_reach : forall p m n, once (steps n (init p m)).
Proof.
  intros. assert (G : good (steps n (init p m))).
  { apply (inv_steps good good_step). split; [apply shape_init|apply once_init]. }
  apply G.
Qed.

(* ---------- each once, in list form ---------- *)
Definition held (s : st) : list nat := curlf (cur s) ++ nests (stack s) ++ insts (stack s) ++ queue s.

(* C05 each_once: in every reachable state
   - the scheduler-side handles (running coroutine, callers inside start(), handles waiting inside install_queue_and_call,
     ready queue) are pairwise distinct, and each awaiter chain is duplicate free;
   - a coroutine in a chain is in none of the scheduler-side places, in no other chain, and is not a waiting parent;
   - a coroutine co_awaiting a child is in none of those places;
   - only Started coroutines are anywhere: not-yet-started and finished ones have no handle at all. *)
Theorem each_once : forall p m n,
  let s := steps n (init p m) in
  NoDup (held s) /\
  (forall f, NoDup (chain_of (fs s f))) /\
  (forall f c, In c (chain_of (fs s f)) ->
      ~ In c (held s) /\ (forall g, In c (chain_of (fs s g)) -> g = f) /\
      (forall x, stat (cs s x) = Started -> bound (cs s x) <> BParent c)) /\
  (forall x p', stat (cs s x) = Started -> bound (cs s x) = BParent p' ->
      ~ In p' (held s) /\ forall y, stat (cs s y) = Started -> bound (cs s y) = BParent p' -> y = x) /\
  (forall c, In c (held s) \/ (exists f, In c (chain_of (fs s f))) \/ (exists x, stat (cs s x) = Started /\ bound (cs s x) = BParent c) ->
      stat (cs s c) = Started) /\
  (forall c, stat (cs s c) = Started ->
      In c (held s) \/ (exists f, In c (chain_of (fs s f))) \/ (exists x, stat (cs s x) = Started /\ bound (cs s x) = BParent c)).
Proof.
  intros p m n s. pose proof (once_reach p m n) as O. fold s in O. unfold once, onceD in O.
  assert (HC : forall c, cnt c (held s) = hc (cur s) (stack s) (queue s) c).
  { intros. unfold held, hc. rewrite !cnt_app. lia. }
  split; [|split; [|split; [|split; [|split]]]].
  - apply cnt_le1_nodup. intros c. rewrite HC. pose proof (o1 _ _ _ _ _ _ O c). pose proof (st1f_le (cs s) c). unfold zero in *. lia.
  - intros f. apply cnt_le1_nodup. intros c.
    destruct (in_dec Nat.eq_dec c (chain_of (fs s f))) as [I|I]; [|rewrite (cnt_notin _ _ I); lia].
    destruct (chain_member _ _ _ _ _ _ O f c I) as (_&_&_&E&_). lia.
  - intros f c H. destruct (chain_member _ _ _ _ _ _ O f c H) as (_&Z&_&_&r1&S1). split; [|split].
    + intros I'. apply cnt_in in I'. rewrite HC in I'. lia.
    + intros g I'. destruct (chain_member _ _ _ _ _ _ O g c I') as (_&_&_&_&r2&S2). congruence.
    + intros x S B. destruct (parent_waits _ _ _ _ _ _ O x c S B) as (_&_&_&r2&S2). congruence.
  - intros x p' H H0. destruct (parent_waits _ _ _ _ _ _ O x p' H H0) as (_&Z&_&r1&S1). split.
    + intros I'. apply cnt_in in I'. rewrite HC in I'. lia.
    + intros y S B. destruct (parent_waits _ _ _ _ _ _ O y p' S B) as (_&_&_&r2&S2). congruence.
  - intros c [I|[(f&I)|(x&S&B)]].
    + apply cnt_in in I. rewrite HC in I. destruct (held_started _ _ _ _ _ _ O c I) as (S&_). exact S.
    + destruct (chain_member _ _ _ _ _ _ O f c I) as (S&_). exact S.
    + destruct (parent_waits _ _ _ _ _ _ O x c S B) as (S'&_). exact S'.
  - intros c S. pose proof (o1 _ _ _ _ _ _ O c) as E. unfold st1f in E. rewrite S in E. unfold zero in E.
    destruct (Nat.eq_dec (hc (cur s) (stack s) (queue s) c) 0) as [Z|Z].
    + right. unfold Wf in E. destruct (script (cs s c)) as [|i t]; [lia|]. destruct i; try lia.
      * left. exists f. apply cnt_in. lia.
      * right. exists c0. unfold pw in E. destruct (stat (cs s c0)) eqn:S0; try lia. destruct (bound (cs s c0)) eqn:B0; try lia.
        destruct (Nat.eqb p0 c) eqn:PC; try lia. apply Nat.eqb_eq in PC. subst. auto.
    + left. apply cnt_in. rewrite HC. lia.
Qed.
