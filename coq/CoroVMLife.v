(* CoroVMLife.v — life cycle accounting over the log (C04 run level): per coroutine, the numbers of Mk / Bind / Fin / Free
   events are functions of its status, hence each at most one; uses CoroVMOnce (the running coroutine is Started). *)
From Cocls Require Import Base CoroVMDefs CoroVMProofs CoroVMOnce.
Local Open Scope nat_scope.

Definition is_mk (c : nat) (e : event) : bool := match e with EMk x => Nat.eqb x c | _ => false end.
Definition is_free (c : nat) (e : event) : bool := match e with EFree x => Nat.eqb x c | _ => false end.
Definition is_fin (c : nat) (e : event) : bool := match e with EFin x _ => Nat.eqb x c | _ => false end.
Definition is_bind (c : nat) (e : event) : bool := match e with EBind x _ => Nat.eqb x c | _ => false end.
Definition nev (P : event -> bool) (l : list event) : nat := length (filter P l).
Arguments nev : simpl never.
Definition life_event (e : event) : Prop := match e with EMk _ | EFree _ | EFin _ _ | EBind _ _ => True | _ => False end.

Lemma nev_cons : forall P e l, nev P (e :: l) = (if P e then 1 else 0) + nev P l.
Proof. intros. unfold nev. cbn. destruct (P e); reflexivity. Qed.

Definition lifeP (l : list event) (C : nat -> coro) (M : list nat) : Prop := forall c,
  (stat (C c) <> Unmade -> In c M) /\
  nev (is_mk c) l = (match stat (C c) with Unmade => 0 | _ => 1 end) /\
  nev (is_free c) l = (match stat (C c) with Done => 1 | _ => 0 end) /\
  nev (is_bind c) l = (match stat (C c) with Started => 1 | Done => nev (is_fin c) l | _ => 0 end) /\
  nev (is_fin c) l <= (match stat (C c) with Done => 1 | _ => 0 end).
Definition life (s : st) : Prop := lifeP (log s) (cs s) (made s).

Lemma life_init : forall p m, life (init p m).
Proof. intros p m c. cbn. repeat split; auto; congruence. Qed.

Lemma life_ev : forall s e, life s -> ~ life_event e -> life (ev s e).
Proof.
  intros s e L N c. specialize (L c). unfold life, lifeP in *. cbn [log ev cs]. rewrite !nev_cons.
  destruct e; cbn in N; try tauto; cbn; exact L.
Qed.
Lemma life_set_fs : forall s x, life s -> life (set_fs s x). Proof. auto. Qed.
Lemma life_set_mainp : forall s x, life s -> life (set_mainp s x). Proof. auto. Qed.
Lemma life_set_cur : forall s x, life s -> life (set_cur s x). Proof. auto. Qed.
Lemma life_set_stack : forall s x, life s -> life (set_stack s x). Proof. auto. Qed.
Lemma life_set_active : forall s x, life s -> life (set_active s x). Proof. auto. Qed.
Lemma life_set_queue : forall s x, life s -> life (set_queue s x). Proof. auto. Qed.
Lemma life_set_script : forall s c l, life s -> life (set_script s c l).
Proof.
  intros s c l L x. specialize (L x). unfold life, lifeP, set_script in *. cbn. unfold upd.
  destruct (Nat.eqb x c) eqn:E; auto. apply Nat.eqb_eq in E. subst. cbn. exact L.
Qed.
Lemma life_enq : forall s c b w, life s -> life (enq s c b w).
Proof. intros. unfold enq. apply life_ev; auto. Qed.
Lemma life_enq_all : forall l s b w, life s -> life (enq_all s l b w).
Proof. induction l; intros; cbn [enq_all]; auto using life_enq. Qed.
Lemma life_run_c : forall s x, life s -> life (run_c s x).
Proof. intros. unfold run_c. apply life_set_cur, life_ev; auto. Qed.
Lemma life_bad : forall s me, life s -> life (bad s me).
Proof. intros. apply life_ev; auto. Qed.
#[local] Hint Resolve life_set_fs life_set_mainp life_set_cur life_set_stack life_set_active life_set_queue
  life_set_script life_enq life_enq_all life_run_c life_bad : core.

Ltac life_ev_tac := repeat (apply life_ev; [|cbn; tauto]); auto.

Lemma eqb_sym_false : forall a b, Nat.eqb a b = false -> Nat.eqb b a = false.
Proof. intros. rewrite Nat.eqb_sym. auto. Qed.

(* the four life-cycle transitions *)
Lemma life_make : forall s c, life s -> stat (cs s c) = Unmade -> life (make s c).
Proof.
  intros s c L U x. pose proof (L x) as Lx. unfold life, lifeP, make in *. cbn. rewrite !nev_cons. cbn. unfold upd.
  destruct (Nat.eqb x c) eqn:E.
  - apply Nat.eqb_eq in E. subst x. rewrite U in Lx. rewrite Nat.eqb_refl. cbn. split; [intros; apply in_or_app; right; left; auto|lia].
  - rewrite (eqb_sym_false _ _ E). destruct Lx as (L0&Lx). split; [intros; apply in_or_app; left; auto|exact Lx].
Qed.
Lemma life_ensure_made : forall s c, life s -> life (ensure_made s c).
Proof. intros. unfold ensure_made. destruct (stat (cs s c)) eqn:S; auto. destruct (Nat.eqb c 0); auto using life_make. Qed.

Lemma life_set_started : forall s c b, life s -> is_created s c = true -> life (set_started s c b).
Proof.
  intros s c b L K x. pose proof (L x) as Lx. apply is_created_stat in K.
  unfold life, lifeP, set_started in *. cbn. rewrite !nev_cons. cbn. unfold upd.
  destruct (Nat.eqb x c) eqn:E.
  - apply Nat.eqb_eq in E. subst x. rewrite K in Lx. rewrite Nat.eqb_refl. cbn. destruct Lx as (L0&Lx). split; [intros; apply L0; discriminate|lia].
  - rewrite (eqb_sym_false _ _ E). exact Lx.
Qed.

Lemma life_drop : forall s c, life s -> is_created s c = true ->
  life (ev (set_coro s c (mkCoro Done [] BNone RNone)) (EFree c)).
Proof.
  intros s c L K x. pose proof (L x) as Lx. apply is_created_stat in K.
  unfold life, lifeP in *. cbn. rewrite !nev_cons. cbn. unfold upd.
  destruct (Nat.eqb x c) eqn:E.
  - apply Nat.eqb_eq in E. subst x. rewrite K in Lx. rewrite Nat.eqb_refl. cbn. destruct Lx as (L0&Lx). split; [intros; apply L0; discriminate|lia].
  - rewrite (eqb_sym_false _ _ E). exact Lx.
Qed.

Lemma life_finish : forall s c r, life s -> stat (cs s c) = Started -> life (finish s c r).
Proof.
  intros s c r L S. unfold finish.
  assert (L3 : forall F, life (ev (set_coro (set_fs (ev s (EFin c r)) F) c (mkCoro Done [] (bound (cs s c)) r)) (EFree c))).
  { intros F x. pose proof (L x) as Lx. unfold life, lifeP in *. cbn. rewrite !nev_cons. cbn. unfold upd.
    destruct (Nat.eqb x c) eqn:E.
    - apply Nat.eqb_eq in E. subst x. rewrite S in Lx. rewrite Nat.eqb_refl. cbn. destruct Lx as (L0&Lx). split; [intros; apply L0; discriminate|lia].
    - rewrite (eqb_sym_false _ _ E). exact Lx. }
  destruct (bound (cs s c)) as [|f|p]; cbn [fst snd].
  - apply life_set_cur. apply (L3 (fs s)).
  - destruct (chain_of (fs (ev s (EFin c r)) f)) as [|h t]; [apply life_set_cur; apply L3|apply life_run_c, life_enq_all; apply L3].
  - apply life_run_c, life_enq_all. apply (L3 (fs s)).
Qed.
#[local] Hint Resolve life_ensure_made : core.

Lemma life_sp_dispose : forall s me hs aw, life s -> life (sp_dispose s me hs aw).
Proof.
  intros. unfold sp_dispose. destruct hs; auto. destruct aw.
  - apply life_run_c, life_enq, life_enq_all. life_ev_tac.
  - destruct (active s); auto.
Qed.
#[local] Hint Resolve life_sp_dispose : core.

Lemma life_exec : forall s me i, life s -> (Nat.eqb me 0 = false -> stat (cs s me) = Started) -> life (exec s me i).
Proof.
  intros s me i L R. destruct i; cbn [exec].
  - life_ev_tac.
  - destruct (Nat.eqb me 0); auto.
    destruct (queue (enq (ev s (ESusp me)) me me why_pause)) as [|x q] eqn:Q.
    + apply life_set_cur, life_enq. life_ev_tac.
    + apply life_run_c. apply life_ev; [|cbn; tauto]. apply life_set_queue, life_enq. life_ev_tac.
  - destruct (stat (cs s c)) eqn:S; auto. destruct (Nat.eqb c 0); auto using life_make.
  - destruct (is_created s c) eqn:K; auto. apply life_drop; auto.
  - destruct (negb (is_created (ensure_made s c) c) || aw && (me =? 0)) eqn:G; auto.
    apply orb_false_elim in G. destruct G as (G1&_). apply negb_false_iff in G1.
    apply life_sp_dispose. apply life_set_started; auto.
  - destruct (negb (is_created (ensure_made s c) c)) eqn:G; auto. apply negb_false_iff in G.
    destruct (fstt (fs (ensure_made s c) f)); auto.
    set (s1 := set_started _ c (BFut f)).
    assert (L1 : life s1) by (apply life_set_started; auto).
    destruct (active s1); [apply life_run_c, life_set_stack; life_ev_tac|auto].
  - destruct (negb (is_created (ensure_made s c) c) || aw && (me =? 0)) eqn:G; auto.
    apply orb_false_elim in G. destruct G as (G1&_). apply negb_false_iff in G1.
    destruct (fstt (fs (ensure_made s c) f)); auto;
      (destruct (claimed _); [life_ev_tac|apply life_sp_dispose; apply life_ev; [|cbn; tauto]; apply life_set_started; auto]).
  - destruct (Nat.eqb me 0); auto.
    destruct (negb (is_created (ensure_made s c) c)) eqn:G; auto. apply negb_false_iff in G.
    apply life_run_c. apply life_ev; [|cbn; tauto]. apply life_set_script, life_set_started; auto.
  - destruct (fstt (fs s f)); auto.
  - destruct (aw && (me =? 0)); auto.
    destruct (fstt (fs s f)); auto; (destruct (claimed _); [life_ev_tac|apply life_sp_dispose; life_ev_tac]).
  - destruct (Nat.eqb me 0); auto. destruct (fstt (fs s f)); auto; try solve [life_ev_tac].
  - destruct (Nat.eqb me 0) eqn:M; auto. apply life_finish; auto.
  - destruct (Nat.eqb me 0) eqn:M; auto. apply life_finish; auto.
  - destruct (fstt (fs s f)); auto; try life_ev_tac.
  - life_ev_tac.
  - auto.
Qed.

Lemma life_step : forall s, good s -> life s -> life (step s).
Proof.
  intros s (S&O) L. unfold step. destruct (cur s) eqn:C.
  - destruct (mainp s) as [|i rest].
    + apply life_set_cur. life_ev_tac.
    + assert (L1 : life (exec (set_mainp s rest) 0 i)) by (apply life_exec; auto; discriminate).
      unfold idle_if_main. destruct (cur (exec (set_mainp s rest) 0 i)); auto.
  - unfold once, onceD in O. destruct (cur_started _ _ _ _ _ _ O c C) as (SC&_).
    destruct (script (cs s c)) as [|i rest].
    + apply life_finish; auto.
    + apply life_exec; auto. intros _. cbn. rewrite upd_same. cbn. exact SC.
  - unfold step_ret. destruct (stack s) as [|[hs|r] rest]; auto.
    destruct hs as [|h hs]; auto. destruct (queue s); auto.
  - exact L.
Qed.

Definition good2 (s : st) : Prop := good s /\ life s.
Lemma good2_step : forall s, good2 s -> good2 (step s).
Proof. intros s (G&L). split; [apply good_step; auto|apply life_step; auto]. Qed.

Theorem life_reach : forall p m n, life (steps n (init p m)).
Proof.
  intros. assert (G : good2 (steps n (init p m))).
  { apply (inv_steps good2 good2_step). split; [split; [apply shape_init|apply once_init]|apply life_init]. }
  apply G.
Qed.

(* ---------- C04 run level ---------- *)
(* frame_once: over any run prefix a frame is allocated at most once and freed at most once; it has been freed exactly when
   the coroutine is Done; nothing is freed that was not allocated *)
Theorem frame_once : forall p m n c,
  let s := steps n (init p m) in
  nev (is_mk c) (log s) <= 1 /\ nev (is_free c) (log s) <= nev (is_mk c) (log s) /\
  (nev (is_mk c) (log s) = 1 <-> stat (cs s c) <> Unmade) /\
  (nev (is_free c) (log s) = 1 <-> stat (cs s c) = Done).
Proof.
  intros p m n c s. destruct (life_reach p m n c) as (_&A&B&_). fold s in A, B.
  destruct (stat (cs s c)); rewrite A, B; repeat split; intros; try lia; try congruence; try discriminate.
Qed.

(* body_once: the body of a coroutine finishes at most once; it can only have finished if the coroutine was started (bound)
   exactly once and its frame was freed; a started, unfinished coroutine has not been freed *)
Theorem body_once : forall p m n c,
  let s := steps n (init p m) in
  nev (is_fin c) (log s) <= 1 /\ nev (is_bind c) (log s) <= 1 /\
  nev (is_fin c) (log s) <= nev (is_bind c) (log s) /\ nev (is_fin c) (log s) <= nev (is_free c) (log s) /\
  (stat (cs s c) = Started -> nev (is_bind c) (log s) = 1 /\ nev (is_fin c) (log s) = 0 /\ nev (is_free c) (log s) = 0) /\
  (stat (cs s c) = Created -> nev (is_bind c) (log s) = 0 /\ nev (is_fin c) (log s) = 0 /\ nev (is_free c) (log s) = 0).
Proof.
  intros p m n c s. destruct (life_reach p m n c) as (_&A&B&D&E). fold s in A, B, D, E.
  destruct (stat (cs s c)); repeat split; intros; try lia; try discriminate.
Qed.

Lemma count_stat_zero : forall s b c, count_stat s b = 0 -> In c (made s) ->
  match stat (cs s c) with Started => b = false | Created => b = true | _ => True end.
Proof.
  intros s b c Z I. unfold count_stat in Z. apply length_zero_iff_nil in Z.
  assert (N : ~ In c (filter (fun c0 => match stat (cs s c0) with Started => b | Created => negb b | _ => false end) (made s))).
  { rewrite Z. intros []. }
  rewrite filter_In in N. destruct (stat (cs s c)); auto; destruct b; auto; exfalso; apply N; auto.
Qed.

(* terminal states: when the main script is over and no coroutine is stuck or left unstarted (EEnd 0 0), every frame ever
   allocated has been freed exactly once, and every coroutine that was started has finished its body exactly once *)
Theorem terminal_all_freed : forall p m n c,
  let s := steps n (init p m) in
  count_stat s true = 0 -> count_stat s false = 0 ->
  nev (is_free c) (log s) = nev (is_mk c) (log s) /\ nev (is_fin c) (log s) = nev (is_bind c) (log s).
Proof.
  intros p m n c s Z1 Z2. destruct (life_reach p m n c) as (I&A&B&D&E). fold s in I, A, B, D, E.
  destruct (stat (cs s c)) eqn:S; try lia.
  - assert (In c (made s)) by (apply I; discriminate). pose proof (count_stat_zero s false c Z2 H) as X. rewrite S in X. discriminate.
  - assert (In c (made s)) by (apply I; discriminate). pose proof (count_stat_zero s true c Z1 H) as X. rewrite S in X. discriminate.
Qed.
