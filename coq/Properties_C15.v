(* Properties_C15.v — C15: Signal: every waiting listener gets every value; disconnect wakes all.
   Only statements; every proof is `exact <lemma of SignalProofs>`.
   Quantification: any state s of the model (any number of listeners and callbacks in the chain, any
   scripts, any queue contents) resp. any op sequence from the initial state; both driver modes;
   signal<T> and signal<void>. *)
From Cocls Require Import Base BaseProofs SignalXDefs SignalXProofs SignalDefs SignalProofs.
Local Open Scope Z_scope.

(* A collector call from ordinary code, or one whose suspend point is co_awaited (nothing left queued by an
   earlier discarded call): the deliveries made before the call's effects end are exactly one per listener in
   the chain at the exchange — callbacks in chain order, then the coroutines in the order the suspend point
   runs them — each with exactly the emitted value; the returned suspend point holds exactly the waiting
   coroutines; no coroutine is left "resumed but not run"; only callbacks of that chain are freed. *)
Theorem c15_broadcast : forall s kind awaited v s' o,
  step s (OEmit kind awaited v) = (s', o) -> o_st o = 0 ->
  (m_coro s = false \/ awaited = true) -> not_ready (queue s) ->
  delivs (o_ev o) = map (fun i => (i, emitted s v)) (cbs (chain s) ++ sp_order (m_coro s) (cos (chain s)))
  /\ o_ret o = zlen (cos (chain s))
  /\ not_ready (queue s')
  /\ incl (freeds (o_ev o)) (cbs (chain s)).
Proof. exact broadcast. Qed.
Print Assumptions c15_broadcast.

(* Last strong handle dropped: every callback object in the chain is freed exactly once (in chain order) and
   never called, no value is delivered, the chain is empty afterwards; from ordinary code every waiting
   coroutine logs exactly one cancel script (resumed once with await_canceled_exception, its retries are
   cancelled at once, then it returns) inside the op; in a coroutine they are queued, each once. *)
Theorem c15_disconnect : forall s s' o, strong s = 1%nat -> step s ODrop = (s', o) ->
  o_st o = 0 /\ strong s' = 0%nat /\ chain s' = [] /\
  freeds (o_ev o) = cbs (chain s) /\ delivs (o_ev o) = [] /\
  (m_coro s = false -> cancel_log (ready_items (cos (chain s))) (co_evs (o_ev o)) /\ queue s' = queue s) /\
  (m_coro s = true -> co_evs (o_ev o) = [] /\ queue s' = queue s ++ ready_items (cos (chain s))).
Proof. exact disconnect. Qed.
Print Assumptions c15_disconnect.

(* ... and the queued ones are cancelled, each once, as soon as the driver suspends *)
Theorem c15_disconnect_queued : forall s s' o, strong s = 0%nat -> m_coro s = true -> step s OPause = (s', o) ->
  cancel_log (queue s) (o_ev o) /\ queue s' = [] /\ chain s' = chain s /\ strong s' = 0%nat.
Proof. exact disconnect_queued. Qed.
Print Assumptions c15_disconnect_queued.

(* awaiting a disconnected emitter: cancelled immediately (r+1 times for r retries), never suspended:
   the coroutine is neither in the chain nor in the queue afterwards *)
Theorem c15_await_disconnected : forall s i lim p r s' o, strong s = 0%nat -> get (tab s) i = None ->
  step s (OSpawn i lim p r) = (s', o) ->
  o_st o = 0 /\ o_ev o = dead_await r i /\ chain s' = chain s /\ queue s' = queue s /\ strong s' = 0%nat.
Proof. exact await_disconnected. Qed.
Print Assumptions c15_await_disconnected.

(* connecting to a signal without state: the callback object is allocated, never called, freed at once *)
Theorem c15_connect_disconnected : forall s i lim s' o, strong s = 0%nat -> get (tab s) i = None ->
  step s (OConnect i lim) = (s', o) ->
  o_ev o = [EFree i] /\ o_new o = 1 /\ o_del o = 1 /\ chain s' = chain s /\ queue s' = queue s.
Proof. exact connect_disconnected. Qed.
Print Assumptions c15_connect_disconnected.

(* for every op sequence: operator new - operator delete = callback objects subscribed in the chain;
   once the state is gone the chain stays empty, so nothing leaks and nothing is freed twice *)
Theorem c15_callback_alloc_balance : forall coro vd ops,
  let r := run_from (st0 coro vd) ops in
  sum_new (fst r) - sum_del (fst r) = ncb (snd r) /\
  (strong (snd r) = 0%nat -> sum_new (fst r) = sum_del (fst r) /\ chain (snd r) = []).
Proof. exact callback_alloc_balance. Qed.
Print Assumptions c15_callback_alloc_balance.

(* A listener that does nothing but re-await: resumed with a value it logs exactly that value and is back at the
   head of the chain before its resumption ends — before the collector (or anything else) can run again — with
   unchanged script; together with c15_broadcast (everybody in the chain gets the value) this is why it misses none. *)
Theorem c15_reawait_rejoins : forall s g v, await_resume s = Some v ->
  l_limit (getl s g) = O -> l_pause (getl s g) = false ->
  exists s', co_resumed g s = (s', [ERecv g v; EAwait g], false) /\
     chain s' = (g, false) :: chain s /\ queue s' = queue s /\ same_val s s' /\
     l_limit (getl s' g) = O /\ l_pause (getl s' g) = false /\
     (forall inl, run_item inl (g, true) s = (s', [ERecv g v; EAwait g])).
Proof. exact reawait_rejoins. Qed.
Print Assumptions c15_reawait_rejoins.

(* Run level.  A listener g whose script is `for(;;) co_await e;`, subscribed while the state is alive, and a driver that
   never discards the collector's result inside a coroutine nor keeps it in a variable (ordinary code, or co_await of the result): for EVERY op
   sequence that follows (any other listeners/callbacks with any scripts arriving and leaving, handle copies and drops,
   pauses), every accepted collector call delivers its value to g inside that very op: g misses none. *)
Theorem c15_reawait_misses_none : forall g s r ops,
  alive s = true -> not_ready (queue s) -> held s = [] -> get (tab s) g = None ->
  Forall (disc_op (m_coro s)) ops ->
  none_missed g (fst (step s (OSpawn g 0 false r))) ops.
Proof. exact reawait_misses_none. Qed.
Print Assumptions c15_reawait_misses_none.

(* Run level: for every op sequence from the initial state (any ops, also discarded results, kept suspend points,
   hook-up), no listener id occurs twice among the chain, the ready queue and the kept suspend points — a listener is
   never subscribed / queued / held twice. *)
Theorem c15_unique_ids : forall coro vd ops, NoDup (ids (snd (run_from (st0 coro vd) ops))).
Proof. exact unique_ids. Qed.
Print Assumptions c15_unique_ids.

(* ... hence exactly once at run level: after ANY op sequence, a collector call from ordinary code or an awaited one
   (nothing pending) delivers without repetition, exactly to the listeners in the chain, exactly the emitted value. *)
Theorem c15_exactly_once : forall coro vd ops kind awaited v,
  let s := snd (run_from (st0 coro vd) ops) in
  let r := step s (OEmit kind awaited v) in
  o_st (snd r) = 0 -> (m_coro s = false \/ awaited = true) -> not_ready (queue s) ->
  NoDup (delivs (o_ev (snd r))) /\
  (forall i w, In (i, w) (delivs (o_ev (snd r))) <-> In i (cids (chain s)) /\ w = emitted s v).
Proof. exact exactly_once. Qed.
Print Assumptions c15_exactly_once.

(* A suspend point kept in a variable and destroyed with nothing in between behaves exactly like a discarded one. *)
Theorem c15_hold_release : forall s kind v s1 o1 s2 o2 s' o,
  held s = [] ->
  step s (OEmitHold kind v) = (s1, o1) -> o_st o1 = 0 -> step s1 ORelease = (s2, o2) ->
  step s (OEmit kind false v) = (s', o) ->
  s2 = s' /\ o_st o = 0 /\ o_ev o1 ++ o_ev o2 = o_ev o /\ o_ret o1 = o_ret o.
Proof. exact hold_release. Qed.
Print Assumptions c15_hold_release.

(* hook_up_emitter: a listener hooked up from ordinary code with script `for(;;) co_await e;` receives, inside the hook-up
   itself, every value the registration function emits through the collector it was handed — the coroutine is subscribed
   before the registration function runs. *)
Theorem c15_hook_up_receives : forall vd g r keep k s' o,
  step (st0 false vd) (OHookUp g 0 false r keep k) = (s', o) ->
  forall j, (1 <= j <= k)%nat -> In (g, if vd then 0 else 900 + Z.of_nat j) (delivs (o_ev o)).
Proof. exact hook_up_receives. Qed.
Print Assumptions c15_hook_up_receives.

(* Subscribers on other threads against the collector's exchanges, every schedule, any number of subscribers and
   exchanges, every CAS attempt its own step: the rounds the collector took plus the chain contain exactly the
   subscribers whose CAS succeeded, each exactly once (never lost, never doubled); so a subscriber that published
   before an exchange is in that round or an earlier one, and one that publishes after it is in the chain for the next. *)
Theorem c15_concurrent_subscribe : forall ids k sched, NoDup ids ->
  let c := cs_run (cs0 ids k) sched in
  Permutation (concat (c_rounds c) ++ c_head c) (published c) /\
  NoDup (concat (c_rounds c) ++ c_head c) /\
  incl (published c) ids /\
  (forall x, In x ids -> ~ In x (published c) -> ~ In x (concat (c_rounds c) ++ c_head c)).
Proof. exact concurrent_subscribe. Qed.
Print Assumptions c15_concurrent_subscribe.

(* lock-freedom of the subscribe loop in the model: an unpublished subscriber that takes two steps in a row publishes *)
Theorem c15_subscribe_two_attempts : forall c j x, nth_error (c_subs c) j = Some x -> spub x = false ->
  exists y, nth_error (c_subs (cs_thread (cs_thread c j) j)) j = Some y /\ spub y = true /\ sid y = sid x.
Proof. exact cs_two_attempts. Qed.
Print Assumptions c15_subscribe_two_attempts.

(* The cross-thread model that the controlled-schedule harness (harness/ctl_signal.cpp) follows step by step — subscribers
   of all kinds (coroutine, blocking .wait() on a future coroutine, connect(callback), detached async) on their own threads,
   one collector thread calling and dropping, the state's destructor running on whichever thread releases the last
   reference, yields at asub/apub/rchain/walk/flag wait: for every case, every schedule, any length, every listener id is
   at every moment in exactly one place — before its CAS, in the chain, held by a thread walking a taken chain, or
   finished (resumed once / freed once / future resolved once): never lost, never doubled. *)
Theorem c15_cross_thread_conservation : forall ops fuel sched,
  let thr := flat_map decode_thr ops in
  let s := fst (xrun fuel (x_init thr) sched) in
  (forall x, SignalXProofs.cnt x (all_ids s) = SignalXProofs.cnt x (subs_from thr O)) /\ NoDup (all_ids s).
Proof. exact x_conservation. Qed.
Print Assumptions c15_cross_thread_conservation.

(* ... and when every thread has finished, every subscriber is either still subscribed or finished exactly once *)
Theorem c15_cross_thread_terminal : forall ops fuel sched,
  let thr := flat_map decode_thr ops in
  let s := fst (xrun fuel (x_init thr) sched) in
  Forall (fun p => p = XDone) (x_pcs s) ->
  forall x, In x (subs_from thr O) ->
  SignalXProofs.cnt x (map fst (x_chain s) ++ flat_map ev_fin (x_ev s) ++ map fst (x_resolved s)) = 1%nat.
Proof. exact x_terminal. Qed.
Print Assumptions c15_cross_thread_terminal.

(* The statement of C15 does NOT hold for a collector called inside a coroutine whose result is discarded and
   that is called again before the coroutine suspends (finding F-C15): listener 1 waits when 1 and is in the
   chain when 1 is emitted, yet the only value it ever receives is 3; the trace oracle rejects the run. *)
Theorem c15_discard_overrun_refuted :
  let ops := [OSpawn 1 0 false 0; OEmit 0 false 1; OEmit 0 false 2; OEmit 0 true 3; OPause] in
  let r := run_from (st0 true false) ops in
  cos (chain (snd (run_from (st0 true false) [OSpawn 1 0 false 0]))) = [1%nat] /\
  delivs (flat_map o_ev (fst r)) = [(1%nat, 3)] /\
  sg_oracle true false false [[0;1;0;0;0];[2;0;0;1];[2;0;0;2];[2;0;1;3];[5]]
            (sg_run true false [[0;1;0;0;0];[2;0;0;1];[2;0;0;2];[2;0;1;3];[5]]) = false.
Proof. exact discard_overrun_witness. Qed.
Print Assumptions c15_discard_overrun_refuted.

(* non-vacuity: a reachable state with two callbacks and three coroutines in the chain meets the hypotheses of
   c15_broadcast (awaited call inside a coroutine), and a reachable state meets those of c15_disconnect *)
Example c15_nonvacuous :
  let s := snd (run_from (st0 true false)
             [OSpawn 1 0 false 0; OConnect 2 0; OSpawn 3 2 true 1; OConnect 4 1; OSpawn 5 0 false 0; OEmit 2 true 7]) in
  not_ready (queue s) /\ chain s = [(5%nat, false); (1%nat, false); (2%nat, true)] /\ queue s = [(3%nat, false)] /\
  o_st (snd (step s (OEmit 0 true 8))) = 0 /\
  delivs (o_ev (snd (step s (OEmit 0 true 8)))) = [(2%nat, 8); (1%nat, 8); (5%nat, 8)] /\
  strong s = 1%nat /\ freeds (o_ev (snd (step s ODrop))) = [2%nat].
Proof. vm_compute. repeat split; try reflexivity. intros it [H|[]]. subst it. reflexivity. Qed.

(* hook_up_emitter (first op of a case): with the collector kept, listener 1 is subscribed to a state whose only handle is
   the driver's and receives what is emitted; with the collector dropped the state dies inside the first await and the
   listener is cancelled (at once from ordinary code, at the driver's next suspension in a coroutine) *)
Example c15_hook_up :
  flat_map o_ev (fst (run_from (st0 false false) [OHookUp 1 0 false 1 true 0; OEmit 0 false 5; ODrop]))
    = [EAwait 1; ERecv 1 5; EAwait 1; ECancel 1 1; EAwait 1; ECancel 1 0; EFin 1] /\
  flat_map o_ev (fst (run_from (st0 false false) [OHookUp 1 0 false 0 false 0])) = [EAwait 1; ECancel 1 0; EFin 1] /\
  map o_ev (fst (run_from (st0 true false) [OHookUp 1 0 false 0 false 0; OPause])) = [[EAwait 1]; [ECancel 1 0; EFin 1]].
Proof. vm_compute. repeat split. Qed.

(* non-vacuity of c15_reawait_misses_none: the initial state meets its hypotheses (both driver modes) *)
Example c15_reawait_nonvacuous : forall coro vd,
  alive (st0 coro vd) = true /\ not_ready (queue (st0 coro vd)) /\ held (st0 coro vd) = [] /\ get (tab (st0 coro vd)) 7 = None /\
  Forall (disc_op (m_coro (st0 coro vd))) [OSpawn 2 1 true 0; OConnect 3 2; OEmit 0 coro 5; OEmit 2 coro 6; OCopy; ODrop; OEmit 1 coro 8].
Proof.
  intros coro vd. split; [reflexivity|]. split; [intros ? []|]. split; [reflexivity|]. split; [reflexivity|].
  destruct coro; (repeat (apply Forall_cons; [cbn; auto|])); apply Forall_nil.
Qed.
