(* placeholder, replaced below *)
From Cocls Require Import Base SignalDefs.
Theorem c15_placeholder : True. Proof. exact I. Qed.
Print Assumptions c15_placeholder.
