(* StorageObjDefs.v — storage OBJECTS as values (C19): several reusable_storage objects that are move-constructed /
   move-assigned (coro_storage.h:33-43) and destroyed, and several stack_storage objects (alloca_storage.h:26-61) that
   share one learned-size state and are each used for more than one coroutine call.  The main model (StorageDefs.v) has
   one storage object (reusable) resp. one fresh stack_storage per call; this model covers what lies between:
   reserve, then learn, then alloc on one object; two objects on one state; a moved-from object used again.
   Blocks / heap as in StorageDefs.v.  Model only; proofs in StorageObjProofs.v. *)
From Cocls Require Import Base StorageDefs.
Local Open Scope Z_scope.

Record obj := mkObj {
  ob_ptr : option nat;   (* reusable_storage::_ptr *)
  ob_cap : Z;            (* reusable_storage::_capacity *)
  ob_asz : Z;            (* stack_storage::_alloc_size, fixed by the constructor (:29) *)
  ob_area : nat          (* stack_storage::_alloc_ptr: the area the caller reserved with (size_t)storage bytes (:31-36) *)
}.
Record ofr := mkOf { of_obj : nat; of_blk : blk; of_sz : Z; of_room : Z; of_del : bool (* its dealloc deletes the block *) }.
Record ost2 := mkS2 {
  o2_hp : heap;
  o2_state : Z;                      (* the shared std::size_t the stack_storage objects refer to *)
  o2_objs : list (nat * obj);
  o2_frs : list (nat * ofr);
  o2_areas : nat
}.

Fixpoint aget {A} (l : list (nat * A)) (i : nat) : option A :=
  match l with [] => None | (k, x) :: t => if Nat.eqb i k then Some x else aget t i end.
Fixpoint adel {A} (l : list (nat * A)) (i : nat) : list (nat * A) :=
  match l with [] => [] | (k, x) :: t => if Nat.eqb i k then adel t i else (k, x) :: adel t i end.
Definition aput {A} (l : list (nat * A)) (i : nat) (x : A) : list (nat * A) := (i, x) :: adel l i.

Fixpoint uses (j : nat) (l : list (nat * ofr)) : bool :=
  match l with [] => false | (_, f) :: t => Nat.eqb j (of_obj f) || uses j t end.
Fixpoint overlaps2 (b : blk) (l : list (nat * ofr)) : Z :=
  match l with [] => 0 | (_, f) :: t => (if blk_eqb b (of_blk f) then 1 else 0) + overlaps2 b t end.

Inductive op2 :=
| PInit (a : Z) | PNew (j : nat) | PCreate (slot j : nat) (sz : Z) | PFinish (slot : nat)
| PMoveAssign (j i : nat) | PMoveCtor (j i : nat) | PDrop (j : nat) | PBad.

Definition max_objs : nat := 8.

(* structural validity + the one-live-frame-per-object contract of both policies *)
Definition ok2 (stk : bool) (s : ost2) (o : op2) : bool :=
  match o with
  | PInit a => (0 <=? a) && match o2_objs s, o2_frs s with [], [] => true | _, _ => false end
  | PNew j => (j <? max_objs)%nat && match aget (o2_objs s) j with None => true | Some _ => false end
  | PCreate slot j sz =>
      (slot <? max_slots)%nat && (0 <? sz) && match aget (o2_frs s) slot with None => true | Some _ => false end
      && match aget (o2_objs s) j with Some _ => true | None => false end && negb (uses j (o2_frs s))
  | PFinish slot => match aget (o2_frs s) slot with Some _ => true | None => false end
  | PMoveAssign j i =>
      negb stk && negb (Nat.eqb j i)
      && match aget (o2_objs s) j, aget (o2_objs s) i with Some _, Some _ => true | _, _ => false end
      && negb (uses j (o2_frs s)) && negb (uses i (o2_frs s))
  | PMoveCtor j i =>
      negb stk && (j <? max_objs)%nat
      && match aget (o2_objs s) j, aget (o2_objs s) i with None, Some _ => true | _, _ => false end
      && negb (uses i (o2_frs s))
  | PDrop j => match aget (o2_objs s) j with Some _ => true | None => false end && negb (uses j (o2_frs s))
  | PBad => false
  end.

Definition dcount (h0 h1 : heap) : list Z := [h_allocs h1 - h_allocs h0; h_frees h1 - h_frees h0].

Definition exec2 (stk : bool) (s : ost2) (o : op2) : ost2 * list Z :=
  let h := o2_hp s in
  match o with
  | PInit a => (mkS2 h a (o2_objs s) (o2_frs s) (o2_areas s), [0; 0; 0])
  | PNew j =>
      (* reusable_storage() = default; stack_storage(state) :29 + `storage = alloca(storage)` :31-36 *)
      let ob := if stk then mkObj None 0 (o2_state s) (o2_areas s) else mkObj None 0 0 0 in
      (mkS2 h (o2_state s) (aput (o2_objs s) j ob) (o2_frs s) (if stk then S (o2_areas s) else o2_areas s), [0; 0; 0])
  | PCreate slot j sz =>
      match aget (o2_objs s) j with
      | None => (s, [1])
      | Some ob =>
          if stk then
            if sz + 1 <=? ob_asz ob then                     (* alloca_storage.h:39-42 *)
              let f := mkOf j (BOwn (ob_area ob)) sz (ob_asz ob) false in
              (mkS2 h (o2_state s) (o2_objs s) ((slot, f) :: o2_frs s) (o2_areas s),
               [0; 0; 0; 0; ob_asz ob; overlaps2 (BOwn (ob_area ob)) (o2_frs s)])
            else                                             (* :44-48 *)
              let '(h1, id) := hnew h (sz + 1) in
              let f := mkOf j (BHeap id) sz (sz + 1) true in
              (mkS2 h1 (sz + 1) (o2_objs s) ((slot, f) :: o2_frs s) (o2_areas s),
               0 :: dcount h h1 ++ [1; sz + 1; overlaps2 (BHeap id) (o2_frs s)])
          else
            if sz >? ob_cap ob then                          (* coro_storage.h:49-53 *)
              let h1 := hdel_opt h (ob_ptr ob) in
              let '(h2, id) := hnew h1 sz in
              let f := mkOf j (BHeap id) sz sz false in
              (mkS2 h2 (o2_state s) (aput (o2_objs s) j (mkObj (Some id) sz 0 0)) ((slot, f) :: o2_frs s) (o2_areas s),
               0 :: dcount h h2 ++ [1; sz; overlaps2 (BHeap id) (o2_frs s)])
            else                                             (* :54 *)
              let f := mkOf j (optblk (ob_ptr ob)) sz (ob_cap ob) false in
              (mkS2 h (o2_state s) (o2_objs s) ((slot, f) :: o2_frs s) (o2_areas s),
               [0; 0; 0; 0; ob_cap ob; overlaps2 (optblk (ob_ptr ob)) (o2_frs s)])
      end
  | PFinish slot =>
      match aget (o2_frs s) slot with
      | None => (s, [1])
      | Some f =>
          let h1 := if of_del f then hdel_blk h (of_blk f) else h in     (* alloca_storage.h:52-55 / coro_storage.h:56 *)
          (mkS2 h1 (o2_state s) (o2_objs s) (adel (o2_frs s) slot) (o2_areas s),
           0 :: dcount h h1 ++ [b2z (released h1 (of_blk f)); 1; of_sz f])
      end
  | PMoveAssign j i =>                                       (* coro_storage.h:36-43 *)
      match aget (o2_objs s) j, aget (o2_objs s) i with
      | Some oj, Some oi =>
          let h1 := hdel_opt h (ob_ptr oj) in                                   (* :38 *)
          let objs1 := aput (aput (o2_objs s) j (mkObj (ob_ptr oi) (ob_cap oi) 0 0)) i (mkObj None 0 0 0) in   (* :39-40 *)
          (mkS2 h1 (o2_state s) objs1 (o2_frs s) (o2_areas s), 0 :: dcount h h1)
      | _, _ => (s, [1])
      end
  | PMoveCtor j i =>                                         (* coro_storage.h:33-35 *)
      match aget (o2_objs s) i with
      | Some oi =>
          let objs1 := aput (aput (o2_objs s) j (mkObj (ob_ptr oi) (ob_cap oi) 0 0)) i (mkObj None 0 0 0) in
          (mkS2 h (o2_state s) objs1 (o2_frs s) (o2_areas s), [0; 0; 0])
      | None => (s, [1])
      end
  | PDrop j =>                                               (* ~reusable_storage :45-47; ~stack_storage: nothing *)
      match aget (o2_objs s) j with
      | Some ob =>
          let h1 := if stk then h else hdel_opt h (ob_ptr ob) in
          (mkS2 h1 (o2_state s) (adel (o2_objs s) j) (o2_frs s) (o2_areas s), 0 :: dcount h h1)
      | None => (s, [1])
      end
  | PBad => (s, [1])
  end.

Definition step2 (stk : bool) (s : ost2) (o : op2) : ost2 * list Z :=
  if ok2 stk s o then exec2 stk s o else (s, [1]).

Fixpoint run2 (stk : bool) (s : ost2) (l : list op2) : list (list Z) * ost2 :=
  match l with
  | [] => ([], s)
  | o :: t => let '(s1, ob) := step2 stk s o in let '(obs, s2) := run2 stk s1 t in (ob :: obs, s2)
  end.
Definition s2_0 : ost2 := mkS2 heap0 0 [] [] 0.

Definition zn (z : Z) : nat := Z.to_nat z.
Definition decode2 (l : list Z) : op2 :=
  match l with
  | [0; a] => PInit a
  | [4; j] => if 0 <=? j then PNew (zn j) else PBad
  | [1; slot; j; _; sz] => if (0 <=? slot) && (0 <=? j) then PCreate (zn slot) (zn j) sz else PBad
  | [2; slot] => if 0 <=? slot then PFinish (zn slot) else PBad
  | [5; j; i] => if (0 <=? j) && (0 <=? i) then PMoveAssign (zn j) (zn i) else PBad
  | [6; j; i] => if (0 <=? j) && (0 <=? i) then PMoveCtor (zn j) (zn i) else PBad
  | [7; j] => if 0 <=? j then PDrop (zn j) else PBad
  | _ => PBad
  end.

Definition so_run (stk : bool) (ops : list (list Z)) : list (list Z) := fst (run2 stk s2_0 (map decode2 ops)).

(* trace oracle: size, exclusivity, release discipline, dealloc size, balance *)
Record oo := mkOO { oo_live : list (Z * Z); oo_al : Z; oo_fr : Z; oo_ok : bool }.
Definition ostep2 (stk : bool) (s : oo) (q : list Z * list Z) : oo :=
  let '(o, ob) := q in
  match o, ob with
  | _, [1] => s
  | [1; slot; _; _; sz], [0; al; fr; fresh; room; ovl] =>
      mkOO ((slot, sz) :: oo_live s) (oo_al s + al) (oo_fr s + fr)
           (oo_ok s && ((if stk then 1 else 0) <=? room - sz) && (ovl =? 0) && (0 <=? al) && (0 <=? fr)
            && (if fresh =? 0 then al =? 0 else true))
  | [2; slot], [0; al; fr; rel; can; dsz] =>
      mkOO (zassoc_del slot (oo_live s)) (oo_al s + al) (oo_fr s + fr)
           (oo_ok s && zassoc_mem slot (oo_live s) && (al =? 0) && (fr =? rel) && ((rel =? 0) || (rel =? 1)) && (can =? 1)
            && (dsz =? zassoc_get slot (oo_live s)))
  | _, [0; al; fr] => mkOO (oo_live s) (oo_al s + al) (oo_fr s + fr) (oo_ok s && (0 <=? al) && (0 <=? fr))
  | _, _ => mkOO (oo_live s) (oo_al s) (oo_fr s) false
  end.
Definition so_oracle (stk : bool) (ops obs : list (list Z)) : bool :=
  let s := fold_left (ostep2 stk) (combine ops obs) (mkOO [] 0 0 true) in
  Nat.eqb (length ops) (length obs) && oo_ok s && (oo_al s =? oo_fr s) && match oo_live s with [] => true | _ => false end.
